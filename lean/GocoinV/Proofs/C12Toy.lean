/-
  Proofs.C12Toy — the toy universe (txA ← txB over one confirmed coin, keys `a + 16·v`) of the small non-vacuity examples
  of Props/C12 and the proof that it satisfies `Univ2` (moved out of Props/C12.lean, which holds property theorems only).
  Core Lean only.
-/
import GocoinV.Proofs.C12Good
namespace GocoinV.Props.C12
open GocoinV.Mempool

def txA : Tx := { id := 7, ins := [⟨1, 0, 0⟩], outs := [50], nws := 100, size := 100, scriptOk := true }
def txB : Tx := { id := 8, ins := [⟨7, 0, 0⟩], outs := [40], nws := 100, size := 100, scriptOk := true }

def W2 : Tx → Prop := fun t => t = txA ∨ t = txB

def K3 : Keys := { bidx := id, uidx := fun a v => a + 16 * v }
def u3 : UT := [((1, 0), ⟨60, 1, false⟩)]
def ν3 : OutPoint → Nat := fun o => if o.1 = 1 then 60 else if o.1 = 7 then [50].getD o.2 0 else [40].getD o.2 0

theorem univ3 : Univ2 K3 W2 id u3 ν3 := by
  have play : ∀ a : Nat, Play W2 a → a = 1 ∨ a = 7 ∨ a = 8 := by
    rintro a (⟨t, ht, rfl⟩ | ⟨t, ht, i, hi, rfl⟩)
    · rcases ht with rfl | rfl <;> simp [txA, txB]
    · rcases ht with rfl | rfl <;> simp [txA, txB] at hi <;> subst hi <;> simp
  refine ⟨⟨?_, ?_, ?_, ?_, ?_⟩, ?_, ?_, ?_, ?_, ?_⟩
  · intro a b _ _ h; exact h
  · intro c t hc ht i hi v h
    simp only [K3] at h
    rcases hc with rfl | rfl <;> rcases ht with rfl | rfl <;> simp [txA, txB] at hi <;> subst hi <;>
      simp [txA, txB] at h ⊢ <;> omega
  · intro a b ha hb h
    rcases ha with rfl | rfl <;> rcases hb with rfl | rfl <;> first | rfl | (simp [txA, txB] at h)
  · intro a ha; rcases ha with rfl | rfl <;> simp [txA, txB]
  · intro a ha i hi
    rcases ha with rfl | rfl <;> simp [txA, txB] at hi <;> subst hi <;> decide
  · intro a b _ _ h; exact h
  · intro (a : Nat) (b : Nat) (v : Nat) (w : Nat) ha hb _ _ h
    have h' : a + 16 * v = b + 16 * w := h
    clear h
    have pa := play a ha
    have pb := play b hb
    clear ha hb play
    show (a : Nat) = b ∧ v = w
    rcases pa with rfl | rfl | rfl <;> rcases pb with rfl | rfl | rfl <;> omega
  · intro t ht v
    rcases ht with rfl | rfl <;> simp [u3, txA, txB, AList.get?]
  · intro t ht v
    rcases ht with rfl | rfl <;> simp [ν3, txA, txB]
  · intro o c h
    simp only [u3, AList.get?] at h
    split at h
    · rename_i e; cases h; simp [ν3, ← e]
    · cases h

end GocoinV.Props.C12
