/-
  Proofs.C03Tweak — BIP341's "fail if Q is the point at infinity" on the model of
  `btc.CheckPayToContract`: an internal key d·G offered with the tweak n − d is refused whatever output
  key and parity bit are claimed (the sum is the point at infinity: d·G + (n−d)·G = n·G = ∞ by the group
  law of the reference curve).
-/
import GocoinV.Proofs.C03
import GocoinV.Proofs.C03Group
import GocoinV.Proofs.C03Curve
namespace GocoinV.Proofs.C03
open GocoinV GocoinV.Secp GocoinV.Model GocoinV.Model.Sig

/-- d·G + (n−d)·G = ∞ -/
theorem cancel_G (d : Nat) (hd : d ≤ n) : add (mul d G) (mul (n - d) G) = none := by
  rw [mul_G d, mul_G (n - d), ← val_add, ← add_nsmul, Nat.add_sub_cancel' hd, order_G]; rfl

/-- when lift_x(base) + t·G is the point at infinity the BIP341 check fails for every claim -/
theorem tapCheck_infinity (qx base hash : Bytes) (parity : Bool) (P : Nat × Nat)
    (hP : liftX (beVal base) = some P) (hinf : add (some P) (mul (beVal hash) G) = none) :
    Spec.TapTweak.check qx base hash parity = false := by
  unfold Spec.TapTweak.check
  split
  · rfl
  · simp only [hP]
    split
    · rfl
    · simp only [hinf]

theorem tweak_cancel_false (qx base hash : Bytes) (parity : Bool) (d : Nat) (hdn : d ≤ n)
    (hP : liftX (beVal base) = mul d G) (ht : beVal hash = n - d) :
    Sig.checkPayToContract qx base hash parity = false := by
  rw [tweak_eq]
  cases hm : mul d G with
  | none =>
    unfold Spec.TapTweak.check
    rw [hP, hm]; split <;> rfl
  | some P =>
    apply tapCheck_infinity qx base hash parity P (by rw [hP, hm])
    rw [ht, ← hm]; exact cancel_G d hdn

end GocoinV.Proofs.C03
