/-
  Proofs.C16Disk2 — the index-file invariant `Disk` and its preservation by every operation of one session
  (all option combinations: nothing here depends on retention).
-/
import GocoinV.Proofs.C16Disk
namespace GocoinV.BlockDB

/-- `n` counts the operations so far: it bounds the data-file number and (times 2^32) every data-file offset, which is
    what makes the 4-byte / 8-byte fields of the record lossless -/
structure Disk (env : Env) (s : State) (sp : Spec) (n : Nat) : Prop where
  mem : ∀ k r p, AL.get s.index k = some r → r.ipos = some p →
    keyOfRec env (recAt s.fs.idx p) = k ∧ Desc (recAt s.fs.idx p) r
  disk : ∀ p, p % 136 = 0 → p + 136 ≤ s.fs.idx.length → isInvalidRec (recAt s.fs.idx p) = false →
    ∃ r, AL.get s.index (keyOfRec env (recAt s.fs.idx p)) = some r ∧ r.ipos = some p
  specrec : ∀ k e r p, AL.get sp.m k = some e → e.tainted = false → AL.get s.index k = some r → r.ipos = some p →
    Meta (recAt s.fs.idx p) e
  idxspec : ∀ k r, AL.get s.index k = some r → ∃ e, AL.get sp.m k = some e
  ent : ∀ k e, AL.get sp.m k = some e → e.tainted = false → ∃ r, AL.get s.index k = some r
  qkey : ∀ b ∈ s.queue, b.idx = keyOf (env.hash (b.data.take 80))
  qsize : ∀ b ∈ s.queue, b.data.length ≤ 0xffffffff ∧ (env.enc b.data).length ≤ 0xffffffff ∧ b.height < 2^32 ∧ b.txcount < 2^32
  qseq : ∀ b ∈ s.queue, b.seq < s.nextSeq
  qmeta : ∀ b ∈ s.queue, ∀ r e, AL.get s.index b.idx = some r → r.seq = b.seq → r.ipos = none →
    AL.get sp.m b.idx = some e → e.tainted = false → b.data = e.raw ∧ b.height = e.height ∧ b.txcount = e.txcount
  cnt1 : s.maxdatfileidx + s.queue.length ≤ n
  cnt2 : s.maxdatfilepos + 2^32 * s.queue.length ≤ 2^32 * n
  recb : ∀ k r p, AL.get s.index k = some r → r.ipos = some p →
    r.fpos + r.blen ≤ 2^32 * n ∧ r.blen ≤ 0xffffffff ∧ r.datfileidx ≤ n
  /-- EVERY record of the index file — invalid-flagged ones included, which LoadBlockIndex reads for the file number —
      carries a data-file number ≤ n -/
  allidx : ∀ p, p % 136 = 0 → p + 136 ≤ s.fs.idx.length → field (recAt s.fs.idx p) 28 32 ≤ n

theorem meta_congr (c : Bytes) (e e' : SEnt) (h : Meta c e) (h1 : e.raw = e'.raw) (h2 : e.height = e'.height)
    (h3 : e.txcount = e'.txcount) : Meta c e' :=
  ⟨by rw [← h1]; exact h.olen, by rw [← h2]; exact h.height, by rw [← h3]; exact h.txs, by rw [← h1]; exact h.hdr, h.valid⟩

theorem disk_mono (env : Env) (s : State) (sp : Spec) (n n' : Nat) (h : Disk env s sp n) (hn : n ≤ n') : Disk env s sp n' := by
  have e : 2^32 * n ≤ 2^32 * n' := Nat.mul_le_mul_left _ hn
  refine ⟨h.mem, h.disk, h.specrec, h.idxspec, h.ent, h.qkey, h.qsize, h.qseq, h.qmeta, ?_, ?_, ?_, ?_⟩
  · have := h.cnt1; omega
  · have := h.cnt2; omega
  · intro k r p h1 h2
    have := h.recb k r p h1 h2
    omega
  · intro p h1 h2
    have := h.allidx p h1 h2
    omega

/-- the specification changes at key `k` only, keeping the stored block of an untainted entry -/
theorem disk_spec (env : Env) (s : State) (sp sp' : Spec) (n : Nat) (h : Disk env s sp n) (k : Key)
    (hm : ∀ k', k ≠ k' → AL.get sp'.m k' = AL.get sp.m k')
    (hk : ∀ e', AL.get sp'.m k = some e' → e'.tainted = false →
      ∃ e, AL.get sp.m k = some e ∧ e.tainted = false ∧ e.raw = e'.raw ∧ e.height = e'.height ∧ e.txcount = e'.txcount)
    (hex : ∀ e, AL.get sp.m k = some e → ∃ e', AL.get sp'.m k = some e') : Disk env s sp' n := by
  refine ⟨h.mem, h.disk, ?_, ?_, ?_, h.qkey, h.qsize, h.qseq, ?_, h.cnt1, h.cnt2, h.recb, h.allidx⟩
  · intro k' e' r p he' ht hr hp
    by_cases hkk : k = k'
    · subst hkk
      obtain ⟨e, he, hte, h1, h2, h3⟩ := hk e' he' ht
      exact meta_congr _ e e' (h.specrec k e r p he hte hr hp) h1 h2 h3
    · rw [hm k' hkk] at he'; exact h.specrec k' e' r p he' ht hr hp
  · intro k' r hr
    obtain ⟨e, he⟩ := h.idxspec k' r hr
    by_cases hkk : k = k'
    · subst hkk; exact hex e he
    · rw [hm k' hkk]; exact ⟨e, he⟩
  · intro k' e' he' ht
    by_cases hkk : k = k'
    · subst hkk
      obtain ⟨e, he, hte, _⟩ := hk e' he' ht
      exact h.ent k e he hte
    · rw [hm k' hkk] at he'; exact h.ent k' e' he' ht
  · intro b hb r e' hri hseq hip he' ht
    by_cases hkk : k = b.idx
    · rw [← hkk] at he'
      obtain ⟨e, he, hte, h1, h2, h3⟩ := hk e' he' ht
      have := h.qmeta b hb r e hri hseq hip (by rw [← hkk]; exact he) hte
      rw [← h1, ← h2, ← h3]; exact this
    · rw [hm _ hkk] at he'; exact h.qmeta b hb r e' hri hseq hip he' ht

/-- the index record of key `k` is replaced by one with the same disk fields (olen may differ; `trusted` may differ
    while the record is unwritten); files, queue, positions unchanged -/
theorem disk_update (env : Env) (s s' : State) (sp : Spec) (n : Nat) (h : Disk env s sp n) (k : Key) (r0 r' : Rec)
    (hr : AL.get s.index k = some r0)
    (hidx : ∀ k', AL.get s'.index k' = if k = k' then some r' else AL.get s.index k')
    (f1 : s'.fs.idx = s.fs.idx) (f2 : s'.queue = s.queue) (f6 : s'.nextSeq = s.nextSeq)
    (f7 : s'.maxdatfilepos = s.maxdatfilepos) (f8 : s'.maxdatfileidx = s.maxdatfileidx)
    (g1 : r'.fpos = r0.fpos) (g2 : r'.blen = r0.blen) (g3 : r'.datfileidx = r0.datfileidx)
    (g4 : r'.compressed = r0.compressed) (g5 : r'.snappied = r0.snappied) (g6 : r'.ipos = r0.ipos) (g7 : r'.seq = r0.seq)
    (g8 : r0.ipos = none ∨ r'.trusted = r0.trusted) : Disk env s' sp n := by
  refine ⟨?_, ?_, ?_, ?_, ?_, by rw [f2]; exact h.qkey, by rw [f2]; exact h.qsize, by rw [f2, f6]; exact h.qseq, ?_,
    by rw [f2, f8]; exact h.cnt1, by rw [f2, f7]; exact h.cnt2, ?_, by rw [f1]; exact h.allidx⟩
  · intro k' r p hh hp
    rw [hidx] at hh
    rw [f1]
    split at hh
    · rename_i e; subst e
      simp only [Option.some.injEq] at hh; subst hh
      rw [g6] at hp
      obtain ⟨m1, m2⟩ := h.mem k r0 p hr hp
      refine ⟨m1, ?_⟩
      have ht : r'.trusted = r0.trusted := by
        rcases g8 with g8 | g8
        · rw [g8] at hp; cases hp
        · exact g8
      exact ⟨by rw [g1]; exact m2.fpos, by rw [g2]; exact m2.blen, by rw [g3]; exact m2.dfi, m2.fl_len, m2.fl_idx,
        by rw [g4]; exact m2.fl_c, by rw [g5]; exact m2.fl_s, by rw [ht]; exact m2.fl_t, m2.olen⟩
    · exact h.mem k' r p hh hp
  · intro p hp1 hp2 hv
    rw [f1] at hp2 hv ⊢
    obtain ⟨r, hr1, hr2⟩ := h.disk p hp1 hp2 hv
    rw [hidx]
    split
    · rename_i e
      rw [← e, hr] at hr1; simp only [Option.some.injEq] at hr1; subst hr1
      exact ⟨r', rfl, by rw [g6]; exact hr2⟩
    · exact ⟨r, hr1, hr2⟩
  · intro k' e r p he ht hh hp
    rw [hidx] at hh
    rw [f1]
    split at hh
    · rename_i e1; subst e1
      simp only [Option.some.injEq] at hh; subst hh
      exact h.specrec k e r0 p he ht hr (by rw [← g6]; exact hp)
    · exact h.specrec k' e r p he ht hh hp
  · intro k' r hh
    rw [hidx] at hh
    split at hh
    · rename_i e1; subst e1; exact h.idxspec k r0 hr
    · exact h.idxspec k' r hh
  · intro k' e he ht
    obtain ⟨r, hr1⟩ := h.ent k' e he ht
    rw [hidx]
    split
    · exact ⟨_, rfl⟩
    · exact ⟨r, hr1⟩
  · intro b hb r e hri hseq hip he ht
    rw [f2] at hb
    rw [hidx] at hri
    split at hri
    · rename_i e1
      simp only [Option.some.injEq] at hri; subst hri
      exact h.qmeta b hb r0 e (by rw [← e1]; exact hr) (by rw [← g7]; exact hseq) (by rw [← g6]; exact hip) he ht
    · exact h.qmeta b hb r e hri hseq hip he ht
  · intro k' r p hh hp
    rw [hidx] at hh
    split at hh
    · simp only [Option.some.injEq] at hh; subst hh
      rw [g1, g2, g3]; exact h.recb k r0 p hr (by rw [← g6]; exact hp)
    · exact h.recb k' r p hh hp

/-- only fields the invariant does not read change (cache, clock, datToWrite, opts, isOpen) -/
theorem disk_same (env : Env) (s s' : State) (sp : Spec) (n : Nat) (h : Disk env s sp n)
    (f0 : s'.index = s.index) (f1 : s'.fs.idx = s.fs.idx) (f2 : s'.queue = s.queue) (f6 : s'.nextSeq = s.nextSeq)
    (f7 : s'.maxdatfilepos = s.maxdatfilepos) (f8 : s'.maxdatfileidx = s.maxdatfileidx) : Disk env s' sp n :=
  ⟨by rw [f0, f1]; exact h.mem, by rw [f0, f1]; exact h.disk, by rw [f0, f1]; exact h.specrec, by rw [f0]; exact h.idxspec,
   by rw [f0]; exact h.ent, by rw [f2]; exact h.qkey, by rw [f2]; exact h.qsize, by rw [f2, f6]; exact h.qseq,
   by rw [f0, f2]; exact h.qmeta, by rw [f2, f8]; exact h.cnt1, by rw [f2, f7]; exact h.cnt2, by rw [f0]; exact h.recb,
   by rw [f1]; exact h.allidx⟩

theorem chunk_apart (p p' : Nat) (h1 : p % 136 = 0) (h2 : p' % 136 = 0) (hne : p ≠ p') : p' + 136 ≤ p ∨ p + 1 ≤ p' := by
  omega

/-- `setBlockFlag` on a written record -/
theorem disk_flag (env : Env) (s : State) (sp : Spec) (n : Nat) (h : Disk env s sp n) (hi : IdxInv s) (k : Key) (r0 : Rec)
    (p : Nat) (fl : Nat) (hr : AL.get s.index k = some r0) (hp : r0.ipos = some p)
    (hfl : fl = BLOCK_TRUSTED ∨ fl = BLOCK_INVALID)
    (hinv : fl = BLOCK_INVALID → ∀ e, AL.get sp.m k = some e → e.tainted = true) :
    Disk env (setBlockFlag s k r0 fl) sp n := by
  obtain ⟨i0, _, i2, _, _, _, i6, i7, i8⟩ := setBlockFlag_fields s k r0 fl
  obtain ⟨pl, pm⟩ := hi.ipos k r0 p hr hp
  have plt : p < s.fs.idx.length := by omega
  have hfs : (setBlockFlag s k r0 fl).fs.idx = pwrite s.fs.idx p [UInt8.ofNat ((s.fs.idx.getD p 0).toNat ||| fl)] := by
    unfold setBlockFlag; simp only [hp]
  have hsame : ∀ p', p' % 136 = 0 → p' ≠ p → recAt (setBlockFlag s k r0 fl).fs.idx p' = recAt s.fs.idx p' := by
    intro p' hp' hne
    rw [hfs]
    rcases chunk_apart p p' pm hp' (Ne.symm hne) with c | c
    · exact recAt_pwrite_before _ _ _ _ plt c
    · exact recAt_pwrite_after _ _ _ _ plt c
  have hat : recAt (setBlockFlag s k r0 fl).fs.idx p = UInt8.ofNat (flagAt (recAt s.fs.idx p) ||| fl) :: (recAt s.fs.idx p).drop 1 := by
    rw [hfs, recAt_pwrite_at _ _ _ plt]
    unfold flagAt; rw [recAt_getD _ _ pl]
  have hlen : (setBlockFlag s k r0 fl).fs.idx.length = s.fs.idx.length := by
    rw [hfs]; exact pwrite_length_inside _ _ _ plt
  obtain ⟨mk, md⟩ := h.mem k r0 p hr hp
  -- positions of other keys differ from p
  have hother : ∀ k' r p', k ≠ k' → AL.get s.index k' = some r → r.ipos = some p' → p' % 136 = 0 ∧ p' ≠ p := by
    intro k' r p' hne h1 h2
    refine ⟨(hi.ipos k' r p' h1 h2).2, ?_⟩
    intro e
    have := (h.mem k' r p' h1 h2).1
    rw [e, mk] at this; exact hne this
  have hall : ∀ p', p' % 136 = 0 → p' + 136 ≤ (setBlockFlag s k r0 fl).fs.idx.length →
      field (recAt (setBlockFlag s k r0 fl).fs.idx p') 28 32 ≤ n := by
    intro p' hp1 hp2
    rw [hlen] at hp2
    by_cases e : p' = p
    · subst e
      rw [hat, field_cons_drop _ _ _ _ (by omega)]
      exact h.allidx p' hp1 hp2
    · rw [hsame p' hp1 e]; exact h.allidx p' hp1 hp2
  refine ⟨?_, ?_, ?_, ?_, ?_, by rw [i2]; exact h.qkey, by rw [i2]; exact h.qsize, by rw [i2, i6]; exact h.qseq, ?_,
    by rw [i2, i8]; exact h.cnt1, by rw [i2, i7]; exact h.cnt2, ?_, hall⟩
  · intro k' r p' hh hp'
    rw [i0] at hh
    split at hh
    · rename_i e; subst e
      simp only [Option.some.injEq] at hh; subst hh
      simp only [hp, Option.some.injEq] at hp'; subst hp'
      rw [hat]
      exact ⟨by rw [keyOfRec_cons_drop]; exact mk, desc_flag _ r0 fl hfl md⟩
    · rename_i hne
      obtain ⟨q1, q2⟩ := hother k' r p' hne hh hp'
      rw [hsame p' q1 q2]; exact h.mem k' r p' hh hp'
  · intro p' hp1 hp2 hv
    rw [hlen] at hp2
    by_cases e : p' = p
    · subst e
      rw [hat, keyOfRec_cons_drop, mk, i0, if_pos rfl]
      exact ⟨_, rfl, hp⟩
    · rw [hsame p' hp1 e] at hv ⊢
      obtain ⟨r, hr1, hr2⟩ := h.disk p' hp1 hp2 hv
      rw [i0]
      split
      · rename_i e1
        rw [← e1, hr] at hr1; simp only [Option.some.injEq] at hr1; subst hr1
        rw [hp] at hr2; simp only [Option.some.injEq] at hr2; exact absurd hr2.symm e
      · exact ⟨r, hr1, hr2⟩
  · intro k' e r p' he ht hh hp'
    rw [i0] at hh
    split at hh
    · rename_i e1; subst e1
      simp only [Option.some.injEq] at hh; subst hh
      simp only [hp, Option.some.injEq] at hp'; subst hp'
      rcases hfl with hf | hf
      · subst hf
        rw [hat]
        exact meta_flag_trusted _ e e (h.specrec k e r0 p he ht hr hp) rfl rfl rfl
      · rw [hinv hf e he] at ht; cases ht
    · rename_i hne
      obtain ⟨q1, q2⟩ := hother k' r p' hne hh hp'
      rw [hsame p' q1 q2]; exact h.specrec k' e r p' he ht hh hp'
  · intro k' r hh
    rw [i0] at hh
    split at hh
    · rename_i e1; subst e1; exact h.idxspec k r0 hr
    · exact h.idxspec k' r hh
  · intro k' e he ht
    obtain ⟨r, hr1⟩ := h.ent k' e he ht
    rw [i0]
    split
    · exact ⟨_, rfl⟩
    · exact ⟨r, hr1⟩
  · intro b hb r e hri hseq hip he ht
    rw [i2] at hb
    rw [i0] at hri
    split at hri
    · simp only [Option.some.injEq] at hri; subst hri
      simp only [hp] at hip; cases hip
    · exact h.qmeta b hb r e hri hseq hip he ht
  · intro k' r p' hh hp'
    rw [i0] at hh
    split at hh
    · simp only [Option.some.injEq] at hh; subst hh
      exact h.recb k r0 p hr hp
    · exact h.recb k' r p' hh hp'

/-- `setBlockFlag` on an unwritten record: only the in-memory trusted flag -/
theorem disk_flag_unwritten (env : Env) (s : State) (sp : Spec) (n : Nat) (h : Disk env s sp n) (k : Key) (r0 : Rec)
    (fl : Nat) (hr : AL.get s.index k = some r0) (hp : r0.ipos = none) :
    Disk env (setBlockFlag s k r0 fl) sp n := by
  obtain ⟨i0, _, i2, _, _, _, i6, i7, i8⟩ := setBlockFlag_fields s k r0 fl
  have hfs : (setBlockFlag s k r0 fl).fs.idx = s.fs.idx := by
    unfold setBlockFlag; simp only [hp]
  exact disk_update env s _ sp n h k r0 _ hr i0 hfs i2 i6 i7 i8 rfl rfl rfl rfl rfl rfl rfl (.inl hp)

/-- an entry without claim (tainted) whose key is not in the index can be dropped from the specification -/
theorem disk_spec_drop (env : Env) (s : State) (sp sp' : Spec) (n : Nat) (h : Disk env s sp n) (k : Key)
    (hm : ∀ k', k ≠ k' → AL.get sp'.m k' = AL.get sp.m k')
    (hnone : AL.get sp'.m k = none) (hidx : AL.get s.index k = none) : Disk env s sp' n := by
  refine ⟨h.mem, h.disk, ?_, ?_, ?_, h.qkey, h.qsize, h.qseq, ?_, h.cnt1, h.cnt2, h.recb, h.allidx⟩
  · intro k' e' r p he' ht hr hp
    by_cases hkk : k = k'
    · subst hkk; rw [hnone] at he'; cases he'
    · rw [hm k' hkk] at he'; exact h.specrec k' e' r p he' ht hr hp
  · intro k' r hr
    by_cases hkk : k = k'
    · subst hkk; rw [hidx] at hr; cases hr
    · rw [hm k' hkk]; exact h.idxspec k' r hr
  · intro k' e' he' ht
    by_cases hkk : k = k'
    · subst hkk; rw [hnone] at he'; cases he'
    · rw [hm k' hkk] at he'; exact h.ent k' e' he' ht
  · intro b hb r e' hri hseq hip he' ht
    by_cases hkk : k = b.idx
    · rw [← hkk, hnone] at he'; cases he'
    · rw [hm _ hkk] at he'; exact h.qmeta b hb r e' hri hseq hip he' ht

/-- BlockInvalid of a block that is still queued: forgotten -/
theorem disk_delete (env : Env) (s : State) (sp : Spec) (n : Nat) (h : Disk env s sp n) (k : Key) (r0 : Rec)
    (hr : AL.get s.index k = some r0) (hp : r0.ipos = none)
    (ht : ∀ e, AL.get sp.m k = some e → e.tainted = true) :
    Disk env { s with cache := AL.del s.cache k, index := AL.del s.index k } sp n := by
  refine ⟨?_, ?_, ?_, ?_, ?_, h.qkey, h.qsize, h.qseq, ?_, h.cnt1, h.cnt2, ?_, h.allidx⟩
  · intro k' r p hh hp'
    simp only [AL.get_del] at hh
    split at hh
    · cases hh
    · exact h.mem k' r p hh hp'
  · intro p hp1 hp2 hv
    obtain ⟨r, hr1, hr2⟩ := h.disk p hp1 hp2 hv
    simp only [AL.get_del]
    split
    · rename_i e
      rw [← e, hr] at hr1; simp only [Option.some.injEq] at hr1; subst hr1
      rw [hp] at hr2; cases hr2
    · exact ⟨r, hr1, hr2⟩
  · intro k' e r p he hte hh hp'
    simp only [AL.get_del] at hh
    split at hh
    · cases hh
    · exact h.specrec k' e r p he hte hh hp'
  · intro k' r hh
    simp only [AL.get_del] at hh
    split at hh
    · cases hh
    · exact h.idxspec k' r hh
  · intro k' e he hte
    obtain ⟨r, hr1⟩ := h.ent k' e he hte
    simp only [AL.get_del]
    split
    · rename_i e1; subst e1; rw [ht e he] at hte; cases hte
    · exact ⟨r, hr1⟩
  · intro b hb r e hri
    simp only [AL.get_del] at hri
    split at hri
    · cases hri
    · exact h.qmeta b hb r e hri
  · intro k' r p hh hp'
    simp only [AL.get_del] at hh
    split at hh
    · cases hh
    · exact h.recb k' r p hh hp'

/-! ### writing -/

theorem maybeRoll_pos (s : State) (n : Nat) :
    ((maybeRoll s n).maxdatfileidx = s.maxdatfileidx ∧ (maybeRoll s n).maxdatfilepos = s.maxdatfilepos) ∨
    ((maybeRoll s n).maxdatfileidx = s.maxdatfileidx + 1 ∧ (maybeRoll s n).maxdatfilepos = 0) := by
  unfold maybeRoll
  split
  · right; unfold rollOver; simp
  · left; exact ⟨rfl, rfl⟩

theorem maybeRoll_more (s : State) (n : Nat) :
    (maybeRoll s n).nextSeq = s.nextSeq ∧ (maybeRoll s n).opts = s.opts := by
  unfold maybeRoll
  split
  · unfold rollOver; simp
  · exact ⟨rfl, rfl⟩

theorem writeOne_disk (env : Env) (s s' : State) (sp : Spec) (n : Nat) (h : Disk env s sp n) (hi : IdxInv s)
    (ho : s.isOpen = true) (hn : n < 2^31) (hw : writeOne env s = some s') : Disk env s' sp n := by
  unfold writeOne at hw
  split at hw
  · cases hw
  · rename_i b q hq
    have hbq : b ∈ s.queue := by rw [hq]; simp
    have hsub : ∀ b' ∈ q, b' ∈ s.queue := fun b' hb' => by rw [hq]; simp [hb']
    have hlen : s.queue.length = q.length + 1 := by rw [hq]; simp
    have h0 : Disk env { s with queue := q, datToWrite := s.datToWrite - b.data.length } sp n :=
      ⟨h.mem, h.disk, h.specrec, h.idxspec, h.ent, fun b' hb' => h.qkey b' (hsub b' hb'), fun b' hb' => h.qsize b' (hsub b' hb'),
        fun b' hb' => h.qseq b' (hsub b' hb'), fun b' hb' => h.qmeta b' (hsub b' hb'),
        by have := h.cnt1; simp only; omega, by have := h.cnt2; simp only; omega, h.recb, h.allidx⟩
    simp only at hw
    split at hw
    · cases hw; exact h0
    · rename_i r0 hr0
      split at hw
      · cases hw; exact h0
      · rename_i hc
        simp only [Option.some.injEq] at hw
        subst hw
        have hseq : r0.seq = b.seq := by
          by_cases e : r0.seq = b.seq
          · exact e
          · exact absurd (Or.inl e) hc
        have hip : r0.ipos = none := by
          cases hh : r0.ipos with
          | none => rfl
          | some p => exact absurd (Or.inr (by simp [hh])) hc
        generalize hcb : (if s.opts.compress = true then env.enc b.data else b.data) = cbts
        obtain ⟨qs1, qs2, qs3, qs4⟩ := h.qsize b hbq
        have hb80 : b.data.length ≥ 80 := hi.queue b hbq
        have hcl : cbts.length ≤ 0xffffffff := by
          rw [← hcb]; split <;> assumption
        obtain ⟨f1, f2, f3, _, f5⟩ :=
          maybeRoll_facts { s with queue := q, datToWrite := s.datToWrite - b.data.length } cbts.length
        obtain ⟨f6, f7⟩ := maybeRoll_more { s with queue := q, datToWrite := s.datToWrite - b.data.length } cbts.length
        have hroll := maybeRoll_pos { s with queue := q, datToWrite := s.datToWrite - b.data.length } cbts.length
        generalize hs1 : maybeRoll { s with queue := q, datToWrite := s.datToWrite - b.data.length } cbts.length = s1 at *
        simp only at f1 f2 f3 f5 f6 f7 hroll
        have c1 := h.cnt1
        have c2 := h.cnt2
        have hmdi : s1.maxdatfileidx + q.length ≤ n := by rcases hroll with ⟨a, _⟩ | ⟨a, _⟩ <;> omega
        have hmdp : s1.maxdatfilepos + 2^32 * (q.length + 1) ≤ 2^32 * n := by rcases hroll with ⟨_, a⟩ | ⟨_, a⟩ <;> omega
        have hL : s1.maxidxfilepos = s.fs.idx.length := by rw [f5]; exact hi.pos ho
        have hlm := hi.len_mod
        -- the record written
        generalize hfl : mkRecord (flagsOf s1.opts.compress r0.trusted) s1.maxdatfileidx b.data.length b.height s1.maxdatfilepos
          cbts.length b.txcount b.data = fl
        have hfll : fl.length = 136 := by rw [← hfl]; exact mkRecord_length _ _ _ _ _ _ _ _ hb80
        have hidx' : (writeRecord s1 b r0 cbts).fs.idx = s.fs.idx ++ fl := by
          unfold writeRecord; simp only [hfl, hL, f1, pwrite_at_end]
        generalize hnr : ({ r0 with compressed := s1.opts.compress, snappied := s1.opts.compress, blen := cbts.length, datfileidx := s1.maxdatfileidx, fpos := s1.maxdatfilepos, ipos := some s1.maxidxfilepos } : Rec) = nrec
        have hix : ∀ k', AL.get (writeRecord s1 b r0 cbts).index k' = if b.idx = k' then some nrec else AL.get s.index k' := by
          intro k'; unfold writeRecord; simp only [hnr, f2, AL.get_set]
        have hq' : (writeRecord s1 b r0 cbts).queue = q := by unfold writeRecord; simp only [f3]
        have hns : (writeRecord s1 b r0 cbts).nextSeq = s.nextSeq := by unfold writeRecord; simp only [f6]
        have hmi : (writeRecord s1 b r0 cbts).maxdatfileidx = s1.maxdatfileidx := by unfold writeRecord; simp only
        have hmp : (writeRecord s1 b r0 cbts).maxdatfilepos = s1.maxdatfilepos + cbts.length := by unfold writeRecord; simp only
        have hnip : nrec.ipos = some s.fs.idx.length := by rw [← hnr, ← hL]
        have hdesc : Desc fl nrec := by
          rw [← hfl]
          refine desc_mkRecord _ _ _ _ _ _ _ _ _ nrec (by omega) (by omega) (by omega) (by omega) (by omega) ?_ ?_ ?_ ?_ ?_ ?_
          all_goals rw [← hnr]
        have hkey : keyOfRec env fl = b.idx := by
          rw [← hfl, keyOfRec_mkRecord _ _ _ _ _ _ _ _ _ hb80]; exact (h.qkey b hbq).symm
        have hold : ∀ p, p + 136 ≤ s.fs.idx.length → recAt (s.fs.idx ++ fl) p = recAt s.fs.idx p :=
          fun p hp => recAt_append_left _ _ _ hp
        refine ⟨?_, ?_, ?_, ?_, ?_, ?_, ?_, ?_, ?_, ?_, ?_, ?_, ?_⟩
        · intro k' r p hh hp
          rw [hix] at hh
          rw [hidx']
          split at hh
          · rename_i e; subst e
            simp only [Option.some.injEq] at hh; subst hh
            rw [hnip] at hp; simp only [Option.some.injEq] at hp; subst hp
            rw [recAt_append_new _ _ hfll]
            exact ⟨hkey, hdesc⟩
          · rw [hold p (hi.ipos k' r p hh hp).1]; exact h.mem k' r p hh hp
        · intro p hp1 hp2 hv
          rw [hidx'] at hp2 hv ⊢
          simp only [List.length_append, hfll] at hp2
          by_cases e : p = s.fs.idx.length
          · subst e
            rw [recAt_append_new _ _ hfll, hkey, hix, if_pos rfl]
            exact ⟨nrec, rfl, hnip⟩
          · have hp3 : p + 136 ≤ s.fs.idx.length := by omega
            rw [hold p hp3] at hv ⊢
            obtain ⟨r, hr1, hr2⟩ := h.disk p hp1 hp3 hv
            rw [hix]
            split
            · rename_i e1
              rw [← e1, hr0] at hr1; simp only [Option.some.injEq] at hr1; subst hr1
              rw [hip] at hr2; cases hr2
            · exact ⟨r, hr1, hr2⟩
        · intro k' e r p he ht hh hp
          rw [hix] at hh
          rw [hidx']
          split at hh
          · rename_i e1; subst e1
            simp only [Option.some.injEq] at hh; subst hh
            rw [hnip] at hp; simp only [Option.some.injEq] at hp; subst hp
            rw [recAt_append_new _ _ hfll, ← hfl]
            obtain ⟨m1, m2, m3⟩ := h.qmeta b hbq r0 e hr0 hseq hip he ht
            exact meta_mkRecord _ _ _ _ _ _ _ _ _ e hb80 qs3 (by omega) qs4 (by rw [m1]) m2 m3 m1
          · rw [hold p (hi.ipos k' r p hh hp).1]; exact h.specrec k' e r p he ht hh hp
        · intro k' r hh
          rw [hix] at hh
          split at hh
          · rename_i e1; subst e1; exact h.idxspec _ r0 hr0
          · exact h.idxspec k' r hh
        · intro k' e he ht
          obtain ⟨r, hr1⟩ := h.ent k' e he ht
          rw [hix]
          split
          · exact ⟨_, rfl⟩
          · exact ⟨r, hr1⟩
        · rw [hq']; exact fun b' hb' => h.qkey b' (hsub b' hb')
        · rw [hq']; exact fun b' hb' => h.qsize b' (hsub b' hb')
        · rw [hq', hns]; exact fun b' hb' => h.qseq b' (hsub b' hb')
        · rw [hq']
          intro b' hb' r e hri hseq' hip' he ht
          rw [hix] at hri
          split at hri
          · simp only [Option.some.injEq] at hri; subst hri
            rw [hnip] at hip'; cases hip'
          · exact h.qmeta b' (hsub b' hb') r e hri hseq' hip' he ht
        · rw [hq', hmi]; exact hmdi
        · rw [hq', hmp]; omega
        · intro k' r p hh hp
          rw [hix] at hh
          split at hh
          · simp only [Option.some.injEq] at hh; subst hh
            rw [← hnr]; simp only
            refine ⟨by omega, hcl, by omega⟩
          · exact h.recb k' r p hh hp
        · intro p hp1 hp2
          rw [hidx'] at hp2 ⊢
          simp only [List.length_append, hfll] at hp2
          by_cases e : p = s.fs.idx.length
          · subst e
            rw [recAt_append_new _ _ hfll, hdesc.dfi, ← hnr]
            simp only; omega
          · rw [hold p (by omega)]; exact h.allidx p hp1 (by omega)

theorem writeAll_disk (env : Env) (sp : Spec) (n : Nat) (hn : n < 2^31) : ∀ (f : Nat) (s : State), Disk env s sp n → IdxInv s →
    s.isOpen = true → Disk env (writeAll env f s) sp n := by
  intro f
  induction f with
  | zero => intro s h _ _; exact h
  | succ f ih =>
    intro s h hi ho
    unfold writeAll
    split
    · exact h
    · rename_i s' hw
      obtain ⟨a, b⟩ := writeOne_inv env s s' hi ho hw
      exact ih s' (writeOne_disk env s s' sp n h hi ho hn hw) a b

theorem flush_disk (env : Env) (s : State) (sp : Spec) (n : Nat) (hn : n < 2^31) (h : Disk env s sp n) (hi : IdxInv s)
    (ho : s.isOpen = true) : Disk env (flush env s) sp n :=
  writeAll_disk env sp n hn _ s h hi ho

end GocoinV.BlockDB
