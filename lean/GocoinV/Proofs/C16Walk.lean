/-
  Proofs.C16Walk — what LoadBlockIndex lists: the non-invalid records of the index file in file order,
  and the round trip of the 136-byte record written by `writeOne`.
-/
import GocoinV.Proofs.C16Load
namespace GocoinV.BlockDB

/-- the full 136-byte records of an index file, in file order -/
def chunks : Nat → Bytes → List Bytes
  | 0, _ => []
  | f + 1, file => if file.length < 136 then [] else file.take 136 :: chunks f (file.drop 136)

def isInvalidRec (b : Bytes) : Bool := hasFlag (b.getD 0 0).toNat BLOCK_INVALID

/-- what LoadBlockIndex hands to the walk callback for one record -/
def walkOf (env : Env) (b : Bytes) : WalkRec :=
  let hdr := (b.drop 56).take 80
  ⟨env.hash hdr, hdr, field b 36 40,
    if hasFlag (b.getD 0 0).toNat BLOCK_LENGTH then field b 32 36 else field b 48 52, field b 52 56⟩

theorem loadRecord_walk (env : Env) (a : LoadAcc) (b : Bytes) :
    (loadRecord env a b).walk = if isInvalidRec b then a.walk else walkOf env b :: a.walk := by
  unfold loadRecord isInvalidRec walkOf
  simp only
  split
  · split <;> exact (bumpInvalid_fields a _ b).2.2.1
  · rfl

theorem loadLoop_walk (env : Env) : ∀ (fuel : Nat) (file : Bytes) (a : LoadAcc),
    (loadLoop env fuel file a).walk
      = (((chunks fuel file).filter (fun b => !isInvalidRec b)).map (walkOf env)).reverse ++ a.walk := by
  intro fuel
  induction fuel with
  | zero => intro file a; simp [loadLoop, chunks]
  | succ f ih =>
    intro file a
    unfold loadLoop chunks
    simp only [recsize_eq]
    split
    · simp
    · rw [ih, loadRecord_walk]
      by_cases hi : isInvalidRec (List.take 136 file) = true
      · simp [hi]
      · simp [hi]

theorem drop_leBytes (k n m : Nat) (h : k ≤ m) : List.drop m (leBytes k n) = [] :=
  List.drop_eq_nil_of_le (by simp; exact h)

theorem field_mk (fl di ol he fp bl tx : Nat) (hdr : Bytes) :
    field (mkRecord fl di ol he fp bl tx hdr) 36 40 = he % 2^32 ∧
    field (mkRecord fl di ol he fp bl tx hdr) 32 36 = ol % 2^32 ∧
    field (mkRecord fl di ol he fp bl tx hdr) 52 56 = tx % 2^32 ∧
    field (mkRecord fl di ol he fp bl tx hdr) 48 52 = bl % 2^32 ∧
    field (mkRecord fl di ol he fp bl tx hdr) 40 48 = fp % 2^64 ∧
    field (mkRecord fl di ol he fp bl tx hdr) 28 32 = di % 2^32 := by
  simp [field, mkRecord, List.drop_append, leVal_leBytes, drop_leBytes]
theorem mkRecord_hdr (fl di ol he fp bl tx : Nat) (data : Bytes) (_hd : data.length ≥ 80) :
    ((mkRecord fl di ol he fp bl tx data).drop 56).take 80 = data.take 80 := by
  simp [mkRecord, List.drop_append, drop_leBytes]
  rw [List.take_take]; simp

theorem mkRecord_flag (fl di ol he fp bl tx : Nat) (data : Bytes) :
    ((mkRecord fl di ol he fp bl tx data).getD 0 0) = UInt8.ofNat fl := by
  simp [mkRecord]

/-- the record `writeOne` writes for a block is listed at the next restart with the block's own fields -/
theorem walkOf_mkRecord (env : Env) (c tr : Bool) (di ol he fp bl tx : Nat) (data : Bytes)
    (hd : data.length ≥ 80) (h1 : he < 2^32) (h2 : ol < 2^32) (h3 : tx < 2^32) :
    isInvalidRec (mkRecord (flagsOf c tr) di ol he fp bl tx data) = false ∧
    walkOf env (mkRecord (flagsOf c tr) di ol he fp bl tx data)
      = ⟨env.hash (data.take 80), data.take 80, he, ol, tx⟩ := by
  obtain ⟨f1, f2, f3, _, _, _⟩ := field_mk (flagsOf c tr) di ol he fp bl tx data
  unfold isInvalidRec walkOf
  simp only [mkRecord_hdr _ _ _ _ _ _ _ _ hd, mkRecord_flag, f1, f2, f3]
  have e1 : he % 2^32 = he := Nat.mod_eq_of_lt h1
  have e2 : ol % 2^32 = ol := Nat.mod_eq_of_lt h2
  have e3 : tx % 2^32 = tx := Nat.mod_eq_of_lt h3
  rw [e1, e2, e3]
  cases c <;> cases tr
  all_goals
    constructor
    · decide
    · rw [if_pos (by decide)]
end GocoinV.BlockDB

namespace GocoinV.BlockDB
/-- the reply of `reopen`: the walk callback sees exactly the non-invalid full records, in file order -/
theorem reopen_walk (env : Env) (fs : FS) (o : Opts) :
    (reopen env fs o).2 = .walk (((chunks (fs.idx.length / 136 + 1) fs.idx).filter (fun b => !isInvalidRec b)).map (walkOf env)) := by
  unfold reopen
  simp only [recsize_eq, loadLoop_walk]
  simp
end GocoinV.BlockDB
