/-
  Proofs.C01Multisig — OP_CHECKMULTISIG(VERIFY): gocoin's cursor arithmetic over the stack slice (ikey / isig /
  ikey2, clean-up loop with the NULLFAIL test while popping) against the spec's list form; signature deletion from
  the script code for every signature (well-formedness of the intermediate script codes), NULLDUMMY.
-/
import GocoinV.Proofs.C01Checksig
set_option linter.unusedSimpArgs false
namespace GocoinV.Proofs.C01
open GocoinV GocoinV.Script

/-- decoding one instruction only looks at the instruction's own bytes -/
theorem parseOne_append (b rest : Bytes) (i : ScriptSpec.Instr) (h : ScriptSpec.parseOne b = some i) :
    ScriptSpec.parseOne (b ++ rest) = some ⟨i.op, i.data, i.after ++ rest⟩ := by
  cases b with
  | nil => simp [ScriptSpec.parseOne] at h
  | cons c t =>
    simp only [ScriptSpec.parseOne, List.cons_append] at h ⊢
    by_cases hc : c.toNat ≤ 0x4e
    · simp only [hc, ↓reduceIte] at h ⊢
      generalize hk : (if c.toNat < 0x4c then 0 else if c.toNat = 0x4c then 1 else if c.toNat = 0x4d then 2 else 4) = k at h ⊢
      by_cases h1 : t.length < k
      · simp [h1] at h
      · have h1' : ¬ (t ++ rest).length < k := by simp; omega
        simp only [h1, ↓reduceIte] at h
        simp only [h1', ↓reduceIte]
        have htk : (t ++ rest).take k = t.take k := by rw [List.take_append_of_le_length (by omega)]
        have hdk : (t ++ rest).drop k = t.drop k ++ rest := by rw [List.drop_append_of_le_length (by omega)]
        rw [htk, hdk]
        generalize hsz : (if k = 0 then c.toNat else leVal (t.take k)) = size at h ⊢
        by_cases h2 : (t.drop k).length < size
        · simp only [h2, ↓reduceIte] at h
          cases h
        · have h2' : ¬ (t.drop k ++ rest).length < size := by simp at h2 ⊢; omega
          simp only [h2, ↓reduceIte, Option.some.injEq] at h
          simp only [h2', ↓reduceIte, Option.some.injEq]
          subst h
          simp only [ScriptSpec.Instr.mk.injEq, true_and]
          have : size ≤ (t.drop k).length := by omega
          exact ⟨List.take_append_of_le_length this, List.drop_append_of_le_length this⟩
    · simp only [hc, ↓reduceIte, Option.some.injEq] at h ⊢
      subst h
      rfl

/-- the bytes of one decoded instruction, taken alone, decode to that instruction with nothing left -/
theorem parseOne_take (pc : Bytes) (i : ScriptSpec.Instr) (h : ScriptSpec.parseOne pc = some i) :
    ScriptSpec.parseOne (pc.take (pc.length - i.after.length)) = some ⟨i.op, i.data, []⟩ := by
  cases pc with
  | nil => simp [ScriptSpec.parseOne] at h
  | cons c t =>
    simp only [ScriptSpec.parseOne] at h
    by_cases hc : c.toNat ≤ 0x4e
    · simp only [hc, ↓reduceIte] at h
      generalize hk : (if c.toNat < 0x4c then 0 else if c.toNat = 0x4c then 1 else if c.toNat = 0x4d then 2 else 4) = k at h
      by_cases h1 : t.length < k
      · simp [h1] at h
      · simp only [h1, ↓reduceIte] at h
        generalize hsz : (if k = 0 then c.toNat else leVal (t.take k)) = size at h
        by_cases h2 : (t.drop k).length < size
        · simp only [h2, ↓reduceIte] at h
          cases h
        · simp only [h2, ↓reduceIte, Option.some.injEq] at h
          subst h
          simp only [List.length_drop] at h2
          have hlen : (c :: t).length - (List.drop size (List.drop k t)).length = (k + size) + 1 := by
            simp; omega
          rw [hlen, List.take_succ_cons]
          simp only [ScriptSpec.parseOne, hc, ↓reduceIte, hk]
          have e1 : ¬ (List.take (k + size) t).length < k := by simp; omega
          have e2 : List.take k (List.take (k + size) t) = List.take k t := by
            rw [List.take_take]; congr 1; omega
          have e3 : List.drop k (List.take (k + size) t) = List.take size (List.drop k t) := by
            rw [List.drop_take]; congr 1; omega
          simp only [e1, ↓reduceIte, e2, hsz, e3]
          have e4 : ¬ (List.take size (List.drop k t)).length < size := by simp; omega
          simp only [e4, ↓reduceIte, Option.some.injEq, ScriptSpec.Instr.mk.injEq, true_and]
          refine ⟨by rw [List.take_take]; simp, ?_⟩
          apply List.drop_eq_nil_of_le
          simp; omega
    · simp only [hc, ↓reduceIte, Option.some.injEq] at h
      subst h
      simp [ScriptSpec.parseOne, hc]

theorem parseOne_after_lt (s : Bytes) (i : ScriptSpec.Instr) (h : ScriptSpec.parseOne s = some i) : i.after.length < s.length := by
  have := getOpcode_parseOne s
  rw [h] at this
  cases hg : getOpcode s with
  | none => rw [hg] at this; exact this.elim
  | some op =>
    rw [hg] at this
    obtain ⟨_, _, h3, _, h5, h6⟩ := this
    rw [h3]; simp; omega

theorem parseAux_fuel : ∀ f g s, s.length ≤ f → s.length ≤ g → ScriptSpec.parseAux f s = ScriptSpec.parseAux g s := by
  intro f
  induction f with
  | zero =>
    intro g s h1 _
    have : s = [] := List.eq_nil_of_length_eq_zero (by omega)
    subst this
    cases g <;> simp [ScriptSpec.parseAux]
  | succ f ih =>
    intro g s h1 h2
    cases g with
    | zero =>
      have : s = [] := List.eq_nil_of_length_eq_zero (by omega)
      subst this
      simp [ScriptSpec.parseAux]
    | succ g =>
      simp only [ScriptSpec.parseAux]
      by_cases he : s.isEmpty
      · simp [he]
      · simp only [he, Bool.false_eq_true, ↓reduceIte]
        cases hp : ScriptSpec.parseOne s with
        | none => rfl
        | some i =>
          have := parseOne_after_lt s i hp
          simp only
          rw [ih g i.after (by omega) (by omega)]

/-- the script decodes to its end -/
def WF (s : Bytes) : Prop := (ScriptSpec.parse s).2 = false

theorem wf_iff (s : Bytes) (f : Nat) (h : s.length ≤ f) : WF s ↔ (ScriptSpec.parseAux f s).2 = false := by
  unfold WF ScriptSpec.parse
  rw [parseAux_fuel s.length f s (Nat.le_refl _) h]

theorem wf_nil : WF [] := by simp [WF, ScriptSpec.parse, ScriptSpec.parseAux]

theorem wf_append_aux : ∀ f x y, x.length ≤ f → (ScriptSpec.parseAux f x).2 = false → WF y → WF (x ++ y) := by
  intro f
  induction f with
  | zero =>
    intro x y h1 _ hy
    have : x = [] := List.eq_nil_of_length_eq_zero (by omega)
    subst this
    simpa using hy
  | succ f ih =>
    intro x y h1 hx hy
    by_cases he : x.isEmpty
    · have : x = [] := by simpa using he
      subst this
      simpa using hy
    · simp only [ScriptSpec.parseAux, he, Bool.false_eq_true, ↓reduceIte] at hx
      cases hp : ScriptSpec.parseOne x with
      | none => simp [hp] at hx
      | some i =>
        simp only [hp] at hx
        have hlt := parseOne_after_lt x i hp
        have hrec := ih i.after y (by omega) hx hy
        have hne : (x ++ y).isEmpty = false := by cases x with | nil => simp at he | cons _ _ => rfl
        rw [wf_iff (x ++ y) ((x ++ y).length - 1 + 1) (by omega)]
        simp only [ScriptSpec.parseAux, hne, Bool.false_eq_true, ↓reduceIte, parseOne_append x y i hp]
        rw [wf_iff (i.after ++ y) ((x ++ y).length - 1) (by simp; omega)] at hrec
        exact hrec

theorem wf_append (x y : Bytes) (hx : WF x) (hy : WF y) : WF (x ++ y) :=
  wf_append_aux x.length x y (Nat.le_refl _) hx hy

theorem wf_chunk (pc : Bytes) (i : ScriptSpec.Instr) (h : ScriptSpec.parseOne pc = some i) :
    WF (pc.take (pc.length - i.after.length)) := by
  have hlt := parseOne_after_lt pc i h
  have hp := parseOne_take pc i h
  generalize hch : pc.take (pc.length - i.after.length) = chunk at hp
  have hlen : chunk.length ≥ 1 := by rw [← hch]; simp; omega
  rw [wf_iff chunk (chunk.length - 1 + 1) (by omega)]
  have hne : chunk.isEmpty = false := by cases chunk with | nil => simp at hlen | cons _ _ => rfl
  simp only [ScriptSpec.parseAux, hne, Bool.false_eq_true, ↓reduceIte, hp]
  cases (chunk.length - 1) <;> simp [ScriptSpec.parseAux]

theorem delSigAux_wf (b : Bytes) : ∀ f pc res cnt, (ScriptSpec.parseAux f pc).2 = false → WF res →
    WF (delSigAux b f pc res cnt).1 ∧ (delSigAux b f pc res cnt).1.length ≤ res.length + pc.length := by
  intro f
  induction f with
  | zero => intro pc res cnt _ hr; simp [delSigAux, hr]
  | succ f ih =>
    intro pc res cnt hw hr
    by_cases he : pc.isEmpty
    · simp [delSigAux, he, hr]
    · simp only [ScriptSpec.parseAux, he, Bool.false_eq_true, ↓reduceIte] at hw
      simp only [delSigAux, he, Bool.false_eq_true, ↓reduceIte]
      cases hgo : getOpcode pc with
      | none => simp [parseOne_none_of_getOpcode hgo] at hw
      | some op =>
        obtain ⟨i, hp, _, _, h3, _, hn1, hn2⟩ := parseOne_of_getOpcode hgo
        simp only [hp] at hw
        have hw' : (ScriptSpec.parseAux f (pc.drop op.n)).2 = false := by rw [← h3]; exact hw
        have hch : WF (pc.take op.n) := by
          have := wf_chunk pc i hp
          rw [h3] at this
          simpa [show pc.length - (pc.length - op.n) = op.n by omega] using this
        simp only
        by_cases hne : (pc.take op.n != b) = true
        · simp only [hne, ↓reduceIte]
          have := ih (pc.drop op.n) (res ++ pc.take op.n) cnt hw' (wf_append _ _ hr hch)
          refine ⟨this.1, ?_⟩
          have h2 := this.2
          simp at h2 ⊢
          omega
        · simp only [hne, Bool.false_eq_true, ↓reduceIte]
          have := ih (pc.drop op.n) res (cnt + 1) hw' hr
          refine ⟨this.1, ?_⟩
          have h2 := this.2
          simp at h2 ⊢
          omega

theorem delSig_wf (code sig : Bytes) (h : WF code) : WF (delSig code sig).1 ∧ (delSig code sig).1.length ≤ code.length := by
  unfold delSig
  have := delSigAux_wf (sigPushPrefix sig.length ++ sig) code.length code [] 0 h wf_nil
  simpa using this


theorem top_of_drop (stack : Stack) (j : Nat) (x : Bytes) (rest : List Bytes) (hj : j ≥ 1)
    (h : stack.drop (j - 1) = x :: rest) : top stack j = .ok x := by
  unfold top
  have : ¬ j = 0 := by omega
  simp only [this, ↓reduceIte]
  have : stack[j - 1]? = some x := by
    have h0 : (stack.drop (j - 1))[0]? = some x := by rw [h]; rfl
    rw [List.getElem?_drop] at h0
    simpa using h0
  rw [this]

theorem drop_succ_of_drop {α} (l : List α) (j : Nat) (x : α) (rest : List α) (h : l.drop j = x :: rest) : l.drop (j + 1) = rest := by
  have : l.drop (j + 1) = (l.drop j).drop 1 := by rw [List.drop_drop]
  rw [this, h]; rfl

/-- list form of the signature-deletion loop of OP_CHECKMULTISIG -/
def delSigsList (flags : Nat) : List Bytes → Bytes → Res Bytes
  | [], x => .ok x
  | s :: S, x => if (delSig x s).2 > 0 && has flags VER_CONST_SCRIPTCODE then .fail else delSigsList flags S (delSig x s).1

theorem msDelSigs_list (stack : Stack) (flags isig : Nat) (hi : isig ≥ 1) : ∀ n k xxx S rest,
    stack.drop (isig + k - 1) = S ++ rest → S.length = n →
    msDelSigs stack flags isig n k xxx = delSigsList flags S xxx := by
  intro n
  induction n with
  | zero =>
    intro k xxx S rest _ hl
    have : S = [] := List.eq_nil_of_length_eq_zero hl
    subst this
    rfl
  | succ n ih =>
    intro k xxx S rest hd hl
    cases S with
    | nil => simp at hl
    | cons s S' =>
      simp only [msDelSigs, delSigsList]
      rw [top_of_drop stack (isig + k) s (S' ++ rest) (by omega) hd]
      simp only [Res.ok_bind]
      by_cases hf : ((delSig xxx s).2 > 0 && has flags VER_CONST_SCRIPTCODE) = true
      · simp [hf]
      · simp only [hf, Bool.false_eq_true, ↓reduceIte]
        apply ih (k + 1) _ S' rest
        · have := drop_succ_of_drop stack (isig + k - 1) s (S' ++ rest) hd
          rw [show isig + (k + 1) - 1 = isig + k - 1 + 1 by omega]
          exact this
        · simpa using hl

def specDelFold (f : ScriptSpec.Flags) (sigs : List Bytes) (code : Bytes) : ScriptSpec.E Bytes :=
  sigs.foldlM (fun sc sg =>
    let (sc', found) := ScriptSpec.findAndDelete sc (ScriptSpec.pushEncoding sg)
    if found > 0 && f.constScriptcode then throw ScriptSpec.ScriptError.SIG_FINDANDDELETE else pure sc') code

def DelMatch (m : Res Bytes) (sp : ScriptSpec.E Bytes) : Prop :=
  match sp with
  | .ok y => m = .ok y
  | .error _ => m = .fail

theorem delSigsList_spec (flags : Nat) : ∀ S x, WF x → x.length < 2 ^ 32 →
    DelMatch (delSigsList flags S x) (specDelFold (ScriptSpec.Flags.ofMask flags) S x) := by
  intro S
  induction S with
  | nil => intro x _ _; simp [specDelFold, delSigsList, pure, Except.pure, DelMatch]
  | cons s S' ih =>
    intro x hw hl
    have he := delSig_eq x s hw hl
    have hwf := delSig_wf x s hw
    have ih' := ih (delSig x s).1 hwf.1 (by omega)
    unfold specDelFold at ih' ⊢
    simp only [List.foldlM_cons, delSigsList, ← he, ← flag_const] at ih' ⊢
    by_cases hf : ((delSig x s).2 > 0 && has flags VER_CONST_SCRIPTCODE) = true
    · simp only [hf, ↓reduceIte]
      simp [DelMatch, bind, Except.bind, throw, throwThe, MonadExceptOf.throw]
    · simp only [hf, Bool.false_eq_true, ↓reduceIte, pure_bind]
      exact ih'

def LoopMatch (m : Res Bool) (sp : ScriptSpec.E Bool) : Prop :=
  match sp with
  | .ok b => m = .ok b
  | .error _ => m = .fail

theorem multisigLoop_short (e : ScriptSpec.Env) (code : Bytes) (K : List Bytes) (s : Bytes) (S : List Bytes)
    (h : (s :: S).length > K.length) : ScriptSpec.multisigLoop e code K (s :: S) = .ok false := by
  cases K with
  | nil => rfl
  | cons k K' =>
    simp only [ScriptSpec.multisigLoop, h, ↓reduceIte]
    rfl

theorem msVerifyLoop_agree (T : TotalOracles) (c : Ctx) (hO : c.O = T.toOracles) (leaf : Bytes) (annex : Option Bytes)
    (stack : Stack) (xxx : Bytes) : ∀ (K S : List Bytes) (ikey isig : Nat) (restK restS : List Bytes),
    ikey ≥ 1 → isig ≥ 1 → stack.drop (ikey - 1) = K ++ restK → stack.drop (isig - 1) = S ++ restS → S.length ≤ K.length →
    LoopMatch (msVerifyLoop c stack xxx K.length S.length ikey isig) (ScriptSpec.multisigLoop (envOf T c leaf annex) xxx K S) := by
  intro K
  induction K with
  | nil =>
    intro S ikey isig restK restS _ _ _ _ hle
    have : S = [] := List.eq_nil_of_length_eq_zero (by simpa using hle)
    subst this
    simp [msVerifyLoop, ScriptSpec.multisigLoop, LoopMatch, pure, Except.pure]
  | cons k K' ih =>
    intro S ikey isig restK restS hik his hdk hds hle
    cases S with
    | nil => simp [msVerifyLoop, ScriptSpec.multisigLoop, LoopMatch, pure, Except.pure]
    | cons s S' =>
      have hnz : ¬ ((s :: S').length = 0) := by simp
      have hgt : ¬ ((s :: S').length > (k :: K').length) := by omega
      simp only [List.length_cons] at hle
      have htk := top_of_drop stack ikey k (K' ++ restK) hik hdk
      have hts := top_of_drop stack isig s (S' ++ restS) his hds
      have hdk' : stack.drop (ikey + 1 - 1) = K' ++ restK := by
        rw [show ikey + 1 - 1 = ikey - 1 + 1 by omega]; exact drop_succ_of_drop stack (ikey - 1) k _ hdk
      have hds' : stack.drop (isig + 1 - 1) = S' ++ restS := by
        rw [show isig + 1 - 1 = isig - 1 + 1 by omega]; exact drop_succ_of_drop stack (isig - 1) s _ hds
      rw [show (k :: K').length = K'.length + 1 from rfl]
      simp only [msVerifyLoop, hnz, ↓reduceIte, htk, hts, Res.ok_bind, ScriptSpec.multisigLoop, hgt,
        checkSignatureEncoding_eq, checkPubKeyEncoding_eq, hO, verifyECDSA_eq, specECDSA_eq T (envOf T c leaf annex) rfl, envOf_f, envOf_sv]
      rcases eunit_cases (ScriptSpec.checkSignatureEncoding (ScriptSpec.Flags.ofMask c.flags) s) with h1 | ⟨e1, h1⟩
      · rcases eunit_cases (ScriptSpec.checkPubKeyEncoding (ScriptSpec.Flags.ofMask c.flags) c.sv k) with h2 | ⟨e2, h2⟩
        · simp only [h1, h2, Bool.not_true, Bool.or_self, Bool.false_eq_true, ↓reduceIte, bind, Except.bind, pure, Except.pure]
          cases hok : ecdsaOk T c.sv xxx s k
          · -- signature does not match this key: same signature, next key
            simp only [Bool.false_eq_true, ↓reduceIte, List.length_cons]
            by_cases hshort : S'.length + 1 > K'.length
            · simp only [hshort, ↓reduceIte]
              rw [multisigLoop_short _ _ K' s S' (by simpa using hshort)]
              simp [LoopMatch]
            · simp only [hshort, ↓reduceIte]
              have := ih (s :: S') (ikey + 1) isig restK restS (by omega) his hdk' hds (by simp; omega)
              simpa using this
          · simp only [↓reduceIte, List.length_cons, Nat.add_sub_cancel]
            have hns : ¬ S'.length > K'.length := by omega
            simp only [hns, ↓reduceIte]
            exact ih S' (ikey + 1) (isig + 1) restK restS (by omega) (by omega) hdk' hds' (by omega)
        · simp [h1, h2, LoopMatch, bind, Except.bind]
      · simp [h1, LoopMatch, bind, Except.bind]

theorem msCleanup_pre (flags : Nat) (su : Bool) : ∀ (pre : List Bytes) (n : Nat) (t : Stack),
    msCleanup flags su (pre.length + n) pre.length (pre ++ t) = msCleanup flags su n 0 t := by
  intro pre
  induction pre with
  | nil => intro n t; simp
  | cons x pre' ih =>
    intro n t
    have e : (x :: pre').length + n = (pre'.length + n) + 1 := by simp; omega
    rw [e]
    simp only [List.cons_append, msCleanup, List.length_cons]
    have : (pre'.length + 1 == 0) = false := by simp
    simp only [this, Bool.and_false, Bool.false_and, Bool.false_eq_true, ↓reduceIte, Nat.add_sub_cancel]
    exact ih n t

theorem msCleanup_sigs (flags : Nat) (su : Bool) : ∀ (sigs : List Bytes) (rest : Stack),
    msCleanup flags su sigs.length 0 (sigs ++ rest) =
      if !su && has flags VER_NULLFAIL && sigs.any (fun sg => !sg.isEmpty) then .fail else .ok rest := by
  intro sigs
  induction sigs with
  | nil => intro rest; simp [msCleanup]
  | cons x sigs' ih =>
    intro rest
    simp only [List.length_cons, List.cons_append, msCleanup, beq_self_eq_true, Bool.and_true, List.any_cons, Nat.zero_sub]
    have hx : decide (x.length > 0) = !x.isEmpty := by cases x <;> simp
    rw [hx, ih rest]
    by_cases hxe : x.isEmpty = true <;> cases su <;> cases has flags VER_NULLFAIL <;> simp [hxe]


theorem execOp_multisig (c : Ctx) (st : St) (op idx pos : Nat) (b : Bool) (h : op = 0xae ∨ op = 0xaf) :
    execOp c st op idx pos b = checkMultisig c st op := by
  rcases h with h | h <;> subst h <;> simp only [execOp, isBinArith] <;> rfl

theorem execOpcode_multisig (e : ScriptSpec.Env) (s : ScriptSpec.State) (i : ScriptSpec.Instr) (pos : Nat) (b : Bool)
    (h : i.op = 0xae ∨ i.op = 0xaf) :
    ScriptSpec.execOpcode e s i b pos = ScriptSpec.opCheckMultisig e s (i.op == 0xaf) := by
  obtain ⟨iop, idata, iafter⟩ := i
  simp only at h
  rcases h with h | h <;> subst h <;>
    simp [ScriptSpec.execOpcode, ScriptSpec.isShuffle, ScriptSpec.isUnaryNum, ScriptSpec.isBinaryNum]

/-- the tail of the model's `checkMultisig` once counts and stack shape are known -/
def msTail (c : Ctx) (st : St) (opcode : Nat) (keys sigs : List Bytes) (dummy : Bytes) (r4 : Stack) : Res St := do
  let xxx ← (if c.sv == .base then delSigsList c.flags sigs (c.p.drop st.pbegin) else pure (c.p.drop st.pbegin))
  let success ← msVerifyLoop c st.stack xxx keys.length sigs.length 2 (keys.length + 3)
  if !success && has c.flags VER_NULLFAIL && sigs.any (fun sg => !sg.isEmpty) then .fail
  else if has c.flags VER_NULLDUMMY && dummy.length != 0 then .fail
  else if opcode == 0xaf then
    (if !success then .fail else pure { st with stack := r4, opcnt := st.opcnt + keys.length })
  else pure { st with stack := boolBytes success :: r4, opcnt := st.opcnt + keys.length }

theorem ms_model_core (c : Ctx) (st : St) (opcode : Nat) (nk ns dummy : Bytes) (keys sigs : List Bytes) (r4 : Stack)
    (hst : st.stack = nk :: (keys ++ ns :: (sigs ++ dummy :: r4)))
    (hsv : c.sv ≠ .tapscript)
    (hnk : ScriptSpec.ScriptNum.read nk (has c.flags VER_MINDATA) 4 = .ok (keys.length : Int))
    (hk20 : keys.length ≤ 20) (hop : st.opcnt + keys.length ≤ 201)
    (hns : ScriptSpec.ScriptNum.read ns (has c.flags VER_MINDATA) 4 = .ok (sigs.length : Int))
    (hsk : sigs.length ≤ keys.length) :
    checkMultisig c st opcode = msTail c st opcode keys sigs dummy r4 := by
  unfold checkMultisig msTail
  have hsv' : (c.sv == SigVersion.tapscript) = false := by simp [hsv]
  have hl1 : ¬ st.stack.length < 1 := by rw [hst]; simp
  have ht1 : top st.stack 1 = .ok nk := top_of_drop st.stack 1 nk _ (by omega) (by rw [hst]; rfl)
  simp only [hsv', Bool.false_eq_true, ↓reduceIte, hl1, topInt_eq _ _ _ nk ht1, hnk, Res.ok_bind]
  have hr1 : ¬ ((keys.length : Int) < 0 ∨ (keys.length : Int) > 20) := by omega
  have hr1' : (decide ((keys.length : Int) < 0) || decide ((keys.length : Int) > 20)) = false := by simpa using hr1
  simp only [hr1', Bool.false_eq_true, ↓reduceIte, Int.toNat_natCast, MAX_OPS]
  have hop' : ¬ st.opcnt + keys.length > 201 := by omega
  have hl2 : ¬ st.stack.length < 2 + keys.length := by rw [hst]; simp; omega
  have ht2 : top st.stack (2 + keys.length) = .ok ns :=
    top_of_drop st.stack (2 + keys.length) ns (sigs ++ dummy :: r4) (by omega) (by
      rw [hst, show 2 + keys.length - 1 = keys.length + 1 by omega, List.drop_succ_cons, List.drop_left])
  simp only [hop', ↓reduceIte, hl2, topInt_eq _ _ _ ns ht2, hns, Res.ok_bind]
  have hr2 : (decide ((sigs.length : Int) < 0) || decide ((sigs.length : Int) > (keys.length : Int))) = false := by
    simp; omega
  have hl3 : ¬ st.stack.length < 2 + keys.length + 1 + sigs.length := by rw [hst]; simp; omega
  simp only [hr2, Bool.false_eq_true, ↓reduceIte, Int.toNat_natCast, hl3]
  have hdel : (if c.sv == SigVersion.base then msDelSigs st.stack c.flags (2 + keys.length + 1) sigs.length 0 (c.p.drop st.pbegin) else pure (c.p.drop st.pbegin)) =
      (if c.sv == SigVersion.base then delSigsList c.flags sigs (c.p.drop st.pbegin) else pure (c.p.drop st.pbegin)) := by
    by_cases hb : (c.sv == SigVersion.base) = true
    · simp only [hb, ↓reduceIte]
      apply msDelSigs_list st.stack c.flags (2 + keys.length + 1) (by omega) sigs.length 0 _ sigs (dummy :: r4)
      · rw [hst, show 2 + keys.length + 1 + 0 - 1 = (keys.length + 1) + 1 by omega, List.drop_succ_cons]
        rw [show keys.length + 1 = keys.length + 1 from rfl, ← List.drop_drop, List.drop_left]
        rfl
      · rfl
    · simp [hb]
  rw [hdel]
  have hclean : ∀ success, msCleanup c.flags success (2 + keys.length + 1 + sigs.length - 1) (keys.length + 2) st.stack =
      if !success && has c.flags VER_NULLFAIL && sigs.any (fun sg => !sg.isEmpty) then .fail else .ok (dummy :: r4) := by
    intro success
    have hpre : st.stack = (nk :: (keys ++ [ns])) ++ (sigs ++ dummy :: r4) := by rw [hst]; simp
    have hpl : (nk :: (keys ++ [ns])).length = keys.length + 2 := by simp
    rw [hpre, show 2 + keys.length + 1 + sigs.length - 1 = (nk :: (keys ++ [ns])).length + sigs.length by rw [hpl]; omega, ← hpl,
      msCleanup_pre, msCleanup_sigs]
  have h3 : 2 + keys.length + 1 = keys.length + 3 := by omega
  rw [h3] at hclean ⊢
  congr 1; funext xxx
  congr 1; funext success
  rw [hclean success]
  by_cases hnf : (!success && has c.flags VER_NULLFAIL && sigs.any (fun sg => !sg.isEmpty)) = true
  · simp [hnf]
  · simp [hnf]

/-- `checkMultisig` in list form (stack = nk :: r1) -/
def msModelList (c : Ctx) (st : St) (opcode : Nat) (nk : Bytes) (r1 : Stack) : Res St :=
  if c.sv == .tapscript then .fail else
  match ScriptSpec.ScriptNum.read nk (has c.flags VER_MINDATA) 4 with
  | .error _ => .panic
  | .ok n =>
    if n < 0 || n > 20 then .fail
    else if st.opcnt + n.toNat > 201 then .fail
    else if r1.length < n.toNat + 1 then .fail
    else match r1.drop n.toNat with
    | [] => .fail
    | ns :: r2 =>
      match ScriptSpec.ScriptNum.read ns (has c.flags VER_MINDATA) 4 with
      | .error _ => .panic
      | .ok m =>
        if m < 0 || m > n then .fail
        else if r2.length < m.toNat + 1 then .fail
        else match r2.drop m.toNat with
        | [] => .fail
        | dummy :: r4 => msTail c st opcode (r1.take n.toNat) (r2.take m.toNat) dummy r4

theorem ms_model_list (c : Ctx) (st : St) (opcode : Nat) (nk : Bytes) (r1 : Stack) (hst : st.stack = nk :: r1) :
    checkMultisig c st opcode = msModelList c st opcode nk r1 := by
  unfold msModelList
  by_cases hsv : c.sv = .tapscript
  · simp [checkMultisig, hsv]
  · have hsv' : (c.sv == SigVersion.tapscript) = false := by simp [hsv]
    simp only [hsv', Bool.false_eq_true, ↓reduceIte]
    have hl1 : ¬ st.stack.length < 1 := by rw [hst]; simp
    have ht1 : top st.stack 1 = .ok nk := top_of_drop st.stack 1 nk _ (by omega) (by rw [hst]; rfl)
    cases hnk : ScriptSpec.ScriptNum.read nk (has c.flags VER_MINDATA) 4 with
    | error e =>
      unfold checkMultisig
      simp only [hsv', Bool.false_eq_true, ↓reduceIte, hl1, topInt_eq _ _ _ nk ht1, hnk, Res.panic_bind]
    | ok n =>
      simp only
      by_cases hr1 : (decide (n < 0) || decide (n > 20)) = true
      · unfold checkMultisig
        simp only [hsv', Bool.false_eq_true, ↓reduceIte, hl1, topInt_eq _ _ _ nk ht1, hnk, Res.ok_bind, hr1]
      · simp only [hr1, Bool.false_eq_true, ↓reduceIte]
        have hn : ∃ kN : Nat, n = kN ∧ kN ≤ 20 := ⟨n.toNat, by simp at hr1; omega, by simp at hr1; omega⟩
        obtain ⟨kN, rfl, hk20⟩ := hn
        simp only [Int.toNat_natCast]
        by_cases hop : st.opcnt + kN > 201
        · unfold checkMultisig
          simp only [hsv', Bool.false_eq_true, ↓reduceIte, hl1, topInt_eq _ _ _ nk ht1, hnk, Res.ok_bind, hr1, Int.toNat_natCast, MAX_OPS, hop]
        · simp only [hop, ↓reduceIte]
          by_cases hl2 : r1.length < kN + 1
          · have : st.stack.length < 2 + kN := by rw [hst]; simp; omega
            unfold checkMultisig
            simp only [hsv', Bool.false_eq_true, ↓reduceIte, hl1, topInt_eq _ _ _ nk ht1, hnk, Res.ok_bind, hr1, Int.toNat_natCast, MAX_OPS, hop, this, hl2]
          · simp only [hl2, ↓reduceIte]
            have hdl : (r1.drop kN).length ≥ 1 := by simp; omega
            rcases hd : r1.drop kN with _ | ⟨ns, r2⟩
            · rw [hd] at hdl; simp at hdl
            · simp only
              have hr1eq : r1 = r1.take kN ++ ns :: r2 := by rw [← hd, List.take_append_drop]
              have hkl : (r1.take kN).length = kN := by simp; omega
              have hl2' : ¬ st.stack.length < 2 + kN := by rw [hst]; simp; omega
              have ht2 : top st.stack (2 + kN) = .ok ns :=
                top_of_drop st.stack (2 + kN) ns r2 (by omega) (by
                  rw [hst, show 2 + kN - 1 = kN + 1 by omega, List.drop_succ_cons, hd])
              cases hns : ScriptSpec.ScriptNum.read ns (has c.flags VER_MINDATA) 4 with
              | error e =>
                unfold checkMultisig
                simp only [hsv', Bool.false_eq_true, ↓reduceIte, hl1, topInt_eq _ _ _ nk ht1, hnk, Res.ok_bind, hr1, Int.toNat_natCast, MAX_OPS, hop, hl2',
                  topInt_eq _ _ _ ns ht2, hns, Res.panic_bind]
              | ok m =>
                simp only
                by_cases hr2 : (decide (m < 0) || decide (m > (kN : Int))) = true
                · unfold checkMultisig
                  simp only [hsv', Bool.false_eq_true, ↓reduceIte, hl1, topInt_eq _ _ _ nk ht1, hnk, Res.ok_bind, hr1, Int.toNat_natCast, MAX_OPS, hop, hl2',
                    topInt_eq _ _ _ ns ht2, hns, hr2]
                · simp only [hr2, Bool.false_eq_true, ↓reduceIte]
                  have hm : ∃ sN : Nat, m = sN ∧ sN ≤ kN := ⟨m.toNat, by simp at hr2; omega, by simp at hr2; omega⟩
                  obtain ⟨sN, rfl, hsk⟩ := hm
                  simp only [Int.toNat_natCast]
                  by_cases hl3 : r2.length < sN + 1
                  · have : st.stack.length < 2 + kN + 1 + sN := by
                      rw [hst, hr1eq]; simp; omega
                    unfold checkMultisig
                    simp only [hsv', Bool.false_eq_true, ↓reduceIte, hl1, topInt_eq _ _ _ nk ht1, hnk, Res.ok_bind, hr1, Int.toNat_natCast, MAX_OPS, hop, hl2',
                      topInt_eq _ _ _ ns ht2, hns, hr2, this, hl3]
                  · simp only [hl3, ↓reduceIte]
                    have hdl2 : (r2.drop sN).length ≥ 1 := by simp; omega
                    rcases hd2 : r2.drop sN with _ | ⟨dummy, r4⟩
                    · rw [hd2] at hdl2; simp at hdl2
                    · simp only
                      have hr2eq : r2 = r2.take sN ++ dummy :: r4 := by rw [← hd2, List.take_append_drop]
                      have hsl : (r2.take sN).length = sN := by simp; omega
                      apply ms_model_core c st opcode nk ns dummy (r1.take kN) (r2.take sN) r4
                      · rw [hst]; congr 1; rw [← hr2eq]; exact hr1eq
                      · exact hsv
                      · rw [hkl]; exact hnk
                      · rw [hkl]; exact hk20
                      · rw [hkl]; omega
                      · rw [hsl]; exact hns
                      · rw [hkl, hsl]; exact hsk

open ScriptSpec.ScriptError in
/-- the spec's OP_CHECKMULTISIG behind the count / shape checks -/
def msSpecTail (e : ScriptSpec.Env) (s : ScriptSpec.State) (verify : Bool) (opCount : Nat) (keys sigs r3 : List Bytes) :
    ScriptSpec.E ScriptSpec.State := do
  let scriptCode ← (if e.sv == .base then specDelFold e.f sigs s.code else pure s.code : ScriptSpec.E Bytes)
  let success ← ScriptSpec.multisigLoop e scriptCode keys sigs
  if !success && e.f.nullfail && sigs.any (fun sg => !sg.isEmpty) then throw SIG_NULLFAIL
  match r3 with
  | [] => throw INVALID_STACK_OPERATION
  | dummy :: r4 =>
    if e.f.nulldummy && !dummy.isEmpty then throw SIG_NULLDUMMY
    let st := { s with opCount := opCount }
    if verify then (if success then pure { st with stack := r4 } else throw CHECKMULTISIGVERIFY)
    else pure { st with stack := ScriptSpec.ofBool success :: r4 }

open ScriptSpec.ScriptError in
def msSpecList (e : ScriptSpec.Env) (s : ScriptSpec.State) (verify : Bool) (nk : Bytes) (r1 : List Bytes) : ScriptSpec.E ScriptSpec.State :=
  if e.sv == .tapscript then throw TAPSCRIPT_CHECKMULTISIG else
  match ScriptSpec.ScriptNum.read nk e.f.minimaldata 4 with
  | .error x => .error x
  | .ok n =>
    if n < 0 || n > 20 then throw PUBKEY_COUNT
    else if s.opCount + n.toNat > 201 then throw OP_COUNT
    else if r1.length < n.toNat + 1 then throw INVALID_STACK_OPERATION
    else match r1.drop n.toNat with
    | [] => throw INVALID_STACK_OPERATION
    | ns :: r2 =>
      match ScriptSpec.ScriptNum.read ns e.f.minimaldata 4 with
      | .error x => .error x
      | .ok m =>
        if m < 0 || m > (n.toNat : Int) then throw SIG_COUNT
        else if r2.length < m.toNat then throw INVALID_STACK_OPERATION
        else msSpecTail e s verify (s.opCount + n.toNat) (r1.take n.toNat) (r2.take m.toNat) (r2.drop m.toNat)

theorem ms_spec_list (e : ScriptSpec.Env) (s : ScriptSpec.State) (verify : Bool) (nk : Bytes) (r1 : List Bytes) (hst : s.stack = nk :: r1) :
    ScriptSpec.opCheckMultisig e s verify = msSpecList e s verify nk r1 := by
  unfold ScriptSpec.opCheckMultisig msSpecList msSpecTail specDelFold
  simp only [hst, show ScriptSpec.MAX_PUBKEYS_PER_MULTISIG = 20 from rfl, show ScriptSpec.MAX_OPS_PER_SCRIPT = 201 from rfl]
  by_cases hsv : (e.sv == SigVersion.tapscript) = true
  · simp [hsv, bind, Except.bind, throw, throwThe, MonadExceptOf.throw]
  · simp only [hsv, Bool.false_eq_true, ↓reduceIte, bind, Except.bind, pure, Except.pure, PUnit.unit]
    cases ScriptSpec.ScriptNum.read nk e.f.minimaldata 4 with
    | error x => rfl
    | ok n =>
      simp only
      by_cases h1 : (decide (n < 0) || decide (n > ((20 : Nat) : Int))) = true
      · have h1' : (decide (n < 0) || decide (n > 20)) = true := by simpa using h1
        simp only [h1, h1', ↓reduceIte, throw, throwThe, MonadExceptOf.throw]
      · have h1' : (decide (n < 0) || decide (n > 20)) = false := by simpa using h1
        simp only [h1, h1', Bool.false_eq_true, ↓reduceIte]
        by_cases h2 : s.opCount + n.toNat > 201
        · simp only [h2, ↓reduceIte, throw, throwThe, MonadExceptOf.throw]
        · simp only [h2, ↓reduceIte]
          by_cases h3 : r1.length < n.toNat + 1
          · simp only [h3, ↓reduceIte, throw, throwThe, MonadExceptOf.throw]
          · simp only [h3, ↓reduceIte]
            cases r1.drop n.toNat with
            | nil => rfl
            | cons ns r2 =>
              simp only
              cases ScriptSpec.ScriptNum.read ns e.f.minimaldata 4 with
              | error x => rfl
              | ok m =>
                simp only
                by_cases h4 : (decide (m < 0) || decide (m > (n.toNat : Int))) = true
                · simp only [h4, ↓reduceIte, throw, throwThe, MonadExceptOf.throw]
                · simp only [h4, Bool.false_eq_true, ↓reduceIte]
                  by_cases h5 : r2.length < m.toNat
                  · simp only [h5, ↓reduceIte, throw, throwThe, MonadExceptOf.throw]
                  · simp only [h5, ↓reduceIte]
                    rfl

theorem msTail_agree (T : TotalOracles) (c : Ctx) (hO : c.O = T.toOracles) (leaf : Bytes) (annex : Option Bytes)
    (st : St) (s : ScriptSpec.State) (opcode : Nat) (hR : Rel c leaf annex st s) (hS : SigSide T c s)
    (nk ns dummy : Bytes) (keys sigs : List Bytes) (r4 : Stack)
    (hst : st.stack = nk :: (keys ++ ns :: (sigs ++ dummy :: r4))) (hsk : sigs.length ≤ keys.length) :
    Agree c leaf annex (msTail c st opcode keys sigs dummy r4)
      (msSpecTail (envOf T c leaf annex) s (opcode == 0xaf) (s.opCount + keys.length) keys sigs (dummy :: r4)) := by
  obtain ⟨h1, h2, h3, h5, h6, h7, h8, h9, h10, h11⟩ := hR
  unfold msTail msSpecTail
  simp only [envOf_sv, envOf_f, h6, ← flag_nullfail, ← flag_nulldummy]
  -- the rest, for a given script code
  have rest : ∀ xxx : Bytes, Agree c leaf annex
      (do let success ← msVerifyLoop c st.stack xxx keys.length sigs.length 2 (keys.length + 3)
          if !success && has c.flags VER_NULLFAIL && sigs.any (fun sg => !sg.isEmpty) then .fail
          else if has c.flags VER_NULLDUMMY && dummy.length != 0 then .fail
          else if opcode == 0xaf then
            (if !success then .fail else pure { st with stack := r4, opcnt := st.opcnt + keys.length })
          else pure { st with stack := boolBytes success :: r4, opcnt := st.opcnt + keys.length })
      (do let success ← ScriptSpec.multisigLoop (envOf T c leaf annex) xxx keys sigs
          if (!success && has c.flags VER_NULLFAIL && sigs.any (fun sg => !sg.isEmpty)) = true then throw ScriptSpec.ScriptError.SIG_NULLFAIL
          if (has c.flags VER_NULLDUMMY && !dummy.isEmpty) = true then throw ScriptSpec.ScriptError.SIG_NULLDUMMY
          if (opcode == 0xaf) = true then
            (if success = true then pure { s with opCount := s.opCount + keys.length, stack := r4 } else throw ScriptSpec.ScriptError.CHECKMULTISIGVERIFY)
          else pure { s with opCount := s.opCount + keys.length, stack := ScriptSpec.ofBool success :: r4 }) := by
    intro xxx
    have hloop := msVerifyLoop_agree T c hO leaf annex st.stack xxx keys sigs 2 (keys.length + 3)
      (ns :: (sigs ++ dummy :: r4)) (dummy :: r4) (by omega) (by omega)
      (by rw [hst]; rfl)
      (by rw [hst, show keys.length + 3 - 1 = (keys.length + 1) + 1 by omega, List.drop_succ_cons, ← List.drop_drop, List.drop_left]; rfl)
      hsk
    unfold LoopMatch at hloop
    rcases hsp : ScriptSpec.multisigLoop (envOf T c leaf annex) xxx keys sigs with e | b
    · rw [hsp] at hloop
      simp only at hloop
      rw [hloop]
      exact Agree.fail
    · rw [hsp] at hloop
      simp only at hloop
      rw [hloop]
      simp only [Res.ok_bind, bind, Except.bind, Res.bind, pure, Except.pure, throw, throwThe, MonadExceptOf.throw]
      have hde : (dummy.length != 0) = !dummy.isEmpty := by cases dummy <;> simp
      rw [hde]
      by_cases hnf : (!b && has c.flags VER_NULLFAIL && sigs.any (fun sg => !sg.isEmpty)) = true
      · simp [hnf, agree_fail]
      · simp only [hnf, Bool.false_eq_true, ↓reduceIte]
        by_cases hnd : (has c.flags VER_NULLDUMMY && !dummy.isEmpty) = true
        · simp [hnd, agree_fail]
        · simp only [hnd, Bool.false_eq_true, ↓reduceIte]
          by_cases hv : (opcode == 0xaf) = true
          · cases b <;> simp [hv, agree_fail, agree_ok]
            exact ⟨rfl, h2, h3, by rw [h5], h6, h7, h8, h9, h10, h11⟩
          · simp only [hv, Bool.false_eq_true, ↓reduceIte, agree_ok, boolBytes_ofBool]
            exact ⟨rfl, h2, h3, by simp [h5], h6, h7, h8, h9, h10, h11⟩
  by_cases hb : c.sv = .base
  · obtain ⟨hw1, hw2⟩ := hS.code hb
    have hdel := delSigsList_spec c.flags sigs s.code hw1 hw2
    unfold DelMatch at hdel
    simp only [hb, beq_self_eq_true, ↓reduceIte]
    rcases hsp : specDelFold (ScriptSpec.Flags.ofMask c.flags) sigs s.code with e | y
    · rw [hsp] at hdel
      simp only at hdel
      rw [hdel]
      exact Agree.fail
    · rw [hsp] at hdel
      simp only at hdel
      rw [hdel]
      have := rest y
      simp only [Res.ok_bind, Res.pure_eq, bind, Except.bind, Res.bind, pure, Except.pure, throw, throwThe, MonadExceptOf.throw] at this ⊢
      exact this
  · have hb' : (c.sv == SigVersion.base) = false := by simp [hb]
    simp only [hb', Bool.false_eq_true, ↓reduceIte]
    have := rest s.code
    simp only [Res.ok_bind, Res.pure_eq, bind, Except.bind, Res.bind, pure, Except.pure, throw, throwThe, MonadExceptOf.throw] at this ⊢
    exact this

theorem msSpecTail_nil (e : ScriptSpec.Env) (s : ScriptSpec.State) (verify : Bool) (oc : Nat) (keys sigs : List Bytes) :
    ∃ err, msSpecTail e s verify oc keys sigs [] = .error err := by
  unfold msSpecTail
  generalize (if e.sv == SigVersion.base then specDelFold e.f sigs s.code else pure s.code : ScriptSpec.E Bytes) = r1
  cases r1 with
  | error x => exact ⟨x, rfl⟩
  | ok code =>
    simp only [bind, Except.bind]
    cases ScriptSpec.multisigLoop e code keys sigs with
    | error x => exact ⟨x, rfl⟩
    | ok b =>
      simp only
      by_cases h : (!b && e.f.nullfail && sigs.any (fun sg => !sg.isEmpty)) = true
      · simp only [h, ↓reduceIte, throw, throwThe, MonadExceptOf.throw]; exact ⟨_, rfl⟩
      · simp only [h, Bool.false_eq_true, ↓reduceIte, throw, throwThe, MonadExceptOf.throw, pure, Except.pure]; exact ⟨_, rfl⟩

theorem multisig_agree (T : TotalOracles) (c : Ctx) (hO : c.O = T.toOracles) (leaf : Bytes) (annex : Option Bytes) (st : St) (s : ScriptSpec.State)
    (i : ScriptSpec.Instr) (idx pos : Nat) (hR : Rel c leaf annex st s) (hs : i.op = 0xae ∨ i.op = 0xaf) (hS : SigSide T c s) :
    Agree c leaf annex (execOp c st i.op idx pos true) (ScriptSpec.execOpcode (envOf T c leaf annex) s i true pos) := by
  rw [execOp_multisig c st i.op idx pos true hs, execOpcode_multisig _ s i pos true hs]
  have hR' := hR
  obtain ⟨h1, h2, h3, h5, h6, h7, h8, h9, h10, h11⟩ := hR
  rcases hss : s.stack with _ | ⟨nk, r1⟩
  · -- empty stack
    have hst : st.stack = [] := by rw [h1, hss]
    unfold checkMultisig ScriptSpec.opCheckMultisig
    simp only [hst, hss, envOf_sv]
    by_cases hsv : (c.sv == SigVersion.tapscript) = true
    · simp [hsv, agree_fail, bind, Except.bind, throw, throwThe, MonadExceptOf.throw]
    · simp [hsv, agree_fail, bind, Except.bind, throw, throwThe, MonadExceptOf.throw, pure, Except.pure]
  · have hst : st.stack = nk :: r1 := by rw [h1, hss]
    rw [ms_model_list c st i.op nk r1 hst, ms_spec_list _ s _ nk r1 hss]
    unfold msModelList msSpecList
    simp only [envOf_sv, envOf_f, ← flag_mindata, ← h5]
    by_cases hsv : (c.sv == SigVersion.tapscript) = true
    · simp [hsv, agree_fail, throw, throwThe, MonadExceptOf.throw]
    · simp only [hsv, Bool.false_eq_true, ↓reduceIte]
      cases hnk : ScriptSpec.ScriptNum.read nk (has c.flags VER_MINDATA) 4 with
      | error x => exact Agree.panic
      | ok n =>
        simp only
        by_cases hr1 : (decide (n < 0) || decide (n > 20)) = true
        · simp [hr1, agree_fail, throw, throwThe, MonadExceptOf.throw]
        · simp only [hr1, Bool.false_eq_true, ↓reduceIte]
          by_cases hop : st.opcnt + n.toNat > 201
          · simp [hop, agree_fail, throw, throwThe, MonadExceptOf.throw]
          · simp only [hop, ↓reduceIte]
            by_cases hl2 : r1.length < n.toNat + 1
            · simp [hl2, agree_fail, throw, throwThe, MonadExceptOf.throw]
            · simp only [hl2, ↓reduceIte]
              rcases hd : r1.drop n.toNat with _ | ⟨ns, r2⟩
              · simp [agree_fail, throw, throwThe, MonadExceptOf.throw]
              · simp only
                cases hns : ScriptSpec.ScriptNum.read ns (has c.flags VER_MINDATA) 4 with
                | error x => exact Agree.panic
                | ok m =>
                  simp only
                  have hn0 : (n.toNat : Int) = n := by simp at hr1; omega
                  rw [hn0]
                  by_cases hr2 : (decide (m < 0) || decide (m > n)) = true
                  · simp [hr2, agree_fail, throw, throwThe, MonadExceptOf.throw]
                  · simp only [hr2, Bool.false_eq_true, ↓reduceIte]
                    by_cases hl3 : r2.length < m.toNat
                    · have : r2.length < m.toNat + 1 := by omega
                      simp [hl3, this, agree_fail, throw, throwThe, MonadExceptOf.throw]
                    · simp only [hl3, ↓reduceIte]
                      by_cases hl4 : r2.length < m.toNat + 1
                      · -- no dummy element: gocoin fails at once, the spec at the end
                        have hd0 : r2.drop m.toNat = [] := List.drop_eq_nil_of_le (by omega)
                        obtain ⟨err, he⟩ := msSpecTail_nil (envOf T c leaf annex) s (i.op == 0xaf) (st.opcnt + n.toNat) (r1.take n.toNat) (r2.take m.toNat)
                        simp only [hl4, ↓reduceIte, hd0, he]
                        exact Agree.fail
                      · simp only [hl4, ↓reduceIte]
                        have hdl2 : (r2.drop m.toNat).length ≥ 1 := by simp; omega
                        rcases hd2 : r2.drop m.toNat with _ | ⟨dummy, r4⟩
                        · rw [hd2] at hdl2; simp at hdl2
                        · simp only
                          have hr1eq : r1 = r1.take n.toNat ++ ns :: r2 := by rw [← hd, List.take_append_drop]
                          have hr2eq : r2 = r2.take m.toNat ++ dummy :: r4 := by rw [← hd2, List.take_append_drop]
                          have hkl : (r1.take n.toNat).length = n.toNat := by simp; omega
                          have hsl : (r2.take m.toNat).length = m.toNat := by simp; omega
                          have := msTail_agree T c hO leaf annex st s i.op hR' hS nk ns dummy (r1.take n.toNat) (r2.take m.toNat) r4
                            (by rw [hst]; congr 1; rw [← hr2eq]; exact hr1eq)
                            (by rw [hkl, hsl]; simp at hr2; omega)
                          rw [hkl, ← h5] at this
                          exact this

end GocoinV.Proofs.C01
