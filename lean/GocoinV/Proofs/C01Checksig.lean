/-
  Proofs.C01Checksig — OP_CHECKSIG / OP_CHECKSIGVERIFY / OP_CHECKSIGADD: `evalChecksig` (pre-tapscript: script code
  with FindAndDelete, encodings, ECDSA, NULLFAIL; tapscript: validation-weight budget, key types, Schnorr with the
  "no digest ⇒ fail" rule) — model vs spec.
-/
import GocoinV.Proofs.C01FindDel
set_option linter.unusedSimpArgs false
namespace GocoinV.Proofs.C01
open GocoinV GocoinV.Script

/-- the ECDSA verdict both sides compute, for a total instance of the cryptography -/
def ecdsaOk (T : TotalOracles) (sv : SigVersion) (code sig pk : Bytes) : Bool :=
  match sig.getLast? with
  | none => false
  | some l =>
    if pk.isEmpty then false
    else T.ecdsaVerify pk sig (if sv == .witnessV0 then T.sigHashWitV0 code l.toNat else T.sigHashLegacy code l.toNat)

theorem verifyECDSA_eq (T : TotalOracles) (code sig pk : Bytes) (sv : SigVersion) :
    verifyECDSA T.toOracles code sig pk sv = .ok (ecdsaOk T sv code sig pk) := by
  unfold verifyECDSA ecdsaOk
  cases hl : sig.getLast? with
  | none => rfl
  | some l =>
    have hsl : sig.length ≠ 0 := by intro h; have : sig = [] := List.eq_nil_of_length_eq_zero h; simp [this] at hl
    simp only [sigHashFor, btcEcdsaVerify, TotalOracles.toOracles]
    by_cases hw : sv = .witnessV0
    · by_cases hp : pk.length = 0
      · have : pk = [] := List.eq_nil_of_length_eq_zero hp
        simp [hw, this, Res.ask]
      · have : pk.isEmpty = false := by cases pk with | nil => simp at hp | cons _ _ => rfl
        simp [hw, hp, hsl, this, Res.ask]
    · by_cases hp : pk.length = 0
      · have : pk = [] := List.eq_nil_of_length_eq_zero hp
        simp [hw, this, Res.ask]
      · have : pk.isEmpty = false := by cases pk with | nil => simp at hp | cons _ _ => rfl
        simp [hw, hp, hsl, this, Res.ask]

theorem specECDSA_eq (T : TotalOracles) (e : ScriptSpec.Env) (he : e.O = T.toOracles) (code sig pk : Bytes) :
    ScriptSpec.checkECDSASignature e sig pk code = .ok (ecdsaOk T e.sv code sig pk) := by
  unfold ScriptSpec.checkECDSASignature ecdsaOk
  cases hl : sig.getLast? with
  | none => rfl
  | some l =>
    simp only [he, TotalOracles.toOracles, ScriptSpec.ask]
    by_cases hp : pk.isEmpty = true
    · simp [hp, pure, Except.pure]
    · by_cases hw : e.sv = .witnessV0 <;> simp [hp, hw, pure, Except.pure, bind, Except.bind]

/-- `evalChecksigPreTapscript` behind the script-code computation -/
def preRes (T : TotalOracles) (sig pk : Bytes) (flags : Nat) (sv : SigVersion) (ed : ExecData) (scriptCode : Bytes) (found : Nat) :
    Res CsRes :=
  if sv == .base && found > 0 && has flags VER_CONST_SCRIPTCODE then .ok ⟨false, false, ed⟩
  else if !checkSignatureEncoding sig flags || !checkPubKeyEncoding pk flags sv then .ok ⟨false, false, ed⟩
  else
    if !ecdsaOk T sv scriptCode sig pk && has flags VER_NULLFAIL && sig.length > 0 then .ok ⟨false, ecdsaOk T sv scriptCode sig pk, ed⟩
    else .ok ⟨true, ecdsaOk T sv scriptCode sig pk, ed⟩

def preCode (sig p : Bytes) (pbegin : Nat) (sv : SigVersion) : Bytes × Nat :=
  if sv == .base then delSig (p.drop pbegin) sig else (p.drop pbegin, 0)

theorem checksigPre_model (T : TotalOracles) (sig pk p : Bytes) (pbegin flags : Nat) (sv : SigVersion) (ed : ExecData) :
    evalChecksigPreTapscript T.toOracles sig pk p pbegin flags sv ed =
      preRes T sig pk flags sv ed (preCode sig p pbegin sv).1 (preCode sig p pbegin sv).2 := by
  have hv := fun code => verifyECDSA_eq T code sig pk sv
  unfold verifyECDSA at hv
  unfold evalChecksigPreTapscript preRes preCode
  simp only [hv, Res.ok_bind, Res.pure_eq]

/-- the relation between the model's result record and the spec's verdict -/
def CsMatch (ed : ExecData) (m : Res CsRes) (sp : ScriptSpec.E Bool) : Prop :=
  match sp with
  | .ok b => m = .ok ⟨true, b, ed⟩
  | .error _ => ∃ su, m = .ok ⟨false, su, ed⟩

theorem eunit_cases (r : ScriptSpec.E Unit) : r = .ok () ∨ ∃ e, r = .error e := by
  cases r with
  | ok u => left; rfl
  | error e => right; exact ⟨e, rfl⟩

theorem checksigPre_agree (T : TotalOracles) (c : Ctx) (hO : c.O = T.toOracles) (leaf : Bytes) (annex : Option Bytes)
    (s : ScriptSpec.State) (sig pk : Bytes) (pbegin : Nat) (ed : ExecData)
    (hcode : c.p.drop pbegin = s.code)
    (hw : c.sv = .base → (ScriptSpec.parse s.code).2 = false ∧ s.code.length < 2 ^ 32) :
    CsMatch ed (evalChecksigPreTapscript c.O sig pk c.p pbegin c.flags c.sv ed)
      (ScriptSpec.evalChecksigPreTapscript (envOf T c leaf annex) s sig pk) := by
  rw [hO, checksigPre_model]
  unfold ScriptSpec.evalChecksigPreTapscript preRes preCode
  simp only [hcode, envOf_sv, envOf_f, specECDSA_eq T (envOf T c leaf annex) rfl, checkSignatureEncoding_eq, checkPubKeyEncoding_eq,
    flag_const, flag_nullfail]
  have hsl : decide (sig.length > 0) = !sig.isEmpty := by cases sig <;> simp
  simp only [hsl]
  have fin : ∀ (sc : Bytes), CsMatch ed
      (if (!match ScriptSpec.checkSignatureEncoding (ScriptSpec.Flags.ofMask c.flags) sig with
              | Except.ok a => true
              | Except.error a => false) ||
            !match ScriptSpec.checkPubKeyEncoding (ScriptSpec.Flags.ofMask c.flags) c.sv pk with
              | Except.ok a => true
              | Except.error a => false then Res.ok ⟨false, false, ed⟩
        else if (!ecdsaOk T c.sv sc sig pk && (ScriptSpec.Flags.ofMask c.flags).nullfail && !sig.isEmpty) = true then
          Res.ok ⟨false, ecdsaOk T c.sv sc sig pk, ed⟩
        else Res.ok ⟨true, ecdsaOk T c.sv sc sig pk, ed⟩)
      (do ScriptSpec.checkSignatureEncoding (ScriptSpec.Flags.ofMask c.flags) sig
          ScriptSpec.checkPubKeyEncoding (ScriptSpec.Flags.ofMask c.flags) c.sv pk
          let success ← (Except.ok (ecdsaOk T c.sv sc sig pk) : ScriptSpec.E Bool)
          if (!success && (ScriptSpec.Flags.ofMask c.flags).nullfail && !sig.isEmpty) = true then throw ScriptSpec.ScriptError.SIG_NULLFAIL
          pure success) := by
    intro sc
    rcases eunit_cases (ScriptSpec.checkSignatureEncoding (ScriptSpec.Flags.ofMask c.flags) sig) with h1 | ⟨e1, h1⟩ <;>
    rcases eunit_cases (ScriptSpec.checkPubKeyEncoding (ScriptSpec.Flags.ofMask c.flags) c.sv pk) with h2 | ⟨e2, h2⟩ <;>
    simp only [h1, h2, CsMatch, bind, Except.bind, Bool.not_true, Bool.not_false, Bool.or_false, Bool.or_true, Bool.false_eq_true, ↓reduceIte] <;>
    (try exact ⟨_, rfl⟩)
    by_cases hn : (!ecdsaOk T c.sv sc sig pk && (ScriptSpec.Flags.ofMask c.flags).nullfail && !sig.isEmpty) = true
    · simp only [hn, ↓reduceIte, throw, throwThe, MonadExceptOf.throw]
      exact ⟨_, rfl⟩
    · simp only [hn, Bool.false_eq_true, ↓reduceIte, pure, Except.pure]
  by_cases hb : c.sv = .base
  · obtain ⟨hw1, hw2⟩ := hw hb
    simp only [hb, beq_self_eq_true, ↓reduceIte, delSig_eq s.code sig hw1 hw2, Bool.true_and]
    by_cases hf : (decide ((ScriptSpec.findAndDelete s.code (ScriptSpec.pushEncoding sig)).2 > 0) && (ScriptSpec.Flags.ofMask c.flags).constScriptcode) = true
    · simp only [hf, ↓reduceIte, CsMatch, bind, Except.bind, throw, throwThe, MonadExceptOf.throw]
      exact ⟨_, rfl⟩
    · simp only [hf, Bool.false_eq_true, ↓reduceIte]
      have := fin (ScriptSpec.findAndDelete s.code (ScriptSpec.pushEncoding sig)).1
      rw [hb] at this
      simp only [bind, Except.bind, pure, Except.pure, throw, throwThe, MonadExceptOf.throw] at this ⊢
      exact this
  · have hb' : (c.sv == SigVersion.base) = false := by simp [hb]
    simp only [hb', Bool.false_eq_true, ↓reduceIte, Bool.false_and]
    have := fin s.code
    simp only [bind, Except.bind, pure, Except.pure, throw, throwThe, MonadExceptOf.throw] at this ⊢
    exact this

/-- what script verification assumes of `Tx.TaprootSigHash` (property C02): it returns nil (modelled as the empty
    string) exactly where BIP341 defines no signature message — an undefined hash type, or SIGHASH_SINGLE without a
    corresponding output -/
def TapSigHashOk (T : TotalOracles) (tx : TxCtx) : Prop :=
  ∀ a l csp ht scr, ((T.sigHashTap a l csp ht scr).length == 0) = !ScriptSpec.tapHashTypeDefined tx ht

theorem checkSchnorr_agree (T : TotalOracles) (c : Ctx) (hT : TapSigHashOk T c.tx) (sig pk : Bytes) (ed : ExecData) :
    checkSchnorrSignature T.toOracles sig pk c.sv ed =
      .ok (match ScriptSpec.checkSchnorrSignature (envOf T c ed.tapleafHash ed.annexHash) sig pk ed.codesepPos with
           | .ok _ => true | .error _ => false) := by
  unfold checkSchnorrSignature ScriptSpec.checkSchnorrSignature
  simp only [envOf_q, envOf_tx, envOf_sv, envOf_O, TotalOracles.toOracles, Res.ask, ScriptSpec.ask, at']
  have hT' := fun ht => hT ed.annexHash ed.tapleafHash ed.codesepPos ht (c.sv == SigVersion.tapscript)
  have hA : (envOf T c ed.tapleafHash ed.annexHash).annexHash = ed.annexHash := rfl
  have hL : (envOf T c ed.tapleafHash ed.annexHash).tapleaf = ed.tapleafHash := rfl
  simp only [hA, hL]
  by_cases h65 : sig.length = 65
  · by_cases hz : sig.getD 64 0 = 0
    · have h0 : (0 : UInt8).toNat = 0 := rfl
      simp only [h65, hz, h0, bind, Except.bind, throw, throwThe, MonadExceptOf.throw, beq_self_eq_true, bne_self_eq_false,
        Bool.and_false, Bool.false_eq_true, ↓reduceIte, Bool.and_true, Nat.reduceEqDiff, Nat.reduceBneDiff, Bool.and_self]
    · have hz' : ¬ (sig.getD 64 0).toNat = 0 := fun h => hz (UInt8.toNat_inj.mp (by simpa using h))
      simp only [h65, hz, hz', bind, Except.bind, throw, throwThe, MonadExceptOf.throw, pure, Except.pure, Res.bind, beq_self_eq_true,
        Bool.and_false, Bool.false_eq_true, ↓reduceIte, Bool.true_and, beq_iff_eq, Nat.reduceEqDiff, Nat.reduceBneDiff,
        Bool.and_true, Bool.not_false, hT', decide_false, Res.ok_bind]
      cases hd : ScriptSpec.tapHashTypeDefined c.tx (sig.getD 64 0).toNat
      · simp
      · cases hv : T.schnorrVerify pk (List.take 64 sig) (T.sigHashTap ed.annexHash ed.tapleafHash ed.codesepPos (sig.getD 64 0).toNat (c.sv == SigVersion.tapscript)) <;>
          simp [hv]
  · by_cases h64 : sig.length = 64
    · simp only [h64, bind, Except.bind, throw, throwThe, MonadExceptOf.throw, pure, Except.pure, Res.bind, beq_self_eq_true,
        bne_self_eq_false, Bool.and_false, Bool.false_eq_true, ↓reduceIte, Bool.true_and, beq_iff_eq, Nat.reduceEqDiff, Nat.reduceBneDiff,
        Bool.false_and, Bool.and_true, Bool.not_false, hT', Res.ok_bind]
      cases hd : ScriptSpec.tapHashTypeDefined c.tx 0
      · simp
      · cases hv : T.schnorrVerify pk (List.take 64 sig) (T.sigHashTap ed.annexHash ed.tapleafHash ed.codesepPos 0 (c.sv == SigVersion.tapscript)) <;>
          simp [hv]
    · simp [h65, h64, bind, Except.bind, throw, throwThe, MonadExceptOf.throw]
/-- model result record vs spec verdict + state, for `evalChecksig` -/
def CsMatch2 (ed : ExecData) (s : ScriptSpec.State) (m : Res CsRes) (sp : ScriptSpec.E (Bool × ScriptSpec.State)) : Prop :=
  match sp with
  | .ok (b, s') => ∃ w, m = .ok ⟨true, b, { ed with weightLeft := w }⟩ ∧ s' = { s with weightLeft := w }
  | .error _ => m = .panic ∨ ∃ su ed', m = .ok ⟨false, su, ed'⟩

theorem checksigTap_agree (T : TotalOracles) (c : Ctx) (hT : TapSigHashOk T c.tx) (s : ScriptSpec.State) (sig pk : Bytes) (ed : ExecData)
    (hwt : ed.weightLeft = s.weightLeft) (hcsp : ed.codesepPos = s.codesepPos) :
    CsMatch2 ed s (evalChecksigTapscript T.toOracles sig pk ed c.flags c.sv)
      (ScriptSpec.evalChecksigTapscript (envOf T c ed.tapleafHash ed.annexHash) s sig pk) := by
  unfold evalChecksigTapscript ScriptSpec.evalChecksigTapscript
  have hsc : ∀ ed' : ExecData, ed'.tapleafHash = ed.tapleafHash → ed'.annexHash = ed.annexHash → ed'.codesepPos = s.codesepPos →
      checkSchnorrSignature T.toOracles sig pk c.sv ed' =
      .ok (match ScriptSpec.checkSchnorrSignature (envOf T c ed.tapleafHash ed.annexHash) sig pk s.codesepPos with
           | .ok _ => true | .error _ => false) := by
    intro ed' h1 h2 h3
    rw [checkSchnorr_agree T c hT sig pk ed', h1, h2, h3]
  simp only [envOf_f, ← flag_dispubkey, show ScriptSpec.VALIDATION_WEIGHT_PER_SIGOP_PASSED = VALIDATION_WEIGHT_PER_SIGOP_PASSED from rfl]
  have hpe : ∀ pk : Bytes, (pk.length == 0) = pk.isEmpty := by intro pk; cases pk <;> simp
  simp only [hpe]
  by_cases hsig : sig.length > 0
  · -- non-empty signature: costs 50
    have hsig' : sig.isEmpty = false := by cases sig with | nil => simp at hsig | cons _ _ => rfl
    simp only [hsig, hsig', decide_true, Bool.not_false, ↓reduceIte, Bool.true_and, ← hwt, bind, Except.bind]
    by_cases hneg : ed.weightLeft - VALIDATION_WEIGHT_PER_SIGOP_PASSED < 0
    · simp [hneg, CsMatch2, throw, throwThe, MonadExceptOf.throw]
    · simp only [hneg, decide_false, Bool.false_eq_true, ↓reduceIte, pure, Except.pure]
      cases hpk : pk.isEmpty
      · simp only [Bool.false_eq_true, ↓reduceIte]
        by_cases h32 : pk.length = 32
        · have hsc' := hsc ({ ed with weightLeft := ed.weightLeft - VALIDATION_WEIGHT_PER_SIGOP_PASSED }) rfl rfl hcsp
          rw [hsc']
          simp only [h32, beq_self_eq_true, ↓reduceIte, Res.bind]
          rcases eunit_cases (ScriptSpec.checkSchnorrSignature (envOf T c ed.tapleafHash ed.annexHash) sig pk s.codesepPos) with h | ⟨e, h⟩
          · simp [h, CsMatch2]
          · simp [h, CsMatch2]
        · have : (pk.length == 32) = false := by simpa using h32
          simp only [this, Bool.false_eq_true, ↓reduceIte]
          cases has c.flags VER_DIS_PUBKEYTYPE <;> simp [CsMatch2, throw, throwThe, MonadExceptOf.throw]
      · simp [CsMatch2, throw, throwThe, MonadExceptOf.throw]
  · have hsig' : sig.isEmpty = true := by cases sig with | nil => rfl | cons _ _ => simp at hsig
    simp only [hsig, hsig', decide_false, Bool.not_true, Bool.false_eq_true, ↓reduceIte, Bool.false_and, bind, Except.bind, pure, Except.pure]
    cases hpk : pk.isEmpty
    · simp only [Bool.false_eq_true, ↓reduceIte]
      by_cases h32 : pk.length = 32
      · simp [h32, CsMatch2]
        exact ⟨ed.weightLeft, rfl, by rw [hwt]⟩
      · have : (pk.length == 32) = false := by simpa using h32
        simp only [this, Bool.false_eq_true, ↓reduceIte]
        cases has c.flags VER_DIS_PUBKEYTYPE <;> simp [CsMatch2, throw, throwThe, MonadExceptOf.throw]
        exact ⟨ed.weightLeft, rfl, by rw [hwt]⟩
    · simp [CsMatch2, throw, throwThe, MonadExceptOf.throw]


/-- side conditions of the signature opcodes: the taproot sighash oracle, and (legacy only) the script being
    executed decodes to its end and is shorter than 2^32 bytes -/
structure SigSide (T : TotalOracles) (c : Ctx) (s : ScriptSpec.State) : Prop where
  tap : TapSigHashOk T c.tx
  code : c.sv = .base → (ScriptSpec.parse s.code).2 = false ∧ s.code.length < 2 ^ 32

theorem evalChecksig_agree (T : TotalOracles) (c : Ctx) (hO : c.O = T.toOracles) (leaf : Bytes) (annex : Option Bytes)
    (st : St) (s : ScriptSpec.State) (sig pk : Bytes) (hR : Rel c leaf annex st s) (hS : SigSide T c s) :
    CsMatch2 st.ed s (evalChecksig c sig pk st.pbegin st.ed) (ScriptSpec.evalChecksig (envOf T c leaf annex) s sig pk) := by
  unfold evalChecksig ScriptSpec.evalChecksig
  simp only [envOf_sv]
  have hpre := checksigPre_agree T c hO leaf annex s sig pk st.pbegin st.ed hR.code hS.code
  have htap := checksigTap_agree T c hS.tap s sig pk st.ed hR.weight hR.csp
  rw [hR.leaf, hR.annex, ← hO] at htap
  cases hsv : c.sv
  · -- base
    simp only
    unfold CsMatch at hpre
    rcases h : ScriptSpec.evalChecksigPreTapscript (envOf T c leaf annex) s sig pk with e | b
    · rw [h] at hpre
      obtain ⟨su, hm⟩ := hpre
      rw [hsv] at hm
      simp only [bind, Except.bind, CsMatch2]
      exact Or.inr ⟨su, st.ed, hm⟩
    · rw [h] at hpre
      rw [hsv] at hpre
      simp only [bind, Except.bind, pure, Except.pure, CsMatch2]
      exact ⟨st.ed.weightLeft, hpre, by rw [hR.weight]⟩
  · simp only
    unfold CsMatch at hpre
    rcases h : ScriptSpec.evalChecksigPreTapscript (envOf T c leaf annex) s sig pk with e | b
    · rw [h] at hpre
      obtain ⟨su, hm⟩ := hpre
      rw [hsv] at hm
      simp only [bind, Except.bind, CsMatch2]
      exact Or.inr ⟨su, st.ed, hm⟩
    · rw [h] at hpre
      rw [hsv] at hpre
      simp only [bind, Except.bind, pure, Except.pure, CsMatch2]
      exact ⟨st.ed.weightLeft, hpre, by rw [hR.weight]⟩
  · simp [CsMatch2, throw, throwThe, MonadExceptOf.throw]
  · simp only
    rw [hsv] at htap
    exact htap

def checksigBody (c : Ctx) (st : St) (opcode : Nat) : Res St :=
    match st.stack with
    | vchPubKey :: vchSig :: r => do
      let cs ← evalChecksig c vchSig vchPubKey st.pbegin st.ed
      if !cs.ok then .fail
      else if opcode == 0xad then
        (if !cs.success then .fail else pure { st with stack := r, ed := cs.ed })
      else pure { st with stack := boolBytes cs.success :: r, ed := cs.ed }
    | _ => .fail

theorem execOp_checksig (c : Ctx) (st : St) (op idx pos : Nat) (b : Bool) (h : op = 0xac ∨ op = 0xad) :
    execOp c st op idx pos b = checksigBody c st op := by
  rcases h with h | h <;> subst h <;> simp only [execOp, isBinArith, checksigBody] <;> rfl

theorem execOpcode_checksig (e : ScriptSpec.Env) (s : ScriptSpec.State) (i : ScriptSpec.Instr) (pos : Nat) (b : Bool)
    (h : i.op = 0xac ∨ i.op = 0xad) :
    ScriptSpec.execOpcode e s i b pos = ScriptSpec.opChecksig e s (i.op == 0xad) := by
  obtain ⟨iop, idata, iafter⟩ := i
  simp only at h
  rcases h with h | h <;> subst h <;>
    simp [ScriptSpec.execOpcode, ScriptSpec.isShuffle, ScriptSpec.isUnaryNum, ScriptSpec.isBinaryNum]

theorem checksig_agree (T : TotalOracles) (c : Ctx) (hO : c.O = T.toOracles) (leaf : Bytes) (annex : Option Bytes) (st : St) (s : ScriptSpec.State)
    (i : ScriptSpec.Instr) (idx pos : Nat) (hR : Rel c leaf annex st s) (hs : i.op = 0xac ∨ i.op = 0xad) (hS : SigSide T c s) :
    Agree c leaf annex (execOp c st i.op idx pos true) (ScriptSpec.execOpcode (envOf T c leaf annex) s i true pos) := by
  rw [execOp_checksig c st i.op idx pos true hs, execOpcode_checksig _ s i pos true hs]
  unfold checksigBody ScriptSpec.opChecksig
  have hR' := hR
  obtain ⟨h1, h2, h3, h5, h6, h7, h8, h9, h10, h11⟩ := hR
  rcases hst : st.stack with _ | ⟨pk, _ | ⟨sig, r⟩⟩
  · rw [← h1, hst]; simp [agree_fail, throw, throwThe, MonadExceptOf.throw]
  · rw [← h1, hst]; simp [agree_fail, throw, throwThe, MonadExceptOf.throw]
  · rw [← h1, hst]
    simp only
    have hcs := evalChecksig_agree T c hO leaf annex st s sig pk hR' hS
    unfold CsMatch2 at hcs
    rcases hsp : ScriptSpec.evalChecksig (envOf T c leaf annex) s sig pk with e | ⟨b, s'⟩
    · rw [hsp] at hcs
      simp only [bind, Except.bind]
      rcases hcs with hm | ⟨su, ed', hm⟩
      · rw [hm]; exact Agree.panic
      · rw [hm]; simp [Res.bind, agree_fail]
    · rw [hsp] at hcs
      obtain ⟨w, hm, hs'⟩ := hcs
      rw [hm]
      subst hs'
      simp only [bind, Except.bind, Res.bind, Bool.not_true, Bool.false_eq_true, ↓reduceIte, pure, Except.pure]
      by_cases hv : i.op = 0xad
      · cases b <;> simp [hv, agree_fail, agree_ok, throw, throwThe, MonadExceptOf.throw]
        exact ⟨rfl, h2, h3, h5, h6, h7, rfl, h9, h10, h11⟩
      · simp [hv, agree_ok, boolBytes_ofBool]
        exact ⟨rfl, h2, h3, h5, h6, h7, rfl, h9, h10, h11⟩

theorem execOp_csa (c : Ctx) (st : St) (idx pos : Nat) (b : Bool) :
    execOp c st 0xba idx pos b =
    (if c.sv == .base || c.sv == .witnessV0 then .fail
    else if st.stack.length < 3 then .fail
    else do
      let sig ← top st.stack 3
      let num ← topInt st.stack 2 (has c.flags VER_MINDATA)
      let pubkey ← top st.stack 1
      let cs ← evalChecksig c sig pubkey st.pbegin st.ed
      if !cs.ok then .fail
      else
        let num' := if cs.success then num + 1 else num
        pure { st with stack := intBytes num' :: st.stack.drop 3, ed := cs.ed }) := by
  simp only [execOp, isBinArith]; rfl

theorem execOpcode_csa (e : ScriptSpec.Env) (s : ScriptSpec.State) (d a : Bytes) (pos : Nat) (b : Bool) :
    ScriptSpec.execOpcode e s ⟨0xba, d, a⟩ b pos = ScriptSpec.opChecksigAdd e s := by
  simp [ScriptSpec.execOpcode, ScriptSpec.isShuffle, ScriptSpec.isUnaryNum, ScriptSpec.isBinaryNum]

theorem csa_agree (T : TotalOracles) (c : Ctx) (hO : c.O = T.toOracles) (leaf : Bytes) (annex : Option Bytes) (st : St) (s : ScriptSpec.State)
    (i : ScriptSpec.Instr) (idx pos : Nat) (hR : Rel c leaf annex st s) (hs : i.op = 0xba) (hS : SigSide T c s) :
    Agree c leaf annex (execOp c st i.op idx pos true) (ScriptSpec.execOpcode (envOf T c leaf annex) s i true pos) := by
  obtain ⟨iop, idata, iafter⟩ := i
  simp only at hs; subst hs
  rw [execOp_csa, execOpcode_csa]
  unfold ScriptSpec.opChecksigAdd
  simp only [envOf_sv, envOf_f, ← flag_mindata]
  have hR' := hR
  obtain ⟨h1, h2, h3, h5, h6, h7, h8, h9, h10, h11⟩ := hR
  by_cases hsv : (c.sv == SigVersion.base || c.sv == SigVersion.witnessV0) = true
  · simp [hsv, agree_fail, bind, Except.bind, throw, throwThe, MonadExceptOf.throw]
  · simp only [hsv, Bool.false_eq_true, ↓reduceIte, bind, Except.bind, pure, Except.pure]
    rcases hst : st.stack with _ | ⟨pk, _ | ⟨nb, _ | ⟨sig, r⟩⟩⟩
    · rw [← h1, hst]; simp [agree_fail, throw, throwThe, MonadExceptOf.throw]
    · rw [← h1, hst]; simp [agree_fail, throw, throwThe, MonadExceptOf.throw]
    · rw [← h1, hst]; simp [agree_fail, throw, throwThe, MonadExceptOf.throw]
    · rw [← h1, hst]
      have hlen : ¬ ((pk :: nb :: sig :: r).length < 3) := by simp
      have ht3 : top (pk :: nb :: sig :: r) 3 = .ok sig := by simp [top]
      have ht2 : top (pk :: nb :: sig :: r) 2 = .ok nb := by simp [top]
      have ht1 : top (pk :: nb :: sig :: r) 1 = .ok pk := by simp [top]
      simp only [hlen, ↓reduceIte, ht3, ht1, topInt_eq _ _ _ nb ht2, Res.bind, List.drop_succ_cons, List.drop_zero]
      cases hrd : ScriptSpec.ScriptNum.read nb (has c.flags VER_MINDATA) 4
      · simp [agree_panic]
      · rename_i num
        simp only
        have hcs := evalChecksig_agree T c hO leaf annex st s sig pk hR' hS
        unfold CsMatch2 at hcs
        rcases hsp : ScriptSpec.evalChecksig (envOf T c leaf annex) s sig pk with e | ⟨b, s'⟩
        · rw [hsp] at hcs
          rcases hcs with hm | ⟨su, ed', hm⟩
          · rw [hm]; exact Agree.panic
          · rw [hm]; simp [agree_fail]
        · rw [hsp] at hcs
          obtain ⟨w, hm, hs'⟩ := hcs
          rw [hm]
          subst hs'
          simp only [Bool.not_true, Bool.false_eq_true, ↓reduceIte, agree_ok, intBytes_eq_encode]
          refine ⟨?_, h2, h3, h5, h6, h7, rfl, h9, h10, h11⟩
          cases b <;> simp

end GocoinV.Proofs.C01
