/-
  Proofs.C12RejAdm — Props/C12 OPEN (d): for the histories of `pool_inv` (admissible block / undo operations, process
  alive) the side condition `UndoOK` of `run_rejInv` follows from the already proved pool invariant (nothing pooled
  is confirmed), given that the transactions of one block have pairwise different BIDX.  Core Lean only.
-/
import GocoinV.Proofs.C12RejPanic
namespace GocoinV.Mempool

/-- every connected block has transactions with pairwise different BIDX -/
def UndoDist (K : Keys) (s : State) : Prop := ∀ e ∈ s.undo, (e.1.map fun t => K.bidx t.id).Nodup

/-- every block operation of the history brings transactions with pairwise different BIDX (for txids of `W` this is
    "pairwise different txids", `Univ.bidx_inj`) -/
def BlocksDistinct (K : Keys) (ops : List Op) : Prop :=
  ∀ op ∈ ops, ∀ h txs mf, op = Op.block h txs mf → (txs.map fun t => K.bidx t.id).Nodup

theorem step_sticky (K : Keys) (s : State) (op : Op) (hp : s.panicked = true) : (step K s op).panicked = true := by
  cases op with
  | block h txs mf =>
    exact (blockMined_env K mf _ txs).sticky (by rw [(connectUtxo_fields s h txs).2.2.2.1]; exact hp)
  | undo uh mf =>
    simp only [step]
    cases hd : disconnectUtxo s with
    | none => exact hp
    | some p =>
      obtain ⟨s', txs⟩ := p
      exact (blockUndoneAt_env K mf s' uh txs).sticky (by rw [(disconnectUtxo_fields s s' txs hd).2.2.1]; exact hp)
  | submitNet t tr mf => exact (step_env_pool K s _ (by intros; simp) (by intros; simp)).2.2 hp
  | submitLocal t mf => exact (step_env_pool K s _ (by intros; simp) (by intros; simp)).2.2 hp
  | tip h => exact (step_env_pool K s _ (by intros; simp) (by intros; simp)).2.2 hp
  | expire old => exact (step_env_pool K s _ (by intros; simp) (by intros; simp)).2.2 hp
  | evict v => exact (step_env_pool K s _ (by intros; simp) (by intros; simp)).2.2 hp
  | resort => exact (step_env_pool K s _ (by intros; simp) (by intros; simp)).2.2 hp
  | commitFlag y => exact (step_env_pool K s _ (by intros; simp) (by intros; simp)).2.2 hp
  | reload => exact (step_env_pool K s _ (by intros; simp) (by intros; simp)).2.2 hp

theorem run_sticky (K : Keys) : ∀ (ops : List Op) (s : State), s.panicked = true → (run K s ops).panicked = true := by
  intro ops
  induction ops with
  | nil => intro s h; exact h
  | cons op r ih =>
    intro s h
    unfold run
    simp only [List.foldl_cons]
    exact ih _ (step_sticky K s op h)

theorem step_undoDist (K : Keys) (s : State) (op : Op) (h : UndoDist K s)
    (hb : ∀ hh txs mf, op = Op.block hh txs mf → (txs.map fun t => K.bidx t.id).Nodup) : UndoDist K (step K s op) := by
  have key : ∀ op', (∀ h txs mf, op' ≠ Op.block h txs mf) → (∀ uh mf, op' ≠ Op.undo uh mf) → UndoDist K (step K s op') :=
    fun op' h1 h2 e he => h e (by rw [(step_env_pool K s op' h1 h2).1]; exact he)
  cases op with
  | block hh txs mf =>
    intro e he
    have he' : e ∈ (connectUtxo s hh txs).undo := by
      rw [← (blockMined_env K mf (connectUtxo s hh txs) txs).undo]; exact he
    obtain ⟨sc, hsc⟩ := (connectUtxo_fields s hh txs).2.2.2.2
    rw [hsc] at he'
    rcases List.mem_cons.mp he' with e1 | e1
    · rw [e1]; exact hb hh txs mf rfl
    · exact h e e1
  | undo uh mf =>
    simp only [step]
    cases hd : disconnectUtxo s with
    | none => exact h
    | some p =>
      obtain ⟨s', txs⟩ := p
      intro e he
      have he' : e ∈ s'.undo := by rw [← (blockUndoneAt_env K mf s' uh txs).undo]; exact he
      obtain ⟨sc, hsc⟩ := (disconnectUtxo_fields s s' txs hd).2.2.2
      exact h e (by rw [hsc]; exact List.mem_cons_of_mem _ he')
  | submitNet t tr mf => exact key _ (by intros; simp) (by intros; simp)
  | submitLocal t mf => exact key _ (by intros; simp) (by intros; simp)
  | tip hh => exact key _ (by intros; simp) (by intros; simp)
  | expire old => exact key _ (by intros; simp) (by intros; simp)
  | evict v => exact key _ (by intros; simp) (by intros; simp)
  | resort => exact key _ (by intros; simp) (by intros; simp)
  | commitFlag y => exact key _ (by intros; simp) (by intros; simp)
  | reload => exact key _ (by intros; simp) (by intros; simp)

/-- in a live state that satisfies the pool invariant no transaction of the last connected block is pooled, so
    BlockUndone meets each of them un-pooled -/
theorem undoOK_of_full {K : Keys} {W : Tx → Prop} {rank : TxId → Nat} {u0 : UT} {ν : OutPoint → Nat}
    (U : Univ2 K W rank u0 ν) (s : State) (op : Op) (h : Full K W u0 ν s) (alive : s.panicked = false)
    (hd : UndoDist K s) : UndoOK K s op := by
  cases op with
  | undo uh mf =>
    intro s' txs hdis
    obtain ⟨e1, _, _, sc, e5⟩ := disconnectUtxo_fields s s' txs hdis
    have hmem : (txs, sc) ∈ s.undo := by rw [e5]; exact List.mem_cons_self
    apply undoFresh_of_nodup K mf txs s' (hd (txs, sc) hmem)
    intro t ht
    rw [e1]
    cases hx : s.pool.get? (K.bidx t.id) with
    | none => rfl
    | some x =>
      exfalso
      have g := h.good alive
      have hxW := h.inv.poolW _ x hx
      have htW := h.inv.undoW (txs, sc) hmem t ht
      have hid : x.tx.id = t.id := U.base.bidx_inj x.tx t hxW htW (h.inv.str.key _ x hx)
      apply g.w.ncf _ x hx
      rw [hid]
      exact Or.inr ⟨(txs, sc), hmem, t, ht, rfl⟩
  | submitNet t tr mf => trivial
  | submitLocal t mf => trivial
  | block hh txs mf => trivial
  | tip hh => trivial
  | expire old => trivial
  | evict v => trivial
  | resort => trivial
  | commitFlag y => trivial
  | reload => trivial

/-- `RejInv` over the histories of `pool_inv`: admissible block / undo operations, blocks with pairwise different BIDX,
    the process alive at the end (hence throughout) -/
theorem run_rejInv_adm {K : Keys} {W : Tx → Prop} {rank : TxId → Nat} {u0 : UT} {ν : OutPoint → Nat}
    (U : Univ2 K W rank u0 ν) : ∀ (ops : List Op) (s : State), Full K W u0 ν s → RejInv K s → UndoDist K s →
    (∀ op ∈ ops, ∀ t ∈ op.txs, W t) → AdmRun K u0 ν s ops → BlocksDistinct K ops →
    (run K s ops).panicked = false → RejInv K (run K s ops) := by
  intro ops
  induction ops with
  | nil => intro s _ h _ _ _ _ _; exact h
  | cons op r ih =>
    intro s hF h hd hW ha hb alive
    have alive_s : s.panicked = false := by
      cases hp : s.panicked with
      | false => rfl
      | true => rw [run_sticky K _ s hp] at alive; cases alive
    have hu := undoOK_of_full U s op hF alive_s hd
    have hWop := hW op List.mem_cons_self
    unfold run at alive ⊢
    simp only [List.foldl_cons] at alive ⊢
    exact ih _ (step_full U s op hF hWop ha.1) (step_rejInv U.base s op hF.inv h hWop hu)
      (step_undoDist K s op hd (hb op List.mem_cons_self))
      (fun o ho => hW o (List.mem_cons_of_mem _ ho)) ha.2 (fun o ho => hb o (List.mem_cons_of_mem _ ho)) alive

/-- … from the initial state, under the hypotheses of Props/C12 `pool_inv` plus: ring of ≥ 2 slots, blocks with
    pairwise different BIDX -/
theorem rejInv_all_histories {K : Keys} {W : Tx → Prop} {rank : TxId → Nat} {u0 : UT} {ν : OutPoint → Nat}
    (U : Univ2 K W rank u0 ν) (cfg : Cfg) (h0 : Nat) (hcap : 2 ≤ cfg.ringCap) (ops : List Op)
    (hW : ∀ op ∈ ops, ∀ t ∈ op.txs, W t) (ha : AdmRun K u0 ν (genesis cfg u0 h0) ops) (hb : BlocksDistinct K ops)
    (alive : (run K (genesis cfg u0 h0) ops).panicked = false) : RejInv K (run K (genesis cfg u0 h0) ops) :=
  run_rejInv_adm U ops _ (full_genesis U cfg h0) (rejInv_genesis K cfg u0 h0 hcap)
    (by intro e he; simp [genesis] at he) hW ha hb alive

end GocoinV.Mempool
