/- C08 table proof chunk (written once by Proofs/mk_c08_tab.py; static). -/
import GocoinV.Proofs.C08_TabDefs
import GocoinV.Gen.TablesPreG04
import GocoinV.Gen.TablesPreG03
namespace GocoinV.C08
open GocoinV.Gen

theorem preG_04 : chainOK (Secp.dbl Secp.G) ((pts Tables.preG03).getLastD none :: pts Tables.preG04) = true := by
  decide +kernel
theorem preG_04_ne : pts Tables.preG04 ≠ [] := by decide +kernel

end GocoinV.C08
