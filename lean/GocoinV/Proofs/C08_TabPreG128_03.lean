/- C08 table proof chunk (written once by Proofs/mk_c08_tab.py; static). -/
import GocoinV.Proofs.C08_TabDefs
import GocoinV.Gen.TablesPreG12803
import GocoinV.Gen.TablesPreG12802
namespace GocoinV.C08
open GocoinV.Gen

theorem preG128_03 : chainOK (Secp.dbl g128) ((pts Tables.preG12802).getLastD none :: pts Tables.preG12803) = true := by
  decide +kernel
theorem preG128_03_ne : pts Tables.preG12803 ≠ [] := by decide +kernel

end GocoinV.C08
