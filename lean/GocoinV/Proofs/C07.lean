/-
  Proofs.C07 — helper lemmas for Props/C07.lean (core Lean only).
-/
import GocoinV.Model.PersistSpec
namespace GocoinV.Proofs.C07
open GocoinV.Persist

/-- which snapshot NewUnspentDb loads: UTXO.db, else UTXO.old -/
def loadSnap (d : Disk) : Option Snap :=
  match d.db with
  | some s => some s
  | none => d.old

theorem applyAll_cons (d : Disk) (e : LEffect) (es : List LEffect) :
    applyAll d (e :: es) = applyAll (apply d e.1) es := rfl

theorem applyAll_nil (d : Disk) : applyAll d [] = d := rfl

theorem applyAll_append (d : Disk) (a b : List LEffect) :
    applyAll d (a ++ b) = applyAll (applyAll d a) b := by
  simp [applyAll, List.foldl_append]

theorem removeTmps_fields (ts : List Tmp) : ∀ d : Disk,
    let d' := applyAll d (ts.map (fun t => (Effect.removeTmp t.tip, Pt.recovery)))
    d'.db = d.db ∧ d'.old = d.old ∧ d'.undo = d.undo ∧ d'.undoTmp = d.undoTmp ∧ d'.idx = d.idx ∧ d'.dat = d.dat := by
  induction ts with
  | nil => intro d; simp [applyAll]
  | cons t ts ih =>
    intro d
    have := ih (apply d (Effect.removeTmp t.tip))
    simpa [applyAll_cons, apply] using this

theorem recoverUnspent_fst (d : Disk) :
    (recoverUnspent d).1 = applyAll (apply d .removeUndoTmp) (d.tmps.map (fun t => (Effect.removeTmp t.tip, Pt.recovery))) := by
  simp [recoverUnspent, applyAll_cons]

theorem recover_fields (d : Disk) :
    (recoverUnspent d).1.db = d.db ∧ (recoverUnspent d).1.old = d.old ∧ (recoverUnspent d).1.undo = d.undo ∧
    (recoverUnspent d).1.undoTmp = none ∧ (recoverUnspent d).1.idx = d.idx ∧ (recoverUnspent d).1.dat = d.dat := by
  rw [recoverUnspent_fst]
  have := removeTmps_fields d.tmps (apply d .removeUndoTmp)
  simpa [apply] using this

theorem recover_snap (d : Disk) : (recoverUnspent d).2.2 = loadSnap d := by
  have h := recover_fields d
  have e : (recoverUnspent d).2.2 = (match (recoverUnspent d).1.db with | some s => some s | none => (recoverUnspent d).1.old) := rfl
  rw [e, h.1, h.2.1]; rfl

/-! ### undo file -/

theorem getUndo_setUndo_same (l : List (Nat × UndoFile)) (h : Nat) (u : UndoFile) :
    getUndo (setUndo l h u) h = some u := by
  simp [getUndo, setUndo]

theorem find_filter_ne (l : List (Nat × UndoFile)) (h h' : Nat) (hne : h' ≠ h) :
    List.find? (fun p => p.1 == h') (l.filter (fun p => p.1 != h)) = List.find? (fun p => p.1 == h') l := by
  induction l with
  | nil => rfl
  | cons p l ih =>
    by_cases hp : p.1 = h
    · have hq : (p.1 == h') = false := by
        have : p.1 ≠ h' := by omega
        simpa using this
      have hf : (p.1 != h) = false := by simp [hp]
      rw [List.filter_cons]
      simp only [hf]
      rw [List.find?_cons]
      simp only [hq]
      exact ih
    · have hf : (p.1 != h) = true := by simp [hp]
      rw [List.filter_cons]
      simp only [hf, if_true]
      rw [List.find?_cons, List.find?_cons, ih]

theorem getUndo_setUndo_other (l : List (Nat × UndoFile)) (h h' : Nat) (u : UndoFile) (hne : h' ≠ h) :
    getUndo (setUndo l h u) h' = getUndo l h' := by
  unfold getUndo setUndo
  have h1 : ¬ (h = h') := by omega
  simp [List.find?_cons, h1, find_filter_ne l h h' hne]

theorem undo_write_atomic' (d : Disk) (u : UndoFile) (h : Nat) (k : Nat) :
    let d' := (recoverUnspent (applyAll d ((undoWriteEffects u h).take k))).1
    (getUndo d'.undo h = getUndo ((recoverUnspent d).1).undo h ∨ getUndo d'.undo h = some u) ∧
    (∀ h', h' ≠ h → getUndo d'.undo h' = getUndo d.undo h') ∧ d'.undoTmp = none := by
  intro d'
  have hf := recover_fields (applyAll d ((undoWriteEffects u h).take k))
  have h0 := recover_fields d
  refine ⟨?_, ?_, hf.2.2.2.1⟩
  · show getUndo d'.undo h = _ ∨ _
    rw [show d'.undo = _ from hf.2.2.1, h0.2.2.1]
    match k with
    | 0 => left; rfl
    | 1 => left; simp [undoWriteEffects, applyAll, apply]
    | k + 2 =>
      right
      simp [undoWriteEffects, applyAll, apply, getUndo_setUndo_same]
  · intro h' hne
    rw [show d'.undo = _ from hf.2.2.1]
    match k with
    | 0 => rfl
    | 1 => simp [undoWriteEffects, applyAll, apply]
    | k + 2 =>
      simp [undoWriteEffects, applyAll, apply, getUndo_setUndo_other _ _ _ _ hne]

/-! ### block append -/

theorem block_append_atomic' (d : Disk) (b : Block) (r : IdxRec) (hr : r.id = b.id) (k : Nat)
    (hinv : ∀ x ∈ d.idx, ∃ y ∈ d.dat, y.id = x.id) :
    let d' := applyAll d ((appendEffects b r).take k)
    (d'.idx = d.idx ∨ d'.idx = d.idx ++ [r]) ∧ (∀ x ∈ d'.idx, ∃ y ∈ d'.dat, y.id = x.id) := by
  have grow : ∀ x ∈ d.idx, ∃ y ∈ d.dat ++ [b], y.id = x.id := by
    intro x hx
    obtain ⟨y, hy, e⟩ := hinv x hx
    exact ⟨y, List.mem_append_left _ hy, e⟩
  have full : ∀ x ∈ d.idx ++ [r], ∃ y ∈ d.dat ++ [b], y.id = x.id := by
    intro x hx
    simp only [List.mem_append, List.mem_singleton] at hx
    rcases hx with hx | hx
    · exact grow x hx
    · exact ⟨b, by simp, by rw [hx, hr]⟩
  rcases k with _ | _ | _ | _ | k
  · exact ⟨Or.inl rfl, hinv⟩
  · exact ⟨Or.inl rfl, hinv⟩
  · exact ⟨Or.inl rfl, grow⟩
  · exact ⟨Or.inr rfl, full⟩
  · have e : (appendEffects b r).take (k + 1 + 1 + 1 + 1) = appendEffects b r := by simp [appendEffects]
    simp only [e]
    exact ⟨Or.inr rfl, full⟩

/-! ### own undo data restores the set -/

theorem undo_own_commit' (u : List Coin) (b : Block)
    (hv : validOn u b = true) (hfresh : ∀ c ∈ b.creates, c ∉ u) :
    ∀ c, c ∈ undoU (commitU u b) b b.spends ↔ c ∈ u := by
  intro c
  have hs : ∀ x ∈ b.spends, x ∈ u := by
    simpa [validOn, List.all_eq_true] using hv
  simp only [undoU, commitU, List.mem_append, List.mem_filter, List.contains_eq_mem, Bool.not_eq_true',
    decide_eq_false_iff_not, decide_eq_true_eq]
  constructor
  · rintro (⟨h1 | h1, h2⟩ | ⟨h1, _⟩)
    · exact h1.1
    · exact absurd h1 h2
    · exact hs c h1
  · intro hc
    by_cases hsp : c ∈ b.spends
    · right
      refine ⟨hsp, ?_⟩
      rintro ⟨h1 | h1, h2⟩
      · exact h1.2 hsp
      · exact h2 h1
    · left
      exact ⟨Or.inl ⟨hc, hsp⟩, fun hcr => hfresh c hcr hc⟩

/-! ### snapshot save -/

theorem fullChunks_es (t : BlockId) : ∀ (k : Nat) (s : St),
    (fullChunks s t k).es = s.es ++ chunkEffects t k ∧ (fullChunks s t k).n = s.n := by
  intro k
  induction k with
  | zero => intro s; simp [fullChunks, chunkEffects]
  | succ k ih =>
    intro s
    have := ih ((s.emit .nop .saveChunk).emit (.chunkTmp t) .fileChunk)
    simp only [fullChunks, chunkEffects]
    constructor
    · rw [this.1]; simp [St.emit, List.append_assoc]
    · rw [this.2]; rfl

theorem finishSave_es (s : St) (sn : Snap) :
    (finishSave s sn).es = s.es ++ [(.nop, .saveFinito), (.chunkTmp sn.tip, .fileChunk), (.flushTmp sn.tip, .fileClosed), (.renameTmpDb sn.tip, .fileRenamed)] := by
  simp [finishSave, St.emit, List.append_assoc]

theorem startSave_effects' (s : St) (h1 : s.n.saving = none) (h2 : s.n.pause = false) :
    (startSave s false).es = s.es ++ saveEffects ⟨s.n.tip, s.n.lastHeight, s.n.utxo⟩ (nBig s.n) := by
  unfold startSave
  simp only [h1, Option.isSome_none, Bool.false_eq_true, if_false]
  have hp : (((s.emit .nop .saveBegin).emit .renameDbOld .saveRenamedOld).emit (.createTmp ⟨s.n.tip, s.n.lastHeight, s.n.utxo⟩) .fileCreated).n.pause = false := h2
  simp only [hp, Bool.false_and, Bool.false_eq_true, if_false]
  rw [finishSave_es, (fullChunks_es _ _ _).1]
  simp [St.emit, saveEffects, List.append_assoc]

def tmpOnly : Effect → Bool
  | .nop | .createTmp _ | .chunkTmp _ | .flushTmp _ => true
  | _ => false

def keeper : Effect → Bool
  | .nop | .chunkTmp _ | .flushTmp _ => true
  | _ => false

theorem keeper_tmpOnly (e : Effect) (h : keeper e = true) : tmpOnly e = true := by
  cases e <;> simp_all [keeper, tmpOnly]

theorem apply_tmpOnly (d : Disk) (e : Effect) (h : tmpOnly e = true) :
    (apply d e).db = d.db ∧ (apply d e).old = d.old := by
  cases e <;> simp_all [tmpOnly, apply]

theorem applyAll_tmpOnly (es : List LEffect) : ∀ d : Disk, (∀ e ∈ es, tmpOnly e.1 = true) →
    (applyAll d es).db = d.db ∧ (applyAll d es).old = d.old := by
  induction es with
  | nil => intro d _; exact ⟨rfl, rfl⟩
  | cons e es ih =>
    intro d h
    rw [applyAll_cons]
    have h1 := apply_tmpOnly d e.1 (h e (by simp))
    have h2 := ih (apply d e.1) (fun x hx => h x (by simp [hx]))
    exact ⟨h2.1.trans h1.1, h2.2.trans h1.2⟩

/-- the tmp file of the snapshot being written exists and will hold `sn` -/
def hasTmp (d : Disk) (sn : Snap) : Prop :=
  ∃ x, d.tmps.find? (fun y => y.tip == sn.tip) = some x ∧ x.snap = sn

theorem find_map_keep (l : List Tmp) (t : BlockId) (f : Tmp → Tmp) (hf : ∀ x, (f x).tip = x.tip) :
    (l.map f).find? (fun y => y.tip == t) = (l.find? (fun y => y.tip == t)).map f := by
  induction l with
  | nil => rfl
  | cons a l ih =>
    simp only [List.map_cons, List.find?_cons, hf]
    split <;> simp_all

theorem apply_keeper (d : Disk) (e : Effect) (sn : Snap) (h : keeper e = true) (ht : hasTmp d sn) :
    hasTmp (apply d e) sn := by
  obtain ⟨x, hx, hs⟩ := ht
  cases e <;> simp [keeper] at h
  · exact ⟨x, hx, hs⟩
  · rename_i t
    refine ⟨if x.tip == t then { x with chunks := x.chunks + 1 } else x, ?_, ?_⟩
    · simp only [apply]
      rw [find_map_keep _ _ _ (by intro y; split <;> rfl), hx]; rfl
    · split <;> simp [hs]
  · rename_i t
    refine ⟨if x.tip == t then { x with flushed := true } else x, ?_, ?_⟩
    · simp only [apply]
      rw [find_map_keep _ _ _ (by intro y; split <;> rfl), hx]; rfl
    · split <;> simp [hs]

theorem applyAll_keeper (es : List LEffect) (sn : Snap) : ∀ d : Disk, (∀ e ∈ es, keeper e.1 = true) →
    hasTmp d sn → hasTmp (applyAll d es) sn := by
  induction es with
  | nil => intro d _ h; exact h
  | cons e es ih =>
    intro d h ht
    rw [applyAll_cons]
    exact ih _ (fun x hx => h x (by simp [hx])) (apply_keeper d e.1 sn (h e (by simp)) ht)

theorem chunkEffects_keeper (t : BlockId) (n : Nat) : ∀ e ∈ chunkEffects t n, keeper e.1 = true := by
  induction n with
  | zero => intro e he; simp [chunkEffects] at he
  | succ n ih =>
    intro e he
    simp only [chunkEffects, List.mem_append, List.mem_cons, List.not_mem_nil, or_false] at he
    rcases he with (he | he) | he
    · rw [he]; rfl
    · rw [he]; rfl
    · exact ih e he

def saveMid (sn : Snap) (n : Nat) : List LEffect :=
  chunkEffects sn.tip n ++ [(.nop, .saveFinito), (.chunkTmp sn.tip, .fileChunk), (.flushTmp sn.tip, .fileClosed)]

theorem saveMid_keeper (sn : Snap) (n : Nat) : ∀ e ∈ saveMid sn n, keeper e.1 = true := by
  intro e he
  simp only [saveMid, List.mem_append, List.mem_cons, List.not_mem_nil, or_false] at he
  rcases he with he | he | he | he
  · exact chunkEffects_keeper _ _ e he
  · rw [he]; rfl
  · rw [he]; rfl
  · rw [he]; rfl

theorem saveEffects_split (sn : Snap) (n : Nat) :
    saveEffects sn n = (.nop, .saveBegin) :: (.renameDbOld, .saveRenamedOld) :: (.createTmp sn, .fileCreated) ::
      (saveMid sn n ++ [(.renameTmpDb sn.tip, .fileRenamed)]) := by
  simp [saveEffects, saveMid, List.append_assoc]

theorem loadSnap_of (d d' : Disk) (h1 : d'.db = d.db) (h2 : d'.old = d.old) : loadSnap d' = loadSnap d := by
  simp [loadSnap, h1, h2]

theorem loadSnap_rename (d : Disk) : loadSnap (apply d .renameDbOld) = loadSnap d := by
  unfold loadSnap apply
  cases h : d.db <;> simp [h]

theorem save_crash_atomic' (d : Disk) (sn : Snap) (n k : Nat) :
    let d' := applyAll d ((saveEffects sn n).take k)
    (recoverUnspent d').2.2 = (recoverUnspent d).2.2 ∨
      ((saveEffects sn n).length ≤ k ∧ (recoverUnspent d').2.2 = some sn) := by
  intro d'
  rw [recover_snap, recover_snap]
  have hsplit := saveEffects_split sn n
  rcases k with _ | _ | _ | k
  · left; rfl
  · left; simp [d', hsplit, applyAll, apply]
  · left
    have : d' = apply d .renameDbOld := by simp [d', hsplit, applyAll, apply]
    rw [this]; exact loadSnap_rename d
  · -- three effects done: UTXO.db renamed away, tmp created
    let d3 := apply (apply d .renameDbOld) (.createTmp sn)
    have h3 : loadSnap d3 = loadSnap d := by
      rw [← loadSnap_rename d]
      exact loadSnap_of _ _ rfl rfl
    have ht3 : hasTmp d3 sn := ⟨{ tip := sn.tip, snap := sn, chunks := 0, flushed := false }, by simp [d3, apply], rfl⟩
    have hd' : d' = applyAll d3 ((saveMid sn n ++ [(Effect.renameTmpDb sn.tip, Pt.fileRenamed)]).take k) := by
      show applyAll d (List.take (k + 1 + 1 + 1) (saveEffects sn n)) = _
      rw [hsplit]; rfl
    rw [hd', List.take_append]
    by_cases hk : k ≤ (saveMid sn n).length
    · left
      have : k - (saveMid sn n).length = 0 := by omega
      rw [this, List.take_zero, List.append_nil]
      have hp := applyAll_tmpOnly ((saveMid sn n).take k) d3
        (fun e he => keeper_tmpOnly _ (saveMid_keeper sn n e (List.mem_of_mem_take he)))
      rw [loadSnap_of _ _ hp.1 hp.2, h3]
    · right
      have hk' : (saveMid sn n).length < k := by omega
      constructor
      · rw [hsplit]; simp; omega
      · rw [List.take_of_length_le (by omega)]
        have : ([(Effect.renameTmpDb sn.tip, Pt.fileRenamed)] : List LEffect).take (k - (saveMid sn n).length) = [(Effect.renameTmpDb sn.tip, Pt.fileRenamed)] := by
          rw [List.take_of_length_le]; simp; omega
        rw [this, applyAll_append]
        obtain ⟨x, hx, hs⟩ := applyAll_keeper (saveMid sn n) sn d3 (saveMid_keeper sn n) ht3
        generalize applyAll d3 (saveMid sn n) = dm at hx
        show loadSnap (apply dm (.renameTmpDb sn.tip)) = some sn
        simp only [apply, hx, loadSnap, hs]

end GocoinV.Proofs.C07
