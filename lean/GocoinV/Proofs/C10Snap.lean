/-
  Proofs.C10Snap — snapshot file framing round trip.
-/
import GocoinV.Proofs.C10Rec
namespace GocoinV.UtxoRec
open GocoinV.CompactSize

theorem readVLen_putULe (n : Nat) (h : n < 2 ^ 64) (rest : Bytes) :
    readVLen (putULe n ++ rest) = some (n, rest) := by
  unfold putULe
  by_cases h1 : n < 0xfd
  · have e : (UInt8.ofNat n).toNat = n := by simp [UInt8.toNat_ofNat']; omega
    simp only [h1, ↓reduceIte, List.cons_append, List.nil_append, readVLen, e]
  · by_cases h2 : n < 0x10000
    · simp only [h1, h2, ↓reduceIte, List.cons_append, readVLen]
      have hs : shorter (leBytes 2 n ++ rest) 2 = false := shorter_eq_false _ _ (by simp)
      have ht : (leBytes 2 n ++ rest).take 2 = leBytes 2 n := by
        rw [List.take_append_of_le_length (by simp)]; exact List.take_of_length_le (by simp)
      have hd : (leBytes 2 n ++ rest).drop 2 = rest := by
        have := List.drop_left (l₁ := leBytes 2 n) (l₂ := rest); simp
      simp [hs, ht, hd, leVal_leBytes]; omega
    · by_cases h3 : n < 0x100000000
      · simp only [h1, h2, h3, ↓reduceIte, List.cons_append, readVLen]
        have hs : shorter (leBytes 4 n ++ rest) 4 = false := shorter_eq_false _ _ (by simp)
        have ht : (leBytes 4 n ++ rest).take 4 = leBytes 4 n := by
          rw [List.take_append_of_le_length (by simp)]; exact List.take_of_length_le (by simp)
        have hd : (leBytes 4 n ++ rest).drop 4 = rest := by
          have := List.drop_left (l₁ := leBytes 4 n) (l₂ := rest); simp
        simp [hs, ht, hd, leVal_leBytes]; omega
      · simp only [h1, h2, h3, ↓reduceIte, List.cons_append, readVLen]
        have hs : shorter (leBytes 8 n ++ rest) 8 = false := shorter_eq_false _ _ (by simp)
        have ht : (leBytes 8 n ++ rest).take 8 = leBytes 8 n := by
          rw [List.take_append_of_le_length (by simp)]; exact List.take_of_length_le (by simp)
        have hd : (leBytes 8 n ++ rest).drop 8 = rest := by
          have := List.drop_left (l₁ := leBytes 8 n) (l₂ := rest); simp
        simp [hs, ht, hd, leVal_leBytes]; omega

theorem decRecs_enc (recs : List Bytes) (hr : ∀ r ∈ recs, r.length < 2 ^ 64) (extra : Bytes) :
    decRecs recs.length (encRecs recs ++ extra) = some recs := by
  induction recs with
  | nil => simp [decRecs]
  | cons r t ih =>
    have ht : ∀ r ∈ t, r.length < 2 ^ 64 := fun x hx => hr x (List.mem_cons_of_mem _ hx)
    simp only [List.length_cons, decRecs, encRecs, List.append_assoc,
      readVLen_putULe r.length (hr r (by simp))]
    have hs : shorter (r ++ (encRecs t ++ extra)) r.length = false := shorter_eq_false _ _ (by simp)
    simp [hs, ih ht]


structure WFSnap (s : Snap) : Prop where
  height : s.height < 2 ^ 32
  hash : s.hash.length = 32
  count : s.recs.length < 2 ^ 64
  recs : ∀ r ∈ s.recs, r.length < 2 ^ 64

theorem snapDecode_snapEncode (s : Snap) (h : WFSnap s) (extra : Bytes) :
    snapDecode (snapEncode s ++ extra) = some s := by
  obtain ⟨hh, hhash, hcnt, hrecs⟩ := h
  unfold snapEncode snapDecode
  generalize hu : s.height + (if s.compressed then 2 ^ 63 else 0) = u
  have hu64 : u < 2 ^ 64 := by subst hu; split <;> omega
  have hlen : ¬ ((leBytes 8 u ++ (s.hash ++ (leBytes 8 s.recs.length ++ encRecs s.recs)) ++ extra).length < 48) := by
    simp [hhash]; omega
  have t8 : (leBytes 8 u ++ (s.hash ++ (leBytes 8 s.recs.length ++ encRecs s.recs)) ++ extra).take 8 = leBytes 8 u := by
    rw [List.append_assoc, List.take_append_of_le_length (by simp)]; exact List.take_of_length_le (by simp)
  have d8 : (leBytes 8 u ++ (s.hash ++ (leBytes 8 s.recs.length ++ encRecs s.recs)) ++ extra).drop 8
      = s.hash ++ (leBytes 8 s.recs.length ++ (encRecs s.recs ++ extra)) := by
    have := List.drop_left (l₁ := leBytes 8 u) (l₂ := s.hash ++ (leBytes 8 s.recs.length ++ (encRecs s.recs ++ extra)))
    simpa using this
  have d40 : (leBytes 8 u ++ (s.hash ++ (leBytes 8 s.recs.length ++ encRecs s.recs)) ++ extra).drop 40
      = leBytes 8 s.recs.length ++ (encRecs s.recs ++ extra) := by
    have e : 40 = 8 + 32 := rfl
    rw [e, ← List.drop_drop, d8, ← hhash]; simp
  have d48 : (leBytes 8 u ++ (s.hash ++ (leBytes 8 s.recs.length ++ encRecs s.recs)) ++ extra).drop 48
      = encRecs s.recs ++ extra := by
    have e : 48 = 40 + 8 := rfl
    rw [e, ← List.drop_drop, d40]
    have := List.drop_left (l₁ := leBytes 8 s.recs.length) (l₂ := encRecs s.recs ++ extra)
    simpa using this
  have th : (s.hash ++ (leBytes 8 s.recs.length ++ (encRecs s.recs ++ extra))).take 32 = s.hash := by
    rw [← hhash]; simp
  have tc : (leBytes 8 s.recs.length ++ (encRecs s.recs ++ extra)).take 8 = leBytes 8 s.recs.length := by
    rw [List.take_append_of_le_length (by simp)]; exact List.take_of_length_le (by simp)
  have p8 : (256 : Nat) ^ 8 = 2 ^ 64 := by decide
  simp only [hlen, ↓reduceIte, t8, d8, d40, d48, th, tc, leVal_leBytes, p8,
    Nat.mod_eq_of_lt hu64, Nat.mod_eq_of_lt hcnt, decRecs_enc s.recs hrecs extra]
  have hc : (u / 2 ^ 63 % 2 == 1) = s.compressed := by
    subst hu; cases s.compressed <;> simp <;> omega
  have hht : u % 2 ^ 32 = s.height := by
    subst hu; split <;> omega
  rw [hc, hht]

end GocoinV.UtxoRec
