/-
  Proofs.C04Witness — the concrete chain states and blocks on which `connect_sound` fails (DESIGN §6 C04, F3a–F3d).
  The same four cases are replayed against the real code by go/cmd/c04 (kinds prefix8-double-spend, amount-wrap2,
  seqlock-height-bad, sigops-hidden-80004).
-/
import GocoinV.Spec.Connect
namespace GocoinV.Proofs.C04.W
open GocoinV GocoinV.Connect

/-- two txids with the same first 8 bytes -/
def h1 : Bytes := [1,2,3,4,5,6,7,8] ++ List.replicate 24 0xaa
def h2 : Bytes := [1,2,3,4,5,6,7,8] ++ List.replicate 24 0xbb
def nullHash : Bytes := List.replicate 32 0
def idOf (n : UInt8) : Bytes := List.replicate 32 n

/-- one confirmed, non-coinbase coin (h1,0) of 1000 satoshi created at height 150 -/
def db0 : DB := [(key8 h1, { txid := h1, height := 150, coinbase := false, outs := [some ⟨1000, [0x51]⟩] })]

def cbTx (v : Nat) : Tx :=
  { txid := idOf 0xc0, version := 1,
    ins := [{ prev := ⟨nullHash, 0xffffffff⟩, scriptSig := [1, 200], sequence := 0xffffffff, witness := [], scriptOk := true }],
    outs := [⟨v, [0x51]⟩], lockTime := 0, noWitSize := 100 }

def spend (id : UInt8) (ver : Nat) (h : Bytes) (seq : Nat) (outs : List TxOut) : Tx :=
  { txid := idOf id, version := ver,
    ins := [{ prev := ⟨h, 0⟩, scriptSig := [], sequence := seq, witness := [], scriptOk := true }],
    outs := outs, lockTime := 0, noWitSize := 100 }

def blk (txs : List Tx) : Block :=
  { hash := idOf 0xb1, height := 151, time := 2000000, mtp := 1990000, p2sh := true, witness := true, csv := true, txs := txs }

/-- F3a: (h1,0) is spent, and then "(h2,0)" — a coin that does not exist — is spent too -/
def blockPrefix : Block :=
  blk [cbTx 5000000000, spend 1 1 h1 0xffffffff [⟨1000, [0x51]⟩], spend 2 1 h2 0xffffffff [⟨1000, [0x52]⟩]]
/-- F3b: 1000 satoshi in, outputs 2^63 and 2^63+1000 (sum ≡ 1000 mod 2^64) -/
def blockWrap : Block :=
  blk [cbTx 5000000000, spend 1 1 h1 0xffffffff [⟨2^63, [0x51]⟩, ⟨2^63 + 1000, [0x51]⟩]]
/-- F3c: version 2, relative height lock of 10 blocks on a coin that is 1 block deep, CSV active -/
def blockSeqLock : Block := blk [cbTx 5000000000, spend 1 2 h1 10 [⟨1000, [0x51]⟩]]
/-- F3d: an output script OP_RETURN followed by 1001 OP_CHECKMULTISIG: consensus cost 4·20·1001 = 80080 -/
def blockSigops : Block :=
  blk [cbTx 5000000000, spend 1 1 h1 0xffffffff [⟨1000, [0x51]⟩, ⟨0, 0x6a :: List.replicate 1001 0xae⟩]]

def mtp0 : Nat → Nat := fun _ => 0

/-- a coinbase whose INPUT script is `sig` and which carries 999 OP_CHECKMULTISIG (legacy count 20 each: cost
    4·20·999 = 79920) in a second, zero-value output -/
def cbSig (sig : Bytes) : Tx :=
  { cbTx 5000000000 with
    ins := [{ prev := ⟨nullHash, 0xffffffff⟩, scriptSig := sig, sequence := 0xffffffff, witness := [], scriptOk := true }],
    outs := [⟨5000000000, [0x51]⟩, ⟨0, List.replicate 999 0xae⟩] }
/-- coinbase input script `push(200) OP_CHECKMULTISIG`: 20 more sigops, cost 80 — the block is exactly full (80000) -/
def blockCbSigFull : Block := blk [cbSig [1, 200, 0xae]]
/-- one OP_CHECKSIG more in the coinbase input script: 80004, only the coinbase scriptSig takes the block over the limit -/
def blockCbSigOver : Block := blk [cbSig [1, 200, 0xae, 0xac]]

/-- a plainly valid block: spends (h1,0) into one output -/
def blockOk : Block := blk [cbTx 5000000000, spend 1 1 h1 0xffffffff [⟨900, [0x51]⟩]]

/-- a valid block with a version-2 transaction whose BIP68 height lock of 1 block is satisfied (coin at 150, block 151) -/
def blockLockOk : Block := blk [cbTx 5000000000, spend 1 2 h1 1 [⟨900, [0x51]⟩]]

/-- two CHOSEN txids with equal first 8 bytes (real ones would need a 2^32-work collision search) -/
def idA : Bytes := [9,9,9,9,9,9,9,9] ++ List.replicate 24 1
def idB : Bytes := [9,9,9,9,9,9,9,9] ++ List.replicate 24 2
/-- A spends (h1,0) into two outputs; B spends (A,0); (A,1) stays unspent -/
def blockClash : Block :=
  blk [cbTx 5000000000,
       { spend 1 1 h1 0xffffffff [⟨600, [0x51]⟩, ⟨400, [0x51]⟩] with txid := idA },
       { spend 2 1 idA 0xffffffff [⟨600, [0x51]⟩] with txid := idB }]

end GocoinV.Proofs.C04.W
