/- C08 table proof chunk (written once by Proofs/mk_c08_tab.py; static). -/
import GocoinV.Proofs.C08_TabDefs
import GocoinV.Gen.TablesPreG12
import GocoinV.Gen.TablesPreG11
namespace GocoinV.C08
open GocoinV.Gen

theorem preG_12 : chainOK (Secp.dbl Secp.G) ((pts Tables.preG11).getLastD none :: pts Tables.preG12) = true := by
  decide +kernel
theorem preG_12_ne : pts Tables.preG12 ≠ [] := by decide +kernel

end GocoinV.C08
