/-
  Proofs.C12Ops — the full pool invariant through submissions, orphan resolution, deletion with children, expiry,
  eviction and save+reload (helper lemmas for Props/C12 `pool_inv`).  Core Lean only.
-/
import GocoinV.Proofs.C12Proc
namespace GocoinV.Mempool

/-! ### the chain side -/

/-- what the pool needs from the confirmed chain (the environment of the pool): inputs of connected transactions are
    spent (`c1`) and name confirmed ids (`c2`), unspent outputs belong to confirmed ids (`c3`), coin values are the
    outputs' values (`val`), connected transactions have no duplicate input (`nd`). These are consequences of C04's
    `connect_sound` / C06's `undo_commitTxs` for a chain built by valid blocks. -/
structure ChainOK (u0 : UT) (ν : OutPoint → Nat) (s : State) : Prop where
  c1 : ∀ e ∈ s.undo, ∀ X ∈ e.1, ∀ i ∈ X.ins, s.utxo.get? (i.prev, i.vout) = none
  c2 : ∀ e ∈ s.undo, ∀ X ∈ e.1, ∀ i ∈ X.ins, Conf u0 s.undo i.prev
  c3 : ∀ o c, s.utxo.get? o = some c → Conf u0 s.undo o.1
  val : ∀ o c, s.utxo.get? o = some c → c.value = ν o
  nd : ∀ e ∈ s.undo, ∀ X ∈ e.1, X.inOps.Nodup

theorem ChainOK.of_env {u0 : UT} {ν : OutPoint → Nat} {s s' : State} (h : ChainOK u0 ν s) (e : Env s s') :
    ChainOK u0 ν s' := by
  refine ⟨?_, ?_, ?_, ?_, ?_⟩
  · rw [e.utxo, e.undo]; exact h.c1
  · rw [e.undo]; exact h.c2
  · rw [e.utxo, e.undo]; exact h.c3
  · rw [e.utxo]; exact h.val
  · rw [e.undo]; exact h.nd

/-- unspent in the confirmed set -/
def inU (s : State) (o : OutPoint) : Prop := (s.utxo.get? o).isSome = true

/-- the pool invariant of a state against its own chain side -/
def PGood (K : Keys) (W : Tx → Prop) (u0 : UT) (ν : OutPoint → Nat) (s : State) : Prop :=
  PoolOK K W ν (inU s) (Conf u0 s.undo) s

theorem PGood.of_env {K : Keys} {W : Tx → Prop} {u0 : UT} {ν : OutPoint → Nat} {s s' : State}
    (h : PoolOK K W ν (inU s) (Conf u0 s.undo) s') (e : Env s s') : PGood K W u0 ν s' := by
  unfold PGood inU
  rw [e.utxo, e.undo]
  exact h

/-- the invariant, claimed for states in which the process is alive -/
def PGoodP (K : Keys) (W : Tx → Prop) (u0 : UT) (ν : OutPoint → Nat) (s : State) : Prop :=
  s.panicked = false → PGood K W u0 ν s

theorem alive_of_env {s s' : State} (e : Env s s') (h : s'.panicked = false) : s.panicked = false := by
  cases hp : s.panicked with
  | false => rfl
  | true => rw [e.sticky hp] at h; cases h

theorem PGoodP.lift {K : Keys} {W : Tx → Prop} {u0 : UT} {ν : OutPoint → Nat} {s s' : State} (e : Env s s')
    (f : PGood K W u0 ν s → PGood K W u0 ν s') (h : PGoodP K W u0 ν s) : PGoodP K W u0 ν s' :=
  fun hp => f (h (alive_of_env e hp))

/-- a transaction with a confirmed id has an input that is spent on the chain and names a confirmed id -/
theorem conf_hcf {K : Keys} {W : Tx → Prop} {rank : TxId → Nat} {u0 : UT} {ν : OutPoint → Nat}
    (U : Univ2 K W rank u0 ν) (s : State) (hc : ChainOK u0 ν s) (hu : ∀ e ∈ s.undo, ∀ t ∈ e.1, W t) (t : Tx) (ht : W t) :
    Conf u0 s.undo t.id → ∃ i ∈ t.ins, s.utxo.get? (i.prev, i.vout) = none ∧ Conf u0 s.undo i.prev := by
  rintro (⟨v, c, h0⟩ | ⟨e, he, X, hX, hid⟩)
  · rw [U.genesis t ht v] at h0; cases h0
  · have : X = t := U.base.id_fun X t (hu e he X hX) ht hid
    subst this
    have hne := U.base.ins_ne X ht
    cases hi : X.ins with
    | nil => exact absurd hi hne
    | cons i r =>
      have hm : i ∈ X.ins := by rw [hi]; exact List.mem_cons_self
      exact ⟨i, List.mem_cons_self, hc.c1 e he X hX i hm, hc.c2 e he X hX i hm⟩

theorem processTx_good {K : Keys} {W : Tx → Prop} {rank : TxId → Nat} {u0 : UT} {ν : OutPoint → Nat}
    (U : Univ2 K W rank u0 ν) (mf : Nat) (s : State) (t : Tx) (fl : Flags) (hc : ChainOK u0 ν s)
    (h : PGood K W u0 ν s) (ht : W t) (hnd : fl.unmined = true → t.inOps.Nodup) :
    PGood K W u0 ν (processTx K mf s t fl).2 :=
  PGood.of_env (processTx_ok U mf s t fl h ht (fun _ ho => ho) hc.val hnd
    (conf_hcf U s hc h.w.base.undoW t ht)) (processTx_env K mf s t fl)

theorem PGood.frame {K : Keys} {W : Tx → Prop} {u0 : UT} {ν : OutPoint → Nat} {s s' : State}
    (h : PGood K W u0 ν s) (f : Frame W s s') : PGood K W u0 ν s' := by
  have := PoolOK.frame h f
  unfold PGood inU
  rw [f.core.2.2.1, f.undo]
  exact this

theorem txAcceptedAux_good {K : Keys} {W : Tx → Prop} {rank : TxId → Nat} {u0 : UT} {ν : OutPoint → Nat}
    (U : Univ2 K W rank u0 ν) (mf : Nat) : ∀ (fuel : Nat) (s : State) (recs : List Nat) (d : Nat),
    ChainOK u0 ν s → PGoodP K W u0 ν s → PGoodP K W u0 ν (txAcceptedAux K mf fuel s recs d) := by
  intro fuel
  induction fuel with
  | zero => intro s recs d _ h hp; cases hp
  | succ n ih =>
    intro s recs d hc h
    unfold txAcceptedAux
    split
    · exact h
    · split
      · exact ih _ _ _ hc h
      · split
        · intro hp; cases hp
        · split
          · intro hp; cases hp
          · rename_i txr htxr
            have e1 := rejDelete_env K s txr
            have f1 := rejDelete_frame K W s txr
            dsimp only
            split
            · intro hp; cases hp
            · rename_i t htx
              have e2 := processTx_env K mf (rejDelete K s txr) t {}
              have c1 := hc.of_env e1
              have g2 : PGoodP K W u0 ν (processTx K mf (rejDelete K s txr) t {}).2 := by
                intro hp
                have hp1 := alive_of_env e2 hp
                have g0 := h (alive_of_env e1 hp1)
                have ht : W t := g0.w.base.rejW _ txr t htxr htx
                exact processTx_good U mf _ t {} c1 (g0.frame f1) ht (by intro hu; cases hu)
              have c2 := c1.of_env e2
              apply ih
              · split
                · split
                  · split
                    · exact c2.of_env ((rejDeleteByIdx_env K _ _).trans (rejectTx_env K _ t _ _))
                    · exact c2
                  · exact c2
                · exact c2
              · split
                · split
                  · split
                    · intro hp
                      have hp2 := alive_of_env ((rejDeleteByIdx_env K _ _).trans (rejectTx_env K _ t _ _)) hp
                      have ht : W t := (h (alive_of_env e1 (alive_of_env e2 hp2))).w.base.rejW _ txr t htxr htx
                      exact (g2 hp2).frame ((rejDeleteByIdx_frame K W _ _).trans (rejectTx_frame K W _ t _ _ ht))
                    · exact g2
                  · exact g2
                · exact g2

theorem txAccepted_good {K : Keys} {W : Tx → Prop} {rank : TxId → Nat} {u0 : UT} {ν : OutPoint → Nat}
    (U : Univ2 K W rank u0 ν) (mf : Nat) (s : State) (b : Nat) (hc : ChainOK u0 ν s) (h : PGoodP K W u0 ν s) :
    PGoodP K W u0 ν (txAccepted K mf s b) :=
  txAcceptedAux_good U mf _ s _ _ hc h

theorem submitNet_good {K : Keys} {W : Tx → Prop} {rank : TxId → Nat} {u0 : UT} {ν : OutPoint → Nat}
    (U : Univ2 K W rank u0 ν) (mf : Nat) (s : State) (t : Tx) (tr : Bool) (hc : ChainOK u0 ν s)
    (h : PGoodP K W u0 ν s) (ht : W t) : PGoodP K W u0 ν (submitNet K mf s t tr).2 := by
  unfold submitNet
  dsimp only
  split
  · exact h
  · have e2 := processTx_env K mf s t { trusted := tr }
    have g2 : PGoodP K W u0 ν (processTx K mf s t { trusted := tr }).2 :=
      PGoodP.lift e2 (fun g => processTx_good U mf s t _ hc g ht (by intro hu; cases hu)) h
    split
    · exact txAccepted_good U mf _ _ (hc.of_env e2) g2
    · exact g2

/-! ### Delete(with_children) -/

/-- what one call of Delete(true) does, provided the process stays alive -/
structure DelPost (K : Keys) (W : Tx → Prop) (ν : OutPoint → Nat) (A : OutPoint → Prop) (Cf : TxId → Prop)
    (s s' : State) : Prop where
  ok : PoolOK K W ν A Cf s'
  subP : ∀ b x, s'.pool.get? b = some x → s.pool.get? b = some x
  subS : ∀ u x, s'.spent.get? u = some x → s.spent.get? u = some x

theorem DelPost.refl {K : Keys} {W : Tx → Prop} {ν : OutPoint → Nat} {A : OutPoint → Prop} {Cf : TxId → Prop}
    {s : State} (h : PoolOK K W ν A Cf s) : DelPost K W ν A Cf s s := ⟨h, fun _ _ h => h, fun _ _ h => h⟩

theorem DelPost.trans {K : Keys} {W : Tx → Prop} {ν : OutPoint → Nat} {A : OutPoint → Prop} {Cf : TxId → Prop}
    {a b c : State} (h1 : DelPost K W ν A Cf a b) (h2 : DelPost K W ν A Cf b c) : DelPost K W ν A Cf a c :=
  ⟨h2.ok, fun k x h => h1.subP k x (h2.subP k x h), fun u x h => h1.subS u x (h2.subS u x h)⟩

theorem delOne_sub (K : Keys) (s : State) (t : T2S) (reason : Nat) :
    (∀ b x, (delOne K s t reason).pool.get? b = some x → s.pool.get? b = some x) ∧
    (∀ u x, (delOne K s t reason).spent.get? u = some x → s.spent.get? u = some x) := by
  constructor
  · intro b x hx
    rw [(delOne_pool_spent K s t reason).1] at hx
    by_cases e : b = K.bidx t.tx.id
    · rw [e, AList.get?_del_self] at hx; cases hx
    · rw [AList.get?_del_other _ _ _ e] at hx; exact hx
  · intro u x hx
    rw [delOne_spent_get] at hx
    split at hx
    · cases hx
    · exact hx

theorem delWC_ok {K : Keys} {W : Tx → Prop} {rank : TxId → Nat} {u0 : UT} {ν : OutPoint → Nat}
    {A : OutPoint → Prop} {Cf : TxId → Prop} (U : Univ2 K W rank u0 ν) (reason : Nat) :
    ∀ (fuel : Nat) (s : State) (t : T2S), PoolOK K W ν A Cf s → s.pool.get? (K.bidx t.tx.id) = some t →
    (delWithChildren K reason fuel s t).panicked = false →
    DelPost K W ν A Cf s (delWithChildren K reason fuel s t) ∧
    (delWithChildren K reason fuel s t).pool.get? (K.bidx t.tx.id) = none := by
  intro fuel
  induction fuel with
  | zero => intro s t _ _ hp; simp [delWithChildren] at hp
  | succ n ih =>
    intro s t h hin
    unfold delWithChildren
    dsimp only
    -- the fold over the outputs
    have fold : ∀ (l done : List Nat) (cur : State), Env s cur →
        (cur.panicked = false → DelPost K W ν A Cf s cur ∧ cur.pool.get? (K.bidx t.tx.id) = some t ∧
          ∀ v ∈ done, cur.spent.get? (K.uidx t.tx.id v) = none) →
        Env s (l.foldl (fun s vout =>
          match s.spent.get? (K.uidx t.tx.id vout) with
          | none => s
          | some so => match s.pool.get? so with
            | none => s
            | some child => delWithChildren K reason n s child) cur) ∧
        ((l.foldl (fun s vout =>
          match s.spent.get? (K.uidx t.tx.id vout) with
          | none => s
          | some so => match s.pool.get? so with
            | none => s
            | some child => delWithChildren K reason n s child) cur).panicked = false →
          DelPost K W ν A Cf s (l.foldl (fun s vout =>
          match s.spent.get? (K.uidx t.tx.id vout) with
          | none => s
          | some so => match s.pool.get? so with
            | none => s
            | some child => delWithChildren K reason n s child) cur) ∧
          (l.foldl (fun s vout =>
          match s.spent.get? (K.uidx t.tx.id vout) with
          | none => s
          | some so => match s.pool.get? so with
            | none => s
            | some child => delWithChildren K reason n s child) cur).pool.get? (K.bidx t.tx.id) = some t ∧
          ∀ v ∈ done ++ l, (l.foldl (fun s vout =>
          match s.spent.get? (K.uidx t.tx.id vout) with
          | none => s
          | some so => match s.pool.get? so with
            | none => s
            | some child => delWithChildren K reason n s child) cur).spent.get? (K.uidx t.tx.id v) = none) := by
      intro l
      induction l with
      | nil => intro done cur e hc; exact ⟨e, by simpa using hc⟩
      | cons v r ihl =>
        intro done cur e hc
        simp only [List.foldl_cons]
        have := ihl (done ++ [v]) (match cur.spent.get? (K.uidx t.tx.id v) with
          | none => cur
          | some so => match cur.pool.get? so with
            | none => cur
            | some child => delWithChildren K reason n cur child) ?_ ?_
        · simpa using this
        · split
          · exact e
          · split
            · exact e
            · exact e.trans (delWithChildren_env K reason n _ _)
        · split
          · rename_i hnone
            intro hp
            obtain ⟨c1, c2, c3⟩ := hc hp
            refine ⟨c1, c2, ?_⟩
            intro w hw
            rcases List.mem_append.mp hw with h1 | h1
            · exact c3 w h1
            · simp only [List.mem_singleton] at h1; rw [h1]; exact hnone
          · rename_i so hso
            split
            · rename_i hnone
              intro hp
              obtain ⟨c1, _, _⟩ := hc hp
              obtain ⟨x, hx, _⟩ := c1.ok.w.base.str.sound _ _ hso
              rw [hnone] at hx; cases hx
            · rename_i child hchild
              intro hp
              have hpc := alive_of_env (delWithChildren_env K reason n cur child) hp
              obtain ⟨c1, c2, c3⟩ := hc hpc
              have hb := c1.ok.w.base
              obtain ⟨rk, kk⟩ := child_rank U.base cur hb t.tx (hb.poolW _ _ c2) v so child hso hchild
              have hcin : cur.pool.get? (K.bidx child.tx.id) = some child := by rw [kk]; exact hchild
              obtain ⟨p1, p2⟩ := ih cur child c1.ok hcin hp
              obtain ⟨_, q2⟩ := delWC_spec U.base reason n cur child hb hcin
              refine ⟨c1.trans p1, q2 _ t c2 rk, ?_⟩
              intro w hw
              cases hx : (delWithChildren K reason n cur child).spent.get? (K.uidx t.tx.id w) with
              | none => rfl
              | some x =>
                exfalso
                have hx0 := p1.subS _ x hx
                rcases List.mem_append.mp hw with h1 | h1
                · rw [c3 w h1] at hx0; cases hx0
                · simp only [List.mem_singleton] at h1
                  rw [h1, hso] at hx0
                  cases hx0
                  obtain ⟨y, hy, _⟩ := p1.ok.w.base.str.sound _ _ hx
                  rw [← kk, p2] at hy
                  cases hy
    obtain ⟨fe, fp⟩ := fold (iota t.tx.outs.length) [] s (Env.refl s)
      (fun _ => ⟨DelPost.refl h, hin, by simp⟩)
    intro hp
    have hpc := alive_of_env (delOne_env K _ t reason) hp
    obtain ⟨c1, c2, c3⟩ := fp hpc
    have hno := noflag_of_childless _ t c1.ok c2 (fun v hv => c3 v (by simp [iota, List.mem_range, hv]))
    obtain ⟨s1, s2⟩ := delOne_sub K (List.foldl (fun s vout =>
          match s.spent.get? (K.uidx t.tx.id vout) with
          | none => s
          | some so => match s.pool.get? so with
            | none => s
            | some child => delWithChildren K reason n s child) s (iota t.tx.outs.length)) t reason
    refine ⟨⟨delOne_ok _ t reason c1.ok c2 hno, fun b x hx => c1.subP b x (s1 b x hx),
      fun u x hx => c1.subS u x (s2 u x hx)⟩, ?_⟩
    rw [(delOne_pool_spent K _ t reason).1]
    exact AList.get?_del_self _ _

/-! ### expiry, eviction -/

theorem expire_ok {K : Keys} {W : Tx → Prop} {rank : TxId → Nat} {u0 : UT} {ν : OutPoint → Nat}
    {A : OutPoint → Prop} {Cf : TxId → Prop} (U : Univ2 K W rank u0 ν) : ∀ (old : List Nat) (s : State),
    (s.panicked = false → PoolOK K W ν A Cf s) →
    ((expire K s old).panicked = false → PoolOK K W ν A Cf (expire K s old)) := by
  intro old
  induction old with
  | nil => intro s h; exact h
  | cons b r ih =>
    intro s h
    unfold expire
    simp only [List.foldl_cons]
    apply ih
    split
    · rename_i t ht
      intro hp
      have g := h (alive_of_env (delWithChildren_env K 0 _ s t) hp)
      exact (delWC_ok U 0 _ s t g (by rw [g.w.base.str.key _ _ ht]; exact ht) hp).1.ok
    · exact h

theorem evict_ok {K : Keys} {W : Tx → Prop} {ν : OutPoint → Nat} {A : OutPoint → Prop} {Cf : TxId → Prop} :
    ∀ (l : List Nat) (s s' : State), PoolOK K W ν A Cf s → evict K s l = some s' → PoolOK K W ν A Cf s' := by
  intro l
  induction l with
  | nil => intro s s' h he; simp [evict] at he; rw [← he]; exact h
  | cons b r ih =>
    intro s s' h he
    simp only [evict, List.foldlM_cons] at he
    cases hb : s.pool.get? b with
    | none => simp [hb] at he
    | some t =>
      simp only [hb] at he
      by_cases hc : hasNoChildren K s t = true
      · simp only [hc, if_true, Option.bind_eq_bind, Option.bind_some] at he
        have hin : s.pool.get? (K.bidx t.tx.id) = some t := by rw [h.w.base.str.key b t hb]; exact hb
        exact ih _ s' (delOne_ok s t 0 h hin (noflag_of_childless s t h hin (hasNoChildren_spec K s t hc))) he
      · simp [hc] at he

/-! ### save + reload -/

theorem foldl_add_weight : ∀ (l : List (Nat × T2S)) (n : Nat),
    l.foldl (fun n p => n + p.2.tx.weight) n = n + poolWeight l := by
  intro l
  induction l with
  | nil => intro n; simp [poolWeight]
  | cons p r ih =>
    intro n
    simp only [List.foldl_cons, ih, poolWeight, List.map_cons, List.sum_cons]
    omega

theorem reloadRec_flag (K : Keys) (s : State) (b : Nat) (t : T2S) (k : Nat) :
    flag (reloadRec K s b t) k =
      if t.mem.isEmpty then false else (t.tx.ins.map fun i => s.pool.has (K.bidx i.prev)).getD k false := by
  unfold reloadRec flag
  split
  · rename_i he
    have : t.mem = [] := by simpa using he
    simp [this]
  · dsimp only
    split
    · rename_i hz
      rw [count_zero_getD _ k hz]; simp
    · rfl

theorem reloadRec_loc (K : Keys) (s : State) (b : Nat) (ν : OutPoint → Nat) (t : T2S) (h : RecL ν t) :
    RecL ν (reloadRec K s b t) := by
  unfold reloadRec
  split
  · exact h
  · refine ⟨?_, ?_, h.nodupIn, h.vol, h.fee⟩
    · dsimp only
      split
      · exact Or.inl rfl
      · right; simp
    · dsimp only
      split
      · rename_i hz; rw [hz]; rfl
      · rfl

theorem reloadBase_ok {K : Keys} {W : Tx → Prop} {rank : TxId → Nat} {u0 : UT} {ν : OutPoint → Nat}
    {A : OutPoint → Prop} {Cf : TxId → Prop} (U : Univ2 K W rank u0 ν) (s : State) (h : PoolOK K W ν A Cf s)
    (hAC : ∀ o, A o → Cf o.1) : PoolOK K W ν A Cf (reloadBase K s) := by
  have hb := h.w.base
  have look : ∀ b t', (reloadBase K s).pool.get? b = some t' →
      ∃ t, s.pool.get? b = some t ∧ t' = reloadRec K s b t := by
    intro b t' ht'
    have : (reloadPool K s).get? b = some t' := ht'
    rw [reloadPool_get] at this
    cases hb' : s.pool.get? b with
    | none => rw [hb'] at this; cases this
    | some t => rw [hb'] at this; cases this; exact ⟨t, rfl, rfl⟩
  have fwd : ∀ b t, s.pool.get? b = some t → (reloadBase K s).pool.get? b = some (reloadRec K s b t) := by
    intro b t ht
    have : (reloadPool K s).get? b = some (reloadRec K s b t) := by rw [reloadPool_get, ht]; rfl
    exact this
  -- a set flag of the reloaded record means: the parent is pooled
  have hasP : ∀ b t, s.pool.get? b = some t → ∀ k i, t.tx.ins[k]? = some i →
      flag (reloadRec K s b t) k = true → ∃ p, s.pool.get? (K.bidx i.prev) = some p := by
    intro b t ht k i hk hf
    rw [reloadRec_flag] at hf
    split at hf
    · cases hf
    · rw [List.getD_eq_getElem?_getD, List.getElem?_map, hk] at hf
      simp only [Option.map_some, Option.getD_some, AList.has] at hf
      cases hp : s.pool.get? (K.bidx i.prev) with
      | none => rw [hp] at hf; cases hf
      | some p => exact ⟨p, rfl⟩
  refine ⟨⟨reloadBase_InvR s hb, ?_, ?_, ?_, ?_⟩, ?_⟩
  · intro b t' ht'
    obtain ⟨t, ht, rfl⟩ := look b t' ht'
    exact reloadRec_loc K s b ν t (h.w.loc b t ht)
  · intro b t' ht' k i hk hf
    obtain ⟨t, ht, rfl⟩ := look b t' ht'
    rw [reloadRec_tx] at hk
    cases hof : flag t k with
    | false => exact h.w.unf b t ht k i hk hof
    | true =>
      exfalso
      obtain ⟨p, hp, _⟩ := h.par b t ht k i hk hof
      rw [reloadRec_flag] at hf
      split at hf
      · rename_i he
        have : t.mem = [] := by simpa using he
        rw [flag_nil t this] at hof; cases hof
      · rw [List.getD_eq_getElem?_getD, List.getElem?_map, hk] at hf
        simp [AList.has, hp] at hf
  · intro b t' ht'
    obtain ⟨t, ht, rfl⟩ := look b t' ht'
    rw [reloadRec_tx]
    exact h.w.ncf b t ht
  · show (reloadPool K s).foldl (fun n p => n + p.2.tx.weight) 0 = poolWeight (reloadPool K s)
    rw [foldl_add_weight]; omega
  · intro b t' ht' k i hk hf
    obtain ⟨t, ht, rfl⟩ := look b t' ht'
    rw [reloadRec_tx] at hk
    obtain ⟨p, hp⟩ := hasP b t ht k i hk hf
    have hi : i ∈ t.tx.ins := List.mem_of_getElem? hk
    have hid := parent_id U hb (hb.poolW _ _ ht) hi hp
    refine ⟨reloadRec K s _ p, fwd _ p hp, by rw [reloadRec_tx]; exact hid, ?_⟩
    rw [reloadRec_tx]
    cases hof : flag t k with
    | true =>
      obtain ⟨p', hp', _, hlt⟩ := h.par b t ht k i hk hof
      rw [hp] at hp'; cases hp'; exact hlt
    | false =>
      exfalso
      have := hAC _ (h.w.unf b t ht k i hk hof)
      rw [← hid] at this
      exact h.w.ncf _ p hp this

theorem reload_ok {K : Keys} {W : Tx → Prop} {rank : TxId → Nat} {u0 : UT} {ν : OutPoint → Nat}
    {A : OutPoint → Prop} {Cf : TxId → Prop} (U : Univ2 K W rank u0 ν) (s : State) (h : PoolOK K W ν A Cf s)
    (hAC : ∀ o, A o → Cf o.1) : PoolOK K W ν A Cf (reload K s) := by
  rw [reload_eq]
  apply foldl_inv (PoolOK K W ν A Cf) (reloadRej K s) _ s.ring _ (reloadBase_ok U s h hAC)
  intro st slot hst
  unfold reloadRej
  split
  · exact hst
  · split
    · exact hst
    · rename_i b _ r hr
      apply hst.frame
      apply rejAdd_frame
      intro t ht
      apply h.w.base.rejW b r t hr
      split at ht
      · exact ht
      · exact ht

end GocoinV.Mempool
