/-
  Proofs.C12RejCore — the consistency invariant of the reject-list indexes on the level of the four maps (`RC`), and
  its preservation by OneTxRejected.Delete (`rejDelete`, with cleanup), the eviction of the oldest record
  (`rejEvictOldest`) and OneTxRejected.Add (`rejAdd`).  Core Lean only.  (helper lemmas for Props/C12, OPEN (d))
-/
import GocoinV.Proofs.C12Rej
namespace GocoinV.Mempool

/-! ### WaitingForInputs: membership after cleanup / Add -/

theorem wDel_spec (K : Keys) (b : Nat) (w : TxId) (m : AList Nat (TxId × List Nat))
    (hK : ∀ id ids, m.get? (K.bidx w) = some (id, ids) → ids ≠ [] ∧ ids.Nodup) :
    (∀ k', k' ≠ K.bidx w → (wDel K b (some w) m).get? k' = m.get? k') ∧
    (∀ x, x ∈ wl (wDel K b (some w) m) (K.bidx w) ↔ x ∈ wl m (K.bidx w) ∧ x ≠ b) ∧
    (∀ id' ids', (wDel K b (some w) m).get? (K.bidx w) = some (id', ids') →
      (∃ ids, m.get? (K.bidx w) = some (id', ids)) ∧ ids' ≠ [] ∧ ids'.Nodup) := by
  unfold wDel
  dsimp only
  cases hm : m.get? (K.bidx w) with
  | none =>
    dsimp only
    refine ⟨fun _ _ => rfl, ?_, ?_⟩
    · intro x; rw [wl_of_none hm]; simp
    · intro id' ids' h; rw [hm] at h; cases h
  | some p =>
    obtain ⟨id, ids⟩ := p
    obtain ⟨hne, hnd⟩ := hK id ids hm
    dsimp only
    split
    · rename_i hlen
      obtain ⟨c, hc⟩ : ∃ c, ids = [c] := by
        cases ids with
        | nil => simp at hlen
        | cons c r =>
          cases r with
          | nil => exact ⟨c, rfl⟩
          | cons _ _ => simp at hlen
      split
      · rename_i hb
        refine ⟨fun k' hk' => AList.get?_del_other _ _ _ hk', ?_, ?_⟩
        · intro x
          rw [wl_of_none (AList.get?_del_self _ _), wl_of_get hm, hb]
          simp
        · intro id' ids' h
          rw [AList.get?_del_self] at h; cases h
      · rename_i hb
        refine ⟨fun _ _ => rfl, ?_, ?_⟩
        · intro x
          rw [wl_of_get hm, hc]
          have : c ≠ b := by intro e; apply hb; rw [hc, e]
          simp only [List.mem_singleton]
          constructor
          · intro e; exact ⟨e, by rw [e]; exact this⟩
          · exact fun h => h.1
        · intro id' ids' h
          rw [hm] at h
          cases h
          exact ⟨⟨ids, rfl⟩, hne, hnd⟩
    · rename_i hlen
      refine ⟨fun k' hk' => AList.get?_set_other _ _ _ _ hk', ?_, ?_⟩
      · intro x
        rw [wl_of_get (AList.get?_set_self _ _ _), wl_of_get hm]
        exact mem_eraseFirst b ids hnd x
      · intro id' ids' h
        rw [AList.get?_set_self] at h
        cases h
        refine ⟨⟨ids, rfl⟩, ?_, nodup_eraseFirst b ids hnd⟩
        intro e
        have h1 := length_eraseFirst_le b ids
        rw [e] at h1
        have h2 : ids.length ≠ 0 := by
          intro e0; exact hne (List.length_eq_zero_iff.mp e0)
        simp only [List.length_nil] at h1
        omega

theorem wAdd_spec (K : Keys) (b : Nat) (w : TxId) (m : AList Nat (TxId × List Nat)) :
    (∀ k', k' ≠ K.bidx w → (wAdd K b (some w) m).get? k' = m.get? k') ∧
    (∀ x, x ∈ wl (wAdd K b (some w) m) (K.bidx w) ↔ x ∈ wl m (K.bidx w) ∨ x = b) ∧
    (∀ id' ids', (wAdd K b (some w) m).get? (K.bidx w) = some (id', ids') →
      ids' = wl m (K.bidx w) ++ [b] ∧ (id' = w ∨ ∃ ids, m.get? (K.bidx w) = some (id', ids))) := by
  unfold wAdd
  dsimp only
  cases hm : m.get? (K.bidx w) with
  | none =>
    dsimp only
    refine ⟨fun k' hk' => AList.get?_set_other _ _ _ _ hk', ?_, ?_⟩
    · intro x
      rw [wl_of_get (AList.get?_set_self _ _ _), wl_of_none hm]
      simp
    · intro id' ids' h
      rw [AList.get?_set_self] at h
      cases h
      rw [wl_of_none hm]
      exact ⟨rfl, Or.inl rfl⟩
  | some p =>
    obtain ⟨id, ids⟩ := p
    dsimp only
    refine ⟨fun k' hk' => AList.get?_set_other _ _ _ _ hk', ?_, ?_⟩
    · intro x
      rw [wl_of_get (AList.get?_set_self _ _ _), wl_of_get hm]
      simp
    · intro id' ids' h
      rw [AList.get?_set_self] at h
      cases h
      rw [wl_of_get hm]
      exact ⟨rfl, Or.inr ⟨ids, rfl⟩⟩

/-! ### the invariant on the level of the maps -/

/-- shape of one TransactionsRejected record: Waiting4 only with data; the stored transaction is the rejected one;
    data is kept exactly for the reasons ≥ 200; Waiting4 is set exactly for the reason NO_TXOU -/
structure RejShape (r : Rej) : Prop where
  w : r.tx = none → r.waiting4 = none
  id : ∀ t, r.tx = some t → t.id = r.id
  reason : r.tx.isSome = true ↔ r.reason ≥ 200
  w4 : r.waiting4.isSome = true ↔ r.reason = R_NO_TXOU

/-- consistency of TransactionsRejected `rej`, the non-zero ring slots `rk`, WaitingForInputs `wt` and
    RejectedSpentOutputs `sp`.  `e` is the key of a record that is already in `rej` and in the ring but whose
    references are not yet added (the situation in the middle of `OneTxRejected.Add`); `e = none` is the invariant. -/
structure RC (K : Keys) (e : Option Nat) (rej : AList Nat Rej) (rk : List Nat)
    (wt : AList Nat (TxId × List Nat)) (sp : AList Nat (List Nat)) : Prop where
  nodupRej : (rej.map Prod.fst).Nodup
  nodupRing : rk.Nodup
  ringRej : ∀ b, b ∈ rk → ∃ r, rej.get? b = some r
  rejRing : ∀ b r, rej.get? b = some r → b ∈ rk
  key : ∀ b r, rej.get? b = some r → K.bidx r.id = b
  shape : ∀ b r, rej.get? b = some r → RejShape r
  spNe : ∀ u l, sp.get? u = some l → l ≠ []
  spSound : ∀ u x, x ∈ lst sp u → some x ≠ e ∧ ∃ r t, rej.get? x = some r ∧ r.tx = some t ∧ u ∈ uidxs K t
  spCompl : ∀ b r t, rej.get? b = some r → some b ≠ e → r.tx = some t → ∀ u ∈ uidxs K t, b ∈ lst sp u
  wKey : ∀ k id ids, wt.get? k = some (id, ids) → K.bidx id = k ∧ ids ≠ [] ∧ ids.Nodup
  wSound : ∀ k x, x ∈ wl wt k → some x ≠ e ∧ ∃ r w, rej.get? x = some r ∧ r.waiting4 = some w ∧ K.bidx w = k
  wCompl : ∀ b r w, rej.get? b = some r → some b ≠ e → r.waiting4 = some w → b ∈ wl wt (K.bidx w)

theorem uidxs_rins (K : Keys) (r : Rej) (t : Tx) (h : r.tx = some t) : (rins r).map (uof K) = uidxs K t := by
  simp [rins, h, uidxs, uof]

theorem wl_congr {m m' : AList Nat (TxId × List Nat)} {k : Nat} (h : m'.get? k = m.get? k) : wl m' k = wl m k := by
  unfold wl; rw [h]

theorem RC_delete {K : Keys} {e : Option Nat} {rej : AList Nat Rej} {rk : List Nat}
    {wt : AList Nat (TxId × List Nat)} {sp : AList Nat (List Nat)} (h : RC K e rej rk wt sp)
    (b : Nat) (r : Rej) (hr : rej.get? b = some r) (he : some b ≠ e) :
    RC K e (rej.del b) (eraseFirst b rk) (wDel K b r.waiting4 wt) (spDel K b (rins r) sp) := by
  have back : ∀ x r', (rej.del b).get? x = some r' → x ≠ b ∧ rej.get? x = some r' := by
    intro x r' hx
    rw [AList.get?_del] at hx
    split at hx
    · cases hx
    · exact ⟨‹_›, hx⟩
  have fwd : ∀ x r', x ≠ b → rej.get? x = some r' → (rej.del b).get? x = some r' := by
    intro x r' hx h1
    rw [AList.get?_del_other _ _ _ hx]; exact h1
  obtain ⟨sp1, sp2⟩ := spDel_spec K b (rins r) sp h.spNe
  -- the waiting part, uniformly
  have wpart : (∀ k id ids, (wDel K b r.waiting4 wt).get? k = some (id, ids) → K.bidx id = k ∧ ids ≠ [] ∧ ids.Nodup) ∧
      (∀ k x, x ∈ wl (wDel K b r.waiting4 wt) k ↔ x ∈ wl wt k ∧ ¬ (x = b ∧ ∃ w, r.waiting4 = some w ∧ K.bidx w = k)) := by
    cases hw : r.waiting4 with
    | none =>
      refine ⟨h.wKey, ?_⟩
      intro k x
      show x ∈ wl wt k ↔ _
      constructor
      · intro hx
        refine ⟨hx, ?_⟩
        rintro ⟨_, w, hw', _⟩
        cases hw'
      · exact fun h => h.1
    | some w =>
      obtain ⟨wa, wb, wc⟩ := wDel_spec K b w wt (fun id ids hh => (h.wKey _ id ids hh).2)
      refine ⟨?_, ?_⟩
      · intro k id ids hg
        by_cases hk : k = K.bidx w
        · rw [hk] at hg ⊢
          obtain ⟨⟨ids0, h0⟩, h1, h2⟩ := wc id ids hg
          exact ⟨(h.wKey _ id ids0 h0).1, h1, h2⟩
        · rw [wa k hk] at hg
          exact h.wKey k id ids hg
      · intro k x
        by_cases hk : k = K.bidx w
        · rw [hk, wb x]
          constructor
          · rintro ⟨h1, h2⟩
            exact ⟨h1, fun h3 => h2 h3.1⟩
          · rintro ⟨h1, h2⟩
            exact ⟨h1, fun h3 => h2 ⟨h3, w, rfl, rfl⟩⟩
        · rw [wl_congr (wa k hk)]
          constructor
          · intro hx
            refine ⟨hx, ?_⟩
            rintro ⟨_, w', hw', hk'⟩
            cases hw'
            exact hk hk'.symm
          · exact fun h => h.1
  obtain ⟨w1, w2⟩ := wpart
  refine ⟨AList.nodup_del _ _ h.nodupRej, nodup_eraseFirst b rk h.nodupRing, ?_, ?_, ?_, ?_, sp1, ?_, ?_, w1, ?_, ?_⟩
  · intro x hx
    obtain ⟨hx1, hx2⟩ := (mem_eraseFirst b rk h.nodupRing x).mp hx
    obtain ⟨r', hr'⟩ := h.ringRej x hx1
    exact ⟨r', fwd x r' hx2 hr'⟩
  · intro x r' hx
    obtain ⟨h1, h2⟩ := back x r' hx
    exact (mem_eraseFirst b rk h.nodupRing x).mpr ⟨h.rejRing x r' h2, h1⟩
  · intro x r' hx
    exact h.key x r' (back x r' hx).2
  · intro x r' hx
    exact h.shape x r' (back x r' hx).2
  · intro u x hx
    obtain ⟨hx1, hx2⟩ := (sp2 u x).mp hx
    obtain ⟨hne, r', t', hr', ht', hu⟩ := h.spSound u x hx1
    refine ⟨hne, r', t', fwd x r' ?_ hr', ht', hu⟩
    intro exb
    subst exb
    rw [hr] at hr'
    cases hr'
    exact hx2 ⟨rfl, by rw [uidxs_rins K r t' ht']; exact hu⟩
  · intro x r' t' hx hne ht' u hu
    obtain ⟨h1, h2⟩ := back x r' hx
    exact (sp2 u x).mpr ⟨h.spCompl x r' t' h2 hne ht' u hu, fun h3 => h1 h3.1⟩
  · intro k x hx
    obtain ⟨hx1, hx2⟩ := (w2 k x).mp hx
    obtain ⟨hne, r', w', hr', hw', hk⟩ := h.wSound k x hx1
    refine ⟨hne, r', w', fwd x r' ?_ hr', hw', hk⟩
    intro exb
    subst exb
    rw [hr] at hr'
    cases hr'
    exact hx2 ⟨rfl, w', hw', hk⟩
  · intro x r' w' hx hne hw'
    obtain ⟨h1, h2⟩ := back x r' hx
    exact (w2 _ x).mpr ⟨h.wCompl x r' w' h2 hne hw', fun h3 => h1 h3.1⟩

theorem RC_add1 {K : Keys} {rej : AList Nat Rej} {rk : List Nat}
    {wt : AList Nat (TxId × List Nat)} {sp : AList Nat (List Nat)} (h : RC K none rej rk wt sp)
    (b : Nat) (r : Rej) (hf : rej.get? b = none) (hk : K.bidx r.id = b) (hs : RejShape r) :
    RC K (some b) (rej.set b r) (rk ++ [b]) wt sp := by
  have back : ∀ x r', (rej.set b r).get? x = some r' → (x = b ∧ r' = r) ∨ (x ≠ b ∧ rej.get? x = some r') := by
    intro x r' hx
    rw [AList.get?_set] at hx
    split at hx
    · cases hx; exact Or.inl ⟨‹_›, rfl⟩
    · exact Or.inr ⟨‹_›, hx⟩
  have fwd : ∀ x r', rej.get? x = some r' → x ≠ b ∧ (rej.set b r).get? x = some r' := by
    intro x r' h1
    have : x ≠ b := by intro e; rw [e, hf] at h1; cases h1
    exact ⟨this, by rw [AList.get?_set_other _ _ _ _ this]; exact h1⟩
  have hnb : b ∉ rk := by
    intro hb
    obtain ⟨r', hr'⟩ := h.ringRej b hb
    rw [hf] at hr'; cases hr'
  refine ⟨AList.nodup_set _ _ _ h.nodupRej, ?_, ?_, ?_, ?_, ?_, h.spNe, ?_, ?_, h.wKey, ?_, ?_⟩
  · rw [List.nodup_append]
    refine ⟨h.nodupRing, by simp, ?_⟩
    intro a ha c hc
    simp only [List.mem_singleton] at hc
    rw [hc]
    intro e; exact hnb (e ▸ ha)
  · intro x hx
    rcases List.mem_append.mp hx with hx | hx
    · obtain ⟨r', hr'⟩ := h.ringRej x hx
      exact ⟨r', (fwd x r' hr').2⟩
    · simp only [List.mem_singleton] at hx
      exact ⟨r, by rw [hx, AList.get?_set_self]⟩
  · intro x r' hx
    rcases back x r' hx with ⟨e, _⟩ | ⟨_, h2⟩
    · rw [e]; simp
    · exact List.mem_append_left _ (h.rejRing x r' h2)
  · intro x r' hx
    rcases back x r' hx with ⟨e1, e2⟩ | ⟨_, h2⟩
    · rw [e1, e2]; exact hk
    · exact h.key x r' h2
  · intro x r' hx
    rcases back x r' hx with ⟨_, e2⟩ | ⟨_, h2⟩
    · rw [e2]; exact hs
    · exact h.shape x r' h2
  · intro u x hx
    obtain ⟨_, r', t', hr', ht', hu⟩ := h.spSound u x hx
    obtain ⟨f1, f2⟩ := fwd x r' hr'
    exact ⟨fun e => f1 (Option.some.inj e), r', t', f2, ht', hu⟩
  · intro x r' t' hx hne ht' u hu
    rcases back x r' hx with ⟨e1, _⟩ | ⟨_, h2⟩
    · exact absurd (by rw [e1]) hne
    · exact h.spCompl x r' t' h2 (by simp) ht' u hu
  · intro k x hx
    obtain ⟨_, r', w', hr', hw', hk'⟩ := h.wSound k x hx
    obtain ⟨f1, f2⟩ := fwd x r' hr'
    exact ⟨fun e => f1 (Option.some.inj e), r', w', f2, hw', hk'⟩
  · intro x r' w' hx hne hw'
    rcases back x r' hx with ⟨e1, _⟩ | ⟨_, h2⟩
    · exact absurd (by rw [e1]) hne
    · exact h.wCompl x r' w' h2 (by simp) hw'

theorem RC_add2 {K : Keys} {rej : AList Nat Rej} {rk : List Nat}
    {wt : AList Nat (TxId × List Nat)} {sp : AList Nat (List Nat)} (b : Nat) (h : RC K (some b) rej rk wt sp)
    (r : Rej) (hr : rej.get? b = some r) :
    RC K none rej rk (wAdd K b r.waiting4 wt) (spAdd K b (rins r) sp) := by
  obtain ⟨sp1, sp2⟩ := spAdd_spec K b (rins r) sp h.spNe
  have wpart : (∀ k id ids, (wAdd K b r.waiting4 wt).get? k = some (id, ids) → K.bidx id = k ∧ ids ≠ [] ∧ ids.Nodup) ∧
      (∀ k x, x ∈ wl (wAdd K b r.waiting4 wt) k ↔ x ∈ wl wt k ∨ (x = b ∧ ∃ w, r.waiting4 = some w ∧ K.bidx w = k)) := by
    cases hw : r.waiting4 with
    | none =>
      refine ⟨h.wKey, ?_⟩
      intro k x
      show x ∈ wl wt k ↔ _
      constructor
      · exact Or.inl
      · rintro (h1 | ⟨_, w, hw', _⟩)
        · exact h1
        · cases hw'
    | some w =>
      obtain ⟨wa, wb, wc⟩ := wAdd_spec K b w wt
      refine ⟨?_, ?_⟩
      · intro k id ids hg
        by_cases hk : k = K.bidx w
        · rw [hk] at hg ⊢
          obtain ⟨h1, h2⟩ := wc id ids hg
          refine ⟨?_, by rw [h1]; simp, ?_⟩
          · rcases h2 with e | ⟨ids0, h0⟩
            · rw [e]
            · exact (h.wKey _ id ids0 h0).1
          · rw [h1, List.nodup_append]
            refine ⟨?_, by simp, ?_⟩
            · cases hg0 : wt.get? (K.bidx w) with
              | none => rw [wl_of_none hg0]; simp
              | some p =>
                obtain ⟨id0, ids0⟩ := p
                rw [wl_of_get hg0]
                exact (h.wKey _ id0 ids0 hg0).2.2
            · intro a ha c hc
              simp only [List.mem_singleton] at hc
              rw [hc]
              intro e
              exact (h.wSound _ a ha).1 (by rw [e])
        · rw [wa k hk] at hg
          exact h.wKey k id ids hg
      · intro k x
        by_cases hk : k = K.bidx w
        · rw [hk, wb x]
          constructor
          · rintro (h1 | h1)
            · exact Or.inl h1
            · exact Or.inr ⟨h1, w, rfl, rfl⟩
          · rintro (h1 | h1)
            · exact Or.inl h1
            · exact Or.inr h1.1
        · rw [wl_congr (wa k hk)]
          constructor
          · exact Or.inl
          · rintro (h1 | ⟨_, w', hw', hk'⟩)
            · exact h1
            · cases hw'
              exact absurd hk'.symm hk
  obtain ⟨w1, w2⟩ := wpart
  refine ⟨h.nodupRej, h.nodupRing, h.ringRej, h.rejRing, h.key, h.shape, sp1, ?_, ?_, w1, ?_, ?_⟩
  · intro u x hx
    refine ⟨by simp, ?_⟩
    rcases (sp2 u x).mp hx with h1 | ⟨e, hu⟩
    · exact (h.spSound u x h1).2
    · rw [e]
      cases ht : r.tx with
      | none => simp [rins, ht] at hu
      | some t => exact ⟨r, t, hr, ht, by rw [← uidxs_rins K r t ht]; exact hu⟩
  · intro x r' t' hx _ ht' u hu
    by_cases e : x = b
    · rw [e] at hx ⊢
      rw [hr] at hx; cases hx
      exact (sp2 u b).mpr (Or.inr ⟨rfl, by rw [uidxs_rins K r t' ht']; exact hu⟩)
    · exact (sp2 u x).mpr (Or.inl (h.spCompl x r' t' hx (fun e' => e (Option.some.inj e')) ht' u hu))
  · intro k x hx
    refine ⟨by simp, ?_⟩
    rcases (w2 k x).mp hx with h1 | ⟨e, w, hw, hk⟩
    · exact (h.wSound k x h1).2
    · rw [e]; exact ⟨r, w, hr, hw, hk⟩
  · intro x r' w' hx _ hw'
    by_cases e : x = b
    · rw [e] at hx ⊢
      rw [hr] at hx; cases hx
      exact (w2 _ b).mpr (Or.inr ⟨rfl, w', hw', rfl⟩)
    · exact (w2 _ x).mpr (Or.inl (h.wCompl x r' w' hx (fun e' => e (Option.some.inj e')) hw'))

/-- the invariant stays when the fields carry the same information -/
theorem RC.congr {K : Keys} {e : Option Nat} {rej rej' : AList Nat Rej} {rk rk' : List Nat}
    {wt wt' : AList Nat (TxId × List Nat)} {sp sp' : AList Nat (List Nat)} (h : RC K e rej rk wt sp)
    (h1 : rej' = rej) (h2 : rk' = rk) (h3 : wt' = wt) (h4 : sp' = sp) : RC K e rej' rk' wt' sp' := by
  subst h1 h2 h3 h4; exact h

/-! ### on states -/

def RCs (K : Keys) (e : Option Nat) (s : State) : Prop := RC K e s.rej (ringKeys s.ring) s.waiting s.rejSpent

theorem rejDelete_rej (K : Keys) (s : State) (r : Rej) : (rejDelete K s r).rej = s.rej.del (K.bidx r.id) := by
  unfold rejDelete; cases r.tx <;> rfl

theorem rejDelete_ring (K : Keys) (s : State) (r : Rej) :
    (rejDelete K s r).ring = normRing (zeroSlot (K.bidx r.id) s.ring) := by
  unfold rejDelete; cases r.tx <;> rfl

theorem rejDelete_cfg (K : Keys) (s : State) (r : Rej) : (rejDelete K s r).cfg = s.cfg := by
  unfold rejDelete; cases r.tx <;> rfl

theorem rejDelete_panicked (K : Keys) (s : State) (r : Rej) : (rejDelete K s r).panicked = s.panicked := by
  unfold rejDelete; cases r.tx <;> rfl

theorem rejDelete_refs (K : Keys) (s : State) (r : Rej) :
    (rejDelete K s r).waiting = (match r.tx with
      | some _ => wDel K (K.bidx r.id) r.waiting4 s.waiting
      | none => s.waiting) ∧
    (rejDelete K s r).rejSpent = spDel K (K.bidx r.id) (rins r) s.rejSpent := by
  unfold rejDelete rins
  cases r.tx with
  | none => exact ⟨rfl, rfl⟩
  | some t => exact ⟨rfl, rfl⟩

theorem rejDelete_RCs {K : Keys} {e : Option Nat} {s : State} (h : RCs K e s) (r : Rej)
    (hr : s.rej.get? (K.bidx r.id) = some r) (he : some (K.bidx r.id) ≠ e) : RCs K e (rejDelete K s r) := by
  have := RC_delete h (K.bidx r.id) r hr he
  obtain ⟨e1, e2⟩ := rejDelete_refs K s r
  refine this.congr (rejDelete_rej K s r) ?_ ?_ e2
  · rw [rejDelete_ring, ringKeys_normRing, ringKeys_zeroSlot]
  · rw [e1]
    cases ht : r.tx with
    | none => rw [(h.shape _ r hr).w ht]; rfl
    | some t => rfl

theorem rejEvictOldest_cases (K : Keys) (s : State) :
    rejEvictOldest K s = s ∨
    (∃ old rest o, s.ring = some old :: rest ∧ s.cfg.ringCap ≤ s.ring.length ∧ s.rej.get? old = some o ∧
      rejEvictOldest K s = rejDelete K s o) ∨
    (∃ old rest, s.ring = some old :: rest ∧ s.rej.get? old = none ∧ rejEvictOldest K s = { s with panicked := true }) ∨
    ((∀ old rest, s.ring ≠ some old :: rest) ∧ rejEvictOldest K s = { s with ring := normRing s.ring }) := by
  unfold rejEvictOldest
  split
  · rename_i hlen
    split
    · rename_i old rest hring
      split
      · rename_i o ho
        exact Or.inr (Or.inl ⟨old, rest, o, hring, hlen, ho, rfl⟩)
      · rename_i ho
        exact Or.inr (Or.inr (Or.inl ⟨old, rest, hring, ho, rfl⟩))
    · rename_i hno
      exact Or.inr (Or.inr (Or.inr ⟨fun old rest e => hno old rest e, rfl⟩))
  · exact Or.inl rfl

/-- under the invariant the panic branch of the eviction is never taken (corollary (d), first part) -/
theorem rejEvictOldest_guard {K : Keys} {e : Option Nat} {s : State} (h : RCs K e s) (old : Nat)
    (rest : List (Option Nat)) (hring : s.ring = some old :: rest) : ∃ o, s.rej.get? old = some o :=
  h.ringRej old ((mem_ringKeys _ _).mpr (by rw [hring]; exact List.mem_cons_self))

theorem rejEvictOldest_RCs {K : Keys} {e : Option Nat} {s : State} (h : RCs K e s)
    (hne : ∀ old rest, s.ring = some old :: rest → s.cfg.ringCap ≤ s.ring.length → some old ≠ e) :
    RCs K e (rejEvictOldest K s) ∧ (rejEvictOldest K s).panicked = s.panicked ∧
    (rejEvictOldest K s).cfg = s.cfg ∧
    (∀ x r, (rejEvictOldest K s).rej.get? x = some r → s.rej.get? x = some r) ∧
    (∀ x r, some x = e → s.rej.get? x = some r → (rejEvictOldest K s).rej.get? x = some r) := by
  rcases rejEvictOldest_cases K s with e0 | ⟨old, rest, o, hring, hlen, ho, e0⟩ | ⟨old, rest, hring, ho, _⟩ | ⟨_, e0⟩
  · rw [e0]; exact ⟨h, rfl, rfl, fun _ _ h => h, fun _ _ _ h => h⟩
  · rw [e0]
    have hk : K.bidx o.id = old := h.key old o ho
    have hne' := hne old rest hring hlen
    refine ⟨rejDelete_RCs h o (by rw [hk]; exact ho) (by rw [hk]; exact hne'), rejDelete_panicked K s o,
      rejDelete_cfg K s o, ?_, ?_⟩
    · intro x r hx
      rw [rejDelete_rej, AList.get?_del] at hx
      split at hx
      · cases hx
      · exact hx
    · intro x r hxe hx
      rw [rejDelete_rej, hk, AList.get?_del_other]
      · exact hx
      · intro exo
        rw [exo] at hxe
        exact hne' hxe
  · obtain ⟨o, ho'⟩ := rejEvictOldest_guard h old rest hring
    rw [ho] at ho'; cases ho'
  · rw [e0]
    refine ⟨?_, rfl, rfl, fun _ _ h => h, fun _ _ _ h => h⟩
    exact RC.congr (rk' := ringKeys (normRing s.ring)) h rfl (ringKeys_normRing _) rfl rfl

theorem rejAddRefs_RCs {K : Keys} {s : State} (r : Rej) (h : RCs K (some (K.bidx r.id)) s)
    (hr : s.rej.get? (K.bidx r.id) = some r) : RCs K none (rejAddRefs K s r) := by
  have := RC_add2 (K.bidx r.id) h r hr
  rw [rejAddRefs_eq]
  cases ht : r.tx with
  | none =>
    have hw := (h.shape _ r hr).w ht
    rw [hw] at this
    simp only [rins, ht] at this
    exact this
  | some t =>
    simp only [rins, ht] at this
    exact this

/-- OneTxRejected.Add of a well-shaped record under a fresh key keeps the invariant (the ring has ≥ 2 slots) -/
theorem rejAdd_RCs {K : Keys} {s : State} (h : RCs K none s) (hcap : 2 ≤ s.cfg.ringCap) (r : Rej)
    (hf : s.rej.get? (K.bidx r.id) = none) (hs : RejShape r) :
    RCs K none (rejAdd K s r) ∧ (rejAdd K s r).panicked = s.panicked ∧ (rejAdd K s r).cfg = s.cfg ∧
    (∀ x r', (rejAdd K s r).rej.get? x = some r' → (x = K.bidx r.id ∧ r' = r) ∨ s.rej.get? x = some r') := by
  unfold rejAdd
  dsimp only
  generalize hs1 : ({ s with ring := s.ring ++ [some (K.bidx r.id)], rej := s.rej.set (K.bidx r.id) r } : State) = s1
  have r1 : s1.rej = s.rej.set (K.bidx r.id) r := by rw [← hs1]
  have g1 : s1.ring = s.ring ++ [some (K.bidx r.id)] := by rw [← hs1]
  have c1 : s1.cfg = s.cfg := by rw [← hs1]
  have p1 : s1.panicked = s.panicked := by rw [← hs1]
  have h1 : RCs K (some (K.bidx r.id)) s1 := by
    have := RC_add1 h (K.bidx r.id) r hf rfl hs
    refine this.congr r1 ?_ (by rw [← hs1]) (by rw [← hs1])
    rw [g1, ringKeys_append]
  obtain ⟨h2, p2, c2, m2, k2⟩ := rejEvictOldest_RCs h1 (by
    intro old rest hring hlen
    rw [g1] at hring hlen
    cases hsr : s.ring with
    | nil =>
      rw [hsr] at hlen
      simp only [List.nil_append, List.length_cons, List.length_nil] at hlen
      rw [c1] at hlen
      omega
    | cons o rest' =>
      rw [hsr] at hring
      simp only [List.cons_append, List.cons.injEq] at hring
      have : old ∈ ringKeys s.ring := (mem_ringKeys _ _).mpr (by rw [hsr, hring.1]; exact List.mem_cons_self)
      obtain ⟨r', hr'⟩ := h.ringRej old this
      intro e
      rw [Option.some.inj e, hf] at hr'
      cases hr')
  have hb : (rejEvictOldest K s1).rej.get? (K.bidx r.id) = some r :=
    k2 _ r rfl (by rw [r1, AList.get?_set_self])
  have h3 := rejAddRefs_RCs r h2 hb
  refine ⟨h3, ?_, ?_, ?_⟩
  · rw [← p1, ← p2]
    rw [rejAddRefs_eq]; cases r.tx <;> rfl
  · rw [← c1, ← c2]
    rw [rejAddRefs_eq]; cases r.tx <;> rfl
  · intro x r' hx
    have e3 : (rejAddRefs K (rejEvictOldest K s1) r).rej = (rejEvictOldest K s1).rej := by
      rw [rejAddRefs_eq]; cases r.tx <;> rfl
    rw [e3] at hx
    have := m2 x r' hx
    rw [r1, AList.get?_set] at this
    split at this
    · cases this; exact Or.inl ⟨‹_›, rfl⟩
    · exact Or.inr this

end GocoinV.Mempool
