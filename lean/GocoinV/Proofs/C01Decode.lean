/-
  Proofs.C01Decode — the model's interleaved decoder (`Script.getOpcode`, consumed inside the loops of
  evalScript / IsPushOnly / the OP_SUCCESS scan / delSig) against the spec's pre-parser (`ScriptSpec.parseOne`,
  `ScriptSpec.parse`).
-/
import GocoinV.Model.ScriptVerify
import GocoinV.Spec.Script
namespace GocoinV.Proofs.C01
open GocoinV GocoinV.Script

theorem drop_add_cons (c : UInt8) (t : Bytes) (a k : Nat) (h : a = k + 1) : List.drop a (c :: t) = t.drop k := by
  subst h; rfl

theorem getOpcode_parseOne (b : Bytes) :
    match getOpcode b, ScriptSpec.parseOne b with
    | none, none => True
    | some op, some i =>
        i.op = op.opcode ∧ i.data = op.push.getD [] ∧ i.after = b.drop op.n ∧
        (op.push.isSome = decide (op.opcode ≤ 0x4e)) ∧ 1 ≤ op.n ∧ op.n ≤ b.length
    | _, _ => False := by
  cases b with
  | nil => simp [getOpcode, ScriptSpec.parseOne]
  | cons c t =>
    simp only [getOpcode, ScriptSpec.parseOne]
    by_cases h1 : c.toNat ≤ 0x4e
    · simp only [h1, ↓reduceIte]
      by_cases h2 : c.toNat < 0x4c
      · simp only [h2, ↓reduceIte]
        by_cases h3 : t.length < c.toNat
        · have : 1 + c.toNat > t.length + 1 := by omega
          simp [h3, this]
        · have : ¬ (1 + c.toNat > t.length + 1) := by omega
          simp [h3, this, h1, drop_add_cons c t (1 + c.toNat) c.toNat (by omega)]
          omega
      · simp only [h2, ↓reduceIte]
        by_cases h4 : c.toNat = 0x4c
        · simp only [h4, ↓reduceIte]
          by_cases h5 : 1 ≤ t.length
          · by_cases h6 : 2 + leVal (t.take 1) > t.length + 1
            · have : t.length - 1 < leVal (t.take 1) := by omega
              simp [h5, h6, this]
            · have : ¬ t.length - 1 < leVal (t.take 1) := by omega
              have h5'' : ¬ t.length < 1 := by omega
              simp [h5, h6, this, h5'', drop_add_cons c t (2 + leVal (t.take 1)) (1 + leVal (t.take 1)) (by omega)]
              omega
          · have h5'' : t.length < 1 := by omega
            simp [h5, h5'']
        · simp only [h4, ↓reduceIte]
          by_cases h7 : c.toNat = 0x4d
          · simp only [h7, ↓reduceIte]
            by_cases h5 : 2 ≤ t.length
            · by_cases h6 : 3 + leVal (t.take 2) > t.length + 1
              · have : t.length - 2 < leVal (t.take 2) := by omega
                simp [h5, h6, this]
              · have : ¬ t.length - 2 < leVal (t.take 2) := by omega
                have h5'' : ¬ t.length < 2 := by omega
                simp [h5, h6, this, h5'', drop_add_cons c t (3 + leVal (t.take 2)) (2 + leVal (t.take 2)) (by omega)]
                omega
            · have h5'' : t.length < 2 := by omega
              simp [h5, h5'']
          · simp only [h7, ↓reduceIte]
            by_cases h5 : 4 ≤ t.length
            · by_cases h6 : 5 + leVal (t.take 4) > t.length + 1
              · have : t.length - 4 < leVal (t.take 4) := by omega
                simp [h5, h6, this]
              · have : ¬ t.length - 4 < leVal (t.take 4) := by omega
                have h5'' : ¬ t.length < 4 := by omega
                simp [h5, h6, this, h5'', drop_add_cons c t (5 + leVal (t.take 4)) (4 + leVal (t.take 4)) (by omega)]
                omega
            · have h5'' : t.length < 4 := by omega
              simp [h5, h5'']
    · simp [h1]

/-- the same fact in rewriting form -/
theorem parseOne_of_getOpcode {b : Bytes} {op : Op} (h : getOpcode b = some op) :
    ∃ i, ScriptSpec.parseOne b = some i ∧ i.op = op.opcode ∧ i.data = op.push.getD [] ∧ i.after = b.drop op.n ∧
      (op.push.isSome = decide (op.opcode ≤ 0x4e)) ∧ 1 ≤ op.n ∧ op.n ≤ b.length := by
  have := getOpcode_parseOne b
  rw [h] at this
  cases hp : ScriptSpec.parseOne b with
  | none => rw [hp] at this; exact this.elim
  | some i => rw [hp] at this; exact ⟨i, rfl, this⟩

theorem parseOne_none_of_getOpcode {b : Bytes} (h : getOpcode b = none) : ScriptSpec.parseOne b = none := by
  have := getOpcode_parseOne b
  rw [h] at this
  cases hp : ScriptSpec.parseOne b with
  | none => rfl
  | some i => rw [hp] at this; exact this.elim

/-- `btc.IsPushOnly` (decode-as-you-go) is `CScript::IsPushOnly` on the parsed script, for every fuel -/
theorem isPushOnlyAux_eq (f : Nat) (s : Bytes) :
    isPushOnlyAux f s = (!(ScriptSpec.parseAux f s).2 && (ScriptSpec.parseAux f s).1.all (fun i => i.op ≤ 0x60)) := by
  induction f generalizing s with
  | zero => simp [isPushOnlyAux, ScriptSpec.parseAux]
  | succ f ih =>
    simp only [isPushOnlyAux, ScriptSpec.parseAux]
    by_cases he : s.isEmpty
    · simp [he]
    · simp only [he, Bool.false_eq_true, ↓reduceIte]
      cases hg : getOpcode s with
      | none => simp [parseOne_none_of_getOpcode hg]
      | some op =>
        obtain ⟨i, hp, h1, _, h3, _⟩ := parseOne_of_getOpcode hg
        simp only [hp]
        rw [ih, h3]
        by_cases h60 : op.opcode > 0x60
        · have : ¬ op.opcode ≤ 0x60 := by omega
          simp [h60, this, h1]
        · have : op.opcode ≤ 0x60 := by omega
          simp [h60, this, h1]

/-- gocoin's `IsOpSuccess` (decimal ranges) is BIP342's list (hex ranges of the spec) -/
theorem _root_.GocoinV.Script.isOpSuccess_eq (op : Nat) : Script.isOpSuccess op = ScriptSpec.isOpSuccess op := by
  by_cases h : op < 256
  · have all : ∀ n, n < 256 → Script.isOpSuccess n = ScriptSpec.isOpSuccess n := by decide +kernel
    exact all op h
  · unfold Script.isOpSuccess ScriptSpec.isOpSuccess
    have h1 : op ≥ 256 := by omega
    have e : ∀ k, k < 256 → (op == k) = false := by intro k hk; simp; omega
    have l : ∀ k, k < 256 → decide (op ≤ k) = false := by intro k hk; simp; omega
    simp [e, l]

/-- the OP_SUCCESSx pre-scan of ExecuteWitnessScript against the spec's scan of the parsed script -/
theorem opSuccessScan_eq (f : Nat) (s : Bytes) :
    opSuccessScan f s =
      (match ScriptSpec.scanOpSuccess (ScriptSpec.parseAux f s).1 (ScriptSpec.parseAux f s).2 with
       | some true => ScanRes.opSuccess
       | some false => ScanRes.decodeError
       | none => ScanRes.clean) := by
  induction f generalizing s with
  | zero =>
    simp only [opSuccessScan, ScriptSpec.parseAux, ScriptSpec.scanOpSuccess]
    by_cases he : s.isEmpty <;> simp [he]
  | succ f ih =>
    simp only [opSuccessScan, ScriptSpec.parseAux]
    by_cases he : s.isEmpty
    · simp [he, ScriptSpec.scanOpSuccess]
    · simp only [he, Bool.false_eq_true, ↓reduceIte]
      cases hg : getOpcode s with
      | none => simp [parseOne_none_of_getOpcode hg, ScriptSpec.scanOpSuccess]
      | some op =>
        obtain ⟨i, hp, h1, _, h3, _⟩ := parseOne_of_getOpcode hg
        simp only [hp, ScriptSpec.scanOpSuccess]
        rw [ih, h3, h1, Script.isOpSuccess_eq]
        by_cases hs : ScriptSpec.isOpSuccess op.opcode <;> simp [hs]

end GocoinV.Proofs.C01
