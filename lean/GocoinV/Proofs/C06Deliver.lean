/-
  Proofs.C06Deliver — one delivery (`deliver` = the tree part of CheckBlock + AcceptBlock: AcceptHeader, CommitBlock,
  MorePOW, MoveToBlock …) keeps the whole invariant: tree well-formedness, "unspent map = replay of the active branch",
  and "the tip is a maximum-work node"; and it never panics.
-/
import GocoinV.Proofs.C06Reorg
namespace GocoinV.ChainTree
open GocoinV.UtxoOps

/-- the node AcceptHeader + CommitBlock create for a delivered block under the parent node `p` -/
def newNode (b : Block) (p : Node) : Node :=
  { id := b.id, parent := p.id, height := p.height + 1, bits := b.bits, childs := [], txCount := b.txs.length }

/-- the chain after AcceptHeader and `cur.TxCount = len(bl.Txs)` -/
def delivered (c : Chain) (b : Block) (p : Node) : Chain :=
  modNode (accepted c b p) b.id (fun n => { n with txCount := b.txs.length })

theorem deliver_eq (c : Chain) (b : Block) (p t : Node) (hb : getNode c b.id = none)
    (hp : getNode c b.parent = some p) (ht : getNode c c.tip = some t)
    (hdeep : (p.id != t.id && decide (t.height ≥ p.height + 1 + MovingCheckpointDepth)) = false) :
    deliver c b = commitBlock (accepted c b p) b (p.height + 1) := by
  unfold deliver deliverAt accepted
  simp only [hb, Option.isSome_none, Bool.false_eq_true, if_false, hp, ht, hdeep]

theorem getNode_delivered (c : Chain) (b : Block) (p : Node) (hb : getNode c b.id = none)
    (hp : getNode c b.parent = some p) (x : Nat) :
    getNode (delivered c b p) x =
      if x = b.id then some (newNode b p)
      else if x = b.parent then some { p with childs := p.childs ++ [b.id] } else getNode c x := by
  have hpid : p.id = b.parent := getNode_id hp
  have hpb : b.parent ≠ b.id := by intro e; rw [e, hb] at hp; cases hp
  have e1 : getNode (delivered c b p) x =
      (getNode (accepted c b p) x).map (fun n => if n.id == b.id then { n with txCount := b.txs.length } else n) :=
    getNode_modNode_eq (accepted c b p) b.id x (fun n => { n with txCount := b.txs.length }) (fun _ => rfl)
  have e2 : getNode (accepted c b p) x =
      match getNode (modNode c p.id (fun q => { q with childs := q.childs ++ [b.id] })) x with
      | some m => some m
      | none => if b.id == x then
          some { id := b.id, parent := p.id, height := p.height + 1, bits := b.bits, childs := [], txCount := 0 } else none :=
    getNode_append_eq (modNode c p.id (fun q => { q with childs := q.childs ++ [b.id] }))
      { id := b.id, parent := p.id, height := p.height + 1, bits := b.bits, childs := [], txCount := 0 } x
  have e3 : getNode (modNode c p.id (fun q => { q with childs := q.childs ++ [b.id] })) x =
      (getNode c x).map (fun n => if n.id == p.id then { n with childs := n.childs ++ [b.id] } else n) :=
    getNode_modNode_eq c p.id x (fun q => { q with childs := q.childs ++ [b.id] }) (fun _ => rfl)
  rw [e1, e2, e3]
  by_cases hx : x = b.id
  · subst hx
    simp only [hb, Option.map_none, beq_self_eq_true, if_true, Option.map_some]
    rfl
  · simp only [if_neg hx]
    have hx' : (b.id == x) = false := by simpa using fun e : b.id = x => hx e.symm
    cases hg : getNode c x with
    | none =>
      simp only [Option.map_none, hx', Bool.false_eq_true, if_false]
      by_cases hxp : x = b.parent
      · rw [hxp, hp] at hg; cases hg
      · simp only [if_neg hxp]
    | some n =>
      have hnid : n.id = x := getNode_id hg
      simp only [Option.map_some]
      by_cases hxp : x = b.parent
      · rw [hxp, hp] at hg; cases hg
        have e1 : (p.id == p.id) = true := by simp
        have e2 : (p.id == b.id) = false := by rw [hpid]; simpa using hpb
        simp only [if_pos hxp, e1, if_true, e2, Bool.false_eq_true, if_false]
      · have e1 : (n.id == p.id) = false := by rw [hnid, hpid]; simpa using hxp
        have e2 : (n.id == b.id) = false := by rw [hnid]; simpa using hx
        simp only [if_neg hxp, e1, Bool.false_eq_true, if_false, e2]

-- ------------------------------------------------------------------------------------------ any chain showing the delivered tree

section Delivered
variable {U : List Block} {c c' : Chain} {b : Block} {p : Node}

/-- `c'` shows the tree of `c` plus the delivered block `b` under its parent `p` -/
def ShowsDelivered (c c' : Chain) (b : Block) (p : Node) : Prop :=
  c'.root = c.root ∧ ∀ x, getNode c' x =
    if x = b.id then some (newNode b p)
    else if x = b.parent then some { p with childs := p.childs ++ [b.id] } else getNode c x

theorem dlv_old (hb : getNode c b.id = none) (hp : getNode c b.parent = some p) (sd : ShowsDelivered c c' b p) :
    ∀ x n, getNode c x = some n → ∃ n', getNode c' x = some n' ∧ n'.parent = n.parent ∧ n'.height = n.height ∧
      n'.bits = n.bits ∧ n'.txCount = n.txCount := by
  intro x n h
  have hx : x ≠ b.id := by intro e; rw [e, hb] at h; cases h
  rw [sd.2, if_neg hx]
  by_cases hxp : x = b.parent
  · rw [if_pos hxp]; rw [hxp, hp] at h; cases h; exact ⟨_, rfl, rfl, rfl, rfl, rfl⟩
  · rw [if_neg hxp]; exact ⟨n, h, rfl, rfl, rfl, rfl⟩

theorem dlv_back (hp : getNode c b.parent = some p) (sd : ShowsDelivered c c' b p) :
    ∀ x n', getNode c' x = some n' → x ≠ b.id → ∃ n, getNode c x = some n ∧ n'.txCount = n.txCount := by
  intro x n' h hx
  rw [sd.2, if_neg hx] at h
  by_cases hxp : x = b.parent
  · rw [if_pos hxp] at h; cases h; exact ⟨p, by rw [hxp]; exact hp, rfl⟩
  · rw [if_neg hxp] at h; exact ⟨n', h, rfl⟩

theorem dlv_W_old (w : TreeWF U c) (hb : getNode c b.id = none) (hp : getNode c b.parent = some p)
    (sd : ShowsDelivered c c' b p) {x : Nat} {n n' : Node} (hn : getNode c x = some n) (hn' : getNode c' x = some n') :
    W c' n' = W c n := by
  unfold W
  rw [workOf_congr w sd.1 (fun x n h => by
    obtain ⟨m, a1, a2, a3, a4, _⟩ := dlv_old hb hp sd x n h
    exact ⟨m, a1, a2, a3, a4⟩) n.height x n n' hn hn' rfl]

theorem dlv_new (sd : ShowsDelivered c c' b p) : getNode c' b.id = some (newNode b p) := by
  rw [sd.2, if_pos rfl]

theorem dlv_W_new (w : TreeWF U c) (w' : TreeWF U c') (hU : BlockTree c.root U) (hb : getNode c b.id = none)
    (hp : getNode c b.parent = some p) (sd : ShowsDelivered c c' b p) :
    W c' (newNode b p) = W c p + (difficulty b.bits).val ∧ (difficulty b.bits).val > 0 := by
  have hroot : b.id ≠ c'.root := by
    rw [sd.1]; intro e
    obtain ⟨r, hr, _⟩ := w.root
    rw [← e, hb] at hr; cases hr
  obtain ⟨p', hp', _⟩ := dlv_old hb hp sd _ _ hp
  have hpid : p.id = b.parent := getNode_id hp
  have hpar : getNode c' (newNode b p).parent = some p' := by
    show getNode c' p.id = some p'; rw [hpid]; exact hp'
  have := W_step w' (by rw [sd.1]; exact hU) (dlv_new sd) hroot hpar
  rw [dlv_W_old w hb hp sd hp hp'] at this
  exact this

/-- the delivered block did not take the lead: the old tip is still a maximum-work node -/
theorem maxW_keep (w : TreeWF U c) (hb : getNode c b.id = none) (hp : getNode c b.parent = some p)
    (sd : ShowsDelivered c c' b p) (hm : MaxW c) (htip : c'.tip = c.tip)
    (hle : ∀ t', getNode c' c.tip = some t' → W c' (newNode b p) ≤ W c' t') : MaxW c' := by
  obtain ⟨t, ht, hmax⟩ := hm
  obtain ⟨t', ht', _⟩ := dlv_old hb hp sd _ _ ht
  refine ⟨t', by rw [htip]; exact ht', ?_⟩
  intro x n' hn' hd'
  by_cases hx : x = b.id
  · rw [hx, dlv_new sd] at hn'; cases hn'; exact hle t' ht'
  · obtain ⟨n, hn, htx⟩ := dlv_back hp sd x n' hn' hx
    rw [dlv_W_old w hb hp sd hn hn', dlv_W_old w hb hp sd ht ht']
    exact hmax x n hn (by unfold HasData at hd' ⊢; rw [← sd.1, ← htx]; exact hd')

/-- the delivered block became the tip and has at least the work of the old tip: it is a maximum-work node -/
theorem maxW_new (w : TreeWF U c) (hb : getNode c b.id = none) (hp : getNode c b.parent = some p)
    (sd : ShowsDelivered c c' b p) (hm : MaxW c) (htip : c'.tip = b.id)
    (hge : ∀ t', getNode c' c.tip = some t' → W c' t' ≤ W c' (newNode b p)) : MaxW c' := by
  obtain ⟨t, ht, hmax⟩ := hm
  obtain ⟨t', ht', _⟩ := dlv_old hb hp sd _ _ ht
  refine ⟨newNode b p, by rw [htip]; exact dlv_new sd, ?_⟩
  intro x n' hn' hd'
  by_cases hx : x = b.id
  · rw [hx, dlv_new sd] at hn'; cases hn'; exact le_refl _
  · obtain ⟨n, hn, htx⟩ := dlv_back hp sd x n' hn' hx
    have h1 := hmax x n hn (by unfold HasData at hd' ⊢; rw [← sd.1, ← htx]; exact hd')
    rw [← dlv_W_old w hb hp sd hn hn', ← dlv_W_old w hb hp sd ht ht'] at h1
    exact le_trans h1 (hge t' ht')

end Delivered

-- ------------------------------------------------------------------------------------------ equations of CommitBlock

theorem commitBlock_tip_ok (a : Chain) (b : Block) (h : Nat) (ch : Changes) (htip : a.tip = b.parent)
    (hok : commitTxs a.utxo h (reward h) false b.txs = .ok ch) :
    commitBlock a b h = ({ commitBlockTxs (preCommit a b) h true (b.txs.map (·.txid)) ch with tip := b.id }, Outcome.ok) := by
  unfold commitBlock preCommit
  simp only [modNode, htip, beq_self_eq_true, if_true, hok]

theorem commitBlock_tip_err (a : Chain) (b : Block) (h : Nat) (e : Err) (htip : a.tip = b.parent)
    (herr : commitTxs a.utxo h (reward h) false b.txs = .error e) :
    commitBlock a b h = (rejectedChain a b, Outcome.rejected e) := by
  unfold commitBlock rejectedChain
  simp only [modNode, htip, beq_self_eq_true, if_true, herr]

/-- the chain after a block was stored aside (not on the tip) -/
def stored (c : Chain) (b : Block) (p : Node) : Chain :=
  { delivered c b p with store := aset b.id { txs := b.txs, trusted := false } c.store }

theorem commitBlock_side (c : Chain) (b : Block) (p : Node) (h : Nat) (hside : c.tip ≠ b.parent)
    (hns : alookup b.id c.store = none) :
    commitBlock (accepted c b p) b h =
      match getNode (stored c b p) b.id, getNode (stored c b p) c.tip with
      | some cur, some tipN =>
        if morePOW (stored c b p) cur tipN then
          match moveTo (fuelOf (stored c b p)) (stored c b p) b.id with
          | .error s => (stored c b p, .panic s)
          | .ok c2 => (c2, if c2.tip == b.id then .ok else .moveFailed)
        else (stored c b p, .ok)
      | _, _ => (stored c b p, .panic "panic:nil-node") := by
  have h1 : (c.tip == b.parent) = false := by simpa using hside
  unfold commitBlock
  have e1 : (modNode (accepted c b p) b.id (fun n => { n with txCount := b.txs.length })).tip = c.tip := rfl
  have e2 : (modNode (accepted c b p) b.id (fun n => { n with txCount := b.txs.length })).store = c.store := rfl
  simp only [e1, h1, Bool.false_eq_true, if_false, e2, hns, Option.isSome_none]
  rfl

-- ------------------------------------------------------------------------------------------ the invariant and one delivery

/-- the whole invariant: tree well-formed; the unspent map is the replay of the active branch (with every undo file in
    place: floor 0); the tip is a maximum-work node of the tree -/
structure Inv (U : List Block) (c : Chain) : Prop where
  wf : TreeWF U c
  path : ∃ path, PathOKH c 0 path ∧ Ext c path
  maxw : MaxW c

/-- every node after the delivery is the delivered block with its transaction count, or a node from before with the
    transaction count it had: a delivery creates no other node and gives no other node data -/
def NodesFrom (c : Chain) (b : Block) (c' : Chain) : Prop :=
  ∀ x n', getNode c' x = some n' → (x = b.id ∧ n'.txCount = b.txs.length) ∨ (∃ n, getNode c x = some n ∧ n'.txCount = n.txCount)

/-- what one delivery may lose, and what becomes of the delivered block: every node that disappears is excused (it or
    an ancestor fails when connected on its own branch), and the delivered block itself is a node afterwards unless it
    was turned away as an orphan / too deep, or is excused -/
def DeliveryComplete (U : List Block) (c : Chain) (b : Block) (r : Chain × Outcome) : Prop :=
  Lost U c.root c r.1 ∧
  (getNode r.1 b.id = none → r.2 = Outcome.later ∨ r.2 = Outcome.tooDeep ∨ Excused U c.root b.id)

theorem fuelOf_enough (c : Chain) : fuelOf c ≥ c.nodes.length * (c.nodes.length + 4) + c.nodes.length + 1 := by
  unfold fuelOf
  have : (c.nodes.length + 3) * (c.nodes.length + 3) = c.nodes.length * (c.nodes.length + 4) + 2 * c.nodes.length + 9 := by ring
  omega

theorem newNode_ok (b : Block) (p : Node) (hp : p.id = b.parent) :
    (newNode b p).parent = b.parent ∧ (newNode b p).height = p.height + 1 ∧ (newNode b p).bits = b.bits ∧
    (newNode b p).txCount = b.txs.length ∧ (newNode b p).childs = [] := ⟨hp, rfl, rfl, rfl, rfl⟩

/-- a block delivered on a side branch: stored aside, or — with more work than the tip — reorganised to -/
theorem deliver_side {U : List Block} {c : Chain} (w : TreeWF U c) {path : List PE} (hpo : PathOKH c 0 path)
    (hx : Ext c path)
    (hm : MaxW c) (hU : BlockTree c.root U) (b : Block) (hbU : b ∈ U) (p : Node)
    (hb : getNode c b.id = none) (hp : getNode c b.parent = some p) (hpd : HasData c b.parent p)
    (hside : c.tip ≠ b.parent) (h : Nat) :
    Inv U (commitBlock (accepted c b p) b h).1 ∧ (commitBlock (accepted c b p) b h).1.root = c.root ∧
    (∀ s, (commitBlock (accepted c b p) b h).2 ≠ Outcome.panic s) ∧
    ((commitBlock (accepted c b p) b h).1.tip = c.tip ∨ (commitBlock (accepted c b p) b h).1.tip = b.id ∨
      (commitBlock (accepted c b p) b h).2 = Outcome.moveFailed) ∧
    (∀ t, getNode c c.tip = some t → W c p + (difficulty b.bits).val ≤ W c t →
      (commitBlock (accepted c b p) b h).1.tip = c.tip) ∧
    DeliveryComplete U c b (commitBlock (accepted c b p) b h) ∧ NodesFrom c b (commitBlock (accepted c b p) b h).1 ∧
    (∀ n', getNode (commitBlock (accepted c b p) b h).1 b.id = some n' → n'.txCount = b.txs.length) := by
  have hns : alookup b.id c.store = none := by
    cases hh : alookup b.id c.store with
    | none => rfl
    | some s0 => have := (w.store _ _ hh).2; rw [hb] at this; cases this
  have hpid : p.id = b.parent := getNode_id hp
  have sd : ShowsDelivered c (stored c b p) b p :=
    ⟨rfl, fun x => (getNode_nodes (c := delivered c b p) (c' := stored c b p) rfl x).trans (getNode_delivered c b p hb hp x)⟩
  have w1 : TreeWF U (stored c b p) := by
    refine TreeWF_delivered w b hbU p (newNode b p) hb hp (newNode_ok b p hpid) (hU.txs b hbU) hpd sd.1 sd.2 ?_
    intro k
    show Option.map (·.txs) (alookup k (aset b.id { txs := b.txs, trusted := false } c.store)) = _
    rw [alookup_aset_eq]
    by_cases hk : b.id = k
    · subst hk; simp
    · have : ¬ k = b.id := fun e => hk e.symm
      simp [hk, this]
  obtain ⟨hpath, t, ht, hth⟩ := hpo
  obtain ⟨t', ht', _, hth', _⟩ := dlv_old hb hp sd _ _ ht
  have hp1 : PathOKH (stored c b p) 0 path := by
    refine ⟨PathOK_mono hpath rfl rfl rfl rfl rfl ?_ ?_, t', ht', hth'.trans hth⟩
    · intro e _ n hn
      obtain ⟨n', g1, g2, g3, _⟩ := dlv_old hb hp sd _ _ hn
      exact ⟨n', g1, g2, g3⟩
    · intro e he b0 hb0
      have hne : e.id ≠ b.id := by intro e1; rw [e1, hns] at hb0; cases hb0
      exact ⟨b0, by show alookup e.id (aset b.id _ c.store) = some b0; rw [alookup_aset_ne _ _ _ _ hne]; exact hb0, rfl⟩
  have hU1 : BlockTree (stored c b p).root U := hU
  have hx1 : Ext (stored c b p) path := hx.store_aside b.id b.txs (fun e he heq => by
    obtain ⟨s0, h0, _⟩ := hx.onPath e he
    rw [heq, hns] at h0; cases h0) rfl
  have hlost1 : Lost U c.root c (stored c b p) := by
    intro x hxs hnone
    cases hg : getNode c x with
    | none => rw [hg] at hxs; cases hxs
    | some n => obtain ⟨n', g1, _⟩ := dlv_old hb hp sd x n hg; rw [g1] at hnone; cases hnone
  have hfrom1 : NodesFrom c b (stored c b p) := by
    intro x n' hn'
    by_cases hxb : x = b.id
    · rw [hxb, dlv_new sd] at hn'; cases hn'; exact Or.inl ⟨hxb, rfl⟩
    · obtain ⟨n, g1, g2⟩ := dlv_back hp sd x n' hn' hxb
      exact Or.inr ⟨n, g1, g2⟩
  have hnewd : HasData (stored c b p) b.id (newNode b p) :=
    Or.inr (fun h0 => hU.txs b hbU (List.eq_nil_of_length_eq_zero h0))
  have hmp := morePOW_spec w1 hU1 (dlv_new sd) ht'
  rw [commitBlock_side c b p h hside hns, dlv_new sd, ht']
  simp only
  cases hmo : morePOW (stored c b p) (newNode b p) t' with
  | false =>
    simp only [Bool.false_eq_true, if_false]
    refine ⟨⟨w1, ⟨path, hp1, hx1⟩, ?_⟩, rfl, (fun s hs => by cases hs), Or.inl rfl, fun _ _ _ => rfl,
      ⟨hlost1, fun hnone => by rw [dlv_new sd] at hnone; cases hnone⟩, hfrom1,
      fun n' hn' => by rw [dlv_new sd] at hn'; cases hn'; rfl⟩
    refine maxW_keep w hb hp sd hm rfl ?_
    intro t2 ht2
    rw [ht'] at ht2; cases ht2
    have : ¬ W (stored c b p) (newNode b p) > W (stored c b p) t' := by
      rw [← hmp, hmo]; simp
    exact not_lt.mp this
  | true =>
    simp only [if_true]
    have hgt : W (stored c b p) (newNode b p) > W (stored c b p) t' := hmp.mp hmo
    obtain ⟨c2, path2, g1, g2, g3, g4, g5, g6, g7, g8⟩ := (reorg_specs U (fuelOf (stored c b p))).2.2 (stored c b p) b.id (newNode b p) path
      w1 hp1 hx1 hU1 (dlv_new sd) hnewd (fuelOf_enough _)
    rw [g1]
    simp only
    have g7' : Lost U c.root (stored c b p) c2 := g7
    have hfrom2 : NodesFrom c b c2 := by
      intro x n2 hn2
      obtain ⟨n1, k1, k2⟩ := g8 x n2 hn2
      rcases hfrom1 x n1 k1 with ⟨e1, e2⟩ | ⟨n, e1, e2⟩
      · exact Or.inl ⟨e1, k2.trans e2⟩
      · exact Or.inr ⟨n, e1, k2.trans e2⟩
    refine ⟨⟨g2, ⟨path2, g3, g6⟩, ?_⟩, g4, (fun s hs => by split at hs <;> cases hs), ?_, ?_,
      ⟨hlost1.trans g7', fun hnone => Or.inr (Or.inr (g7' b.id (by rw [dlv_new sd]; rfl) hnone))⟩, hfrom2,
      fun n' hn' => by
        obtain ⟨n1, k1, k2⟩ := g8 b.id n' hn'
        rw [dlv_new sd] at k1; cases k1; exact k2⟩
    rotate_left
    · by_cases hc2 : c2.tip = b.id
      · exact Or.inr (Or.inl hc2)
      · have : (c2.tip == b.id) = false := by simpa using hc2
        exact Or.inr (Or.inr (by simp only [this]; rfl))
    · intro t0 ht0 hle
      exfalso
      rw [ht] at ht0; cases ht0
      have hw := dlv_W_new w w1 hU hb hp sd
      rw [hw.1, dlv_W_old w hb hp sd ht ht'] at hgt
      linarith
    rcases g5 with ⟨a1, a2⟩ | g5
    · have hg2 : ∀ x, getNode c2 x = getNode (stored c b p) x := fun x => getNode_nodes a2 x
      have sd2 : ShowsDelivered c c2 b p := ⟨g4, fun x => (hg2 x).trans (sd.2 x)⟩
      refine maxW_new w hb hp sd2 hm a1 ?_
      intro t2 ht2
      rw [hg2, ht'] at ht2; cases ht2
      rw [W_same g4 hg2, W_same g4 hg2]
      exact le_of_lt hgt
    · exact g5

theorem getNode_rejected (c : Chain) (b : Block) (t : Node) (hb : getNode c b.id = none)
    (hp : getNode c b.parent = some t) (hnc : b.id ∉ t.childs) (x : Nat) :
    getNode (rejectedChain (accepted c b t) b) x = getNode c x := by
  have hpid : t.id = b.parent := getNode_id hp
  have e0 : (rejectedChain (accepted c b t) b).nodes =
      (modNode (delivered c b t) b.parent (fun n => { n with childs := n.childs.filter (fun x => x != b.id) })).nodes.filter
        (fun m => (fun i => i != b.id) m.id) := rfl
  have e1 := getNode_filter_eq (modNode (delivered c b t) b.parent
      (fun n => { n with childs := n.childs.filter (fun x => x != b.id) })) (fun i => i != b.id) x
  have e2 := getNode_modNode_eq (delivered c b t) b.parent x
      (fun n => { n with childs := n.childs.filter (fun x => x != b.id) }) (fun _ => rfl)
  rw [getNode_nodes (c := { modNode (delivered c b t) b.parent
      (fun n => { n with childs := n.childs.filter (fun x => x != b.id) }) with
      nodes := (modNode (delivered c b t) b.parent
        (fun n => { n with childs := n.childs.filter (fun x => x != b.id) })).nodes.filter
          (fun m => (fun i => i != b.id) m.id) }) e0 x, e1, e2, getNode_delivered c b t hb hp x]
  by_cases hx : x = b.id
  · subst hx; simp [hb]
  · have hq : (x != b.id) = true := by simpa using hx
    simp only [hq, if_true, if_neg hx]
    by_cases hxp : x = b.parent
    · subst hxp
      have e3 : (t.id == b.parent) = true := by simpa using hpid
      simp only [if_true, Option.map_some, e3]
      rw [hp]
      congr 1
      have : (t.childs ++ [b.id]).filter (fun x => x != b.id) = t.childs := by
        rw [List.filter_append]
        have h1 : t.childs.filter (fun x => x != b.id) = t.childs := by
          rw [List.filter_eq_self]
          intro a ha
          have : a ≠ b.id := fun e => hnc (e ▸ ha)
          simpa using this
        simp [h1]
      cases t
      simp only at this ⊢
      rw [this]
    · simp only [if_neg hxp]
      cases hg : getNode c x with
      | none => rfl
      | some n =>
        have hnid : n.id = x := getNode_id hg
        have : (n.id == b.parent) = false := by rw [hnid]; simpa using hxp
        simp only [Option.map_some, this, Bool.false_eq_true, if_false]

/-- a block delivered on the tip: connected (the branch grows) or rejected and dropped from the tree again -/
theorem deliver_tip {U : List Block} {c : Chain} (w : TreeWF U c) {path : List PE} (hpath : PathOK c 0 path)
    (hx : Ext c path)
    (t : Node) (ht : getNode c c.tip = some t) (hth : t.height = path.length)
    (hm : MaxW c) (hU : BlockTree c.root U) (b : Block) (hbU : b ∈ U)
    (hb : getNode c b.id = none) (htip : c.tip = b.parent) :
    Inv U (commitBlock (accepted c b t) b (path.length + 1)).1 ∧
    (commitBlock (accepted c b t) b (path.length + 1)).1.root = c.root ∧
    (∀ s, (commitBlock (accepted c b t) b (path.length + 1)).2 ≠ Outcome.panic s) ∧
    ((commitBlock (accepted c b t) b (path.length + 1)).1.tip = c.tip ∨
      (commitBlock (accepted c b t) b (path.length + 1)).1.tip = b.id) ∧
    DeliveryComplete U c b (commitBlock (accepted c b t) b (path.length + 1)) ∧
    NodesFrom c b (commitBlock (accepted c b t) b (path.length + 1)).1 ∧
    (∀ n', getNode (commitBlock (accepted c b t) b (path.length + 1)).1 b.id = some n' → n'.txCount = b.txs.length) := by
  have htd : HasData c b.parent t := by rw [← htip]; exact tip_has_data w hpath ht
  rw [htip] at ht
  have hp := ht
  have hpid : t.id = b.parent := getNode_id hp
  have htip2 : (accepted c b t).tip = b.parent := htip
  have hnew : ∀ e ∈ path, e.id ≠ b.id := by
    intro e he heq
    obtain ⟨n, hn⟩ := Linked_ids hpath.linked e he
    rw [heq, hb] at hn; cases hn
  -- the longer branch is a chain of the block tree
  have huc : UChain U c.root (⟨b.id, b.txs⟩ :: path) :=
    ⟨⟨b, hbU, rfl, rfl, by rw [← headId_eq, ← hpath.tip, htip]⟩, Linked_UChain w hpath.linked⟩
  have hdep := hU.depth _ huc
  simp only [List.length_cons] at hdep
  obtain ⟨u, hru, heq⟩ := hpath.utxo
  have hfresh : ∀ x ∈ b.txs.map (·.txid), c.utxo.get x = none := fun x hx => by
    rw [heq x]; exact (hU.fresh _ huc).1 u hru x hx
  cases hct : commitTxs c.utxo (path.length + 1) (reward (path.length + 1)) false b.txs with
  | ok ch =>
    have hok : commitTxs (accepted c b t).utxo (path.length + 1) (reward (path.length + 1)) false b.txs = .ok ch := hct
    rw [commitBlock_tip_ok _ b _ ch htip2 hok]
    have hf := cbt_fields (preCommit (accepted c b t) b) (path.length + 1) true (b.txs.map (·.txid)) ch
    have hrt := cbt_root (preCommit (accepted c b t) b) (path.length + 1) true (b.txs.map (·.txid)) ch
    have hst := cbt_store (preCommit (accepted c b t) b) (path.length + 1) true (b.txs.map (·.txid)) ch
    have sd : ShowsDelivered c { commitBlockTxs (preCommit (accepted c b t) b) (path.length + 1) true
        (b.txs.map (·.txid)) ch with tip := b.id } b t :=
      ⟨hrt, fun x => (getNode_nodes (c := delivered c b t) hf.2.2.2 x).trans (getNode_delivered c b t hb hp x)⟩
    have w1 : TreeWF U { commitBlockTxs (preCommit (accepted c b t) b) (path.length + 1) true
        (b.txs.map (·.txid)) ch with tip := b.id } := by
      refine TreeWF_delivered w b hbU t (newNode b t) hb hp (newNode_ok b t hpid) (hU.txs b hbU) htd sd.1 sd.2 ?_
      intro k
      show Option.map (·.txs) (alookup k (commitBlockTxs (preCommit (accepted c b t) b) (path.length + 1) true
        (b.txs.map (·.txid)) ch).store) = _
      rw [hst]
      show Option.map (·.txs) (alookup k (aset b.id { txs := b.txs, trusted := true } c.store)) = _
      rw [alookup_aset_eq]
      by_cases hk : b.id = k
      · subst hk; simp
      · have : ¬ k = b.id := fun e => hk e.symm
        simp [hk, this]
    have hcp := commitBlock_path (accepted c b t) 0 path (PathOK_accepted hpath b t) b ch htip2
      ⟨_, getNode_accepted_new c b t hb, by simp only [hpid]⟩ hnew hok hfresh
    rw [commitBlock_ok_eq _ b _ ch htip2 hok] at hcp
    have hfl : max 0 (path.length + 1 - UnwindBufLen) = 0 := by omega
    rw [hfl] at hcp
    have hx1 : Ext { commitBlockTxs (preCommit (accepted c b t) b) (path.length + 1) true
        (b.txs.map (·.txid)) ch with tip := b.id } (⟨b.id, b.txs⟩ :: path) :=
      hx.extend b _ _ ch _ hct (by
        show (commitBlockTxs (preCommit (accepted c b t) b) (path.length + 1) true (b.txs.map (·.txid)) ch).store = _
        rw [hst]; rfl)
    have hlost1 : Lost U c.root c { commitBlockTxs (preCommit (accepted c b t) b) (path.length + 1) true
        (b.txs.map (·.txid)) ch with tip := b.id } := by
      intro x hxs hnone
      cases hg : getNode c x with
      | none => rw [hg] at hxs; cases hxs
      | some n => obtain ⟨n', g1, _⟩ := dlv_old hb hp sd x n hg; rw [g1] at hnone; cases hnone
    have hfrom1 : NodesFrom c b { commitBlockTxs (preCommit (accepted c b t) b) (path.length + 1) true
        (b.txs.map (·.txid)) ch with tip := b.id } := by
      intro x n' hn'
      by_cases hxb : x = b.id
      · rw [hxb, dlv_new sd] at hn'; cases hn'; exact Or.inl ⟨hxb, rfl⟩
      · obtain ⟨n, g1, g2⟩ := dlv_back hp sd x n' hn' hxb
        exact Or.inr ⟨n, g1, g2⟩
    refine ⟨⟨w1, ⟨_, ⟨hcp, newNode b t, dlv_new sd, by simp only [List.length_cons]; show t.height + 1 = _; omega⟩, hx1⟩, ?_⟩,
      hrt, (fun s hs => by cases hs), Or.inr rfl,
      ⟨hlost1, fun hnone => by rw [dlv_new sd] at hnone; cases hnone⟩, hfrom1,
      fun n' hn' => by rw [dlv_new sd] at hn'; cases hn'; rfl⟩
    refine maxW_new w hb hp sd hm rfl ?_
    intro t2 ht2
    have hw := dlv_W_new w w1 hU hb hp sd
    rw [htip] at ht2
    rw [dlv_W_old w hb hp sd hp ht2, hw.1]
    linarith [hw.2]
  | error e =>
    have herr : commitTxs (accepted c b t).utxo (path.length + 1) (reward (path.length + 1)) false b.txs = .error e := hct
    rw [commitBlock_tip_err _ b _ e htip2 herr]
    have hnc : b.id ∉ t.childs := by
      intro hin
      obtain ⟨_, n, hn, _⟩ := w.childs _ _ hp _ hin
      rw [hb] at hn; cases hn
    have hg : ∀ x, getNode (rejectedChain (accepted c b t) b) x = getNode c x := getNode_rejected c b t hb hp hnc
    have hr : (rejectedChain (accepted c b t) b).root = c.root := rfl
    have w1 : TreeWF U (rejectedChain (accepted c b t) b) := TreeWF_same w hr hg (fun _ => rfl)
    have hp1 : PathOK (rejectedChain (accepted c b t) b) 0 path :=
      PathOK_mono hpath hr htip.symm rfl rfl rfl (fun e _ n hn => ⟨n, by rw [hg]; exact hn, rfl, rfl⟩)
        (fun _ _ b0 hb0 => ⟨b0, hb0, rfl⟩)
    have hinv : InvalidOnReplay U c.root b := invalidOnReplay_on_path w hpath b htip.symm false e hct
    refine ⟨⟨w1, ⟨path, ⟨hp1, t, by show getNode _ b.parent = some t; rw [hg]; exact hp, hth⟩,
        hx.of_store_eq (c' := rejectedChain (accepted c b t) b) rfl⟩, ?_⟩, hr,
      (fun s hs => by cases hs), Or.inl htip.symm,
      ⟨Lost.of_getNode hg, fun _ => Or.inr (Or.inr ⟨b, hbU, UAnc.refl, hinv⟩)⟩,
      (fun x n' hn' => Or.inr ⟨n', by rw [← hg]; exact hn', rfl⟩),
      fun n' hn' => by rw [hg, hb] at hn'; cases hn'⟩
    obtain ⟨t0, ht0, hmax⟩ := hm
    refine ⟨t0, by show getNode _ b.parent = some t0; rw [hg, ← htip]; exact ht0, fun x n hn hd => ?_⟩
    rw [W_same hr hg, W_same hr hg]
    exact hmax x n (by rw [← hg]; exact hn) hd

/-- **one delivery keeps the whole invariant and does not panic** — any block of the block tree, in any state reached:
    duplicate, orphan, too deep below the tip, tip extension (accepted or rejected), side block (stored aside, or
    reorganised to: completely, or with a failure and the fall-back to the best remaining node). -/
theorem deliver_inv {U : List Block} {c : Chain} (hi : Inv U c) (hU : BlockTree c.root U) (b : Block) (hbU : b ∈ U)
    (hpd : ∀ p, getNode c b.parent = some p → HasData c b.parent p) :
    Inv U (deliver c b).1 ∧ (deliver c b).1.root = c.root ∧ (∀ s, (deliver c b).2 ≠ Outcome.panic s) ∧
    ((deliver c b).1.tip = c.tip ∨ (deliver c b).1.tip = b.id ∨ (deliver c b).2 = Outcome.moveFailed) ∧
    DeliveryComplete U c b (deliver c b) ∧ NodesFrom c b (deliver c b).1 ∧
    ((deliver c b).2.admitted = true → ∀ n', getNode (deliver c b).1 b.id = some n' → n'.txCount = b.txs.length) := by
  obtain ⟨w, ⟨path, hpo, hx⟩, hm⟩ := hi
  obtain ⟨hpath, t, ht, hth⟩ := hpo
  have same : Lost U c.root c c := Lost.of_getNode (fun _ => rfl)
  have sameN : NodesFrom c b c := fun x n' hn' => Or.inr ⟨n', hn', rfl⟩
  cases hb : getNode c b.id with
  | some n0 =>
    have : deliver c b = (c, Outcome.dup) := by unfold deliver; simp [hb]
    rw [this]; exact ⟨⟨w, ⟨path, ⟨hpath, t, ht, hth⟩, hx⟩, hm⟩, rfl, (fun s hs => by cases hs), Or.inl rfl,
      ⟨same, fun hnone => by rw [hb] at hnone; cases hnone⟩, sameN, fun ha => by cases ha⟩
  | none =>
    cases hp : getNode c b.parent with
    | none =>
      have : deliver c b = (c, Outcome.later) := by unfold deliver; simp [hb, hp]
      rw [this]; exact ⟨⟨w, ⟨path, ⟨hpath, t, ht, hth⟩, hx⟩, hm⟩, rfl, (fun s hs => by cases hs), Or.inl rfl,
        ⟨same, fun _ => Or.inl rfl⟩, sameN, fun ha => by cases ha⟩
    | some p =>
      cases hdeep : (p.id != t.id && decide (t.height ≥ p.height + 1 + MovingCheckpointDepth)) with
      | true =>
        have : deliver c b = (c, Outcome.tooDeep) := by
          unfold deliver deliverAt; simp only [hb, Option.isSome_none, Bool.false_eq_true, if_false, hp, ht, hdeep, if_true]
        rw [this]; exact ⟨⟨w, ⟨path, ⟨hpath, t, ht, hth⟩, hx⟩, hm⟩, rfl, (fun s hs => by cases hs), Or.inl rfl,
          ⟨same, fun _ => Or.inr (Or.inl rfl)⟩, sameN, fun ha => by cases ha⟩
      | false =>
        rw [deliver_eq c b p t hb hp ht hdeep]
        by_cases htip : c.tip = b.parent
        · rw [← htip, ht] at hp; cases hp
          rw [hth]
          obtain ⟨h1, h2, h3, h4, h5, h6, h7⟩ := deliver_tip w hpath hx t ht hth hm hU b hbU hb htip
          exact ⟨h1, h2, h3, h4.elim Or.inl (fun h => Or.inr (Or.inl h)), h5, h6, fun _ => h7⟩
        · obtain ⟨h1, h2, h3, h4, _, h6, h7, h8⟩ := deliver_side w ⟨hpath, t, ht, hth⟩ hx hm hU b hbU p hb hp (hpd p hp) htip (p.height + 1)
          exact ⟨h1, h2, h3, h4, h6, h7, fun _ => h8⟩

/-- the initial state satisfies the invariant -/
theorem init_inv (U : List Block) (r bits : Nat) (hbits : bits % 0x1000000 ≠ 0) : Inv U (ChainTree.init r bits) := by
  have hg : ∀ x, getNode (ChainTree.init r bits) x =
      if r = x then some { id := r, parent := r, height := 0, bits := bits, childs := [], txCount := 0 } else none := by
    intro x
    simp only [getNode, ChainTree.init, List.find?_cons, List.find?_nil]
    by_cases h : r = x
    · simp [h]
    · have : (r == x) = false := by simpa using h
      simp [this, h]
  have hroot : getNode (ChainTree.init r bits) r = some { id := r, parent := r, height := 0, bits := bits, childs := [], txCount := 0 } := by
    rw [hg, if_pos rfl]
  have only : ∀ x n, getNode (ChainTree.init r bits) x = some n → x = r := by
    intro x n h
    rw [hg] at h
    by_cases hx : r = x
    · exact hx.symm
    · rw [if_neg hx] at h; cases h
  refine ⟨⟨⟨_, hroot, rfl, hbits⟩, ?_, ?_, ?_, ?_, ?_, ?_⟩,
    ⟨[], init_pathH r bits, Ext.mk (fun k s h _ => by cases h) (fun e he => by cases he)⟩, ?_⟩
  · intro x n h hx; exact absurd (only x n h) hx
  · intro y p h x hx
    have := only y p h
    subst this
    rw [hroot] at h; cases h; cases hx
  · intro x n h hx; exact absurd (only x n h) hx
  · intro x n _ _; rfl
  · intro x n h hx; exact absurd (only x n h) hx
  · intro k s h; cases h
  · refine ⟨_, hroot, ?_⟩
    intro x n h _
    have := only x n h
    subst this
    rw [hroot] at h; cases h; exact le_refl _

/-- every node has its data (no header-only node): the state of a chain that was only ever fed whole blocks -/
def AllData (c : Chain) : Prop := ∀ x n, getNode c x = some n → HasData c x n

theorem init_allData (r bits : Nat) : AllData (ChainTree.init r bits) := by
  intro x n h
  left
  simp only [getNode, ChainTree.init, List.find?_cons, List.find?_nil] at h
  split at h
  · next he =>
    have : r = x := by simpa using he
    exact this.symm
  · cases h

theorem AllData.deliver {U : List Block} {c : Chain} (ha : AllData c) (hU : BlockTree c.root U) (b : Block) (hbU : b ∈ U)
    {c' : Chain} (hr : c'.root = c.root) (hf : NodesFrom c b c') : AllData c' := by
  intro x n' hn'
  rcases hf x n' hn' with ⟨_, e2⟩ | ⟨n, e1, e2⟩
  · right; rw [e2]; intro h0; exact hU.txs b hbU (List.eq_nil_of_length_eq_zero h0)
  · have := ha x n e1
    unfold HasData at this ⊢
    rw [hr, e2]; exact this

/-- **the invariant holds after every sequence of deliveries drawn from the block tree, and no delivery panics** -/
theorem deliver_all_inv {U : List Block} (ds : List Block) : ∀ (c : Chain), Inv U c → AllData c → BlockTree c.root U →
    (∀ b ∈ ds, b ∈ U) →
    Inv U (ds.foldl (fun c b => (deliver c b).1) c) ∧ (ds.foldl (fun c b => (deliver c b).1) c).root = c.root := by
  induction ds with
  | nil => intro c hi _ _ _; exact ⟨hi, rfl⟩
  | cons b bs ih =>
    intro c hi ha hU hin
    obtain ⟨h1, h2, _, _, _, h6⟩ := deliver_inv hi hU b (hin b List.mem_cons_self) (fun p hp => ha _ p hp)
    obtain ⟨h3, h4⟩ := ih (deliver c b).1 h1 (ha.deliver hU b (hin b List.mem_cons_self) h2 h6.1) (by rw [h2]; exact hU)
      (fun x hx => hin x (List.mem_cons_of_mem _ hx))
    exact ⟨h3, h4.trans h2⟩

theorem foldl_deliverG_fst (ds : List Block) : ∀ (s : Chain × List Nat),
    (ds.foldl deliverG s).1 = ds.foldl (fun c b => (deliver c b).1) s.1 := by
  induction ds with
  | nil => intro s; rfl
  | cons b bs ih => intro s; simp only [List.foldl_cons]; rw [ih]; rfl

/-- one delivery keeps the completeness of the tree w.r.t. the ghost list of admitted blocks -/
theorem deliverG_complete {U : List Block} {c : Chain} (hi : Inv U c) (hU : BlockTree c.root U) (b : Block) (hbU : b ∈ U)
    (hpd : ∀ p, getNode c b.parent = some p → HasData c b.parent p)
    (E : List Nat) (hc : Complete U c.root E c) :
    Complete U c.root (deliverG (c, E) b).2 (deliverG (c, E) b).1 := by
  obtain ⟨_, _, _, _, ⟨hl, hn⟩, _⟩ := deliver_inv hi hU b hbU hpd
  have old : ∀ x ∈ E, (getNode (deliver c b).1 x).isSome = true ∨ Excused U c.root x := by
    intro x hx
    rcases hc x hx with h | h
    · cases hg : getNode (deliver c b).1 x with
      | some n => exact Or.inl rfl
      | none => exact Or.inr (hl x h hg)
    · exact Or.inr h
  intro x hx
  show (getNode (deliver c b).1 x).isSome = true ∨ _
  unfold deliverG at hx
  simp only at hx
  cases ha : (deliver c b).2.admitted with
  | false => rw [ha] at hx; exact old x hx
  | true =>
    rw [ha] at hx
    simp only [if_true] at hx
    rcases List.mem_cons.mp hx with rfl | h2
    · cases hg : getNode (deliver c b).1 b.id with
      | some n => exact Or.inl rfl
      | none =>
        rcases hn hg with h | h | h
        · rw [h] at ha; cases ha
        · rw [h] at ha; cases ha
        · exact Or.inr h
    · exact old x h2

/-- **after every sequence of deliveries: the invariant, and completeness w.r.t. the blocks admitted on the way** -/
theorem deliverG_all {U : List Block} (ds : List Block) : ∀ (s : Chain × List Nat), Inv U s.1 → AllData s.1 →
    BlockTree s.1.root U →
    (∀ b ∈ ds, b ∈ U) → Complete U s.1.root s.2 s.1 →
    Inv U (ds.foldl deliverG s).1 ∧ (ds.foldl deliverG s).1.root = s.1.root ∧
      Complete U s.1.root (ds.foldl deliverG s).2 (ds.foldl deliverG s).1 ∧ AllData (ds.foldl deliverG s).1 := by
  induction ds with
  | nil => intro s hi ha _ _ hc; exact ⟨hi, rfl, hc, ha⟩
  | cons b bs ih =>
    intro s hi ha hU hin hc
    obtain ⟨c, E⟩ := s
    have hpd : ∀ p, getNode c b.parent = some p → HasData c b.parent p := fun p hp => ha _ p hp
    obtain ⟨h1, h2, _, _, _, h6⟩ := deliver_inv hi hU b (hin b List.mem_cons_self) hpd
    have hc1 := deliverG_complete hi hU b (hin b List.mem_cons_self) hpd E hc
    have hr : (deliverG (c, E) b).1.root = c.root := h2
    have ha1 : AllData (deliverG (c, E) b).1 := AllData.deliver (c := c) ha hU b (hin b List.mem_cons_self) h2 h6.1
    obtain ⟨h3, h4, h5, h7⟩ := ih (deliverG (c, E) b) h1 ha1 (by rw [hr]; exact hU) (fun x hx => hin x (List.mem_cons_of_mem _ hx))
      (by rw [hr]; exact hc1)
    simp only [List.foldl_cons]
    exact ⟨h3, h4.trans hr, by rw [hr] at h5; exact h5, h7⟩

/-- **a side block without strictly more work never moves the tip** (ties keep the block that was there first) -/
theorem deliver_keeps_tip {U : List Block} {c : Chain} (hi : Inv U c) (hU : BlockTree c.root U) (b : Block) (hbU : b ∈ U)
    (p t : Node) (hb : getNode c b.id = none) (hp : getNode c b.parent = some p) (hpd : HasData c b.parent p)
    (ht : getNode c c.tip = some t)
    (hside : c.tip ≠ b.parent) (hle : ((workOf c p).add (difficulty b.bits)).gt (workOf c t) = false) :
    (deliver c b).1.tip = c.tip := by
  obtain ⟨w, ⟨path, hpo, hx⟩, hm⟩ := hi
  cases hdeep : (p.id != t.id && decide (t.height ≥ p.height + 1 + MovingCheckpointDepth)) with
  | true =>
    have : deliver c b = (c, Outcome.tooDeep) := by
      unfold deliver deliverAt; simp only [hb, Option.isSome_none, Bool.false_eq_true, if_false, hp, ht, hdeep, if_true]
    rw [this]
  | false =>
    rw [deliver_eq c b p t hb hp ht hdeep]
    obtain ⟨_, _, _, _, h5, _⟩ := deliver_side w hpo hx hm hU b hbU p hb hp hpd hside (p.height + 1)
    apply h5 t ht
    have hbits := hU.bits b hbU
    have hd := difficulty_den_pos _ hbits
    have hpp := workOf_pos w hU hp
    have := (Q.gt_iff _ _ (Q.add_den_pos _ _ hpp hd) (workOf_pos w hU ht))
    rw [← Bool.not_eq_true, this, Q.val_add _ _ hpp hd] at hle
    exact not_lt.mp hle

end GocoinV.ChainTree
