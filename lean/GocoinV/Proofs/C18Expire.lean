/-
  Proofs.C18Expire — helper lemmas for the expire_misbehave theorems of Props/C18.lean
  (Model/NetParseExpire.lean). Core Lean only.
-/
import GocoinV.Model.NetParseExpire
namespace GocoinV.NetParse.Expire

theorem idx?_lt {hist : Hist} {i : Nat} (h : i < hist.length) : idx? hist i = some hist[i] := by
  simp [idx?, h]

/-- the loop of the source, started at an index inside the history with at least as much fuel as records
    left: it ends by `zero` or by `brk idx' _` with idx ≤ idx' < len - never by a panic, never out of fuel. -/
theorem loop_ok (now : Int) (hist : Hist) :
    ∀ (fuel idx : Nat) (sub : Int), idx < hist.length → hist.length ≤ fuel + idx →
      loopG false now hist fuel idx sub = .zero ∨
      ∃ i s, loopG false now hist fuel idx sub = .brk i s ∧ idx ≤ i ∧ i < hist.length := by
  intro fuel
  induction fuel with
  | zero => intro idx sub h1 h2; omega
  | succ fuel ih =>
    intro idx sub h1 h2
    unfold loopG
    rw [idx?_lt h1]
    simp only [Bool.false_eq_true, if_false]
    split
    · exact Or.inr ⟨idx, sub, rfl, Nat.le_refl _, h1⟩
    · split
      · exact Or.inl rfl
      · next hne =>
        have h3 : idx + 1 < hist.length := by omega
        rw [idx?_lt h3]
        rcases ih (idx + 1) (sub + ((hist[idx + 1].2 % 65536 : Nat) : Int)) h3 (by omega) with h | ⟨i, s, h, hi, hl⟩
        · exact Or.inl h
        · exact Or.inr ⟨i, s, h, by omega, hl⟩

theorem loop_not_stuck (now : Int) (hist : Hist) (h : 0 < hist.length) :
    loopG false now hist (hist.length + 1) 0 0 ≠ .stuck ∧ loopG false now hist (hist.length + 1) 0 0 ≠ .panic := by
  rcases loop_ok now hist (hist.length + 1) 0 0 h (by omega) with h | ⟨i, s, h, _, _⟩ <;> rw [h] <;> simp

/-- what expire returns, by cases: the two fields unchanged, or everything forgotten, or the first `k` records
    dropped (0 < k < len) with some amount taken off the counter. -/
theorem expire_cases (now mis : Int) (hist : Hist) :
    expire now mis hist = some (mis, hist) ∨ expire now mis hist = some (0, []) ∨
    ∃ k s, 0 < k ∧ k < hist.length ∧ expire now mis hist = some (mis - s, hist.drop k) := by
  unfold expire expireG
  split
  · next hpos =>
    rcases loop_ok now hist (hist.length + 1) 0 0 hpos (by omega) with h | ⟨i, s, h, _, hl⟩
    · rw [h]; exact Or.inr (Or.inl rfl)
    · rw [h]
      simp only []
      split
      · next hi =>
        have : sliceFrom? hist i = some (hist.drop i) := by simp [sliceFrom?]; omega
        rw [this]
        exact Or.inr (Or.inr ⟨i, s, hi, hl, rfl⟩)
      · exact Or.inl rfl
  · exact Or.inl rfl

end GocoinV.NetParse.Expire
