/-
  Proofs.C01Ops — per-opcode-group agreement of the model's `execOp` with the spec's `execOpcode` under the
  simulation relation `Rel` (stack shuffles, constants, VERIFY/RETURN/alt-stack/EQUAL/hashes, NOPs), and the
  lifting of the step simulation to the whole interpreter loop.
-/
import GocoinV.Proofs.C01Step
namespace GocoinV.Proofs.C01
open GocoinV GocoinV.Script

theorem shuffle_agree (T : TotalOracles) (c : Ctx) (leaf : Bytes) (annex : Option Bytes) (st : St) (s : ScriptSpec.State)
    (i : ScriptSpec.Instr) (idx pos : Nat) (hR : Rel c st s) (hs : ScriptSpec.isShuffle i.op = true) :
    Agree c (execOp c st i.op idx pos true) (ScriptSpec.execOpcode (envOf T c leaf annex) s i true pos) := by
  obtain ⟨h1, h2, h3, h4, h5, h6, h7, h8⟩ := hR
  obtain ⟨sstack, salt, scond, sop, scode, scsp, sw⟩ := s
  obtain ⟨stack, alt, exe, pbegin, opcnt, ed⟩ := st
  simp only at h1 h2 h3 h4 h5 h6 h7 h8
  subst h1 h2 h3 h4 h5
  obtain ⟨iop, idata, iafter⟩ := i
  simp only [ScriptSpec.isShuffle, Bool.or_eq_true, beq_iff_eq] at hs
  rcases hs with ((((((((((((h|h)|h)|h)|h)|h)|h)|h)|h)|h)|h)|h)|h)|h <;> subst h <;>
    simp only [execOp, ScriptSpec.execOpcode, ScriptSpec.isShuffle, ScriptSpec.shuffle, bts2bool_eq] <;>
    rcases stack with _ | ⟨a, _ | ⟨b, _ | ⟨d, _ | ⟨e, _ | ⟨f, _ | ⟨g, r⟩⟩⟩⟩⟩⟩ <;>
    simp [agree_ok, agree_fail, throw, throwThe, MonadExceptOf.throw, pure, Except.pure] <;>
    (try (split <;> simp [agree_ok])) <;>
    exact ⟨rfl, rfl, rfl, rfl, rfl, h6, h7, h8⟩

def isConstOp (op : Nat) : Bool := op == 0x4f || (0x51 ≤ op && op ≤ 0x60) || op == 0x61

theorem const_agree (T : TotalOracles) (c : Ctx) (leaf : Bytes) (annex : Option Bytes) (st : St) (s : ScriptSpec.State)
    (i : ScriptSpec.Instr) (idx pos : Nat) (hR : Rel c st s) (hs : isConstOp i.op = true) :
    Agree c (execOp c st i.op idx pos true) (ScriptSpec.execOpcode (envOf T c leaf annex) s i true pos) := by
  obtain ⟨h1, h2, h3, h4, h5, h6, h7, h8⟩ := hR
  obtain ⟨sstack, salt, scond, sop, scode, scsp, sw⟩ := s
  obtain ⟨stack, alt, exe, pbegin, opcnt, ed⟩ := st
  simp only at h1 h2 h3 h4 h5 h6 h7 h8
  subst h1 h2 h3 h4 h5
  obtain ⟨iop, idata, iafter⟩ := i
  simp only [isConstOp, Bool.or_eq_true, beq_iff_eq, Bool.and_eq_true, decide_eq_true_eq] at hs
  have hb : ((iop : Int) - 0x50).natAbs < 256 ^ 9 := by omega
  rcases hs with (h | ⟨ha, hb'⟩) | h
  · subst h
    simp [execOp, ScriptSpec.execOpcode, agree_ok, pure, Except.pure, St.push, ScriptSpec.pushNum, ScriptSpec.push]
    refine ⟨?_, rfl, rfl, rfl, rfl, h6, h7, h8⟩
    simp; decide
  · have e1 : (iop == 0x4f) = false := by simp; omega
    have e2 : (decide (iop ≥ 0x51) && decide (iop ≤ 0x60)) = true := by simp; omega
    have e3 : (iop == 0x4f || (decide (0x51 ≤ iop) && decide (iop ≤ 0x60))) = true := by simp; omega
    simp only [execOp, ScriptSpec.execOpcode, e1, e2, e3, Bool.false_eq_true, ↓reduceIte, agree_ok, pure, Except.pure, St.push,
      ScriptSpec.pushNum, ScriptSpec.push, Bool.false_or, Bool.or_true]
    refine ⟨?_, rfl, rfl, rfl, rfl, h6, h7, h8⟩
    simp only [intBytes_eq_encode _ hb]
  · subst h
    simp [execOp, ScriptSpec.execOpcode, agree_ok, pure, Except.pure]
    exact ⟨rfl, rfl, rfl, rfl, rfl, h6, h7, h8⟩

def isMiscOp (op : Nat) : Bool :=
  op == 0x69 || op == 0x6a || op == 0x6b || op == 0x6c || op == 0x87 || op == 0x88 ||
  op == 0xa6 || op == 0xa7 || op == 0xa8 || op == 0xa9 || op == 0xaa

theorem misc_agree (T : TotalOracles) (c : Ctx) (hO : c.O = T.toOracles) (leaf : Bytes) (annex : Option Bytes) (st : St) (s : ScriptSpec.State)
    (i : ScriptSpec.Instr) (idx pos : Nat) (hR : Rel c st s) (hs : isMiscOp i.op = true) :
    Agree c (execOp c st i.op idx pos true) (ScriptSpec.execOpcode (envOf T c leaf annex) s i true pos) := by
  obtain ⟨h1, h2, h3, h4, h5, h6, h7, h8⟩ := hR
  obtain ⟨sstack, salt, scond, sop, scode, scsp, sw⟩ := s
  obtain ⟨stack, alt, exe, pbegin, opcnt, ed⟩ := st
  simp only at h1 h2 h3 h4 h5 h6 h7 h8
  subst h1 h2 h3 h4 h5
  obtain ⟨iop, idata, iafter⟩ := i
  simp only [isMiscOp, Bool.or_eq_true, beq_iff_eq] at hs
  rcases hs with (((((((((h|h)|h)|h)|h)|h)|h)|h)|h)|h)|h <;> subst h <;>
    simp only [execOp, ScriptSpec.execOpcode, ScriptSpec.isShuffle, ScriptSpec.opVerify, ScriptSpec.opEqual, ScriptSpec.opHash,
      ScriptSpec.isUnaryNum, ScriptSpec.isBinaryNum, ScriptSpec.pop1, ScriptSpec.push, hashOp, bts2bool_eq, hO, envOf_O, isBinArith] <;>
    rcases stack with _ | ⟨a, _ | ⟨b, r⟩⟩ <;> rcases alt with _ | ⟨x, ar⟩ <;>
    simp [agree_ok, agree_fail, throw, throwThe, MonadExceptOf.throw, pure, Except.pure, bind, Except.bind, boolBytes, ScriptSpec.ofBool,
      ScriptSpec.vchTrue, ScriptSpec.vchFalse, TotalOracles.toOracles] <;>
    (try (cases hcb : ScriptSpec.castToBool a <;> simp [hcb, agree_ok, agree_fail])) <;>
    (try (by_cases hab : a = b <;> simp [hab, agree_ok, agree_fail])) <;>
    (try exact ⟨rfl, rfl, rfl, rfl, rfl, h6, h7, h8⟩)

def isNopOp (op : Nat) : Bool :=
  op == 0xb0 || op == 0xb3 || op == 0xb4 || op == 0xb5 || op == 0xb6 || op == 0xb7 || op == 0xb8 || op == 0xb9

theorem nop_agree (T : TotalOracles) (c : Ctx) (leaf : Bytes) (annex : Option Bytes) (st : St) (s : ScriptSpec.State)
    (i : ScriptSpec.Instr) (idx pos : Nat) (hR : Rel c st s) (hs : isNopOp i.op = true) :
    Agree c (execOp c st i.op idx pos true) (ScriptSpec.execOpcode (envOf T c leaf annex) s i true pos) := by
  obtain ⟨h1, h2, h3, h4, h5, h6, h7, h8⟩ := hR
  obtain ⟨sstack, salt, scond, sop, scode, scsp, sw⟩ := s
  obtain ⟨stack, alt, exe, pbegin, opcnt, ed⟩ := st
  simp only at h1 h2 h3 h4 h5 h6 h7 h8
  subst h1 h2 h3 h4 h5
  obtain ⟨iop, idata, iafter⟩ := i
  simp only [isNopOp, Bool.or_eq_true, beq_iff_eq] at hs
  rcases hs with ((((((h|h)|h)|h)|h)|h)|h)|h <;> subst h <;>
    simp only [execOp, ScriptSpec.execOpcode, isBinArith, envOf_f, ← flag_nops] <;>
    cases hf : has c.flags VER_BLOCK_OPS <;>
    simp [hf, agree_ok, agree_fail, throw, throwThe, MonadExceptOf.throw, pure, Except.pure] <;>
    exact ⟨rfl, rfl, rfl, rfl, rfl, h6, h7, h8⟩

/-- the opcodes whose step simulation is proved (every push opcode 0x00–0x4e is handled by the frame) -/
def provedOp (op : Nat) : Bool :=
  op ≤ 0x4e || isConstOp op || ScriptSpec.isShuffle op || isMiscOp op || isNopOp op

/-- `execOp` and `execOpcode` agree on every proved non-push opcode -/
theorem execOp_agree (T : TotalOracles) (c : Ctx) (hO : c.O = T.toOracles) (leaf : Bytes) (annex : Option Bytes)
    (st : St) (s : ScriptSpec.State) (i : ScriptSpec.Instr) (idx pos : Nat) (hR : Rel c st s)
    (hp : provedOp i.op = true) (hgt : i.op > 0x4e) :
    Agree c (execOp c st i.op idx pos true) (ScriptSpec.execOpcode (envOf T c leaf annex) s i true pos) := by
  unfold provedOp at hp
  simp only [Bool.or_eq_true, decide_eq_true_eq] at hp
  rcases hp with (((h | h) | h) | h) | h
  · omega
  · exact const_agree T c leaf annex st s i idx pos hR h
  · exact shuffle_agree T c leaf annex st s i idx pos hR h
  · exact misc_agree T c hO leaf annex st s i idx pos hR h
  · exact nop_agree T c leaf annex st s i idx pos hR h

/-- one loop iteration agrees for every proved opcode -/
theorem stepAt_agree (T : TotalOracles) (c : Ctx) (hO : c.O = T.toOracles) (leaf : Bytes) (annex : Option Bytes)
    (st : St) (s : ScriptSpec.State) (op : Op) (i : ScriptSpec.Instr) (idx pos : Nat)
    (hop : i.op = op.opcode) (hdata : i.data = op.push.getD []) (hR : Rel c st s) (hp : provedOp i.op = true) :
    Agree c (stepAt c st op idx pos) (ScriptSpec.execInstr (envOf T c leaf annex) s i pos) := by
  apply stepAt_frame T c hO leaf annex st s op i idx pos hop hdata hR
  intro hgt st1 s1 hR1
  rw [← hop]
  exact execOp_agree T c hO leaf annex st1 s1 i idx pos hR1 hp (by omega)

/-- the spec's loop with its trailing decode-error check -/
def specLoop (e : ScriptSpec.Env) (p : List ScriptSpec.Instr × Bool) (pos : Nat) (s : ScriptSpec.State) :
    ScriptSpec.E ScriptSpec.State := do
  let s' ← ScriptSpec.execInstrs e p.1 pos s
  if p.2 then throw ScriptSpec.ScriptError.BAD_OPCODE
  pure s'

/-- Whole-loop simulation: decoding while executing (model) against parse-then-execute (spec), for scripts made
    of proved opcodes only. -/
theorem evalLoop_agree (T : TotalOracles) (c : Ctx) (hO : c.O = T.toOracles) (leaf : Bytes) (annex : Option Bytes) :
    ∀ (f : Nat) (rest : Bytes) (pos : Nat) (st : St) (s : ScriptSpec.State), Rel c st s →
      (∀ i ∈ (ScriptSpec.parseAux f rest).1, provedOp i.op = true) →
      Agree c (evalLoop c f rest pos st) (specLoop (envOf T c leaf annex) (ScriptSpec.parseAux f rest) pos s) := by
  intro f
  induction f with
  | zero =>
    intro rest pos st s hR _
    simp only [evalLoop, ScriptSpec.parseAux, specLoop, ScriptSpec.execInstrs]
    by_cases he : rest.isEmpty
    · simp [he, agree_ok, pure, Except.pure, bind, Except.bind]; exact hR
    · simp [he, agree_fail, pure, Except.pure, bind, Except.bind, throw, throwThe, MonadExceptOf.throw]
  | succ f ih =>
    intro rest pos st s hR hall
    simp only [evalLoop, ScriptSpec.parseAux, specLoop]
    by_cases he : rest.isEmpty
    · simp [he, ScriptSpec.execInstrs, agree_ok, pure, Except.pure, bind, Except.bind]; exact hR
    · simp only [he, Bool.false_eq_true, ↓reduceIte]
      cases hg : getOpcode rest with
      | none =>
        simp [parseOne_none_of_getOpcode hg, ScriptSpec.execInstrs, agree_fail, pure, Except.pure, bind, Except.bind, throw, throwThe,
          MonadExceptOf.throw]
      | some op =>
        obtain ⟨i, hp, h1, h2, h3, _⟩ := parseOne_of_getOpcode hg
        simp only [hp, ScriptSpec.execInstrs]
        have hall' : ∀ j ∈ (ScriptSpec.parseAux (f + 1) rest).1, provedOp j.op = true := hall
        simp only [ScriptSpec.parseAux, he, Bool.false_eq_true, ↓reduceIte, hp] at hall'
        have hpi : provedOp i.op = true := hall' i (by simp)
        have hrest : ∀ j ∈ (ScriptSpec.parseAux f i.after).1, provedOp j.op = true := by
          intro j hj; exact hall' j (by simp [hj])
        have hstep := stepAt_agree T c hO leaf annex st s op i (c.p.length - rest.length + op.n) pos h1 h2 hR hpi
        generalize stepAt c st op (c.p.length - rest.length + op.n) pos = X at hstep ⊢
        generalize ScriptSpec.execInstr (envOf T c leaf annex) s i pos = Y at hstep ⊢
        cases hstep with
        | fail => simp [bind, Except.bind, Res.bind]; exact Agree.fail
        | panic => simp [bind, Except.bind, Res.bind]; exact Agree.panic
        | ok hR' =>
          rename_i a b
          have := ih (rest.drop op.n) (pos + 1) a b hR' (by rw [← h3]; exact hrest)
          simp only [specLoop, ← h3] at this
          simpa [bind, Except.bind, Res.bind, h3] using this

/-- `evalScript` (model, with its size check and recover) against `EvalScript` (spec) on scripts of proved opcodes:
    both fail, or both succeed with the same final stack -/
theorem evalScript_agree (T : TotalOracles) (tx : TxCtx) (flags : Nat) (p : Bytes) (stack : Stack) (sv : SigVersion)
    (ed : ExecData) (hall : ∀ i ∈ (ScriptSpec.parse p).1, provedOp i.op = true) :
    match evalScript T.toOracles tx flags p stack sv ed,
          ScriptSpec.evalScript (envOf T ⟨T.toOracles, tx, flags, sv, p⟩ ed.tapleafHash ed.annexHash) p stack ed.weightLeft with
    | .ok s1, .ok s2 => s1 = s2
    | .fail, .error _ => True
    | _, _ => False := by
  unfold evalScript ScriptSpec.evalScript
  simp only [envOf_sv, show ScriptSpec.MAX_SCRIPT_SIZE = MAX_SCRIPT_SIZE from rfl]
  by_cases hsz : ((sv == SigVersion.base || sv == SigVersion.witnessV0) && decide (p.length > MAX_SCRIPT_SIZE)) = true
  · simp [hsz, bind, Except.bind, throw, throwThe, MonadExceptOf.throw]
  · have hsz' : ((sv == SigVersion.base || sv == SigVersion.witnessV0) && decide (p.length > MAX_SCRIPT_SIZE)) = false := by
      cases h : ((sv == SigVersion.base || sv == SigVersion.witnessV0) && decide (p.length > MAX_SCRIPT_SIZE)) <;> simp_all
    simp only [hsz', Bool.false_eq_true, ↓reduceIte]
    have hR0 : Rel ⟨T.toOracles, tx, flags, sv, p⟩ { stack := stack, ed := { ed with codesepPos := 0xFFFFFFFF } }
        { stack := stack, code := p, weightLeft := ed.weightLeft } :=
      ⟨rfl, rfl, rfl, rfl, rfl, by simp, rfl, rfl⟩
    have hloop := evalLoop_agree T ⟨T.toOracles, tx, flags, sv, p⟩ rfl ed.tapleafHash ed.annexHash p.length p 0 _ _ hR0
      (by unfold ScriptSpec.parse at hall; exact hall)
    unfold specLoop at hloop
    unfold ScriptSpec.parse
    generalize evalLoop ⟨T.toOracles, tx, flags, sv, p⟩ p.length p 0 _ = X at hloop ⊢
    generalize ScriptSpec.parseAux p.length p = pr at hloop ⊢
    obtain ⟨instrs, bad⟩ := pr
    simp only at hloop ⊢
    generalize ScriptSpec.execInstrs _ instrs 0 _ = Y at hloop ⊢
    cases Y with
    | error e =>
      simp only [bind, Except.bind] at hloop ⊢
      cases hloop <;> simp [recoverPanic, Res.bind]
    | ok b =>
      cases bad with
      | true =>
        simp only [bind, Except.bind, ↓reduceIte, throw, throwThe, MonadExceptOf.throw] at hloop ⊢
        cases hloop <;> simp [recoverPanic, Res.bind]
      | false =>
        simp only [bind, Except.bind, Bool.false_eq_true, ↓reduceIte, pure, Except.pure] at hloop ⊢
        cases hloop with
        | ok hR =>
          rename_i a
          simp [recoverPanic, Res.bind, hR.exe, hR.cond, ScriptSpec.Cond.empty, hR.stack]

end GocoinV.Proofs.C01
