/-
  Proofs.C01Ops — per-opcode-group agreement of the model's `execOp` with the spec's `execOpcode` under the
  simulation relation `Rel` (stack shuffles, constants, VERIFY/RETURN/alt-stack/EQUAL/hashes, NOPs), and the
  lifting of the step simulation to the whole interpreter loop.
-/
import GocoinV.Proofs.C01Step
namespace GocoinV.Proofs.C01
open GocoinV GocoinV.Script

theorem shuffle_agree (T : TotalOracles) (c : Ctx) (leaf : Bytes) (annex : Option Bytes) (st : St) (s : ScriptSpec.State)
    (i : ScriptSpec.Instr) (idx pos : Nat) (hR : Rel c leaf annex st s) (hs : ScriptSpec.isShuffle i.op = true) :
    Agree c leaf annex (execOp c st i.op idx pos true) (ScriptSpec.execOpcode (envOf T c leaf annex) s i true pos) := by
  obtain ⟨h1, h2, h3, h5, h6, h7, h8, h9, h10, h11⟩ := hR
  obtain ⟨sstack, salt, scond, sop, scode, scsp, sw⟩ := s
  obtain ⟨stack, alt, exe, pbegin, opcnt, ed⟩ := st
  simp only at h1 h2 h3 h5 h6 h7 h8 h9 h10 h11
  subst h1 h2 h3 h5
  obtain ⟨iop, idata, iafter⟩ := i
  simp only [ScriptSpec.isShuffle, Bool.or_eq_true, beq_iff_eq] at hs
  rcases hs with ((((((((((((h|h)|h)|h)|h)|h)|h)|h)|h)|h)|h)|h)|h)|h <;> subst h <;>
    simp only [execOp, ScriptSpec.execOpcode, ScriptSpec.isShuffle, ScriptSpec.shuffle, bts2bool_eq] <;>
    rcases stack with _ | ⟨a, _ | ⟨b, _ | ⟨d, _ | ⟨e, _ | ⟨f, _ | ⟨g, r⟩⟩⟩⟩⟩⟩ <;>
    simp [agree_ok, agree_fail, throw, throwThe, MonadExceptOf.throw, pure, Except.pure] <;>
    (try (split <;> simp [agree_ok])) <;>
    exact ⟨rfl, rfl, rfl, rfl, h6, h7, h8, h9, h10, h11⟩

def isConstOp (op : Nat) : Bool := op == 0x4f || (0x51 ≤ op && op ≤ 0x60) || op == 0x61

theorem const_agree (T : TotalOracles) (c : Ctx) (leaf : Bytes) (annex : Option Bytes) (st : St) (s : ScriptSpec.State)
    (i : ScriptSpec.Instr) (idx pos : Nat) (hR : Rel c leaf annex st s) (hs : isConstOp i.op = true) :
    Agree c leaf annex (execOp c st i.op idx pos true) (ScriptSpec.execOpcode (envOf T c leaf annex) s i true pos) := by
  obtain ⟨h1, h2, h3, h5, h6, h7, h8, h9, h10, h11⟩ := hR
  obtain ⟨sstack, salt, scond, sop, scode, scsp, sw⟩ := s
  obtain ⟨stack, alt, exe, pbegin, opcnt, ed⟩ := st
  simp only at h1 h2 h3 h5 h6 h7 h8 h9 h10 h11
  subst h1 h2 h3 h5
  obtain ⟨iop, idata, iafter⟩ := i
  simp only [isConstOp, Bool.or_eq_true, beq_iff_eq, Bool.and_eq_true, decide_eq_true_eq] at hs
  rcases hs with (h | ⟨ha, hb'⟩) | h
  · subst h
    simp [execOp, ScriptSpec.execOpcode, agree_ok, pure, Except.pure, St.push, ScriptSpec.pushNum, ScriptSpec.push]
    refine ⟨?_, rfl, rfl, rfl, h6, h7, h8, h9, h10, h11⟩
    simp; decide
  · have e1 : (iop == 0x4f) = false := by simp; omega
    have e2 : (decide (iop ≥ 0x51) && decide (iop ≤ 0x60)) = true := by simp; omega
    have e3 : (iop == 0x4f || (decide (0x51 ≤ iop) && decide (iop ≤ 0x60))) = true := by simp; omega
    simp only [execOp, ScriptSpec.execOpcode, e1, e2, e3, Bool.false_eq_true, ↓reduceIte, agree_ok, pure, Except.pure, St.push,
      ScriptSpec.pushNum, ScriptSpec.push, Bool.false_or, Bool.or_true]
    refine ⟨?_, rfl, rfl, rfl, h6, h7, h8, h9, h10, h11⟩
    simp only [intBytes_eq_encode]
  · subst h
    simp [execOp, ScriptSpec.execOpcode, agree_ok, pure, Except.pure]
    exact ⟨rfl, rfl, rfl, rfl, h6, h7, h8, h9, h10, h11⟩

def isMiscOp (op : Nat) : Bool :=
  op == 0x69 || op == 0x6a || op == 0x6b || op == 0x6c || op == 0x87 || op == 0x88 ||
  op == 0xa6 || op == 0xa7 || op == 0xa8 || op == 0xa9 || op == 0xaa

theorem misc_agree (T : TotalOracles) (c : Ctx) (hO : c.O = T.toOracles) (leaf : Bytes) (annex : Option Bytes) (st : St) (s : ScriptSpec.State)
    (i : ScriptSpec.Instr) (idx pos : Nat) (hR : Rel c leaf annex st s) (hs : isMiscOp i.op = true) :
    Agree c leaf annex (execOp c st i.op idx pos true) (ScriptSpec.execOpcode (envOf T c leaf annex) s i true pos) := by
  obtain ⟨h1, h2, h3, h5, h6, h7, h8, h9, h10, h11⟩ := hR
  obtain ⟨sstack, salt, scond, sop, scode, scsp, sw⟩ := s
  obtain ⟨stack, alt, exe, pbegin, opcnt, ed⟩ := st
  simp only at h1 h2 h3 h5 h6 h7 h8 h9 h10 h11
  subst h1 h2 h3 h5
  obtain ⟨iop, idata, iafter⟩ := i
  simp only [isMiscOp, Bool.or_eq_true, beq_iff_eq] at hs
  rcases hs with (((((((((h|h)|h)|h)|h)|h)|h)|h)|h)|h)|h <;> subst h <;>
    simp only [execOp, ScriptSpec.execOpcode, ScriptSpec.isShuffle, ScriptSpec.opVerify, ScriptSpec.opEqual, ScriptSpec.opHash,
      ScriptSpec.isUnaryNum, ScriptSpec.isBinaryNum, ScriptSpec.pop1, ScriptSpec.push, hashOp, bts2bool_eq, hO, envOf_O, isBinArith] <;>
    rcases stack with _ | ⟨a, _ | ⟨b, r⟩⟩ <;> rcases alt with _ | ⟨x, ar⟩ <;>
    simp [agree_ok, agree_fail, throw, throwThe, MonadExceptOf.throw, pure, Except.pure, bind, Except.bind, boolBytes, ScriptSpec.ofBool,
      ScriptSpec.vchTrue, ScriptSpec.vchFalse, TotalOracles.toOracles] <;>
    (try (cases hcb : ScriptSpec.castToBool a <;> simp [hcb, agree_ok, agree_fail])) <;>
    (try (by_cases hab : a = b <;> simp [hab, agree_ok, agree_fail])) <;>
    (try exact ⟨rfl, rfl, rfl, rfl, h6, h7, h8, h9, h10, h11⟩)

def isNopOp (op : Nat) : Bool :=
  op == 0xb0 || op == 0xb3 || op == 0xb4 || op == 0xb5 || op == 0xb6 || op == 0xb7 || op == 0xb8 || op == 0xb9

theorem nop_agree (T : TotalOracles) (c : Ctx) (leaf : Bytes) (annex : Option Bytes) (st : St) (s : ScriptSpec.State)
    (i : ScriptSpec.Instr) (idx pos : Nat) (hR : Rel c leaf annex st s) (hs : isNopOp i.op = true) :
    Agree c leaf annex (execOp c st i.op idx pos true) (ScriptSpec.execOpcode (envOf T c leaf annex) s i true pos) := by
  obtain ⟨h1, h2, h3, h5, h6, h7, h8, h9, h10, h11⟩ := hR
  obtain ⟨sstack, salt, scond, sop, scode, scsp, sw⟩ := s
  obtain ⟨stack, alt, exe, pbegin, opcnt, ed⟩ := st
  simp only at h1 h2 h3 h5 h6 h7 h8 h9 h10 h11
  subst h1 h2 h3 h5
  obtain ⟨iop, idata, iafter⟩ := i
  simp only [isNopOp, Bool.or_eq_true, beq_iff_eq] at hs
  rcases hs with ((((((h|h)|h)|h)|h)|h)|h)|h <;> subst h <;>
    simp only [execOp, ScriptSpec.execOpcode, isBinArith, envOf_f, ← flag_nops] <;>
    cases hf : has c.flags VER_BLOCK_OPS <;>
    simp [hf, agree_ok, agree_fail, throw, throwThe, MonadExceptOf.throw, pure, Except.pure] <;>
    exact ⟨rfl, rfl, rfl, rfl, h6, h7, h8, h9, h10, h11⟩

end GocoinV.Proofs.C01
