/-
  Proofs.C17 — helper lemmas for Props/C17.lean (balance index = projection of the UTXO set).
  Core Lean only.
-/
import GocoinV.Spec.Balances
namespace GocoinV.Proofs.C17
open GocoinV.Model.Balances

/-! ### association lists -/

theorem aget_adel {κ β : Type} [DecidableEq κ] (k k' : κ) (l : List (κ × β)) :
    aget k' (adel k l) = if k' = k then none else aget k' l := by
  induction l with
  | nil => simp [adel, aget]
  | cons p t ih =>
    simp only [adel] at ih ⊢
    by_cases hp : p.1 = k
    · simp only [List.filter, hp, ne_eq, not_true_eq_false, decide_false]
      rw [ih]
      by_cases hk : k' = k
      · simp [hk]
      · simp only [hk, if_false, aget, hp]
        have : ¬ k = k' := fun h => hk h.symm
        simp [this]
    · simp only [List.filter, hp, ne_eq, not_false_eq_true, decide_true, aget]
      rw [ih]
      by_cases hk : k' = k
      · subst hk; simp [hp]
      · simp [hk]

theorem aget_aset {κ β : Type} [DecidableEq κ] (k k' : κ) (v : β) (l : List (κ × β)) :
    aget k' (aset k v l) = if k' = k then some v else aget k' l := by
  simp only [aset, aget]
  by_cases hk : k' = k
  · subst hk; simp
  · have : ¬ k = k' := fun h => hk h.symm
    simp [hk, this, aget_adel]

theorem aget_none_ne {κ β : Type} [DecidableEq κ] (k : κ) (l : List (κ × β)) (h : aget k l = none) :
    ∀ q ∈ l, q.1 ≠ k := by
  induction l with
  | nil => intro q hq; cases hq
  | cons p t ih =>
    intro q hq
    simp only [aget] at h
    by_cases hp : p.1 = k
    · simp [hp] at h
    · simp only [hp, if_false] at h
      cases hq with
      | head => exact hp
      | tail _ hq => exact ih h q hq

theorem aget_mem {κ β : Type} [DecidableEq κ] (k : κ) (v : β) (l : List (κ × β)) (h : aget k l = some v) :
    (k, v) ∈ l := by
  induction l with
  | nil => simp [aget] at h
  | cons p t ih =>
    simp only [aget] at h
    by_cases hp : p.1 = k
    · simp only [hp, if_true, Option.some.injEq] at h
      have : p = (k, v) := by cases p; simp_all
      simp [this]
    · simp only [hp, if_false] at h
      exact List.mem_cons_of_mem _ (ih h)

/-! ### coins (the abstraction `abs : UtxoDB → OutPoint ⇀ Coin`) and the relation index ~ coins -/

abbrev Coins := Inp → Option Out

def coinsOf (u : Utxo) : Coins := fun i =>
  match aget i.1 u with
  | some r => outAt r.outs i.2
  | none => none

def updC (C : Coins) (inp : Inp) (x : Option Out) : Coins := fun i => if i = inp then x else C i

/-- output `o` belongs in the index under key `K` -/
def qual (cfg : Cfg) (H : Bytes → Nat) (o : Out) (K : AKey) : Prop :=
  cfg.min ≤ o.value ∧ script2idx H o.script = some K

def valC (C : Coins) (i : Inp) : Nat :=
  match C i with
  | some o => o.value
  | none => 0

def RelK (cfg : Cfg) (H : Bytes → Nat) (ob : Option Bal) (C : Coins) (K : AKey) : Prop :=
  match ob with
  | none => ∀ inp o, C inp = some o → ¬ qual cfg H o K
  | some b => b.unsp.Nodup ∧ b.unsp ≠ [] ∧ (∀ inp, inp ∈ b.unsp ↔ ∃ o, C inp = some o ∧ qual cfg H o K) ∧
      b.value = ((b.unsp.map (valC C)).sum) % M64

/-- the index `bal` is exactly the projection of the coin set `C` -/
def Rel (cfg : Cfg) (H : Bytes → Nat) (bal : BalMap) (C : Coins) : Prop := ∀ K, RelK cfg H (aget K bal) C K

theorem rel_congr {cfg : Cfg} {H : Bytes → Nat} {bal : BalMap} {C C' : Coins} (h : ∀ i, C i = C' i) :
    Rel cfg H bal C → Rel cfg H bal C' := by
  have : C = C' := funext h
  subst this; exact id

theorem qual_unique {cfg : Cfg} {H : Bytes → Nat} {o : Out} {K K' : AKey} (h : qual cfg H o K) (h' : qual cfg H o K') : K = K' := by
  have := h.2.symm.trans h'.2
  simpa using this

theorem map_valC_congr (C C' : Coins) (l : List Inp) (h : ∀ i ∈ l, C i = C' i) :
    l.map (valC C) = l.map (valC C') := by
  apply List.map_congr_left
  intro i hi
  simp only [valC, h i hi]

/-- changing a coin that does not (before or after) belong under `K` leaves the relation at `K` intact -/
theorem relK_updC_irrelevant {cfg : Cfg} {H : Bytes → Nat} {ob : Option Bal} {C : Coins} {K : AKey} {inp : Inp} {x : Option Out}
    (h : RelK cfg H ob C K) (h1 : ∀ o, C inp = some o → ¬ qual cfg H o K) (h2 : ∀ o, x = some o → ¬ qual cfg H o K) :
    RelK cfg H ob (updC C inp x) K := by
  cases ob with
  | none =>
    intro i o hi
    simp only [updC] at hi
    by_cases e : i = inp
    · simp only [e, if_true] at hi; exact h2 o hi
    · simp only [e, if_false] at hi; exact h i o hi
  | some b =>
    obtain ⟨hn, hne, hiff, hv⟩ := h
    have hnot : inp ∉ b.unsp := by
      intro hm
      obtain ⟨o, ho, hq⟩ := (hiff inp).1 hm
      exact h1 o ho hq
    refine ⟨hn, hne, ?_, ?_⟩
    · intro i
      by_cases e : i = inp
      · subst e
        constructor
        · intro hm; exact absurd hm hnot
        · rintro ⟨o, ho, hq⟩
          simp only [updC, if_true] at ho
          exact absurd hq (h2 o ho)
      · simp only [updC, e, if_false]; exact hiff i
    · rw [hv]
      congr 2
      apply map_valC_congr
      intro i hi
      have : i ≠ inp := fun e => hnot (e ▸ hi)
      simp [updC, this]

theorem rel_updC_noqual {cfg : Cfg} {H : Bytes → Nat} {bal : BalMap} {C : Coins} {inp : Inp} {x : Option Out}
    (h : Rel cfg H bal C) (h1 : ∀ K o, C inp = some o → ¬ qual cfg H o K) (h2 : ∀ K o, x = some o → ¬ qual cfg H o K) :
    Rel cfg H bal (updC C inp x) :=
  fun K => relK_updC_irrelevant (h K) (h1 K) (h2 K)

/-! ### NewUTXO, one output -/

theorem mapIns_not_mem {x : Inp} {l : List Inp} (h : x ∉ l) : mapIns x l = l ++ [x] := by
  simp [mapIns, h]

theorem foldl_mapIns (acc l : List Inp) (h : (acc ++ l).Nodup) :
    l.foldl (fun m x => mapIns x m) acc = acc ++ l := by
  induction l generalizing acc with
  | nil => simp
  | cons x t ih =>
    have hx : x ∉ acc := by
      intro hm
      have := List.nodup_append.1 h
      exact this.2.2 x hm x (List.mem_cons_self) rfl
    simp only [List.foldl_cons, mapIns_not_mem hx]
    have h' : ((acc ++ [x]) ++ t).Nodup := by simpa [List.append_assoc] using h
    rw [ih _ h']
    simp [List.append_assoc]

theorem mapOfList_nodup {l : List Inp} (h : l.Nodup) : mapOfList l = l := by
  have := foldl_mapIns [] l (by simpa using h)
  simpa [mapOfList] using this

theorem sum_append_single (l : List Nat) (x : Nat) : (l ++ [x]).sum = l.sum + x := by
  simp [List.sum_append]

/-- facts about the record found (or the fresh one created) at `K` -/
theorem relK_getD {cfg : Cfg} {H : Bytes → Nat} {ob : Option Bal} {C : Coins} {K : AKey} (h : RelK cfg H ob C K) :
    let b0 := ob.getD { value := 0, unsp := [], isMap := false }
    b0.unsp.Nodup ∧ (∀ inp, inp ∈ b0.unsp ↔ ∃ o, C inp = some o ∧ qual cfg H o K) ∧
      b0.value = ((b0.unsp.map (valC C)).sum) % M64 := by
  cases ob with
  | none =>
    refine ⟨by simp, ?_, by simp⟩
    intro inp
    constructor
    · intro hm; simp at hm
    · rintro ⟨o, ho, hq⟩; exact absurd hq (h inp o ho)
  | some b => exact ⟨h.1, h.2.2.1, h.2.2.2⟩

theorem relK_new {cfg : Cfg} {H : Bytes → Nat} {C : Coins} {K : AKey} {inp : Inp} {o : Out} {b0 : Bal} {m : Bool}
    (hn : b0.unsp.Nodup) (hiff : ∀ i, i ∈ b0.unsp ↔ ∃ o, C i = some o ∧ qual cfg H o K)
    (hv : b0.value = ((b0.unsp.map (valC C)).sum) % M64) (hC : C inp = none) (hq : qual cfg H o K) :
    RelK cfg H (some { value := (b0.value + o.value) % M64, unsp := b0.unsp ++ [inp], isMap := m }) (updC C inp (some o)) K := by
  have hnot : inp ∉ b0.unsp := by
    intro hm
    obtain ⟨o', ho', _⟩ := (hiff inp).1 hm
    rw [hC] at ho'; cases ho'
  refine ⟨?_, by simp, ?_, ?_⟩
  · apply List.nodup_append.2
    refine ⟨hn, by simp, ?_⟩
    intro a ha b hb
    simp only [List.mem_singleton] at hb
    intro e; subst e; subst hb; exact hnot ha
  · intro i
    by_cases e : i = inp
    · subst e
      simp only [List.mem_append, List.mem_singleton, or_true, updC, if_true, true_iff]
      exact ⟨o, rfl, hq⟩
    · simp only [List.mem_append, List.mem_singleton, e, or_false, updC, if_false]
      exact hiff i
  · simp only [List.map_append, List.map_cons, List.map_nil]
    rw [sum_append_single]
    have h1 : b0.unsp.map (valC (updC C inp (some o))) = b0.unsp.map (valC C) := by
      apply map_valC_congr
      intro i hi
      have : i ≠ inp := fun e => hnot (e ▸ hi)
      simp [updC, this]
    have h2 : valC (updC C inp (some o)) inp = o.value := by simp [valC, updC]
    rw [h1, h2, hv]
    simp only [M64]
    omega

/-- **add_preserves** (one output): NewUTXO's loop body keeps the index equal to the projection -/
theorem addOne_rel {cfg : Cfg} {H : Bytes → Nat} {bal : BalMap} {C : Coins} {K : AKey} {inp : Inp} {o : Out}
    (h : Rel cfg H bal C) (hC : C inp = none) (hq : qual cfg H o K) :
    Rel cfg H (addOne cfg bal K inp o.value) (updC C inp (some o)) := by
  intro K'
  by_cases e : K' = K
  · subst e
    obtain ⟨hn, hiff, hv⟩ := relK_getD (h K')
    have hnot : inp ∉ ((aget K' bal).getD { value := 0, unsp := [], isMap := false }).unsp := by
      intro hm
      obtain ⟨o', ho', _⟩ := (hiff inp).1 hm
      rw [hC] at ho'; cases ho'
    unfold addOne
    simp only []
    split
    · rw [aget_aset]; simp only [if_true]
      rw [mapIns_not_mem hnot]
      exact relK_new hn hiff hv hC hq
    · split
      · rw [aget_aset]; simp only [if_true]
        rw [mapOfList_nodup hn, mapIns_not_mem hnot]
        exact relK_new hn hiff hv hC hq
      · rw [aget_aset]; simp only [if_true]
        exact relK_new hn hiff hv hC hq
  · have hK : RelK cfg H (aget K' bal) (updC C inp (some o)) K' := by
      apply relK_updC_irrelevant (h K')
      · intro o' ho'; rw [hC] at ho'; cases ho'
      · intro o' ho' hq'
        cases ho'
        exact e (qual_unique hq' hq)
    unfold addOne
    simp only []
    split
    · rw [aget_aset]; simp only [e, if_false]; exact hK
    · split
      · rw [aget_aset]; simp only [e, if_false]; exact hK
      · rw [aget_aset]; simp only [e, if_false]; exact hK

/-! ### all_del_utxos, one output -/

theorem sum_map_erase (f : Inp → Nat) (l : List Inp) (x : Inp) (h : x ∈ l) :
    (l.map f).sum = f x + ((l.erase x).map f).sum := by
  induction l with
  | nil => cases h
  | cons a t ih =>
    by_cases e : a = x
    · subst e; simp
    · have hx : x ∈ t := by
        cases h with
        | head => exact absurd rfl e
        | tail _ h => exact h
      have : (a :: t).erase x = a :: t.erase x := by
        simp [e]
      rw [this]
      simp only [List.map_cons, List.sum_cons, ih hx]
      omega

/-- what remains at `K` after the entry `inp` was cut out of a record with more than one entry -/
theorem relK_erase {cfg : Cfg} {H : Bytes → Nat} {C : Coins} {K : AKey} {inp : Inp} {o : Out} {b : Bal} {m : Bool}
    (hb : RelK cfg H (some b) C K) (hC : C inp = some o) (hin : inp ∈ b.unsp) (hne : b.unsp.erase inp ≠ []) :
    RelK cfg H (some { value := (b.value + M64 - o.value % M64) % M64, unsp := b.unsp.erase inp, isMap := m }) (updC C inp none) K := by
  obtain ⟨hn, _, hiff, hv⟩ := hb
  refine ⟨hn.erase inp, hne, ?_, ?_⟩
  · intro i
    rw [hn.mem_erase_iff]
    by_cases e : i = inp
    · subst e; simp [updC]
    · simp only [ne_eq, e, not_false_eq_true, true_and, updC, if_false]; exact hiff i
  · have h1 : (b.unsp.erase inp).map (valC (updC C inp none)) = (b.unsp.erase inp).map (valC C) := by
      apply map_valC_congr
      intro i hi
      have : i ≠ inp := fun e => by
        subst e
        exact (hn.mem_erase_iff.1 hi).1 rfl
      simp [updC, this]
    have h2 := sum_map_erase (valC C) b.unsp inp hin
    have h3 : valC C inp = o.value := by simp [valC, hC]
    rw [h1, hv, h2, h3]
    simp only [M64]
    omega

/-- the record at `K` disappears when its only entry is removed -/
theorem relK_gone {cfg : Cfg} {H : Bytes → Nat} {C : Coins} {K : AKey} {inp : Inp} {b : Bal}
    (hb : RelK cfg H (some b) C K) (he : b.unsp.erase inp = []) :
    RelK cfg H none (updC C inp none) K := by
  obtain ⟨hn, _, hiff, _⟩ := hb
  intro i o hi hq
  simp only [updC] at hi
  by_cases e : i = inp
  · simp [e] at hi
  · simp only [e, if_false] at hi
    have hm : i ∈ b.unsp := (hiff i).2 ⟨o, hi, hq⟩
    have : i ∈ b.unsp.erase inp := hn.mem_erase_iff.2 ⟨e, hm⟩
    rw [he] at this; cases this

/-- **del_preserves** (one output): all_del_utxos' loop body keeps the index equal to the projection -/
theorem delOne_rel {cfg : Cfg} {H : Bytes → Nat} {bal : BalMap} {C : Coins} {K : AKey} {inp : Inp} {o : Out}
    (h : Rel cfg H bal C) (hC : C inp = some o) (hq : qual cfg H o K) :
    Rel cfg H (delOne bal K inp o.value) (updC C inp none) := by
  have hKb := h K
  cases hb : aget K bal with
  | none =>
    rw [hb] at hKb
    exact absurd hq (hKb inp o hC)
  | some b =>
    rw [hb] at hKb
    have hin : inp ∈ b.unsp := (hKb.2.2.1 inp).2 ⟨o, hC, hq⟩
    have hother : ∀ K', K' ≠ K → RelK cfg H (aget K' bal) (updC C inp none) K' := by
      intro K' e
      apply relK_updC_irrelevant (h K')
      · intro o' ho' hq'
        rw [hC] at ho'; cases ho'
        exact e (qual_unique hq' hq)
      · intro o' ho'; cases ho'
    have hlen : (b.unsp.erase inp).length = b.unsp.length - 1 := List.length_erase_of_mem hin
    intro K'
    unfold delOne
    simp only [hb]
    by_cases e : K' = K
    · subst e
      split
      · split
        · rename_i h0
          rw [aget_adel]; simp only [if_true]
          exact relK_gone hKb (List.eq_nil_of_length_eq_zero h0)
        · rename_i h0
          rw [aget_aset]; simp only [if_true]
          exact relK_erase hKb hC hin (fun hnil => h0 (by simp [hnil]))
      · split
        · rename_i h1
          rw [aget_adel]; simp only [if_true]
          exact relK_gone hKb (List.eq_nil_of_length_eq_zero (by omega))
        · rename_i h1
          rw [aget_aset]; simp only [if_true]
          apply relK_erase hKb hC hin
          intro hnil
          have : (b.unsp.erase inp).length = 0 := by simp [hnil]
          have hpos : 0 < b.unsp.length := List.length_pos_of_mem hin
          omega
    · have hK := hother K' e
      split
      · split
        · rw [aget_adel]; simp only [e, if_false]; exact hK
        · rw [aget_aset]; simp only [e, if_false]; exact hK
      · split
        · rw [aget_adel]; simp only [e, if_false]; exact hK
        · rw [aget_aset]; simp only [e, if_false]; exact hK

/-! ### NewUTXO / all_del_utxos over a whole record -/

@[simp] theorem outAt_nil (n : Nat) : outAt [] n = none := by simp [outAt]
@[simp] theorem outAt_cons_zero (o : Option Out) (t : List (Option Out)) : outAt (o :: t) 0 = o := by
  cases o <;> simp [outAt]
@[simp] theorem outAt_cons_succ (o : Option Out) (t : List (Option Out)) (n : Nat) : outAt (o :: t) (n + 1) = outAt t n := by
  simp [outAt]

/-- the coins after the outputs `outs` (positions counted from `j`) of transaction `key` were laid over `C` -/
def overlay (C : Coins) (key : Key) (outs : List (Option Out)) (j : Nat) : Coins := fun i =>
  if i.1 = key ∧ j ≤ i.2 then
    (match outAt outs (i.2 - j) with
     | some o => some o
     | none => C i)
  else C i

theorem addStep_rel {cfg : Cfg} {H : Bytes → Nat} {bal : BalMap} {C : Coins} {key : Key} {j : Nat} {o : Out}
    (h : Rel cfg H bal C) (hC : C (key, j) = none) :
    Rel cfg H (addStep cfg H key bal (some o) j) (updC C (key, j) (some o)) := by
  unfold addStep
  simp only []
  split
  · rename_i hlt
    apply rel_updC_noqual h
    · intro K o' ho'; rw [hC] at ho'; cases ho'
    · intro K o' ho' hq; cases ho'; exact absurd hq.1 (by omega)
  · split
    · rename_i hs
      apply rel_updC_noqual h
      · intro K o' ho'; rw [hC] at ho'; cases ho'
      · intro K o' ho' hq; cases ho'; have h2 := hq.2; rw [hs] at h2; cases h2
    · rename_i K hs
      exact addOne_rel h hC ⟨by omega, hs⟩

/-- **add_preserves**: NewUTXO on a record whose non-nil outputs are not yet in the coin set -/
theorem addOuts_rel {cfg : Cfg} {H : Bytes → Nat} {key : Key} (outs : List (Option Out)) :
    ∀ (j : Nat) (bal : BalMap) (C : Coins), Rel cfg H bal C →
      (∀ i o, outAt outs i = some o → C (key, j + i) = none) →
      Rel cfg H (addOuts cfg H key outs j bal) (overlay C key outs j) := by
  induction outs with
  | nil =>
    intro j bal C h _
    simp only [addOuts]
    apply rel_congr _ h
    intro i; simp [overlay]
  | cons o rest ih =>
    intro j bal C h hfresh
    simp only [addOuts]
    cases o with
    | none =>
      have hstep : addStep cfg H key bal none j = bal := rfl
      rw [hstep]
      have := ih (j + 1) bal C h (by
        intro i o' hi
        have := hfresh (i + 1) o' (by simpa using hi)
        simpa [Nat.add_assoc, Nat.add_comm 1 i] using this)
      apply rel_congr _ this
      intro i
      simp only [overlay]
      by_cases hk : i.1 = key
      · by_cases h1 : j + 1 ≤ i.2
        · have h2 : j ≤ i.2 := by omega
          have h3 : i.2 - j = (i.2 - (j + 1)) + 1 := by omega
          simp only [hk, h1, h2, and_self, if_true, h3, outAt_cons_succ]
        · by_cases h2 : j ≤ i.2
          · have h3 : i.2 - j = 0 := by omega
            simp [hk, h1, h2, h3]
          · simp [hk, h1, h2]
      · simp [hk]
    | some x =>
      have hC : C (key, j) = none := by simpa using hfresh 0 x (by simp)
      have h1 := addStep_rel (cfg := cfg) (H := H) (o := x) h hC
      have := ih (j + 1) _ _ h1 (by
        intro i o' hi
        have hh := hfresh (i + 1) o' (by simpa using hi)
        have hne : ((key, j + 1 + i) : Inp) ≠ (key, j) := by
          intro e; have := congrArg Prod.snd e; simp at this; omega
        simp only [updC, hne, if_false]
        simpa [Nat.add_assoc, Nat.add_comm 1 i] using hh)
      apply rel_congr _ this
      intro i
      simp only [overlay]
      by_cases hk : i.1 = key
      · by_cases h1 : j + 1 ≤ i.2
        · have h2 : j ≤ i.2 := by omega
          have h3 : i.2 - j = (i.2 - (j + 1)) + 1 := by omega
          have hne : i ≠ (key, j) := by
            intro e; rw [e] at h1; simp at h1; omega
          simp only [hk, h1, h2, and_self, if_true, h3, outAt_cons_succ, updC, hne, if_false]
        · by_cases h2 : j ≤ i.2
          · have h3 : i.2 - j = 0 := by omega
            have he : i = (key, j) := by
              cases i with
              | mk a b => simp at hk h1 h2 h3 ⊢; exact ⟨hk, by omega⟩
            subst he
            simp [updC] <;> (intro hh; omega)
          · have hne : i ≠ (key, j) := by
              intro e; rw [e] at h2; simp at h2
            simp [hk, h1, h2, updC, hne]
      · have hne : i ≠ (key, j) := by
          intro e; rw [e] at hk; simp at hk
        simp [hk, updC, hne]

/-- the coins after the masked outputs (positions ≥ `j`) of transaction `key` were removed from `C` -/
def unlay (C : Coins) (key : Key) (mask : List Bool) (j : Nat) : Coins := fun i =>
  if i.1 = key ∧ j ≤ i.2 ∧ mask.getD i.2 false = true then none else C i

theorem delStep_rel {cfg : Cfg} {H : Bytes → Nat} {bal : BalMap} {C : Coins} {key : Key} {mask : List Bool} {j : Nat} {o : Out}
    (h : Rel cfg H bal C) (hC : C (key, j) = some o) (hm : mask.getD j false = true) :
    Rel cfg H (delStep cfg H key mask bal (some o) j) (updC C (key, j) none) := by
  unfold delStep
  simp only [hm]
  split
  · rename_i hf; cases hf
  · split
    · rename_i hlt
      apply rel_updC_noqual h
      · intro K o' ho' hq; rw [hC] at ho'; cases ho'; exact absurd hq.1 (by omega)
      · intro K o' ho'; cases ho'
    · split
      · rename_i hs
        apply rel_updC_noqual h
        · intro K o' ho' hq; rw [hC] at ho'; cases ho'; have h2 := hq.2; rw [hs] at h2; cases h2
        · intro K o' ho'; cases ho'
      · rename_i K hs
        exact delOne_rel h hC ⟨by omega, hs⟩

/-- **del_preserves**: all_del_utxos on the stored record of `key` with a mask -/
theorem delOuts_rel {cfg : Cfg} {H : Bytes → Nat} {key : Key} {mask : List Bool} (outs : List (Option Out)) :
    ∀ (j : Nat) (bal : BalMap) (C : Coins), Rel cfg H bal C →
      (∀ i, C (key, j + i) = outAt outs i) →
      Rel cfg H (delOuts cfg H key mask outs j bal) (unlay C key mask j) ∧
      (∀ i, j + outs.length ≤ i → mask.getD i false = true → C (key, i) = none) := by
  induction outs with
  | nil =>
    intro j bal C h hagree
    have hz : ∀ i, j ≤ i → C (key, i) = none := by
      intro i hi
      have := hagree (i - j)
      simpa [show j + (i - j) = i by omega] using this
    refine ⟨?_, fun i hi _ => hz i (by simpa using hi)⟩
    simp only [delOuts]
    apply rel_congr _ h
    intro i
    simp only [unlay]
    by_cases hc : i.1 = key ∧ j ≤ i.2 ∧ mask.getD i.2 false = true
    · simp only [hc, and_self, if_true]
      have := hz i.2 hc.2.1
      rw [← hc.1] at this
      exact this
    · rw [if_neg hc]
  | cons o rest ih =>
    intro j bal C h hagree
    simp only [delOuts]
    have h0 : C (key, j) = o := by simpa using hagree 0
    -- the coin function after this step
    by_cases hdo : (∃ x, o = some x) ∧ mask.getD j false = true
    · obtain ⟨⟨x, hx⟩, hm⟩ := hdo
      subst hx
      have h1 := delStep_rel (cfg := cfg) (H := H) h h0 hm
      have hagree' : ∀ i, updC C (key, j) none (key, j + 1 + i) = outAt rest i := by
        intro i
        have hne : ((key, j + 1 + i) : Inp) ≠ (key, j) := by
          intro e; have := congrArg Prod.snd e; simp at this; omega
        simp only [updC, hne, if_false]
        have := hagree (i + 1)
        simpa [Nat.add_assoc, Nat.add_comm 1 i] using this
      obtain ⟨hr, hz⟩ := ih (j + 1) _ _ h1 hagree'
      refine ⟨?_, ?_⟩
      · apply rel_congr _ hr
        intro i
        simp only [unlay]
        by_cases hk : i.1 = key
        · by_cases h1 : j + 1 ≤ i.2
          · have hne : i ≠ (key, j) := by
              intro e; rw [e] at h1; simp at h1; omega
            have h2 : j ≤ i.2 := by omega
            simp [hk, h1, h2, updC, hne]
          · by_cases h2 : j ≤ i.2
            · have he : i = (key, j) := by
                cases i with
                | mk a b => simp at hk h1 h2 ⊢; exact ⟨hk, by omega⟩
              subst he
              rw [if_neg (fun hh => Nat.not_succ_le_self j hh.2.1), if_pos ⟨rfl, Nat.le_refl _, hm⟩]
              simp [updC]
            · have hne : i ≠ (key, j) := by
                intro e; rw [e] at h2; simp at h2
              simp [hk, h1, h2, updC, hne]
        · have hne : i ≠ (key, j) := by
            intro e; rw [e] at hk; simp at hk
          simp [hk, updC, hne]
      · intro i hi hmi
        have hne : ((key, i) : Inp) ≠ (key, j) := by
          intro e; have := congrArg Prod.snd e; simp at this; simp at hi; omega
        have := hz i (by simp at hi ⊢; omega) hmi
        simpa [updC, hne] using this
    · have hstep : delStep cfg H key mask bal o j = bal := by
        unfold delStep
        cases o with
        | none => rfl
        | some x =>
          have : mask.getD j false = false := by
            cases hg : mask.getD j false with
            | false => rfl
            | true => exact absurd ⟨⟨x, rfl⟩, hg⟩ hdo
          show (if mask.getD j false = false then bal else _) = bal
          rw [if_pos this]
      rw [hstep]
      have hagree' : ∀ i, C (key, j + 1 + i) = outAt rest i := by
        intro i
        have := hagree (i + 1)
        simpa [Nat.add_assoc, Nat.add_comm 1 i] using this
      obtain ⟨hr, hz⟩ := ih (j + 1) bal C h hagree'
      refine ⟨?_, ?_⟩
      · apply rel_congr _ hr
        intro i
        simp only [unlay]
        by_cases hk : i.1 = key
        · by_cases h1 : j + 1 ≤ i.2
          · have h2 : j ≤ i.2 := by omega
            simp [hk, h1, h2]
          · by_cases h2 : j ≤ i.2
            · have he : i = (key, j) := by
                cases i with
                | mk a b => simp at hk h1 h2 ⊢; exact ⟨hk, by omega⟩
              subst he
              by_cases hm : mask.getD j false = true
              · have : o = none := by
                  cases o with
                  | none => rfl
                  | some x => exact absurd ⟨⟨x, rfl⟩, hm⟩ hdo
                rw [if_neg (fun hh => Nat.not_succ_le_self j hh.2.1), if_pos ⟨rfl, Nat.le_refl _, hm⟩, h0, this]
              · rw [if_neg (fun hh => Nat.not_succ_le_self j hh.2.1), if_neg (fun hh => hm hh.2.2)]
            · simp [hk, h1, h2]
        · simp [hk]
      · intro i hi hmi
        exact hz i (by simp at hi ⊢; omega) hmi

/-! ### the UTXO map: well-formedness and how each step changes the coins -/

def NoDupKeys : Utxo → Prop
  | [] => True
  | p :: t => aget p.1 t = none ∧ NoDupKeys t

def KeysOK (u : Utxo) : Prop := ∀ p ∈ u, p.2.key = p.1

/-- every key occurs once and is the 8-byte prefix of the stored record's txid -/
def UtxoWF (u : Utxo) : Prop := NoDupKeys u ∧ KeysOK u

theorem adel_cons (k : Key) (p : Key × Rec) (t : Utxo) :
    adel k (p :: t) = if p.1 = k then adel k t else p :: adel k t := by
  by_cases h : p.1 = k <;> simp [adel, List.filter, h]

theorem noDup_adel (k : Key) (u : Utxo) (h : NoDupKeys u) : NoDupKeys (adel k u) := by
  induction u with
  | nil => simp [adel, NoDupKeys]
  | cons p t ih =>
    rw [adel_cons]
    by_cases hp : p.1 = k
    · simp only [hp, if_true]; exact ih h.2
    · simp only [hp, if_false, NoDupKeys]
      refine ⟨?_, ih h.2⟩
      rw [aget_adel]; simp [hp, h.1]

theorem mem_adel {k : Key} {u : Utxo} {p : Key × Rec} (h : p ∈ adel k u) : p ∈ u := by
  simp only [adel, List.mem_filter] at h; exact h.1

theorem wf_adel {k : Key} {u : Utxo} (h : UtxoWF u) : UtxoWF (adel k u) :=
  ⟨noDup_adel k u h.1, fun p hp => h.2 p (mem_adel hp)⟩

theorem wf_aset {k : Key} {v : Rec} {u : Utxo} (h : UtxoWF u) (hk : v.key = k) : UtxoWF (aset k v u) := by
  refine ⟨⟨?_, noDup_adel k u h.1⟩, ?_⟩
  · show aget k (adel k u) = none
    rw [aget_adel]; simp
  · intro p hp
    simp only [aset, List.mem_cons] at hp
    cases hp with
    | inl e => subst e; exact hk
    | inr hp => exact h.2 p (mem_adel hp)

theorem keysOK_aget {u : Utxo} {k : Key} {r : Rec} (h : KeysOK u) (hg : aget k u = some r) : r.key = k :=
  h (k, r) (aget_mem k r u hg)

theorem coinsOf_aset (u : Utxo) (k : Key) (r : Rec) (i : Inp) :
    coinsOf (aset k r u) i = if i.1 = k then outAt r.outs i.2 else coinsOf u i := by
  simp only [coinsOf, aget_aset]
  by_cases h : i.1 = k <;> simp [h]

theorem coinsOf_adel (u : Utxo) (k : Key) (i : Inp) :
    coinsOf (adel k u) i = if i.1 = k then none else coinsOf u i := by
  simp only [coinsOf, aget_adel]
  by_cases h : i.1 = k <;> simp [h]

theorem coinsOf_of_aget {u : Utxo} {k : Key} {r : Rec} (h : aget k u = some r) (n : Nat) :
    coinsOf u (k, n) = outAt r.outs n := by
  simp [coinsOf, h]

theorem coinsOf_of_none {u : Utxo} {k : Key} (h : aget k u = none) (n : Nat) : coinsOf u (k, n) = none := by
  simp [coinsOf, h]

theorem outAt_mergeOuts (a : List (Option Out)) : ∀ (b : List (Option Out)) (j : Nat), b.length ≤ a.length →
    outAt (mergeOuts a b) j = (match outAt a j with | some o => some o | none => outAt b j) := by
  induction a with
  | nil =>
    intro b j hb
    have : b = [] := List.eq_nil_of_length_eq_zero (by simpa using hb)
    subst this; simp [mergeOuts]
  | cons x t ih =>
    intro b j hb
    cases b with
    | nil =>
      cases j with
      | zero => cases x <;> simp [mergeOuts]
      | succ n =>
        simp only [mergeOuts, outAt_cons_succ, List.tail_nil]
        have := ih [] n (by simp)
        simpa using this
    | cons y b' =>
      cases j with
      | zero => cases x <;> simp [mergeOuts]
      | succ n =>
        simp only [mergeOuts, outAt_cons_succ, List.tail_cons]
        exact ih b' n (by simpa using hb)

theorem outAt_maskOuts (mask : List Bool) (outs : List (Option Out)) : ∀ (j n : Nat),
    outAt (maskOuts outs j mask) n = if mask.getD (j + n) false = true then none else outAt outs n := by
  induction outs with
  | nil => intro j n; simp [maskOuts]
  | cons o t ih =>
    intro j n
    cases n with
    | zero =>
      simp only [maskOuts, outAt_cons_zero, Nat.add_zero]
    | succ m =>
      simp only [maskOuts, outAt_cons_succ]
      have := ih (j + 1) m
      rw [this]
      have e : j + 1 + m = j + (m + 1) := by omega
      rw [e]

theorem anyOut_false {l : List (Option Out)} (h : anyOut l = false) (n : Nat) : outAt l n = none := by
  simp only [anyOut, List.any_eq_false] at h
  unfold outAt
  cases hg : l[n]? with
  | none => rfl
  | some x =>
    cases x with
    | none => rfl
    | some o =>
      have := h (some o) (List.mem_of_getElem? hg)
      simp at this

/-! ### restart through the balances cache: entry order and layout are free -/

theorem savedOrder_perm (ord : List Inp) (b : Bal) : (savedOrder ord b).Perm b.unsp := by
  unfold savedOrder
  split
  · rename_i h
    simp only [Bool.and_eq_true] at h
    exact List.isPerm_iff.1 h.2
  · exact List.Perm.refl _

/-- the entries of a reloaded record are a rearrangement of the saved ones, whatever the layout chosen -/
theorem relayout_perm (um : Nat) (ord : List Inp) (b : Bal) (hn : b.unsp.Nodup) :
    (relayout um ord b).unsp.Perm b.unsp ∧ (relayout um ord b).value = b.value := by
  have hp := savedOrder_perm ord b
  have hn' : (savedOrder ord b).Nodup := (hp.nodup_iff).2 hn
  unfold relayout
  simp only []
  split
  · simp only [mapOfList_nodup hn']; exact ⟨hp, trivial⟩
  · exact ⟨hp, rfl⟩

theorem aget_reloadBal (um : Nat) (ords : List (AKey × List Inp)) (K : AKey) (bal : BalMap) :
    aget K (reloadBal um ords bal) = (aget K bal).map (relayout um ((aget K ords).getD [])) := by
  induction bal with
  | nil => rfl
  | cons p t ih =>
    simp only [reloadBal, List.map_cons, aget] at ih ⊢
    by_cases hk : p.1 = K
    · simp [hk]
    · simp only [hk, if_false]; exact ih

/-- `Rel` does not look at the order of the entries, at the layout or at `useMapCnt` -/
theorem relK_perm {cfg cfg' : Cfg} {H : Bytes → Nat} {C : Coins} {K : AKey} {b b' : Bal} (hm : cfg'.min = cfg.min)
    (hp : b'.unsp.Perm b.unsp) (hv : b'.value = b.value) (h : RelK cfg H (some b) C K) : RelK cfg' H (some b') C K := by
  obtain ⟨hn, hne, hmem, hval⟩ := h
  refine ⟨(hp.nodup_iff).2 hn, ?_, ?_, ?_⟩
  · intro e
    rw [e] at hp
    exact hne (List.Perm.eq_nil (List.Perm.symm hp))
  · intro inp
    rw [hp.mem_iff, hmem inp]
    simp only [qual, hm]
  · rw [hv, hval, (hp.map (valC C)).sum_nat]

theorem rel_reloadBal {cfg : Cfg} {H : Bytes → Nat} {bal : BalMap} {C : Coins} (um : Nat) (ords : List (AKey × List Inp))
    (h : Rel cfg H bal C) : Rel { cfg with useMapCnt := um } H (reloadBal um ords bal) C := by
  intro K
  have hK := h K
  rw [aget_reloadBal]
  cases hb : aget K bal with
  | none =>
    rw [hb] at hK
    simpa only [Option.map, RelK, qual] using hK
  | some b =>
    rw [hb] at hK
    have := relayout_perm um ((aget K ords).getD []) b hK.1
    exact relK_perm rfl this.1 this.2 hK

/-! ### the invariant and its preservation by every step -/

/-- the node state is consistent: UTXO keys well-formed, and — while the index is on — the index is the
    projection of the current unspent set -/
def Inv (H : Bytes → Nat) (s : State) : Prop :=
  UtxoWF s.utxo ∧ (s.on = true → Rel s.cfg H s.bal (coinsOf s.utxo))

/-- what the rest of the node guarantees about the change stream (C04/C06 facts, named):
    * `add`: the key of a newly created transaction is not present in the UTXO map
      (BIP30/BIP34 uniqueness of txids + no collision of the first 8 bytes);
    * `undoAdd`: an undo record has as many output slots as the stored record of the same transaction
      and restores only outputs that are currently spent (undo restores exactly the spent outputs). -/
def Admissible (s : State) : Ev → Prop
  | .add r => aget r.key s.utxo = none
  | .undoAdd r => ∀ old, aget r.key s.utxo = some old →
      old.outs.length = r.outs.length ∧ ∀ j o, outAt r.outs j = some o → outAt old.outs j = none
  | _ => True

theorem rel_newUTXO {cfg : Cfg} {H : Bytes → Nat} {bal : BalMap} {u u' : Utxo} {r : Rec}
    (h : Rel cfg H bal (coinsOf u))
    (hfresh : ∀ i o, outAt r.outs i = some o → coinsOf u (r.key, i) = none)
    (hu' : ∀ i, coinsOf u' i = if i.1 = r.key then (match outAt r.outs i.2 with | some o => some o | none => coinsOf u i) else coinsOf u i) :
    Rel cfg H (newUTXO cfg H bal r) (coinsOf u') := by
  have := addOuts_rel (cfg := cfg) (H := H) (key := r.key) r.outs 0 bal (coinsOf u) h (by
    intro i o hi; simpa using hfresh i o hi)
  apply rel_congr _ this
  intro i
  rw [hu' i]
  simp [overlay]

theorem inv_dbDel {H : Bytes → Nat} {s : State} (key : Key) (mask : List Bool) (h : Inv H s) : Inv H (dbDel H s key mask) := by
  unfold dbDel
  cases hg : aget key s.utxo with
  | none => simpa using h
  | some r =>
    have hk : r.key = key := keysOK_aget h.1.2 hg
    simp only []
    have hwf : UtxoWF (if anyOut (maskOuts r.outs 0 mask) = true then aset key { r with outs := maskOuts r.outs 0 mask } s.utxo else adel key s.utxo) := by
      split
      · exact wf_aset h.1 (by simpa [Rec.key] using hk)
      · exact wf_adel h.1
    refine ⟨hwf, ?_⟩
    intro hon
    have hon' : s.on = true := hon
    simp only [hon', if_true]
    have hrel := h.2 hon'
    obtain ⟨hr, _⟩ := delOuts_rel (cfg := s.cfg) (H := H) (key := r.key) (mask := mask) r.outs 0 s.bal (coinsOf s.utxo) hrel (by
      intro i
      rw [hk]
      simpa using coinsOf_of_aget hg i)
    apply rel_congr _ hr
    intro i
    have hci : i.1 = key → coinsOf s.utxo i = outAt r.outs i.2 := by
      intro hi
      have := coinsOf_of_aget hg i.2
      rw [← hi] at this
      simpa using this
    have hL : coinsOf (if anyOut (maskOuts r.outs 0 mask) = true then aset key { r with outs := maskOuts r.outs 0 mask } s.utxo else adel key s.utxo) i
        = if i.1 = key then (if mask.getD i.2 false = true then none else outAt r.outs i.2) else coinsOf s.utxo i := by
      by_cases hany : anyOut (maskOuts r.outs 0 mask) = true
      · rw [if_pos hany, coinsOf_aset]
        by_cases hi : i.1 = key
        · simp only [hi, if_true]; rw [outAt_maskOuts]; simp
        · simp [hi]
      · rw [if_neg hany, coinsOf_adel]
        by_cases hi : i.1 = key
        · simp only [hi, if_true]
          have hnone := anyOut_false (by simpa using hany) i.2
          rw [outAt_maskOuts] at hnone
          by_cases hm : mask.getD i.2 false = true
          · rw [if_pos hm]
          · rw [if_neg hm]
            simp only [Nat.zero_add, hm, if_false] at hnone
            exact hnone.symm
        · simp [hi]
    refine Eq.trans ?_ hL.symm
    simp only [unlay, hk, Nat.zero_le, true_and]
    by_cases hi : i.1 = key
    · by_cases hm : mask.getD i.2 false = true
      · rw [if_pos ⟨hi, hm⟩, if_pos hi, if_pos hm]
      · rw [if_neg (fun hh => hm hh.2), if_pos hi, if_neg hm, hci hi]
    · rw [if_neg (fun hh => hi hh.1), if_neg hi]

theorem inv_dbDelTx {H : Bytes → Nat} {s : State} (txid : Bytes) (mask : List Bool) (h : Inv H s) : Inv H (dbDelTx H s txid mask) := by
  unfold dbDelTx
  split
  · exact h
  · split
    · exact inv_dbDel _ mask h
    · exact h

theorem rel_empty (cfg : Cfg) (H : Bytes → Nat) : Rel cfg H [] (fun _ => none) := by
  intro K
  simp only [aget, RelK]
  intro inp o h; cases h

theorem loadAll_rel {cfg : Cfg} {H : Bytes → Nat} (l : Utxo) : ∀ (bal : BalMap) (C : Coins),
    Rel cfg H bal C → NoDupKeys l → KeysOK l → (∀ p ∈ l, ∀ n, C (p.1, n) = none) →
    Rel cfg H (loadAll cfg H l bal) (fun i => match aget i.1 l with | some r => outAt r.outs i.2 | none => C i) := by
  induction l with
  | nil =>
    intro bal C h _ _ _
    simpa [loadAll, aget] using h
  | cons p t ih =>
    intro bal C h hnd hko hC
    simp only [loadAll]
    have hpk : p.2.key = p.1 := hko p (List.mem_cons_self)
    have h1 := addOuts_rel (cfg := cfg) (H := H) (key := p.2.key) p.2.outs 0 bal C h (by
      intro i o _
      rw [hpk]
      simpa using hC p (List.mem_cons_self) i)
    have hne : ∀ q ∈ t, q.1 ≠ p.1 := aget_none_ne p.1 t hnd.1
    have h2 := ih _ _ h1 hnd.2 (fun q hq => hko q (List.mem_cons_of_mem _ hq)) (by
      intro q hq n
      have : q.1 ≠ p.2.key := by rw [hpk]; exact hne q hq
      simp only [overlay, this, false_and, if_false]
      exact hC q (List.mem_cons_of_mem _ hq) n)
    apply rel_congr _ h2
    intro i
    simp only [aget]
    by_cases hi : p.1 = i.1
    · have ht : aget i.1 t = none := by rw [← hi]; exact hnd.1
      have hCi : C i = none := by
        have := hC p (List.mem_cons_self) i.2
        rw [hi] at this
        simpa using this
      simp only [hi, if_true, ht, overlay, hpk, Nat.zero_le, and_self, Nat.sub_zero, hCi]
      cases outAt p.2.outs i.2 <;> rfl
    · have : ¬ i.1 = p.2.key := by rw [hpk]; exact fun e => hi e.symm
      simp only [hi, if_false, overlay, this, false_and]

theorem newUTXO_unfold (cfg : Cfg) (H : Bytes → Nat) (bal : BalMap) (r : Rec) :
    newUTXO cfg H bal r = addOuts cfg H r.key r.outs 0 bal := rfl

/-- **the induction step**: every admissible step of the UTXO change stream preserves the invariant -/
theorem inv_step {H : Bytes → Nat} {s : State} (ev : Ev) (h : Inv H s) (ha : Admissible s ev) : Inv H (step H s ev) := by
  cases ev with
  | add r =>
    simp only [Admissible] at ha
    refine ⟨wf_aset h.1 rfl, ?_⟩
    intro hon
    have hon' : s.on = true := hon
    simp only [step, hon', if_true]
    apply rel_newUTXO (h.2 hon')
    · intro i o _; exact coinsOf_of_none ha i
    · intro i
      rw [coinsOf_aset]
      by_cases hi : i.1 = r.key
      · have : coinsOf s.utxo i = none := by
          have := coinsOf_of_none ha i.2
          rw [← hi] at this; simpa using this
        simp only [hi, if_true, this]
        cases outAt r.outs i.2 <;> rfl
      · simp [hi]
  | del txid mask => exact inv_dbDelTx txid mask h
  | undoDel txid n =>
    simp only [step]
    by_cases hon : s.on = true
    · rw [if_pos hon]; exact inv_dbDelTx txid _ h
    · rw [if_neg hon]
      exact ⟨wf_adel h.1, fun hon' => absurd hon' hon⟩
  | undoAdd r =>
    simp only [Admissible] at ha
    simp only [step]
    cases hg : aget r.key s.utxo with
    | none =>
      simp only []
      refine ⟨wf_aset h.1 rfl, ?_⟩
      intro hon
      have hon' : s.on = true := hon
      simp only [hon', if_true]
      apply rel_newUTXO (h.2 hon')
      · intro i o _; exact coinsOf_of_none hg i
      · intro i
        rw [coinsOf_aset]
        by_cases hi : i.1 = r.key
        · have : coinsOf s.utxo i = none := by
            have := coinsOf_of_none hg i.2
            rw [← hi] at this; simpa using this
          simp only [hi, if_true, this]
          cases outAt r.outs i.2 <;> rfl
        · simp [hi]
    | some old =>
      obtain ⟨hlen, hfresh⟩ := ha old hg
      simp only []
      refine ⟨wf_aset h.1 rfl, ?_⟩
      intro hon
      have hon' : s.on = true := hon
      simp only [hon', if_true]
      apply rel_newUTXO (h.2 hon')
      · intro i o hi
        rw [coinsOf_of_aget hg i]
        exact hfresh i o hi
      · intro i
        rw [coinsOf_aset]
        by_cases hi : i.1 = r.key
        · have : coinsOf s.utxo i = outAt old.outs i.2 := by
            have := coinsOf_of_aget hg i.2
            rw [← hi] at this; simpa using this
          simp only [hi, if_true, this]
          exact outAt_mergeOuts r.outs old.outs i.2 (by omega)
        · simp [hi]
  | enable mn um =>
    simp only [step]
    by_cases hon : s.on = true
    · rw [if_pos hon]; exact h
    · rw [if_neg hon]
      refine ⟨h.1, fun _ => ?_⟩
      have := loadAll_rel (cfg := { min := mn, useMapCnt := um }) (H := H) s.utxo [] (fun _ => none)
        (rel_empty _ H) h.1.1 h.1.2 (fun _ _ _ => rfl)
      apply rel_congr _ this
      intro i
      simp only [coinsOf]
  | disable =>
    simp only [step]
    by_cases hon : s.on = true
    · rw [if_pos hon]
      exact ⟨h.1, fun hf => by cases hf⟩
    · rw [if_neg hon]; exact h
  | reload um ords =>
    simp only [step]
    by_cases hon : s.on = true
    · rw [if_pos hon]
      exact ⟨h.1, fun _ => rel_reloadBal um ords (h.2 hon)⟩
    · rw [if_neg hon]; exact h

/-- admissibility of a whole history, checked along the run -/
def AdmissibleRun (H : Bytes → Nat) : State → List Ev → Prop
  | _, [] => True
  | s, ev :: rest => Admissible s ev ∧ AdmissibleRun H (step H s ev) rest

theorem inv_run {H : Bytes → Nat} (evs : List Ev) : ∀ (s : State), Inv H s → AdmissibleRun H s evs → Inv H (run H s evs) := by
  induction evs with
  | nil => intro s h _; exact h
  | cons ev rest ih =>
    intro s h ha
    simp only [run, List.foldl_cons]
    exact ih _ (inv_step ev h ha.1) ha.2

theorem inv_init (H : Bytes → Nat) : Inv H State.init :=
  ⟨⟨trivial, fun p hp => by cases hp⟩, fun h => by cases h⟩

/-! ### reading the index: GetAllUnspent and the total -/

open GocoinV.Spec.Balances in
theorem getRec_some {u : Utxo} {i : Inp} {x : Unspent} :
    getRec u i = some x ↔ ∃ r o, aget i.1 u = some r ∧ outAt r.outs i.2 = some o ∧
      x = { txid := r.txid, vout := i.2, value := o.value, minedAt := r.inBlock, coinbase := r.coinbase } := by
  unfold getRec
  cases hg : aget i.1 u with
  | none => simp
  | some r =>
    cases ho : outAt r.outs i.2 with
    | none => simp [ho]
    | some o =>
      simp only [ho, Option.some.injEq]
      constructor
      · intro e; exact ⟨r, o, rfl, ho, e.symm⟩
      · rintro ⟨r', o', hr, ho', hx⟩
        cases hr
        rw [ho] at ho'
        cases ho'; exact hx.symm

theorem coinsOf_some {u : Utxo} {i : Inp} {o : Out} :
    coinsOf u i = some o ↔ ∃ r, aget i.1 u = some r ∧ outAt r.outs i.2 = some o := by
  unfold coinsOf
  cases hg : aget i.1 u with
  | none => simp
  | some r => simp

theorem getRec_inj {u : Utxo} (hk : KeysOK u) {i j : Inp} {x : Unspent}
    (hi : getRec u i = some x) (hj : getRec u j = some x) : i = j := by
  obtain ⟨r, o, hr, _, hx⟩ := getRec_some.1 hi
  obtain ⟨r', o', hr', _, hx'⟩ := getRec_some.1 hj
  have h1 : i.1 = x.txid.take 8 := by rw [hx]; exact (keysOK_aget hk hr).symm
  have h2 : j.1 = x.txid.take 8 := by rw [hx']; exact (keysOK_aget hk hr').symm
  have h3 : i.2 = x.vout := by rw [hx]
  have h4 : j.2 = x.vout := by rw [hx']
  cases i; cases j; simp_all

theorem nodup_filterMap_getRec {u : Utxo} (hk : KeysOK u) (l : List Inp) (hn : l.Nodup) :
    (l.filterMap (getRec u)).Nodup := by
  induction l with
  | nil => simp
  | cons a t ih =>
    have hnt := (List.nodup_cons.1 hn)
    cases hf : getRec u a with
    | none => simp only [List.filterMap_cons, hf]; exact ih hnt.2
    | some x =>
      simp only [List.filterMap_cons, hf]
      apply List.nodup_cons.2
      refine ⟨?_, ih hnt.2⟩
      intro hm
      obtain ⟨j, hj, hfj⟩ := List.mem_filterMap.1 hm
      have := getRec_inj hk hf hfj
      subst this
      exact hnt.1 hj

theorem sum_filterMap_getRec {u : Utxo} (l : List Inp) (h : ∀ i ∈ l, ∃ o, coinsOf u i = some o) :
    ((l.filterMap (getRec u)).map (·.value)).sum = (l.map (valC (coinsOf u))).sum := by
  induction l with
  | nil => simp
  | cons a t ih =>
    obtain ⟨o, ho⟩ := h a (List.mem_cons_self)
    obtain ⟨r, hr, hor⟩ := coinsOf_some.1 ho
    have hf : getRec u a = some { txid := r.txid, vout := a.2, value := o.value, minedAt := r.inBlock, coinbase := r.coinbase } :=
      getRec_some.2 ⟨r, o, hr, hor, rfl⟩
    have hv : valC (coinsOf u) a = o.value := by simp [valC, ho]
    simp only [List.filterMap_cons, hf, List.map_cons, List.sum_cons, hv]
    rw [ih (fun i hi => h i (List.mem_cons_of_mem _ hi))]

open GocoinV.Spec.Balances in
/-- what GetAllUnspent returns, stated with the index key of the address -/
theorem getAll_spec {H : Bytes → Nat} {s : State} (a : Addr) (h : Inv H s) (hon : s.on = true) :
    (getAllUnspent H s a).Nodup ∧
    (∀ x, x ∈ getAllUnspent H s a ↔ ∃ r o, aget (x.txid.take 8) s.utxo = some r ∧ outAt r.outs x.vout = some o ∧
        s.cfg.min ≤ o.value ∧ script2idx H o.script = some (a.idx, H a.payload) ∧
        x = { txid := r.txid, vout := x.vout, value := o.value, minedAt := r.inBlock, coinbase := r.coinbase }) ∧
    total H s a = sumValues (getAllUnspent H s a) % M64 := by
  have hK := h.2 hon (a.idx, H a.payload)
  unfold getAllUnspent total
  cases hb : aget (a.idx, H a.payload) s.bal with
  | none =>
    rw [hb] at hK
    refine ⟨by simp, ?_, by simp [sumValues]⟩
    intro x
    constructor
    · intro hm; simp at hm
    · rintro ⟨r, o, hr, ho, hmin, hs, _⟩
      have hc : coinsOf s.utxo (x.txid.take 8, x.vout) = some o := coinsOf_some.2 ⟨r, hr, ho⟩
      exact absurd ⟨hmin, hs⟩ (hK _ o hc)
  | some b =>
    rw [hb] at hK
    obtain ⟨hn, _, hiff, hv⟩ := hK
    refine ⟨nodup_filterMap_getRec h.1.2 b.unsp hn, ?_, ?_⟩
    · intro x
      simp only [List.mem_filterMap]
      constructor
      · rintro ⟨i, hi, hf⟩
        obtain ⟨o', hc, hq⟩ := (hiff i).1 hi
        obtain ⟨r, o, hr, ho, hx⟩ := getRec_some.1 hf
        have : o' = o := by
          obtain ⟨r', hr', ho'⟩ := coinsOf_some.1 hc
          rw [hr] at hr'; cases hr'; rw [ho] at ho'; cases ho'; rfl
        subst this
        have hk1 : x.txid.take 8 = i.1 := by rw [hx]; exact keysOK_aget h.1.2 hr
        have hk2 : x.vout = i.2 := by rw [hx]
        refine ⟨r, o', by rw [hk1]; exact hr, by rw [hk2]; exact ho, hq.1, hq.2, by rw [hk2]; exact hx⟩
      · rintro ⟨r, o, hr, ho, hmin, hs, hx⟩
        refine ⟨(x.txid.take 8, x.vout), (hiff _).2 ⟨o, coinsOf_some.2 ⟨r, hr, ho⟩, hmin, hs⟩, ?_⟩
        exact getRec_some.2 ⟨r, o, hr, ho, hx⟩
    · simp only [sumValues]
      rw [sum_filterMap_getRec b.unsp (fun i hi => by
        obtain ⟨o, hc, _⟩ := (hiff i).1 hi
        exact ⟨o, hc⟩)]
      exact hv

/-! ### the script that pays to an address has that address's index key -/

theorem scriptForm_script (a : Addr) (hv : a.idx < 5) (hl : a.payload.length = if a.idx < 3 then 20 else 32) :
    scriptForm a.script = some (a.idx, a.payload) := by
  obtain ⟨idx, p⟩ := a
  simp only at hv hl
  have : idx = 0 ∨ idx = 1 ∨ idx = 2 ∨ idx = 3 ∨ idx = 4 := by omega
  rcases this with h | h | h | h | h <;> subst h <;> simp at hl <;>
    simp [scriptForm, Addr.script, byteAt, hl, List.getD_eq_getElem?_getD] <;>
    (try exact List.take_of_length_le (by omega))

theorem script2idx_script (H : Bytes → Nat) (a : Addr) (hv : a.idx < 5)
    (hl : a.payload.length = if a.idx < 3 then 20 else 32) :
    script2idx H a.script = some (a.idx, H a.payload) := by
  simp [script2idx, scriptForm_script a hv hl]

/-! ### converse: a recognised script IS the standard script of the address it is indexed under -/

theorem u8_of_toNat {x : UInt8} {n : Nat} (hn : n < 256) (h : x.toNat = n) : x = UInt8.ofNat n := by
  apply UInt8.toNat_inj.1
  rw [h]; simp; omega

theorem scriptForm_p2kh (s : Bytes) (hl : s.length = 25) (h0 : byteAt s 0 = 0x76) (h1 : byteAt s 1 = 0xa9)
    (h2 : byteAt s 2 = 0x14) (h23 : byteAt s 23 = 0x88) (h24 : byteAt s 24 = 0xac) :
    s = [0x76, 0xa9, 0x14] ++ (s.drop 3).take 20 ++ [0x88, 0xac] ∧ ((s.drop 3).take 20).length = 20 := by
  iterate 26 (rcases s with _ | ⟨_, s⟩ <;> try (simp at hl; done))
  simp [byteAt] at h0 h1 h2 h23 h24
  simp [u8_of_toNat (by omega) h0, u8_of_toNat (by omega) h1, u8_of_toNat (by omega) h2, u8_of_toNat (by omega) h23, u8_of_toNat (by omega) h24]

theorem scriptForm_p2sh (s : Bytes) (hl : s.length = 23) (h0 : byteAt s 0 = 0xa9) (h1 : byteAt s 1 = 0x14)
    (h22 : byteAt s 22 = 0x87) :
    s = [0xa9, 0x14] ++ (s.drop 2).take 20 ++ [0x87] ∧ ((s.drop 2).take 20).length = 20 := by
  iterate 24 (rcases s with _ | ⟨_, s⟩ <;> try (simp at hl; done))
  simp [byteAt] at h0 h1 h22
  simp [u8_of_toNat (by omega) h0, u8_of_toNat (by omega) h1, u8_of_toNat (by omega) h22]

theorem scriptForm_wit20 (s : Bytes) (hl : s.length = 22) (h0 : byteAt s 0 = 0) (h1 : byteAt s 1 = 20) :
    s = [0x00, 0x14] ++ (s.drop 2).take 20 ∧ ((s.drop 2).take 20).length = 20 := by
  iterate 23 (rcases s with _ | ⟨_, s⟩ <;> try (simp at hl; done))
  simp [byteAt] at h0 h1
  simp [u8_of_toNat (by omega) h0, u8_of_toNat (by omega) h1]

theorem scriptForm_wit32 (s : Bytes) (v : Nat) (hv : v < 256) (hl : s.length = 34) (h0 : byteAt s 0 = v) (h1 : byteAt s 1 = 32) :
    s = [UInt8.ofNat v, 0x20] ++ (s.drop 2).take 32 ∧ ((s.drop 2).take 32).length = 32 := by
  iterate 35 (rcases s with _ | ⟨_, s⟩ <;> try (simp at hl; done))
  simp [byteAt] at h0 h1
  simp [u8_of_toNat hv h0, u8_of_toNat (by omega) h1]

/-- converse of `scriptForm_script`: a script that Script2Idx recognises IS the standard script of the
    address (type, payload) it reports, and the payload has the address type's length. -/
theorem scriptForm_converse (s : Bytes) (i : Nat) (p : Bytes) (h : scriptForm s = some (i, p)) :
    s = Addr.script ⟨i, p⟩ ∧ i < 5 ∧ p.length = (if i < 3 then 20 else 32) := by
  unfold scriptForm at h
  split at h
  · rename_i hc
    obtain ⟨hl, h0, h1, h2, h23, h24⟩ := hc
    injection h with h; injection h with hi hp; subst hi; subst hp
    have := scriptForm_p2kh s hl h0 h1 h2 h23 h24
    exact ⟨this.1, by omega, by simpa using this.2⟩
  split at h
  · rename_i hc
    obtain ⟨hl, h0, h1, h22⟩ := hc
    injection h with h; injection h with hi hp; subst hi; subst hp
    have := scriptForm_p2sh s hl h0 h1 h22
    exact ⟨this.1, by omega, by simpa using this.2⟩
  split at h
  · rename_i hc
    obtain ⟨hl, h0, h1⟩ := hc
    injection h with h; injection h with hi hp; subst hi; subst hp
    have := scriptForm_wit20 s hl h0 h1
    exact ⟨this.1, by omega, by simpa using this.2⟩
  split at h
  · rename_i hc
    obtain ⟨hl, h0, h1⟩ := hc
    injection h with h; injection h with hi hp; subst hi; subst hp
    have := scriptForm_wit32 s 0 (by omega) hl h0 h1
    exact ⟨this.1, by omega, by simpa using this.2⟩
  split at h
  · rename_i hc
    obtain ⟨hl, h0, h1⟩ := hc
    injection h with h; injection h with hi hp; subst hi; subst hp
    have := scriptForm_wit32 s 0x51 (by omega) hl h0 h1
    exact ⟨this.1, by omega, by simpa using this.2⟩
  · cases h

/-- `hinj` of `balances_eq_projection` follows from injectivity of the hash on the payloads in play. -/
theorem hinj_of_payload_inj (H : Bytes → Nat) (a : Addr) (hv : a.idx < 5)
    (hl : a.payload.length = if a.idx < 3 then 20 else 32) (o : Out)
    (hH : ∀ p, scriptForm o.script = some (a.idx, p) → H p = H a.payload → p = a.payload)
    (hk : script2idx H o.script = script2idx H a.script) : o.script = a.script := by
  rw [script2idx_script H a hv hl] at hk
  unfold script2idx at hk
  split at hk
  · rename_i i p hf
    injection hk with hk; injection hk with hi hp
    subst hi
    have := hH p hf hp
    have hc := (scriptForm_converse _ _ _ hf).1
    rw [hc, this]
  · cases hk

/-- a record exists for an address exactly when GetAllUnspent reports something for it — whatever the
    values of the outputs (with `min = 0` a record whose outputs are all worth 0 has `Value = 0` and stays) -/
theorem record_iff_nonempty {H : Bytes → Nat} {s : State} (a : Addr) (h : Inv H s) (hon : s.on = true) :
    (aget (a.idx, H a.payload) s.bal).isSome = true ↔ getAllUnspent H s a ≠ [] := by
  have hK := h.2 hon (a.idx, H a.payload)
  unfold getAllUnspent
  cases hb : aget (a.idx, H a.payload) s.bal with
  | none => simp
  | some b =>
    rw [hb] at hK
    obtain ⟨_, hne, hiff, _⟩ := hK
    simp only [Option.isSome_some, true_iff]
    obtain ⟨i, hi⟩ := List.exists_mem_of_ne_nil _ hne
    obtain ⟨o, hc, _⟩ := (hiff i).1 hi
    obtain ⟨r, hr, ho⟩ := coinsOf_some.1 hc
    intro hnil
    have : (⟨r.txid, i.2, o.value, r.inBlock, r.coinbase⟩ : Unspent) ∈ b.unsp.filterMap (getRec s.utxo) :=
      List.mem_filterMap.2 ⟨i, hi, by simp [getRec, hr, ho]⟩
    rw [hnil] at this
    cases this

end GocoinV.Proofs.C17

