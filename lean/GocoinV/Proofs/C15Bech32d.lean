/-
  Proofs.C15Bech32d — list surgery on an encoder output, and the assembled round trip.
-/
import GocoinV.Proofs.C15Bech32c
namespace GocoinV.Bech32
open Gen.Bech32Consts

theorem dataLenOf_encoded (hrp tail : Bytes) (ht : ∀ x ∈ tail, x ≠ 49) :
    dataLenOf (hrp ++ [49] ++ tail) = tail.length := by
  unfold dataLenOf
  simp only [List.reverse_append, List.reverse_cons, List.reverse_nil, List.nil_append, List.append_assoc]
  rw [List.takeWhile_append_of_pos (by
    intro x hx
    have := ht x (List.mem_reverse.mp hx)
    simpa using this)]
  simp

theorem hi30_one : hi30 1 := by unfold hi30; decide

theorem hrpHigh_hi (hrp : Bytes) : ∀ c c', hrpHigh? hrp c = some c' → hi30 c → hi30 c' := by
  induction hrp with
  | nil => intro c c' h hc; simp [hrpHigh?] at h; exact h ▸ hc
  | cons ch t ih =>
    intro c c' h _
    unfold hrpHigh? at h
    by_cases hr : ch.toNat < 33 ∨ ch.toNat > 126
    · simp [hr] at h
    · simp only [hr, ↓reduceIte] at h
      by_cases hu : isUpper ch = true
      · simp [hu] at h
      · simp only [hu] at h
        refine ih _ c' (by simpa using h) (xor_hi (ps_hi _) ?_)
        unfold hi30
        rw [UInt32.toNat_shiftRight]
        have h5 : (5 : UInt32).toNat % 32 = 5 := by decide
        rw [h5, Nat.shiftRight_eq_div_pow]
        have := ch.toNat_lt
        simp only [UInt8.toNat_toUInt32]; omega

/-- Bech32 / Bech32m "create then verify": whatever `Encode` produces, `Decode` reads back as the same
    (hrp, data, variant) (`Encode` produces nothing for the empty hrp: `encode_nil`). -/
theorem decode_encode (hrp data s : Bytes) (m : Bool)
    (h : encode hrp data m = some s) : decode s = some (hrp, data, m) := by
  have hne : hrp ≠ [] := encode_some_ne h
  obtain ⟨h1, c0, hH, hlen, hD, hs⟩ := encode_some h
  let P := six c0 ^^^ finalConstant m
  let tail := data.map charsetAt ++ (checksumSyms P).map charsetAt
  have hs' : s = hrp ++ [49] ++ tail := by rw [hs]; simp [tail, P]
  have htail : ∀ x ∈ tail, x ≠ 49 := by
    intro x hx
    simp only [tail, List.mem_append, List.mem_map] at hx
    rcases hx with ⟨v, _, rfl⟩ | ⟨v, _, rfl⟩ <;> exact charsetAt_ne_sep v
  have hsyms : (checksumSyms P).length = 6 := by simp [checksumSyms]
  have htl : tail.length = data.length + 6 := by simp [tail, hsyms]
  have hhl : 1 ≤ hrp.length := by
    cases hrp with
    | nil => exact absurd rfl hne
    | cons _ _ => simp
  have hsl : s.length = hrp.length + 1 + tail.length := by rw [hs']; simp; omega
  have hdl : dataLenOf s = tail.length := by rw [hs']; exact dataLenOf_encoded hrp tail htail
  unfold decode
  simp only [hdl]
  have c1 : ¬ (s.length < 8 ∨ s.length > 90) := by omega
  have c2 : ¬ (s.length < 1 + tail.length + 1 ∨ tail.length < 6) := by omega
  simp only [c1, c2, ↓reduceIte]
  have hk : s.length - (1 + tail.length) = hrp.length := by omega
  simp only [hk]
  have htake : s.take hrp.length = hrp := by rw [hs']; simp
  have hdrop : s.drop (hrp.length + 1) = tail := by
    rw [hs']
    have : hrp ++ [49] ++ tail = (hrp ++ [49]) ++ tail := by simp
    rw [this, List.drop_append_of_le_length (by simp)]
    simp
  rw [htake, hdrop]
  have hdec := decHrp_of_high hrp 1 h1 [] false hH
  simp only [List.nil_append, Bool.false_or] at hdec
  rw [hdec]
  simp only
  obtain ⟨lo1, hd1⟩ := decData_data data _ c0 [] (hrp.any isLower) ((checksumSyms P).map charsetAt) hD
  simp only [tail]
  rw [hd1]
  obtain ⟨lo2, hd2⟩ := decData_syms P c0 ([] ++ data) lo1
  rw [hd2]
  simp only [Bool.and_false, Bool.false_eq_true, ↓reduceIte, List.nil_append]
  have hc0 : hi30 c0 := by
    refine dataFold_hi data _ c0 ?_ hD
    exact hrpLow_hi hrp _ (ps_hi _)
  have hK : hi30 (finalConstant m) := by
    cases m
    · exact final1_hi
    · exact finalM_hi
  have hfeed : feed6 c0 P = finalConstant m := feed_checksum c0 (finalConstant m) hc0 hK
  rw [hfeed]
  have htk : (data ++ checksumSyms P).take (tail.length - 6) = data := by
    rw [htl]; simp
  rw [htk]
  cases m
  · simp [finalConstant]
  · have : finalConstant true ≠ finalConstant false := by
      simp only [finalConstant]; exact final_ne
    simp [this]

end GocoinV.Bech32
