/-
  Proofs.C08_Bytes — SetB32 / GetB32 of the generated limb code: value, canonical form, round trip;
  Equals / IsZero / IsOdd. Core tactics only (simp with omega as discharger, omega).
-/
import GocoinV.Proofs.C08_Field
set_option linter.unusedSimpArgs false
namespace GocoinV.C08
open GocoinV.Gen.Field5x52

theorem or_shl (acc x k : Nat) (h : acc < 2 ^ k) : acc ||| (x * 2 ^ k) = acc + x * 2 ^ k := by
  rw [Nat.or_comm, ← Nat.shiftLeft_eq, ← Nat.shiftLeft_add_eq_or_of_lt h, Nat.add_comm]

theorem and_15 (x : Nat) : x &&& 15 = x % 16 := Nat.and_two_pow_sub_one_eq_mod x 4

theorem setB32_val (a : Nat → Nat) (h : ∀ i, a i < 256) :
    (setB32 a).val = a 31 + a 30 * 2^8 + a 29 * 2^16 + a 28 * 2^24 + a 27 * 2^32 + a 26 * 2^40 + a 25 * 2^48
      + a 24 * 2^56 + a 23 * 2^64 + a 22 * 2^72 + a 21 * 2^80 + a 20 * 2^88 + a 19 * 2^96 + a 18 * 2^104
      + a 17 * 2^112 + a 16 * 2^120 + a 15 * 2^128 + a 14 * 2^136 + a 13 * 2^144 + a 12 * 2^152 + a 11 * 2^160
      + a 10 * 2^168 + a 9 * 2^176 + a 8 * 2^184 + a 7 * 2^192 + a 6 * 2^200 + a 5 * 2^208 + a 4 * 2^216
      + a 3 * 2^224 + a 2 * 2^232 + a 1 * 2^240 + a 0 * 2^248 ∧ (setB32 a).canon := by
  have h0 := h 0
  have h1 := h 1
  have h2 := h 2
  have h3 := h 3
  have h4 := h 4
  have h5 := h 5
  have h6 := h 6
  have h7 := h 7
  have h8 := h 8
  have h9 := h 9
  have h10 := h 10
  have h11 := h 11
  have h12 := h 12
  have h13 := h 13
  have h14 := h 14
  have h15 := h 15
  have h16 := h 16
  have h17 := h 17
  have h18 := h 18
  have h19 := h 19
  have h20 := h 20
  have h21 := h 21
  have h22 := h 22
  have h23 := h 23
  have h24 := h 24
  have h25 := h 25
  have h26 := h 26
  have h27 := h 27
  have h28 := h 28
  have h29 := h 29
  have h30 := h 30
  have h31 := h 31
  unfold setB32 Fe.val Fe.canon
  simp only [Nat.shiftLeft_eq, and_15, Nat.shiftRight_eq_div_pow]
  simp (disch := omega) only [Nat.mod_eq_of_lt]
  simp (disch := omega) only [or_shl]
  refine ⟨by omega, by omega, by omega, by omega, by omega, by omega⟩

theorem getB32_setB32' (a : Nat → Nat) (h : ∀ i, a i < 256) :
    getB32 (setB32 a) = [a 0, a 1, a 2, a 3, a 4, a 5, a 6, a 7, a 8, a 9, a 10, a 11, a 12, a 13, a 14, a 15, a 16, a 17, a 18, a 19, a 20, a 21, a 22, a 23, a 24, a 25, a 26, a 27, a 28, a 29, a 30, a 31] := by
  have h0 := h 0
  have h1 := h 1
  have h2 := h 2
  have h3 := h 3
  have h4 := h 4
  have h5 := h 5
  have h6 := h 6
  have h7 := h 7
  have h8 := h 8
  have h9 := h 9
  have h10 := h 10
  have h11 := h 11
  have h12 := h 12
  have h13 := h 13
  have h14 := h 14
  have h15 := h 15
  have h16 := h 16
  have h17 := h 17
  have h18 := h 18
  have h19 := h 19
  have h20 := h 20
  have h21 := h 21
  have h22 := h 22
  have h23 := h 23
  have h24 := h 24
  have h25 := h 25
  have h26 := h 26
  have h27 := h 27
  have h28 := h 28
  have h29 := h 29
  have h30 := h 30
  have h31 := h 31
  have e0 : (setB32 a).n0 = a 31 + a 30 * 2^8 + a 29 * 2^16 + a 28 * 2^24 + a 27 * 2^32 + a 26 * 2^40 + a 25 % 16 * 2^48 := by
    unfold setB32
    simp only [Nat.shiftLeft_eq, and_15, Nat.shiftRight_eq_div_pow]
    simp (disch := omega) only [Nat.mod_eq_of_lt]
    simp (disch := omega) only [or_shl]
  have e1 : (setB32 a).n1 = a 25 / 2^4 + a 24 * 2^4 + a 23 * 2^12 + a 22 * 2^20 + a 21 * 2^28 + a 20 * 2^36 + a 19 * 2^44 := by
    unfold setB32
    simp only [Nat.shiftLeft_eq, and_15, Nat.shiftRight_eq_div_pow]
    simp (disch := omega) only [Nat.mod_eq_of_lt]
    simp (disch := omega) only [or_shl]
  have e2 : (setB32 a).n2 = a 18 + a 17 * 2^8 + a 16 * 2^16 + a 15 * 2^24 + a 14 * 2^32 + a 13 * 2^40 + a 12 % 16 * 2^48 := by
    unfold setB32
    simp only [Nat.shiftLeft_eq, and_15, Nat.shiftRight_eq_div_pow]
    simp (disch := omega) only [Nat.mod_eq_of_lt]
    simp (disch := omega) only [or_shl]
  have e3 : (setB32 a).n3 = a 12 / 2^4 + a 11 * 2^4 + a 10 * 2^12 + a 9 * 2^20 + a 8 * 2^28 + a 7 * 2^36 + a 6 * 2^44 := by
    unfold setB32
    simp only [Nat.shiftLeft_eq, and_15, Nat.shiftRight_eq_div_pow]
    simp (disch := omega) only [Nat.mod_eq_of_lt]
    simp (disch := omega) only [or_shl]
  have e4 : (setB32 a).n4 = a 5 + a 4 * 2^8 + a 3 * 2^16 + a 2 * 2^24 + a 1 * 2^32 + a 0 * 2^40 := by
    unfold setB32
    simp only [Nat.shiftLeft_eq, and_15, Nat.shiftRight_eq_div_pow]
    simp (disch := omega) only [Nat.mod_eq_of_lt]
    simp (disch := omega) only [or_shl]
  unfold getB32
  simp only [e0, e1, e2, e3, e4, Nat.shiftLeft_eq, and_15, Nat.shiftRight_eq_div_pow]
  simp (disch := omega) only [Nat.mod_eq_of_lt]
  simp (disch := omega) only [or_shl]
  simp only [List.cons.injEq, and_true]
  refine ⟨?_, ?_, ?_, ?_, ?_, ?_, ?_, ?_, ?_, ?_, ?_, ?_, ?_, ?_, ?_, ?_, ?_, ?_, ?_, ?_, ?_, ?_, ?_, ?_, ?_, ?_, ?_, ?_, ?_, ?_, ?_, ?_⟩ <;> omega
theorem equals_iff' (a b : Fe) : equals a b = true ↔ a = b := by
  cases a; cases b
  simp [equals, and_assoc]

theorem isZero_iff' (a : Fe) : isZero a = true ↔ a.val = 0 := by
  cases a
  simp only [isZero, Fe.val, Bool.and_eq_true, decide_eq_true_eq]
  omega

theorem isOdd_iff' (a : Fe) : isOdd a = true ↔ a.val % 2 = 1 := by
  cases a
  simp only [isOdd, Fe.val, Nat.and_one_is_mod, decide_eq_true_eq]
  omega

/-- two normalised elements (canonical limbs) with the same value are limb-wise equal -/
theorem canon_val_inj (a b : Fe) (ha : a.canon) (hb : b.canon) (h : a.val = b.val) : a = b := by
  cases a; cases b
  simp only [Fe.canon, Fe.val] at *
  simp only [Fe.mk.injEq]
  omega
/-- limbs → bytes → limbs: `SetB32(GetB32(a)) = a` for canonical limbs -/
theorem setB32_getB32' (a : Fe) (h : a.canon) : setB32 (bytesFn (getB32 a)) = a := by
  obtain ⟨n0, n1, n2, n3, n4⟩ := a
  simp only [Fe.canon] at h
  obtain ⟨h0, h1, h2, h3, h4⟩ := h
  unfold setB32 getB32 bytesFn
  simp only [List.getD_cons_succ, List.getD_cons_zero]
  simp only [Nat.shiftLeft_eq, and_15, Nat.shiftRight_eq_div_pow]
  simp (disch := omega) only [Nat.mod_eq_of_lt]
  simp (disch := omega) only [or_shl]
  simp only [Fe.mk.injEq]
  refine ⟨?_, ?_, ?_, ?_, ?_⟩ <;> omega

end GocoinV.C08
