/-
  Proofs.C12ChainFold — the folds of the model's own chain simulation (`connectUtxo` / `disconnectUtxo` of
  Model/Mempool), characterised pointwise through `AList.get?` (helper lemmas for Proofs/C12Chain).
  Core Lean only.  Nothing here depends on the pool side of the state.
-/
import GocoinV.Proofs.C12Run
namespace GocoinV.Mempool

abbrev SC := List ((TxId × Nat) × Coin)

/-! ### the loops of `connectUtxo`, named -/

/-- one input of a block transaction: if the coin is there, delete it and record it -/
def spendStep (acc : UT × SC) (i : TxIn) : UT × SC :=
  match acc.1.get? (i.prev, i.vout) with
  | some c => (acc.1.del (i.prev, i.vout), ((i.prev, i.vout), c) :: acc.2)
  | none => acc

/-- the outputs of a block transaction -/
def createOuts (h : Nat) (t : Tx) (u : UT) : UT :=
  (iota t.outs.length).foldl (fun u v => u.set (t.id, v) ⟨t.outs.getD v 0, h, false⟩) u

/-- one block transaction: spend the inputs, create the outputs -/
def connTx (h : Nat) (acc : UT × SC) (t : Tx) : UT × SC :=
  ((createOuts h t (t.ins.foldl spendStep acc).1), (t.ins.foldl spendStep acc).2)

def connFold (h : Nat) (u : UT) (txs : List Tx) : UT × SC := txs.foldl (connTx h) (u, [])

theorem spendStep_eq : (fun (acc : UT × SC) (i : TxIn) =>
      let (u, sc) := acc
      match u.get? (i.prev, i.vout) with
      | some c => (u.del (i.prev, i.vout), ((i.prev, i.vout), c) :: sc)
      | none => (u, sc)) = spendStep := by
  funext acc i
  obtain ⟨u, sc⟩ := acc
  simp only [spendStep]

theorem connTx_eq (h : Nat) : (fun (acc : UT × SC) (t : Tx) =>
      let (u, sc) := acc
      let (u, sc) := t.ins.foldl (fun (acc : UT × SC) i =>
        let (u, sc) := acc
        match u.get? (i.prev, i.vout) with
        | some c => (u.del (i.prev, i.vout), ((i.prev, i.vout), c) :: sc)
        | none => (u, sc)) (u, sc)
      let u := (iota t.outs.length).foldl (fun u v => u.set (t.id, v) ⟨t.outs.getD v 0, h, false⟩) u
      (u, sc)) = connTx h := by
  funext acc t
  obtain ⟨u, sc⟩ := acc
  rfl

theorem connectUtxo_eq (s : State) (h : Nat) (txs : List Tx) :
    connectUtxo s h txs =
      { s with utxo := (connFold h s.utxo txs).1, undo := (txs, (connFold h s.utxo txs).2) :: s.undo } := by
  rfl

/-! ### the loops of `disconnectUtxo`, named -/

def restoreSC (sc : SC) (u : UT) : UT := sc.foldl (fun u p => u.set p.1 p.2) u

def delOuts (t : Tx) (u : UT) : UT := (iota t.outs.length).foldl (fun u v => u.del (t.id, v)) u

def delCreated (txs : List Tx) (u : UT) : UT := txs.foldl (fun u t => delOuts t u) u

theorem disconnectUtxo_eq (s : State) :
    disconnectUtxo s = match s.undo with
      | [] => none
      | (txs, sc) :: rest => some ({ s with utxo := delCreated txs (restoreSC sc s.utxo), undo := rest }, txs) := rfl

/-! ### membership forms -/

theorem mem_inOps (t : Tx) (o : OutPoint) : o ∈ t.inOps ↔ ∃ i ∈ t.ins, (i.prev, i.vout) = o := by
  simp [Tx.inOps, TxIn.op, List.mem_map]

theorem spentBy_cons (X : Tx) (D : List Tx) (o : OutPoint) : spentBy (X :: D) o ↔ o ∈ X.inOps ∨ spentBy D o := by
  rw [mem_inOps]
  unfold spentBy
  constructor
  · rintro ⟨t, ht, h⟩
    rcases List.mem_cons.mp ht with e | e
    · rw [e] at h; exact Or.inl h
    · exact Or.inr ⟨t, e, h⟩
  · rintro (h | ⟨t, ht, h⟩)
    · exact ⟨X, List.mem_cons_self, h⟩
    · exact ⟨t, List.mem_cons_of_mem _ ht, h⟩

theorem spentBy_nil (o : OutPoint) : ¬ spentBy [] o := by rintro ⟨t, ht, _⟩; cases ht
theorem createdBy_nil (o : OutPoint) : ¬ createdBy [] o := by rintro ⟨t, ht, _⟩; cases ht

/-! ### spending the inputs -/

theorem spendStep_get (acc : UT × SC) (i : TxIn) (o : OutPoint) :
    (spendStep acc i).1.get? o = if o = (i.prev, i.vout) then none else acc.1.get? o := by
  unfold spendStep
  split
  · by_cases e : o = (i.prev, i.vout)
    · rw [if_pos e, e]; exact AList.get?_del_self _ _
    · rw [if_neg e]; exact AList.get?_del_other _ _ _ e
  · rename_i hn
    by_cases e : o = (i.prev, i.vout)
    · rw [if_pos e, e]; exact hn
    · rw [if_neg e]

theorem spendStep_mem (acc : UT × SC) (i : TxIn) (p : OutPoint × Coin) :
    p ∈ (spendStep acc i).2 ↔ p ∈ acc.2 ∨ (p.1 = (i.prev, i.vout) ∧ acc.1.get? p.1 = some p.2) := by
  unfold spendStep
  split
  · rename_i c hc
    simp only [List.mem_cons]
    constructor
    · rintro (e | e)
      · right; rw [e]; exact ⟨rfl, hc⟩
      · exact Or.inl e
    · rintro (e | ⟨e1, e2⟩)
      · exact Or.inr e
      · left
        rw [e1, hc] at e2
        obtain ⟨a, b⟩ := p
        simp only at e1 e2 ⊢
        rw [e1, Option.some.inj e2]
  · rename_i hn
    constructor
    · exact Or.inl
    · rintro (e | ⟨e1, e2⟩)
      · exact e
      · rw [e1, hn] at e2; cases e2

theorem spendFold_get : ∀ (ins : List TxIn) (acc : UT × SC) (o : OutPoint),
    (ins.foldl spendStep acc).1.get? o = if o ∈ ins.map TxIn.op then none else acc.1.get? o := by
  intro ins
  induction ins with
  | nil => intro acc o; simp
  | cons i r ih =>
    intro acc o
    simp only [List.foldl_cons, List.map_cons, List.mem_cons]
    rw [ih, spendStep_get]
    by_cases e1 : o ∈ r.map TxIn.op
    · simp [e1]
    · by_cases e2 : o = (i.prev, i.vout)
      · simp [e2, TxIn.op]
      · have : ¬ o = i.op := e2
        simp [e1, e2, this]

theorem spendFold_mem : ∀ (ins : List TxIn) (acc : UT × SC) (p : OutPoint × Coin),
    p ∈ (ins.foldl spendStep acc).2 ↔ p ∈ acc.2 ∨ (p.1 ∈ ins.map TxIn.op ∧ acc.1.get? p.1 = some p.2) := by
  intro ins
  induction ins with
  | nil => intro acc p; simp
  | cons i r ih =>
    intro acc p
    simp only [List.foldl_cons, List.map_cons, List.mem_cons]
    rw [ih, spendStep_mem, spendStep_get]
    have hop : i.op = (i.prev, i.vout) := rfl
    rw [hop]
    by_cases e : p.1 = (i.prev, i.vout)
    · simp only [e, if_true, true_and, true_or]
      constructor
      · rintro ((h | h) | ⟨_, h⟩)
        · exact Or.inl h
        · exact Or.inr h
        · cases h
      · rintro (h | h)
        · exact Or.inl (Or.inl h)
        · exact Or.inl (Or.inr h)
    · simp only [e, if_false, false_and, or_false, false_or]

/-! ### creating the outputs -/

theorem setOuts_get (t : Tx) (h : Nat) : ∀ (l : List Nat) (u : UT) (o : OutPoint),
    (l.foldl (fun u v => u.set (t.id, v) ⟨t.outs.getD v 0, h, false⟩) u).get? o =
      if o.1 = t.id ∧ o.2 ∈ l then some ⟨t.outs.getD o.2 0, h, false⟩ else u.get? o := by
  intro l
  induction l with
  | nil => intro u o; simp
  | cons v r ih =>
    intro u o
    simp only [List.foldl_cons, List.mem_cons]
    rw [ih]
    by_cases e1 : o.1 = t.id ∧ o.2 ∈ r
    · simp [e1]
    · rw [if_neg e1]
      by_cases e2 : o = (t.id, v)
      · rw [e2, AList.get?_set_self]; simp
      · rw [AList.get?_set_other _ _ _ _ e2]
        have : ¬ (o.1 = t.id ∧ (o.2 = v ∨ o.2 ∈ r)) := by
          rintro ⟨a, b | b⟩
          · exact e2 (by obtain ⟨x, y⟩ := o; simp only at a b; rw [a, b])
          · exact e1 ⟨a, b⟩
        rw [if_neg this]

theorem createOuts_get (h : Nat) (t : Tx) (u : UT) (o : OutPoint) :
    (createOuts h t u).get? o =
      if o.1 = t.id ∧ o.2 < t.outs.length then some ⟨t.outs.getD o.2 0, h, false⟩ else u.get? o := by
  unfold createOuts iota
  rw [setOuts_get]
  simp only [List.mem_range]

theorem connTx_get (h : Nat) (acc : UT × SC) (t : Tx) (o : OutPoint) :
    (connTx h acc t).1.get? o =
      if o.1 = t.id ∧ o.2 < t.outs.length then some ⟨t.outs.getD o.2 0, h, false⟩
      else if o ∈ t.inOps then none else acc.1.get? o := by
  unfold connTx
  simp only
  rw [createOuts_get, spendFold_get]
  rfl

theorem connTx_mem (h : Nat) (acc : UT × SC) (t : Tx) (p : OutPoint × Coin) :
    p ∈ (connTx h acc t).2 ↔ p ∈ acc.2 ∨ (p.1 ∈ t.inOps ∧ acc.1.get? p.1 = some p.2) := by
  unfold connTx
  simp only
  rw [spendFold_mem]
  rfl

/-! ### restoring and deleting -/

theorem restoreSC_get : ∀ (sc : SC) (u : UT) (o : OutPoint),
    (∃ c, (o, c) ∈ sc ∧ (restoreSC sc u).get? o = some c) ∨
    ((∀ c, (o, c) ∉ sc) ∧ (restoreSC sc u).get? o = u.get? o) := by
  intro sc
  induction sc with
  | nil => intro u o; right; exact ⟨fun c h => (by cases h), rfl⟩
  | cons p r ih =>
    intro u o
    unfold restoreSC
    simp only [List.foldl_cons]
    rcases ih (u.set p.1 p.2) o with ⟨c, hc, hg⟩ | ⟨hn, hg⟩
    · exact Or.inl ⟨c, List.mem_cons_of_mem _ hc, hg⟩
    · by_cases e : o = p.1
      · left
        refine ⟨p.2, ?_, ?_⟩
        · rw [e]; exact List.mem_cons_self
        · unfold restoreSC at hg
          rw [hg, e, AList.get?_set_self]
      · right
        refine ⟨?_, ?_⟩
        · intro c hc
          rcases List.mem_cons.mp hc with h1 | h1
          · exact e (by rw [← h1])
          · exact hn c h1
        · unfold restoreSC at hg
          rw [hg, AList.get?_set_other _ _ _ _ e]

theorem delList_get (id : TxId) : ∀ (l : List Nat) (u : UT) (o : OutPoint),
    (l.foldl (fun u v => u.del (id, v)) u).get? o = if o.1 = id ∧ o.2 ∈ l then none else u.get? o := by
  intro l
  induction l with
  | nil => intro u o; simp
  | cons v r ih =>
    intro u o
    simp only [List.foldl_cons, List.mem_cons]
    rw [ih]
    by_cases e1 : o.1 = id ∧ o.2 ∈ r
    · simp [e1]
    · rw [if_neg e1]
      by_cases e2 : o = (id, v)
      · rw [e2, AList.get?_del_self]; simp
      · rw [AList.get?_del_other _ _ _ e2]
        have : ¬ (o.1 = id ∧ (o.2 = v ∨ o.2 ∈ r)) := by
          rintro ⟨a, b | b⟩
          · exact e2 (by obtain ⟨x, y⟩ := o; simp only at a b; rw [a, b])
          · exact e1 ⟨a, b⟩
        rw [if_neg this]

theorem delOuts_get (t : Tx) (u : UT) (o : OutPoint) :
    (delOuts t u).get? o = if o.1 = t.id ∧ o.2 < t.outs.length then none else u.get? o := by
  unfold delOuts iota
  rw [delList_get]
  simp only [List.mem_range]

theorem delCreated_get : ∀ (txs : List Tx) (u : UT) (o : OutPoint),
    (createdBy txs o → (delCreated txs u).get? o = none) ∧
    (¬ createdBy txs o → (delCreated txs u).get? o = u.get? o) := by
  intro txs
  induction txs with
  | nil => intro u o; exact ⟨fun h => absurd h (createdBy_nil o), fun _ => rfl⟩
  | cons t r ih =>
    intro u o
    unfold delCreated
    simp only [List.foldl_cons]
    obtain ⟨i1, i2⟩ := ih (delOuts t u) o
    unfold delCreated at i1 i2
    constructor
    · intro hc
      by_cases hr : createdBy r o
      · exact i1 hr
      · rw [i2 hr, delOuts_get]
        rcases (createdBy_cons t r o).mp hc with h1 | h1
        · rw [if_pos h1]
        · exact absurd h1 hr
    · intro hc
      have hr : ¬ createdBy r o := fun h => hc ((createdBy_cons t r o).mpr (Or.inr h))
      have ht : ¬ (o.1 = t.id ∧ o.2 < t.outs.length) := fun h => hc ((createdBy_cons t r o).mpr (Or.inl h))
      rw [i2 hr, delOuts_get, if_neg ht]

end GocoinV.Mempool
