/-
  Proofs.C01Sig — signature / public-key encoding checks (BIP66 strict DER, LOW_S, STRICTENC hash types, key
  types) and the signature-checking opcodes: model (lib/script/misc.go, checker.go) vs spec.
-/
import GocoinV.Proofs.C01Arith
set_option linter.unusedSimpArgs false
namespace GocoinV.Proofs.C01
open GocoinV GocoinV.Script

theorem u8_toNat_and128 (x : UInt8) : (x.toNat &&& 128 = 0) = (x.toNat < 128) := by
  have : ∀ n : Fin 256, (n.val &&& 128 = 0) = (n.val < 128) := by decide +kernel
  exact this ⟨x.toNat, x.toNat_lt⟩
theorem u8_toNat_and128' (x : UInt8) : (x.toNat &&& 128) = if x.toNat < 128 then 0 else 128 := by
  have : ∀ n : Fin 256, (n.val &&& 128) = if n.val < 128 then 0 else 128 := by decide +kernel
  exact this ⟨x.toNat, x.toNat_lt⟩
theorem u8_and128_eq0 (x : UInt8) : (x &&& 128 = 0) = (x.toNat < 128) := by
  have h := u8_and80 x
  by_cases h0 : x &&& 128 = 0
  · have : ((x &&& 0x80) != 0) = false := by simp [h0]
    rw [this] at h
    have : ¬ x.toNat ≥ 0x80 := by simpa using h.symm
    simp [h0]; omega
  · have : ((x &&& 0x80) != 0) = true := by simp [h0]
    rw [this] at h
    have : x.toNat ≥ 0x80 := by simpa using h.symm
    simp [h0]; omega
theorem u8_eq_iff (x k : UInt8) : (x = k) = (x.toNat = k.toNat) := by
  apply propext
  exact ⟨fun h => by rw [h], fun h => UInt8.toNat_inj.mp h⟩

theorem isValidSignatureEncoding_eq (sig : Bytes) : isValidSignatureEncoding sig = ScriptSpec.isValidSignatureEncoding sig := by
  unfold isValidSignatureEncoding ScriptSpec.isValidSignatureEncoding at'
  simp only [u8_and80]
  simp [u8_toNat_and128]
  rw [Bool.eq_iff_iff]
  simp [u8_and128_eq0, u8_eq_iff, u8_toNat_and128']
  omega


theorem isLowS_eq (sig : Bytes) :
    isLowS sig = (ScriptSpec.isValidSignatureEncoding sig && decide (ScriptSpec.derS sig ≤ ScriptSpec.secpHalfOrder)) := by
  unfold isLowS
  rw [isValidSignatureEncoding_eq]
  by_cases hv : ScriptSpec.isValidSignatureEncoding sig = true
  · simp only [hv, Bool.not_true, Bool.false_eq_true, ↓reduceIte, Bool.true_and]
    have hv' := hv
    unfold ScriptSpec.isValidSignatureEncoding at hv'
    simp [u8_and128_eq0, u8_eq_iff, u8_toNat_and128'] at hv'
    have hp : sigParseBytes sig = some ((sig.drop 4).take (sig.getD 3 0).toNat,
        (sig.drop (6 + (sig.getD 3 0).toNat)).take (sig.getD (5 + (sig.getD 3 0).toNat) 0).toNat) := by
      unfold sigParseBytes at'
      have e1 : (sig.getD 3 0).toNat + 5 = 5 + (sig.getD 3 0).toNat := by omega
      simp only [e1]
      simp [u8_eq_iff]
      omega
    rw [hp]
    simp [ScriptSpec.derS, show halfOrder = ScriptSpec.secpHalfOrder from rfl]
  · simp [hv]

theorem flag_dersig (f : Nat) : has f VER_DERSIG = (ScriptSpec.Flags.ofMask f).dersig := by
  unfold VER_DERSIG; rw [has_testBit]; rfl
theorem flag_strictenc (f : Nat) : has f VER_STRICTENC = (ScriptSpec.Flags.ofMask f).strictenc := by
  unfold VER_STRICTENC; rw [has_testBit]; rfl
theorem flag_lows (f : Nat) : has f VER_LOW_S = (ScriptSpec.Flags.ofMask f).lowS := by
  unfold VER_LOW_S; rw [has_testBit]; rfl
theorem flag_nullfail (f : Nat) : has f VER_NULLFAIL = (ScriptSpec.Flags.ofMask f).nullfail := by
  unfold VER_NULLFAIL; rw [has_testBit]; rfl
theorem flag_nulldummy (f : Nat) : has f VER_NULLDUMMY = (ScriptSpec.Flags.ofMask f).nulldummy := by
  unfold VER_NULLDUMMY; rw [has_testBit]; rfl
theorem flag_witpubkey (f : Nat) : has f VER_WITNESS_PUBKEY = (ScriptSpec.Flags.ofMask f).witnessPubkeytype := by
  unfold VER_WITNESS_PUBKEY; rw [has_testBit]; rfl
theorem flag_dispubkey (f : Nat) : has f VER_DIS_PUBKEYTYPE = (ScriptSpec.Flags.ofMask f).discouragePubkeytype := by
  unfold VER_DIS_PUBKEYTYPE; rw [has_testBit]; rfl

theorem isDefinedHashtype_eq (sig : Bytes) : isDefinedHashtypeSignature sig = ScriptSpec.isDefinedHashtypeSignature sig := by
  unfold isDefinedHashtypeSignature ScriptSpec.isDefinedHashtypeSignature
  cases sig.getLast? with
  | none => rfl
  | some l =>
    simp only
    have : ∀ n : Fin 256, (!(((UInt8.ofNat n.val) &&& (0x80 ^^^ 0xff)) < 1 || ((UInt8.ofNat n.val) &&& (0x80 ^^^ 0xff)) > 3)) =
        (decide (1 ≤ (UInt8.ofNat n.val).toNat % 128) && decide ((UInt8.ofNat n.val).toNat % 128 ≤ 3)) := by decide +kernel
    have h := this ⟨l.toNat, l.toNat_lt⟩
    simpa using h

/-- `CheckSignatureEncoding` returns true exactly where Core's function raises no error -/
theorem checkSignatureEncoding_eq (sig : Bytes) (flags : Nat) :
    checkSignatureEncoding sig flags =
      (match ScriptSpec.checkSignatureEncoding (ScriptSpec.Flags.ofMask flags) sig with | .ok _ => true | .error _ => false) := by
  unfold checkSignatureEncoding ScriptSpec.checkSignatureEncoding ScriptSpec.isLowDERSignature
  simp only [isValidSignatureEncoding_eq, isLowS_eq, isDefinedHashtype_eq, flag_dersig, flag_strictenc, flag_lows]
  generalize (ScriptSpec.Flags.ofMask flags).dersig = fd
  generalize (ScriptSpec.Flags.ofMask flags).strictenc = fs
  generalize (ScriptSpec.Flags.ofMask flags).lowS = fl
  cases sig with
  | nil => simp [pure, Except.pure]
  | cons a r =>
    generalize ScriptSpec.isValidSignatureEncoding (a :: r) = v
    generalize decide (ScriptSpec.derS (a :: r) ≤ ScriptSpec.secpHalfOrder) = lo
    generalize ScriptSpec.isDefinedHashtypeSignature (a :: r) = dh
    cases fd <;> cases fs <;> cases fl <;> cases v <;> cases lo <;> cases dh <;>
      simp [pure, Except.pure, bind, Except.bind, throw, throwThe, MonadExceptOf.throw]

theorem isCompOrUncomp_eq (pk : Bytes) : isCompressedOrUncompressedPubKey pk = ScriptSpec.isCompressedOrUncompressedPubKey pk := by
  unfold isCompressedOrUncompressedPubKey ScriptSpec.isCompressedOrUncompressedPubKey at'
  cases pk with
  | nil => simp
  | cons h t => simp
theorem isCompressed_eq (pk : Bytes) : isCompressedPubKey pk = ScriptSpec.isCompressedPubKey pk := by
  unfold isCompressedPubKey ScriptSpec.isCompressedPubKey at'
  cases pk with
  | nil => simp
  | cons h t =>
    by_cases hl : t.length = 32 <;> simp [hl]
theorem checkPubKeyEncoding_eq (pk : Bytes) (flags : Nat) (sv : SigVersion) :
    checkPubKeyEncoding pk flags sv =
      (match ScriptSpec.checkPubKeyEncoding (ScriptSpec.Flags.ofMask flags) sv pk with | .ok _ => true | .error _ => false) := by
  unfold checkPubKeyEncoding ScriptSpec.checkPubKeyEncoding
  simp only [isCompOrUncomp_eq, isCompressed_eq, flag_strictenc, flag_witpubkey]
  generalize (ScriptSpec.Flags.ofMask flags).strictenc = fs
  generalize (ScriptSpec.Flags.ofMask flags).witnessPubkeytype = fw
  generalize ScriptSpec.isCompressedOrUncompressedPubKey pk = a
  generalize ScriptSpec.isCompressedPubKey pk = b
  cases fs <;> cases fw <;> cases a <;> cases b <;> cases sv <;>
    simp [pure, Except.pure, bind, Except.bind, throw, throwThe, MonadExceptOf.throw]

end GocoinV.Proofs.C01
