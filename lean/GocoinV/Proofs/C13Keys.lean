/-
  Proofs.C13Keys — the wallet's key table with imported keys (.others) of both forms (core only).
  make_wallet keeps TWO slices: `keys` (imported keys first, then the deterministic ones) and `segwit`, made with
  len(keys) and filled AT THE KEY'S INDEX, an uncompressed key's entry staying nil. Model.WalletTx keeps one record per
  index; here: the record table equals a SECOND, slice-level transcription of that loop (`segTable`) zipped index by
  index, `scriptHashToKeyIdx` equals the one-loop look-up written over the two slices, and in a table that contains keys
  of both forms a P2SH-P2WPKH / P2PKH input is attributed to a key whose own redeem script / key hash is the one in the
  spent script. (`segTable` / `scriptHashToKeyIdxSlices` are model-level definitions too: nothing here is generated from
  wallet.go; the link to the Go code is the harness's .others corpus.)
-/
import GocoinV.Proofs.C13Sig
import GocoinV.Proofs.C13Demo
namespace GocoinV.WalletTx
open GocoinV.WalletSpec

theorem segTable_length (H : Addr.Hashes) (b : Bool) (pubs : List Bytes) : (segTable H b pubs).length = pubs.length := by
  simp [segTable]

/-- the record of index i carries `segwit[i]` of the separately built slice: [] for a nil entry -/
theorem mkKey_seg_eq (H : Addr.Hashes) (b : Bool) (p : Bytes) :
    (mkKey H b p).segH160 =
      ((if p.length ≠ 33 then none else if b then none else some (H.hash160 ([0, 20] ++ H.hash160 p))) : Option Bytes).getD [] := by
  unfold mkKey
  by_cases h : p.length = 33 <;> cases b <;> simp [h]

theorem keyTable_zip (H : Addr.Hashes) (b : Bool) (pubs : List Bytes) (i : Nat) :
    (keyTable H b pubs)[i]? =
      (pubs[i]?).map fun p => { pub := p, h160 := H.hash160 p, segH160 := ((segTable H b pubs).getD i none).getD [] } := by
  unfold keyTable segTable
  rw [List.getElem?_map]
  cases hp : pubs[i]? with
  | none => rfl
  | some p =>
    simp only [Option.map_some, Option.some.injEq, List.getD, List.getElem?_map, hp]
    rw [KeyRec.mk.injEq]
    exact ⟨rfl, rfl, mkKey_seg_eq H b p⟩

theorem findIdx?_eq_find?_range {α} (p : α → Bool) (d : α) (l : List α) :
    l.findIdx? p = (List.range l.length).find? (fun i => p (l.getD i d)) := by
  induction l with
  | nil => simp
  | cons a l ih =>
    rw [List.findIdx?_cons, List.length_cons, List.range_succ_eq_map, List.find?_cons]
    by_cases ha : p a = true
    · simp [ha]
    · simp only [ha, List.getD_cons_zero, List.find?_map]
      rw [ih]
      have : ((fun i => p ((a :: l).getD i d)) ∘ Nat.succ) = fun i => p (l.getD i d) := by
        funext i; simp
      rw [this]
      cases (List.find? (fun i => p (l.getD i d)) (List.range l.length)) <;> simp

theorem find?_congr' {α} (p q : α → Bool) (l : List α) (h : ∀ x ∈ l, p x = q x) : l.find? p = l.find? q := by
  induction l with
  | nil => rfl
  | cons a l ih =>
    simp only [List.find?_cons, h a (List.mem_cons_self ..)]
    rw [ih (fun x hx => h x (List.mem_cons_of_mem _ hx))]

/-- scripthash_to_key_idx: the model's look-up in the record table equals the one loop over the index range of keys[]
    reading the index-parallel segwit[] transcription (entries that are nil or not a P2SH address skipped), for EVERY h -/
theorem scriptHashToKeyIdx_is_slice_loop (H : Addr.Hashes) (b : Bool) (pubs : List Bytes) (h : Bytes) :
    scriptHashToKeyIdx (keyTable H b pubs) h = scriptHashToKeyIdxSlices pubs (segTable H b pubs) h := by
  unfold scriptHashToKeyIdx scriptHashToKeyIdxSlices
  rw [findIdx?_eq_find?_range _ ⟨[], [], []⟩]
  have hlen : (keyTable H b pubs).length = pubs.length := by simp [keyTable]
  rw [hlen]
  apply find?_congr'
  intro i hi
  have hi' : i < pubs.length := by simpa using hi
  have hp : pubs[i]? = some pubs[i] := by simp [hi']
  have hz := keyTable_zip H b pubs i
  rw [hp] at hz
  simp only [Option.map_some] at hz
  have e1 : (keyTable H b pubs).getD i ⟨[], [], []⟩ =
      { pub := pubs[i], h160 := H.hash160 pubs[i], segH160 := ((segTable H b pubs).getD i none).getD [] } := by
    simp [List.getD, hz]
  rw [e1]
  cases hs : (segTable H b pubs).getD i none with
  | none => simp
  | some s => simp

/-- a record whose SegWit hash has 20 bytes is the record of a COMPRESSED key, and the hash is the hash of that
    key's own redeem script 00 14 HASH160(pub) (not bech32 mode) -/
theorem seg_of_len20 (H : Addr.Hashes) (p : Bytes) (hl : (mkKey H false p).segH160.length = 20) :
    p.length = 33 ∧ (mkKey H false p).segH160 = H.hash160 ([0, 20] ++ H.hash160 p) := by
  by_cases h : p.length = 33
  · exact ⟨h, by simp [mkKey, h]⟩
  · simp [mkKey, h] at hl

/-- sign_tx on a P2SH-P2WPKH output of the compressed key at index k, in a table that may also hold uncompressed
    (imported) keys at any positions: the input is attributed to a compressed key q whose OWN redeem script
    00 14 HASH160(q) hashes to the script hash being spent; that redeem script is what goes into scriptSig, q's public
    key into the witness, and the BIP143 script code is q's -/
theorem p2sh_attribution (H : Addr.Hashes) (c : Cfg) (pubs : List Bytes) (sig : SigFn) (i k : Nat) (p : Bytes) (v : Nat)
    (hash_len : ∀ b, (H.hash160 b).length = 20)
    (hk : pubs[k]? = some p) (hp : p.length = 33) (hb : c.bech32 = false) :
    ∃ j q, pubs[j]? = some q ∧ q.length = 33 ∧
      H.hash160 ([0, 20] ++ H.hash160 q) = H.hash160 ([0, 20] ++ H.hash160 p) ∧
      signInput H c (keyTable H c.bech32 pubs) sig i
          (some { value := v, script := p2shScript (H.hash160 ([0, 20] ++ H.hash160 p)) }) =
        { scriptSig := some ([22, 0, 20] ++ H.hash160 q),
          witness := some [sig i (.witv0 j (p2pkhScript (H.hash160 q)) v) ++ [1], q], signed := true } := by
  have hkr : (keyTable H c.bech32 pubs)[k]? = some (mkKey H c.bech32 p) := by
    simp [keyTable, List.getElem?_map, hk]
  have hseg : (mkKey H c.bech32 p).segH160 = H.hash160 ([0, 20] ++ H.hash160 p) := by
    rw [mkKey_seg_of_33 H _ p hp]; simp [hb]
  have hl : (mkKey H c.bech32 p).segH160.length = 20 := by rw [hseg]; exact hash_len _
  obtain ⟨j, krj, hj, hje, hsi⟩ := signInput_p2sh H c _ sig i k _ v hkr hl hb
  obtain ⟨q, hq, rfl⟩ := keyTable_getElem? H c.bech32 pubs j krj hj
  rw [hseg] at hsi
  rw [hb] at hje hl hseg
  have hl' : (mkKey H false q).segH160.length = 20 := by rw [hje]; exact hl
  obtain ⟨hq33, hqs⟩ := seg_of_len20 H q hl'
  refine ⟨j, q, hq, hq33, ?_, ?_⟩
  · rw [← hqs, hje, hseg]
  · simpa [mkKey] using hsi

/-- sign_tx on the P2PKH output of ANY key of the table - in particular of an uncompressed imported key, whose SegWit
    entry is nil: the input takes the legacy branch (Tx.Sign over the spent script) and is attributed to a key q with
    HASH160(q) = the hash being spent; scriptSig = <sig‖01> <q> -/
theorem p2pkh_attribution (H : Addr.Hashes) (c : Cfg) (pubs : List Bytes) (sig : SigFn) (i k : Nat) (p : Bytes) (v : Nat)
    (hash_len : ∀ b, (H.hash160 b).length = 20)
    (hk : pubs[k]? = some p) :
    ∃ j q, pubs[j]? = some q ∧ H.hash160 q = H.hash160 p ∧
      signInput H c (keyTable H c.bech32 pubs) sig i (some { value := v, script := p2pkhScript (H.hash160 p) }) =
        { scriptSig := some (push1 (sig i (.legacy j (p2pkhScript (H.hash160 p))) ++ [1]) ++ push1 q),
          witness := none, signed := true } := by
  have hkr : (keyTable H c.bech32 pubs)[k]? = some (mkKey H c.bech32 p) := by
    simp [keyTable, List.getElem?_map, hk]
  obtain ⟨j, krj, hj, hje, hsi⟩ := signInput_p2pkh H c _ sig i k _ v hkr (hash_len _)
  obtain ⟨q, hq, rfl⟩ := keyTable_getElem? H c.bech32 pubs j krj hj
  exact ⟨j, q, hq, by simpa [mkKey] using hje, by simpa [mkKey] using hsi⟩

/-! ### a concrete mixed table for the non-vacuity examples: an UNCOMPRESSED imported key at index 0 (65 bytes, no
    SegWit entry), the compressed key of Proofs/C13Demo at index 1 -/
namespace Demo
def unc0 : Bytes := 4 :: List.replicate 64 5

end Demo

end GocoinV.WalletTx
