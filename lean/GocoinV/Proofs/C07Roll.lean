/-
  Proofs.C07Roll — the positional block store with data-file roll-over (Model/PersistRoll.lean): with LoadBlockIndex as
  written every index record reads back its own block from its own data file after ANY history of writes (with or without
  roll-over), kills after the roll-over's file creation, kills between data write and index write, and restarts.
  Core Lean only.
-/
import GocoinV.Model.PersistRoll
import GocoinV.Proofs.C07Pos
namespace GocoinV.Proofs.C07
open GocoinV.Persist

structure RDiskInv (d : RDisk) : Prop where
  nod : ∀ k, Distinct (d.files k).ents
  ent : ∀ r ∈ d.idx, (r.fpos, r.id, r.blen) ∈ (d.files r.file).ents
  pos : ∀ r ∈ d.idx, 0 < r.blen

structure RInv (s : RSt) : Prop where
  disk : RDiskInv s.d
  bndF : ∀ r ∈ s.d.idx, r.file ≤ s.n.maxidx
  bndP : ∀ r ∈ s.d.idx, r.file = s.n.maxidx → r.fpos + r.blen ≤ s.n.maxpos
  offm : s.n.off = s.n.maxpos

theorem rreadsBack_of {d : RDisk} (h : RDiskInv d) : rreadsBack d = true := by
  simp only [rreadsBack, List.all_eq_true, beq_iff_eq]
  intro r hr
  exact read_of_mem (h.nod r.file) (h.ent r hr)

theorem rloadStep_spec (acc : Nat × Nat) (r : RRec) (hp : 0 < r.blen) :
    acc.1 ≤ (rloadStep false acc r).1 ∧ ((rloadStep false acc r).1 = acc.1 → acc.2 ≤ (rloadStep false acc r).2) ∧
    r.file ≤ (rloadStep false acc r).1 ∧ (r.file = (rloadStep false acc r).1 → r.fpos + r.blen ≤ (rloadStep false acc r).2) := by
  unfold rloadStep
  simp only [Bool.false_eq_true, if_false]
  by_cases h1 : r.file > acc.1
  · have c1 : (decide (r.blen > 0) && decide (r.file > acc.1)) = true := by simp [hp, h1]
    simp only [c1, if_true]
    split
    · exact ⟨Nat.le_of_lt h1, fun e => absurd e (by simp; omega), Nat.le_refl _, fun _ => Nat.le_refl _⟩
    · rename_i h2
      exact ⟨Nat.le_of_lt h1, fun e => absurd e (by simp; omega), Nat.le_refl _, fun _ => by simp at h2; omega⟩
  · have c1 : (decide (r.blen > 0) && decide (r.file > acc.1)) = false := by simp [h1]
    simp only [c1, Bool.false_eq_true, if_false]
    split
    · exact ⟨Nat.le_refl _, fun _ => by simp; omega, by simp; omega, fun _ => Nat.le_refl _⟩
    · rename_i h2
      exact ⟨Nat.le_refl _, fun _ => Nat.le_refl _, by omega, fun _ => by omega⟩

theorem rload_aux : ∀ (l : List RRec) (acc : Nat × Nat), (∀ r ∈ l, 0 < r.blen) →
    acc.1 ≤ (l.foldl (rloadStep false) acc).1 ∧ ((l.foldl (rloadStep false) acc).1 = acc.1 → acc.2 ≤ (l.foldl (rloadStep false) acc).2) ∧
    ∀ r ∈ l, r.file ≤ (l.foldl (rloadStep false) acc).1 ∧
      (r.file = (l.foldl (rloadStep false) acc).1 → r.fpos + r.blen ≤ (l.foldl (rloadStep false) acc).2)
  | [], acc, _ => ⟨Nat.le_refl _, fun _ => Nat.le_refl _, fun _ h => by cases h⟩
  | x :: rest, acc, hp => by
    obtain ⟨s1, s2, s3, s4⟩ := rloadStep_spec acc x (hp x (by simp))
    obtain ⟨i1, i2, i3⟩ := rload_aux rest (rloadStep false acc x) (fun r hr => hp r (by simp [hr]))
    simp only [List.foldl_cons]
    refine ⟨Nat.le_trans s1 i1, ?_, ?_⟩
    · intro e
      have e1 : (rloadStep false acc x).1 = acc.1 := by omega
      exact Nat.le_trans (s2 e1) (i2 (by omega))
    · intro r hr
      rcases List.mem_cons.1 hr with hr | hr
      · subst hr
        refine ⟨Nat.le_trans s3 i1, fun e => ?_⟩
        have e1 : r.file = (rloadStep false acc r).1 := by omega
        exact Nat.le_trans (s4 e1) (i2 (by omega))
      · exact i3 r hr

theorem ropen_inv {d : RDisk} (h : RDiskInv d) : RInv (ropen false d) := by
  obtain ⟨_, _, h3⟩ := rload_aux d.idx (0, 0) h.pos
  exact ⟨h, fun r hr => (h3 r hr).1, fun r hr => (h3 r hr).2, rfl⟩

theorem rroll_inv {s : RSt} (h : RInv s) (maxSize l : Nat) : RInv (rroll maxSize s l) := by
  unfold rroll
  split
  · refine ⟨⟨?_, ?_, h.disk.pos⟩, ?_, ?_, rfl⟩
    · intro k
      show Distinct (setFile s.d.files (s.n.maxidx + 1) {} k).ents
      unfold setFile
      split
      · exact List.Pairwise.nil
      · exact h.disk.nod k
    · intro r hr
      show (r.fpos, r.id, r.blen) ∈ (setFile s.d.files (s.n.maxidx + 1) {} r.file).ents
      unfold setFile
      have := h.bndF r hr
      rw [if_neg (by omega)]
      exact h.disk.ent r hr
    · intro r hr
      have := h.bndF r hr
      show r.file ≤ s.n.maxidx + 1
      omega
    · intro r hr e
      have := h.bndF r hr
      have e : r.file = s.n.maxidx + 1 := e
      omega
  · exact h

theorem rwriteDat_inv {s : RSt} (h : RInv s) (id l : Nat) :
    RDiskInv (rwriteDat s id l).d ∧ (s.n.maxpos, id, l) ∈ ((rwriteDat s id l).d.files s.n.maxidx).ents := by
  have hoff := h.offm
  have hnod : Distinct (((s.d.files s.n.maxidx).write s.n.off id l).ents) := by
    unfold DatFile.write Distinct
    rw [List.pairwise_append]
    refine ⟨List.Pairwise.sublist List.filter_sublist (h.disk.nod _), List.pairwise_singleton _ _, ?_⟩
    intro a ha b hb
    simp only [List.mem_filter, Bool.and_eq_true, bne_iff_ne] at ha
    simp only [List.mem_singleton] at hb
    subst hb
    exact ha.2.2
  refine ⟨⟨?_, ?_, h.disk.pos⟩, ?_⟩
  · intro k
    show Distinct (setFile s.d.files s.n.maxidx ((s.d.files s.n.maxidx).write s.n.off id l) k).ents
    unfold setFile
    split
    · exact hnod
    · exact h.disk.nod k
  · intro r hr
    show (r.fpos, r.id, r.blen) ∈ (setFile s.d.files s.n.maxidx ((s.d.files s.n.maxidx).write s.n.off id l) r.file).ents
    unfold setFile
    split
    · rename_i e
      unfold DatFile.write
      rw [hoff]
      apply List.mem_append_left
      simp only [List.mem_filter, Bool.and_eq_true, Bool.or_eq_true, decide_eq_true_eq, bne_iff_ne]
      have h1 := h.bndP r hr e
      have h2 := h.disk.pos r hr
      exact ⟨e ▸ h.disk.ent r hr, Or.inl h1, by omega⟩
    · exact h.disk.ent r hr
  · show (s.n.maxpos, id, l) ∈ (setFile s.d.files s.n.maxidx ((s.d.files s.n.maxidx).write s.n.off id l) s.n.maxidx).ents
    unfold setFile
    rw [if_pos rfl]
    unfold DatFile.write
    rw [hoff]
    exact List.mem_append_right _ (by simp)

theorem rwrite_inv {s : RSt} (h : RInv s) (id l : Nat) (hl : 0 < l) : RInv (rwriteIdx (rwriteDat s id l) id l) := by
  obtain ⟨hd, hent⟩ := rwriteDat_inv h id l
  refine ⟨⟨hd.nod, ?_, ?_⟩, ?_, ?_, ?_⟩
  · intro r hr
    simp only [rwriteIdx, List.mem_append, List.mem_singleton] at hr
    rcases hr with hr | hr
    · exact hd.ent r hr
    · subst hr; exact hent
  · intro r hr
    simp only [rwriteIdx, List.mem_append, List.mem_singleton] at hr
    rcases hr with hr | hr
    · exact hd.pos r hr
    · subst hr; exact hl
  · intro r hr
    simp only [rwriteIdx, List.mem_append, List.mem_singleton] at hr
    rcases hr with hr | hr
    · exact h.bndF r hr
    · subst hr; exact Nat.le_refl _
  · intro r hr e
    simp only [rwriteIdx, List.mem_append, List.mem_singleton] at hr
    show r.fpos + r.blen ≤ s.n.maxpos + l
    rcases hr with hr | hr
    · have := h.bndP r hr e; omega
    · subst hr; exact Nat.le_refl _
  · show s.n.off + l = s.n.maxpos + l
    rw [h.offm]

def rlenPos : ROp → Prop
  | .write _ l => 0 < l
  | .crashRoll _ _ => True
  | .crashMid _ l => 0 < l
  | .restart => True

theorem rstep_inv {s : RSt} (h : RInv s) (maxSize : Nat) (op : ROp) (hl : rlenPos op) : RInv (rstep false maxSize s op) := by
  cases op with
  | write id l => exact rwrite_inv (rroll_inv h maxSize l) id l hl
  | crashRoll id l => exact ropen_inv (rroll_inv h maxSize l).disk
  | crashMid id l => exact ropen_inv (rwriteDat_inv (rroll_inv h maxSize l) id l).1
  | restart => exact ropen_inv h.disk

theorem rrun_inv (maxSize : Nat) : ∀ (ops : List ROp) (s : RSt), RInv s → (∀ op ∈ ops, rlenPos op) → RInv (rrun false maxSize s ops)
  | [], _, h, _ => h
  | op :: rest, s, h, hl => rrun_inv maxSize rest _ (rstep_inv h maxSize op (hl op (by simp))) (fun x hx => hl x (by simp [hx]))

theorem rinit_inv : RInv {} := by
  refine ⟨⟨fun _ => List.Pairwise.nil, ?_, ?_⟩, ?_, ?_, rfl⟩ <;> intro r hr <;> cases hr

end GocoinV.Proofs.C07
