/-
  Proofs.C12Wrap — the fee-rate products of the model are computed in ℕ (Go: uint64). Under the stated bound the
  two agree.  Core Lean only.
-/
import GocoinV.Model.Mempool
namespace GocoinV.Mempool

/-- a product of a fee-like factor below 2^44 (≈ 175 000 BTC in satoshi) and a size-like factor below 2^20
    (weights ≤ 400 000 per tx; sums of vsizes / weights of ≤ 2^20) is not changed by uint64 wrap-around -/
theorem mul_nowrap (a b : Nat) (ha : a < 2 ^ 44) (hb : b < 2 ^ 20) : (a * b) % U64 = a * b := by
  apply Nat.mod_eq_of_lt
  have h1 : a * b < 2 ^ 44 * 2 ^ 20 := Nat.mul_lt_mul'' ha hb
  have h2 : (2 : Nat) ^ 44 * 2 ^ 20 = 2 ^ 64 := by rw [← Nat.pow_add]
  unfold U64
  omega

/-- isFirstTxBetter with Go's wrapped products -/
def betterW (a b : T2S) : Bool := decide ((a.fee * b.tx.weight) % U64 > (b.fee * a.tx.weight) % U64)

theorem better_eq_wrapped (a b : T2S) (ha : a.fee < 2 ^ 44) (hb : b.fee < 2 ^ 44)
    (wa : a.tx.weight < 2 ^ 20) (wb : b.tx.weight < 2 ^ 20) : better a b = betterW a b := by
  unfold better betterW
  rw [mul_nowrap _ _ ha wb, mul_nowrap _ _ hb wa]

end GocoinV.Mempool
