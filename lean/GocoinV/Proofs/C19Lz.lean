/-
  Proofs.C19Lz — records that are not in memory: the NO_CACHE flag (`freerec` and sync() drop a record's data once it
  is on disk, `load` skips it) and NewDBExt with LoadData = false. The real store `a` is related to its EAGER GHOST
  `g` (`Lz P a g`): the store with the ghost field `eager = true`, which tests a flag bit that is never set instead
  of NO_CACHE and therefore keeps every record's data in memory — while writing exactly the same bytes (the flags
  are the same). Every operation acts on both in lock step: same file operations, same results; a record of `a`
  that is not in memory loads to the ghost's record. The analysis of stores whose records are all in memory (all
  other files) applies to the ghost.
-/
import GocoinV.Proofs.C19Lazy
namespace GocoinV.Proofs.C19
open GocoinV GocoinV.Qdb GocoinV.QdbSpec

variable {eg : Bool}

/-! ### records and indices up to "not in memory" -/

/-- `ra` is `rg`, possibly without its data in memory -/
def Sub (ra rg : Rec) : Prop := ra = rg ∨ ra = { rg with data := none }

theorem Sub.refl (r : Rec) : Sub r r := Or.inl rfl

theorem Sub.fields {ra rg : Rec} (h : Sub ra rg) :
    ra.seq = rg.seq ∧ ra.pos = rg.pos ∧ ra.len = rg.len ∧ ra.flags = rg.flags := by
  rcases h with rfl | rfl <;> exact ⟨rfl, rfl, rfl, rfl⟩

theorem Sub.of_data {ra rg : Rec} (h : Sub ra rg) (hd : ra.data.isSome = true) : ra = rg := by
  rcases h with h | h
  · exact h
  · rw [h] at hd; cases hd

theorem Sub.withFlags {ra rg : Rec} (h : Sub ra rg) (f : Nat) : Sub { ra with flags := f } { rg with flags := f } := by
  rcases h with rfl | rfl
  · exact Or.inl rfl
  · exact Or.inr rfl

def SubL : List (Key × Rec) → List (Key × Rec) → Prop
  | [], [] => True
  | (ka, ra) :: ta, (kg, rg) :: tg => ka = kg ∧ Sub ra rg ∧ SubL ta tg
  | _, _ => False

theorem SubL.refl (l : List (Key × Rec)) : SubL l l := by
  induction l with
  | nil => trivial
  | cons x t ih => exact ⟨rfl, Sub.refl _, ih⟩

theorem SubL.lookup {la lg : List (Key × Rec)} (h : SubL la lg) (k : Key) :
    (ilookup k la = none ∧ ilookup k lg = none) ∨
    ∃ ra rg, ilookup k la = some ra ∧ ilookup k lg = some rg ∧ Sub ra rg := by
  induction la generalizing lg with
  | nil =>
    cases lg with
    | nil => exact Or.inl ⟨rfl, rfl⟩
    | cons y t => exact absurd h (by simp [SubL])
  | cons x ta ih =>
    cases lg with
    | nil => exact absurd h (by simp [SubL])
    | cons y tg =>
      obtain ⟨ka, ra⟩ := x
      obtain ⟨kg, rg⟩ := y
      obtain ⟨rfl, hs, ht⟩ := h
      simp only [ilookup]
      by_cases hk : ka = k
      · simp only [hk, ↓reduceIte]
        exact Or.inr ⟨ra, rg, rfl, rfl, hs⟩
      · simp only [hk, ↓reduceIte]
        exact ih ht

theorem SubL.iset {la lg : List (Key × Rec)} (h : SubL la lg) (k : Key) (ra rg : Rec) (hs : Sub ra rg) :
    SubL (iset k ra la) (iset k rg lg) := by
  induction la generalizing lg with
  | nil =>
    cases lg with
    | nil => exact ⟨rfl, hs, trivial⟩
    | cons y t => exact absurd h (by simp [SubL])
  | cons x ta ih =>
    cases lg with
    | nil => exact absurd h (by simp [SubL])
    | cons y tg =>
      obtain ⟨ka, xa⟩ := x
      obtain ⟨kg, xg⟩ := y
      obtain ⟨rfl, hx, ht⟩ := h
      simp only [Qdb.iset]
      by_cases hk : ka = k
      · simp only [hk, ↓reduceIte]
        exact ⟨rfl, hs, ht⟩
      · simp only [hk, ↓reduceIte]
        exact ⟨rfl, hx, ih ht⟩

theorem SubL.ierase {la lg : List (Key × Rec)} (h : SubL la lg) (k : Key) : SubL (ierase k la) (ierase k lg) := by
  induction la generalizing lg with
  | nil =>
    cases lg with
    | nil => trivial
    | cons y t => exact absurd h (by simp [SubL])
  | cons x ta ih =>
    cases lg with
    | nil => exact absurd h (by simp [SubL])
    | cons y tg =>
      obtain ⟨ka, xa⟩ := x
      obtain ⟨kg, xg⟩ := y
      obtain ⟨rfl, hx, ht⟩ := h
      simp only [Qdb.ierase]
      by_cases hk : ka = k
      · simp only [hk, ↓reduceIte]
        exact ht
      · simp only [hk, ↓reduceIte]
        exact ⟨rfl, hx, ih ht⟩

theorem SubL.length {la lg : List (Key × Rec)} (h : SubL la lg) : la.length = lg.length := by
  induction la generalizing lg with
  | nil =>
    cases lg with
    | nil => rfl
    | cons y t => exact absurd h (by simp [SubL])
  | cons x ta ih =>
    cases lg with
    | nil => exact absurd h (by simp [SubL])
    | cons y tg =>
      obtain ⟨ka, xa⟩ := x
      obtain ⟨kg, xg⟩ := y
      simp only [List.length_cons, ih h.2.2]

theorem SubL.snoc {la lg : List (Key × Rec)} (h : SubL la lg) (k : Key) (ra rg : Rec) (hs : Sub ra rg) :
    SubL (la ++ [(k, ra)]) (lg ++ [(k, rg)]) := by
  induction la generalizing lg with
  | nil =>
    cases lg with
    | nil => exact ⟨rfl, hs, trivial⟩
    | cons y t => exact absurd h (by simp [SubL])
  | cons x ta ih =>
    cases lg with
    | nil => exact absurd h (by simp [SubL])
    | cons y tg =>
      obtain ⟨ka, xa⟩ := x
      obtain ⟨kg, xg⟩ := y
      obtain ⟨rfl, hx, ht⟩ := h
      exact ⟨rfl, hx, ih ht⟩

/-! ### the relation between the real store and its eager ghost -/

/-- the state outside the index and the ghost field -/
def shell (d : DB) : DB := { d with index := [], eager := false }

/-- `P`: the keys changed since they were last written (the pending set; for a volatile store its ghost).
    `g` is `a` with every record's data in memory and the ghost field set; a record of `a` that is not in memory, or
    that has a place on disk, is not in `P` -/
structure Lz (P : List Key) (a g : DB) : Prop where
  sh : shell a = shell g
  idx : SubL a.index g.index
  np : ∀ k r, ilookup k a.index = some r → r.data = none → k ∉ P
  pz : ∀ k r, ilookup k a.index = some r → r.pos ≠ 0 → k ∉ P
  ge : g.eager = true

theorem Lz.fs {P : List Key} {a g : DB} (h : Lz P a g) : a.fs = g.fs := (congrArg DB.fs h.sh : (shell a).fs = (shell g).fs)
theorem Lz.effs {P : List Key} {a g : DB} (h : Lz P a g) : a.effs = g.effs := (congrArg DB.effs h.sh : (shell a).effs = (shell g).effs)
theorem Lz.pending {P : List Key} {a g : DB} (h : Lz P a g) : a.pending = g.pending := (congrArg DB.pending h.sh : (shell a).pending = (shell g).pending)
theorem Lz.failed {P : List Key} {a g : DB} (h : Lz P a g) : a.failed = g.failed := (congrArg DB.failed h.sh : (shell a).failed = (shell g).failed)
theorem Lz.volatile {P : List Key} {a g : DB} (h : Lz P a g) : a.volatile = g.volatile := (congrArg DB.volatile h.sh : (shell a).volatile = (shell g).volatile)
theorem Lz.noSync {P : List Key} {a g : DB} (h : Lz P a g) : a.noSync = g.noSync := (congrArg DB.noSync h.sh : (shell a).noSync = (shell g).noSync)
theorem Lz.dataSeq {P : List Key} {a g : DB} (h : Lz P a g) : a.dataSeq = g.dataSeq := (congrArg DB.dataSeq h.sh : (shell a).dataSeq = (shell g).dataSeq)

/-- `g` written over `a` -/
def reidx (d : DB) (i : List (Key × Rec)) : DB := { d with index := i, eager := true }

theorem Lz.g_reidx {P : List Key} {a g : DB} (h : Lz P a g) : reidx a g.index = g := by
  have := congrArg (fun d : DB => { d with index := g.index, eager := true }) h.sh
  have hg : ({ shell g with index := g.index, eager := true } : DB) = g := by
    have := h.ge
    cases g
    simp only at this
    subst this
    rfl
  exact this.trans hg

/-- every record of `a` loads to the ghost's record -/
def Loads (a g : DB) : Prop :=
  ∀ k ra rg, ilookup k a.index = some ra → ilookup k g.index = some rg → Sub ra rg → Qdb.loadrec a.fs ra = some rg

/-- loading works when a store `G` with the ghost's index and directory, and `P` pending, satisfies the invariant -/
theorem Lz.loads {P : List Key} {a g : DB} (h : Lz P a g) (G : DB) (hi : G.index = g.index) (hf : G.fs = g.fs)
    (hp : G.pending = P) (inv : DiskInv G) : Loads a g := by
  intro k ra rg ha hg hs
  have hg' : ilookup k G.index = some rg := by rw [hi]; exact hg
  have hcg := allCached_lookup inv.cached.2 k rg hg'
  rcases hs with rfl | hra
  · exact loadrec_cached a.fs ra hcg
  · have hnp : k ∉ G.pending := by rw [hp]; exact h.np k ra ha (by rw [hra])
    obtain ⟨f, hff, hrb⟩ := inv.files k rg hnp hg'
    obtain ⟨v, hv⟩ := Option.isSome_iff_exists.mp hcg.1
    unfold Qdb.loadrec
    rw [hra]
    simp only [h.fs, ← hf, hff]
    have hlen : ((f.drop rg.pos).take rg.len).length = rg.len := by
      simp only [List.length_take, List.length_drop]
      have h41 : rg.pos + rg.len ≤ f.length := hrb.1
      omega
    have hval : readRec f { rg with data := none } = v := by
      unfold readRec padTo
      show (f.drop rg.pos).take rg.len ++ List.replicate (rg.len - ((f.drop rg.pos).take rg.len).length) 0 = v
      rw [hlen]
      have := hrb.2.2
      rw [hv] at this
      simpa using this
    rw [hval]
    cases rg
    simp only at hv
    simp [hv]

theorem SubL.keys {la lg : List (Key × Rec)} (h : SubL la lg) : Keys la = Keys lg := by
  induction la generalizing lg with
  | nil =>
    cases lg with
    | nil => rfl
    | cons y t => exact absurd h (by simp [SubL])
  | cons x ta ih =>
    cases lg with
    | nil => exact absurd h (by simp [SubL])
    | cons y tg =>
      obtain ⟨ka, xa⟩ := x
      obtain ⟨kg, xg⟩ := y
      obtain ⟨rfl, _, ht⟩ := h
      simp only [Keys, List.map_cons] at *
      rw [ih ht]

theorem shell_eq {a g : DB} (h : shell a = shell g) (idx : List (Key × Rec)) (e : Bool) :
    { a with index := idx, eager := e } = { g with index := idx, eager := e } := by
  have := congrArg (fun d : DB => { d with index := idx, eager := e }) h
  exact this

/-! ### operations that do not touch the files -/

theorem get_lz {P : List Key} {a g : DB} (h : Lz P a g) (hc : Cached g) (hl : Loads a g) (k : Key) :
    Lz P (Qdb.get a k).1 (Qdb.get g k).1 ∧ (Qdb.get a k).2 = (Qdb.get g k).2 := by
  have hfa : a.failed = none := h.failed.trans hc.1
  rcases h.idx.lookup k with ⟨h1, h2⟩ | ⟨ra, rg, h1, h2, hs⟩
  · have ea : Qdb.get a k = (a, none) := by unfold Qdb.get; simp [hfa, h1]
    have eg' : Qdb.get g k = (g, none) := by unfold Qdb.get; simp [hc.1, h2]
    rw [ea, eg']; exact ⟨h, rfl⟩
  · have la := hl k ra rg h1 h2 hs
    have hcg := allCached_lookup hc.2 k rg h2
    have lg := loadrec_cached g.fs rg hcg
    have ea : Qdb.get a k = ({ a with index := iset k { rg with flags := applyBrowsingFlags rg.flags YES_CACHE } a.index },
        rg.data) := by
      unfold Qdb.get; simp [hfa, h1, la]
    have eg' : Qdb.get g k = ({ g with index := iset k { rg with flags := applyBrowsingFlags rg.flags YES_CACHE } g.index },
        rg.data) := by
      unfold Qdb.get; simp [hc.1, h2, lg]
    rw [ea, eg']
    refine ⟨⟨h.sh, h.idx.iset k _ _ (Sub.refl _), ?_, ?_, h.ge⟩, rfl⟩
    · intro j r hlk hd
      have hl' : ilookup j (iset k { rg with flags := applyBrowsingFlags rg.flags YES_CACHE } a.index) = some r := hlk
      rw [ilookup_iset] at hl'
      split at hl'
      · cases hl'
        have := hcg.1
        simp only at hd
        rw [hd] at this; cases this
      · exact h.np j r hl' hd
    · intro j r hlk hp
      have hl' : ilookup j (iset k { rg with flags := applyBrowsingFlags rg.flags YES_CACHE } a.index) = some r := hlk
      rw [ilookup_iset] at hl'
      split at hl'
      · rename_i hjk
        cases hl'
        subst hjk
        exact h.pz k ra h1 (by rw [hs.fields.2.1]; exact hp)
      · exact h.pz j r hl' hp

theorem applyFlags_lz {P : List Key} {a g : DB} (h : Lz P a g) (hc : Cached g) (k : Key) (fl : Nat) :
    Lz P (applyFlags a k fl) (applyFlags g k fl) := by
  have hfa : a.failed = none := h.failed.trans hc.1
  rcases h.idx.lookup k with ⟨h1, h2⟩ | ⟨ra, rg, h1, h2, hs⟩
  · have ea : applyFlags a k fl = a := by unfold applyFlags; simp [hfa, h1]
    have eg' : applyFlags g k fl = g := by unfold applyFlags; simp [hc.1, h2]
    rw [ea, eg']; exact h
  · have ea : applyFlags a k fl = { a with index := iset k { ra with flags := applyBrowsingFlags ra.flags fl } a.index } := by
      unfold applyFlags; simp [hfa, h1]
    have eg' : applyFlags g k fl = { g with index := iset k { rg with flags := applyBrowsingFlags rg.flags fl } g.index } := by
      unfold applyFlags; simp [hc.1, h2]
    rw [ea, eg']
    refine ⟨h.sh, h.idx.iset k _ _ (by rw [hs.fields.2.2.2]; exact hs.withFlags _), ?_, ?_, h.ge⟩
    · intro j r hlk hd
      have hl' : ilookup j (iset k { ra with flags := applyBrowsingFlags ra.flags fl } a.index) = some r := hlk
      rw [ilookup_iset] at hl'
      split at hl'
      · rename_i hjk
        cases hl'
        subst hjk
        exact h.np k ra h1 hd
      · exact h.np j r hl' hd
    · intro j r hlk hp
      have hl' : ilookup j (iset k { ra with flags := applyBrowsingFlags ra.flags fl } a.index) = some r := hlk
      rw [ilookup_iset] at hl'
      split at hl'
      · rename_i hjk
        cases hl'
        subst hjk
        exact h.pz k ra h1 hp
      · exact h.pz j r hl' hp

/-! ### memput / memdel -/

def prvLen (db : DB) (k : Key) : Option Nat := (ilookup k db.index).map (·.len)

theorem Lz.prvLen {P : List Key} {a g : DB} (h : Lz P a g) (k : Key) : prvLen a k = prvLen g k := by
  unfold C19.prvLen
  rcases h.idx.lookup k with ⟨h1, h2⟩ | ⟨ra, rg, h1, h2, hs⟩
  · rw [h1, h2]
  · rw [h1, h2]; simp [hs.fields.2.2.1]

theorem memput_shell (d d' : DB) (k : Key) (r : Rec) (hs : shell d = shell d') (hl : prvLen d k = prvLen d' k) :
    shell (memput d k r) = shell (memput d' k r) := by
  have e : { d with index := d'.index, eager := d'.eager } = d' := shell_eq hs d'.index d'.eager
  rw [← e]
  unfold C19.prvLen at hl
  rw [← e] at hl
  unfold memput
  cases h1 : ilookup k d.index with
  | none =>
    cases h2 : ilookup k d'.index with
    | none =>
      simp only [h2]
      (cases hv : d.volatile <;> by_cases hm : r.seq > d.maxSeq <;>
        simp only [hv, hm, shell, Bool.false_eq_true, ↓reduceIte, gt_iff_lt] <;> rfl)
    | some p' => rw [h1] at hl; simp [h2] at hl
  | some p =>
    cases h2 : ilookup k d'.index with
    | none => rw [h1] at hl; simp [h2] at hl
    | some p' =>
      rw [h1] at hl
      simp only [h2, Option.map_some, Option.some.injEq] at hl
      simp only [h2, hl]
      (cases hv : d.volatile <;> by_cases hm : r.seq > d.maxSeq <;>
        simp only [hv, hm, shell, Bool.false_eq_true, ↓reduceIte, gt_iff_lt] <;> rfl)

theorem memdel_shell (d d' : DB) (k : Key) (hs : shell d = shell d') (hl : prvLen d k = prvLen d' k) :
    shell (memdel d k) = shell (memdel d' k) := by
  have e : { d with index := d'.index, eager := d'.eager } = d' := shell_eq hs d'.index d'.eager
  rw [← e]
  unfold C19.prvLen at hl
  rw [← e] at hl
  unfold memdel
  cases h1 : ilookup k d.index with
  | none =>
    cases h2 : ilookup k d'.index with
    | none =>
      simp only [h2]
      rfl
    | some p' => rw [h1] at hl; simp [h2] at hl
  | some p =>
    cases h2 : ilookup k d'.index with
    | none => rw [h1] at hl; simp [h2] at hl
    | some p' =>
      rw [h1] at hl
      simp only [h2, Option.map_some, Option.some.injEq] at hl
      simp only [h2, hl]
      (cases hv : d.volatile <;> simp only [hv, shell, Bool.false_eq_true, ↓reduceIte] <;> rfl)

/-- memput of a fresh record (data in memory, no place on disk yet): `k` joins the changed keys -/
theorem memput_lz {P : List Key} {a g : DB} (h : Lz P a g) (k : Key) (r : Rec) (hr : r.data.isSome = true)
    (hp0 : r.pos = 0) : Lz (pendingAdd P k) (memput a k r) (memput g k r) := by
  have hsh := memput_shell a g k r h.sh (h.prvLen k)
  have hia := (memput_spec a k r).1
  have hig := (memput_spec g k r).1
  refine ⟨hsh, by rw [hia, hig]; exact h.idx.iset k r r (Sub.refl r), ?_, ?_, (memput_eager g k r).trans h.ge⟩
  · intro j rj hl hd
    rw [hia, ilookup_iset] at hl
    rw [mem_pendingAdd]
    split at hl
    · cases hl; rw [hd] at hr; cases hr
    · rename_i hjk
      intro hc
      rcases hc with hc | hc
      · exact hjk hc.symm
      · exact h.np j rj hl hd hc
  · intro j rj hl hp
    rw [hia, ilookup_iset] at hl
    rw [mem_pendingAdd]
    split at hl
    · cases hl; exact absurd hp0 hp
    · rename_i hjk
      intro hc
      rcases hc with hc | hc
      · exact hjk hc.symm
      · exact h.pz j rj hl hp hc

theorem memdel_lz {P : List Key} {a g : DB} (h : Lz P a g) (hnd : (Keys g.index).Nodup) (k : Key) :
    Lz (pendingAdd P k) (memdel a k) (memdel g k) := by
  have hsh := memdel_shell a g k h.sh (h.prvLen k)
  have hia := (memdel_spec a k).1
  have hig := (memdel_spec g k).1
  have hnda : (Keys a.index).Nodup := by rw [h.idx.keys]; exact hnd
  refine ⟨hsh, by rw [hia, hig]; exact h.idx.ierase k, ?_, ?_, (memdel_eager g k).trans h.ge⟩
  · intro j rj hl hd
    rw [hia, ilookup_ierase _ _ _ hnda] at hl
    rw [mem_pendingAdd]
    split at hl
    · cases hl
    · rename_i hjk
      intro hc
      rcases hc with hc | hc
      · exact hjk hc.symm
      · exact h.np j rj hl hd hc
  · intro j rj hl hp
    rw [hia, ilookup_ierase _ _ _ hnda] at hl
    rw [mem_pendingAdd]
    split at hl
    · cases hl
    · rename_i hjk
      intro hc
      rcases hc with hc | hc
      · exact hjk hc.symm
      · exact h.pz j rj hl hp hc

/-! ### functions that look neither at the index nor at the ghost field -/

def IdxFree (f : DB → DB) : Prop := ∀ d i, f (reidx d i) = reidx (f d) i

theorem IdxFree.index {f : DB → DB} (hf : IdxFree f) (d : DB) : (f (reidx d d.index)).index = d.index := by
  rw [hf d d.index]; rfl

theorem idxFree_checkDat : IdxFree checkDat := by
  intro d i
  unfold checkDat reidx
  dsimp only
  split <;> rfl

theorem idxFree_checkLog : IdxFree checkLog := by
  intro d i
  unfold checkLog reidx
  dsimp only
  split <;> rfl

theorem checkDat_index (d : DB) : (checkDat d).index = d.index := by
  unfold checkDat; split <;> rfl

theorem checkLog_index (d : DB) : (checkLog d).index = d.index := by
  unfold checkLog; split <;> rfl

theorem fail_reidx (d : DB) (w : String) (i : List (Key × Rec)) : fail (reidx d i) w = reidx (fail d w) i := by
  unfold fail reidx
  dsimp only
  split <;> rfl

theorem idxFree_logWritten (b : Bytes) : IdxFree (fun d => logWritten d b) := by
  intro d i
  unfold logWritten
  show { emit (checkLog (reidx d i)) "qdb.sync:log-written" (.appendLog b) with pending := [] } = _
  rw [idxFree_checkLog d i]
  rfl

theorem logWritten_index (d : DB) (b : Bytes) : (logWritten d b).index = d.index := by
  unfold logWritten
  exact checkLog_index d

/-! ### sync(): the real store may drop what it has just written -/

theorem syncKey_lz (d : DB) (ig : List (Key × Rec)) (b : Bytes) (k : Key) (hs : SubL d.index ig)
    (hl : ilookup k d.index = ilookup k ig)
    (hgf : ∀ r, ilookup k ig = some r → hasFlag r.flags (ncOf true) = false) :
    ∃ i', (syncKey (reidx d ig, b) k).1 = reidx (syncKey (d, b) k).1 i' ∧
      (syncKey (reidx d ig, b) k).2 = (syncKey (d, b) k).2 ∧ SubL (syncKey (d, b) k).1.index i' ∧
      (∀ j, j ≠ k → ilookup j d.index = ilookup j ig → ilookup j (syncKey (d, b) k).1.index = ilookup j i') ∧
      (∀ j, j ≠ k → ilookup j i' = ilookup j ig) := by
  have hfG : (reidx d ig).failed = d.failed := rfl
  have hiG : (reidx d ig).index = ig := rfl
  cases hf : d.failed with
  | some w =>
    have eA : syncKey (d, b) k = (d, b) := by unfold syncKey; simp only [hf]
    have eG : syncKey (reidx d ig, b) k = (reidx d ig, b) := by unfold syncKey; simp only [hfG, hf]
    rw [eA, eG]
    exact ⟨ig, rfl, rfl, hs, fun j _ hj => hj, fun _ _ => rfl⟩
  | none =>
    cases hk : ilookup k d.index with
    | none =>
      have hkG : ilookup k ig = none := by rw [← hl]; exact hk
      have eA : syncKey (d, b) k = (d, b ++ encDel k) := by unfold syncKey; simp only [hf, hk]
      have eG : syncKey (reidx d ig, b) k = (reidx d ig, b ++ encDel k) := by
        unfold syncKey; simp only [hfG, hiG, hf, hkG]
      rw [eA, eG]
      exact ⟨ig, rfl, rfl, hs, fun j _ hj => hj, fun _ _ => rfl⟩
    | some rc =>
      have hkG : ilookup k ig = some rc := by rw [← hl]; exact hk
      cases hd : rc.data with
      | none =>
        have eA : syncKey (d, b) k = (fail d "panic", b) := by unfold syncKey; simp only [hf, hk, hd]
        have eG : syncKey (reidx d ig, b) k = (fail (reidx d ig) "panic", b) := by
          unfold syncKey; simp only [hfG, hiG, hf, hkG, hd]
        rw [eA, eG]
        refine ⟨ig, fail_reidx d "panic" ig, rfl, ?_, ?_, fun _ _ => rfl⟩
        · show SubL (fail d "panic").index ig
          unfold fail; rw [hf]; exact hs
        · intro j _ hj
          show ilookup j (fail d "panic").index = _
          unfold fail; rw [hf]; exact hj
      | some val =>
        have eA : syncKey (d, b) k = syncRec d b k rc val := by unfold syncKey; simp only [hf, hk, hd]
        have eG : syncKey (reidx d ig, b) k = syncRec (reidx d ig) b k rc val := by
          unfold syncKey; simp only [hfG, hiG, hf, hkG, hd]
        rw [eA, eG]
        have hgk := hgf rc hkG
        unfold syncRec
        have hee : (emit (reidx d ig) "qdb.sync:data-written" (.writeDat (reidx d ig).dataSeq (reidx d ig).lastPos val)).eager = true := rfl
        simp only [hee, hgk, Bool.false_eq_true, ↓reduceIte]
        refine ⟨iset k { rc with pos := u32 d.lastPos, seq := d.dataSeq } ig, rfl, rfl, ?_, ?_, ?_⟩
        · show SubL (Qdb.iset k _ d.index) (Qdb.iset k _ ig)
          apply hs.iset
          split
          · exact Or.inr rfl
          · exact Or.inl rfl
        · intro j hj hjl
          show ilookup j (Qdb.iset k _ d.index) = ilookup j (Qdb.iset k _ ig)
          rw [ilookup_iset, ilookup_iset, if_neg (Ne.symm hj), if_neg (Ne.symm hj), hjl]
        · intro j hj
          rw [ilookup_iset, if_neg (Ne.symm hj)]

theorem syncFold_lz (ks : List Key) (hnd : ks.Nodup) (d : DB) (ig : List (Key × Rec)) (b : Bytes) (hs : SubL d.index ig)
    (hks : ∀ k ∈ ks, ilookup k d.index = ilookup k ig)
    (hgf : ∀ k ∈ ks, ∀ r, ilookup k ig = some r → hasFlag r.flags (ncOf true) = false) :
    ∃ i', (ks.foldl syncKey (reidx d ig, b)).1 = reidx (ks.foldl syncKey (d, b)).1 i' ∧
      (ks.foldl syncKey (reidx d ig, b)).2 = (ks.foldl syncKey (d, b)).2 ∧
      SubL (ks.foldl syncKey (d, b)).1.index i' := by
  induction ks generalizing d ig b with
  | nil => exact ⟨ig, rfl, rfl, hs⟩
  | cons k t ih =>
    simp only [List.foldl_cons]
    obtain ⟨hkt, hndt⟩ := List.nodup_cons.mp hnd
    obtain ⟨i1, e1, e2, s1, l1, l2⟩ := syncKey_lz d ig b k hs (hks k List.mem_cons_self) (hgf k List.mem_cons_self)
    have hst : syncKey (reidx d ig, b) k = (reidx (syncKey (d, b) k).1 i1, (syncKey (d, b) k).2) := by
      rw [← e1, ← e2]
    rw [hst]
    have hne : ∀ k' ∈ t, k' ≠ k := fun k' hk' he => hkt (he ▸ hk')
    exact ih hndt (syncKey (d, b) k).1 i1 (syncKey (d, b) k).2 s1
      (fun k' hk' => l1 k' (hne k' hk') (hks k' (List.mem_cons_of_mem _ hk')))
      (fun k' hk' r hr => hgf k' (List.mem_cons_of_mem _ hk') r (by rw [← l2 k' (hne k' hk')]; exact hr))

/-! ### defrag(): every record is loaded and moved; the real store may drop what it has just moved -/

theorem bufWrite_reidx (sink : DB → Bytes → DB) (hsink : ∀ d b i, sink (reidx d i) b = reidx (sink d b) i)
    (d : DB) (w : BufW) (p : Bytes) (i : List (Key × Rec)) :
    bufWrite sink (reidx d i) w p = (reidx (bufWrite sink d w p).1 i, (bufWrite sink d w p).2) := by
  unfold bufWrite
  split
  · rfl
  · split
    · simp only [hsink]
    · dsimp only
      split
      · simp only [hsink]
      · simp only [hsink]

theorem bufFlush_reidx (sink : DB → Bytes → DB) (hsink : ∀ d b i, sink (reidx d i) b = reidx (sink d b) i)
    (d : DB) (w : BufW) (i : List (Key × Rec)) :
    bufFlush sink (reidx d i) w = reidx (bufFlush sink d w) i := by
  unfold bufFlush
  split
  · rfl
  · exact hsink _ _ _

theorem bufWriteAll_reidx (sink : DB → Bytes → DB) (hsink : ∀ d b i, sink (reidx d i) b = reidx (sink d b) i)
    (ps : List Bytes) (d : DB) (w : BufW) (i : List (Key × Rec)) :
    bufWriteAll sink (reidx d i) w ps = (reidx (bufWriteAll sink d w ps).1 i, (bufWriteAll sink d w ps).2) := by
  unfold bufWriteAll
  induction ps generalizing d w with
  | nil => rfl
  | cons p t ih =>
    simp only [List.foldl_cons]
    rw [bufWrite_reidx sink hsink]
    exact ih _ _

theorem defragSink_reidx (S : Nat) (d : DB) (b : Bytes) (i : List (Key × Rec)) :
    defragSink S (reidx d i) b = reidx (defragSink S d b) i := rfl

theorem idxSink_reidx (j : Nat) (d : DB) (b : Bytes) (i : List (Key × Rec)) :
    idxSink j (reidx d i) b = reidx (idxSink j d b) i := rfl

theorem idxWrites_sub (la lg : List (Key × Rec)) (h : SubL la lg) (v : Nat) : idxWrites la v = idxWrites lg v := by
  unfold idxWrites
  congr 2
  induction la generalizing lg with
  | nil =>
    cases lg with
    | nil => rfl
    | cons y t => exact absurd h (by simp [SubL])
  | cons x ta ih =>
    cases lg with
    | nil => exact absurd h (by simp [SubL])
    | cons y tg =>
      obtain ⟨ka, ra⟩ := x
      obtain ⟨kg, rg⟩ := y
      obtain ⟨rfl, hs, ht⟩ := h
      obtain ⟨f1, f2, f3, f4⟩ := hs.fields
      simp only [List.flatMap_cons, f1, f2, f3, f4, ih tg ht]

/-- writedatfile writes the same snapshot for both stores -/
theorem writedatfile_sub (x : DB) (ig : List (Key × Rec)) (h : SubL x.index ig) :
    writedatfile (reidx x ig) = reidx (writedatfile x) ig := by
  unfold writedatfile
  dsimp only
  have hw : idxWrites (reidx x ig).index (u32 ((reidx x ig).verSeq + 1)) = idxWrites x.index (u32 (x.verSeq + 1)) :=
    (idxWrites_sub _ _ h _).symm
  have e0 : (emit { reidx x ig with datIdx := 1 - (reidx x ig).datIdx, verSeq := u32 ((reidx x ig).verSeq + 1) }
      "qdb.writedatfile:created" (.createIdx (1 - (reidx x ig).datIdx))) =
      reidx (emit { x with datIdx := 1 - x.datIdx, verSeq := u32 (x.verSeq + 1) }
      "qdb.writedatfile:created" (.createIdx (1 - x.datIdx))) ig := rfl
  show emit (emit { bufFlush (idxSink (1 - (reidx x ig).datIdx))
      (bufWriteAll (idxSink (1 - (reidx x ig).datIdx)) _ {} (idxWrites (reidx x ig).index (u32 ((reidx x ig).verSeq + 1)))).1
      (bufWriteAll (idxSink (1 - (reidx x ig).datIdx)) _ {} (idxWrites (reidx x ig).index (u32 ((reidx x ig).verSeq + 1)))).2
      with logOpen := false } _ _) _ _ = _
  rw [hw, e0, bufWriteAll_reidx _ (idxSink_reidx _), bufFlush_reidx _ (idxSink_reidx _)]
  rfl

theorem cleanupold_reidx (x : DB) (used : List Nat) (i : List (Key × Rec)) :
    cleanupold (reidx x i) used = reidx (cleanupold x used) i := by
  unfold cleanupold
  have hd : (reidx x i).fs = x.fs := rfl
  rw [hd]
  generalize (sortNat (x.fs.dats.map (·.1))) = l
  induction l generalizing x with
  | nil => rfl
  | cons s t ih =>
    simp only [List.foldl_cons]
    have hds : (reidx x i).dataSeq = x.dataSeq := rfl
    by_cases hc : s ≠ x.dataSeq ∧ ¬ used.contains s = true
    · rw [if_pos (by rw [hds]; exact hc), if_pos hc]
      exact ih (emit x "qdb.cleanupold:removed" (.removeDat s)) rfl
    · rw [if_neg (by rw [hds]; exact hc), if_neg hc]
      exact ih x rfl

theorem defragFinish_sub (S : Nat) (d : DB) (w : BufW) (accA accG ig : List (Key × Rec)) (h : SubL accA accG) :
    defragFinish S (reidx d ig) w accG = reidx (defragFinish S d w accA) accG := by
  unfold defragFinish
  have e1 : ({ reidx d ig with index := accG } : DB) = reidx { d with index := accA } accG := rfl
  have hemp : accG.isEmpty = accA.isEmpty := by
    have := h.length
    cases accA <;> cases accG <;> simp_all
  dsimp only
  rw [e1, bufFlush_reidx _ (defragSink_reidx S), writedatfile_sub _ _ (by
    show SubL (bufFlush (defragSink S) { d with index := accA } w).index accG
    have : (bufFlush (defragSink S) { d with index := accA } w).index = accA :=
      (frame_bufFlush _ (defragSink_framed S) { d with index := accA } w).index
    rw [this]; exact h), cleanupold_reidx, hemp]
  rfl

/-- the data files other than `S` -/
def offS (S : Nat) (F : FS) : Nat → Option Bytes := fun t => if t = S then none else dlookup t F.dats

theorem loadrec_offS (S : Nat) (F F' : FS) (r : Rec) (hr : r.seq ≠ S) (h : offS S F = offS S F') :
    Qdb.loadrec F r = Qdb.loadrec F' r := by
  have := congrFun h r.seq
  unfold offS at this
  simp only [hr, ↓reduceIte] at this
  unfold Qdb.loadrec
  rw [this]

theorem defragSink_offS (S : Nat) (d : DB) (b : Bytes) : offS S (defragSink S d b).fs = offS S d.fs := by
  have := defragSink_rest S d b
  unfold datRest at this
  simp only [Prod.mk.injEq] at this
  exact this.2.2.2.1

/-- one record of defrag's browse, on both sides -/
theorem defragRec_lz (S : Nat) (d : DB) (hf : d.failed = none) (w : BufW) (accA accG ig : List (Key × Rec)) (k : Key)
    (ra rg : Rec) (hla : Qdb.loadrec d.fs ra = some rg) (hlg : Qdb.loadrec d.fs rg = some rg)
    (hgf : hasFlag rg.flags (ncOf true) = false) :
    ∃ d' w' rA rG, Sub rA rG ∧ d'.failed = none ∧ offS S d'.fs = offS S d.fs ∧
      defragRec (defragSink S) (d, w, accA) (k, ra) = (d', w', accA ++ [(k, rA)]) ∧
      defragRec (defragSink S) (reidx d ig, w, accG) (k, rg) = (reidx d' ig, w', accG ++ [(k, rG)]) := by
  have hfr := frame_bufWrite (defragSink S) (defragSink_framed S) d w (rg.data.getD [])
  have hoff : offS S (bufWrite (defragSink S) d w (rg.data.getD [])).1.fs = offS S d.fs :=
    (bufWrite_gen (defragSink S) (datFile S) (fun x => offS S x.fs) (defragSink_file S)
      (defragSink_offS S) d w (rg.data.getD [])).2
  refine ⟨{ (bufWrite (defragSink S) d w (rg.data.getD [])).1 with
      lastPos := (bufWrite (defragSink S) d w (rg.data.getD [])).1.lastPos + (rg.data.getD []).length },
    (bufWrite (defragSink S) d w (rg.data.getD [])).2,
    freerec (bufWrite (defragSink S) d w (rg.data.getD [])).1.eager { rg with pos := u32 d.lastPos, seq := (bufWrite (defragSink S) d w (rg.data.getD [])).1.dataSeq },
    { rg with pos := u32 d.lastPos, seq := (bufWrite (defragSink S) d w (rg.data.getD [])).1.dataSeq }, ?_, ?_, hoff, ?_, ?_⟩
  · unfold freerec
    split
    · exact Or.inr rfl
    · exact Or.inl rfl
  · exact hfr.failed.trans hf
  · unfold defragRec
    simp only [hf, hla]
  · unfold defragRec
    have hfG : (reidx d ig).failed = none := hf
    have hfs : (reidx d ig).fs = d.fs := rfl
    simp only [hfG, hfs, hlg]
    rw [bufWrite_reidx _ (defragSink_reidx S)]
    have hlp : (reidx d ig).lastPos = d.lastPos := rfl
    simp only [hlp]
    rw [show ({ reidx (bufWrite (defragSink S) d w (rg.data.getD [])).1 ig with
        lastPos := (reidx (bufWrite (defragSink S) d w (rg.data.getD [])).1 ig).lastPos + (rg.data.getD []).length } : DB).eager
        = true from rfl]
    rw [freerec_cached true _ (by exact hgf)]
    rfl

theorem defragFold_lz (S : Nat) (F0 : FS) (la lg : List (Key × Rec)) (hs : SubL la lg)
    (hc : ∀ k ra rg, (k, ra) ∈ la → (k, rg) ∈ lg → Sub ra rg → ∀ F, offS S F = offS S F0 →
      Qdb.loadrec F ra = some rg ∧ Qdb.loadrec F rg = some rg)
    (hgf : ∀ kr ∈ lg, hasFlag kr.2.flags (ncOf true) = false)
    (d : DB) (hf : d.failed = none) (w : BufW) (accA accG ig : List (Key × Rec)) (hacc : SubL accA accG)
    (hd : offS S d.fs = offS S F0) :
    ∃ d' w' rA rG, SubL rA rG ∧ d'.failed = none ∧
      la.foldl (defragRec (defragSink S)) (d, w, accA) = (d', w', rA) ∧
      lg.foldl (defragRec (defragSink S)) (reidx d ig, w, accG) = (reidx d' ig, w', rG) := by
  induction la generalizing lg d w accA accG with
  | nil =>
    cases lg with
    | nil => exact ⟨d, w, accA, accG, hacc, hf, rfl, rfl⟩
    | cons y t => exact absurd hs (by simp [SubL])
  | cons x ta ih =>
    cases lg with
    | nil => exact absurd hs (by simp [SubL])
    | cons y tg =>
      obtain ⟨ka, ra⟩ := x
      obtain ⟨kg, rg⟩ := y
      obtain ⟨rfl, hsub, ht⟩ := hs
      obtain ⟨l1, l2⟩ := hc ka ra rg List.mem_cons_self List.mem_cons_self hsub d.fs hd
      obtain ⟨d1, w1, rA, rG, hsr, hf1, ho1, ea, eg'⟩ :=
        defragRec_lz S d hf w accA accG ig ka ra rg l1 l2 (hgf (ka, rg) List.mem_cons_self)
      simp only [List.foldl_cons, ea, eg']
      exact ih tg ht (fun k r1 r2 h1 h2 h3 => hc k r1 r2 (List.mem_cons_of_mem _ h1) (List.mem_cons_of_mem _ h2) h3)
        (fun kr hkr => hgf kr (List.mem_cons_of_mem _ hkr)) d1 hf1 w1 _ _ (hacc.snoc ka rA rG hsr) (ho1.trans hd)

theorem idxFree_defragStart : IdxFree defragStart := by
  intro d i
  unfold defragStart
  exact idxFree_checkDat { d with dataSeq := u32 (d.dataSeq + 1), datOpen := false } i

theorem defragStart_offS (d : DB) : offS (u32 (d.dataSeq + 1)) (defragStart d).fs = offS (u32 (d.dataSeq + 1)) d.fs := by
  unfold defragStart checkDat
  simp only [Bool.false_eq_true, ↓reduceIte]
  unfold offS emit FS.apply
  funext t
  by_cases ht : t = u32 (d.dataSeq + 1)
  · simp [ht]
  · simp only [ht, ↓reduceIte, dlookup_dset_same]
    rw [dlookup_dset_other _ _ _ _ ht, dlookup_dset_other _ _ _ _ ht]

/-- defrag() on both sides: same file operations; afterwards nothing is pending and what the real store dropped
    again is on disk. `hseqs`: no record of the real store lives in the data file defrag is about to create. -/
theorem defrag_lz {P : List Key} {a g : DB} (h : Lz P a g) (hc : Cached g) (hnd : (Keys g.index).Nodup)
    (hl : Loads a g) (hseqs : ∀ k r, ilookup k a.index = some r → r.data = none → r.seq ≠ u32 (a.dataSeq + 1)) :
    Lz [] (defrag a) (defrag g) := by
  have hS : (defragStart a).dataSeq = u32 (a.dataSeq + 1) := (defragStart_disk a).2.2.1
  have hai : (defragStart a).index = a.index := (defragStart_disk a).2.2.2.1
  have haf : (defragStart a).failed = none := (defragStart_disk a).2.2.2.2.1.trans (h.failed.trans hc.1)
  have hnda : (Keys a.index).Nodup := by rw [h.idx.keys]; exact hnd
  have hcc : ∀ k ra rg, (k, ra) ∈ a.index → (k, rg) ∈ g.index → Sub ra rg → ∀ F,
      offS (u32 (a.dataSeq + 1)) F = offS (u32 (a.dataSeq + 1)) (defragStart a).fs →
      Qdb.loadrec F ra = some rg ∧ Qdb.loadrec F rg = some rg := by
    intro k ra rg hma hmg hsub F hF
    have hla := ilookup_of_mem_nodup a.index hnda k ra hma
    have hlg := ilookup_of_mem_nodup g.index hnd k rg hmg
    have hcg := allCached_lookup hc.2 k rg hlg
    refine ⟨?_, loadrec_cached F rg hcg⟩
    rcases hsub with rfl | hra
    · exact loadrec_cached F ra hcg
    · have hne := hseqs k ra hla (by rw [hra])
      rw [loadrec_offS _ F a.fs ra hne (hF.trans (defragStart_offS a))]
      exact hl k ra rg hla hlg (Or.inr hra)
  have hgf : ∀ kr ∈ g.index, hasFlag kr.2.flags (ncOf true) = false := by
    intro kr hkr
    have := (hc.2 kr hkr).2
    rw [h.ge] at this
    exact this
  obtain ⟨d', w', rA, rG, hsr, hf', ea, eg'⟩ := defragFold_lz (u32 (a.dataSeq + 1)) (defragStart a).fs a.index g.index
    h.idx hcc hgf (defragStart a) haf {} [] [] g.index trivial rfl
  have hda : defrag a = defragFinish (u32 (a.dataSeq + 1)) d' w' rA := by
    unfold defrag
    dsimp only
    rw [hS, hai, ea]
    simp only [hf']
  have hdg : defrag g = reidx (defragFinish (u32 (a.dataSeq + 1)) d' w' rA) rG := by
    rw [← h.g_reidx]
    unfold defrag
    dsimp only
    rw [idxFree_defragStart a g.index]
    have e1 : (reidx (defragStart a) g.index).dataSeq = u32 (a.dataSeq + 1) := hS
    have e2 : (reidx (defragStart a) g.index).index = g.index := rfl
    rw [e1, e2, eg']
    have hfg : (reidx d' g.index).failed = none := hf'
    simp only [hfg]
    exact defragFinish_sub _ d' w' rA rG g.index hsr
  rw [hda, hdg]
  refine ⟨rfl, ?_, fun _ _ _ _ => List.not_mem_nil, fun _ _ _ _ => List.not_mem_nil, rfl⟩
  show SubL (defragFinish (u32 (a.dataSeq + 1)) d' w' rA).index rG
  rw [(defragFinish_spec _ d' w' rA).1]
  exact hsr

/-- a record that is not in memory lives in a data file older than the one defrag creates -/
theorem Lz.lazy_seq {P : List Key} {a g : DB} (h : Lz P a g) (G : DB) (hi : G.index = g.index) (hf : G.fs = g.fs)
    (hp : G.pending = P) (hds : G.dataSeq = g.dataSeq) (h3 : Inv3 G) (hseq : G.dataSeq + 1 < 2^32) :
    ∀ k r, ilookup k a.index = some r → r.data = none → r.seq ≠ u32 (a.dataSeq + 1) := by
  intro k ra hla hd
  rcases h.idx.lookup k with ⟨h1, _⟩ | ⟨ra', rg, h1, h2, hs⟩
  · rw [h1] at hla; cases hla
  · rw [h1] at hla; cases hla
    have hnp : k ∉ G.pending := by rw [hp]; exact h.np k ra h1 hd
    have hcl := h3.inv.clean k hnp
    rw [hi, h2] at hcl
    cases hdi : ilookup k (diskIndex G.fs) with
    | none => rw [hdi] at hcl; cases hcl
    | some rd =>
      rw [hdi] at hcl
      simp only [Option.map_some, Option.some.injEq, core, Prod.mk.injEq] at hcl
      have hle := h3.i2.seqs (k, rd) (ilookup_key_pair k rd _ hdi)
      have hu : u32 (a.dataSeq + 1) = a.dataSeq + 1 := Nat.mod_eq_of_lt (by rw [h.dataSeq, ← hds]; exact hseq)
      rw [hu, hs.fields.1, h.dataSeq, ← hds]
      have h1' : rd.seq = rg.seq := hcl.1
      have h2' : rd.seq ≤ G.dataSeq := hle
      omega

/-- sync() acts on both stores in lock step -/
theorem sync_lz {a g : DB} (h : Lz a.pending a g) (h3 : Inv3 g) (hs : SizeOK g) (hseq : g.dataSeq + 1 < 2^32) :
    Lz (sync a).pending (sync a) (sync g) := by
  have inv := h3.inv
  have hva : a.volatile = false := h.volatile.trans inv.nv
  cases hp : g.pending.isEmpty with
  | true =>
    have e1 : sync g = g := by unfold sync; simp [inv.nv, hp]
    have e2 : sync a = a := by unfold sync; simp [hva, h.pending, hp]
    rw [e1, e2]; exact h
  | false =>
    obtain ⟨L, hL, h3L, _, pL, _, _, hLds, hLdef, _⟩ := sync_logWritten3 g h3 hp hs
    have hcd : checkDat g = reidx (checkDat a) g.index := by
      rw [← h.g_reidx]; exact idxFree_checkDat a g.index
    have hks : ∀ k ∈ a.pending, ilookup k (checkDat a).index = ilookup k g.index := by
      intro k hk
      rw [checkDat_index]
      rcases h.idx.lookup k with ⟨h1, h2⟩ | ⟨ra, rg, h1, h2, hsub⟩
      · rw [h1, h2]
      · rcases hsub with rfl | hra
        · rw [h1, h2]
        · exact absurd hk (h.np k ra h1 (by rw [hra]))
    have hgf : ∀ k ∈ a.pending, ∀ r, ilookup k g.index = some r → hasFlag r.flags (ncOf true) = false := by
      intro k _ r hr
      have := (allCached_lookup inv.cached.2 k r hr).2
      rw [h.ge] at this; exact this
    obtain ⟨i', f1, f2, f3⟩ := syncFold_lz a.pending (by rw [h.pending]; exact inv.pnodup) (checkDat a) g.index []
      (by rw [checkDat_index]; exact h.idx) hks hgf
    generalize hFa : a.pending.foldl syncKey (checkDat a, []) = Fa at f1 f2 f3
    have hFg : g.pending.foldl syncKey (checkDat g, []) = (reidx Fa.1 i', Fa.2) := by
      rw [← h.pending, hcd, ← f1, ← f2]
    rw [hFg] at hLdef
    have hLM : L = reidx (logWritten Fa.1 Fa.2) i' := by
      rw [hLdef]; exact idxFree_logWritten Fa.2 Fa.1 i'
    have hM : Lz [] (logWritten Fa.1 Fa.2) L := by
      rw [hLM]
      refine ⟨rfl, ?_, fun _ _ _ _ => List.not_mem_nil, fun _ _ _ _ => List.not_mem_nil, rfl⟩
      show SubL (logWritten Fa.1 Fa.2).index i'
      rw [logWritten_index]; exact f3
    have hLf : L.failed = none := h3L.inv.cached.1
    have hFaf : Fa.1.failed = none := by
      have : (reidx (logWritten Fa.1 Fa.2) i').failed = none := by rw [← hLM]; exact hLf
      have h2 : (logWritten Fa.1 Fa.2).failed = Fa.1.failed := by
        unfold logWritten checkLog; split <;> rfl
      rw [← h2]; exact this
    have ea : sync a = (if (logWritten Fa.1 Fa.2).extra > mul64 (logWritten Fa.1 Fa.2).opts.forcedPerc (logWritten Fa.1 Fa.2).need / 100
        then defrag (logWritten Fa.1 Fa.2) else logWritten Fa.1 Fa.2) := by
      unfold sync
      rw [if_neg (by simp [hva]), if_neg (by rw [h.pending]; simp [hp])]
      simp only [hFa, hFaf]
      rfl
    have hext : (logWritten Fa.1 Fa.2).extra = L.extra ∧ (logWritten Fa.1 Fa.2).opts = L.opts ∧
        (logWritten Fa.1 Fa.2).need = L.need := by rw [hLM]; exact ⟨rfl, rfl, rfl⟩
    have R : Lz [] (sync a) (sync g) := by
      rw [ea, hL, hext.1, hext.2.1, hext.2.2]
      split
      · exact defrag_lz hM h3L.inv.cached h3L.inv.nodup (hM.loads L rfl rfl pL h3L.inv)
          (hM.lazy_seq L rfl rfl pL rfl h3L (by rw [hLds]; exact hseq))
      · exact hM
    have hpe : (sync a).pending = [] := R.pending.trans (sync_inv g inv hs).2.2.1
    rw [hpe]
    exact R

/-! ### Browse: the real store may drop what it has just shown -/

theorem freerec_sub (e : Bool) (r : Rec) : Sub (freerec e r) r := by
  unfold freerec
  split
  · exact Or.inr rfl
  · exact Or.inl rfl

theorem freerec_pos (e : Bool) (r : Rec) : (freerec e r).pos = r.pos := by
  unfold freerec; split <;> rfl

theorem freerec_none (e : Bool) (r : Rec) (hd : r.data.isSome = true) (h : (freerec e r).data = none) : r.pos ≠ 0 := by
  unfold freerec at h
  split at h
  · rename_i hc
    simp only [Bool.and_eq_true, bne_iff_ne, ne_eq] at hc
    exact hc.2
  · rw [h] at hd; cases hd

/-- the index Browse leaves in the real store (`ea` is its ghost field): skipped records stay, visited ones are
    loaded, flagged, and possibly dropped again -/
def mixL (all : Bool) (w : List (Key × Nat)) (vs : Option (List Key)) (ea : Bool) : List (Key × Rec) → List (Key × Rec) → List (Key × Rec)
  | (ka, ra) :: ta, (kg, rg) :: tg =>
      (if skipB all vs rg.flags kg then (ka, ra)
       else (kg, freerec ea { rg with flags := applyBrowsingFlags rg.flags (walkRes w kg) })) :: mixL all w vs ea ta tg
  | _, _ => []

theorem mixL_subL (all : Bool) (w : List (Key × Nat)) (vs : Option (List Key)) (ea : Bool) (la lg : List (Key × Rec)) (h : SubL la lg) :
    SubL (mixL all w vs ea la lg) (lg.map (browseRec all w vs)) := by
  induction la generalizing lg with
  | nil =>
    cases lg with
    | nil => trivial
    | cons y t => exact absurd h (by simp [SubL])
  | cons x ta ih =>
    cases lg with
    | nil => exact absurd h (by simp [SubL])
    | cons y tg =>
      obtain ⟨ka, ra⟩ := x
      obtain ⟨kg, rg⟩ := y
      obtain ⟨rfl, hs, ht⟩ := h
      simp only [mixL, List.map_cons]
      by_cases hb : skipB all vs rg.flags ka = true
      · have e : browseRec all w vs (ka, rg) = (ka, rg) := by unfold browseRec; simp only [hb, ↓reduceIte]
        rw [e]
        simp only [hb, ↓reduceIte]
        exact ⟨rfl, hs, ih tg ht⟩
      · have e : browseRec all w vs (ka, rg) = (ka, { rg with flags := applyBrowsingFlags rg.flags (walkRes w ka) }) := by
          unfold browseRec; simp [hb]
        rw [e]
        simp only [hb, Bool.false_eq_true, ↓reduceIte]
        exact ⟨rfl, freerec_sub _ _, ih tg ht⟩

/-- a record of the new index comes from a record of the old one at the same place on disk; if it is not in memory,
    the old one was not in memory or is on disk -/
theorem mixL_lookup (all : Bool) (w : List (Key × Nat)) (vs : Option (List Key)) (ea : Bool) (la lg : List (Key × Rec)) (h : SubL la lg)
    (hc : ∀ kr ∈ lg, kr.2.data.isSome = true) (k : Key) (r : Rec) (hl : ilookup k (mixL all w vs ea la lg) = some r) :
    ∃ ra, ilookup k la = some ra ∧ ra.pos = r.pos ∧ (r.data = none → ra.data = none ∨ ra.pos ≠ 0) := by
  induction la generalizing lg with
  | nil =>
    cases lg with
    | nil => simp [mixL, ilookup] at hl
    | cons y t => exact absurd h (by simp [SubL])
  | cons x ta ih =>
    cases lg with
    | nil => exact absurd h (by simp [SubL])
    | cons y tg =>
      obtain ⟨ka, ra⟩ := x
      obtain ⟨kg, rg⟩ := y
      obtain ⟨rfl, hs, ht⟩ := h
      have hcg := hc (ka, rg) List.mem_cons_self
      simp only [mixL] at hl
      by_cases hb : skipB all vs rg.flags ka = true
      · simp only [hb, ↓reduceIte, ilookup] at hl ⊢
        by_cases hk : ka = k
        · subst hk
          simp only [↓reduceIte] at hl ⊢
          cases hl
          exact ⟨_, rfl, rfl, fun hd => Or.inl hd⟩
        · simp only [hk, ↓reduceIte] at hl ⊢
          exact ih tg ht (fun x hx => hc x (List.mem_cons_of_mem _ hx)) hl
      · simp only [hb, Bool.false_eq_true, ↓reduceIte, ilookup] at hl ⊢
        by_cases hk : ka = k
        · subst hk
          simp only [↓reduceIte] at hl ⊢
          cases hl
          refine ⟨ra, rfl, ?_, fun hd => Or.inr ?_⟩
          · rw [freerec_pos]; exact hs.fields.2.1
          · have := freerec_none ea { rg with flags := applyBrowsingFlags rg.flags (walkRes w ka) } hcg hd
            rw [hs.fields.2.1]; exact this
        · simp only [hk, ↓reduceIte] at hl ⊢
          exact ih tg ht (fun x hx => hc x (List.mem_cons_of_mem _ hx)) hl

theorem browseFold_lz (all : Bool) (w : List (Key × Nat)) (vs : Option (List Key)) (db : DB) (hf : db.failed = none)
    (la lg : List (Key × Rec)) (hs : SubL la lg)
    (hload : ∀ k ra rg, (k, ra) ∈ la → (k, rg) ∈ lg → Sub ra rg → Qdb.loadrec db.fs ra = some rg)
    (acc : List (Key × Rec)) (out : List (Key × Bytes)) :
    la.foldl (browseStep all w vs) (db, acc, out) =
      (db, acc ++ mixL all w vs db.eager la lg, out ++ lg.filterMap (browseOut all vs)) := by
  induction la generalizing lg acc out with
  | nil =>
    cases lg with
    | nil => simp [mixL]
    | cons y t => exact absurd hs (by simp [SubL])
  | cons x ta ih =>
    cases lg with
    | nil => exact absurd hs (by simp [SubL])
    | cons y tg =>
      obtain ⟨ka, ra⟩ := x
      obtain ⟨kg, rg⟩ := y
      obtain ⟨rfl, hsub, ht⟩ := hs
      have hfl : ra.flags = rg.flags := hsub.fields.2.2.2
      have hstep : browseStep all w vs (db, acc, out) (ka, ra) =
          (db, acc ++ [if skipB all vs rg.flags ka then (ka, ra)
            else (ka, freerec db.eager { rg with flags := applyBrowsingFlags rg.flags (walkRes w ka) })],
           out ++ (browseOut all vs (ka, rg)).toList) := by
        unfold browseStep browseOut
        simp only [hf, hfl]
        by_cases hb : skipB all vs rg.flags ka = true
        · simp [hb]
        · simp only [hb, ↓reduceIte]
          rw [hload ka ra rg List.mem_cons_self List.mem_cons_self hsub]
          simp
      simp only [List.foldl_cons, hstep]
      rw [ih tg ht
        (fun k r1 r2 h1 h2 h3 => hload k r1 r2 (List.mem_cons_of_mem _ h1) (List.mem_cons_of_mem _ h2) h3)]
      simp only [mixL, List.filterMap_cons]
      cases hb : browseOut all vs (ka, rg) <;> simp

/-- eligibility looks at keys and flag words only: the real store's index and its ghost's give the same visit set -/
theorem eligible_subL (all : Bool) {la lg : List (Key × Rec)} (h : SubL la lg) (k : Key) :
    eligible Rec.flags all la k = eligible Rec.flags all lg k := by
  unfold eligible
  rcases h.lookup k with ⟨h1, h2⟩ | ⟨ra, rg, h1, h2, hs⟩
  · rw [h1, h2]
  · rw [h1, h2]; simp only [hs.fields.2.2.2]

theorem vsOf_lz (all : Bool) {P : List Key} {a g : DB} (h : Lz P a g) (w : List (Key × Nat)) :
    vsOf all a w = vsOf all g w := by
  unfold vsOf visitSet
  exact visitSetAux_congr _ _ (eligible_subL all h.idx) w []

theorem browseGen_lz (all : Bool) {P : List Key} {a g : DB} (h : Lz P a g) (hc : Cached g) (hnd : (Keys g.index).Nodup)
    (hl : Loads a g) (w : List (Key × Nat)) (hw : WalkOK true w) :
    Lz P (browseGen all a w).1 (browseGen all g w).1 ∧ (browseGen all a w).2 = (browseGen all g w).2 := by
  have hfa : a.failed = none := h.failed.trans hc.1
  obtain ⟨g1, g2⟩ := browseGen_cached all g w hc (by rw [h.ge]; exact hw)
  have hnda : (Keys a.index).Nodup := by rw [h.idx.keys]; exact hnd
  have hvs : visitSet Rec.flags all a.index w = vsOf all g w := vsOf_lz all h w
  generalize vsOf all g w = vs at hvs g1 g2
  have hfold := browseFold_lz all w vs a hfa a.index g.index h.idx
    (fun k ra rg h1 h2 h3 => hl k ra rg (ilookup_of_mem_nodup _ hnda k ra h1)
      (ilookup_of_mem_nodup _ hnd k rg h2) h3) [] []
  have ea : browseGen all a w = ({ a with index := mixL all w vs a.eager a.index g.index }, g.index.filterMap (browseOut all vs)) := by
    unfold browseGen
    simp only [hfa, Option.isSome_none, Bool.false_eq_true, ↓reduceIte]
    rw [hvs, hfold]
    simp [hfa]
  rw [ea, g1, g2]
  have hcd : ∀ kr ∈ g.index, kr.2.data.isSome = true := fun kr hkr => (hc.2 kr hkr).1
  refine ⟨⟨h.sh, mixL_subL all w vs _ _ _ h.idx, ?_, ?_, h.ge⟩, rfl⟩
  · intro k r hlk hd
    obtain ⟨ra, h1, h2, h3⟩ := mixL_lookup all w vs a.eager _ _ h.idx hcd k r hlk
    rcases h3 hd with h4 | h4
    · exact h.np k ra h1 h4
    · exact h.pz k ra h1 h4
  · intro k r hlk hp
    obtain ⟨ra, h1, h2, _⟩ := mixL_lookup all w vs a.eager _ _ h.idx hcd k r hlk
    exact h.pz k ra h1 (by rw [h2]; exact hp)

/-! ### every operation of a non-volatile store other than a reopen -/

theorem Lz.cast {P Q : List Key} {a g : DB} (h : Lz P a g) (e : P = Q) : Lz Q a g := e ▸ h

theorem syncneeded_shell {a g : DB} (h : shell a = shell g) : syncneeded a = syncneeded g := by
  have h1 : a.volatile = g.volatile := (congrArg DB.volatile h : (shell a).volatile = (shell g).volatile)
  have h2 : a.pending = g.pending := (congrArg DB.pending h : (shell a).pending = (shell g).pending)
  have h3 : a.opts = g.opts := (congrArg DB.opts h : (shell a).opts = (shell g).opts)
  have h4 : a.noSync = g.noSync := (congrArg DB.noSync h : (shell a).noSync = (shell g).noSync)
  unfold syncneeded
  rw [h1, h2, h3, h4]

theorem addPending_lz {P : List Key} {Ma Mg : DB} (k : Key) (h : Lz P Ma Mg) (hp : pendingAdd Ma.pending k = P) :
    Lz (addPending Ma k).pending (addPending Ma k) (addPending Mg k) := by
  have hpe : Ma.pending = Mg.pending := h.pending
  subst hp
  rw [addPending_same, addPending_same, ← hpe]
  exact ⟨congrArg (fun d : DB => { d with pending := pendingAdd Ma.pending k }) h.sh, h.idx, h.np, h.pz, h.ge⟩

theorem afterChange_lz (Ma Mg : DB) (k : Key) (h : Lz (addPending Ma k).pending (addPending Ma k) (addPending Mg k))
    (h3 : Inv3 (addPending Mg k)) (hs : SizeOK (addPending Mg k)) (hseq : (addPending Mg k).dataSeq + 1 < 2^32)
    (hva : Ma.volatile = false) (hvg : Mg.volatile = false) :
    Lz (afterChange Ma k).pending (afterChange Ma k) (afterChange Mg k) := by
  unfold afterChange
  simp only [hva, hvg, Bool.false_eq_true, ↓reduceIte]
  rw [syncneeded_shell h.sh]
  split
  · exact sync_lz h h3 hs hseq
  · exact h

theorem step_lz {a g : DB} (h : Lz a.pending a g) (h3 : Inv3 g) (op : Op) (hnr : ∀ x y z, op ≠ .reopen x y z)
    (ok : OpOK true op) (fits : OpFits g op) (hseq : (preSync g op).dataSeq + 1 < 2^32) :
    Lz (step a op).pending (step a op) (step g op) := by
  have inv := h3.inv
  have i2 := h3.i2
  have hfa : a.failed = none := h.failed.trans inv.cached.1
  have hva : a.volatile = false := h.volatile.trans inv.nv
  have hl : Loads a g := h.loads g rfl rfl h.pending.symm inv
  have okg : ∀ {o : Op}, OpOK true o → OpOK g.eager o := fun ho => by rw [h.ge]; exact ho
  cases op with
  | reopen x y z => exact absurd rfl (hnr x y z)
  | put k v =>
    obtain ⟨f1, f2, f3⟩ := fits
    show Lz (putExt a k v 0).pending (putExt a k v 0) (putExt g k v 0)
    unfold putExt
    rw [if_neg (by simp [hfa]), if_neg (notFailed inv.cached)]
    obtain ⟨e, n, m, hmp⟩ := memput_same g k (newRec v 0)
    obtain ⟨e', n', m', hmpa⟩ := memput_same a k (newRec v 0)
    have hM := putExt_addPending_inv g inv k v 0 f1 f2 (by decide) (zeroFlags_ok _)
    have hM2 : Inv2 (addPending (memput g k (newRec v 0)) k) := by
      rw [addPending_same, hmp]; exact inv2_same i2 rfl rfl rfl rfl
    exact afterChange_lz _ _ k
      (addPending_lz k (memput_lz h k (newRec v 0) rfl rfl) (by rw [hmpa]))
      ⟨hM, hM2⟩ f3 hseq
      (by rw [(memput_spec a k _).2.2.1]; exact hva) (by rw [(memput_spec g k _).2.2.1]; exact inv.nv)
  | putExt k v f =>
    obtain ⟨f1, f2, f3, f4⟩ := fits
    show Lz (putExt a k v f).pending (putExt a k v f) (putExt g k v f)
    unfold putExt
    rw [if_neg (by simp [hfa]), if_neg (notFailed inv.cached)]
    obtain ⟨e, n, m, hmp⟩ := memput_same g k (newRec v f)
    obtain ⟨e', n', m', hmpa⟩ := memput_same a k (newRec v f)
    have hM := putExt_addPending_inv g inv k v f f1 f2 f3 (okg ok)
    have hM2 : Inv2 (addPending (memput g k (newRec v f)) k) := by
      rw [addPending_same, hmp]; exact inv2_same i2 rfl rfl rfl rfl
    exact afterChange_lz _ _ k
      (addPending_lz k (memput_lz h k (newRec v f) rfl rfl) (by rw [hmpa]))
      ⟨hM, hM2⟩ f4 hseq
      (by rw [(memput_spec a k _).2.2.1]; exact hva) (by rw [(memput_spec g k _).2.2.1]; exact inv.nv)
  | del k =>
    show Lz (del a k).pending (del a k) (del g k)
    unfold del
    rw [if_neg (by simp [hfa]), if_neg (notFailed inv.cached)]
    obtain ⟨e, n, hmd⟩ := memdel_same g k
    obtain ⟨e', n', hmda⟩ := memdel_same a k
    have hM := del_addPending_inv g inv k fits.1
    have hM2 : Inv2 (addPending (memdel g k) k) := by
      rw [addPending_same, hmd]; exact inv2_same i2 rfl rfl rfl rfl
    exact afterChange_lz _ _ k
      (addPending_lz k (memdel_lz h inv.nodup k) (by rw [hmda]))
      ⟨hM, hM2⟩ fits.2 hseq
      (by rw [(memdel_spec a k).2.2.1]; exact hva) (by rw [(memdel_spec g k).2.2.1]; exact inv.nv)
  | get k =>
    have r := (get_lz h inv.cached hl k).1
    have hp : (Qdb.get a k).1.pending = a.pending := by
      have := r.pending
      have hg : (Qdb.get g k).1.pending = g.pending := by
        unfold Qdb.get
        rw [if_neg (notFailed inv.cached)]
        cases hlk : ilookup k g.index with
        | none => rfl
        | some rr => simp only [loadrec_cached g.fs rr (allCached_lookup inv.cached.2 k rr hlk)]
      exact this.trans (hg.trans h.pending.symm)
    exact r.cast hp.symm
  | browse w =>
    have r := (browseGen_lz false h inv.cached inv.nodup hl w ok).1
    have hp : (browseGen false a w).1.pending = a.pending := by
      have hg : (browseGen false g w).1.pending = g.pending := by
        rw [(browseGen_cached false g w inv.cached (okg ok)).1]
      exact r.pending.trans (hg.trans h.pending.symm)
    exact r.cast hp.symm
  | applyFlags k fl =>
    have r := applyFlags_lz h inv.cached k fl
    have hp : (applyFlags a k fl).pending = a.pending := by
      have hg : (applyFlags g k fl).pending = g.pending := by
        unfold applyFlags
        rw [if_neg (notFailed inv.cached)]
        cases ilookup k g.index <;> rfl
      exact r.pending.trans (hg.trans h.pending.symm)
    exact r.cast hp.symm
  | noSync =>
    show Lz (noSyncOp a).pending (noSyncOp a) (noSyncOp g)
    have ea : noSyncOp a = { a with noSync := true } := by unfold noSyncOp; simp [hfa, hva]
    have eg' : noSyncOp g = { g with noSync := true } := by unfold noSyncOp; simp [inv.cached.1, inv.nv]
    rw [ea, eg']
    exact ⟨congrArg (fun d : DB => { d with noSync := true }) h.sh, h.idx, h.np, h.pz, h.ge⟩
  | sync =>
    show Lz (syncOp a).pending (syncOp a) (syncOp g)
    have ea : syncOp a = sync { a with noSync := false } := by
      unfold syncOp; rw [if_neg (by simp [hfa]), if_neg (by simp [hva])]
    have eg' : syncOp g = sync { g with noSync := false } := by
      unfold syncOp; rw [if_neg (notFailed inv.cached), if_neg (by simp [inv.nv])]
    rw [ea, eg']
    have h' : Lz ({ a with noSync := false } : DB).pending { a with noSync := false } { g with noSync := false } :=
      ⟨congrArg (fun d : DB => { d with noSync := false }) h.sh, h.idx, h.np, h.pz, h.ge⟩
    exact sync_lz h' ⟨inv_noSync g inv false, inv2_same i2 rfl rfl rfl rfl⟩ fits hseq
  | defrag f =>
    show Lz (defragOp a f).1.pending (defragOp a f).1 (defragOp g f).1
    have hx : a.extra = g.extra := (congrArg DB.extra h.sh : (shell a).extra = (shell g).extra)
    have hn : a.need = g.need := (congrArg DB.need h.sh : (shell a).need = (shell g).need)
    have ho : a.opts = g.opts := (congrArg DB.opts h.sh : (shell a).opts = (shell g).opts)
    have ea : (defragOp a f).1 = if (f || decide (g.extra > mul64 g.opts.defragPerc g.need / 100)) = true then defrag a else a := by
      unfold defragOp; rw [if_neg (by simp [hfa]), if_neg (by simp [hva]), hx, hn, ho]
      dsimp only
      split <;> rfl
    have eg' : (defragOp g f).1 = if (f || decide (g.extra > mul64 g.opts.defragPerc g.need / 100)) = true then defrag g else g := by
      unfold defragOp; rw [if_neg (notFailed inv.cached), if_neg (by simp [inv.nv])]
      dsimp only
      split <;> rfl
    rw [ea, eg']
    split
    · have r := defrag_lz h inv.cached inv.nodup hl (h.lazy_seq g rfl rfl h.pending.symm rfl h3 hseq)
      have hp : (defrag a).pending = [] :=
        r.pending.trans (defrag_inv g inv.cached inv.nv ⟨inv.cached.2, inv.wf, inv.nodup, fits.2⟩).2.2
      rw [hp]; exact r
    · exact h

/-! ### NewDBExt: `NewDBidx` does not look at the ghost field; `load` skips what the real store need not hold -/

def setE (d : DB) (e : Bool) : DB := { d with eager := e }

theorem memput_setE (d : DB) (e : Bool) (k : Key) (r : Rec) : memput (setE d e) k r = setE (memput d k r) e := by
  unfold memput setE
  dsimp only
  cases ilookup k d.index <;> dsimp only <;> (repeat' split) <;> rfl

theorem memdel_setE (d : DB) (e : Bool) (k : Key) : memdel (setE d e) k = setE (memdel d k) e := by
  unfold memdel setE
  dsimp only
  cases ilookup k d.index <;> dsimp only <;> (repeat' split) <;> rfl

theorem memputAll_setE (recs : List (Key × Rec)) (d : DB) (e : Bool) :
    memputAll (setE d e) recs = setE (memputAll d recs) e := by
  unfold memputAll
  induction recs generalizing d with
  | nil => rfl
  | cons x t ih => simp only [List.foldl_cons]; rw [memput_setE]; exact ih _

theorem applyLog_setE (es : List LogEntry) (d : DB) (e : Bool) : applyLog (setE d e) es = setE (applyLog d es) e := by
  unfold applyLog
  induction es generalizing d with
  | nil => rfl
  | cons x t ih =>
    simp only [List.foldl_cons]
    cases x with
    | put k r => show List.foldl applyEntry (memput (setE d e) k r) t = _; rw [memput_setE]; exact ih _
    | del k => show List.foldl applyEntry (memdel (setE d e) k) t = _; rw [memdel_setE]; exact ih _

theorem cleanupold_setE (x : DB) (used : List Nat) (e : Bool) : cleanupold (setE x e) used = setE (cleanupold x used) e := by
  unfold cleanupold
  have hd : (setE x e).fs = x.fs := rfl
  rw [hd]
  generalize (sortNat (x.fs.dats.map (·.1))) = l
  induction l generalizing x with
  | nil => rfl
  | cons s t ih =>
    simp only [List.foldl_cons]
    have hds : (setE x e).dataSeq = x.dataSeq := rfl
    by_cases hc : s ≠ x.dataSeq ∧ ¬ used.contains s = true
    · rw [if_pos (by rw [hds]; exact hc), if_pos hc]
      exact ih (emit x "qdb.cleanupold:removed" (.removeDat s)) rfl
    · rw [if_neg (by rw [hds]; exact hc), if_neg hc]
      exact ih x rfl

theorem openIndex_setE (d : DB) (e : Bool) : openIndex (setE d e) = setE (openIndex d) e := by
  unfold openIndex
  dsimp only
  have h1 : loaddat (setE d e) = (setE (loaddat d).1 e, (loaddat d).2) := by
    unfold loaddat
    have hfs : (setE d e).fs = d.fs := rfl
    rw [hfs]
    cases pickIdx d.fs with
    | none => rfl
    | some t =>
      obtain ⟨i, sv, b⟩ := t
      simp only []
      have : ({ emit (setE d e) "qdb.loadneweridx:removed" (.removeIdx (1 - i)) with datIdx := i, verSeq := sv } : DB) =
          setE { emit d "qdb.loadneweridx:removed" (.removeIdx (1 - i)) with datIdx := i, verSeq := sv } e := rfl
      rw [this, memputAll_setE]
  rw [h1]
  dsimp only
  have h2 : ∀ (a : DB) (u : List Nat), loadlog (setE a e) u = (setE (loadlog a u).1 e, (loadlog a u).2) := by
    intro a u
    unfold loadlog
    have hfs : (setE a e).fs = a.fs := rfl
    have hvs : (setE a e).verSeq = a.verSeq := rfl
    rw [hfs, hvs]
    cases a.fs.log with
    | none => rfl
    | some f =>
      simp only []
      cases logBody f a.verSeq with
      | none => rfl
      | some body =>
        simp only []
        rw [applyLog_setE]
        rfl
  rw [h2]
  dsimp only
  exact cleanupold_setE _ _ _

/-- `load` in the real store: every record ends up loaded or stays as it is (not in memory) -/
theorem loadFold_sub (l : List (Key × Rec)) (hn : NoData l) (d : DB) (hf : d.failed = none)
    (hl : ∀ kr ∈ l, ∃ f v, dlookup kr.2.seq d.fs.dats = some f ∧ ReadsBack f kr.2 v) (acc : List (Key × Rec)) :
    ∃ l', l.foldl loadOne (d, acc) = (d, acc ++ l') ∧ SubL l' (mapV (loadedRec d.fs) l) := by
  induction l generalizing acc with
  | nil => exact ⟨[], by simp, trivial⟩
  | cons kr t ih =>
    obtain ⟨f, v, hfile, h1, h2, _⟩ := hl kr List.mem_cons_self
    have hnd : kr.2.data = none := hn kr List.mem_cons_self
    have hsub : Sub kr.2 (loadedRec d.fs kr.2) := by
      refine Or.inr ?_
      unfold loadedRec
      obtain ⟨k, r⟩ := kr
      cases r
      simp only at hnd
      simp [hnd]
    by_cases hflag : hasFlag kr.2.flags (ncOf d.eager) = true
    · have hstep : loadOne (d, acc) kr = (d, acc ++ [kr]) := by
        unfold loadOne
        simp only [hf, hflag, ↓reduceIte]
      obtain ⟨l', e1, e2⟩ := ih (fun x hx => hn x (List.mem_cons_of_mem _ hx))
        (fun x hx => hl x (List.mem_cons_of_mem _ hx)) (acc ++ [kr])
      refine ⟨kr :: l', by simp only [List.foldl_cons, hstep, e1, List.append_assoc, List.singleton_append], ?_⟩
      exact ⟨rfl, hsub, e2⟩
    · have hstep : loadOne (d, acc) kr = (d, acc ++ [(kr.1, loadedRec d.fs kr.2)]) := by
        unfold loadOne loadedRec
        have hu : u32 (kr.2.pos + kr.2.len) = kr.2.pos + kr.2.len := Nat.mod_eq_of_lt h2
        have hb : ¬ (kr.2.pos + kr.2.len < kr.2.pos ∨ kr.2.pos + kr.2.len > f.length) := by omega
        simp only [hf, hflag, Bool.false_eq_true, ↓reduceIte, hfile, hu, hb, Option.getD_some]
      obtain ⟨l', e1, e2⟩ := ih (fun x hx => hn x (List.mem_cons_of_mem _ hx))
        (fun x hx => hl x (List.mem_cons_of_mem _ hx)) (acc ++ [(kr.1, loadedRec d.fs kr.2)])
      refine ⟨(kr.1, loadedRec d.fs kr.2) :: l',
        by simp only [List.foldl_cons, hstep, e1, List.append_assoc, List.singleton_append], ?_⟩
      exact ⟨rfl, Sub.refl _, e2⟩

theorem subL_loaded (fs : FS) (l : List (Key × Rec)) (h : NoData l) : SubL l (mapV (loadedRec fs) l) := by
  induction l with
  | nil => trivial
  | cons x t ih =>
    obtain ⟨k, r⟩ := x
    refine ⟨rfl, Or.inr ?_, ih (fun kr hkr => h kr (List.mem_cons_of_mem _ hkr))⟩
    have hd : r.data = none := h (k, r) List.mem_cons_self
    unfold loadedRec
    cases r
    simp only at hd
    simp [hd]

/-- NewDBExt of the real store (any LoadData, any ghost field) against NewDBExt(LoadData) of the eager ghost -/
theorem open_lz (F : FS) (vol load : Bool) (opts : Opts) (ea : Bool) (h : OpenOK true F) :
    Lz [] (openDB F vol load opts ea) (openDB F vol true opts true) := by
  have key : ∀ (F' : FS) (S : OpenState F' vol (openIndex { fs := F, volatile := vol, opts := opts, eager := true }))
      (hR : DirReadable true F'), Lz [] (openDB F vol load opts ea) (openDB F vol true opts true) := by
    intro F' S hR
    have hXe : (openIndex { fs := F, volatile := vol, opts := opts, eager := true }).eager = true :=
      openIndex_eager F vol opts
    have hXa : openIndex { fs := F, volatile := vol, opts := opts, eager := ea } =
        setE (openIndex { fs := F, volatile := vol, opts := opts, eager := true }) ea :=
      openIndex_setE { fs := F, volatile := vol, opts := opts, eager := true } ea
    generalize hX : openIndex { fs := F, volatile := vol, opts := opts, eager := true } = X at S hXe hXa
    have hload := loadAll_of_openState F' vol X S hR hXe
    have eg2 : openDB F vol true opts true =
        { X with index := mapV (loadedRec X.fs) (diskIndex F'), dataSeq := u32 (X.maxSeq + 1) } := by
      unfold openDB
      simp only [↓reduceIte]
      rw [hX, hload]
    have hreads : ∀ kr ∈ diskIndex F', ∃ f v, dlookup kr.2.seq (setE X ea).fs.dats = some f ∧ ReadsBack f kr.2 v := by
      intro kr hkr
      obtain ⟨_, f, v, h3, h4⟩ := hR kr hkr
      exact ⟨f, v, by show dlookup kr.2.seq X.fs.dats = _; rw [S.dats kr hkr]; exact h3, h4⟩
    rw [eg2]
    cases load with
    | false =>
      have ea2 : openDB F vol false opts ea = { setE X ea with dataSeq := u32 (X.maxSeq + 1) } := by
        unfold openDB
        simp only [Bool.false_eq_true, ↓reduceIte]
        rw [hXa]
        rfl
      rw [ea2]
      refine ⟨rfl, ?_, fun _ _ _ _ => List.not_mem_nil, fun _ _ _ _ => List.not_mem_nil, hXe⟩
      show SubL X.index _
      rw [S.index]
      exact subL_loaded X.fs _ (diskIndex_noData F')
    | true =>
      obtain ⟨l', e1, e2⟩ := loadFold_sub (diskIndex F') (diskIndex_noData F') (setE X ea) S.failed hreads []
      have ea2 : openDB F vol true opts ea = { setE X ea with index := l', dataSeq := u32 (X.maxSeq + 1) } := by
        unfold openDB
        simp only [↓reduceIte]
        rw [hXa]
        unfold loadAll
        have hi : (setE X ea).index = diskIndex F' := S.index
        rw [hi, e1]
        have hf : (setE X ea).failed = none := S.failed
        simp only [hf, List.nil_append]
        rfl
      rw [ea2]
      exact ⟨rfl, e2, fun _ _ _ _ => List.not_mem_nil, fun _ _ _ _ => List.not_mem_nil, hXe⟩
  rcases h.log with ⟨E, hE, hlog⟩ | hd
  · exact key F (open_state F vol opts E hE hlog h.ver) h.readable
  · have hR : DirReadable true (noLog F) := by
      intro kr hkr
      rw [diskIndex_noLog F hd] at hkr
      exact h.readable kr hkr
    exact key (noLog F) (open_state_discard F vol opts hd) hR

/-! ### the eager twin of a history -/

theorem close_nv (d : DB) (hf : d.failed = none) (hv : d.volatile = false) (hs : (sync d).failed = none) :
    close d = { sync d with datOpen := false, logOpen := false, index := [], pending := [] } := by
  unfold close
  rw [if_neg (by simp [hf])]
  simp only [hv, Bool.false_eq_true, ↓reduceIte]
  split
  · rename_i w hw; rw [hs] at hw; cases hw
  · rfl

/-- the same operation with LoadData = true (the flags stay as they are) -/
def twinOp : Op → Op
  | .reopen v _ o => .reopen v true o
  | op => op

def twinItem : HItem → HItem
  | .op o => .op (twinOp o)
  | .crash o n ms vol opts => .crash (twinOp o) n ms vol opts

/-- the same history in which every NewDBExt loads the data at once — run by the eager ghost -/
def twin (H : List HItem) : List HItem := H.map twinItem

/-- what a walk function of Browse may return: ANY 32-bit word — NO_CACHE, NO_BROWSE, YES_CACHE, YES_BROWSE, every
    meaningless bit, and BR_ABORT in any combination with them. When an answer carries BR_ABORT the order of the list is
    the order in which Go's map iteration presents the listed keys (Model.Qdb.visitSet): the statement holds for every
    list, i.e. for every order Go can take and every point at which the browse can stop. -/
def WalkOK5 (w : List (Key × Nat)) : Prop := ∀ kf ∈ w, kf.2 < 2^32

/-- the operations of the real store: ANY flags (32-bit, NO_CACHE included) in PutExt / ApplyFlags / walk results,
    Close + NewDBExt in ANY mode with ANY LoadData -/
def OpOK5 : Op → Prop
  | .putExt _ _ f => f < 2^32
  | .applyFlags _ fl => fl < 2^32
  | .browse w => WalkOK5 w
  | _ => True

theorem hasFlag_big32 (x : Nat) (h : x < 2^32) : hasFlag x (ncOf true) = false :=
  hasFlag_big_of_lt x (Nat.lt_trans h (by decide))

theorem opOK3_twin (op : Op) (h : OpOK5 op) : OpOK3 true (twinOp op) := by
  cases op with
  | putExt k v f => exact hasFlag_big32 f h
  | applyFlags k fl => exact hasFlag_big32 fl h
  | browse w => exact fun kf hkf => hasFlag_big32 kf.2 (h kf hkf)
  | reopen vol load opts => rfl
  | put k v => trivial
  | del k => trivial
  | get k => trivial
  | defrag f => trivial
  | sync => trivial
  | noSync => trivial

/-- the real store `a` and its eager ghost `g`, non-volatile mode -/
def TwinN (a g : DB) : Prop := Lz a.pending a g ∧ Inv3 g

/-- the real store `a` and its eager ghost `g`, volatile mode: `P` are the keys changed since NewDBExt -/
def TwinV (a g : DB) : Prop :=
  VInv g ∧ ∃ P, Inv3 (ghost g P) ∧ (g.noSync = false → P = []) ∧ Lz P a g

def Twin (a g : DB) : Prop := TwinN a g ∨ TwinV a g

theorem Twin.sinv {a g : DB} (h : Twin a g) : SInv g := by
  rcases h with ⟨_, h⟩ | ⟨h, _⟩
  · exact Or.inl h
  · exact Or.inr h

theorem Twin.ge {a g : DB} (h : Twin a g) : g.eager = true := by
  rcases h with ⟨h, _⟩ | ⟨_, P, _, _, h⟩
  · exact h.ge
  · exact h.ge

theorem Twin.fs {a g : DB} (h : Twin a g) : a.fs = g.fs := by
  rcases h with ⟨h, _⟩ | ⟨_, P, _, _, h⟩
  · exact h.fs
  · exact h.fs

theorem Twin.effs {a g : DB} (h : Twin a g) : a.effs = g.effs := by
  rcases h with ⟨h, _⟩ | ⟨_, P, _, _, h⟩
  · exact h.effs
  · exact h.effs

/-! #### NewDBExt after a close or a crash, into either mode -/

theorem lz_effs {P : List Key} {a g : DB} (h : Lz P a g) (E : List (String × Effect)) :
    Lz P { a with effs := E ++ a.effs } { g with effs := E ++ g.effs } := by
  have he : a.effs = g.effs := h.effs
  refine ⟨?_, h.idx, h.np, h.pz, h.ge⟩
  have := congrArg (fun d : DB => { d with effs := E ++ d.effs }) h.sh
  exact this

theorem open_twin (F : FS) (vol load : Bool) (opts : Opts) (ea : Bool) (E : List (String × Effect)) (h : OpenOK true F)
    (hmax : (openIndex { fs := F, volatile := vol, opts := opts, eager := true }).maxSeq + 1 < 2^32) :
    Twin { openDB F vol load opts ea with effs := E ++ (openDB F vol load opts ea).effs }
      { openDB F vol true opts true with effs := E ++ (openDB F vol true opts true).effs } := by
  have ho := lz_effs (open_lz F vol load opts ea h) E
  cases vol with
  | false =>
    obtain ⟨h3, hp⟩ := open_inv3g F opts h hmax
    refine Or.inl ⟨?_, inv3_effs _ h3 _⟩
    have hpa : ({ openDB F false load opts ea with effs := E ++ (openDB F false load opts ea).effs } : DB).pending = [] :=
      ho.pending.trans hp
    rw [hpa]
    exact ho
  | true =>
    obtain ⟨hV, hns, _⟩ := open_vinv F opts h hmax
    have hV' := vinv_effs hV (E ++ (openDB F true true opts true).effs)
    obtain ⟨P, h3, hP⟩ := hV'.gh
    have hP0 : P = [] := hP hns
    subst hP0
    exact Or.inr ⟨hV', [], h3, fun _ => rfl, ho⟩

/-! #### Close -/

/-- Close of the real store and of its ghost leave the same directory, by the same file operations -/
theorem close_twin (a g : DB) (h : Twin a g) (hs : SizeOK g) (hd : DFits g) :
    (close a).failed = none ∧ (close a).fs = (close g).fs ∧ (close a).effs = (close g).effs ∧ Closed g := by
  rcases h with ⟨hl, h3⟩ | ⟨hV, P, h3, hP, hl⟩
  · have inv := h3.inv
    have hsl := sync_lz hl h3 hs hd.seq
    have hsf : (sync g).failed = none := (sync_inv g inv hs).1.cached.1
    have hfa : a.failed = none := hl.failed.trans inv.cached.1
    have hva : a.volatile = false := hl.volatile.trans inv.nv
    have hca := close_nv a hfa hva (hsl.failed.trans hsf)
    have hcg := close_nv g inv.cached.1 inv.nv hsf
    exact ⟨by rw [hca]; exact hsl.failed.trans hsf, by rw [hca, hcg]; exact hsl.fs,
      by rw [hca, hcg]; exact hsl.effs, nclose g h3 hs hd⟩
  · have hc : Cached g := h3.inv.cached
    have hfa : a.failed = none := hl.failed.trans hc.1
    have hva : a.volatile = true := hl.volatile.trans hV.vol
    have c := vclose g hV hs.2 hd
    cases hn : g.noSync with
    | false =>
      have hna : a.noSync = false := hl.noSync.trans hn
      have ea : close a = { a with datOpen := false, logOpen := false, index := [], pending := [] } := by
        unfold close
        rw [if_neg (by simp [hfa])]
        simp only [hva, hna, ↓reduceIte, Bool.false_eq_true, hfa]
      have eg2 : close g = { g with datOpen := false, logOpen := false, index := [], pending := [] } := by
        unfold close
        rw [if_neg (notFailed hc)]
        simp only [hV.vol, hn, ↓reduceIte, Bool.false_eq_true, hc.1]
      exact ⟨by rw [ea]; exact hfa, by rw [ea, eg2]; exact hl.fs, by rw [ea, eg2]; exact hl.effs, c⟩
    | true =>
      have hna : a.noSync = true := hl.noSync.trans hn
      have hdl := defrag_lz hl hc h3.inv.nodup (hl.loads (ghost g P) rfl rfl rfl h3.inv)
        (hl.lazy_seq (ghost g P) rfl rfl rfl rfl h3 hd.seq)
      have hdf : (defrag g).failed = none := (defrag_cached g hc).cached.1
      have hdfa : (defrag a).failed = none := hdl.failed.trans hdf
      have ea : close a = { defrag a with datOpen := false, logOpen := false, index := [], pending := [] } := by
        unfold close
        rw [if_neg (by simp [hfa])]
        simp only [hva, hna, ↓reduceIte, hdfa]
      have eg2 : close g = { defrag g with datOpen := false, logOpen := false, index := [], pending := [] } := by
        unfold close
        rw [if_neg (notFailed hc)]
        simp only [hV.vol, hn, ↓reduceIte, hdf]
      exact ⟨by rw [ea]; exact hdfa, by rw [ea, eg2]; exact hdl.fs, by rw [ea, eg2]; exact hdl.effs, c⟩

/-! #### one operation, either mode -/

theorem twin_reopen (a g : DB) (h : Twin a g) (vol load : Bool) (opts : Opts)
    (fits : OpFits3 g (.reopen vol true opts)) (hd : DFits g) :
    Twin (step a (.reopen vol load opts)) (step g (.reopen vol true opts)) := by
  have hge := h.ge
  obtain ⟨hfl, hfs, hef, c⟩ := close_twin a g h fits.1 hd
  have hcge : (close g).eager = true := c.eager.trans hge
  have hok : OpenOK true (close g).fs := by have := c.ok; rw [hge] at this; exact this
  have e1 : step a (.reopen vol load opts) = { openDB (close g).fs vol load opts (close a).eager with
      effs := (close g).effs ++ (openDB (close g).fs vol load opts (close a).eager).effs } := by
    show (match (close a).failed with
      | some _ => close a
      | none => { openDB (close a).fs vol load opts (close a).eager with
                  effs := (close a).effs ++ (openDB (close a).fs vol load opts (close a).eager).effs }) = _
    rw [hfl, hfs, hef]
  have e2 : step g (.reopen vol true opts) = { openDB (close g).fs vol true opts true with
      effs := (close g).effs ++ (openDB (close g).fs vol true opts true).effs } := by
    show (match (close g).failed with
      | some _ => close g
      | none => { openDB (close g).fs vol true opts (close g).eager with
                  effs := (close g).effs ++ (openDB (close g).fs vol true opts (close g).eager).effs }) = _
    rw [c.failed, hcge]
  rw [e1, e2]
  exact open_twin _ vol load opts _ _ hok (by have := fits.2; rw [hge] at this; exact this)

theorem twin_stepV (a g : DB) (hV : VInv g) (P : List Key) (h3 : Inv3 (ghost g P)) (hP : g.noSync = false → P = [])
    (hl : Lz P a g) (op : Op) (hnr : ∀ x y z, op ≠ .reopen x y z) (ok : OpOK true op) (fits : OpFits g op) :
    TwinV (step a op) (step g op) := by
  have hge : g.eager = true := hl.ge
  have okg : OpOK g.eager op := by rw [hge]; exact ok
  obtain ⟨hV', _, _, _⟩ := vstep_vinv g hV op okg fits
  obtain ⟨_, h3', hP'⟩ := vstep_ghost g hV.vol P h3 hP op okg fits
  have hc : Cached g := h3.inv.cached
  have hnd : (Keys g.index).Nodup := h3.inv.nodup
  have hld : Loads a g := hl.loads (ghost g P) rfl rfl rfl h3.inv
  have hfa : a.failed = none := hl.failed.trans hc.1
  have hva : a.volatile = true := hl.volatile.trans hV.vol
  refine ⟨hV', nextP P op, h3', hP', ?_⟩
  cases op with
  | reopen x y z => exact absurd rfl (hnr x y z)
  | put k v =>
    show Lz (pendingAdd P k) (putExt a k v 0) (putExt g k v 0)
    have ea : putExt a k v 0 = { memput a k (newRec v 0) with noSync := true } := by
      unfold putExt afterChange
      rw [if_neg (by simp [hfa])]
      simp only [(memput_spec a k (newRec v 0)).2.2.1, hva, ↓reduceIte]
    have eg2 : putExt g k v 0 = { memput g k (newRec v 0) with noSync := true } := by
      unfold putExt afterChange
      rw [if_neg (notFailed hc)]
      simp only [(memput_spec g k (newRec v 0)).2.2.1, hV.vol, ↓reduceIte]
    rw [ea, eg2]
    have hm := memput_lz hl k (newRec v 0) rfl rfl
    exact ⟨congrArg (fun d : DB => { d with noSync := true }) hm.sh, hm.idx, hm.np, hm.pz, hm.ge⟩
  | putExt k v f =>
    show Lz (pendingAdd P k) (putExt a k v f) (putExt g k v f)
    have ea : putExt a k v f = { memput a k (newRec v f) with noSync := true } := by
      unfold putExt afterChange
      rw [if_neg (by simp [hfa])]
      simp only [(memput_spec a k (newRec v f)).2.2.1, hva, ↓reduceIte]
    have eg2 : putExt g k v f = { memput g k (newRec v f) with noSync := true } := by
      unfold putExt afterChange
      rw [if_neg (notFailed hc)]
      simp only [(memput_spec g k (newRec v f)).2.2.1, hV.vol, ↓reduceIte]
    rw [ea, eg2]
    have hm := memput_lz hl k (newRec v f) rfl rfl
    exact ⟨congrArg (fun d : DB => { d with noSync := true }) hm.sh, hm.idx, hm.np, hm.pz, hm.ge⟩
  | del k =>
    show Lz (pendingAdd P k) (del a k) (del g k)
    have ea : del a k = { memdel a k with noSync := true } := by
      unfold del afterChange
      rw [if_neg (by simp [hfa])]
      simp only [(memdel_spec a k).2.2.1, hva, ↓reduceIte]
    have eg2 : del g k = { memdel g k with noSync := true } := by
      unfold del afterChange
      rw [if_neg (notFailed hc)]
      simp only [(memdel_spec g k).2.2.1, hV.vol, ↓reduceIte]
    rw [ea, eg2]
    have hm := memdel_lz hl hnd k
    exact ⟨congrArg (fun d : DB => { d with noSync := true }) hm.sh, hm.idx, hm.np, hm.pz, hm.ge⟩
  | get k => exact (get_lz hl hc hld k).1
  | browse w => exact (browseGen_lz false hl hc hnd hld w ok).1
  | applyFlags k fl => exact applyFlags_lz hl hc k fl
  | sync =>
    have ea : step a .sync = a := by
      show syncOp a = a
      unfold syncOp; rw [if_neg (by simp [hfa])]; simp [hva]
    have eg2 : step g .sync = g := by
      show syncOp g = g
      unfold syncOp; rw [if_neg (notFailed hc)]; simp [hV.vol]
    rw [ea, eg2]; exact hl
  | defrag f =>
    have ea : step a (.defrag f) = a := by
      show (defragOp a f).1 = a
      unfold defragOp; rw [if_neg (by simp [hfa])]; simp [hva]
    have eg2 : step g (.defrag f) = g := by
      show (defragOp g f).1 = g
      unfold defragOp; rw [if_neg (notFailed hc)]; simp [hV.vol]
    rw [ea, eg2]; exact hl
  | noSync =>
    have ea : step a .noSync = a := by
      show noSyncOp a = a
      unfold noSyncOp; rw [if_neg (by simp [hfa])]; simp [hva]
    have eg2 : step g .noSync = g := by
      show noSyncOp g = g
      unfold noSyncOp; rw [if_neg (notFailed hc)]; simp [hV.vol]
    rw [ea, eg2]; exact hl

theorem twin_step (a g : DB) (h : Twin a g) (op : Op) (ok : OpOK5 op) (fits : OpFits3 g (twinOp op))
    (hd : DFits (preSync g (twinOp op))) : Twin (step a op) (step g (twinOp op)) := by
  have ok3 := opOK3_twin op ok
  have hge := h.ge
  cases op with
  | reopen vol load opts => exact twin_reopen a g h vol load opts fits hd
  | put k v =>
    rcases h with ⟨hl, h3⟩ | ⟨hV, P, h3, hP, hl⟩
    · exact Or.inl ⟨step_lz hl h3 (.put k v) (fun _ _ _ => by simp) ok3 fits hd.seq, (step_inv3' g h3 (.put k v) (by rw [hge]; exact ok3) fits).1⟩
    · exact Or.inr (twin_stepV a g hV P h3 hP hl (.put k v) (fun _ _ _ => by simp) ok3 fits)
  | putExt k v f =>
    rcases h with ⟨hl, h3⟩ | ⟨hV, P, h3, hP, hl⟩
    · exact Or.inl ⟨step_lz hl h3 (.putExt k v f) (fun _ _ _ => by simp) ok3 fits hd.seq, (step_inv3' g h3 (.putExt k v f) (by rw [hge]; exact ok3) fits).1⟩
    · exact Or.inr (twin_stepV a g hV P h3 hP hl (.putExt k v f) (fun _ _ _ => by simp) ok3 fits)
  | del k =>
    rcases h with ⟨hl, h3⟩ | ⟨hV, P, h3, hP, hl⟩
    · exact Or.inl ⟨step_lz hl h3 (.del k) (fun _ _ _ => by simp) ok3 fits hd.seq, (step_inv3' g h3 (.del k) (by rw [hge]; exact ok3) fits).1⟩
    · exact Or.inr (twin_stepV a g hV P h3 hP hl (.del k) (fun _ _ _ => by simp) ok3 fits)
  | get k =>
    rcases h with ⟨hl, h3⟩ | ⟨hV, P, h3, hP, hl⟩
    · exact Or.inl ⟨step_lz hl h3 (.get k) (fun _ _ _ => by simp) ok3 fits hd.seq, (step_inv3' g h3 (.get k) (by rw [hge]; exact ok3) fits).1⟩
    · exact Or.inr (twin_stepV a g hV P h3 hP hl (.get k) (fun _ _ _ => by simp) ok3 fits)
  | browse w =>
    rcases h with ⟨hl, h3⟩ | ⟨hV, P, h3, hP, hl⟩
    · exact Or.inl ⟨step_lz hl h3 (.browse w) (fun _ _ _ => by simp) ok3 fits hd.seq, (step_inv3' g h3 (.browse w) (by rw [hge]; exact ok3) fits).1⟩
    · exact Or.inr (twin_stepV a g hV P h3 hP hl (.browse w) (fun _ _ _ => by simp) ok3 fits)
  | applyFlags k fl =>
    rcases h with ⟨hl, h3⟩ | ⟨hV, P, h3, hP, hl⟩
    · exact Or.inl ⟨step_lz hl h3 (.applyFlags k fl) (fun _ _ _ => by simp) ok3 fits hd.seq, (step_inv3' g h3 (.applyFlags k fl) (by rw [hge]; exact ok3) fits).1⟩
    · exact Or.inr (twin_stepV a g hV P h3 hP hl (.applyFlags k fl) (fun _ _ _ => by simp) ok3 fits)
  | defrag f =>
    rcases h with ⟨hl, h3⟩ | ⟨hV, P, h3, hP, hl⟩
    · exact Or.inl ⟨step_lz hl h3 (.defrag f) (fun _ _ _ => by simp) ok3 fits hd.seq, (step_inv3' g h3 (.defrag f) (by rw [hge]; exact ok3) fits).1⟩
    · exact Or.inr (twin_stepV a g hV P h3 hP hl (.defrag f) (fun _ _ _ => by simp) ok3 fits)
  | sync =>
    rcases h with ⟨hl, h3⟩ | ⟨hV, P, h3, hP, hl⟩
    · exact Or.inl ⟨step_lz hl h3 .sync (fun _ _ _ => by simp) ok3 fits hd.seq, (step_inv3' g h3 .sync (by rw [hge]; exact ok3) fits).1⟩
    · exact Or.inr (twin_stepV a g hV P h3 hP hl .sync (fun _ _ _ => by simp) ok3 fits)
  | noSync =>
    rcases h with ⟨hl, h3⟩ | ⟨hV, P, h3, hP, hl⟩
    · exact Or.inl ⟨step_lz hl h3 .noSync (fun _ _ _ => by simp) ok3 fits hd.seq, (step_inv3' g h3 .noSync (by rw [hge]; exact ok3) fits).1⟩
    · exact Or.inr (twin_stepV a g hV P h3 hP hl .noSync (fun _ _ _ => by simp) ok3 fits)

def HOK5 (i : HItem) : Prop := OpOK5 (itemOp i)

theorem itemOp_twin (i : HItem) : itemOp (twinItem i) = twinOp (itemOp i) := by
  cases i <;> rfl

theorem hok_twin (H : List HItem) (ok : ∀ i ∈ H, HOK5 i) : ∀ i ∈ twin H, HOK true i := by
  intro i hi
  obtain ⟨j, hj, rfl⟩ := List.mem_map.mp hi
  show OpOK3 true (itemOp (twinItem j))
  rw [itemOp_twin]
  exact opOK3_twin _ (ok j hj)

/-- EVERY history: the real store (NO_CACHE flags, lazy loading, both modes, crashes, recoveries) against its eager
    ghost. The two runs stay related — same directory, same file operations (hence the same crash directories); the
    real store holds the ghost's records, some of them not in memory, and those load to the ghost's records. -/
theorem twin_run (H : List HItem) (a g : DB) (h : Twin a g) (ok : ∀ i ∈ H, HOK5 i)
    (fits : HFits g (twin H)) : Twin (hrun a H) (hrun g (twin H)) := by
  induction H generalizing a g with
  | nil => exact h
  | cons i t ih =>
    cases i with
    | op o =>
      have oko : OpOK5 o := ok (.op o) List.mem_cons_self
      obtain ⟨f1, f2, f3⟩ := fits
      exact ih (step a o) (step g (twinOp o)) (twin_step a g h o oko f1 f2)
        (fun x hx => ok x (List.mem_cons_of_mem _ hx)) f3
    | crash o n ms vol opts =>
      have oko : OpOK5 o := ok (.crash o n ms vol opts) List.mem_cons_self
      obtain ⟨f1, f2, f3, f4⟩ := fits
      have hs := twin_step a g h o oko f1 f2
      have hge : g.eager = true := h.ge
      have hcd : crashDir a o n = crashDir g (twinOp o) n := by
        unfold crashDir opEffs
        rw [h.fs, h.effs, hs.effs]
      have S := stepOK g h.sinv (twinOp o) (by rw [hge]; exact opOK3_twin o oko) f1 f2
      obtain ⟨es, e1, A⟩ := S.atomic
      have hcd2 : crashDir g (twinOp o) n = g.fs.applyAll ((es.map (·.2)).take n) := by
        unfold crashDir opEffs
        rw [e1, List.drop_left]
      obtain ⟨o1, _⟩ := A n
      rw [← hcd2] at o1
      obtain ⟨o2, _⟩ := recrash_ok opts ms _ o1
      rw [hge] at o2
      have f3' := f3
      rw [hge] at f3'
      have ht := open_twin (recrash opts (crashDir g (twinOp o) n) ms) vol true opts a.eager [] o2 f3'
      have ea : hstep a (.crash o n ms vol opts) =
          { openDB (recrash opts (crashDir g (twinOp o) n) ms) vol true opts a.eager with
            effs := [] ++ (openDB (recrash opts (crashDir g (twinOp o) n) ms) vol true opts a.eager).effs } := by
        show openDB (recrash opts (crashDir a o n) ms) vol true opts a.eager = _
        rw [hcd]
        rfl
      have eg2 : hstep g (twinItem (.crash o n ms vol opts)) =
          { openDB (recrash opts (crashDir g (twinOp o) n) ms) vol true opts true with
            effs := [] ++ (openDB (recrash opts (crashDir g (twinOp o) n) ms) vol true opts true).effs } := by
        show openDB (recrash opts (crashDir g (twinOp o) n) ms) vol true opts g.eager = _
        rw [hge]
        rfl
      refine ih _ _ ?_ (fun x hx => ok x (List.mem_cons_of_mem _ hx)) f4
      rw [ea, eg2]
      exact ht

/-- what the real store shows, against its eager ghost -/
theorem Twin.observe {a g : DB} (h : Twin a g) :
    a.failed = none ∧ a.fs = g.fs ∧ a.effs = g.effs ∧
    (∀ k, (Qdb.get a k).1.failed = none ∧ (Qdb.get a k).2 = vals g k) ∧
    (∀ w, (∀ kf ∈ w, kf.2 < 2^32) → (browse a w).2 = (browse g w).2) ∧ count a = count g := by
  have hc : Cached g := h.sinv.cached
  have hnd : (Keys g.index).Nodup := h.sinv.nodup
  have key : ∀ (P : List Key) (hl : Lz P a g) (hld : Loads a g),
      a.failed = none ∧ a.fs = g.fs ∧ a.effs = g.effs ∧
      (∀ k, (Qdb.get a k).1.failed = none ∧ (Qdb.get a k).2 = vals g k) ∧
      (∀ w, (∀ kf ∈ w, kf.2 < 2^32) → (browse a w).2 = (browse g w).2) ∧ count a = count g := by
    intro P hl hld
    refine ⟨hl.failed.trans hc.1, hl.fs, hl.effs, fun k => ?_, fun w hw => ?_, hl.idx.length⟩
    · obtain ⟨l, e⟩ := get_lz hl hc hld k
      exact ⟨l.failed.trans (get_cached g k hc).1.1, e.trans (get_cached g k hc).2.2⟩
    · exact (browseGen_lz false hl hc hnd hld w (fun kf hkf => hasFlag_big32 kf.2 (hw kf hkf))).2
  rcases h with ⟨hl, h3⟩ | ⟨_, P, h3, _, hl⟩
  · exact key _ hl (hl.loads g rfl rfl hl.pending.symm h3.inv)
  · exact key P hl (hl.loads (ghost g P) rfl rfl rfl h3.inv)

/-! ### the real store starts with the ghost field off -/

theorem fresh_eager (load : Bool) (opts : Opts) : (openDB {} false load opts).eager = false :=
  openDB_eager (eg := false) {} false load opts

theorem ok2_fresh (load : Bool) (opts : Opts) (ops : List Op) (ok : ∀ op ∈ ops, OpOK2 false op) :
    ∀ op ∈ ops, OpOK2 (openDB {} false load opts).eager op := by
  rw [fresh_eager]; exact ok

theorem hok_fresh (load : Bool) (opts : Opts) (H : List HItem) (ok : ∀ i ∈ H, HOK false i) :
    ∀ i ∈ H, HOK (openDB {} false load opts).eager i := by
  rw [fresh_eager]; exact ok

end GocoinV.Proofs.C19
