/-
  Proofs.C19Lz — lazily loaded records (NewDBExt with LoadData = false, no NO_CACHE flag). A non-volatile store `a`
  some of whose records are not in memory is related to the store `g` that holds the same records with their data
  (`Lz a g`): every operation acts on both in lock step — same file operations, same results — so that the analysis
  of stores whose records are all in memory carries over.
-/
import GocoinV.Proofs.C19Lazy
namespace GocoinV.Proofs.C19
open GocoinV GocoinV.Qdb GocoinV.QdbSpec

variable {eg : Bool}

/-! ### records and indices up to "not in memory" -/

/-- `ra` is `rg`, possibly without its data in memory -/
def Sub (ra rg : Rec) : Prop := ra = rg ∨ ra = { rg with data := none }

theorem Sub.refl (r : Rec) : Sub r r := Or.inl rfl

theorem Sub.fields {ra rg : Rec} (h : Sub ra rg) :
    ra.seq = rg.seq ∧ ra.pos = rg.pos ∧ ra.len = rg.len ∧ ra.flags = rg.flags := by
  rcases h with rfl | rfl <;> exact ⟨rfl, rfl, rfl, rfl⟩

theorem Sub.of_data {ra rg : Rec} (h : Sub ra rg) (hd : ra.data.isSome = true) : ra = rg := by
  rcases h with h | h
  · exact h
  · rw [h] at hd; cases hd

theorem Sub.withFlags {ra rg : Rec} (h : Sub ra rg) (f : Nat) : Sub { ra with flags := f } { rg with flags := f } := by
  rcases h with rfl | rfl
  · exact Or.inl rfl
  · exact Or.inr rfl

def SubL : List (Key × Rec) → List (Key × Rec) → Prop
  | [], [] => True
  | (ka, ra) :: ta, (kg, rg) :: tg => ka = kg ∧ Sub ra rg ∧ SubL ta tg
  | _, _ => False

theorem SubL.refl (l : List (Key × Rec)) : SubL l l := by
  induction l with
  | nil => trivial
  | cons x t ih => exact ⟨rfl, Sub.refl _, ih⟩

theorem SubL.lookup {la lg : List (Key × Rec)} (h : SubL la lg) (k : Key) :
    (ilookup k la = none ∧ ilookup k lg = none) ∨
    ∃ ra rg, ilookup k la = some ra ∧ ilookup k lg = some rg ∧ Sub ra rg := by
  induction la generalizing lg with
  | nil =>
    cases lg with
    | nil => exact Or.inl ⟨rfl, rfl⟩
    | cons y t => exact absurd h (by simp [SubL])
  | cons x ta ih =>
    cases lg with
    | nil => exact absurd h (by simp [SubL])
    | cons y tg =>
      obtain ⟨ka, ra⟩ := x
      obtain ⟨kg, rg⟩ := y
      obtain ⟨rfl, hs, ht⟩ := h
      simp only [ilookup]
      by_cases hk : ka = k
      · simp only [hk, ↓reduceIte]
        exact Or.inr ⟨ra, rg, rfl, rfl, hs⟩
      · simp only [hk, ↓reduceIte]
        exact ih ht

theorem SubL.iset {la lg : List (Key × Rec)} (h : SubL la lg) (k : Key) (ra rg : Rec) (hs : Sub ra rg) :
    SubL (iset k ra la) (iset k rg lg) := by
  induction la generalizing lg with
  | nil =>
    cases lg with
    | nil => exact ⟨rfl, hs, trivial⟩
    | cons y t => exact absurd h (by simp [SubL])
  | cons x ta ih =>
    cases lg with
    | nil => exact absurd h (by simp [SubL])
    | cons y tg =>
      obtain ⟨ka, xa⟩ := x
      obtain ⟨kg, xg⟩ := y
      obtain ⟨rfl, hx, ht⟩ := h
      simp only [Qdb.iset]
      by_cases hk : ka = k
      · simp only [hk, ↓reduceIte]
        exact ⟨rfl, hs, ht⟩
      · simp only [hk, ↓reduceIte]
        exact ⟨rfl, hx, ih ht⟩

theorem SubL.ierase {la lg : List (Key × Rec)} (h : SubL la lg) (k : Key) : SubL (ierase k la) (ierase k lg) := by
  induction la generalizing lg with
  | nil =>
    cases lg with
    | nil => trivial
    | cons y t => exact absurd h (by simp [SubL])
  | cons x ta ih =>
    cases lg with
    | nil => exact absurd h (by simp [SubL])
    | cons y tg =>
      obtain ⟨ka, xa⟩ := x
      obtain ⟨kg, xg⟩ := y
      obtain ⟨rfl, hx, ht⟩ := h
      simp only [Qdb.ierase]
      by_cases hk : ka = k
      · simp only [hk, ↓reduceIte]
        exact ht
      · simp only [hk, ↓reduceIte]
        exact ⟨rfl, hx, ih ht⟩

theorem SubL.length {la lg : List (Key × Rec)} (h : SubL la lg) : la.length = lg.length := by
  induction la generalizing lg with
  | nil =>
    cases lg with
    | nil => rfl
    | cons y t => exact absurd h (by simp [SubL])
  | cons x ta ih =>
    cases lg with
    | nil => exact absurd h (by simp [SubL])
    | cons y tg =>
      obtain ⟨ka, xa⟩ := x
      obtain ⟨kg, xg⟩ := y
      simp only [List.length_cons, ih h.2.2]

theorem SubL.snoc {la lg : List (Key × Rec)} (h : SubL la lg) (k : Key) (ra rg : Rec) (hs : Sub ra rg) :
    SubL (la ++ [(k, ra)]) (lg ++ [(k, rg)]) := by
  induction la generalizing lg with
  | nil =>
    cases lg with
    | nil => exact ⟨rfl, hs, trivial⟩
    | cons y t => exact absurd h (by simp [SubL])
  | cons x ta ih =>
    cases lg with
    | nil => exact absurd h (by simp [SubL])
    | cons y tg =>
      obtain ⟨ka, xa⟩ := x
      obtain ⟨kg, xg⟩ := y
      obtain ⟨rfl, hx, ht⟩ := h
      exact ⟨rfl, hx, ih ht⟩

/-! ### the relation between the two stores -/

/-- the state outside the index -/
def shell (d : DB) : DB := { d with index := [] }

theorem shell_eq {a g : DB} (h : shell a = shell g) (idx : List (Key × Rec)) :
    { a with index := idx } = { g with index := idx } := by
  have := congrArg (fun d : DB => { d with index := idx }) h
  exact this

/-- `g` is `a` with every record's data in memory; a record of `a` that is not in memory is not pending -/
structure Lz (a g : DB) : Prop where
  sh : shell a = shell g
  idx : SubL a.index g.index
  np : ∀ k r, ilookup k a.index = some r → r.data = none → k ∉ a.pending

theorem Lz.refl (a : DB) (hc : AllCached eg a.index) : Lz a a :=
  ⟨rfl, SubL.refl _, fun k r hl hd => by
    have := (allCached_lookup hc k r hl).1
    rw [hd] at this; cases this⟩

theorem Lz.fs {a g : DB} (h : Lz a g) : a.fs = g.fs := (congrArg DB.fs h.sh : (shell a).fs = (shell g).fs)
theorem Lz.effs {a g : DB} (h : Lz a g) : a.effs = g.effs := (congrArg DB.effs h.sh : (shell a).effs = (shell g).effs)
theorem Lz.pending {a g : DB} (h : Lz a g) : a.pending = g.pending := (congrArg DB.pending h.sh : (shell a).pending = (shell g).pending)
theorem Lz.failed {a g : DB} (h : Lz a g) : a.failed = g.failed := (congrArg DB.failed h.sh : (shell a).failed = (shell g).failed)
theorem Lz.volatile {a g : DB} (h : Lz a g) : a.volatile = g.volatile := (congrArg DB.volatile h.sh : (shell a).volatile = (shell g).volatile)

/-- a record of `a` that is not in memory can be loaded, and loading gives `g`'s record -/
theorem Lz.loadrec {a g : DB} (h : Lz a g) (inv : DiskInv g) (k : Key) (ra rg : Rec)
    (ha : ilookup k a.index = some ra) (hg : ilookup k g.index = some rg) (hs : Sub ra rg) :
    loadrec a.fs ra = some rg := by
  have hcg := allCached_lookup inv.cached.2 k rg hg
  rcases hs with rfl | hra
  · exact loadrec_cached a.fs ra hcg
  · have hnp : k ∉ g.pending := by
      rw [← h.pending]
      exact h.np k ra ha (by rw [hra])
    obtain ⟨f, hf, hrb⟩ := inv.files k rg hnp hg
    obtain ⟨v, hv⟩ := Option.isSome_iff_exists.mp hcg.1
    unfold Qdb.loadrec
    rw [hra]
    simp only [h.fs, hf]
    have hlen : ((f.drop rg.pos).take rg.len).length = rg.len := by
      simp only [List.length_take, List.length_drop]
      have h41 : rg.pos + rg.len ≤ f.length := hrb.1
      omega
    have hval : readRec f { rg with data := none } = v := by
      unfold readRec padTo
      show (f.drop rg.pos).take rg.len ++ List.replicate (rg.len - ((f.drop rg.pos).take rg.len).length) 0 = v
      rw [hlen]
      have := hrb.2.2
      rw [hv] at this
      simpa using this
    rw [hval]
    cases rg
    simp only at hv
    simp [hv]

theorem SubL.keys {la lg : List (Key × Rec)} (h : SubL la lg) : Keys la = Keys lg := by
  induction la generalizing lg with
  | nil =>
    cases lg with
    | nil => rfl
    | cons y t => exact absurd h (by simp [SubL])
  | cons x ta ih =>
    cases lg with
    | nil => exact absurd h (by simp [SubL])
    | cons y tg =>
      obtain ⟨ka, xa⟩ := x
      obtain ⟨kg, xg⟩ := y
      obtain ⟨rfl, _, ht⟩ := h
      simp only [Keys, List.map_cons] at *
      rw [ih ht]

/-- `g` written over `a`'s shell -/
theorem Lz.g_eq {a g : DB} (h : Lz a g) : { a with index := g.index } = g := shell_eq h.sh g.index

theorem Lz.nodup {a g : DB} (h : Lz a g) (inv : DiskInv g) : (Keys a.index).Nodup := by
  rw [h.idx.keys]; exact inv.nodup

/-! ### operations that do not touch the files -/

theorem get_lz {a g : DB} (h : Lz a g) (inv : DiskInv g) (k : Key) :
    Lz (Qdb.get a k).1 (Qdb.get g k).1 ∧ (Qdb.get a k).2 = (Qdb.get g k).2 := by
  have hfa : a.failed = none := h.failed.trans inv.cached.1
  rcases h.idx.lookup k with ⟨h1, h2⟩ | ⟨ra, rg, h1, h2, hs⟩
  · have ea : Qdb.get a k = (a, none) := by unfold Qdb.get; simp [hfa, h1]
    have eg : Qdb.get g k = (g, none) := by unfold Qdb.get; simp [inv.cached.1, h2]
    rw [ea, eg]; exact ⟨h, rfl⟩
  · have la := h.loadrec inv k ra rg h1 h2 hs
    have hcg := allCached_lookup inv.cached.2 k rg h2
    have lg := loadrec_cached g.fs rg hcg
    have ea : Qdb.get a k = ({ a with index := iset k { rg with flags := applyBrowsingFlags rg.flags YES_CACHE } a.index },
        rg.data) := by
      unfold Qdb.get; simp [hfa, h1, la]
    have eg : Qdb.get g k = ({ g with index := iset k { rg with flags := applyBrowsingFlags rg.flags YES_CACHE } g.index },
        rg.data) := by
      unfold Qdb.get; simp [inv.cached.1, h2, lg]
    rw [ea, eg]
    refine ⟨⟨h.sh, h.idx.iset k _ _ (Sub.refl _), ?_⟩, rfl⟩
    intro j r hl hd
    have hl' : ilookup j (iset k { rg with flags := applyBrowsingFlags rg.flags YES_CACHE } a.index) = some r := hl
    rw [ilookup_iset] at hl'
    split at hl'
    · cases hl'
      have := hcg.1
      simp only at hd
      rw [hd] at this; cases this
    · exact h.np j r hl' hd

theorem applyFlags_lz {a g : DB} (h : Lz a g) (inv : DiskInv g) (k : Key) (fl : Nat) :
    Lz (applyFlags a k fl) (applyFlags g k fl) := by
  have hfa : a.failed = none := h.failed.trans inv.cached.1
  rcases h.idx.lookup k with ⟨h1, h2⟩ | ⟨ra, rg, h1, h2, hs⟩
  · have ea : applyFlags a k fl = a := by unfold applyFlags; simp [hfa, h1]
    have eg : applyFlags g k fl = g := by unfold applyFlags; simp [inv.cached.1, h2]
    rw [ea, eg]; exact h
  · have ea : applyFlags a k fl = { a with index := iset k { ra with flags := applyBrowsingFlags ra.flags fl } a.index } := by
      unfold applyFlags; simp [hfa, h1]
    have eg : applyFlags g k fl = { g with index := iset k { rg with flags := applyBrowsingFlags rg.flags fl } g.index } := by
      unfold applyFlags; simp [inv.cached.1, h2]
    rw [ea, eg]
    refine ⟨h.sh, h.idx.iset k _ _ (by rw [hs.fields.2.2.2]; exact hs.withFlags _), ?_⟩
    intro j r hl hd
    have hl' : ilookup j (iset k { ra with flags := applyBrowsingFlags ra.flags fl } a.index) = some r := hl
    rw [ilookup_iset] at hl'
    split at hl'
    · rename_i hjk
      cases hl'
      subst hjk
      exact h.np k ra h1 hd
    · exact h.np j r hl' hd

theorem noSyncOp_lz {a g : DB} (h : Lz a g) (inv : DiskInv g) : Lz (noSyncOp a) (noSyncOp g) := by
  have hfa : a.failed = none := h.failed.trans inv.cached.1
  have hva : a.volatile = false := h.volatile.trans inv.nv
  have ea : noSyncOp a = { a with noSync := true } := by unfold noSyncOp; simp [hfa, hva]
  have eg : noSyncOp g = { g with noSync := true } := by unfold noSyncOp; simp [inv.cached.1, inv.nv]
  rw [ea, eg]
  exact ⟨congrArg (fun d : DB => { d with noSync := true }) h.sh, h.idx, h.np⟩

/-! ### memput / memdel / addPending -/

def prvLen (db : DB) (k : Key) : Option Nat := (ilookup k db.index).map (·.len)

theorem Lz.prvLen {a g : DB} (h : Lz a g) (k : Key) : prvLen a k = prvLen g k := by
  unfold C19.prvLen
  rcases h.idx.lookup k with ⟨h1, h2⟩ | ⟨ra, rg, h1, h2, hs⟩
  · rw [h1, h2]
  · rw [h1, h2]; simp [hs.fields.2.2.1]

theorem memput_shell (d d' : DB) (k : Key) (r : Rec) (hs : shell d = shell d') (hl : prvLen d k = prvLen d' k) :
    shell (memput d k r) = shell (memput d' k r) := by
  have e : { d with index := d'.index } = d' := shell_eq hs d'.index
  rw [← e]
  unfold C19.prvLen at hl
  rw [← e] at hl
  unfold memput
  cases h1 : ilookup k d.index with
  | none =>
    cases h2 : ilookup k d'.index with
    | none =>
      simp only [h2]
      (cases hv : d.volatile <;> by_cases hm : r.seq > d.maxSeq <;>
        simp only [hv, hm, shell, Bool.false_eq_true, ↓reduceIte, gt_iff_lt] <;> rfl)
    | some p' => rw [h1] at hl; simp [h2] at hl
  | some p =>
    cases h2 : ilookup k d'.index with
    | none => rw [h1] at hl; simp [h2] at hl
    | some p' =>
      rw [h1] at hl
      simp only [h2, Option.map_some, Option.some.injEq] at hl
      simp only [h2, hl]
      (cases hv : d.volatile <;> by_cases hm : r.seq > d.maxSeq <;>
        simp only [hv, hm, shell, Bool.false_eq_true, ↓reduceIte, gt_iff_lt] <;> rfl)

theorem memdel_shell (d d' : DB) (k : Key) (hs : shell d = shell d') (hl : prvLen d k = prvLen d' k) :
    shell (memdel d k) = shell (memdel d' k) := by
  have e : { d with index := d'.index } = d' := shell_eq hs d'.index
  rw [← e]
  unfold C19.prvLen at hl
  rw [← e] at hl
  unfold memdel
  cases h1 : ilookup k d.index with
  | none =>
    cases h2 : ilookup k d'.index with
    | none =>
      simp only [h2]
      rfl
    | some p' => rw [h1] at hl; simp [h2] at hl
  | some p =>
    cases h2 : ilookup k d'.index with
    | none => rw [h1] at hl; simp [h2] at hl
    | some p' =>
      rw [h1] at hl
      simp only [h2, Option.map_some, Option.some.injEq] at hl
      simp only [h2, hl]
      (cases hv : d.volatile <;> simp only [hv, shell, Bool.false_eq_true, ↓reduceIte] <;> rfl)

/-- Put / Del up to and including `PendingRecords[key] = true` -/
theorem putPending_lz {a g : DB} (h : Lz a g) (k : Key) (r : Rec) (hr : r.data.isSome = true) :
    Lz (addPending (memput a k r) k) (addPending (memput g k r) k) := by
  have hsh := memput_shell a g k r h.sh (h.prvLen k)
  have hia := (memput_spec a k r).1
  have hig := (memput_spec g k r).1
  have hpe : (memput a k r).pending = (memput g k r).pending :=
    (congrArg DB.pending hsh : (shell (memput a k r)).pending = (shell (memput g k r)).pending)
  rw [addPending_same, addPending_same, ← hpe]
  refine ⟨congrArg (fun d : DB => { d with pending := pendingAdd (memput a k r).pending k }) hsh, ?_, ?_⟩
  · show SubL (memput a k r).index (memput g k r).index
    rw [hia, hig]; exact h.idx.iset k r r (Sub.refl r)
  · intro j rj hl hd
    have hl' : ilookup j (memput a k r).index = some rj := hl
    rw [hia, ilookup_iset] at hl'
    show j ∉ pendingAdd (memput a k r).pending k
    rw [mem_pendingAdd]
    split at hl'
    · cases hl'; rw [hd] at hr; cases hr
    · rename_i hjk
      have hpa : (memput a k r).pending = a.pending := by
        obtain ⟨e, n, m, hmp⟩ := memput_same a k r; rw [hmp]
      rw [hpa]
      intro hc
      rcases hc with hc | hc
      · exact hjk hc.symm
      · exact h.np j rj hl' hd hc

theorem delPending_lz {a g : DB} (h : Lz a g) (inv : DiskInv g) (k : Key) :
    Lz (addPending (memdel a k) k) (addPending (memdel g k) k) := by
  have hsh := memdel_shell a g k h.sh (h.prvLen k)
  have hia := (memdel_spec a k).1
  have hig := (memdel_spec g k).1
  have hpe : (memdel a k).pending = (memdel g k).pending :=
    (congrArg DB.pending hsh : (shell (memdel a k)).pending = (shell (memdel g k)).pending)
  rw [addPending_same, addPending_same, ← hpe]
  refine ⟨congrArg (fun d : DB => { d with pending := pendingAdd (memdel a k).pending k }) hsh, ?_, ?_⟩
  · show SubL (memdel a k).index (memdel g k).index
    rw [hia, hig]; exact h.idx.ierase k
  · intro j rj hl hd
    have hl' : ilookup j (memdel a k).index = some rj := hl
    rw [hia, ilookup_ierase _ _ _ (h.nodup inv)] at hl'
    show j ∉ pendingAdd (memdel a k).pending k
    rw [mem_pendingAdd]
    split at hl'
    · cases hl'
    · rename_i hjk
      have hpa : (memdel a k).pending = a.pending := by
        obtain ⟨e, n, hmd⟩ := memdel_same a k; rw [hmd]
      rw [hpa]
      intro hc
      rcases hc with hc | hc
      · exact hjk hc.symm
      · exact h.np j rj hl' hd hc

/-! ### functions that never look at the index -/

def reidx (d : DB) (i : List (Key × Rec)) : DB := { d with index := i }

theorem Lz.g_reidx {a g : DB} (h : Lz a g) : reidx a g.index = g := h.g_eq

/-- `f` neither reads nor writes the index -/
def IdxFree (f : DB → DB) : Prop := ∀ d i, f (reidx d i) = reidx (f d) i

theorem IdxFree.index {f : DB → DB} (hf : IdxFree f) (d : DB) : (f d).index = d.index := by
  have := congrArg DB.index (hf d d.index)
  exact this

theorem IdxFree.lz {f : DB → DB} (hf : IdxFree f) {a g : DB} (h : Lz a g) (hp : (f a).pending = a.pending ∨ (f a).pending = []) :
    Lz (f a) (f g) := by
  have e : f g = reidx (f a) g.index := by rw [← h.g_reidx]; exact hf a g.index
  rw [e]
  refine ⟨rfl, ?_, ?_⟩
  · show SubL (f a).index g.index
    rw [hf.index]; exact h.idx
  · intro k r hl hd
    have hl' : ilookup k (f a).index = some r := hl
    rw [hf.index] at hl'
    rcases hp with hp | hp
    · rw [hp]; exact h.np k r hl' hd
    · rw [hp]; exact List.not_mem_nil

theorem idxFree_emit (t : String) (e : Effect) : IdxFree (fun d => emit d t e) := fun _ _ => rfl

theorem idxFree_checkDat : IdxFree checkDat := by
  intro d i
  unfold checkDat reidx
  dsimp only
  split <;> rfl

theorem idxFree_checkLog : IdxFree checkLog := by
  intro d i
  unfold checkLog reidx
  dsimp only
  split <;> rfl

theorem fail_reidx (d : DB) (w : String) (i : List (Key × Rec)) : fail (reidx d i) w = reidx (fail d w) i := by
  unfold fail reidx
  dsimp only
  split <;> rfl

/-! ### sync() -/

theorem syncKey_lz (d : DB) (ig : List (Key × Rec)) (b : Bytes) (k : Key) (hs : SubL d.index ig)
    (hl : ilookup k d.index = ilookup k ig) :
    ∃ i', (syncKey (reidx d ig, b) k).1 = reidx (syncKey (d, b) k).1 i' ∧
      (syncKey (reidx d ig, b) k).2 = (syncKey (d, b) k).2 ∧ SubL (syncKey (d, b) k).1.index i' ∧
      (∀ j, ilookup j d.index = ilookup j ig → ilookup j (syncKey (d, b) k).1.index = ilookup j i') := by
  have hfG : (reidx d ig).failed = d.failed := rfl
  have hiG : (reidx d ig).index = ig := rfl
  cases hf : d.failed with
  | some w =>
    have eA : syncKey (d, b) k = (d, b) := by unfold syncKey; simp only [hf]
    have eG : syncKey (reidx d ig, b) k = (reidx d ig, b) := by unfold syncKey; simp only [hfG, hf]
    rw [eA, eG]
    exact ⟨ig, rfl, rfl, hs, fun j hj => hj⟩
  | none =>
    cases hk : ilookup k d.index with
    | none =>
      have hkG : ilookup k ig = none := by rw [← hl]; exact hk
      have eA : syncKey (d, b) k = (d, b ++ encDel k) := by unfold syncKey; simp only [hf, hk]
      have eG : syncKey (reidx d ig, b) k = (reidx d ig, b ++ encDel k) := by
        unfold syncKey; simp only [hfG, hiG, hf, hkG]
      rw [eA, eG]
      exact ⟨ig, rfl, rfl, hs, fun j hj => hj⟩
    | some rc =>
      have hkG : ilookup k ig = some rc := by rw [← hl]; exact hk
      cases hd : rc.data with
      | none =>
        have eA : syncKey (d, b) k = (fail d "panic", b) := by unfold syncKey; simp only [hf, hk, hd]
        have eG : syncKey (reidx d ig, b) k = (fail (reidx d ig) "panic", b) := by
          unfold syncKey; simp only [hfG, hiG, hf, hkG, hd]
        rw [eA, eG]
        refine ⟨ig, fail_reidx d "panic" ig, rfl, ?_, ?_⟩
        · show SubL (fail d "panic").index ig
          unfold fail; rw [hf]; exact hs
        · intro j hj
          show ilookup j (fail d "panic").index = _
          unfold fail; rw [hf]; exact hj
      | some val =>
        have eA : syncKey (d, b) k = syncRec d b k rc val := by unfold syncKey; simp only [hf, hk, hd]
        have eG : syncKey (reidx d ig, b) k = syncRec (reidx d ig) b k rc val := by
          unfold syncKey; simp only [hfG, hiG, hf, hkG, hd]
        rw [eA, eG]
        unfold syncRec
        refine ⟨iset k (if hasFlag rc.flags NO_CACHE then { rc with pos := u32 d.lastPos, seq := d.dataSeq, data := none }
            else { rc with pos := u32 d.lastPos, seq := d.dataSeq }) ig, rfl, rfl, ?_, ?_⟩
        · exact hs.iset k _ _ (Sub.refl _)
        · intro j hj
          show ilookup j (Qdb.iset k _ d.index) = ilookup j (Qdb.iset k _ ig)
          rw [ilookup_iset, ilookup_iset, hj]

theorem syncFold_lz (ks : List Key) (d : DB) (ig : List (Key × Rec)) (b : Bytes) (hs : SubL d.index ig)
    (hks : ∀ k ∈ ks, ilookup k d.index = ilookup k ig) :
    ∃ i', (ks.foldl syncKey (reidx d ig, b)).1 = reidx (ks.foldl syncKey (d, b)).1 i' ∧
      (ks.foldl syncKey (reidx d ig, b)).2 = (ks.foldl syncKey (d, b)).2 ∧
      SubL (ks.foldl syncKey (d, b)).1.index i' := by
  induction ks generalizing d ig b with
  | nil => exact ⟨ig, rfl, rfl, hs⟩
  | cons k t ih =>
    simp only [List.foldl_cons]
    obtain ⟨i1, e1, e2, s1, l1⟩ := syncKey_lz d ig b k hs (hks k List.mem_cons_self)
    have hst : syncKey (reidx d ig, b) k = (reidx (syncKey (d, b) k).1 i1, (syncKey (d, b) k).2) := by
      rw [← e1, ← e2]
    rw [hst]
    exact ih (syncKey (d, b) k).1 i1 (syncKey (d, b) k).2 s1
      (fun k' hk' => l1 k' (hks k' (List.mem_cons_of_mem _ hk')))

/-! ### defrag(): every record is loaded, so both stores end up equal -/

theorem defragSink_reidx (S : Nat) (d : DB) (b : Bytes) (i : List (Key × Rec)) :
    defragSink S (reidx d i) b = reidx (defragSink S d b) i := rfl

theorem bufWrite_reidx (sink : DB → Bytes → DB) (hsink : ∀ d b i, sink (reidx d i) b = reidx (sink d b) i)
    (d : DB) (w : BufW) (p : Bytes) (i : List (Key × Rec)) :
    bufWrite sink (reidx d i) w p = (reidx (bufWrite sink d w p).1 i, (bufWrite sink d w p).2) := by
  unfold bufWrite
  split
  · rfl
  · split
    · simp only [hsink]
    · dsimp only
      split
      · simp only [hsink]
      · simp only [hsink]

theorem bufFlush_reidx (sink : DB → Bytes → DB) (hsink : ∀ d b i, sink (reidx d i) b = reidx (sink d b) i)
    (d : DB) (w : BufW) (i : List (Key × Rec)) :
    bufFlush sink (reidx d i) w = reidx (bufFlush sink d w) i := by
  unfold bufFlush
  split
  · rfl
  · exact hsink _ _ _

theorem defragRec_reidx (S : Nat) (d : DB) (w : BufW) (acc : List (Key × Rec)) (kr : Key × Rec)
    (i : List (Key × Rec)) :
    defragRec (defragSink S) (reidx d i, w, acc) kr =
      (reidx (defragRec (defragSink S) (d, w, acc) kr).1 i, (defragRec (defragSink S) (d, w, acc) kr).2.1,
       (defragRec (defragSink S) (d, w, acc) kr).2.2) := by
  unfold defragRec
  dsimp only
  have hf : (reidx d i).failed = d.failed := rfl
  have hfs : (reidx d i).fs = d.fs := rfl
  rw [hf, hfs]
  cases d.failed with
  | some x => rfl
  | none =>
    simp only []
    cases Qdb.loadrec d.fs kr.2 with
    | none =>
      simp only []
      rw [fail_reidx]
    | some r =>
      simp only []
      rw [bufWrite_reidx (defragSink S) (defragSink_reidx S)]
      rfl

theorem defragRec_load (S : Nat) (d : DB) (w : BufW) (acc : List (Key × Rec)) (k : Key) (ra rg : Rec)
    (h : Qdb.loadrec d.fs ra = Qdb.loadrec d.fs rg) :
    defragRec (defragSink S) (d, w, acc) (k, ra) = defragRec (defragSink S) (d, w, acc) (k, rg) := by
  unfold defragRec
  dsimp only
  rw [h]

/-- the data files other than `S` -/
def offS (S : Nat) (F : FS) : Nat → Option Bytes := fun t => if t = S then none else dlookup t F.dats

theorem loadrec_offS (S : Nat) (F F' : FS) (r : Rec) (hr : r.seq ≠ S) (h : offS S F = offS S F') :
    Qdb.loadrec F r = Qdb.loadrec F' r := by
  have := congrFun h r.seq
  unfold offS at this
  simp only [hr, ↓reduceIte] at this
  unfold Qdb.loadrec
  rw [this]

theorem defragSink_offS (S : Nat) (d : DB) (b : Bytes) : offS S (defragSink S d b).fs = offS S d.fs := by
  have := defragSink_rest S d b
  unfold datRest at this
  simp only [Prod.mk.injEq] at this
  exact this.2.2.2.1

theorem defragRec_offS (S : Nat) (d : DB) (w : BufW) (acc : List (Key × Rec)) (kr : Key × Rec) :
    offS S (defragRec (defragSink S) (d, w, acc) kr).1.fs = offS S d.fs := by
  unfold defragRec
  dsimp only
  cases d.failed with
  | some x => rfl
  | none =>
    simp only []
    cases Qdb.loadrec d.fs kr.2 with
    | none =>
      simp only []
      unfold fail
      split <;> rfl
    | some r =>
      simp only []
      exact (bufWrite_gen (defragSink S) (datFile S) (fun x => offS S x.fs) (defragSink_file S)
        (defragSink_offS S) d w (r.data.getD [])).2

theorem defragFold_lz (S : Nat) (F0 : FS) (la lg : List (Key × Rec)) (hs : SubL la lg)
    (hc : ∀ k ra rg, (k, ra) ∈ la → (k, rg) ∈ lg → Sub ra rg → ∀ F, offS S F = offS S F0 →
      Qdb.loadrec F ra = Qdb.loadrec F rg)
    (d : DB) (w : BufW) (acc : List (Key × Rec)) (i : List (Key × Rec)) (hd : offS S d.fs = offS S F0) :
    lg.foldl (defragRec (defragSink S)) (reidx d i, w, acc) =
      (reidx (la.foldl (defragRec (defragSink S)) (d, w, acc)).1 i,
       (la.foldl (defragRec (defragSink S)) (d, w, acc)).2.1,
       (la.foldl (defragRec (defragSink S)) (d, w, acc)).2.2) := by
  induction la generalizing lg d w acc with
  | nil =>
    cases lg with
    | nil => rfl
    | cons y t => exact absurd hs (by simp [SubL])
  | cons x ta ih =>
    cases lg with
    | nil => exact absurd hs (by simp [SubL])
    | cons y tg =>
      obtain ⟨ka, ra⟩ := x
      obtain ⟨kg, rg⟩ := y
      obtain ⟨rfl, hsub, ht⟩ := hs
      simp only [List.foldl_cons]
      rw [defragRec_reidx]
      have hload := hc ka ra rg List.mem_cons_self List.mem_cons_self hsub d.fs hd
      rw [← defragRec_load S d w acc ka ra rg hload]
      exact ih tg ht (fun k r1 r2 h1 h2 h3 => hc k r1 r2 (List.mem_cons_of_mem _ h1) (List.mem_cons_of_mem _ h2) h3)
        _ _ _ ((defragRec_offS S d w acc (ka, ra)).trans hd)

theorem idxFree_defragStart : IdxFree defragStart := by
  intro d i
  unfold defragStart
  exact idxFree_checkDat { d with dataSeq := u32 (d.dataSeq + 1), datOpen := false } i

theorem defragStart_offS (d : DB) : offS (u32 (d.dataSeq + 1)) (defragStart d).fs = offS (u32 (d.dataSeq + 1)) d.fs := by
  unfold defragStart checkDat
  simp only [Bool.false_eq_true, ↓reduceIte]
  unfold offS emit FS.apply
  funext t
  by_cases ht : t = u32 (d.dataSeq + 1)
  · simp [ht]
  · simp only [ht, ↓reduceIte, dlookup_dset_same]
    rw [dlookup_dset_other _ _ _ _ ht, dlookup_dset_other _ _ _ _ ht]

/-- defrag() loads every record: the two stores end up EQUAL -/
theorem defrag_lz {a g : DB} (h : Lz a g) (h3 : Inv3 g) (hseq : g.dataSeq + 1 < 2^32) : defrag a = defrag g := by
  have inv := h3.inv
  have hds : a.dataSeq = g.dataSeq := (congrArg DB.dataSeq h.sh : (shell a).dataSeq = (shell g).dataSeq)
  have hS : (defragStart a).dataSeq = u32 (a.dataSeq + 1) := (defragStart_disk a).2.2.1
  have hai : (defragStart a).index = a.index := (defragStart_disk a).2.2.2.1
  have hnd : (Keys a.index).Nodup := h.nodup inv
  -- the fold on g's side in terms of the fold on a's side
  have hc : ∀ k ra rg, (k, ra) ∈ a.index → (k, rg) ∈ g.index → Sub ra rg → ∀ F,
      offS (u32 (a.dataSeq + 1)) F = offS (u32 (a.dataSeq + 1)) (defragStart a).fs →
      Qdb.loadrec F ra = Qdb.loadrec F rg := by
    intro k ra rg hma hmg hsub F hF
    have hla := ilookup_of_mem_nodup a.index hnd k ra hma
    have hlg := ilookup_of_mem_nodup g.index inv.nodup k rg hmg
    have hcg := allCached_lookup inv.cached.2 k rg hlg
    rcases hsub with rfl | hra
    · rfl
    · rw [loadrec_cached F rg hcg]
      have hnp : k ∉ g.pending := by rw [← h.pending]; exact h.np k ra hla (by rw [hra])
      have hseqne : ra.seq ≠ u32 (a.dataSeq + 1) := by
        have hcl := inv.clean k hnp
        rw [hlg] at hcl
        cases hdi : ilookup k (diskIndex g.fs) with
        | none => rw [hdi] at hcl; cases hcl
        | some rd =>
          rw [hdi] at hcl
          simp only [Option.map_some, Option.some.injEq, core, Prod.mk.injEq] at hcl
          have := h3.i2.seqs (k, rd) (ilookup_key_pair k rd _ hdi)
          have hu : u32 (a.dataSeq + 1) = a.dataSeq + 1 := Nat.mod_eq_of_lt (by rw [hds]; exact hseq)
          rw [hu, hra, hds]
          show rg.seq ≠ _
          have h1 : rd.seq = rg.seq := hcl.1
          have h2 : rd.seq ≤ g.dataSeq := this
          omega
      rw [loadrec_offS _ F a.fs ra hseqne (hF.trans (defragStart_offS a))]
      exact h.loadrec inv k ra rg hla hlg (Or.inr hra)
  have hfold := defragFold_lz (u32 (a.dataSeq + 1)) (defragStart a).fs a.index g.index h.idx hc
    (defragStart a) {} [] g.index rfl
  generalize hX : a.index.foldl (defragRec (defragSink (u32 (a.dataSeq + 1)))) (defragStart a, ({} : BufW), []) = X
    at hfold
  have hg : defrag (reidx a g.index) = (match X.1.failed with
      | some _ => reidx X.1 g.index
      | none => defragFinish (u32 (a.dataSeq + 1)) X.1 X.2.1 X.2.2) := by
    unfold defrag
    dsimp only
    rw [idxFree_defragStart a g.index]
    have e1 : (reidx (defragStart a) g.index).dataSeq = u32 (a.dataSeq + 1) := hS
    have e2 : (reidx (defragStart a) g.index).index = g.index := rfl
    rw [e1, e2, hfold]
    dsimp only
    have hff : (reidx X.1 g.index).failed = X.1.failed := rfl
    rw [hff]
    cases X.1.failed with
    | none => rfl
    | some w => rfl
  have ha : defrag a = (match X.1.failed with
      | some _ => X.1
      | none => defragFinish (u32 (a.dataSeq + 1)) X.1 X.2.1 X.2.2) := by
    unfold defrag
    dsimp only
    rw [hS, hai, hX]
    rfl
  have hgf : (defrag g).failed = none := (defrag_cached g inv.cached).cached.1
  rw [← h.g_reidx, hg] at hgf
  rw [← h.g_reidx, ha, hg]
  cases hx : X.1.failed with
  | none => rfl
  | some w =>
    rw [hx] at hgf
    have : (reidx X.1 g.index).failed = some w := hx
    simp only [] at hgf
    rw [this] at hgf
    cases hgf

theorem idxFree_logWritten (b : Bytes) : IdxFree (fun d => logWritten d b) := by
  intro d i
  unfold logWritten
  show { emit (checkLog (reidx d i)) "qdb.sync:log-written" (.appendLog b) with pending := [] } = _
  rw [idxFree_checkLog d i]
  rfl

/-- sync() acts on both stores in lock step -/
theorem sync_lz {a g : DB} (h : Lz a g) (h3 : Inv3 g) (hs : SizeOK g) (hseq : g.dataSeq + 1 < 2^32) :
    Lz (sync a) (sync g) := by
  have inv := h3.inv
  have hva : a.volatile = false := h.volatile.trans inv.nv
  cases hp : g.pending.isEmpty with
  | true =>
    have e1 : sync g = g := by unfold sync; simp [inv.nv, hp]
    have e2 : sync a = a := by unfold sync; simp [hva, h.pending, hp]
    rw [e1, e2]; exact h
  | false =>
    obtain ⟨L, hL, h3L, _, _, _, _, hLds, hLdef⟩ := sync_logWritten3 g h3 hp hs
    -- the loop on both sides
    have hcd : checkDat g = reidx (checkDat a) g.index := by
      rw [← h.g_reidx]; exact idxFree_checkDat a g.index
    have hks : ∀ k ∈ a.pending, ilookup k (checkDat a).index = ilookup k g.index := by
      intro k hk
      rw [idxFree_checkDat.index]
      rcases h.idx.lookup k with ⟨h1, h2⟩ | ⟨ra, rg, h1, h2, hsub⟩
      · rw [h1, h2]
      · rcases hsub with rfl | hra
        · rw [h1, h2]
        · exact absurd hk (h.np k ra h1 (by rw [hra]))
    obtain ⟨i', f1, f2, f3⟩ := syncFold_lz a.pending (checkDat a) g.index []
      (by rw [idxFree_checkDat.index]; exact h.idx) hks
    generalize hFa : a.pending.foldl syncKey (checkDat a, []) = Fa at f1 f2 f3
    have hFg : g.pending.foldl syncKey (checkDat g, []) = (reidx Fa.1 i', Fa.2) := by
      rw [← h.pending, hcd, ← f1, ← f2]
    rw [hFg] at hLdef
    have hLM : L = reidx (logWritten Fa.1 Fa.2) i' := by
      rw [hLdef]; exact idxFree_logWritten Fa.2 Fa.1 i'
    -- the state after the log write, on a's side
    have hM : Lz (logWritten Fa.1 Fa.2) L := by
      rw [hLM]
      refine ⟨rfl, ?_, fun k r _ _ => List.not_mem_nil⟩
      show SubL (logWritten Fa.1 Fa.2).index i'
      rw [(idxFree_logWritten Fa.2).index]; exact f3
    have hLf : L.failed = none := h3L.inv.cached.1
    have hFaf : Fa.1.failed = none := by
      have : (reidx (logWritten Fa.1 Fa.2) i').failed = none := by rw [← hLM]; exact hLf
      have h2 : (logWritten Fa.1 Fa.2).failed = Fa.1.failed := by
        unfold logWritten checkLog; split <;> rfl
      rw [← h2]; exact this
    have ea : sync a = (if (logWritten Fa.1 Fa.2).extra > (logWritten Fa.1 Fa.2).opts.forcedPerc * (logWritten Fa.1 Fa.2).need / 100
        then defrag (logWritten Fa.1 Fa.2) else logWritten Fa.1 Fa.2) := by
      unfold sync
      rw [if_neg (by simp [hva]), if_neg (by rw [h.pending]; simp [hp])]
      simp only [hFa, hFaf]
      rfl
    have hext : (logWritten Fa.1 Fa.2).extra = L.extra ∧ (logWritten Fa.1 Fa.2).opts = L.opts ∧
        (logWritten Fa.1 Fa.2).need = L.need := by rw [hLM]; exact ⟨rfl, rfl, rfl⟩
    rw [ea, hL, hext.1, hext.2.1, hext.2.2]
    split
    · rw [defrag_lz hM h3L (by rw [hLds]; exact hseq)]
      have hc := (defrag_cached L h3L.inv.cached).cached
      exact Lz.refl _ hc.2
    · exact hM

/-! ### Browse -/

/-- the index Browse leaves on `a`'s side: skipped records stay as they are, visited ones are loaded -/
def mixL (all : Bool) (w : List (Key × Nat)) : List (Key × Rec) → List (Key × Rec) → List (Key × Rec)
  | (ka, ra) :: ta, (kg, rg) :: tg =>
      (if !all && hasFlag rg.flags NO_BROWSE then (ka, ra) else browseRec all w (kg, rg)) :: mixL all w ta tg
  | _, _ => []

theorem mixL_subL (all : Bool) (w : List (Key × Nat)) (la lg : List (Key × Rec)) (h : SubL la lg) :
    SubL (mixL all w la lg) (lg.map (browseRec all w)) := by
  induction la generalizing lg with
  | nil =>
    cases lg with
    | nil => trivial
    | cons y t => exact absurd h (by simp [SubL])
  | cons x ta ih =>
    cases lg with
    | nil => exact absurd h (by simp [SubL])
    | cons y tg =>
      obtain ⟨ka, ra⟩ := x
      obtain ⟨kg, rg⟩ := y
      obtain ⟨rfl, hs, ht⟩ := h
      simp only [mixL, List.map_cons]
      by_cases hb : (!all && hasFlag rg.flags NO_BROWSE) = true
      · have e : browseRec all w (ka, rg) = (ka, rg) := by unfold browseRec; simp only [hb, ↓reduceIte]
        rw [e]
        simp only [hb, ↓reduceIte]
        exact ⟨rfl, hs, ih tg ht⟩
      · simp only [hb, ↓reduceIte]
        refine ⟨rfl, Sub.refl _, ih tg ht⟩

theorem mixL_lazy (all : Bool) (w : List (Key × Nat)) (la lg : List (Key × Rec)) (h : SubL la lg)
    (hc : AllCached eg lg) (k : Key) (r : Rec) (hl : ilookup k (mixL all w la lg) = some r) (hd : r.data = none) :
    ilookup k la = some r := by
  induction la generalizing lg with
  | nil =>
    cases lg with
    | nil => simp [mixL, ilookup] at hl
    | cons y t => exact absurd h (by simp [SubL])
  | cons x ta ih =>
    cases lg with
    | nil => exact absurd h (by simp [SubL])
    | cons y tg =>
      obtain ⟨ka, ra⟩ := x
      obtain ⟨kg, rg⟩ := y
      obtain ⟨rfl, hs, ht⟩ := h
      have hcg := hc (ka, rg) List.mem_cons_self
      simp only [mixL] at hl
      by_cases hb : (!all && hasFlag rg.flags NO_BROWSE) = true
      · simp only [hb, ↓reduceIte, ilookup] at hl ⊢
        by_cases hk : ka = k
        · simp only [hk, ↓reduceIte] at hl ⊢; exact hl
        · simp only [hk, ↓reduceIte] at hl ⊢
          exact ih tg ht (fun x hx => hc x (List.mem_cons_of_mem _ hx)) hl
      · have e : (if (!all && hasFlag rg.flags NO_BROWSE) = true then (ka, ra) else browseRec all w (ka, rg)) =
            (ka, { rg with flags := applyBrowsingFlags rg.flags (walkRes w ka) }) := by
          unfold browseRec; simp [hb]
        rw [e] at hl
        simp only [ilookup] at hl ⊢
        by_cases hk : ka = k
        · simp only [hk, ↓reduceIte] at hl
          cases hl
          have := hcg.1
          simp only at hd
          rw [hd] at this; cases this
        · simp only [hk, ↓reduceIte] at hl ⊢
          exact ih tg ht (fun x hx => hc x (List.mem_cons_of_mem _ hx)) hl

theorem browseFold_lz (all : Bool) (w : List (Key × Nat)) (hw : WalkOK eg w) (db : DB) (hf : db.failed = none)
    (la lg : List (Key × Rec)) (hs : SubL la lg) (hc : AllCached eg lg)
    (hload : ∀ k ra rg, (k, ra) ∈ la → (k, rg) ∈ lg → Sub ra rg → Qdb.loadrec db.fs ra = some rg)
    (acc : List (Key × Rec)) (out : List (Key × Bytes)) :
    la.foldl (browseStep all w) (db, acc, out) =
      (db, acc ++ mixL all w la lg, out ++ lg.filterMap (browseOut all)) := by
  induction la generalizing lg acc out with
  | nil =>
    cases lg with
    | nil => simp [mixL]
    | cons y t => exact absurd hs (by simp [SubL])
  | cons x ta ih =>
    cases lg with
    | nil => exact absurd hs (by simp [SubL])
    | cons y tg =>
      obtain ⟨ka, ra⟩ := x
      obtain ⟨kg, rg⟩ := y
      obtain ⟨rfl, hsub, ht⟩ := hs
      have hcg := hc (ka, rg) List.mem_cons_self
      have hfl : ra.flags = rg.flags := hsub.fields.2.2.2
      have hstep : browseStep all w (db, acc, out) (ka, ra) =
          (db, acc ++ [if !all && hasFlag rg.flags NO_BROWSE then (ka, ra) else browseRec all w (ka, rg)],
           out ++ (browseOut all (ka, rg)).toList) := by
        unfold browseStep browseRec browseOut
        simp only [hf, hfl]
        by_cases hb : (!all && hasFlag rg.flags NO_BROWSE) = true
        · simp [hb]
        · simp only [hb, ↓reduceIte]
          rw [hload ka ra rg List.mem_cons_self List.mem_cons_self hsub]
          simp only []
          rw [freerec_cached _ (applyBF_keeps_noNC _ _ hcg.2 (walkRes_ok w hw ka))]
          simp
      simp only [List.foldl_cons, hstep]
      rw [ih tg ht (fun x hx => hc x (List.mem_cons_of_mem _ hx))
        (fun k r1 r2 h1 h2 h3 => hload k r1 r2 (List.mem_cons_of_mem _ h1) (List.mem_cons_of_mem _ h2) h3)]
      simp only [mixL, List.filterMap_cons]
      cases hb : browseOut all (ka, rg) <;> simp

theorem browseGen_lz (all : Bool) {a g : DB} (h : Lz a g) (inv : DiskInv g) (w : List (Key × Nat)) (hw : WalkOK eg w) :
    Lz (browseGen all a w).1 (browseGen all g w).1 ∧ (browseGen all a w).2 = (browseGen all g w).2 := by
  have hfa : a.failed = none := h.failed.trans inv.cached.1
  obtain ⟨g1, g2⟩ := browseGen_cached all g w inv.cached hw
  have hnd := h.nodup inv
  have hfold := browseFold_lz all w hw a hfa a.index g.index h.idx inv.cached.2
    (fun k ra rg h1 h2 h3 => h.loadrec inv k ra rg (ilookup_of_mem_nodup _ hnd k ra h1)
      (ilookup_of_mem_nodup _ inv.nodup k rg h2) h3) [] []
  have ea : browseGen all a w = ({ a with index := mixL all w a.index g.index }, g.index.filterMap (browseOut all)) := by
    unfold browseGen
    simp only [hfa, Option.isSome_none, Bool.false_eq_true, ↓reduceIte]
    rw [hfold]
    simp [hfa]
  rw [ea, g1, g2]
  refine ⟨⟨h.sh, mixL_subL all w _ _ h.idx, ?_⟩, rfl⟩
  intro k r hl hd
  exact h.np k r (mixL_lazy all w _ _ h.idx inv.cached.2 k r hl hd) hd

/-! ### every operation other than a reopen -/

theorem syncneeded_shell {a g : DB} (h : shell a = shell g) : syncneeded a = syncneeded g := by
  have h1 : a.volatile = g.volatile := (congrArg DB.volatile h : (shell a).volatile = (shell g).volatile)
  have h2 : a.pending = g.pending := (congrArg DB.pending h : (shell a).pending = (shell g).pending)
  have h3 : a.opts = g.opts := (congrArg DB.opts h : (shell a).opts = (shell g).opts)
  have h4 : a.noSync = g.noSync := (congrArg DB.noSync h : (shell a).noSync = (shell g).noSync)
  unfold syncneeded
  rw [h1, h2, h3, h4]

theorem afterChange_lz (Ma Mg : DB) (k : Key) (h : Lz (addPending Ma k) (addPending Mg k))
    (h3 : Inv3 (addPending Mg k)) (hs : SizeOK (addPending Mg k)) (hseq : (addPending Mg k).dataSeq + 1 < 2^32)
    (hva : Ma.volatile = false) (hvg : Mg.volatile = false) :
    Lz (afterChange Ma k) (afterChange Mg k) := by
  unfold afterChange
  simp only [hva, hvg, Bool.false_eq_true, ↓reduceIte]
  rw [syncneeded_shell h.sh]
  split
  · exact sync_lz h h3 hs hseq
  · exact h

theorem step_lz {a g : DB} (h : Lz a g) (h3 : Inv3 g) (op : Op) (hnr : ∀ x y z, op ≠ .reopen x y z) (ok : OpOK eg op)
    (fits : OpFits g op) (hseq : (preSync g op).dataSeq + 1 < 2^32) : Lz (step a op) (step g op) := by
  have inv := h3.inv
  have i2 := h3.i2
  have hfa : a.failed = none := h.failed.trans inv.cached.1
  have hva : a.volatile = false := h.volatile.trans inv.nv
  cases op with
  | reopen x y z => exact absurd rfl (hnr x y z)
  | put k v =>
    obtain ⟨f1, f2, f3⟩ := fits
    show Lz (putExt a k v 0) (putExt g k v 0)
    unfold putExt
    rw [if_neg (by simp [hfa]), if_neg (notFailed inv.cached)]
    obtain ⟨e, n, m, hmp⟩ := memput_same g k (newRec v 0)
    have hM := putExt_addPending_inv g inv k v 0 f1 f2 (by decide) (by decide)
    have hM2 : Inv2 (addPending (memput g k (newRec v 0)) k) := by
      rw [addPending_same, hmp]; exact inv2_same i2 rfl rfl rfl rfl
    exact afterChange_lz _ _ k (putPending_lz h k (newRec v 0) rfl) ⟨hM, hM2⟩ f3 hseq
      (by rw [(memput_spec a k _).2.2.1]; exact hva) (by rw [(memput_spec g k _).2.2.1]; exact inv.nv)
  | putExt k v f =>
    obtain ⟨f1, f2, f3, f4⟩ := fits
    show Lz (putExt a k v f) (putExt g k v f)
    unfold putExt
    rw [if_neg (by simp [hfa]), if_neg (notFailed inv.cached)]
    obtain ⟨e, n, m, hmp⟩ := memput_same g k (newRec v f)
    have hM := putExt_addPending_inv g inv k v f f1 f2 f3 ok
    have hM2 : Inv2 (addPending (memput g k (newRec v f)) k) := by
      rw [addPending_same, hmp]; exact inv2_same i2 rfl rfl rfl rfl
    exact afterChange_lz _ _ k (putPending_lz h k (newRec v f) rfl) ⟨hM, hM2⟩ f4 hseq
      (by rw [(memput_spec a k _).2.2.1]; exact hva) (by rw [(memput_spec g k _).2.2.1]; exact inv.nv)
  | del k =>
    show Lz (del a k) (del g k)
    unfold del
    rw [if_neg (by simp [hfa]), if_neg (notFailed inv.cached)]
    obtain ⟨e, n, hmd⟩ := memdel_same g k
    have hM := del_addPending_inv g inv k fits.1
    have hM2 : Inv2 (addPending (memdel g k) k) := by
      rw [addPending_same, hmd]; exact inv2_same i2 rfl rfl rfl rfl
    exact afterChange_lz _ _ k (delPending_lz h inv k) ⟨hM, hM2⟩ fits.2 hseq
      (by rw [(memdel_spec a k).2.2.1]; exact hva) (by rw [(memdel_spec g k).2.2.1]; exact inv.nv)
  | get k => exact (get_lz h inv k).1
  | browse w => exact (browseGen_lz false h inv w ok).1
  | applyFlags k fl => exact applyFlags_lz h inv k fl
  | noSync => exact noSyncOp_lz h inv
  | sync =>
    show Lz (syncOp a) (syncOp g)
    have ea : syncOp a = sync { a with noSync := false } := by
      unfold syncOp; rw [if_neg (by simp [hfa]), if_neg (by simp [hva])]
    have eg : syncOp g = sync { g with noSync := false } := by
      unfold syncOp; rw [if_neg (notFailed inv.cached), if_neg (by simp [inv.nv])]
    rw [ea, eg]
    have h' : Lz { a with noSync := false } { g with noSync := false } :=
      ⟨congrArg (fun d : DB => { d with noSync := false }) h.sh, h.idx, h.np⟩
    exact sync_lz h' ⟨inv_noSync g inv false, inv2_same i2 rfl rfl rfl rfl⟩ fits hseq
  | defrag f =>
    show Lz (defragOp a f).1 (defragOp g f).1
    have hx : a.extra = g.extra := (congrArg DB.extra h.sh : (shell a).extra = (shell g).extra)
    have hn : a.need = g.need := (congrArg DB.need h.sh : (shell a).need = (shell g).need)
    have ho : a.opts = g.opts := (congrArg DB.opts h.sh : (shell a).opts = (shell g).opts)
    have ea : (defragOp a f).1 = if (f || decide (g.extra > g.opts.defragPerc * g.need / 100)) = true then defrag a else a := by
      unfold defragOp; rw [if_neg (by simp [hfa]), if_neg (by simp [hva]), hx, hn, ho]
      dsimp only
      split <;> rfl
    have eg : (defragOp g f).1 = if (f || decide (g.extra > g.opts.defragPerc * g.need / 100)) = true then defrag g else g := by
      unfold defragOp; rw [if_neg (notFailed inv.cached), if_neg (by simp [inv.nv])]
      dsimp only
      split <;> rfl
    rw [ea, eg]
    split
    · rw [defrag_lz h h3 hseq]
      exact Lz.refl _ (defrag_cached g inv.cached).cached.2
    · exact h

theorem close_nv (d : DB) (hf : d.failed = none) (hv : d.volatile = false) (hs : (sync d).failed = none) :
    close d = { sync d with datOpen := false, logOpen := false, index := [], pending := [] } := by
  unfold close
  rw [if_neg (by simp [hf])]
  simp only [hv, Bool.false_eq_true, ↓reduceIte]
  split
  · rename_i w hw; rw [hs] at hw; cases hw
  · rfl

/-- Close leaves the two stores EQUAL (nothing is in memory any more) -/
theorem close_lz {a g : DB} (h : Lz a g) (h3 : Inv3 g) (hs : SizeOK g) (hseq : g.dataSeq + 1 < 2^32) :
    close a = close g := by
  have inv := h3.inv
  have hfa : a.failed = none := h.failed.trans inv.cached.1
  have hva : a.volatile = false := h.volatile.trans inv.nv
  have hl := sync_lz h h3 hs hseq
  have hsf : (sync g).failed = none := (sync_inv g inv hs).1.cached.1
  rw [close_nv a hfa hva (hl.failed.trans hsf), close_nv g inv.cached.1 inv.nv hsf]
  have := congrArg (fun d : DB => { d with datOpen := false, logOpen := false, pending := [] }) hl.sh
  exact this

/-! ### NewDBExt with LoadData = false -/

theorem subL_loaded (fs : FS) (l : List (Key × Rec)) (h : NoData l) : SubL l (mapV (loadedRec fs) l) := by
  induction l with
  | nil => trivial
  | cons x t ih =>
    obtain ⟨k, r⟩ := x
    refine ⟨rfl, Or.inr ?_, ih (fun kr hkr => h kr (List.mem_cons_of_mem _ hkr))⟩
    have hd : r.data = none := h (k, r) List.mem_cons_self
    unfold loadedRec
    cases r
    simp only at hd
    simp [hd]

/-- the lazily opened store is related to the eagerly opened one -/
theorem lazyOpen_lz (F : FS) (opts : Opts) (h : OpenOK eg F) :
    Lz (openDB F false false opts eg) (openDB F false true opts eg) := by
  have key : ∀ (F' : FS) (S : OpenState F' false (openIndex { fs := F, volatile := false, opts := opts, eager := eg }))
      (hR : DirReadable eg F'), Lz (openDB F false false opts eg) (openDB F false true opts eg) := by
    intro F' S hR
    generalize hX : openIndex { fs := F, volatile := false, opts := opts, eager := eg } = X at S
    have hload := loadAll_of_openState F' false X S hR
    have e1 : openDB F false false opts eg = { X with dataSeq := u32 (X.maxSeq + 1) } := by
      unfold openDB
      simp only [Bool.false_eq_true, ↓reduceIte]
      rw [hX]
    have e2 : openDB F false true opts eg =
        { X with index := mapV (loadedRec X.fs) (diskIndex F'), dataSeq := u32 (X.maxSeq + 1) } := by
      unfold openDB
      simp only [↓reduceIte]
      rw [hX, hload]
    rw [e1, e2]
    refine ⟨rfl, ?_, ?_⟩
    · show SubL X.index (mapV (loadedRec X.fs) (diskIndex F'))
      rw [S.index]
      exact subL_loaded X.fs _ (diskIndex_noData F')
    · intro k r _ _
      show k ∉ X.pending
      rw [S.pending]; exact List.not_mem_nil
  rcases h.log with ⟨E, hE, hlog⟩ | hd
  · exact key F (open_state F false opts E hE hlog h.ver) h.readable
  · have hR : DirReadable eg (noLog F) := by
      intro kr hkr
      rw [diskIndex_noLog F hd] at hkr
      exact h.readable kr hkr
    exact key (noLog F) (open_state_discard F false opts hd) hR

/-! ### the eager twin of a history -/

/-- the same operation with LoadData = true -/
def twinOp : Op → Op
  | .reopen v _ o => .reopen v true o
  | op => op

def twinItem : HItem → HItem
  | .op o => .op (twinOp o)
  | .crash o n ms vol opts => .crash (twinOp o) n ms vol opts

/-- the same history in which every NewDBExt loads the data at once -/
def twin (H : List HItem) : List HItem := H.map twinItem

/-- operations of the sub-language with lazy loading: no NO_CACHE flag; Close + NewDBExt with LoadData = true in
    either mode, or with LoadData = false in non-volatile mode -/
def OpOK4 (e : Bool) : Op → Prop
  | .reopen vol load _ => load = true ∨ vol = false
  | op => OpOK eg op

theorem opOK3_twin (op : Op) (h : OpOK4 eg op) : OpOK3 eg (twinOp op) := by
  cases op <;> first | exact h | rfl

/-- the lazily loading store `a` and its eager twin `g` -/
def Twin (a g : DB) : Prop := (a = g ∧ SInv g) ∨ (Lz a g ∧ Inv3 g)

theorem Twin.sinv {a g : DB} (h : Twin a g) : SInv g := by
  rcases h with ⟨_, h⟩ | ⟨_, h⟩
  · exact h
  · exact Or.inl h

theorem Twin.fs {a g : DB} (h : Twin a g) : a.fs = g.fs := by
  rcases h with ⟨rfl, _⟩ | ⟨h, _⟩
  · rfl
  · exact h.fs

theorem Twin.effs {a g : DB} (h : Twin a g) : a.effs = g.effs := by
  rcases h with ⟨rfl, _⟩ | ⟨h, _⟩
  · rfl
  · exact h.effs

theorem Twin.failed {a g : DB} (h : Twin a g) : a.failed = none := by
  rcases h with ⟨rfl, h⟩ | ⟨h, h3⟩
  · exact h.cached.1
  · exact h.failed.trans h3.inv.cached.1

/-- one operation on a store whose records are all in memory, against its twin -/
theorem twin_step_eq (g : DB) (h : SInv g) (op : Op) (ok : OpOK4 eg op) (fits : OpFits3 g (twinOp op))
    (hd : DFits (preSync g (twinOp op))) : Twin (step g op) (step g (twinOp op)) := by
  have S := stepOK g h (twinOp op) (opOK3_twin op ok) fits hd
  cases op with
  | reopen vol load opts =>
    cases load with
    | true => exact Or.inl ⟨rfl, S.inv⟩
    | false =>
      have hv : vol = false := by
        rcases ok with h | h
        · cases h
        · exact h
      subst hv
      have c : Closed g := by
        rcases h with h | h
        · exact nclose g h fits.1 hd
        · exact vclose g h fits.1.2 hd
      obtain ⟨hi, _⟩ := reopen_from g c false opts fits.2
      have h3 : Inv3 (step g (.reopen false true opts)) := by
        rcases hi with ⟨_, h⟩ | ⟨hx, _⟩
        · exact h
        · cases hx
      refine Or.inr ⟨?_, h3⟩
      have hl := lazyOpen_lz (close g).fs opts c.ok
      have e1 : step g (.reopen false false opts) = { openDB (close g).fs false false opts eg with
          effs := (close g).effs ++ (openDB (close g).fs false false opts eg).effs } := by
        show (match (close g).failed with
          | some _ => close g
          | none => { openDB (close g).fs false false opts eg with
                      effs := (close g).effs ++ (openDB (close g).fs false false opts eg).effs }) = _
        rw [c.failed]
      have e2 : step g (.reopen false true opts) = { openDB (close g).fs false true opts eg with
          effs := (close g).effs ++ (openDB (close g).fs false true opts eg).effs } := by
        show (match (close g).failed with
          | some _ => close g
          | none => { openDB (close g).fs false true opts eg with
                      effs := (close g).effs ++ (openDB (close g).fs false true opts eg).effs }) = _
        rw [c.failed]
      show Lz (step g (.reopen false false opts)) (step g (twinOp (.reopen false false opts)))
      have e3 : twinOp (.reopen false false opts) = .reopen false true opts := rfl
      rw [e3, e1, e2]
      exact ⟨congrArg (fun d : DB => { d with effs := (close g).effs ++ d.effs }) hl.sh, hl.idx, hl.np⟩
  | put k v => exact Or.inl ⟨rfl, S.inv⟩
  | putExt k v f => exact Or.inl ⟨rfl, S.inv⟩
  | del k => exact Or.inl ⟨rfl, S.inv⟩
  | get k => exact Or.inl ⟨rfl, S.inv⟩
  | browse w => exact Or.inl ⟨rfl, S.inv⟩
  | applyFlags k fl => exact Or.inl ⟨rfl, S.inv⟩
  | defrag f => exact Or.inl ⟨rfl, S.inv⟩
  | sync => exact Or.inl ⟨rfl, S.inv⟩
  | noSync => exact Or.inl ⟨rfl, S.inv⟩

/-- one operation, lazily loading store against its twin -/
theorem twin_step (a g : DB) (h : Twin a g) (op : Op) (ok : OpOK4 eg op) (fits : OpFits3 g (twinOp op))
    (hd : DFits (preSync g (twinOp op))) : Twin (step a op) (step g (twinOp op)) := by
  rcases h with ⟨rfl, h⟩ | ⟨hl, h3⟩
  · exact twin_step_eq a h op ok fits hd
  · cases op with
    | reopen vol load opts =>
      have hc : close a = close g := close_lz hl h3 fits.1 hd.seq
      have e : step a (.reopen vol load opts) = step g (.reopen vol load opts) := by
        show (match (close a).failed with
          | some _ => close a
          | none => { openDB (close a).fs vol load opts eg with
                      effs := (close a).effs ++ (openDB (close a).fs vol load opts eg).effs }) = _
        rw [hc]
        rfl
      rw [e]
      exact twin_step_eq g (Or.inl h3) _ ok fits hd
    | put k v =>
      exact Or.inr ⟨step_lz hl h3 (.put k v) (fun _ _ _ => by simp) ok fits hd.seq, (step_inv3' g h3 (.put k v) ok fits).1⟩
    | putExt k v f =>
      exact Or.inr ⟨step_lz hl h3 (.putExt k v f) (fun _ _ _ => by simp) ok fits hd.seq, (step_inv3' g h3 (.putExt k v f) ok fits).1⟩
    | del k =>
      exact Or.inr ⟨step_lz hl h3 (.del k) (fun _ _ _ => by simp) ok fits hd.seq, (step_inv3' g h3 (.del k) ok fits).1⟩
    | get k =>
      exact Or.inr ⟨step_lz hl h3 (.get k) (fun _ _ _ => by simp) ok fits hd.seq, (step_inv3' g h3 (.get k) ok fits).1⟩
    | browse w =>
      exact Or.inr ⟨step_lz hl h3 (.browse w) (fun _ _ _ => by simp) ok fits hd.seq, (step_inv3' g h3 (.browse w) ok fits).1⟩
    | applyFlags k fl =>
      exact Or.inr ⟨step_lz hl h3 (.applyFlags k fl) (fun _ _ _ => by simp) ok fits hd.seq, (step_inv3' g h3 (.applyFlags k fl) ok fits).1⟩
    | defrag f =>
      exact Or.inr ⟨step_lz hl h3 (.defrag f) (fun _ _ _ => by simp) ok fits hd.seq, (step_inv3' g h3 (.defrag f) ok fits).1⟩
    | sync =>
      exact Or.inr ⟨step_lz hl h3 (.sync) (fun _ _ _ => by simp) ok fits hd.seq, (step_inv3' g h3 (.sync) ok fits).1⟩
    | noSync =>
      exact Or.inr ⟨step_lz hl h3 (.noSync) (fun _ _ _ => by simp) ok fits hd.seq, (step_inv3' g h3 (.noSync) ok fits).1⟩

/-- EVERY history, lazily loading store against its eager twin: the two runs stay related — same directory, same
    file operations (hence the same crash directories), and the lazily loading store holds the twin's records,
    some of them not in memory. -/
theorem twin_run (H : List HItem) (a g : DB) (h : Twin a g) (ok : ∀ i ∈ H, OpOK4 eg (itemOp i))
    (fits : HFits g (twin H)) : Twin (hrun a H) (hrun g (twin H)) := by
  induction H generalizing a g with
  | nil => exact h
  | cons i t ih =>
    cases i with
    | op o =>
      have oko := ok (.op o) List.mem_cons_self
      obtain ⟨f1, f2, f3⟩ := fits
      exact ih (step a o) (step g (twinOp o)) (twin_step a g h o oko f1 f2)
        (fun x hx => ok x (List.mem_cons_of_mem _ hx)) f3
    | crash o n ms vol opts =>
      have oko := ok (.crash o n ms vol opts) List.mem_cons_self
      obtain ⟨f1, f2, f3, f4⟩ := fits
      have hs := twin_step a g h o oko f1 f2
      have hcd : crashDir a o n = crashDir g (twinOp o) n := by
        unfold crashDir opEffs
        rw [h.fs, h.effs, hs.effs]
      have he : hstep a (.crash o n ms vol opts) = hstep g (.crash (twinOp o) n ms vol opts) := by
        show openDB (recrash opts (crashDir a o n) ms) vol true opts eg =
          openDB (recrash opts (crashDir g (twinOp o) n) ms) vol true opts eg
        rw [hcd]
      have hsi : SInv (hstep g (.crash (twinOp o) n ms vol opts)) :=
        (hrun_dur [.crash (twinOp o) n ms vol opts] g h.sinv
          (fun x hx => by
            rcases List.mem_singleton.mp hx with rfl
            exact opOK3_twin o oko)
          ⟨f1, f2, f3, trivial⟩).1
      refine ih _ _ (Or.inl ⟨he, hsi⟩) (fun x hx => ok x (List.mem_cons_of_mem _ hx)) f4

theorem itemOp_twin (i : HItem) : itemOp (twinItem i) = twinOp (itemOp i) := by
  cases i <;> rfl

theorem hok_twin (H : List HItem) (ok : ∀ i ∈ H, OpOK4 eg (itemOp i)) : ∀ i ∈ twin H, HOK eg i := by
  intro i hi
  obtain ⟨j, hj, rfl⟩ := List.mem_map.mp hi
  show OpOK3 eg (itemOp (twinItem j))
  rw [itemOp_twin]
  exact opOK3_twin _ (ok j hj)

/-- what a lazily loading store shows, against its twin -/
theorem Twin.observe {a g : DB} (h : Twin a g) :
    (∀ k, (Qdb.get a k).1.failed = none ∧ (Qdb.get a k).2 = vals g k) ∧
    (∀ w, WalkOK eg w → (browse a w).2 = (browse g w).2) ∧ count a = count g := by
  rcases h with ⟨rfl, h⟩ | ⟨h, h3⟩
  · exact ⟨fun k => ⟨(get_cached a k h.cached).1.1, (get_cached a k h.cached).2.2⟩, fun _ _ => rfl, rfl⟩
  · refine ⟨fun k => ?_, fun w hw => (browseGen_lz false h h3.inv w hw).2, h.idx.length⟩
    obtain ⟨l, e⟩ := get_lz h h3.inv k
    exact ⟨l.failed.trans (get_cached g k h3.inv.cached).1.1, e.trans (get_cached g k h3.inv.cached).2.2⟩

end GocoinV.Proofs.C19
