/-
  Proofs.C10Shared — lemmas about Model.UtxoShared (pooled decoders, chunked reader, undo-entry ownership).
-/
import GocoinV.Model.UtxoShared
import GocoinV.Proofs.C10Rec
namespace GocoinV.UtxoRec
open GocoinV.CompactSize
open ScriptCompress (KeyOps)

/-! ## pooled decoders -/

theorem outsList_cleared (s : PoolClear) (h : s.overReturned = true) (p : Pool) (cnt : Nat) :
    outsList s p cnt = List.replicate cnt none := by
  unfold outsList
  split
  · rfl
  · rename_i hl
    have e : ((p.slots.take cnt).drop cnt) = [] := by
      apply List.drop_eq_nil_of_le
      simp only [List.length_take]
      omega
    simp only [PoolClear.cleared, h, if_true, Nat.min_self, e, List.append_nil]

theorem newRecStaticU_fst (s : PoolClear) (h : s.overReturned = true) (p : Pool) (dat : Bytes) :
    (newRecStaticU s p dat).1 = newRecU dat := by
  unfold newRecStaticU newRecU
  cases hd : decHeader dat with
  | none => rfl
  | some x =>
    obtain ⟨txid, hh, c, rest⟩ := x
    simp only
    by_cases hc : c / 2 > maxOuts
    · simp only [hc, if_true]
    · simp only [hc, if_false]
      rw [outsList_cleared s h]
      cases decOutsU rest.length rest (List.replicate (c / 2) none) <;> rfl

theorem newRecStaticC_fst (s : PoolClear) (h : s.overReturned = true) (K : KeyOps) (p : Pool) (dat : Bytes) :
    (newRecStaticC s K p dat).1 = newRecC K dat := by
  unfold newRecStaticC newRecC
  cases hd : decHeader dat with
  | none => rfl
  | some x =>
    obtain ⟨txid, hh, c, rest⟩ := x
    simp only
    by_cases hc : c / 2 > maxOuts
    · simp only [hc, if_true]
    · simp only [hc, if_false]
      rw [outsList_cleared s h]
      cases decOutsC K rest.length rest (List.replicate (c / 2) none) <;> rfl

theorem staticHistory_eq_fresh (s : PoolClear) (h : s.overReturned = true) (K : KeyOps) :
    ∀ (l : List (Bool × Bytes)) (p : Pool), staticHistory s K p l = freshHistory K l := by
  intro l
  induction l with
  | nil => intro p; rfl
  | cons x t ih =>
    intro p
    obtain ⟨c, dat⟩ := x
    simp only [staticHistory, freshHistory, List.map_cons]
    rw [ih]
    cases c
    · simp only [Bool.false_eq_true, if_false, newRecStaticU_fst s h, freshHistory]
    · simp only [if_true, newRecStaticC_fst s h, freshHistory]

/-! ## chunked reader -/

/-- what one `Read` of `n+1` bytes returns: a non-empty prefix of the data, unless the data is empty -/
theorem Rd.read_spec (r : Rd) (n : Nat) :
    ∃ k caps', 1 ≤ k ∧ k ≤ n + 1 ∧ r.read (n + 1) = (r.data.take k, ⟨r.data.drop k, caps'⟩) := by
  unfold Rd.read
  cases r.caps with
  | nil => exact ⟨n + 1, [], by omega, by omega, rfl⟩
  | cons c t => exact ⟨min (n + 1) (c + 1), t, by omega, by omega, rfl⟩

theorem Rd.readFullAux_short : ∀ (fuel n : Nat) (r : Rd), n ≤ fuel → r.data.length < n →
    Rd.readFullAux fuel r n = none := by
  intro fuel
  induction fuel with
  | zero => intro n r h1 h2; omega
  | succ f ih =>
    intro n r h1 h2
    cases n with
    | zero => omega
    | succ n =>
      obtain ⟨k, caps', hk1, hk2, he⟩ := r.read_spec n
      simp only [Rd.readFullAux, he]
      cases hd : r.data with
      | nil => simp
      | cons a t =>
        have hne : ((a :: t).take k).isEmpty = false := by
          cases k with
          | zero => omega
          | succ k => rfl
        simp only [hne, Bool.false_eq_true, if_false]
        rw [hd] at h2
        simp only [List.length_cons] at h2
        rw [ih]
        · simp only [List.length_take, List.length_cons]
          omega
        · simp only [List.length_drop, List.length_take, List.length_cons]
          omega

theorem Rd.readFullAux_enough : ∀ (fuel n : Nat) (r : Rd), n ≤ fuel → n ≤ r.data.length →
    ∃ caps', Rd.readFullAux fuel r n = some (r.data.take n, ⟨r.data.drop n, caps'⟩) := by
  intro fuel
  induction fuel with
  | zero =>
    intro n r h1 _
    have : n = 0 := by omega
    subst this
    exact ⟨r.caps, by simp [Rd.readFullAux]⟩
  | succ f ih =>
    intro n r h1 h2
    cases n with
    | zero => exact ⟨r.caps, by simp [Rd.readFullAux]⟩
    | succ n =>
      obtain ⟨k, caps', hk1, hk2, he⟩ := r.read_spec n
      simp only [Rd.readFullAux, he]
      have hlen : (r.data.take k).length = k := by simp only [List.length_take]; omega
      have hne : (r.data.take k).isEmpty = false := by
        cases hx : r.data.take k with
        | nil => rw [hx] at hlen; simp at hlen; omega
        | cons a t => rfl
      simp only [hne, Bool.false_eq_true, if_false, hlen]
      obtain ⟨caps'', hrec⟩ := ih (n + 1 - k) ⟨r.data.drop k, caps'⟩ (by omega)
        (by simp only [List.length_drop]; omega)
      rw [hrec]
      refine ⟨caps'', ?_⟩
      simp only [Option.some.injEq, Prod.mk.injEq]
      refine ⟨?_, ?_⟩
      · have : n + 1 = k + (n + 1 - k) := by omega
        conv => rhs; rw [this, List.take_add]
      · congr 1
        rw [List.drop_drop]
        congr 1
        omega

theorem Rd.readFull_short (r : Rd) (n : Nat) (h : r.data.length < n) : r.readFull n = none :=
  Rd.readFullAux_short n n r (Nat.le_refl n) h

theorem Rd.readFull_enough (r : Rd) (n : Nat) (h : n ≤ r.data.length) :
    ∃ caps', r.readFull n = some (r.data.take n, ⟨r.data.drop n, caps'⟩) :=
  Rd.readFullAux_enough n n r (Nat.le_refl n) h

/-- one byte: a plain `Read` and `io.ReadFull` do the same -/
theorem Rd.get_one_nil (b : Bool) (r : Rd) (h : r.data = []) : r.get b 1 = none := by
  cases b
  · simp [Rd.get, Rd.readPlain, Rd.read, h]
  · simp only [Rd.get, if_true]
    exact r.readFull_short 1 (by simp [h])

theorem Rd.get_one_cons (b : Bool) (r : Rd) (a : UInt8) (t : Bytes) (h : r.data = a :: t) :
    ∃ caps', r.get b 1 = some ([a], ⟨t, caps'⟩) := by
  cases b
  · obtain ⟨k, caps', hk1, hk2, he⟩ := r.read_spec 0
    have : k = 1 := by omega
    subst this
    refine ⟨caps', ?_⟩
    simp only [Rd.get, Bool.false_eq_true, if_false, Rd.readPlain, Nat.one_ne_zero]
    simp only [Nat.zero_add] at he
    simp [he, h]
  · obtain ⟨caps', he⟩ := r.readFull_enough 1 (by simp [h])
    refine ⟨caps', ?_⟩
    simp only [Rd.get, if_true, he, h]
    simp

/-- `ReadVLen` through `io.ReadFull` for the length bytes reads what `ReadVLen` on the whole rest of the file reads,
    however the reader cuts the file into pieces -/
theorem readVLenRd_spec (sh : ReadShape) (hl : sh.lengthFull = true) (r : Rd) :
    (readVLen r.data = none ∧ readVLenRd sh r = none) ∨
      (∃ v rest caps', readVLen r.data = some (v, rest) ∧ readVLenRd sh r = some (v, ⟨rest, caps'⟩)) := by
  cases hd : r.data with
  | nil =>
    left
    refine ⟨rfl, ?_⟩
    simp only [readVLenRd, r.get_one_nil sh.markerFull hd]
  | cons a t =>
    obtain ⟨caps1, h1⟩ := r.get_one_cons sh.markerFull a t hd
    simp only [readVLenRd, h1, readVLen, List.getD_cons_zero]
    by_cases hlt : a.toNat < 0xfd
    · right
      exact ⟨a.toNat, t, caps1, by simp [hlt], by simp [hlt]⟩
    · simp only [hlt, if_false, Rd.get, hl, if_true]
      cases hs : shorter t (2 <<< (2 - (0xff - a.toNat)))
      · right
        have hle := (shorter_false_iff t _).mp hs
        obtain ⟨caps2, h2⟩ := Rd.readFull_enough ⟨t, caps1⟩ _ hle
        refine ⟨leVal (t.take (2 <<< (2 - (0xff - a.toNat)))), t.drop (2 <<< (2 - (0xff - a.toNat))), caps2, by simp, ?_⟩
        simp only [h2]
        have : (t.take (2 <<< (2 - (0xff - a.toNat)))).length = 2 <<< (2 - (0xff - a.toNat)) := by
          simp only [List.length_take]; omega
        simp [this]
      · left
        have hlt' := (shorter_iff t _).mp hs
        have h2 := Rd.readFull_short ⟨t, caps1⟩ _ hlt'
        exact ⟨by simp, by simp only [h2]⟩

/-- the record loop: with `io.ReadFull` for the length bytes and for the record, reading through ANY chunking gives
    exactly the records of the file -/
theorem decRecsRd_eq (sh : ReadShape) (hl : sh.lengthFull = true) (hr : sh.recordFull = true) :
    ∀ (n : Nat) (r : Rd), decRecsRd sh n r = decRecs n r.data := by
  intro n
  induction n with
  | zero => intro r; rfl
  | succ n ih =>
    intro r
    rcases readVLenRd_spec sh hl r with ⟨h1, h2⟩ | ⟨v, rest, caps', h1, h2⟩
    · simp only [decRecsRd, decRecs, h1, h2]
    · simp only [decRecsRd, decRecs, h1, h2, Rd.get, hr, if_true]
      cases hs : shorter rest v
      · have hle := (shorter_false_iff rest v).mp hs
        obtain ⟨caps2, h3⟩ := Rd.readFull_enough ⟨rest, caps'⟩ v hle
        simp only [h3, Bool.false_eq_true, if_false]
        rw [ih]
        have : (rest.take v).length = v := by simp only [List.length_take]; omega
        simp only [this, Nat.sub_self, List.replicate_zero, List.append_nil]
        cases decRecs n (List.drop v rest) <;> rfl
      · have hlt := (shorter_iff rest v).mp hs
        have h3 := Rd.readFull_short ⟨rest, caps'⟩ v hlt
        simp only [h3, if_true]

/-- a decidable way to `WFOuts` for concrete records -/
theorem wfOuts_of_all (l : List (Option Out))
    (h : l.all (fun o => match o with
      | none => true
      | some x => decide (x.value < 2 ^ 64) && decide (x.pk.length < 2 ^ 63)) = true) : WFOuts l := by
  intro o ho x hx
  have := List.all_eq_true.mp h o ho
  subst hx
  simp only [Bool.and_eq_true, decide_eq_true_eq] at this
  exact this

/-! ## undo entry -/

theorem undoEntry_owned (h : Heap) (evs : List HeapEv) (cell off len : Nat) :
    (undoEntry true h cell off len).read (evs.foldl HeapEv.apply h) = ((h cell).drop off).take len := by
  simp [undoEntry, ScrRef.read]

end GocoinV.UtxoRec
