/-
  Proofs.C07KMain — whole histories and every crash point: the model never panics (well-formed blocks, no undo file of another
  block read), the restarted node converges to the uninterrupted run's final state, a clean restart is the identity.
  Core Lean only.
-/
import GocoinV.Proofs.C07KHist
import GocoinV.Model.PersistSpec
namespace GocoinV.Proofs.C07
open GocoinV.Persist

variable {bs : List Block} {s : St}

/-! ### an error is sticky -/

theorem step_err_some (s : St) (op : Op) (h : s.err.isSome = true) : (step s op).err.isSome = true := by
  cases op with
  | submit b => simp only [step]; unfold submit; rw [if_pos h]; exact h
  | idle => simp only [step]; unfold idle; rw [if_pos h]; exact h
  | close => simp only [step]; unfold close; rw [if_pos h]; exact h
  | reopen => simp only [step]; rw [if_pos h]; exact h
  | skip k => exact h
  | pause b => exact h
  | hurry => simp only [step]; rw [if_pos h]; exact h

theorem foldl_step_err : ∀ (ops : List Op) (s : St), (ops.foldl step s).err = none → s.err = none
  | [], _, h => h
  | op :: rest, s, h => by
    have h1 := foldl_step_err rest _ h
    cases hx : s.err with
    | none => rfl
    | some v =>
      have := step_err_some s op (by rw [hx]; rfl)
      rw [h1] at this; cases this

/-! ### whole histories -/

variable {P : Snap → Prop} {base : Disk}

theorem foldl_step_K (hwf : WF bs) : ∀ (ops : List Op) (s : St) (Q : List Block), InvQ ⟨P, base, (· = 0), [], Q, Q⟩ s → J bs s →
    K s → UP base s → (∀ b ∈ submitted ops, b ∈ bs) →
    (∀ j, j < ops.length → P ⟨((ops.take j).foldl step s).n.tip, ((ops.take j).foldl step s).n.lastHeight, ((ops.take j).foldl step s).n.utxo⟩) →
    (ops.foldl step s).foreign = false →
    K (ops.foldl step s) ∧ UP base (ops.foldl step s)
  | [], _, _, _, _, hk, hu, _, _, _ => ⟨hk, hu⟩
  | op :: rest, s, _, hq, hj, hk, hu, hb, hP, hf => by
    obtain ⟨q, hq1⟩ := step_inv hq (hP 0 (by simp)) op
    have hf1 := foldl_step_mono rest _ hf
    have hbo : ∀ b, op = .submit b → b ∈ bs := by
      intro b e; subst e; exact hb b (by simp [submitted])
    have j1 := step_J hwf hq hj op hbo hf1
    obtain ⟨k1, u1⟩ := step_K hwf hq hj hk hu op hbo hf1
    refine foldl_step_K hwf rest _ q hq1 j1 k1 u1 ?_ (fun j hj => by
      have := hP (j + 1) (by simp; omega)
      simpa using this) hf
    intro b hbm
    apply hb
    cases op <;> simp [submitted, hbm]

theorem init_K (bigs : List Coin) : K { n := { bigs := bigs }, d := {} } := by
  refine ⟨⟨rfl, ?_, ?_, ?_⟩, ?_⟩
  · intro r hr; cases hr
  · intro t ht; cases ht
  · intro h h1 h2; exact absurd h2 (by show ¬ h ≤ 0; omega)
  · intro t ht; cases ht

theorem init_UP (bigs : List Coin) : UP {} { n := { bigs := bigs }, d := {} } :=
  ⟨rfl, fun k => by simp only [List.take_nil]; exact UInv.empty⟩

/-- every history that reads no foreign undo file (in-history restarts included): at the end (hence at every operation boundary)
    no panic, the tip is the highest block of the tree, and every crash prefix has the undo files of its snapshots -/
theorem run_K (hwf : WF bs) (bigs : List Coin) (ops : List Op) (hb : ∀ b ∈ submitted ops, b ∈ bs)
    (hf : (run bigs ops).foreign = false) :
    K (run bigs ops) ∧ UP {} (run bigs ops) := by
  unfold run at hf ⊢
  refine foldl_step_K (P := PastState bigs ops) hwf ops _ [] (init_inv bigs) (init_J bigs) (init_K bigs) (init_UP bigs) hb ?_ hf
  intro j hj
  exact ⟨j, by omega, rfl, rfl, rfl⟩

/-! ### feeding blocks -/

/-- parents are handed to the node before their children -/
def PFrom : List BlockId → List Block → Prop
  | _, [] => True
  | seen, b :: r => (b.parent = 0 ∨ b.parent ∈ seen) ∧ PFrom (b.id :: seen) r

def ParentsFirst (l : List Block) : Prop := PFrom [] l

theorem inT_mono {tree tree' : List TNode} (h : ∀ t ∈ tree, t ∈ tree') {id : BlockId} (hi : InT tree id) : InT tree' id := by
  obtain ⟨t, ht, e⟩ := hi
  exact ⟨t, h t ht, e⟩

theorem foldl_submit_K (hwf : WF bs) : ∀ (l : List Block) (s : St) (seen : List BlockId), J bs s → K s → (∀ b ∈ l, b ∈ bs) →
    (l.foldl submit s).foreign = false →
    J bs (l.foldl submit s) ∧ K (l.foldl submit s) ∧ (∀ t ∈ s.n.tree, t ∈ (l.foldl submit s).n.tree) ∧
    ((∀ id ∈ seen, InT s.n.tree id) → PFrom seen l → ∀ b ∈ l, InT (l.foldl submit s).n.tree b.id)
  | [], _, _, hj, hk, _, _ => ⟨hj, hk, fun _ h => h, fun _ _ _ h => by cases h⟩
  | b :: rest, s, seen, hj, hk, hb, hf => by
    have hf1 : (submit s b).foreign = false := foldl_submit_mono rest _ hf
    have hbb := hb b (by simp)
    have j1 := submit_J hwf hj b hbb hf1
    obtain ⟨k1, _, m1, a1⟩ := submit_K hwf hj hk b hbb hf1
    obtain ⟨j2, k2, m2, a2⟩ := foldl_submit_K hwf rest (submit s b) (b.id :: seen) j1 k1 (fun x hx => hb x (by simp [hx])) hf
    refine ⟨j2, k2, fun t ht => m2 t (m1 t ht), ?_⟩
    intro hseen hpf x hx
    have hbin : InT (submit s b).n.tree b.id := a1 (hpf.1.imp id (hseen _))
    have hseen' : ∀ id ∈ b.id :: seen, InT (submit s b).n.tree id := by
      intro id hid
      rcases List.mem_cons.1 hid with hid | hid
      · subst hid; exact hbin
      · exact inT_mono m1 (hseen id hid)
    rcases List.mem_cons.1 hx with hx | hx
    · subst hx; exact inT_mono m2 hbin
    · exact a2 hseen' hpf.2 x hx

/-- an operation other than a restart only adds to the tree; AcceptBlock of a block whose parent is known adds it -/
theorem step_tree (hwf : WF bs) (hj : J bs s) (hk : K s) (op : Op) (hb : ∀ b, op = .submit b → b ∈ bs)
    (hf : (step s op).foreign = false) (hnr : op ≠ Op.reopen) :
    (∀ t ∈ s.n.tree, t ∈ (step s op).n.tree) ∧
    ∀ b, op = .submit b → (b.parent = 0 ∨ InT s.n.tree b.parent) → InT (step s op).n.tree b.id := by
  cases op with
  | submit b =>
    obtain ⟨_, _, m1, a1⟩ := submit_K hwf hj hk b (hb b rfl) hf
    exact ⟨m1, fun b' e hp => by cases e; exact a1 hp⟩
  | idle =>
    refine ⟨fun t ht => ?_, fun b e => by cases e⟩
    show t ∈ (idle s).n.tree
    rw [(idle_K hj hk).2.2.tree]; exact ht
  | close =>
    refine ⟨fun t ht => ?_, fun b e => by cases e⟩
    show t ∈ (close s).n.tree
    rw [(close_K hj hk).2.2.tree]; exact ht
  | skip k => exact ⟨fun _ h => h, fun b e => by cases e⟩
  | pause b => exact ⟨fun _ h => h, fun b e => by cases e⟩
  | hurry =>
    refine ⟨fun t ht => ?_, fun b e => by cases e⟩
    simp only [step]
    split
    · exact ht
    · rw [(hurrySave_neutral (bs := bs) s).tree]; exact ht
  | reopen => exact absurd rfl hnr

theorem foldl_step_acc (hwf : WF bs) : ∀ (ops : List Op) (s : St) (Q : List Block) (seen : List BlockId),
    InvQ ⟨P, base, (· = 0), [], Q, Q⟩ s → J bs s → K s → UP base s → (∀ b ∈ submitted ops, b ∈ bs) →
    (∀ j, j < ops.length → P ⟨((ops.take j).foldl step s).n.tip, ((ops.take j).foldl step s).n.lastHeight, ((ops.take j).foldl step s).n.utxo⟩) →
    (ops.foldl step s).foreign = false → (∀ op ∈ ops, op ≠ Op.reopen) →
    (∀ id ∈ seen, InT s.n.tree id) → PFrom seen (submitted ops) →
    (∀ t ∈ s.n.tree, t ∈ (ops.foldl step s).n.tree) ∧ ∀ b ∈ submitted ops, InT (ops.foldl step s).n.tree b.id
  | [], _, _, _, _, _, _, _, _, _, _, _, _, _ => ⟨fun _ h => h, fun _ h => by simp [submitted] at h⟩
  | op :: rest, s, _, seen, hq, hj, hk, hu, hb, hP, hf, hnr, hseen, hpf => by
    obtain ⟨q, hq1⟩ := step_inv hq (hP 0 (by simp)) op
    have hf1 := foldl_step_mono rest _ hf
    have hbo : ∀ b, op = .submit b → b ∈ bs := by
      intro b e; subst e; exact hb b (by simp [submitted])
    have hnr0 : op ≠ Op.reopen := hnr op (by simp)
    have j1 := step_J hwf hq hj op hbo hf1
    obtain ⟨k1, u1⟩ := step_K hwf hq hj hk hu op hbo hf1
    obtain ⟨m1, a1⟩ := step_tree hwf hj hk op hbo hf1 hnr0
    have hb' : ∀ b ∈ submitted rest, b ∈ bs := by
      intro b hbm; apply hb; cases op <;> simp [submitted, hbm]
    have hP' : ∀ j, j < rest.length → P ⟨((rest.take j).foldl step (step s op)).n.tip, ((rest.take j).foldl step (step s op)).n.lastHeight, ((rest.take j).foldl step (step s op)).n.utxo⟩ :=
      fun j hj => by
        have := hP (j + 1) (by simp; omega)
        simpa using this
    have hnr' : ∀ x ∈ rest, x ≠ Op.reopen := fun x hx => hnr x (by simp [hx])
    cases op with
    | submit b =>
      have hpf' : (b.parent = 0 ∨ b.parent ∈ seen) ∧ PFrom (b.id :: seen) (submitted rest) := hpf
      have hbin : InT (step s (.submit b)).n.tree b.id := a1 b rfl (hpf'.1.imp id (hseen _))
      have hseen' : ∀ id ∈ b.id :: seen, InT (step s (.submit b)).n.tree id := by
        intro id hid
        rcases List.mem_cons.1 hid with hid | hid
        · subst hid; exact hbin
        · exact inT_mono m1 (hseen id hid)
      obtain ⟨m2, a2⟩ := foldl_step_acc hwf rest _ q (b.id :: seen) hq1 j1 k1 u1 hb' hP' hf hnr' hseen' hpf'.2
      refine ⟨fun t ht => m2 t (m1 t ht), ?_⟩
      intro x hx
      simp only [submitted, List.mem_cons] at hx
      rcases hx with hx | hx
      · subst hx; exact inT_mono m2 hbin
      · exact a2 x hx
    | idle =>
      obtain ⟨m2, a2⟩ := foldl_step_acc hwf rest _ q seen hq1 j1 k1 u1 hb' hP' hf hnr' (fun id hid => inT_mono m1 (hseen id hid)) hpf
      exact ⟨fun t ht => m2 t (m1 t ht), a2⟩
    | close =>
      obtain ⟨m2, a2⟩ := foldl_step_acc hwf rest _ q seen hq1 j1 k1 u1 hb' hP' hf hnr' (fun id hid => inT_mono m1 (hseen id hid)) hpf
      exact ⟨fun t ht => m2 t (m1 t ht), a2⟩
    | skip k =>
      obtain ⟨m2, a2⟩ := foldl_step_acc hwf rest _ q seen hq1 j1 k1 u1 hb' hP' hf hnr' (fun id hid => inT_mono m1 (hseen id hid)) hpf
      exact ⟨fun t ht => m2 t (m1 t ht), a2⟩
    | pause b =>
      obtain ⟨m2, a2⟩ := foldl_step_acc hwf rest _ q seen hq1 j1 k1 u1 hb' hP' hf hnr' (fun id hid => inT_mono m1 (hseen id hid)) hpf
      exact ⟨fun t ht => m2 t (m1 t ht), a2⟩
    | hurry =>
      obtain ⟨m2, a2⟩ := foldl_step_acc hwf rest _ q seen hq1 j1 k1 u1 hb' hP' hf hnr' (fun id hid => inT_mono m1 (hseen id hid)) hpf
      exact ⟨fun t ht => m2 t (m1 t ht), a2⟩
    | reopen => exact absurd rfl hnr0

/-- a history without an in-history restart whose blocks arrive parents first: every block is in the tree at the end -/
theorem run_accepts_all (bigs : List Coin) (ops : List Op) (hwf : WF (submitted ops)) (hpf : ParentsFirst (submitted ops))
    (hf : (run bigs ops).foreign = false) (hnr : ∀ op ∈ ops, op ≠ Op.reopen) :
    ∀ b ∈ submitted ops, InT (run bigs ops).n.tree b.id := by
  unfold run at hf ⊢
  refine (foldl_step_acc (P := PastState bigs ops) hwf ops _ [] [] (init_inv bigs) (init_J bigs) (init_K bigs) (init_UP bigs)
    (fun _ h => h) ?_ hf hnr (fun _ h => by cases h) hpf).2
  intro j hj
  exact ⟨j, by omega, rfl, rfl, rfl⟩

/-! ### the tip is THE best block -/

def IsBest (bs : List Block) (id : BlockId) : Prop :=
  (id = 0 ∧ bs = []) ∨ ∃ b ∈ bs, b.id = id ∧ ∀ x ∈ bs, x.height ≤ b.height

/-- the maximal height is attained by one block only -/
def UniqueBest (bs : List Block) : Prop :=
  ∀ b ∈ bs, ∀ b' ∈ bs, (∀ x ∈ bs, x.height ≤ b.height) → (∀ x ∈ bs, x.height ≤ b'.height) → b = b'

theorem tip_isBest (hwf : WF bs) (hj : J bs s) (hk : K s) (hall : ∀ b ∈ bs, InT s.n.tree b.id) : IsBest bs s.n.tip := by
  obtain ⟨path, hc⟩ := hj.chain
  have hle : ∀ x ∈ bs, x.height ≤ s.n.tipHeight := by
    intro x hx
    obtain ⟨t, ht, e⟩ := hall x hx
    rw [← (tree_of_block hwf hj.jd hx ht e).2]
    exact hk.maxH t ht
  cases path with
  | nil =>
    left
    refine ⟨hc.tip, ?_⟩
    apply List.eq_nil_iff_forall_not_mem.2
    intro x hx
    have h1 := hle x hx
    rw [hc.tipH] at h1
    rcases hwf.height x hx with ⟨_, h2⟩ | ⟨p, _, _, h2⟩
    · rw [h2] at h1; simp at h1
    · rw [h2] at h1; simp at h1
  | cons b rest =>
    right
    refine ⟨b, hc.ok.1, hc.tip.symm, ?_⟩
    rw [← Chain.tipHeight_eq hwf hc hc.ok.1 hc.tip]
    exact hle

theorem isBest_unique (hu : UniqueBest bs) {a b : BlockId} (h1 : IsBest bs a) (h2 : IsBest bs b) : a = b := by
  rcases h1 with ⟨a0, an⟩ | ⟨x, hx, ex, mx⟩
  · rcases h2 with ⟨b0, _⟩ | ⟨y, hy, _, _⟩
    · rw [a0, b0]
    · rw [an] at hy; cases hy
  · rcases h2 with ⟨_, bn⟩ | ⟨y, hy, ey, my⟩
    · rw [bn] at hx; cases hx
    · rw [← ex, ← ey, hu x hx y hy mx my]

/-! ### every crash point -/

-- `crashS3` / `crashForeign` (the restart after crash point k computed WITHOUT stopping at a panic, and its ghost flag) live in
-- Model/PersistSpec.lean: the oracle reports the flag also where the model's restart panics.

theorem clientRecover_noop (s : St) (h : (farthest s.n).2.1 ≤ s.n.tipHeight) : clientRecover s = s := by
  unfold clientRecover
  simp only []
  rw [if_pos h]

/-- the three stages after ANY crash point of ANY such history: no stage panics; the invariants hold at each -/
theorem crash_K (hwf : WF bs) (bigs : List Coin) (ops : List Op) (k : Nat) (hb : ∀ b ∈ submitted ops, b ∈ bs)
    (hrun : (run bigs ops).foreign = false) (hcr : crashForeign bigs ops k = false) :
    ∃ s1 s2 s3, crashAt bigs ops k = .ok (s1, s2, s3) ∧ J bs s2 ∧ K s2 ∧ J bs s3 ∧ K s3 ∧
      (PFrom [] (submitted ops) → ∀ b ∈ submitted ops, InT s3.n.tree b.id) := by
  have hw := run_J hwf bigs ops hb hrun
  obtain ⟨_, hup⟩ := run_K hwf bigs ops hb hrun
  obtain ⟨q, hq⟩ := run_inv bigs ops
  have hd : DiskInv (PastState bigs ops) (applyAll {} ((run bigs ops).es.take k)) := hq.pref k
  have hp : Prov bs (applyAll {} ((run bigs ops).es.take k)) :=
    applyAll_prov _ _ (Prov.empty bs) (fun e he => hw.jd.effs e (List.mem_of_mem_take he))
  have hu : UInv (applyAll {} ((run bigs ops).es.take k)) := hup.pref k
  obtain ⟨s1, ho, _, _, _, _, _⟩ := openNode_inv hd bigs 0
  obtain ⟨j1, _, _⟩ := openNode_J hwf hp hd bigs 0 ho
  obtain ⟨k1, _, _, d1⟩ := openNode_K hd hu bigs 0 ho
  have hcr : (idle ((submitted ops).foldl submit { clientRecover s1 with es := [] })).foreign = false := by
    simp only [crashForeign, crashS3, ho] at hcr
    exact hcr
  rw [idle_foreign] at hcr
  have hf2 : (clientRecover s1).foreign = false := foldl_submit_mono _ { clientRecover s1 with es := [] } hcr
  obtain ⟨k2, _, _, _⟩ := clientRecover_K hwf j1 k1 (fun t ht => (d1 t ht).2) hf2
  have j2 := clientRecover_J hwf j1 hf2
  have j2' : J bs { clientRecover s1 with es := [] } :=
    ⟨⟨j2.jd.prov, (by intro e he; cases he), j2.jd.memB, j2.jd.queueB, j2.jd.treeB, j2.jd.treeC⟩, j2.chain⟩
  have k2' : K { clientRecover s1 with es := [] } := k2.congr rfl rfl rfl rfl rfl rfl rfl
  obtain ⟨j3, k3, _, a3⟩ := foldl_submit_K hwf (submitted ops) _ [] j2' k2' hb hcr
  obtain ⟨k4, _, n4⟩ := idle_K j3 k3
  have j4 := idle_J j3
  refine ⟨s1, clientRecover s1, feedAll { clientRecover s1 with es := [] } (submitted ops), ?_, j2, k2, j4, k4, ?_⟩
  · have e3 : (feedAll { clientRecover s1 with es := [] } (submitted ops)).err = none := k4.k0.err
    have hst : ({ clientRecover s1 with es := [] } : St) =
        { n := (clientRecover s1).n, d := (clientRecover s1).d, foreign := (clientRecover s1).foreign } := by
      show St.mk _ _ _ _ _ = St.mk _ _ _ _ _
      rw [k2.k0.err]
    simp only [crashAt, ho, k2.k0.err]
    rw [← hst, e3]
  · intro hpf b hbm
    show InT (idle _).n.tree b.id
    rw [n4.tree]
    exact a3 (fun _ h => by cases h) hpf b hbm

/-- crash consistency: all four conjuncts of `consistentAt` at every crash point -/
theorem crash_consistent' (bigs : List Coin) (ops : List Op) (k : Nat) (hwf : WF (submitted ops))
    (hpf : ParentsFirst (submitted ops)) (huniq : UniqueBest (submitted ops))
    (hacc : ∀ b ∈ submitted ops, InT (run bigs ops).n.tree b.id)
    (hrun : (run bigs ops).foreign = false) (hcr : crashForeign bigs ops k = false) :
    consistentAt bigs ops k = true := by
  obtain ⟨s1, s2, s3, hc, j2, _, j3, k3, a3⟩ := crash_K hwf bigs ops k (fun _ h => h) hrun hcr
  have jw := run_J hwf bigs ops (fun _ h => h) hrun
  obtain ⟨kw, _⟩ := run_K hwf bigs ops (fun _ h => h) hrun
  have htip : s3.n.tip = (run bigs ops).n.tip :=
    isBest_unique huniq (tip_isBest hwf j3 k3 (a3 hpf)) (tip_isBest hwf jw kw hacc)
  obtain ⟨r2a, r2b⟩ := j2.result hwf
  obtain ⟨_, r3b⟩ := j3.result hwf
  obtain ⟨_, rwb⟩ := jw.result hwf
  unfold consistentAt
  rw [hc]
  simp only [Bool.and_eq_true, Bool.or_eq_true, beq_iff_eq, List.any_eq_true]
  refine ⟨⟨⟨?_, r2b⟩, htip⟩, ?_⟩
  · exact r2a.imp id (fun ⟨b, hb, e⟩ => ⟨b, hb, e⟩)
  · rw [sameSet_iff] at r3b rwb ⊢
    rw [htip] at r3b
    exact r3b.trans rwb.symm

/-! ### clean shutdown -/

theorem clean_restart' (bigs : List Coin) (ops : List Op) (hwf : WF (submitted (ops ++ [.close])))
    (hrun : (run bigs (ops ++ [.close])).foreign = false) :
    cleanRestartOK bigs (ops ++ [.close]) = true := by
  have jw := run_J hwf bigs (ops ++ [.close]) (fun _ h => h) hrun
  obtain ⟨kw, uw⟩ := run_K hwf bigs (ops ++ [.close]) (fun _ h => h) hrun
  have hne : (run bigs (ops ++ [.close])).err = none := kw.k0.err
  obtain ⟨q, hq⟩ := run_inv bigs (ops ++ [.close])
  obtain ⟨s1, ho, e1, e2, e3⟩ := clean_restart_reopen' bigs ops hne
  obtain ⟨j1, _, he1⟩ := openNode_J hwf jw.jd.prov hq.disk bigs 0 ho
  obtain ⟨_, _, th1, d1⟩ := openNode_K hq.disk uw.disk bigs 0 ho
  obtain ⟨pathw, hcw⟩ := jw.chain
  have hfar : (farthest s1.n).2.1 ≤ s1.n.tipHeight := by
    rcases (farthest_spec s1.n).2 with ⟨_, h0⟩ | ⟨t, ht, _, hth⟩
    · omega
    · obtain ⟨⟨r, hr, rid, rh⟩, _⟩ := d1 t ht
      have hrid : r.id ∈ ids (run bigs (ops ++ [.close])).d := by
        simp only [ids, List.mem_map]; exact ⟨r, hr, rfl⟩
      have hsome := hq.node.idxRec r.id hrid
      obtain ⟨rec, hrec⟩ := Option.isSome_iff_exists.1 hsome
      have hrm := List.mem_of_find?_eq_some hrec
      have hre : rec.id = r.id := by simpa using List.find?_some hrec
      obtain ⟨tw, htw, etw⟩ := kw.k0.recT rec hrm
      obtain ⟨b, hb, b1, _, b3⟩ := jw.jd.prov.idxB r hr
      have := (tree_of_block hwf jw.jd hb htw (etw.trans (hre.trans b1.symm))).2
      have hm := kw.maxH tw htw
      rw [← hth, ← rh, ← b3, ← this, th1, e3, hcw.lastH, ← hcw.tipH]
      exact hm
  have hrec : recover (run bigs (ops ++ [.close])).d bigs = .ok s1 := by
    simp only [recover, ho, clientRecover_noop s1 hfar, he1]
  unfold cleanRestartOK
  simp only [hne, hrec, e1, e2, Bool.and_eq_true, beq_iff_eq, true_and, and_true]
  rw [sameSet_iff]; exact SameSet.refl _

end GocoinV.Proofs.C07
