/-
  Proofs.C12Chain — `ConnectSound` / `UndoCommitTxs` (the chain-side hypotheses of Props/C12 `pool_inv`, collected in
  `AdmRun`) DERIVED for the model's own chain simulation (`connectUtxo` / `disconnectUtxo`) from a block-validity
  predicate on the block body and the pre-state (`BlockValid`), through a chain-side history invariant (`ChainInv`).
  Core Lean only.

    connect_sound_model : ChainInv s → BlockValid u0 s txs → (∀ t ∈ txs, W t) →
                            ConnectSound u0 ν s (connectUtxo s h txs) txs ∧ ChainInv (connectUtxo s h txs)
    undo_sound_model    : ChainInv s → disconnectUtxo s = some (s', txs) → UndoCommitTxs u0 ν s s' txs ∧ ChainInv s'
    disconnect_exact    : disconnectUtxo (connectUtxo s h txs) gives back `s.utxo` pointwise (and `s.undo`)
    admRun_of_valid     : ChainInv s → ValidRun K u0 s ops → AdmRun K u0 ν s ops
    chainInv_genesis    : ChainInv (genesis cfg u0 h0)
-/
import GocoinV.Proofs.C12ChainHist
namespace GocoinV.Mempool

/-- the chain-side history invariant of a state: `s.utxo` (read through `get?`) is the initial set `u0` after
    connecting, one after the other, the `BlockValidF` bodies on `s.undo`; every entry `(txs, sc)` of `s.undo` records
    exactly the coins `txs` took from the confirmed set before it (`Linked.scSound` / `scCompl`), and `ν` gives the
    values of the outputs of the stacked transactions and of the initial coins (see `Hist`, `Linked`) -/
def ChainInv (u0 : UT) (ν : OutPoint → Nat) (s : State) : Prop := Hist u0 ν s.undo (fun o => s.utxo.get? o)

theorem ChainInv.chainOK {u0 : UT} {ν : OutPoint → Nat} {s : State} (h : ChainInv u0 ν s) : ChainOK u0 ν s :=
  have f := Hist.fok _ _ h
  ⟨f.c1, f.c2, f.c3, f.val, f.nd⟩

/-- whatever leaves `utxo` and `undo` alone keeps the invariant -/
theorem ChainInv.of_eq {u0 : UT} {ν : OutPoint → Nat} {s s' : State} (h : ChainInv u0 ν s) (e1 : s'.utxo = s.utxo)
    (e2 : s'.undo = s.undo) : ChainInv u0 ν s' := by
  unfold ChainInv
  rw [e1, e2]
  exact h

theorem ChainInv.of_env {u0 : UT} {ν : OutPoint → Nat} {s s' : State} (h : ChainInv u0 ν s) (e : Env s s') :
    ChainInv u0 ν s' := h.of_eq e.utxo e.undo

/-! ### connecting a valid block -/

theorem connect_linked {u0 : UT} {ν : OutPoint → Nat} (s : State) (h : Nat) (txs : List Tx)
    (hc : ChainInv u0 ν s) (hv : BlockValid u0 s txs) (hν : ∀ t ∈ txs, ∀ v, ν (t.id, v) = t.outs.getD v 0) :
    Linked u0 ν (fun o => s.utxo.get? o) (fun o => (connFold h s.utxo txs).1.get? o) s.undo txs
      (connFold h s.utxo txs).2 := by
  have fok := Hist.fok _ _ hc
  have hv' : BlockValidF u0 (fun o => s.utxo.get? o) s.undo txs := hv
  have post := connFold_post h txs (s.utxo, []) hv.1 hv.2.2 (fresh_ids fok hv')
  refine ⟨hv', hν, post.spent, ?_, post.kept, ?_, post.scCompl⟩
  · intro o hs hcr
    obtain ⟨t, ht, e1, _, hg⟩ := post.made o hs hcr
    refine ⟨_, hg, ?_⟩
    have e : o = (t.id, o.2) := by obtain ⟨x, y⟩ := o; simp only at e1 ⊢; rw [e1]
    rw [e]
    exact (hν t ht o.2).symm
  · intro p hp
    rcases post.scSound p hp with h1 | h1
    · cases h1
    · exact h1

/-- connecting a `BlockValid` body on a state with the history invariant is sound in the sense the pool needs
    (`ConnectSound`) and keeps the history invariant; `hν`: `ν` gives the values of the body's outputs -/
theorem connect_sound_of_val {u0 : UT} {ν : OutPoint → Nat} (s : State) (h : Nat) (txs : List Tx)
    (hc : ChainInv u0 ν s) (hv : BlockValid u0 s txs) (hν : ∀ t ∈ txs, ∀ v, ν (t.id, v) = t.outs.getD v 0) :
    ConnectSound u0 ν s (connectUtxo s h txs) txs ∧ ChainInv u0 ν (connectUtxo s h txs) := by
  have l := connect_linked s h txs hc hv hν
  have e1 : (connectUtxo s h txs).utxo = (connFold h s.utxo txs).1 := by rw [connectUtxo_eq]
  have e2 : (connectUtxo s h txs).undo = (txs, (connFold h s.utxo txs).2) :: s.undo := by rw [connectUtxo_eq]
  have ci : ChainInv u0 ν (connectUtxo s h txs) := by
    unfold ChainInv
    rw [e1, e2]
    exact ⟨_, hc, l⟩
  refine ⟨⟨ci.chainOK, ?_, ?_, hv.2.1, hv.2.2⟩, ci⟩
  · intro o ho hs
    unfold inU at ho ⊢
    rw [e1]
    by_cases hcr : createdBy txs o
    · obtain ⟨c, hg, _⟩ := l.made o hs hcr
      rw [hg]; rfl
    · have := l.kept o hs hcr
      rw [this]; exact ho
  · intro o hcr hs
    unfold inU
    rw [e1]
    obtain ⟨c, hg, _⟩ := l.made o hs hcr
    rw [hg]; rfl

theorem connect_sound_model {K : Keys} {W : Tx → Prop} {rank : TxId → Nat} {u0 : UT} {ν : OutPoint → Nat}
    (U : Univ2 K W rank u0 ν) (s : State) (h : Nat) (txs : List Tx) (hc : ChainInv u0 ν s)
    (hv : BlockValid u0 s txs) (hW : ∀ t ∈ txs, W t) :
    ConnectSound u0 ν s (connectUtxo s h txs) txs ∧ ChainInv u0 ν (connectUtxo s h txs) :=
  connect_sound_of_val s h txs hc hv (fun t ht v => U.val_tx t (hW t ht) v)

/-! ### disconnecting the last block -/

/-- restoring the recorded coins and deleting what the body made gives back the confirmed set before the body,
    exactly (pointwise through `get?`) -/
theorem restore_exact {u0 : UT} {ν : OutPoint → Nat} {rest : UndoStack} {f g : CSet} {txs : List Tx} {sc : SC}
    (hf : FOK u0 ν rest f) (l : Linked u0 ν f g rest txs sc) (ug : UT) (hug : ∀ o, ug.get? o = g o) :
    ∀ o, (delCreated txs (restoreSC sc ug)).get? o = f o := by
  intro o
  obtain ⟨d1, d2⟩ := delCreated_get txs (restoreSC sc ug) o
  by_cases hcr : createdBy txs o
  · rw [d1 hcr, fresh_of_valid hf l.valid o hcr]
  · rw [d2 hcr]
    rcases restoreSC_get sc ug o with ⟨c, hm, hg⟩ | ⟨hn, hg⟩
    · rw [hg]
      rcases (l.scSound _ hm).2 with h1 | h1
      · exact h1.symm
      · exact absurd h1 hcr
    · rw [hg, hug]
      by_cases hs : spentBy txs o
      · exfalso
        rcases l.valid.1.avail_of_spent _ _ o hs with ha | ha
        · cases hx : f o with
          | none => simp only [hx] at ha; cases ha
          | some c => exact hn c (l.scCompl o c hs hx)
        · exact hcr ha
      · exact l.kept o hs hcr

/-- disconnecting the last block of a state with the history invariant is sound in the sense the pool needs
    (`UndoCommitTxs`) and keeps the history invariant.  No hypothesis on the block: the invariant carries it. -/
theorem undo_sound_model {u0 : UT} {ν : OutPoint → Nat} (s s' : State) (txs : List Tx) (hc : ChainInv u0 ν s)
    (hd : disconnectUtxo s = some (s', txs)) : UndoCommitTxs u0 ν s s' txs ∧ ChainInv u0 ν s' := by
  rw [disconnectUtxo_eq] at hd
  unfold ChainInv at hc
  split at hd
  · cases hd
  · rename_i txs0 sc rest hu
    simp only [Option.some.injEq, Prod.mk.injEq] at hd
    obtain ⟨rfl, rfl⟩ := hd
    rw [hu] at hc
    obtain ⟨f, hf, l⟩ := hc
    have fok := Hist.fok _ _ hf
    have ex := restore_exact fok l s.utxo (fun _ => rfl)
    have ci : ChainInv u0 ν { s with utxo := delCreated txs0 (restoreSC sc s.utxo), undo := rest } :=
      Hist.congr hf ex
    refine ⟨⟨ci.chainOK, ?_, ?_⟩, ci⟩
    · intro o hcr ho
      unfold inU at ho
      simp only at ho
      rw [ex o, fresh_of_valid fok l.valid o hcr] at ho
      cases ho
    · intro o ho hcr
      unfold inU at ho ⊢
      simp only
      rw [ex o]
      by_cases hs : spentBy txs0 o
      · have := l.spent o hs
        rw [this] at ho; cases ho
      · have := l.kept o hs hcr
        rw [← this]; exact ho

/-- `disconnectUtxo` undoes `connectUtxo` exactly: after connecting a `BlockValid` body and disconnecting it again the
    confirmed set reads as before at every outpoint, and the stack is the old one -/
theorem disconnect_exact {u0 : UT} {ν : OutPoint → Nat} (s : State) (h : Nat) (txs : List Tx)
    (hc : ChainInv u0 ν s) (hv : BlockValid u0 s txs) (hν : ∀ t ∈ txs, ∀ v, ν (t.id, v) = t.outs.getD v 0) :
    ∃ s', disconnectUtxo (connectUtxo s h txs) = some (s', txs) ∧ s'.undo = s.undo ∧
      ∀ o, s'.utxo.get? o = s.utxo.get? o := by
  have l := connect_linked s h txs hc hv hν
  have fok := Hist.fok _ _ hc
  rw [connectUtxo_eq, disconnectUtxo_eq]
  exact ⟨_, rfl, rfl, restore_exact fok l _ (fun _ => rfl)⟩

/-! ### histories -/

/-- validity of one operation in state `s`: a `block` carries a `BlockValid` body; nothing is asked of `undo` or of the
    pool-side operations -/
def ValidOp (u0 : UT) (s : State) : Op → Prop
  | .block _ txs _ => BlockValid u0 s txs
  | _ => True

/-- every `block` operation of the history is `BlockValid` in the state it is applied to -/
def ValidRun (K : Keys) (u0 : UT) : State → List Op → Prop
  | _, [] => True
  | s, op :: r => ValidOp u0 s op ∧ ValidRun K u0 (step K s op) r

theorem step_pool_chainInv {u0 : UT} {ν : OutPoint → Nat} (K : Keys) (s : State) (op : Op)
    (hb : ∀ h txs mf, op ≠ .block h txs mf) (hu : ∀ uh mf, op ≠ .undo uh mf) (hc : ChainInv u0 ν s) :
    ChainInv u0 ν (step K s op) := by
  obtain ⟨e1, e2, _⟩ := step_env_pool K s op hb hu
  exact hc.of_eq e2.symm e1.symm

/-- one operation: a valid operation is admissible (`AdmOp`) and keeps the history invariant -/
theorem step_chainInv {K : Keys} {W : Tx → Prop} {rank : TxId → Nat} {u0 : UT} {ν : OutPoint → Nat}
    (U : Univ2 K W rank u0 ν) (s : State) (op : Op) (hc : ChainInv u0 ν s) (hW : ∀ t ∈ op.txs, W t)
    (hv : ValidOp u0 s op) : AdmOp u0 ν s op ∧ ChainInv u0 ν (step K s op) := by
  cases op with
  | block hh txs mf =>
    obtain ⟨cs, ci⟩ := connect_sound_model U s hh txs hc hv hW
    exact ⟨cs, ci.of_env (blockMined_env K mf _ txs)⟩
  | undo uh mf =>
    refine ⟨fun s' txs hd => (undo_sound_model s s' txs hc hd).1, ?_⟩
    simp only [step]
    cases hd : disconnectUtxo s with
    | none => exact hc
    | some p =>
      obtain ⟨s', txs⟩ := p
      exact (undo_sound_model s s' txs hc hd).2.of_env (blockUndoneAt_env K mf s' uh txs)
  | submitNet t tr mf => exact ⟨trivial, step_pool_chainInv K s _ (fun _ _ _ e => by cases e) (fun _ _ e => by cases e) hc⟩
  | submitLocal t mf => exact ⟨trivial, step_pool_chainInv K s _ (fun _ _ _ e => by cases e) (fun _ _ e => by cases e) hc⟩
  | tip hh => exact ⟨trivial, step_pool_chainInv K s _ (fun _ _ _ e => by cases e) (fun _ _ e => by cases e) hc⟩
  | expire old => exact ⟨trivial, step_pool_chainInv K s _ (fun _ _ _ e => by cases e) (fun _ _ e => by cases e) hc⟩
  | evict v => exact ⟨trivial, step_pool_chainInv K s _ (fun _ _ _ e => by cases e) (fun _ _ e => by cases e) hc⟩
  | resort => exact ⟨trivial, step_pool_chainInv K s _ (fun _ _ _ e => by cases e) (fun _ _ e => by cases e) hc⟩
  | commitFlag y => exact ⟨trivial, step_pool_chainInv K s _ (fun _ _ _ e => by cases e) (fun _ _ e => by cases e) hc⟩
  | reload => exact ⟨trivial, step_pool_chainInv K s _ (fun _ _ _ e => by cases e) (fun _ _ e => by cases e) hc⟩

/-- a history of valid blocks (and arbitrary undos and pool operations) is admissible, and the history invariant holds
    at its end -/
theorem run_chainInv {K : Keys} {W : Tx → Prop} {rank : TxId → Nat} {u0 : UT} {ν : OutPoint → Nat}
    (U : Univ2 K W rank u0 ν) : ∀ (ops : List Op) (s : State), ChainInv u0 ν s →
    (∀ op ∈ ops, ∀ t ∈ op.txs, W t) → ValidRun K u0 s ops →
    AdmRun K u0 ν s ops ∧ ChainInv u0 ν (run K s ops) := by
  intro ops
  induction ops with
  | nil => intro s hc _ _; exact ⟨trivial, hc⟩
  | cons op r ih =>
    intro s hc hW hv
    obtain ⟨a1, c1⟩ := step_chainInv (K := K) U s op hc (hW op List.mem_cons_self) hv.1
    obtain ⟨a2, c2⟩ := ih (step K s op) c1 (fun o ho => hW o (List.mem_cons_of_mem _ ho)) hv.2
    refine ⟨⟨a1, a2⟩, ?_⟩
    unfold run
    simp only [List.foldl_cons]
    exact c2

theorem admRun_of_valid {K : Keys} {W : Tx → Prop} {rank : TxId → Nat} {u0 : UT} {ν : OutPoint → Nat}
    (U : Univ2 K W rank u0 ν) (ops : List Op) (s : State) (hc : ChainInv u0 ν s)
    (hW : ∀ op ∈ ops, ∀ t ∈ op.txs, W t) (hv : ValidRun K u0 s ops) : AdmRun K u0 ν s ops :=
  (run_chainInv U ops s hc hW hv).1

/-- the initial state has the history invariant (`hv` is `Univ2.val_u0`) -/
theorem chainInv_genesis_of_val {u0 : UT} {ν : OutPoint → Nat} (hv : ∀ o c, u0.get? o = some c → ν o = c.value)
    (cfg : Cfg) (h0 : Nat) : ChainInv u0 ν (genesis cfg u0 h0) :=
  show Hist u0 ν [] (fun o => u0.get? o) from ⟨fun _ => rfl, fun o c h => (hv o c h).symm⟩

theorem chainInv_genesis {K : Keys} {W : Tx → Prop} {rank : TxId → Nat} {u0 : UT} {ν : OutPoint → Nat}
    (U : Univ2 K W rank u0 ν) (cfg : Cfg) (h0 : Nat) : ChainInv u0 ν (genesis cfg u0 h0) :=
  chainInv_genesis_of_val U.val_u0 cfg h0

/-- `AdmRun` from the initial state for every history of valid blocks: the hypothesis `ha` of `pool_inv` /
    `template_from_pool` -/
theorem admRun_genesis {K : Keys} {W : Tx → Prop} {rank : TxId → Nat} {u0 : UT} {ν : OutPoint → Nat}
    (U : Univ2 K W rank u0 ν) (cfg : Cfg) (h0 : Nat) (ops : List Op) (hW : ∀ op ∈ ops, ∀ t ∈ op.txs, W t)
    (hv : ValidRun K u0 (genesis cfg u0 h0) ops) : AdmRun K u0 ν (genesis cfg u0 h0) ops :=
  admRun_of_valid U ops _ (chainInv_genesis U cfg h0) hW hv



/-! ### the predicates are satisfiable: a body whose second transaction spends an output of the first -/

namespace ChainExample
def u0 : UT := [((7, 0), ⟨50, 0, false⟩)]
def t1 : Tx := { id := 100, ins := [⟨7, 0, 0⟩], outs := [30, 20], nws := 0, size := 0, scriptOk := true }
def t2 : Tx := { id := 101, ins := [⟨100, 0, 0⟩], outs := [30], nws := 0, size := 0, scriptOk := true }

theorem notConf (id : TxId) (h : id ≠ 7) : ¬ Conf u0 [] id := by
  rintro (⟨v, c, hg⟩ | ⟨e, he, _⟩)
  · have : ¬ ((7, 0) : TxId × Nat) = (id, v) := fun e => h (congrArg Prod.fst e).symm
    simp [u0, AList.get?, this] at hg
  · cases he

theorem valid (cfg : Cfg) : BlockValid u0 (genesis cfg u0 0) [t1, t2] := by
  refine ⟨⟨by decide, ?_, by decide, ?_, trivial⟩, ?_, by decide⟩
  · intro o ho
    have : o = (7, 0) := by simpa [t1, Tx.inOps, TxIn.op] using ho
    rw [this]; rfl
  · intro o ho
    have : o = (100, 0) := by simpa [t2, Tx.inOps, TxIn.op] using ho
    rw [this]
    exact Or.inr ⟨rfl, by decide⟩
  · intro t ht
    simp only [List.mem_cons, List.not_mem_nil, or_false] at ht
    rcases ht with rfl | rfl
    · exact notConf _ (by decide)
    · exact notConf _ (by decide)

theorem validRun (K : Keys) (cfg : Cfg) :
    ValidRun K u0 (genesis cfg u0 0) [.block 1 [t1, t2] 0, .undo 1 0] :=
  ⟨valid cfg, trivial, trivial⟩
end ChainExample

end GocoinV.Mempool
