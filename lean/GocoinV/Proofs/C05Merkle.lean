/-
  Proofs.C05Merkle — helper lemmas for C05: the loop of CalcMerkle computes the levels of Spec.Merkle and ORs their pair tests.
-/
import GocoinV.Model.BlockCheck
import GocoinV.Spec.Merkle
open GocoinV GocoinV.BlockCheck GocoinV.Spec.Merkle
namespace GocoinV.Proofs.C05

theorem merkleLevel_eq (h : Bytes → Bytes) (l : List Bytes) :
    merkleLevel h l = (nextLevel h l, hasEqualPair l) := by
  induction l using merkleLevel.induct h with
  | case1 => rfl
  | case2 a => rfl
  | case3 a b rest ih => simp [merkleLevel, nextLevel, hasEqualPair, ih]

theorem calcMerkleLoop_eq (h : Bytes → Bytes) (fuel : Nat) (l : List Bytes) (m : Bool) :
    calcMerkleLoop h fuel l m = (root h fuel l, m || (levels h fuel l).any hasEqualPair) := by
  induction fuel generalizing l m with
  | zero => simp [calcMerkleLoop, root, levels]
  | succ f ih =>
    simp only [calcMerkleLoop, root, levels]
    split
    · rw [merkleLevel_eq, ih]
      simp [Bool.or_assoc]
    · simp

/-- pairs (2j, 2j+1): the positional reading of `hasEqualPair` -/
theorem hasEqualPair_iff (l : List Bytes) :
    hasEqualPair l = true ↔ ∃ j, 2 * j + 1 < l.length ∧ l[2 * j]? = l[2 * j + 1]? := by
  induction l using hasEqualPair.induct with
  | case1 a b rest ih =>
    simp only [hasEqualPair, Bool.or_eq_true, beq_iff_eq, ih]
    constructor
    · rintro (hab | ⟨j, hj, he⟩)
      · exact ⟨0, by simp, by simp [hab]⟩
      · refine ⟨j + 1, by simp; omega, ?_⟩
        simpa [Nat.mul_add] using he
    · rintro ⟨j, hj, he⟩
      cases j with
      | zero => left; simpa using he
      | succ j =>
        right
        refine ⟨j, by simp at hj; omega, ?_⟩
        simpa [Nat.mul_add] using he
  | case2 l hl =>
    have : hasEqualPair l = false := by
      unfold hasEqualPair
      split
      · exact absurd rfl (hl _ _ _)
      · rfl
    simp only [this, Bool.false_eq_true, false_iff]
    rintro ⟨j, hj, he⟩
    match l, hl with
    | [], _ => simp at hj
    | [a], _ => simp at hj
    | a :: b :: rest, hl => exact hl a b rest rfl

/-- `calcMerkle` = iterated pairwise hash + the CVE-2012-2459 pair test on every level (shared by C05's
    `merkle_mutation_iff` and C09's block-level decoding theorem). -/
theorem calcMerkle_spec (h : Bytes → Bytes) (l : List Bytes) (r : Bytes) (m : Bool)
    (hc : calcMerkle h l = some (r, m)) :
    (m = true ↔ ∃ lv ∈ Spec.Merkle.levels h l.length l, ∃ j, 2 * j + 1 < lv.length ∧ lv[2 * j]? = lv[2 * j + 1]?) ∧
    (Spec.Merkle.root h l.length l).head? = some r := by
  unfold calcMerkle at hc
  rw [calcMerkleLoop_eq] at hc
  simp only [Bool.false_or] at hc
  split at hc
  · rename_i r' tl m' heq
    simp only [Option.some.injEq, Prod.mk.injEq] at hc
    obtain ⟨hr, hm⟩ := hc
    simp only [Prod.mk.injEq] at heq
    obtain ⟨h1, h2⟩ := heq
    subst hr hm
    constructor
    · rw [← h2, List.any_eq_true]
      constructor
      · rintro ⟨lv, hlv, hp⟩
        exact ⟨lv, hlv, (hasEqualPair_iff lv).mp hp⟩
      · rintro ⟨lv, hlv, hp⟩
        exact ⟨lv, hlv, (hasEqualPair_iff lv).mpr hp⟩
    · rw [h1]; rfl
  · simp at hc

/-- `calcMerkle` fails (Go: index out of range) exactly on the empty list -/
theorem calcMerkle_isSome (h : Bytes → Bytes) (l : List Bytes) (hl : l ≠ []) : (calcMerkle h l).isSome = true := by
  unfold calcMerkle
  rw [calcMerkleLoop_eq]
  have : ∀ (fuel : Nat) (l : List Bytes), l ≠ [] → root h fuel l ≠ [] := by
    intro fuel
    induction fuel with
    | zero => intro l hl; simpa [root] using hl
    | succ f ih =>
      intro l hl
      simp only [root]
      split
      · apply ih
        match l, hl with
        | [a], _ => simp [nextLevel]
        | a :: b :: rest, _ => simp [nextLevel]
      · exact hl
  have hne := this l.length l hl
  split
  · rfl
  · rename_i heq
    simp only [Prod.mk.injEq] at heq
    exact absurd heq.1 hne

end GocoinV.Proofs.C05
