/-
  Proofs.C05Merkle — helper lemmas for C05: the loop of CalcMerkle computes the levels of Spec.Merkle and ORs their pair tests.
-/
import GocoinV.Model.BlockCheck
import GocoinV.Spec.Merkle
open GocoinV GocoinV.BlockCheck GocoinV.Spec.Merkle
namespace GocoinV.Proofs.C05

theorem merkleLevel_eq (h : Bytes → Bytes) (l : List Bytes) :
    merkleLevel h l = (nextLevel h l, hasEqualPair l) := by
  induction l using merkleLevel.induct h with
  | case1 => rfl
  | case2 a => rfl
  | case3 a b rest ih => simp [merkleLevel, nextLevel, hasEqualPair, ih]

theorem calcMerkleLoop_eq (h : Bytes → Bytes) (fuel : Nat) (l : List Bytes) (m : Bool) :
    calcMerkleLoop h fuel l m = (root h fuel l, m || (levels h fuel l).any hasEqualPair) := by
  induction fuel generalizing l m with
  | zero => simp [calcMerkleLoop, root, levels]
  | succ f ih =>
    simp only [calcMerkleLoop, root, levels]
    split
    · rw [merkleLevel_eq, ih]
      simp [Bool.or_assoc]
    · simp

/-- pairs (2j, 2j+1): the positional reading of `hasEqualPair` -/
theorem hasEqualPair_iff (l : List Bytes) :
    hasEqualPair l = true ↔ ∃ j, 2 * j + 1 < l.length ∧ l[2 * j]? = l[2 * j + 1]? := by
  induction l using hasEqualPair.induct with
  | case1 a b rest ih =>
    simp only [hasEqualPair, Bool.or_eq_true, beq_iff_eq, ih]
    constructor
    · rintro (hab | ⟨j, hj, he⟩)
      · exact ⟨0, by simp, by simp [hab]⟩
      · refine ⟨j + 1, by simp; omega, ?_⟩
        simpa [Nat.mul_add] using he
    · rintro ⟨j, hj, he⟩
      cases j with
      | zero => left; simpa using he
      | succ j =>
        right
        refine ⟨j, by simp at hj; omega, ?_⟩
        simpa [Nat.mul_add] using he
  | case2 l hl =>
    have : hasEqualPair l = false := by
      unfold hasEqualPair
      split
      · exact absurd rfl (hl _ _ _)
      · rfl
    simp only [this, Bool.false_eq_true, false_iff]
    rintro ⟨j, hj, he⟩
    match l, hl with
    | [], _ => simp at hj
    | [a], _ => simp at hj
    | a :: b :: rest, hl => exact hl a b rest rfl

end GocoinV.Proofs.C05
