/-
  Proofs.C01Wrap — the functions around the interpreter: ExecuteWitnessScript (OP_SUCCESS pre-scan, initial stack
  limits, clean-stack rule), VerifyTaprootCommitment (tapleaf hash, merkle path, tweak), VerifyWitnessProgram
  (v0 P2WPKH / P2WSH, v1 key path and script path with annex, control-block sizes, leaf versions, the
  validation-weight budget over the WHOLE witness) and VerifyTxScript (scriptSig / scriptPubKey / P2SH / witness
  dispatch, CLEANSTACK, WITNESS_UNEXPECTED) — model vs spec.
-/
import GocoinV.Proofs.C01Loop
import GocoinV.Proofs.C01NoPanic
set_option linter.unusedSimpArgs false
namespace GocoinV.Proofs.C01
open GocoinV GocoinV.Script

/-- verdicts agree: the Go function returns true exactly where the rules raise no error -/
def UnitMatch (m : Res Unit) (sp : ScriptSpec.E Unit) : Prop :=
  match sp with
  | .ok _ => m = .ok ()
  | .error _ => m = .fail

theorem flag_dissuccess (f : Nat) : has f VER_DIS_SUCCESS = (ScriptSpec.Flags.ofMask f).discourageOpSuccess := by
  unfold VER_DIS_SUCCESS; rw [has_testBit]; rfl
theorem flag_distapver (f : Nat) : has f VER_DIS_TAPVER = (ScriptSpec.Flags.ofMask f).discourageTaprootVersion := by
  unfold VER_DIS_TAPVER; rw [has_testBit]; rfl
theorem flag_taproot (f : Nat) : has f VER_TAPROOT = (ScriptSpec.Flags.ofMask f).taproot := by
  unfold VER_TAPROOT; rw [has_testBit]; rfl
theorem flag_witprog (f : Nat) : has f VER_WITNESS_PROG = (ScriptSpec.Flags.ofMask f).discourageWitnessProgram := by
  unfold VER_WITNESS_PROG; rw [has_testBit]; rfl
theorem flag_sigpushonly (f : Nat) : has f VER_SIGPUSHONLY = (ScriptSpec.Flags.ofMask f).sigpushonly := by
  unfold VER_SIGPUSHONLY; rw [has_testBit]; rfl

theorem executeWitnessScript_agree (T : TotalOracles) (tx : TxCtx) (stack : Stack) (script : Bytes) (flags : Nat)
    (sv : SigVersion) (ed : ExecData) (hT : TapSigHashOk T tx) (hq : NopsOk flags) :
    UnitMatch (executeWitnessScript T.toOracles tx stack script flags sv ed)
      (ScriptSpec.executeWitnessScript T.toOracles tx (ScriptSpec.Flags.ofMask flags) {} stack script sv ed.tapleafHash ed.annexHash ed.weightLeft) := by
  have hev := evalScript_agree_all T tx flags script stack sv ed hT hq
  unfold EvalMatch at hev
  have henv : envOf T ⟨T.toOracles, tx, flags, sv, script⟩ ed.tapleafHash ed.annexHash =
      ⟨T.toOracles, tx, ScriptSpec.Flags.ofMask flags, sv, {}, ed.tapleafHash, ed.annexHash⟩ := rfl
  rw [henv] at hev
  -- the part behind the pre-scan
  have rest : UnitMatch
      (if stack.any (fun d => d.length > MAX_SCRIPT_ELEMENT_SIZE) then .fail
       else do
        let s ← evalScript T.toOracles tx flags script stack sv ed
        match s with
        | [x] => if bts2bool x then pure () else .fail
        | _ => .fail)
      (do
        if stack.any (fun x => x.length > ScriptSpec.MAX_SCRIPT_ELEMENT_SIZE) then throw ScriptSpec.ScriptError.PUSH_SIZE
        let s ← ScriptSpec.evalScript ⟨T.toOracles, tx, ScriptSpec.Flags.ofMask flags, sv, {}, ed.tapleafHash, ed.annexHash⟩ script stack ed.weightLeft
        match s with
        | [x] => if ScriptSpec.castToBool x then pure () else throw ScriptSpec.ScriptError.EVAL_FALSE
        | [] => throw ScriptSpec.ScriptError.EVAL_FALSE
        | _ => throw ScriptSpec.ScriptError.CLEANSTACK) := by
    have hsz : ScriptSpec.MAX_SCRIPT_ELEMENT_SIZE = MAX_SCRIPT_ELEMENT_SIZE := rfl
    rw [hsz]
    by_cases hany : (stack.any (fun d => d.length > MAX_SCRIPT_ELEMENT_SIZE)) = true
    · simp [hany, UnitMatch, bind, Except.bind, throw, throwThe, MonadExceptOf.throw]
    · simp only [hany, Bool.false_eq_true, ↓reduceIte, bind, Except.bind, pure, Except.pure]
      rcases hsp : ScriptSpec.evalScript ⟨T.toOracles, tx, ScriptSpec.Flags.ofMask flags, sv, {}, ed.tapleafHash, ed.annexHash⟩ script stack ed.weightLeft with e | s2
      · rw [hsp] at hev; simp only at hev
        rw [hev]; simp [UnitMatch, Res.bind]
      · rw [hsp] at hev; simp only at hev
        rw [hev]
        simp only [Res.bind, bts2bool_eq]
        rcases s2 with _ | ⟨x, _ | ⟨y, r⟩⟩
        · simp [UnitMatch, throw, throwThe, MonadExceptOf.throw]
        · cases hcb : ScriptSpec.castToBool x <;> simp [UnitMatch, hcb, throw, throwThe, MonadExceptOf.throw]
        · simp [UnitMatch, throw, throwThe, MonadExceptOf.throw]
  unfold executeWitnessScript ScriptSpec.executeWitnessScript
  by_cases hts : sv = .tapscript
  · subst hts
    simp only [beq_self_eq_true, ↓reduceIte, opSuccessScan_eq script.length script, ← flag_dissuccess,
      show ScriptSpec.MAX_STACK_SIZE = MAX_STACK_SIZE from rfl]
    unfold ScriptSpec.parse
    generalize hpr : ScriptSpec.parseAux script.length script = pr
    obtain ⟨instrs, bad⟩ := pr
    simp only
    cases hscan : ScriptSpec.scanOpSuccess instrs bad with
    | none =>
      simp only
      by_cases hss : stack.length > MAX_STACK_SIZE
      · simp [hss, UnitMatch, bind, Except.bind, throw, throwThe, MonadExceptOf.throw]
      · simp only [hss, ↓reduceIte]
        have := rest
        simp only [bind, Except.bind, pure, Except.pure] at this ⊢
        exact this
    | some b =>
      cases b with
      | true =>
        simp only
        cases has flags VER_DIS_SUCCESS <;> simp [UnitMatch, bind, Except.bind, throw, throwThe, MonadExceptOf.throw, pure, Except.pure]
      | false => simp [UnitMatch, bind, Except.bind, throw, throwThe, MonadExceptOf.throw]
  · have hts' : (sv == SigVersion.tapscript) = false := by simp [hts]
    simp only [hts', Bool.false_eq_true, ↓reduceIte]
    have := rest
    simp only [bind, Except.bind, pure, Except.pure] at this ⊢
    exact this

theorem lexLt_eq : ∀ a b : Bytes, lexLt a b = ScriptSpec.bytesLt a b := by
  intro a
  induction a with
  | nil => intro b; cases b <;> simp [lexLt, ScriptSpec.bytesLt]
  | cons x a ih =>
    intro b
    cases b with
    | nil => simp [lexLt, ScriptSpec.bytesLt]
    | cons y b =>
      simp only [lexLt, ScriptSpec.bytesLt, ih]
      by_cases h1 : y < x
      · have h2 : ¬ x < y := by
          intro h; exact absurd (UInt8.lt_trans h1 h) (UInt8.lt_irrefl _)
        have h3 : ¬ x = y := by intro h; subst h; exact absurd h1 (UInt8.lt_irrefl _)
        simp [h1, h2, h3]
      · by_cases h2 : x < y
        · simp [h1, h2]
        · have : x = y := by
            apply UInt8.toNat_inj.mp
            have a1 : ¬ y.toNat < x.toNat := by simpa [UInt8.lt_iff_toNat_lt] using h1
            have a2 : ¬ x.toNat < y.toNat := by simpa [UInt8.lt_iff_toNat_lt] using h2
            omega
          simp [h1, h2, this]

theorem taggedHash_eq (O : Oracles) (tag : String) (msg : Bytes) : taggedHash O tag msg = ScriptSpec.taggedHash O tag msg := rfl

theorem merklePath_eq (O : Oracles) (control : Bytes) : ∀ n i k,
    merklePath O control n i k = ScriptSpec.merkleRoot O (ScriptSpec.chunks32 n (control.drop (33 + 32 * i))) k := by
  intro n
  induction n with
  | zero => intro i k; rfl
  | succ n ih =>
    intro i k
    simp only [merklePath, ScriptSpec.chunks32, ScriptSpec.merkleRoot, TAPROOT_CONTROL_BASE_SIZE, TAPROOT_CONTROL_NODE_SIZE, lexLt_eq, taggedHash_eq]
    rw [ih (i + 1)]
    have : List.drop 32 (List.drop (33 + 32 * i) control) = List.drop (33 + 32 * (i + 1)) control := by
      rw [List.drop_drop, show 33 + 32 * i + 32 = 33 + 32 * (i + 1) by omega]
    rw [this]

theorem u8_leafver (c0 : UInt8) : (c0 &&& TAPROOT_LEAF_MASK) = UInt8.ofNat (c0.toNat / 2 * 2) := by
  have : ∀ n : Fin 256, ((UInt8.ofNat n.val) &&& 0xfe) = UInt8.ofNat ((UInt8.ofNat n.val).toNat / 2 * 2) := by decide +kernel
  have h := this ⟨c0.toNat, c0.toNat_lt⟩
  simpa [TAPROOT_LEAF_MASK] using h
theorem u8_parity (c0 : UInt8) : ((c0 &&& 1) != 0) = (c0.toNat % 2 == 1) := by
  have : ∀ n : Fin 256, (((UInt8.ofNat n.val) &&& 1) != 0) = ((UInt8.ofNat n.val).toNat % 2 == 1) := by decide +kernel
  have h := this ⟨c0.toNat, c0.toNat_lt⟩
  simpa using h

/-- `VerifyTaprootCommitment`: tapleaf hash, merkle path, tweak and the oracle query are those of BIP341 -/
theorem verifyTaprootCommitment_eq (T : TotalOracles) (control program script : Bytes) :
    verifyTaprootCommitment T.toOracles control program script =
      (let c0 := control.getD 0 0
       let leafVersion : UInt8 := UInt8.ofNat (c0.toNat / 2 * 2)
       let tapleaf := ScriptSpec.tapleafHash T.toOracles leafVersion script
       let internalKey := (control.drop 1).take 32
       let root := ScriptSpec.merkleRoot T.toOracles (ScriptSpec.chunks32 ((control.length - 33) / 32) (control.drop 33)) tapleaf
       let tweak := ScriptSpec.taggedHash T.toOracles "TapTweak" (internalKey ++ root)
       .ok (T.tweakCheck program internalKey tweak (c0.toNat % 2 == 1), tapleaf)) := by
  unfold verifyTaprootCommitment
  simp only [merklePath_eq, taggedHash_eq, at', u8_leafver, u8_parity, ScriptSpec.tapleafHash, writeVlen, TAPROOT_CONTROL_BASE_SIZE,
    TAPROOT_CONTROL_NODE_SIZE, Nat.mul_zero, Nat.add_zero, TotalOracles.toOracles, Res.ask, Res.ok_bind, Res.pure_eq]
  rfl


theorem annexTag_eq (dat : Bytes) : (decide (dat.length > 0) && at' dat 0 == ANNEX_TAG) = (dat.take 1 == [0x50]) := by
  cases dat with
  | nil => simp [at']
  | cons x r =>
    simp only [at', List.length_cons, List.getD_cons_zero, ANNEX_TAG, List.take_succ_cons, List.take_zero]
    by_cases h : x = 0x50
    · subst h; simp
    · have : ([x] == [(0x50 : UInt8)]) = false := by simp [h]
      simp [h, this]

theorem p2wpkh_script (program : Bytes) (h : program.length = 20) :
    ([0x76, 0xa9, 0x14] ++ program ++ [0x88, 0xac] : Bytes) = [0x76, 0xa9] ++ ScriptSpec.pushEncoding program ++ [0x88, 0xac] := by
  unfold ScriptSpec.pushEncoding
  simp [h]

/-- the taproot branch of the model's VerifyWitnessProgram behind the annex handling -/
def mTap (T : TotalOracles) (tx : TxCtx) (flags : Nat) (witness : List Bytes) (program : Bytes) (stack : Stack) (annexHash : Option Bytes) : Res Unit :=
  let ed : ExecData := { annexHash := annexHash }
  match stack with
  | [] => .panic
  | [sig] => do
    let r ← checkSchnorrSignature T.toOracles sig program .taproot ed
    if r then pure () else .fail
  | control :: scriptBytes :: stack' =>
    if control.length < TAPROOT_CONTROL_BASE_SIZE || control.length > TAPROOT_CONTROL_MAX_SIZE ||
       (control.length - TAPROOT_CONTROL_BASE_SIZE) % TAPROOT_CONTROL_NODE_SIZE != 0 then .fail
    else do
      let (okc, tapleaf) ← verifyTaprootCommitment T.toOracles control program scriptBytes
      if !okc then .fail
      else if (at' control 0 &&& TAPROOT_LEAF_MASK) == TAPROOT_LEAF_TAPSCRIPT then
        let ed : ExecData := { ed with tapleafHash := tapleaf,
                                       weightLeft := (serializeSize witness + VALIDATION_WEIGHT_OFFSET : Nat) }
        executeWitnessScript T.toOracles tx stack' scriptBytes flags .tapscript ed
      else if has flags VER_DIS_TAPVER then .fail
      else pure ()

open ScriptSpec.ScriptError in
/-- the same part of the spec -/
def sTap (T : TotalOracles) (tx : TxCtx) (f : ScriptSpec.Flags) (witness : List Bytes) (program : Bytes) (stack : List Bytes) (annexHash : Option Bytes) :
    ScriptSpec.E Unit :=
    match stack with
    | [] => throw WITNESS_PROGRAM_WITNESS_EMPTY
    | [sig] =>
      ScriptSpec.checkSchnorrSignature ⟨T.toOracles, tx, f, .taproot, {}, [], annexHash⟩ sig program 0
    | control :: script :: rest => do
      let n := control.length
      if n < 33 || n > 33 + 32 * 128 || (n - 33) % 32 != 0 then throw TAPROOT_WRONG_CONTROL_SIZE
      let c0 := control.getD 0 0
      let leafVersion : UInt8 := UInt8.ofNat (c0.toNat / 2 * 2)
      let tapleaf := ScriptSpec.tapleafHash T.toOracles leafVersion script
      let internalKey := (control.drop 1).take 32
      let root := ScriptSpec.merkleRoot T.toOracles (ScriptSpec.chunks32 ((n - 33) / 32) (control.drop 33)) tapleaf
      let tweak := ScriptSpec.taggedHash T.toOracles "TapTweak" (internalKey ++ root)
      let okc ← ScriptSpec.ask (.tweak program internalKey tweak (c0.toNat % 2 == 1)) (T.toOracles.tweakCheck program internalKey tweak (c0.toNat % 2 == 1))
      if !okc then throw WITNESS_PROGRAM_MISMATCH
      if leafVersion == 0xc0 then
        let ser : Nat := Script.vlenSize witness.length + (witness.map fun w => Script.vlenSize w.length + w.length).sum
        ScriptSpec.executeWitnessScript T.toOracles tx f {} rest script .tapscript tapleaf annexHash (ser + ScriptSpec.VALIDATION_WEIGHT_OFFSET : Nat)
      else if f.discourageTaprootVersion then throw DISCOURAGE_UPGRADABLE_TAPROOT_VERSION
      else return ()

theorem tap_agree (T : TotalOracles) (tx : TxCtx) (flags : Nat) (witness : List Bytes) (program : Bytes) (stack : Stack) (annexHash : Option Bytes)
    (hT : TapSigHashOk T tx) (hq : NopsOk flags) (hne : stack ≠ []) :
    UnitMatch (mTap T tx flags witness program stack annexHash) (sTap T tx (ScriptSpec.Flags.ofMask flags) witness program stack annexHash) := by
  unfold mTap sTap
  rcases stack with _ | ⟨a, _ | ⟨b, rest⟩⟩
  · exact absurd rfl hne
  · -- key path
    have := checkSchnorr_agree T ⟨T.toOracles, tx, flags, .taproot, []⟩ hT a program { annexHash := annexHash }
    simp only at this ⊢
    rw [this]
    have henv : envOf T ⟨T.toOracles, tx, flags, .taproot, []⟩ [] annexHash =
        ⟨T.toOracles, tx, ScriptSpec.Flags.ofMask flags, .taproot, {}, [], annexHash⟩ := rfl
    rw [henv]
    rcases eunit_cases (ScriptSpec.checkSchnorrSignature ⟨T.toOracles, tx, ScriptSpec.Flags.ofMask flags, .taproot, {}, [], annexHash⟩ a program 0) with h | ⟨e, h⟩
    · simp [h, UnitMatch]
    · simp [h, UnitMatch]
  · -- script path
    have htw : ∀ q p k par, T.toOracles.tweakCheck q p k par = some (T.tweakCheck q p k par) := fun _ _ _ _ => rfl
    have hvte := verifyTaprootCommitment_eq T a program b
    simp only [htw] at hvte
    have hcm : (decide (a.length < TAPROOT_CONTROL_BASE_SIZE) || decide (a.length > TAPROOT_CONTROL_MAX_SIZE) ||
        (a.length - TAPROOT_CONTROL_BASE_SIZE) % TAPROOT_CONTROL_NODE_SIZE != 0) =
        (decide (a.length < 33) || decide (a.length > 33 + 32 * 128) || (a.length - 33) % 32 != 0) := by
      have hmax : TAPROOT_CONTROL_MAX_SIZE = 33 + 32 * 128 := by decide
      rw [hmax]; rfl
    simp only [hcm, hvte, Res.ok_bind, u8_leafver, at', ← flag_distapver]
    simp only [TAPROOT_LEAF_TAPSCRIPT, ScriptSpec.ask, htw]
    by_cases hcs : (decide (a.length < 33) || decide (a.length > 33 + 32 * 128) || (a.length - 33) % 32 != 0) = true
    · simp only [hcs, ↓reduceIte, UnitMatch, bind, Except.bind, throw, throwThe, MonadExceptOf.throw]
    · simp only [hcs, Bool.false_eq_true, ↓reduceIte, bind, Except.bind, pure, Except.pure]
      generalize T.tweakCheck program _ _ _ = okc
      cases okc
      · simp only [Bool.not_false, ↓reduceIte, UnitMatch, throw, throwThe, MonadExceptOf.throw]
      · simp only [Bool.not_true, Bool.false_eq_true, ↓reduceIte]
        by_cases hlv : (UInt8.ofNat ((a.getD 0 0).toNat / 2 * 2) == 0xc0) = true
        · simp only [hlv, ↓reduceIte]
          have := executeWitnessScript_agree T tx rest b flags .tapscript
            { tapleafHash := ScriptSpec.tapleafHash T.toOracles (UInt8.ofNat ((a.getD 0 0).toNat / 2 * 2)) b, annexHash := annexHash,
              weightLeft := ((serializeSize witness + VALIDATION_WEIGHT_OFFSET : Nat) : Int) } hT hq
          simp only [serializeSize, show ScriptSpec.VALIDATION_WEIGHT_OFFSET = VALIDATION_WEIGHT_OFFSET from rfl] at this ⊢
          exact this
        · simp only [hlv, Bool.false_eq_true, ↓reduceIte]
          cases has flags VER_DIS_TAPVER <;> simp [UnitMatch, throw, throwThe, MonadExceptOf.throw]

theorem verifyWitnessProgram_agree (T : TotalOracles) (tx : TxCtx) (witness : List Bytes) (ver : Nat) (prog : Bytes)
    (flags : Nat) (isP2sh : Bool) (hT : TapSigHashOk T tx) (hq : NopsOk flags) :
    UnitMatch (verifyWitnessProgram T.toOracles tx witness ver prog flags isP2sh)
      (ScriptSpec.verifyWitnessProgram T.toOracles tx (ScriptSpec.Flags.ofMask flags) {} witness ver prog isP2sh) := by
  unfold verifyWitnessProgram ScriptSpec.verifyWitnessProgram
  simp only
  by_cases hv0 : ver = 0
  · subst hv0
    simp only [beq_self_eq_true, ↓reduceIte]
    by_cases h32 : prog.length = 32
    · simp only [h32, beq_self_eq_true, ↓reduceIte]
      rcases hw : witness.reverse with _ | ⟨scr, rest⟩
      · simp [UnitMatch, throw, throwThe, MonadExceptOf.throw]
      · simp only
        by_cases hm : prog = T.toOracles.sha256 scr
        · have h1 : (prog != T.toOracles.sha256 scr) = false := by simp [hm]
          have h2 : (T.toOracles.sha256 scr != prog) = false := by simp [hm]
          simp only [h1, h2, Bool.false_eq_true, ↓reduceIte, bind, Except.bind, pure, Except.pure]
          exact executeWitnessScript_agree T tx rest scr flags .witnessV0 {} hT hq
        · have h1 : (prog != T.toOracles.sha256 scr) = true := by simp [hm]
          have h2 : (T.toOracles.sha256 scr != prog) = true := by
            simp only [bne_iff_ne, ne_eq]; exact fun h => hm h.symm
          simp [h1, h2, UnitMatch, bind, Except.bind, throw, throwThe, MonadExceptOf.throw]
    · have h32' : (prog.length == 32) = false := by simpa using h32
      simp only [h32', Bool.false_eq_true, ↓reduceIte]
      by_cases h20 : prog.length = 20
      · simp only [h20, beq_self_eq_true, ↓reduceIte, List.length_reverse]
        by_cases h2 : witness.length = 2
        · have h2' : (witness.length != 2) = false := by simp [h2]
          simp only [h2', Bool.false_eq_true, ↓reduceIte, bind, Except.bind, pure, Except.pure]
          rw [← p2wpkh_script prog h20]
          exact executeWitnessScript_agree T tx witness.reverse _ flags .witnessV0 {} hT hq
        · have h2' : (witness.length != 2) = true := by simp [h2]
          simp [h2', UnitMatch, bind, Except.bind, throw, throwThe, MonadExceptOf.throw]
      · have h20' : (prog.length == 20) = false := by simpa using h20
        simp [h20', UnitMatch, throw, throwThe, MonadExceptOf.throw]
  · have hv0' : (ver == 0) = false := by simpa using hv0
    simp only [hv0', Bool.false_eq_true, ↓reduceIte]
    by_cases htr : (ver == 1 && prog.length == 32 && !isP2sh) = true
    · simp only [htr, ↓reduceIte, ← flag_taproot]
      by_cases hft : has flags VER_TAPROOT = true
      · simp only [hft, Bool.not_true, Bool.false_eq_true, ↓reduceIte, List.length_reverse]
        rcases hw : witness.reverse with _ | ⟨dat, rest⟩
        · have : witness = [] := by simpa using hw
          subst this
          simp [UnitMatch, bind, Except.bind, throw, throwThe, MonadExceptOf.throw]
        · have hwl : witness.length = rest.length + 1 := by
            have := congrArg List.length hw; simpa using this
          have hne : (witness.length == 0) = false := by simp [hwl]
          have hie : witness.isEmpty = false := by cases witness with | nil => simp at hwl | cons _ _ => rfl
          simp only [hne, hie, Bool.false_eq_true, ↓reduceIte, ← annexTag_eq, Bool.and_assoc]
          by_cases hann : (decide (witness.length ≥ 2) && (decide (dat.length > 0) && at' dat 0 == ANNEX_TAG)) = true
          · simp only [hann, ↓reduceIte, List.drop_succ_cons, List.drop_zero]
            have hr : rest ≠ [] := by
              intro h; subst h
              simp [hwl] at hann
            exact tap_agree T tx flags witness prog rest _ hT hq hr
          · simp only [hann, Bool.false_eq_true, ↓reduceIte]
            exact tap_agree T tx flags witness prog (dat :: rest) none hT hq (by simp)
      · simp [hft, UnitMatch, pure, Except.pure, bind, Except.bind]
    · simp only [htr, Bool.false_eq_true, ↓reduceIte, ← flag_witprog]
      cases has flags VER_WITNESS_PROG <;> simp [UnitMatch, throw, throwThe, MonadExceptOf.throw, pure, Except.pure]


theorem isPushOnly_eq (s : Bytes) : isPushOnly s = ScriptSpec.isPushOnly s := by
  unfold isPushOnly ScriptSpec.isPushOnly ScriptSpec.parse
  rw [isPushOnlyAux_eq]

theorem isPayToScript_eq (s : Bytes) : isPayToScript s = ScriptSpec.isPayToScriptHash s := by
  unfold isPayToScript ScriptSpec.isPayToScriptHash
  by_cases hl : s.length = 23
  · match s, hl with
    | [a0,a1,a2,a3,a4,a5,a6,a7,a8,a9,a10,a11,a12,a13,a14,a15,a16,a17,a18,a19,a20,a21,a22], _ =>
      simp [List.getD]
  · have : (s.length == 23) = false := by simpa using hl
    simp [this]

theorem isWitnessProgram_eq (s : Bytes) : isWitnessProgram s = ScriptSpec.witnessProgram? s := by
  unfold isWitnessProgram ScriptSpec.witnessProgram? decodeOpN
  match s with
  | [] => simp
  | [a] => simp
  | v :: l :: prog =>
    simp only [List.length_cons, List.getD_cons_zero, List.getD_cons_succ, List.drop_succ_cons, List.drop_zero]
    have hv : (v == 0) = (v.toNat == 0) := by
      by_cases h : v = 0
      · subst h; rfl
      · have : v.toNat ≠ 0 := fun e => h (UInt8.toNat_inj.mp (by simpa using e))
        have e1 : (v == 0) = false := by simp [h]
        have e2 : (v.toNat == 0) = false := by simp [this]
        rw [e1, e2]
    rw [hv]
    by_cases hA : 4 ≤ prog.length + 1 + 1 ∧ prog.length + 1 + 1 ≤ 42
    · by_cases hB : v.toNat = 0 ∨ (0x51 ≤ v.toNat ∧ v.toNat ≤ 0x60)
      · by_cases hC : l.toNat = prog.length
        · have e1 : (decide (prog.length + 1 + 1 < 4) || decide (prog.length + 1 + 1 > 42)) = false := by simp; omega
          have e2 : (v.toNat != 0 && (decide (v.toNat < 0x51) || decide (v.toNat > 0x60))) = false := by simp; omega
          have e3 : l.toNat + 2 = prog.length + 1 + 1 := by omega
          have e4 : (decide (4 ≤ prog.length + 1 + 1) && decide (prog.length + 1 + 1 ≤ 42) && (v.toNat == 0 || decide (0x51 ≤ v.toNat) && decide (v.toNat ≤ 0x60)) && l.toNat == prog.length) = true := by
            simp; omega
          simp only [e1, e2, e3, e4, Bool.false_eq_true, ↓reduceIte]
          by_cases hz : v.toNat = 0 <;> simp [hz]
        · have e1 : (decide (prog.length + 1 + 1 < 4) || decide (prog.length + 1 + 1 > 42)) = false := by simp; omega
          have e2 : (v.toNat != 0 && (decide (v.toNat < 0x51) || decide (v.toNat > 0x60))) = false := by simp; omega
          have e3 : ¬ l.toNat + 2 = prog.length + 1 + 1 := by omega
          have e4 : (decide (4 ≤ prog.length + 1 + 1) && decide (prog.length + 1 + 1 ≤ 42) && (v.toNat == 0 || decide (0x51 ≤ v.toNat) && decide (v.toNat ≤ 0x60)) && l.toNat == prog.length) = false := by
            simp; omega
          simp only [e1, e2, e3, e4, Bool.false_eq_true, ↓reduceIte]
      · have e1 : (decide (prog.length + 1 + 1 < 4) || decide (prog.length + 1 + 1 > 42)) = false := by simp; omega
        have e2 : (v.toNat != 0 && (decide (v.toNat < 0x51) || decide (v.toNat > 0x60))) = true := by simp; omega
        have e4 : (decide (4 ≤ prog.length + 1 + 1) && decide (prog.length + 1 + 1 ≤ 42) && (v.toNat == 0 || decide (0x51 ≤ v.toNat) && decide (v.toNat ≤ 0x60)) && l.toNat == prog.length) = false := by
          simp; omega
        simp only [e1, e2, e4, Bool.false_eq_true, ↓reduceIte]
    · have e1 : (decide (prog.length + 1 + 1 < 4) || decide (prog.length + 1 + 1 > 42)) = true := by simp; omega
      have e4 : (decide (4 ≤ prog.length + 1 + 1) && decide (prog.length + 1 + 1 ≤ 42) && (v.toNat == 0 || decide (0x51 ≤ v.toNat) && decide (v.toNat ≤ 0x60)) && l.toNat == prog.length) = false := by
        simp; omega
      simp only [e1, e4, Bool.false_eq_true, ↓reduceIte]

/-- the bare-witness / P2SH-witness step of the model's VerifyTxScript -/
def mWit (O : Oracles) (tx : TxCtx) (flags : Nat) (scr : Bytes) (mm isP2sh had0 : Bool) (stack : Stack) : Res (Bool × Stack) :=
  if has flags VER_WITNESS then
    match isWitnessProgram scr with
    | some (ver, prog) =>
      if mm then .fail
      else do
        verifyWitnessProgram O tx (if has flags VER_WITNESS then tx.witness else []) ver prog flags isP2sh
        let s ← resize1 stack
        pure (true, s)
    | none => pure (had0, stack)
  else pure (had0, stack)

/-- the P2SH part of the model's VerifyTxScript -/
def mP2SH (O : Oracles) (tx : TxCtx) (flags : Nat) (pkScr : Bytes) (stackCopy : Stack) (hadWitness : Bool) (stack : Stack) : Res (Bool × Stack) :=
  if has flags VER_P2SH && isPayToScript pkScr then
    if !isPushOnly tx.sigScript then .fail
    else do
      let (pubKey2, stack) ← pop stackCopy
      let stack ← evalScript O tx flags pubKey2 stack .base {}
      match stack with
      | [] => .fail
      | t :: _ =>
        if !bts2bool t then .fail
        else mWit O tx flags pubKey2 (tx.sigScript != writePutLen pubKey2.length ++ pubKey2) true hadWitness stack
  else pure (hadWitness, stack)

/-- the final checks of the model's VerifyTxScript -/
def mFinal (tx : TxCtx) (flags : Nat) (hadWitness : Bool) (stack : Stack) : Res Unit :=
  if has flags VER_CLEANSTACK && !has flags VER_P2SH then .panic
  else if has flags VER_CLEANSTACK && stack.length != 1 then .fail
  else if has flags VER_WITNESS && !has flags VER_P2SH then .panic
  else if has flags VER_WITNESS && !hadWitness && (if has flags VER_WITNESS then tx.witness else []).length != 0 then .fail
  else pure ()

theorem verifyTxScript_struct (O : Oracles) (tx : TxCtx) (pkScr : Bytes) (flags : Nat) :
    verifyTxScript O tx pkScr flags =
      (if has flags VER_SIGPUSHONLY && !isPushOnly tx.sigScript then .fail
       else do
        let stack ← evalScript O tx flags tx.sigScript [] .base {}
        let stackCopy : Stack := if has flags VER_P2SH && stack.length > 0 then stack else []
        let stack ← evalScript O tx flags pkScr stack .base {}
        match stack with
        | [] => .fail
        | t :: _ =>
          if !bts2bool t then .fail else do
          let (hadWitness, stack) ← mWit O tx flags pkScr (tx.sigScript.length != 0) false false stack
          let (hadWitness, stack) ← mP2SH O tx flags pkScr stackCopy hadWitness stack
          mFinal tx flags hadWitness stack) := by
  rfl

open ScriptSpec.ScriptError in
/-- the P2SH part of the spec's VerifyScript -/
def sP2SH (O : Oracles) (tx : TxCtx) (f : ScriptSpec.Flags) (q : ScriptSpec.Quirks) (scriptPubKey : Bytes) (stackCopy : List Bytes) (had1 : Bool) (size1 : Nat) :
    ScriptSpec.E (Bool × Nat) :=
  (if f.p2sh && ScriptSpec.isPayToScriptHash scriptPubKey then do
      if !ScriptSpec.isPushOnly tx.sigScript then throw SIG_PUSHONLY
      match stackCopy with
      | [] => throw UNKNOWN_ERROR
      | redeem :: rest =>
        let stack2 ← ScriptSpec.evalScript ⟨O, tx, f, .base, q, [], none⟩ redeem rest
        match stack2 with
        | [] => throw EVAL_FALSE
        | t :: _ => if !ScriptSpec.castToBool t then throw EVAL_FALSE
        let hadw ← ScriptSpec.witnessStep O tx f q redeem (tx.sigScript != ScriptSpec.pushEncoding redeem) WITNESS_MALLEATED_P2SH true
        pure (had1 || hadw, if hadw then 1 else stack2.length)
    else pure (had1, size1) : ScriptSpec.E (Bool × Nat))

open ScriptSpec.ScriptError in
def sFinal (tx : TxCtx) (f : ScriptSpec.Flags) (had2 : Bool) (size2 : Nat) : ScriptSpec.E Unit := do
  if f.cleanstack then
    if size2 != 1 then throw CLEANSTACK
  if f.witness then
    if !had2 && !tx.witness.isEmpty then throw WITNESS_UNEXPECTED

open ScriptSpec.ScriptError in
theorem verifyScript_struct (O : Oracles) (tx : TxCtx) (scriptPubKey : Bytes) (f : ScriptSpec.Flags) (q : ScriptSpec.Quirks) :
    ScriptSpec.verifyScript O tx scriptPubKey f q = (do
      if f.sigpushonly && !ScriptSpec.isPushOnly tx.sigScript then throw SIG_PUSHONLY
      let stack ← ScriptSpec.evalScript ⟨O, tx, f, .base, q, [], none⟩ tx.sigScript []
      let stackCopy := stack
      let stack ← ScriptSpec.evalScript ⟨O, tx, f, .base, q, [], none⟩ scriptPubKey stack
      match stack with
      | [] => throw EVAL_FALSE
      | t :: _ => if !ScriptSpec.castToBool t then throw EVAL_FALSE
      let had1 ← ScriptSpec.witnessStep O tx f q scriptPubKey (!tx.sigScript.isEmpty) WITNESS_MALLEATED false
      let size1 := if had1 then 1 else stack.length
      let (had2, size2) ← sP2SH O tx f q scriptPubKey stackCopy had1 size1
      sFinal tx f had2 size2) := by
  rfl

def WMatch (had0 : Bool) (stack : Stack) (m : Res (Bool × Stack)) (sp : ScriptSpec.E Bool) : Prop :=
  match sp with
  | .ok true => ∃ b, m = .ok (true, [b])
  | .ok false => m = .ok (had0, stack)
  | .error _ => m = .fail

theorem wstep_agree (T : TotalOracles) (tx : TxCtx) (flags : Nat) (scr : Bytes) (mm malleated : Bool) (err : ScriptSpec.ScriptError)
    (isP2sh had0 : Bool) (stack : Stack) (hT : TapSigHashOk T tx) (hq : NopsOk flags) (hne : stack ≠ [])
    (hmal : ∀ vp, ScriptSpec.witnessProgram? scr = some vp → mm = malleated) :
    WMatch had0 stack (mWit T.toOracles tx flags scr mm isP2sh had0 stack)
      (ScriptSpec.witnessStep T.toOracles tx (ScriptSpec.Flags.ofMask flags) {} scr malleated err isP2sh) := by
  unfold ScriptSpec.witnessStep mWit
  rw [← flag_witness, isWitnessProgram_eq]
  by_cases hw : has flags VER_WITNESS = true
  · simp only [hw, ↓reduceIte, Bool.not_true, Bool.false_eq_true]
    cases hwp : ScriptSpec.witnessProgram? scr with
    | none => simp [WMatch, pure, Except.pure]
    | some vp =>
      obtain ⟨ver, prog⟩ := vp
      rw [hmal _ hwp]
      simp only
      cases malleated
      · simp only [Bool.false_eq_true, ↓reduceIte, bind, Except.bind, pure, Except.pure]
        have hv := verifyWitnessProgram_agree T tx tx.witness ver prog flags isP2sh hT hq
        unfold UnitMatch at hv
        rcases hsp : ScriptSpec.verifyWitnessProgram T.toOracles tx (ScriptSpec.Flags.ofMask flags) {} tx.witness ver prog isP2sh with e | u
        · rw [hsp] at hv; simp only at hv
          rw [hv]; simp [WMatch, Res.bind]
        · rw [hsp] at hv; simp only at hv
          rw [hv]
          cases hl : stack.getLast? with
          | none => cases stack with | nil => exact absurd rfl hne | cons _ _ => simp at hl
          | some b => simp [WMatch, Res.bind, resize1, hl]
      · simp [WMatch, bind, Except.bind, throw, throwThe, MonadExceptOf.throw]
  · simp [hw, WMatch, pure, Except.pure]

def PairRel (m : Res (Bool × Stack)) (sp : ScriptSpec.E (Bool × Nat)) : Prop :=
  match sp with
  | .ok (h, n) => ∃ st, m = .ok (h, st) ∧ st.length = n
  | .error _ => m = .fail

/-- CLEANSTACK and WITNESS_UNEXPECTED at the end of VerifyTxScript; the two explicit panics need a flag set
    outside FlagsOk -/
theorem final_agree (tx : TxCtx) (flags : Nat) (hf : ScriptSpec.FlagsOk (ScriptSpec.Flags.ofMask flags)) (had : Bool) (stack : Stack) :
    UnitMatch (mFinal tx flags had stack) (sFinal tx (ScriptSpec.Flags.ofMask flags) had stack.length) := by
  unfold mFinal sFinal
  obtain ⟨hw, hc, _⟩ := hf
  rw [← flag_witness, ← flag_p2sh] at hw
  rw [← flag_cleanstack, ← flag_p2sh, ← flag_witness] at hc
  simp only [← flag_cleanstack, ← flag_witness]
  have hwe : (tx.witness.length != 0) = !tx.witness.isEmpty := by cases tx.witness <;> simp
  cases hcs : has flags VER_CLEANSTACK
  · cases hwt : has flags VER_WITNESS
    · simp [UnitMatch, pure, Except.pure, bind, Except.bind]
    · have hp := hw hwt
      simp only [hp, hwe, Bool.false_and, Bool.not_true, Bool.and_false, Bool.false_eq_true, ↓reduceIte, Bool.true_and, bind, Except.bind,
        pure, Except.pure]
      by_cases hu : (!had && !tx.witness.isEmpty) = true
      · simp [hu, UnitMatch, throw, throwThe, MonadExceptOf.throw]
      · simp [hu, UnitMatch]
  · have ⟨hp, hwt⟩ := hc hcs
    simp only [hp, hwt, hwe, Bool.not_true, Bool.and_false, Bool.false_eq_true, ↓reduceIte, Bool.true_and, bind, Except.bind, pure, Except.pure]
    by_cases hl : (stack.length != 1) = true
    · simp [hl, UnitMatch, throw, throwThe, MonadExceptOf.throw]
    · simp only [hl, Bool.false_eq_true, ↓reduceIte]
      by_cases hu : (!had && !tx.witness.isEmpty) = true
      · simp [hu, UnitMatch, throw, throwThe, MonadExceptOf.throw]
      · simp [hu, UnitMatch]

theorem writePutLen_eq (v : Bytes) (h : v.length ≤ 42) : writePutLen v.length ++ v = ScriptSpec.pushEncoding v := by
  unfold writePutLen ScriptSpec.pushEncoding
  have h2 : v.length < 0x4c := by omega
  simp [h2]

theorem witnessProgram_len (s : Bytes) (vp : Nat × Bytes) (h : ScriptSpec.witnessProgram? s = some vp) : s.length ≤ 42 := by
  unfold ScriptSpec.witnessProgram? at h
  match s, h with
  | v :: l :: prog, h =>
    by_cases hc : (decide (4 ≤ (v :: l :: prog).length) && decide ((v :: l :: prog).length ≤ 42) && (v == 0 || decide (0x51 ≤ v.toNat) && decide (v.toNat ≤ 0x60)) && l.toNat == prog.length) = true
    · simp only [Bool.and_eq_true, decide_eq_true_eq] at hc
      exact hc.1.1.2
    · simp only [hc] at h
      cases h

theorem eok_bind {α β : Type} (a : α) (f : α → ScriptSpec.E β) : (Except.ok a >>= f : ScriptSpec.E β) = f a := rfl
theorem eerr_bind {α β : Type} (e : ScriptSpec.ScriptError) (f : α → ScriptSpec.E β) : (Except.error e >>= f : ScriptSpec.E β) = Except.error e := rfl
theorem ethrow_bind {α β : Type} (e : ScriptSpec.ScriptError) (f : α → ScriptSpec.E β) : ((throw e : ScriptSpec.E α) >>= f : ScriptSpec.E β) = Except.error e := rfl
theorem epure_bind {α β : Type} (a : α) (f : α → ScriptSpec.E β) : ((pure a : ScriptSpec.E α) >>= f : ScriptSpec.E β) = f a := rfl

theorem unit_bind (m : Res (Bool × Stack)) (sp : ScriptSpec.E (Bool × Nat)) (fm : Bool × Stack → Res Unit)
    (fs : Bool × Nat → ScriptSpec.E Unit) (h : PairRel m sp)
    (hf : ∀ had st, UnitMatch (fm (had, st)) (fs (had, st.length))) : UnitMatch (m >>= fm) (sp >>= fs) := by
  unfold PairRel at h
  rcases sp with e | ⟨had, n⟩
  · simp only at h; rw [h]; simp only [Res.fail_bind, eerr_bind, UnitMatch]
  · simp only at h
    obtain ⟨st, hm, hl⟩ := h
    rw [hm, ← hl]
    simp only [Res.ok_bind, eok_bind]
    exact hf had st

theorem unit_bind_w (had0 : Bool) (stack : Stack) (m : Res (Bool × Stack)) (sp : ScriptSpec.E Bool) (fm : Bool × Stack → Res Unit)
    (fs : Bool → ScriptSpec.E Unit) (h : WMatch had0 stack m sp)
    (hf1 : ∀ b, UnitMatch (fm (true, [b])) (fs true)) (hf0 : UnitMatch (fm (had0, stack)) (fs false)) :
    UnitMatch (m >>= fm) (sp >>= fs) := by
  unfold WMatch at h
  rcases sp with e | hadw
  · simp only at h; rw [h]; simp only [Res.fail_bind, eerr_bind, UnitMatch]
  · cases hadw
    · simp only at h; rw [h]; simp only [Res.ok_bind, eok_bind]; exact hf0
    · simp only at h; obtain ⟨b, hb⟩ := h; rw [hb]; simp only [Res.ok_bind, eok_bind]; exact hf1 b

/-- the P2SH part of VerifyTxScript -/
theorem p2sh_block_agree (T : TotalOracles) (tx : TxCtx) (pk : Bytes) (flags : Nat) (hq : NopsOk flags) (hT : TapSigHashOk T tx)
    (stack1 stack2 : Stack) (hm2 : evalScript T.toOracles tx flags pk stack1 .base {} = .ok stack2)
    (had1 : Bool) (stackA : Stack) (hA : had1 = true → stackA.length = 1) :
    PairRel
      (mP2SH T.toOracles tx flags pk (if has flags VER_P2SH && stack1.length > 0 then stack1 else []) had1 stackA)
      (sP2SH T.toOracles tx (ScriptSpec.Flags.ofMask flags) {} pk stack1 had1 (if had1 then 1 else stackA.length)) := by
  unfold mP2SH sP2SH
  simp only [← flag_p2sh, ← isPayToScript_eq, ← isPushOnly_eq]
  have henv : ∀ p, envOf T ⟨T.toOracles, tx, flags, .base, p⟩ ({} : ExecData).tapleafHash ({} : ExecData).annexHash =
      ⟨T.toOracles, tx, ScriptSpec.Flags.ofMask flags, .base, {}, [], none⟩ := fun _ => rfl
  have hw0 : ({} : ExecData).weightLeft = 0 := rfl
  by_cases hp : (has flags VER_P2SH && isPayToScript pk) = true
  · simp only [hp, ↓reduceIte]
    simp only [Bool.and_eq_true] at hp
    by_cases hpo : (!isPushOnly tx.sigScript) = true
    · simp only [hpo, ↓reduceIte, ethrow_bind, PairRel]
    · simp only [hpo, Bool.false_eq_true, ↓reduceIte, epure_bind]
      rcases stack1 with _ | ⟨redeem, rest⟩
      · exfalso
        rw [p2sh_on_empty_stack_fails T.toOracles tx flags pk {} hp.2] at hm2
        cases hm2
      · have hl : (has flags VER_P2SH && decide ((redeem :: rest).length > 0)) = true := by simp [hp.1]
        simp only [hl, ↓reduceIte, pop, Res.ok_bind]
        have hev3 := evalScript_agree_all T tx flags redeem rest .base {} hT hq
        rw [henv, hw0] at hev3
        unfold EvalMatch at hev3
        rcases hs3 : ScriptSpec.evalScript ⟨T.toOracles, tx, ScriptSpec.Flags.ofMask flags, .base, {}, [], none⟩ redeem rest 0 with e | stack3
        · rw [hs3] at hev3; simp only at hev3
          simp only [hev3, Res.fail_bind, eerr_bind, PairRel]
        rw [hs3] at hev3; simp only at hev3
        simp only [hev3, Res.ok_bind, eok_bind]
        rcases stack3 with _ | ⟨t, r⟩
        · simp only [ethrow_bind, PairRel]
        simp only [bts2bool_eq]
        cases hcb : ScriptSpec.castToBool t
        · simp only [Bool.not_false, ↓reduceIte, ethrow_bind, PairRel]
        simp only [Bool.not_true, Bool.false_eq_true, ↓reduceIte, epure_bind]
        have hws := wstep_agree T tx flags redeem (tx.sigScript != writePutLen redeem.length ++ redeem)
          (tx.sigScript != ScriptSpec.pushEncoding redeem) ScriptSpec.ScriptError.WITNESS_MALLEATED_P2SH true had1 (t :: r) hT hq (by simp)
          (fun vp hvp => by rw [writePutLen_eq redeem (witnessProgram_len redeem vp hvp)])
        unfold WMatch at hws
        rcases hsp : ScriptSpec.witnessStep T.toOracles tx (ScriptSpec.Flags.ofMask flags) {} redeem (tx.sigScript != ScriptSpec.pushEncoding redeem)
            ScriptSpec.ScriptError.WITNESS_MALLEATED_P2SH true with e | hadw
        · rw [hsp] at hws; simp only at hws
          rw [hws]; simp only [eerr_bind, PairRel]
        · cases hadw
          · rw [hsp] at hws; simp only at hws
            rw [hws]; simp only [eok_bind, PairRel, pure, Except.pure, Bool.or_false, Bool.false_eq_true, ↓reduceIte]
            exact ⟨t :: r, rfl, rfl⟩
          · rw [hsp] at hws; simp only at hws
            obtain ⟨b, hb⟩ := hws
            rw [hb]; simp only [eok_bind, PairRel, pure, Except.pure, Bool.or_true, ↓reduceIte]
            exact ⟨[b], rfl, rfl⟩
  · simp only [hp, Bool.false_eq_true, ↓reduceIte, PairRel, pure, Except.pure]
    refine ⟨stackA, rfl, ?_⟩
    cases had1
    · simp
    · simp [hA rfl]

/-- `VerifyTxScript` returns true exactly where Bitcoin's `VerifyScript` raises no error -/
theorem verifyTxScript_agree (T : TotalOracles) (tx : TxCtx) (pk : Bytes) (flags : Nat)
    (hf : ScriptSpec.FlagsOk (ScriptSpec.Flags.ofMask flags)) (hq : NopsOk flags) (hT : TapSigHashOk T tx) :
    UnitMatch (verifyTxScript T.toOracles tx pk flags) (ScriptSpec.verifyScript T.toOracles tx pk (ScriptSpec.Flags.ofMask flags)) := by
  rw [verifyTxScript_struct, verifyScript_struct]
  simp only [← flag_sigpushonly, ← isPushOnly_eq]
  by_cases hpo : (has flags VER_SIGPUSHONLY && !isPushOnly tx.sigScript) = true
  · simp only [hpo, ↓reduceIte, ethrow_bind, UnitMatch]
  simp only [hpo, Bool.false_eq_true, ↓reduceIte, epure_bind]
  have henv : ∀ p, envOf T ⟨T.toOracles, tx, flags, .base, p⟩ ({} : ExecData).tapleafHash ({} : ExecData).annexHash =
      ⟨T.toOracles, tx, ScriptSpec.Flags.ofMask flags, .base, {}, [], none⟩ := fun _ => rfl
  have hw0 : ({} : ExecData).weightLeft = 0 := rfl
  have hev : ∀ p stack, EvalMatch (evalScript T.toOracles tx flags p stack .base {})
      (ScriptSpec.evalScript ⟨T.toOracles, tx, ScriptSpec.Flags.ofMask flags, .base, {}, [], none⟩ p stack 0) := by
    intro p stack
    have := evalScript_agree_all T tx flags p stack .base {} hT hq
    rw [henv, hw0] at this
    exact this
  -- scriptSig
  have hev1 := hev tx.sigScript []
  unfold EvalMatch at hev1
  rcases hs1 : ScriptSpec.evalScript ⟨T.toOracles, tx, ScriptSpec.Flags.ofMask flags, .base, {}, [], none⟩ tx.sigScript [] 0 with e | stack1
  · rw [hs1] at hev1; simp only at hev1
    simp only [hev1, Res.fail_bind, eerr_bind, UnitMatch]
  rw [hs1] at hev1; simp only at hev1
  simp only [hev1, Res.ok_bind, eok_bind]
  -- scriptPubKey
  have hev2 := hev pk stack1
  unfold EvalMatch at hev2
  rcases hs2 : ScriptSpec.evalScript ⟨T.toOracles, tx, ScriptSpec.Flags.ofMask flags, .base, {}, [], none⟩ pk stack1 0 with e | stack2
  · rw [hs2] at hev2; simp only at hev2
    simp only [hev2, Res.fail_bind, eerr_bind, UnitMatch]
  rw [hs2] at hev2; simp only at hev2
  simp only [hev2, Res.ok_bind, eok_bind]
  rcases stack2 with _ | ⟨t, r⟩
  · simp only [ethrow_bind, UnitMatch]
  simp only [bts2bool_eq]
  cases hcb : ScriptSpec.castToBool t
  · simp only [Bool.not_false, ↓reduceIte, ethrow_bind, UnitMatch]
  simp only [Bool.not_true, Bool.false_eq_true, ↓reduceIte, epure_bind]
  -- bare witness program
  have hws := wstep_agree T tx flags pk (tx.sigScript.length != 0) (!tx.sigScript.isEmpty) ScriptSpec.ScriptError.WITNESS_MALLEATED
    false false (t :: r) hT hq (by simp) (fun _ _ => by cases tx.sigScript <;> simp)
  apply unit_bind_w false (t :: r) _ _ _ _ hws
  · intro b
    apply unit_bind _ _ _ _ (p2sh_block_agree T tx pk flags hq hT stack1 (t :: r) hev2 true [b] (by simp))
    intro had st
    exact final_agree tx flags hf had st
  · apply unit_bind _ _ _ _ (p2sh_block_agree T tx pk flags hq hT stack1 (t :: r) hev2 false (t :: r) (by simp))
    intro had st
    exact final_agree tx flags hf had st

end GocoinV.Proofs.C01
