/- C08 table proof chunk (written once by Proofs/mk_c08_tab.py; static). -/
import GocoinV.Proofs.C08_TabDefs
import GocoinV.Gen.TablesPreG12811
import GocoinV.Gen.TablesPreG12810
namespace GocoinV.C08
open GocoinV.Gen

theorem preG128_11 : chainOK (Secp.dbl g128) ((pts Tables.preG12810).getLastD none :: pts Tables.preG12811) = true := by
  decide +kernel
theorem preG128_11_ne : pts Tables.preG12811 ≠ [] := by decide +kernel

end GocoinV.C08
