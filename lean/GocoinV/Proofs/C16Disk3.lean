/-
  Proofs.C16Disk3 — `Disk` through BlockTrusted / BlockInvalid / BlockGet / BlockLength / BlockAdd, and what
  LoadBlockIndex rebuilds from an index file that satisfies it.
-/
import GocoinV.Proofs.C16Disk2
namespace GocoinV.BlockDB

/-- what the theorems about restarts ask of a history's operations: the hash handed to BlockAdd is the hash of the block's
    header (LoadBlockIndex recomputes it from the stored header), the block and its stored form fit the record's 32-bit
    length fields, the height its 32-bit field -/
def Op.wf (env : Env) : Op → Prop
  | .add hash height _ _ raw =>
    hash = env.hash (raw.take 80) ∧ raw.length ≤ 0xffffffff ∧ (env.enc raw).length ≤ 0xffffffff ∧ height < 2^32
  | _ => True

theorem blockTrusted_disk (env : Env) (s : State) (sp : Spec) (n : Nat) (h : Disk env s sp n) (hi : IdxInv s) (hash : Bytes) :
    Disk env (blockTrusted s hash) sp n := by
  unfold blockTrusted
  simp only
  split
  · exact h
  · rename_i r0 hr0
    split
    · exact h
    · cases hp : r0.ipos with
      | none => exact disk_flag_unwritten env s sp n h _ r0 _ hr0 hp
      | some p => exact disk_flag env s sp n h hi _ r0 p _ hr0 hp (.inl rfl) (fun e => absurd e (by decide))

theorem blockInvalid_disk (env : Env) (s : State) (sp : Spec) (n : Nat) (h : Disk env s sp n) (hi : IdxInv s) (hash : Bytes)
    (ht : ∀ e, AL.get sp.m (keyOf hash) = some e → e.tainted = true) :
    Disk env (blockInvalid s hash).1 sp n := by
  unfold blockInvalid
  simp only
  split
  · exact h
  · rename_i r0 hr0
    split
    · exact h
    · split
      · rename_i hn
        exact disk_delete env s sp n h _ r0 hr0 (by simpa using hn) ht
      · rename_i hn
        cases hp : r0.ipos with
        | none => simp [hp] at hn
        | some p => exact disk_flag env s sp n h hi _ r0 p _ hr0 hp (.inr rfl) (fun _ => ht)

theorem addToCache_disk (env : Env) (s : State) (sp : Spec) (n : Nat) (h : Disk env s sp n) (k : Key) (d : Bytes) :
    Disk env (addToCache s k d) sp n := by
  obtain ⟨g1, g2, g3, _, _, g6, g7, g8, _⟩ := addToCache_fields s k d
  exact disk_same env s _ sp n h g1 (by rw [g3]) g2 g6 g7 g8

theorem blockGet_disk (env : Env) (s : State) (sp : Spec) (n : Nat) (h : Disk env s sp n) (hash : Bytes) :
    Disk env (blockGet env s hash).1 sp n := by
  unfold blockGet
  simp only
  split
  · exact h
  · rename_i r0 hr0
    split
    · exact disk_same env s _ sp n h rfl rfl rfl rfl rfl rfl
    · split
      · exact h
      · split
        · exact h
        · split
          · exact h
          · split
            · exact h
            · rename_i file _ _
              generalize decodeStored env r0 (List.take r0.blen (List.drop r0.fpos file)) = ble
              obtain ⟨bl, err⟩ := ble
              simp only
              have h1 : Disk env { s with index := AL.set s.index (keyOf hash) (if r0.olen = 0 then ({ r0 with olen := bl.length } : Rec) else r0) } sp n :=
                disk_update env s _ sp n h (keyOf hash) r0 (if r0.olen = 0 then ({ r0 with olen := bl.length } : Rec) else r0) hr0
                  (fun k' => by simp only [AL.get_set]) rfl rfl rfl rfl rfl
                  (by split <;> rfl) (by split <;> rfl) (by split <;> rfl) (by split <;> rfl) (by split <;> rfl) (by split <;> rfl)
                  (by split <;> rfl) (.inr (by split <;> rfl))
              have h2 := addToCache_disk env _ sp n h1 (keyOf hash) bl
              split <;> exact h2

theorem blockLength_disk (env : Env) (s : State) (sp : Spec) (n : Nat) (h : Disk env s sp n) (hash : Bytes) (d : Bool) :
    Disk env (blockLength env s hash d).1 sp n := by
  unfold blockLength
  simp only
  split
  · exact h
  · split
    · exact h
    · split
      · exact h
      · have := blockGet_disk env s sp n h hash
        generalize blockGet env s hash = res at this ⊢
        obtain ⟨s', out⟩ := res
        cases out <;> exact this

/-! ### BlockAdd -/

theorem addNew_disk (env : Env) (s : State) (sp sp' : Spec) (n : Nat) (h : Disk env s sp n) (k : Key)
    (hnone : AL.get s.index k = none) (raw : Bytes) (ht tx : Nat) (tr : Bool)
    (hm : ∀ k', k ≠ k' → AL.get sp'.m k' = AL.get sp.m k')
    (hk : ∀ e', AL.get sp'.m k = some e' → e'.tainted = false → e'.raw = raw ∧ e'.height = ht ∧ e'.txcount = tx % 2^32)
    (hex : ∃ e', AL.get sp'.m k = some e')
    (hkey : k = keyOf (env.hash (raw.take 80)))
    (hsz : raw.length ≤ 0xffffffff ∧ (env.enc raw).length ≤ 0xffffffff ∧ ht < 2^32)
    (s2 : State)
    (e_idx : ∀ k', AL.get s2.index k' = if k = k' then some { ipos := none, trusted := tr, olen := raw.length, seq := s.nextSeq } else AL.get s.index k')
    (e_fs : s2.fs.idx = s.fs.idx)
    (e_q : s2.queue = s.queue ++ [{ data := raw, idx := k, height := ht, txcount := tx % 2^32, seq := s.nextSeq }])
    (e_seq : s2.nextSeq = s.nextSeq + 1) (e_mp : s2.maxdatfilepos = s.maxdatfilepos) (e_mi : s2.maxdatfileidx = s.maxdatfileidx) :
    Disk env s2 sp' (n + 1) := by
  have hql : s2.queue.length = s.queue.length + 1 := by rw [e_q]; simp
  refine ⟨?_, ?_, ?_, ?_, ?_, ?_, ?_, ?_, ?_, ?_, ?_, ?_, (by rw [e_fs]; intro p h1 h2; have := h.allidx p h1 h2; omega)⟩
  · intro k' r p hh hp
    rw [e_idx] at hh
    rw [e_fs]
    split at hh
    · simp only [Option.some.injEq] at hh; subst hh; cases hp
    · exact h.mem k' r p hh hp
  · intro p hp1 hp2 hv
    rw [e_fs] at hp2 hv ⊢
    obtain ⟨r, hr1, hr2⟩ := h.disk p hp1 hp2 hv
    rw [e_idx]
    split
    · rename_i e; rw [← e, hnone] at hr1; cases hr1
    · exact ⟨r, hr1, hr2⟩
  · intro k' e r p he hte hh hp
    rw [e_idx] at hh
    rw [e_fs]
    split at hh
    · simp only [Option.some.injEq] at hh; subst hh; cases hp
    · rename_i hne
      rw [hm k' hne] at he
      exact h.specrec k' e r p he hte hh hp
  · intro k' r hh
    rw [e_idx] at hh
    split at hh
    · rename_i e; subst e; exact hex
    · rename_i hne; rw [hm k' hne]; exact h.idxspec k' r hh
  · intro k' e he hte
    rw [e_idx]
    split
    · exact ⟨_, rfl⟩
    · rename_i hne
      rw [hm k' hne] at he
      exact h.ent k' e he hte
  · intro b hb
    rw [e_q] at hb
    simp only [List.mem_append, List.mem_singleton] at hb
    rcases hb with hb | hb
    · exact h.qkey b hb
    · subst hb; exact hkey
  · intro b hb
    rw [e_q] at hb
    simp only [List.mem_append, List.mem_singleton] at hb
    rcases hb with hb | hb
    · exact h.qsize b hb
    · subst hb
      exact ⟨hsz.1, hsz.2.1, hsz.2.2, Nat.mod_lt _ (by decide)⟩
  · intro b hb
    rw [e_q] at hb
    simp only [List.mem_append, List.mem_singleton] at hb
    rw [e_seq]
    rcases hb with hb | hb
    · have := h.qseq b hb; omega
    · subst hb; simp only; omega
  · intro b hb r e hri hseq hip he hte
    rw [e_q] at hb
    simp only [List.mem_append, List.mem_singleton] at hb
    rw [e_idx] at hri
    rcases hb with hb | hb
    · split at hri
      · simp only [Option.some.injEq] at hri; subst hri
        have := h.qseq b hb
        simp only at hseq; omega
      · rename_i hne
        rw [hm _ hne] at he
        exact h.qmeta b hb r e hri hseq hip he hte
    · subst hb
      simp only at he ⊢
      obtain ⟨a1, a2, a3⟩ := hk e he hte
      exact ⟨a1.symm, a2.symm, a3.symm⟩
  · rw [hql, e_mi]; have := h.cnt1; omega
  · rw [hql, e_mp]; have := h.cnt2; omega
  · intro k' r p hh hp
    rw [e_idx] at hh
    split at hh
    · simp only [Option.some.injEq] at hh; subst hh; cases hp
    · have := h.recb k' r p hh hp; omega

theorem blockAdd_disk (env : Env) (s : State) (sp sp' : Spec) (n : Nat) (h : Disk env s sp n) (hi : IdxInv s)
    (ho : s.isOpen = true) (hn : n + 1 < 2^31) (hash : Bytes) (ht tx : Nat) (tr : Bool) (raw : Bytes)
    (hwf : Op.wf env (.add hash ht tx tr raw)) (hraw : raw.length ≥ 80)
    (hm : ∀ k', keyOf hash ≠ k' → AL.get sp'.m k' = AL.get sp.m k')
    (hnew : AL.get sp.m (keyOf hash) = none → ∀ e', AL.get sp'.m (keyOf hash) = some e' →
      e'.raw = raw ∧ e'.height = ht ∧ e'.txcount = tx % 2^32)
    (hold : ∀ e, AL.get sp.m (keyOf hash) = some e → ∀ e', AL.get sp'.m (keyOf hash) = some e' →
      e'.tainted = e.tainted ∧ e'.raw = e.raw ∧ e'.height = e.height ∧ e'.txcount = e.txcount)
    (hex : ∃ e', AL.get sp'.m (keyOf hash) = some e') :
    Disk env (blockAdd env s hash ht tx tr raw) sp' (n + 1) := by
  obtain ⟨w1, w2, w3, w4⟩ := hwf
  unfold blockAdd
  simp only
  split
  · rename_i hnone
    have hk : ∀ e', AL.get sp'.m (keyOf hash) = some e' → e'.tainted = false →
        e'.raw = raw ∧ e'.height = ht ∧ e'.txcount = tx % 2^32 := by
      intro e' he' hte
      cases hsp : AL.get sp.m (keyOf hash) with
      | none => exact hnew hsp e' he'
      | some e =>
        obtain ⟨h1, _⟩ := hold e hsp e' he'
        obtain ⟨r, hr⟩ := h.ent _ e hsp (by rw [← h1]; exact hte)
        rw [hnone] at hr; cases hr
    generalize hs1 : ({ s with index := AL.set s.index (keyOf hash) { ipos := none, trusted := tr, olen := raw.length, seq := s.nextSeq } } : State) = s1
    have e_idx : s1.index = AL.set s.index (keyOf hash) { ipos := none, trusted := tr, olen := raw.length, seq := s.nextSeq } := by rw [← hs1]
    have e_q : s1.queue = s.queue := by rw [← hs1]
    have e_fs : s1.fs = s.fs := by rw [← hs1]
    have e_open : s1.isOpen = s.isOpen := by rw [← hs1]
    have e_seq : s1.nextSeq = s.nextSeq := by rw [← hs1]
    have e_mp : s1.maxdatfilepos = s.maxdatfilepos := by rw [← hs1]
    have e_mi : s1.maxdatfileidx = s.maxdatfileidx := by rw [← hs1]
    have e_mx : s1.maxidxfilepos = s.maxidxfilepos := by rw [← hs1]
    obtain ⟨g1, g2, g3, _, g5, g6, g7, g8, _⟩ := addToCache_fields s1 (keyOf hash) raw
    obtain ⟨_, _, _, _, _, g9⟩ := addToCache_inv s1 (keyOf hash) raw
      ⟨by rw [e_fs]; exact hi.len_mod, by rw [e_open, e_mx, e_fs]; exact hi.pos, by
        intro k r p; rw [e_idx, e_fs]; simp only [AL.get_set]
        split
        · intro a b; simp only [Option.some.injEq] at a; subst a; cases b
        · exact hi.ipos k r p, by rw [e_q]; exact hi.queue⟩
    generalize hs2 : addToCache s1 (keyOf hash) raw = s2 at *
    have key : Disk env { s2 with datToWrite := s2.datToWrite + raw.length, nextSeq := s2.nextSeq + 1, queue := s2.queue ++ [{ data := raw, idx := keyOf hash, height := ht, txcount := tx % 2^32, seq := s2.nextSeq }] } sp' (n + 1) := by
      refine addNew_disk env s sp sp' n h (keyOf hash) hnone raw ht tx tr hm hk hex (by rw [w1]) ⟨w2, w3, w4⟩ _ ?_ ?_ ?_ ?_ ?_ ?_
      · intro k'; simp only; rw [g1, e_idx, AL.get_set]
      · simp only; rw [g3, e_fs]
      · simp only; rw [g2, e_q, g6, e_seq]
      · simp only; rw [g6, e_seq]
      · simp only; rw [g7, e_mp]
      · simp only; rw [g8, e_mi]
    have keyi : IdxInv { s2 with datToWrite := s2.datToWrite + raw.length, nextSeq := s2.nextSeq + 1, queue := s2.queue ++ [{ data := raw, idx := keyOf hash, height := ht, txcount := tx % 2^32, seq := s2.nextSeq }] } := by
      refine ⟨by simp only; rw [g3, e_fs]; exact hi.len_mod, by simp only; rw [g5, e_open, g9, e_mx, g3, e_fs]; exact hi.pos, ?_, ?_⟩
      · intro k r p
        simp only; rw [g1, e_idx, g3, e_fs]; simp only [AL.get_set]
        split
        · intro a b; simp only [Option.some.injEq] at a; subst a; cases b
        · exact hi.ipos k r p
      · intro b hb
        simp only [List.mem_append, List.mem_singleton] at hb
        rcases hb with hb | hb
        · rw [g2, e_q] at hb; exact hi.queue b hb
        · subst hb; exact hraw
    split
    · exact flush_disk env _ sp' (n + 1) hn key keyi (by simp only; rw [g5, e_open]; exact ho)
    · exact key
  · rename_i r0 hr0
    obtain ⟨e0, he0⟩ := h.idxspec _ r0 hr0
    have hsp : Disk env s sp' n := by
      refine disk_spec env s sp sp' n h (keyOf hash) hm ?_ (fun _ _ => hex)
      intro e' he' hte
      obtain ⟨h1, h2, h3, h4⟩ := hold e0 he0 e' he'
      exact ⟨e0, he0, by rw [← h1]; exact hte, h2.symm, h3.symm, h4.symm⟩
    refine disk_mono env _ sp' n (n + 1) ?_ (by omega)
    split
    · split
      · rename_i hn0
        exact disk_update env s _ sp' n hsp (keyOf hash) r0 { r0 with trusted := true } hr0 (fun k' => by simp only [AL.get_set])
          rfl rfl rfl rfl rfl rfl rfl rfl rfl rfl rfl rfl (.inl (by simpa using hn0))
      · exact blockTrusted_disk env s sp' n hsp hi hash
    · exact hsp

/-! ### LoadBlockIndex -/

theorem loadLoop_ind (env : Env) (full : Bytes) (P : Nat → LoadAcc → Prop)
    (hstep : ∀ pos a, pos + 136 ≤ full.length → P pos a → P (pos + 136) (loadRecord env a (recAt full pos))) :
    ∀ (fuel pos : Nat) (a : LoadAcc), fuel * 136 > full.length - pos → pos ≤ full.length → (full.length - pos) % 136 = 0 →
      P pos a → P full.length (loadLoop env fuel (full.drop pos) a) := by
  intro fuel
  induction fuel with
  | zero => intro pos a hf; omega
  | succ f ih =>
    intro pos a hf hle hm hp
    unfold loadLoop
    simp only [recsize_eq, List.length_drop]
    by_cases hl : full.length - pos < 136
    · simp only [hl, ↓reduceIte]
      have : pos = full.length := by omega
      rw [← this]; exact hp
    · simp only [hl, ↓reduceIte]
      rw [List.drop_drop]
      exact ih (pos + 136) _ (by omega) (by omega) (by omega) (hstep pos a (by omega) hp)

/-- what one record that is described by `r0` does to the position accumulators -/
theorem loadRecord_valid (env : Env) (a : LoadAcc) (c : Bytes) (r0 : Rec) (hv : isInvalidRec c = false) (hd : Desc c r0)
    (hx : r0.datfileidx ≠ 0xffffffff) :
    (loadRecord env a c).index = AL.set a.index (keyOfRec env c) (recOf c a.maxidxfilepos) ∧
    (loadRecord env a c).maxidxfilepos = a.maxidxfilepos + 136 ∧
    r0.datfileidx ≤ (loadRecord env a c).maxdatfileidx ∧ a.maxdatfileidx ≤ (loadRecord env a c).maxdatfileidx ∧
    (loadRecord env a c).maxdatfileidx ≤ max a.maxdatfileidx r0.datfileidx ∧
    ((loadRecord env a c).maxdatfileidx = a.maxdatfileidx → a.maxdatfilepos ≤ (loadRecord env a c).maxdatfilepos) ∧
    (r0.datfileidx = (loadRecord env a c).maxdatfileidx → r0.fpos + r0.blen ≤ (loadRecord env a c).maxdatfilepos) ∧
    (loadRecord env a c).maxdatfilepos ≤ max a.maxdatfilepos (r0.fpos + r0.blen) := by
  have hv' : hasFlag (c.getD 0 0).toNat BLOCK_INVALID = false := hv
  have f1 : hasFlag (c.getD 0 0).toNat BLOCK_LENGTH = true := hd.fl_len
  have f2 : hasFlag (c.getD 0 0).toNat BLOCK_INDEX = true := hd.fl_idx
  have o := hd.olen
  unfold loadRecord
  simp only [hv', f1, f2, Bool.false_eq_true, ↓reduceIte, recsize_eq, hd.fpos, hd.blen, hd.dfi]
  refine ⟨by simp only [recOf, keyOfRec, flagAt, f1, f2, ↓reduceIte, hd.fpos, hd.blen, hd.dfi], trivial, ?_⟩
  by_cases hb : r0.datfileidx > a.maxdatfileidx
  · have : (0 < field c 32 36 ∧ r0.datfileidx ≠ 0xffffffff ∧ r0.datfileidx > a.maxdatfileidx) := ⟨o, hx, hb⟩
    simp only [this, ne_eq, not_false_eq_true, and_self, and_true, true_and, decide_true, ↓reduceIte]
    refine ⟨by omega, by omega, by omega, by omega, ?_, ?_⟩
    · intro _; split <;> omega
    · split <;> omega
  · have : ¬ (0 < field c 32 36 ∧ r0.datfileidx ≠ 0xffffffff ∧ r0.datfileidx > a.maxdatfileidx) := fun x => hb x.2.2
    simp only [hb, and_false, decide_false, Bool.false_eq_true, ↓reduceIte]
    refine ⟨by omega, by omega, by omega, ?_, ?_, ?_⟩
    · intro _; split <;> omega
    · intro _; split <;> omega
    · split <;> omega

theorem loadRecord_invalid (env : Env) (hadv : env.advInvalid = true) (a : LoadAcc) (c : Bytes) (hv : isInvalidRec c = true) :
    loadRecord env a c = { bumpInvalid a (c.getD 0 0).toNat c with
      maxidxfilepos := (bumpInvalid a (c.getD 0 0).toNat c).maxidxfilepos + 136 } := by
  have hv' : hasFlag (c.getD 0 0).toNat BLOCK_INVALID = true := hv
  unfold loadRecord
  simp only [hv', ↓reduceIte, hadv, recsize_eq]

/-- the loop invariant of LoadBlockIndex over the index file left by a state `s` that satisfies `Disk` -/
structure LInv (s : State) (n : Nat) (pos : Nat) (a : LoadAcc) : Prop where
  mip : a.maxidxfilepos = pos
  pm : pos % 136 = 0
  l1 : ∀ k r, AL.get a.index k = some r → ∃ r0 p, p < pos ∧ AL.get s.index k = some r0 ∧ r0.ipos = some p ∧
    isInvalidRec (recAt s.fs.idx p) = false ∧ r = recOf (recAt s.fs.idx p) p
  l2 : ∀ k r0 p, AL.get s.index k = some r0 → r0.ipos = some p → p < pos → isInvalidRec (recAt s.fs.idx p) = false →
    AL.get a.index k = some (recOf (recAt s.fs.idx p) p)
  l3 : ∀ k r, AL.get a.index k = some r →
    r.datfileidx ≤ a.maxdatfileidx ∧ (r.datfileidx = a.maxdatfileidx → r.fpos + r.blen ≤ a.maxdatfilepos)
  l4 : a.maxdatfileidx ≤ n ∧ a.maxdatfilepos ≤ 2^32 * n

theorem linv_step (env : Env) (hadv : env.advInvalid = true) (s : State) (sp : Spec) (n : Nat) (hD : Disk env s sp n)
    (hI : IdxInv s) (hn : n < 2^31) (pos : Nat) (a : LoadAcc) (hpos : pos + 136 ≤ s.fs.idx.length) (h : LInv s n pos a) :
    LInv s n (pos + 136) (loadRecord env a (recAt s.fs.idx pos)) := by
  have hpm := h.pm
  cases hv : isInvalidRec (recAt s.fs.idx pos) with
  | true =>
    rw [loadRecord_invalid env hadv a _ hv]
    obtain ⟨b1, b2, _, b4, b5, b6, b7⟩ := bumpInvalid_fields a ((recAt s.fs.idx pos).getD 0 0).toNat (recAt s.fs.idx pos)
    have hfield := hD.allidx pos hpm hpos
    refine ⟨by simp only; rw [b2, h.mip], by omega, ?_, ?_, ?_, ?_⟩
    · intro k r hh
      simp only [b1] at hh
      obtain ⟨r0, p, a1, a2⟩ := h.l1 k r hh
      exact ⟨r0, p, by omega, a2⟩
    · intro k r0 p h1 h2 h3 h4
      simp only [b1]
      have pm := (hI.ipos k r0 p h1 h2).2
      by_cases e : p = pos
      · subst e; rw [hv] at h4; cases h4
      · exact h.l2 k r0 p h1 h2 (by omega) h4
    · intro k r hh
      simp only [b1] at hh
      obtain ⟨c1, c2⟩ := h.l3 k r hh
      simp only
      refine ⟨by omega, ?_⟩
      intro e
      have e' : (bumpInvalid a ((recAt s.fs.idx pos).getD 0 0).toNat (recAt s.fs.idx pos)).maxdatfileidx = a.maxdatfileidx := by omega
      rw [b5 e']; exact c2 (by omega)
    · obtain ⟨c1, c2⟩ := h.l4
      simp only
      constructor
      · have : max a.maxdatfileidx (field (recAt s.fs.idx pos) 28 32) ≤ n := Nat.max_le.mpr ⟨c1, hfield⟩
        omega
      · omega
  | false =>
    obtain ⟨r0, hr0, hp0⟩ := hD.disk pos hpm hpos hv
    obtain ⟨mk, md⟩ := hD.mem _ r0 pos hr0 hp0
    obtain ⟨b1, b2, b3⟩ := hD.recb _ r0 pos hr0 hp0
    obtain ⟨e1, e2, e3, e4, e5, e6, e7, e8⟩ := loadRecord_valid env a _ r0 hv md (by omega)
    obtain ⟨q1, q2, q3, _⟩ := recOf_fields _ r0 pos md
    refine ⟨by rw [e2, h.mip], by omega, ?_, ?_, ?_, ?_⟩
    · intro k r hh
      rw [e1, AL.get_set, h.mip] at hh
      split at hh
      · rename_i e; subst e
        simp only [Option.some.injEq] at hh
        exact ⟨r0, pos, by omega, hr0, hp0, hv, hh.symm⟩
      · obtain ⟨r0', p, a1, a2⟩ := h.l1 k r hh
        exact ⟨r0', p, by omega, a2⟩
    · intro k r0' p h1 h2 h3 h4
      rw [e1, AL.get_set, h.mip]
      have pm := (hI.ipos k r0' p h1 h2).2
      by_cases e : p = pos
      · subst e
        have : keyOfRec env (recAt s.fs.idx p) = k := (hD.mem k r0' p h1 h2).1
        rw [if_pos this]
      · have hne : ¬ keyOfRec env (recAt s.fs.idx pos) = k := by
          intro ek
          rw [ek, h1] at hr0; simp only [Option.some.injEq] at hr0; subst hr0
          rw [h2] at hp0; simp only [Option.some.injEq] at hp0; exact e hp0
        rw [if_neg hne]
        exact h.l2 k r0' p h1 h2 (by omega) h4
    · intro k r hh
      rw [e1, AL.get_set, h.mip] at hh
      split at hh
      · simp only [Option.some.injEq] at hh; subst hh
        rw [q1, q2, q3]
        exact ⟨e3, e7⟩
      · obtain ⟨c1, c2⟩ := h.l3 k r hh
        refine ⟨by omega, ?_⟩
        intro e
        have : (loadRecord env a (recAt s.fs.idx pos)).maxdatfileidx = a.maxdatfileidx := by omega
        have := e6 this
        have := c2 (by omega)
        omega
    · obtain ⟨c1, c2⟩ := h.l4
      constructor
      · have : max a.maxdatfileidx r0.datfileidx ≤ n := Nat.max_le.mpr ⟨c1, b3⟩
        omega
      · have : max a.maxdatfilepos (r0.fpos + r0.blen) ≤ 2^32 * n := Nat.max_le.mpr ⟨c2, b1⟩
        omega

theorem load_linv (env : Env) (hadv : env.advInvalid = true) (s : State) (sp : Spec) (n : Nat) (hD : Disk env s sp n)
    (hI : IdxInv s) (hn : n < 2^31) :
    LInv s n s.fs.idx.length (loadLoop env (s.fs.idx.length / RECSIZE + 1) s.fs.idx {}) := by
  have h0 : LInv s n 0 {} := by
    refine ⟨rfl, rfl, ?_, ?_, ?_, ⟨Nat.zero_le _, Nat.zero_le _⟩⟩
    · intro k r hh; simp [AL.get] at hh
    · intro k r0 p _ _ h3; omega
    · intro k r hh; simp [AL.get] at hh
  have hm := hI.len_mod
  have := loadLoop_ind env s.fs.idx (LInv s n) (fun pos a hp h => linv_step env hadv s sp n hD hI hn pos a hp h)
    (s.fs.idx.length / RECSIZE + 1) 0 {} (by simp only [recsize_eq]; omega) (Nat.zero_le _) (by omega) h0
  simpa using this

end GocoinV.BlockDB
