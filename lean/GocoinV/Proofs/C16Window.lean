/-
  Proofs.C16Window — the retention POLICY: the ghost list `FS.lost` (the data-file numbers for which `store_refines_map`
  makes no claim) is bounded by the configured `DataFilesKeep`. A number enters the list only in a session with
  `keep ≠ 0`, `backup = false`, and only when it is below `maxdatfileidx − keep` of that moment (`OutsideWindow`), at a
  roll-over of `writeOne` or in the clean-up at the end of LoadBlockIndex. Nothing else writes the list: the O_CREATE of
  LoadBlockIndex no longer shadows a backup (`Gen.BlockDBFacts.restoresBackup`, regenerated from the source).
-/
import GocoinV.Proofs.C16Retain
import GocoinV.Proofs.C16Refine
namespace GocoinV.BlockDB

/-- data-file number `i` is outside the retention window configured in state `s`: retention is on, removed files are not
    backed up, and `i < maxdatfileidx − keep` -/
def OutsideWindow (s : State) (i : Nat) : Prop :=
  s.opts.keep ≠ 0 ∧ s.opts.backup = false ∧ i + s.opts.keep < s.maxdatfileidx

/-- from `s` to `s'` within one session: same options, the current file number does not decrease, and every number that is
    lost in `s'` was lost in `s` or is outside the window of `s'` -/
def Grows (s s' : State) : Prop :=
  s'.opts = s.opts ∧ s.maxdatfileidx ≤ s'.maxdatfileidx ∧ ∀ i, i ∈ s'.fs.lost → i ∈ s.fs.lost ∨ OutsideWindow s' i

theorem Grows.refl (s : State) : Grows s s := ⟨rfl, Nat.le_refl _, fun _ h => .inl h⟩

theorem grows_same (s s' : State) (h1 : s'.fs.lost = s.fs.lost) (h3 : s'.opts = s.opts)
    (h4 : s'.maxdatfileidx = s.maxdatfileidx) : Grows s s' :=
  ⟨h3, by omega, fun i h => .inl (by rw [← h1]; exact h)⟩

theorem Grows.trans {a b c : State} (h1 : Grows a b) (h2 : Grows b c) : Grows a c := by
  obtain ⟨o1, m1, l1⟩ := h1
  obtain ⟨o2, m2, l2⟩ := h2
  refine ⟨by rw [o2, o1], by omega, ?_⟩
  intro i hi
  rcases l2 i hi with h | h
  · rcases l1 i h with h | h
    · exact .inl h
    · right
      unfold OutsideWindow at *
      rw [o2]
      exact ⟨h.1, h.2.1, by omega⟩
  · exact .inr h

theorem removeDatFile_lost (o : Opts) (fs : FS) (j i : Nat) (h : i ∈ (removeDatFile o fs j).lost) :
    i ∈ fs.lost ∨ (i = j ∧ o.backup = false) := by
  unfold removeDatFile at h
  split at h
  · exact .inl h
  · split at h
    · exact .inl h
    · rename_i hb
      simp only [List.mem_cons] at h
      rcases h with h | h
      · exact .inr ⟨h, by simpa using hb⟩
      · exact .inl h

theorem addToCache_grows (s : State) (k : Key) (d : Bytes) : Grows s (addToCache s k d) := by
  obtain ⟨_, _, g3, g4, _, _, _, g8, _⟩ := addToCache_fields s k d
  exact grows_same s _ (by rw [g3]) g4 g8

theorem rollOver_grows (s : State) : Grows s (rollOver s) := by
  unfold rollOver
  refine ⟨rfl, by simp only; omega, ?_⟩
  intro i hi
  simp only at hi
  split at hi
  · rename_i hk
    rcases removeDatFile_lost _ _ _ _ hi with h | ⟨h1, h2⟩
    · exact .inl h
    · right
      unfold OutsideWindow
      simp only
      exact ⟨hk.1, h2, by omega⟩
  · exact .inl hi

theorem maybeRoll_grows (s : State) (n : Nat) : Grows s (maybeRoll s n) := by
  unfold maybeRoll
  split
  · exact rollOver_grows s
  · exact Grows.refl s

theorem writeRecord_grows (s : State) (b : B2W) (r0 : Rec) (cbts : Bytes) : Grows s (writeRecord s b r0 cbts) := by
  unfold writeRecord
  exact Grows.refl s

theorem writeOne_grows (env : Env) (s s' : State) (hw : writeOne env s = some s') : Grows s s' := by
  unfold writeOne at hw
  split at hw
  · cases hw
  · simp only at hw
    split at hw
    · cases hw; exact Grows.refl s
    · split at hw
      · cases hw; exact Grows.refl s
      · simp only [Option.some.injEq] at hw
        subst hw
        refine Grows.trans (b := maybeRoll { s with queue := _, datToWrite := _ } _) ?_ (writeRecord_grows _ _ _ _)
        exact maybeRoll_grows _ _

theorem writeAll_grows (env : Env) : ∀ (f : Nat) (s : State), Grows s (writeAll env f s) := by
  intro f
  induction f with
  | zero => intro s; exact Grows.refl s
  | succ f ih =>
    intro s
    unfold writeAll
    split
    · exact Grows.refl s
    · rename_i s' hw
      exact (writeOne_grows env s s' hw).trans (ih s')

theorem flush_grows (env : Env) (s : State) : Grows s (flush env s) := writeAll_grows env _ s

theorem setBlockFlag_grows (s : State) (k : Key) (r0 : Rec) (fl : Nat) : Grows s (setBlockFlag s k r0 fl) := by
  obtain ⟨_, _, _, i3, i4, _, _, _, i8⟩ := setBlockFlag_fields s k r0 fl
  exact grows_same s _ i3.2.2 i4 i8

theorem blockTrusted_grows (s : State) (hash : Bytes) : Grows s (blockTrusted s hash) := by
  unfold blockTrusted
  simp only
  split
  · exact Grows.refl s
  · split
    · exact Grows.refl s
    · exact setBlockFlag_grows s _ _ _

theorem blockAdd_grows (env : Env) (s : State) (hash : Bytes) (ht tx : Nat) (tr : Bool) (raw : Bytes) :
    Grows s (blockAdd env s hash ht tx tr raw) := by
  unfold blockAdd
  simp only
  split
  · have h1 : Grows s (addToCache { s with index := AL.set s.index (keyOf hash) { ipos := none, trusted := tr, olen := raw.length, seq := s.nextSeq } } (keyOf hash) raw) :=
      addToCache_grows _ _ _
    split
    · exact Grows.trans (b := { addToCache { s with index := AL.set s.index (keyOf hash) { ipos := none, trusted := tr, olen := raw.length, seq := s.nextSeq } } (keyOf hash) raw with
          datToWrite := _, nextSeq := _, queue := _ }) h1 (flush_grows env _)
    · exact h1
  · split
    · split
      · exact Grows.refl s
      · exact blockTrusted_grows s hash
    · exact Grows.refl s

theorem blockInvalid_grows (s : State) (hash : Bytes) : Grows s (blockInvalid s hash).1 := by
  unfold blockInvalid
  simp only
  split
  · exact Grows.refl s
  · split
    · exact Grows.refl s
    · split
      · exact Grows.refl s
      · exact setBlockFlag_grows s _ _ _

theorem blockGet_grows (env : Env) (s : State) (hash : Bytes) : Grows s (blockGet env s hash).1 := by
  unfold blockGet
  simp only
  split
  · exact Grows.refl s
  · split
    · exact Grows.refl s
    · split
      · exact Grows.refl s
      · split
        · exact Grows.refl s
        · split
          · exact Grows.refl s
          · split
            · exact Grows.refl s
            · generalize decodeStored env _ _ = ble
              obtain ⟨bl, err⟩ := ble
              simp only
              split <;> exact addToCache_grows _ _ _

theorem blockLength_grows (env : Env) (s : State) (hash : Bytes) (d : Bool) : Grows s (blockLength env s hash d).1 := by
  unfold blockLength
  simp only
  split
  · exact Grows.refl s
  · split
    · exact Grows.refl s
    · split
      · exact Grows.refl s
      · have := blockGet_grows env s hash
        generalize blockGet env s hash = res at this ⊢
        obtain ⟨s', out⟩ := res
        cases out <;> exact this

/-! ### LoadBlockIndex -/

theorem createCur_lost (hfix : Gen.BlockDBFacts.restoresBackup = true) (fs : FS) (m : Nat) :
    (createCur fs m).lost = fs.lost := by
  unfold createCur
  split
  · rfl
  · simp only [hfix, ↓reduceIte]
    split
    · rfl
    · rename_i hn
      simp only [hn, Option.isSome_none, Bool.false_eq_true, ↓reduceIte]

theorem cleanupGo_lost (o : Opts) : ∀ (f idx : Nat) (fs : FS) (i : Nat), 1 ≤ idx → i ∈ (cleanupGo o f idx fs).lost →
    i ∈ fs.lost ∨ (i < idx ∧ o.backup = false) := by
  intro f
  induction f with
  | zero => intro idx fs i _ h; exact .inl h
  | succ f ih =>
    intro idx fs i hidx h
    unfold cleanupGo at h
    simp only at h
    split at h
    · rcases removeDatFile_lost _ _ _ _ h with h | ⟨h1, h2⟩
      · exact .inl h
      · exact .inr ⟨by omega, h2⟩
    · rcases ih (idx - 1) _ i (by omega) h with h | ⟨h1, h2⟩
      · rcases removeDatFile_lost _ _ _ _ h with h | ⟨h1, h2⟩
        · exact .inl h
        · exact .inr ⟨by omega, h2⟩
      · exact .inr ⟨by omega, h2⟩

theorem loadCleanup_lost (o : Opts) (m : Nat) (fs : FS) (i : Nat) (h : i ∈ (loadCleanup o m fs).lost) :
    i ∈ fs.lost ∨ (o.keep ≠ 0 ∧ o.backup = false ∧ i + o.keep < m) := by
  unfold loadCleanup at h
  split at h
  · rename_i hk
    rcases cleanupGo_lost o 3 (m - o.keep) fs i (by omega) h with h | ⟨h1, h2⟩
    · exact .inl h
    · exact .inr ⟨hk.1, h2, by omega⟩
  · exact .inl h

theorem reopen_lost (env : Env) (hfix : Gen.BlockDBFacts.restoresBackup = true) (fs : FS) (o : Opts) (i : Nat)
    (h : i ∈ (reopen env fs o).1.fs.lost) : i ∈ fs.lost ∨ OutsideWindow (reopen env fs o).1 i := by
  rw [reopen_fs] at h
  rcases loadCleanup_lost _ _ _ i h with h | h
  · rw [createCur_lost hfix] at h; exact .inl h
  · right
    unfold OutsideWindow reopen
    exact h

/-- one operation: a number that is lost afterwards was lost before or is outside the window configured in the state after
    the operation -/
theorem step_lost (env : Env) (hfix : Gen.BlockDBFacts.restoresBackup = true) (s : State) (op : Op) (i : Nat)
    (h : i ∈ (step env s op).1.fs.lost) : i ∈ s.fs.lost ∨ OutsideWindow (step env s op).1 i := by
  have key : ∀ s' : State, Grows s s' → i ∈ s'.fs.lost → i ∈ s.fs.lost ∨ OutsideWindow s' i := fun s' g hi => g.2.2 i hi
  unfold step at h ⊢
  cases op with
  | reopen o =>
    simp only at h ⊢
    split at h
    · rename_i ho; simp only [ho, ↓reduceIte]; exact .inl h
    · rename_i ho; simp only [ho, ↓reduceIte] at h ⊢; exact reopen_lost env hfix s.fs o i h
  | add hash ht tx tr raw =>
    simp only at h ⊢
    split
    · rename_i ho; simp only [ho, ↓reduceIte] at h; exact .inl h
    · rename_i ho
      simp only [ho, ↓reduceIte] at h
      split
      · rename_i hl; simp only [hl, ↓reduceIte] at h; exact .inl h
      · rename_i hl; simp only [hl, ↓reduceIte] at h; exact key _ (blockAdd_grows env s hash ht tx tr raw) h
  | get hash =>
    simp only at h ⊢
    split
    · rename_i ho; simp only [ho, ↓reduceIte] at h; exact .inl h
    · rename_i ho; simp only [ho, ↓reduceIte] at h; exact key _ (blockGet_grows env s hash) h
  | length hash d =>
    simp only at h ⊢
    split
    · rename_i ho; simp only [ho, ↓reduceIte] at h; exact .inl h
    · rename_i ho; simp only [ho, ↓reduceIte] at h; exact key _ (blockLength_grows env s hash d) h
  | trusted hash =>
    simp only at h ⊢
    split
    · rename_i ho; simp only [ho, ↓reduceIte] at h; exact .inl h
    · rename_i ho; simp only [ho, ↓reduceIte] at h; exact key _ (blockTrusted_grows s hash) h
  | invalid hash =>
    simp only at h ⊢
    split
    · rename_i ho; simp only [ho, ↓reduceIte] at h; exact .inl h
    · rename_i ho; simp only [ho, ↓reduceIte] at h; exact key _ (blockInvalid_grows s hash) h
  | idle =>
    simp only at h ⊢
    split
    · rename_i ho; simp only [ho, ↓reduceIte] at h; exact .inl h
    · rename_i ho; simp only [ho, ↓reduceIte] at h; exact key _ (flush_grows env s) h
  | close =>
    simp only at h ⊢
    split
    · rename_i ho; simp only [ho, ↓reduceIte] at h; exact .inl h
    · rename_i ho
      simp only [ho, ↓reduceIte] at h
      exact key { flush env s with isOpen := false } (flush_grows env s) h

/-! ### histories -/

theorem run_append (env : Env) : ∀ (a b : List Op) (s : State),
    (run env s (a ++ b)).1 = (run env (run env s a).1 b).1 := by
  intro a
  induction a with
  | nil => intro b s; rfl
  | cons op a ih =>
    intro b s
    simp only [List.cons_append, run]
    exact ih b _

theorem run_snoc (env : Env) (a : List Op) (op : Op) (s : State) :
    (run env s (a ++ [op])).1 = (step env (run env s a).1 op).1 := by
  rw [run_append]; simp only [run]

theorem run_cons_fst (env : Env) (s : State) (op : Op) (ops : List Op) :
    (run env s (op :: ops)).1 = (run env (step env s op).1 ops).1 := by
  simp only [run]

/-- every number in the ghost list after a history was put there by ONE operation of the history, and at that moment it
    was outside the retention window configured for that session -/
theorem run_lost (env : Env) (hfix : Gen.BlockDBFacts.restoresBackup = true) :
    ∀ (ops : List Op) (s0 : State) (i : Nat), i ∈ (run env s0 ops).1.fs.lost → i ∈ s0.fs.lost ∨
      ∃ pre op suf, ops = pre ++ op :: suf ∧ i ∉ (run env s0 pre).1.fs.lost ∧
        i ∈ (run env s0 (pre ++ [op])).1.fs.lost ∧ OutsideWindow (run env s0 (pre ++ [op])).1 i := by
  intro ops
  induction ops with
  | nil => intro s0 i h; exact .inl h
  | cons op ops ih =>
    intro s0 i h
    rw [run_cons_fst] at h
    by_cases hb : i ∈ s0.fs.lost
    · exact .inl hb
    · right
      rcases ih _ i h with h1 | ⟨p, o, sf, e1, e2, e3, e4⟩
      · refine ⟨[], op, ops, rfl, hb, ?_, ?_⟩
        · simp only [List.nil_append, run_cons_fst]; exact h1
        · simp only [List.nil_append, run_cons_fst]
          rcases step_lost env hfix s0 op i h1 with h2 | h2
          · exact absurd h2 hb
          · exact h2
      · refine ⟨op :: p, o, sf, by rw [e1]; rfl, ?_, ?_, ?_⟩
        · rw [run_cons_fst]; exact e2
        · rw [List.cons_append, run_cons_fst]; exact e3
        · rw [List.cons_append, run_cons_fst]; exact e4

end GocoinV.BlockDB
