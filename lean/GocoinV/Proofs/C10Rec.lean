/-
  Proofs.C10Rec — helper lemmas for the record codecs (plain format).
-/
import GocoinV.Model.UtxoRec
namespace GocoinV.UtxoRec
open GocoinV.CompactSize

theorem putULe_ne_nil (n : Nat) : putULe n ≠ [] := by
  unfold putULe; repeat' split
  all_goals simp

theorem vlenSize_pos (n : Nat) : 0 < vlenSize n := by
  unfold vlenSize; repeat' split
  all_goals omega

theorem drop_putULe (n : Nat) (rest : Bytes) : (putULe n ++ rest).drop (vlenSize n) = rest := by
  rw [← putULe_length]; simp

theorem toInt64_small (n : Nat) (h : n < 2 ^ 63) : toInt64 n = (n : Int) := by
  unfold toInt64
  have : n % 2 ^ 64 = n := Nat.mod_eq_of_lt (by omega)
  simp [this, h]

theorem vlen_putULe (n : Nat) (h : n < 2 ^ 63) (rest : Bytes) :
    vlen (putULe n ++ rest) = ((n : Int), vlenSize n) := by
  unfold vlen
  rw [vule_putULe n (by omega) rest]
  simp [toInt64_small n h]

theorem shorter_eq_false {α : Type} (l : List α) (n : Nat) (h : n ≤ l.length) : shorter l n = false :=
  (shorter_false_iff l n).mpr h

/-- one live output is read back by one pass of the decoding loop -/
theorem decOutsU_step (f i v : Nat) (pk rest : Bytes) (acc : List (Option Out))
    (hi : i < 2 ^ 64) (hv : v < 2 ^ 64) (hl : pk.length < 2 ^ 63) (hacc : i < acc.length) :
    decOutsU (f + 1) (putULe i ++ (putULe v ++ (putULe pk.length ++ (pk ++ rest)))) acc
      = decOutsU f rest (acc.set i (some ⟨v, pk⟩)) := by
  rw [decOutsU]
  have hne : (putULe i ++ (putULe v ++ (putULe pk.length ++ (pk ++ rest)))).isEmpty = false := by
    have := putULe_ne_nil i
    cases h : putULe i with
    | nil => exact absurd h this
    | cons a t => simp
  simp only [hne, Bool.false_eq_true, ↓reduceIte, vule_putULe i hi, drop_putULe, vule_putULe v hv,
    vlen_putULe pk.length hl, shorter_eq_false acc (i + 1) (by omega)]
  have h2 : shorter (pk ++ rest) pk.length = false := shorter_eq_false _ _ (by simp)
  have h3 : ¬ ((pk.length : Int) < 0) := by omega
  simp [h2, h3]


/-- well-formedness of one output: what a Go `uint64` / slice length can hold -/
def WFOut (o : Out) : Prop := o.value < 2 ^ 64 ∧ o.pk.length < 2 ^ 63

def WFOuts (outs : List (Option Out)) : Prop := ∀ o ∈ outs, ∀ x, o = some x → WFOut x

theorem decOutsU_nil (f : Nat) (acc : List (Option Out)) : decOutsU f [] acc = .ok acc := by
  cases f <;> simp [decOutsU]

/-- decoding the output section written from index `pre.length` on, into a buffer that already
    holds `pre` and nil for the rest, yields `pre ++ suf` -/
theorem decOutsU_enc (suf : List (Option Out)) : ∀ (pre : List (Option Out)) (fuel : Nat),
    (encOutsU pre.length suf).length ≤ fuel → pre.length + suf.length < 2 ^ 64 → WFOuts suf →
    decOutsU fuel (encOutsU pre.length suf) (pre ++ List.replicate suf.length none) = .ok (pre ++ suf) := by
  induction suf with
  | nil => intro pre fuel _ _ _; simp [encOutsU, decOutsU_nil]
  | cons o t ih =>
    intro pre fuel hf hlen hwf
    have hwt : WFOuts t := fun o ho x hx => hwf o (List.mem_cons_of_mem _ ho) x hx
    cases o with
    | none =>
      have := ih (pre ++ [none]) fuel (by simpa [encOutsU] using hf) (by simp at hlen ⊢; omega) hwt
      simpa [encOutsU, List.replicate_succ] using this
    | some x =>
      obtain ⟨hv, hl⟩ := hwf (some x) (by simp) x rfl
      simp only [encOutsU] at hf ⊢
      cases fuel with
      | zero =>
        have := vlenSize_pos pre.length
        simp [putULe_length] at hf; omega
      | succ f =>
        rw [decOutsU_step f pre.length x.value x.pk _ _ (by simp at hlen; omega) hv hl (by simp)]
        have := ih (pre ++ [some x]) f
          (by simp [putULe_length] at hf ⊢; have := vlenSize_pos pre.length; omega)
          (by simp at hlen ⊢; omega) hwt
        simpa [List.replicate_succ] using this


/-- what the Go types can hold: 32-byte txid, uint32 height, a slice the model allocates, uint64
    amounts, scripts shorter than 2^63 -/
structure WFRec (r : Rec) : Prop where
  txid : r.txid.length = 32
  height : r.inBlock < 2 ^ 32
  count : r.outs.length < 2 ^ 32
  outs : WFOuts r.outs

theorem outcnt_lt (r : Rec) (h : r.outs.length < 2 ^ 32) : outcnt r < 2 ^ 64 := by
  unfold outcnt at *; split <;> omega

theorem outcnt_div (r : Rec) : outcnt r / 2 = r.outs.length := by
  unfold outcnt; split <;> omega

theorem outcnt_mod (r : Rec) : (outcnt r % 2 == 1) = r.coinbase := by
  unfold outcnt; cases r.coinbase <;> simp <;> omega

/-- header of a serialised record (either format) -/
theorem decHeader_ser (r : Rec) (h : WFRec r) (body : Bytes) :
    decHeader (r.txid ++ (putULe r.inBlock ++ (putULe (outcnt r) ++ body)))
      = some (r.txid, r.inBlock, outcnt r, body) := by
  unfold decHeader
  have h32 := h.txid
  have hl : ¬ (r.txid ++ (putULe r.inBlock ++ (putULe (outcnt r) ++ body))).length < 32 := by
    simp; omega
  have hd : (r.txid ++ (putULe r.inBlock ++ (putULe (outcnt r) ++ body))).drop 32
      = putULe r.inBlock ++ (putULe (outcnt r) ++ body) := by
    rw [← h32]; simp
  have ht : (r.txid ++ (putULe r.inBlock ++ (putULe (outcnt r) ++ body))).take 32 = r.txid := by
    rw [← h32]; simp
  simp only [hl, ↓reduceIte, hd, ht, vule_putULe r.inBlock (by have := h.height; omega),
    drop_putULe, vule_putULe (outcnt r) (outcnt_lt r h.count)]

theorem newRecU_serializeU (r : Rec) (h : WFRec r) (b : Bytes) (hs : serializeU r = some b) :
    newRecU b = .ok r := by
  unfold serializeU at hs
  split at hs
  · injection hs with hs; subst hs
    unfold newRecU
    rw [decHeader_ser r h]
    have hc : ¬ (r.outs.length > maxOuts) := by have := h.count; unfold maxOuts; omega
    have hmax : r.outs.length + 0 < 2 ^ 64 := by have := h.count; omega
    have := decOutsU_enc r.outs [] (encOutsU 0 r.outs).length (by simp) (by simpa using hmax) h.outs
    simp only [List.length_nil, List.nil_append] at this
    simp only [outcnt_div, hc, ↓reduceIte, this, outcnt_mod, Nat.mod_eq_of_lt h.height]
  · simp at hs


/-! ### single-output lookup, plain format -/

theorem scanU_nil (vout f : Nat) : scanU vout f [] = .nil := by
  cases f <;> simp [scanU]

theorem scanU_step (vout f i v : Nat) (pk rest : Bytes)
    (hi : i < 2 ^ 32) (hv : v < 2 ^ 64) (hl : pk.length < 2 ^ 63) :
    scanU vout (f + 1) (putULe i ++ (putULe v ++ (putULe pk.length ++ (pk ++ rest))))
      = if i > vout then .nil else if i = vout then .found v pk else scanU vout f rest := by
  rw [scanU]
  have hne : (putULe i ++ (putULe v ++ (putULe pk.length ++ (pk ++ rest)))).isEmpty = false := by
    have := putULe_ne_nil i
    cases h : putULe i with
    | nil => exact absurd h this
    | cons a t => simp
  have h2 : shorter (pk ++ rest) pk.length = false := shorter_eq_false _ _ (by simp)
  have h3 : ¬ ((pk.length : Int) < 0) := by omega
  simp only [hne, Bool.false_eq_true, ↓reduceIte, vule_putULe i (by omega), drop_putULe,
    vule_putULe v hv, vlen_putULe pk.length hl, Nat.mod_eq_of_lt hi]
  simp [h2, h3]

/-- every index written from `i` on is `≥ i`: looking for a smaller one finds nothing -/
theorem scanU_gt (suf : List (Option Out)) : ∀ (i vout fuel : Nat),
    (encOutsU i suf).length ≤ fuel → i + suf.length < 2 ^ 32 → WFOuts suf → vout < i →
    scanU vout fuel (encOutsU i suf) = .nil := by
  induction suf with
  | nil => intro i vout fuel _ _ _ _; simp [encOutsU, scanU_nil]
  | cons o t ih =>
    intro i vout fuel hf hlen hwf hlt
    have hwt : WFOuts t := fun o ho x hx => hwf o (List.mem_cons_of_mem _ ho) x hx
    cases o with
    | none =>
      simp only [encOutsU] at hf ⊢
      exact ih (i + 1) vout fuel hf (by simp at hlen; omega) hwt (by omega)
    | some x =>
      obtain ⟨hv, hl⟩ := hwf (some x) (by simp) x rfl
      simp only [encOutsU] at hf ⊢
      cases fuel with
      | zero => have := vlenSize_pos i; simp [putULe_length] at hf; omega
      | succ f =>
        rw [scanU_step vout f i x.value x.pk _ (by simp at hlen; omega) hv hl]
        simp [hlt]

theorem scanU_enc (suf : List (Option Out)) : ∀ (i vout fuel : Nat),
    (encOutsU i suf).length ≤ fuel → i + suf.length < 2 ^ 32 → WFOuts suf → i ≤ vout →
    scanU vout fuel (encOutsU i suf) =
      match suf.getD (vout - i) none with
      | some o => .found o.value o.pk
      | none => .nil := by
  induction suf with
  | nil => intro i vout fuel _ _ _ _; simp [encOutsU, scanU_nil]
  | cons o t ih =>
    intro i vout fuel hf hlen hwf hle
    have hwt : WFOuts t := fun o ho x hx => hwf o (List.mem_cons_of_mem _ ho) x hx
    by_cases heq : vout = i
    · subst heq
      cases o with
      | none =>
        simp only [encOutsU] at hf ⊢
        rw [scanU_gt t (vout + 1) vout fuel hf (by simp at hlen; omega) hwt (by omega)]
        simp
      | some x =>
        obtain ⟨hv, hl⟩ := hwf (some x) (by simp) x rfl
        simp only [encOutsU] at hf ⊢
        cases fuel with
        | zero => have := vlenSize_pos vout; simp [putULe_length] at hf; omega
        | succ f =>
          rw [scanU_step vout f vout x.value x.pk _ (by simp at hlen; omega) hv hl]
          simp
    · have hlt : i < vout := by omega
      have hsub : vout - i = (vout - (i + 1)) + 1 := by omega
      cases o with
      | none =>
        simp only [encOutsU] at hf ⊢
        rw [ih (i + 1) vout fuel hf (by simp at hlen; omega) hwt (by omega), hsub]
        simp
      | some x =>
        obtain ⟨hv, hl⟩ := hwf (some x) (by simp) x rfl
        simp only [encOutsU] at hf ⊢
        cases fuel with
        | zero => have := vlenSize_pos i; simp [putULe_length] at hf; omega
        | succ f =>
          rw [scanU_step vout f i x.value x.pk _ (by simp at hlen; omega) hv hl]
          have h1 : ¬ i > vout := by omega
          have h2 : ¬ i = vout := by omega
          simp only [h1, h2, ↓reduceIte]
          rw [ih (i + 1) vout f
            (by simp [putULe_length] at hf ⊢; have := vlenSize_pos i; omega)
            (by simp at hlen; omega) hwt (by omega), hsub]
          simp

theorem oneU_serializeU (r : Rec) (h : WFRec r) (b : Bytes) (hs : serializeU r = some b)
    (vout : Nat) : oneU b vout = .ok (outOf r vout) := by
  unfold serializeU at hs
  split at hs
  · injection hs with hs; subst hs
    unfold oneU
    rw [decHeader_ser r h]
    have hcnt := h.count
    simp only [outcnt_div, Nat.mod_eq_of_lt hcnt, outcnt_mod, Nat.mod_eq_of_lt h.height]
    by_cases hv : r.outs.length ≤ vout
    · simp only [hv, ↓reduceIte, outOf]
      simp [List.getD, List.getElem?_eq_none hv]
    · simp only [hv, ↓reduceIte]
      rw [scanU_enc r.outs 0 vout _ (Nat.le_refl _) (by omega) h.outs (Nat.zero_le _)]
      simp only [Nat.sub_zero, outOf]
      cases r.outs.getD vout none <;> simp
  · simp at hs

end GocoinV.UtxoRec
