/-
  Proofs.C08_Sqr — `Field.Sqr` of the GENERATED limb code (Gen.Field5x52.sqr): same method as C08_Mul
  (128-bit accumulator intervals step by step, then value(r) + K·p = value(a)²).
-/
import GocoinV.Proofs.C08_Mul
set_option linter.unusedVariables false
namespace GocoinV.C08
open GocoinV.Gen.Field5x52

theorem dbl_le {x B : Nat} (h : x ≤ B) : x * 2 % 18446744073709551616 ≤ B * 2 :=
  Nat.le_trans (Nat.mod_le _ _) (Nat.mul_le_mul_right 2 h)

theorem dbl_eq {x : Nat} (h : x ≤ 72057594037927920) : x * 2 % 18446744073709551616 = x * 2 := by omega
theorem dbl_eq4 {x : Nat} (h : x ≤ 4503599627370480) : x * 2 % 18446744073709551616 = x * 2 := by omega

set_option exponentiation.threshold 600 in
theorem val_sqr_expand (a0 a1 a2 a3 a4 : Nat) :
    (a0 + a1 * 2^52 + a2 * 2^104 + a3 * 2^156 + a4 * 2^208) * (a0 + a1 * 2^52 + a2 * 2^104 + a3 * 2^156 + a4 * 2^208)
    = a0 * a0 + (a0 * 2 * a1) * 2^52 + (a0 * 2 * a2 + a1 * a1) * 2^104
      + (a0 * 2 * a3 + a1 * 2 * a2) * 2^156
      + (a0 * (a4 * 2) + a1 * 2 * a3 + a2 * a2) * 2^208 + (a1 * (a4 * 2) + a2 * 2 * a3) * 2^260
      + (a2 * (a4 * 2) + a3 * a3) * 2^312 + (a3 * (a4 * 2)) * 2^364 + a4 * a4 * 2^416 := by
  ring

theorem sqr_algebra (q00 q01 q02 q11 q03 q12 q04 q13 q22 q14 q23 q24 q33 q34 q44 : Nat)
    (chi2 clo2 VD4 t3 VD9 t4f tx t4 VD12 u0 u3 VC4 r0 VD15 v VC7 r1 VD17 dlo17 dhi17 VC11 r2 VC14 r3 c15 r4 : Nat)
    (hC2 : chi2 * 18446744073709551616 + clo2 = q44)
    (hVD4 : VD4 = q03 + q12 + clo2 * 68719492368)
    (ht3 : t3 = VD4 % 4503599627370496)
    (hVD9 : VD9 = VD4 / 4503599627370496 + q04 + q13 + q22 + 281475040739328 * chi2)
    (ht4f : t4f = VD9 % 4503599627370496)
    (htx : tx = t4f / 281474976710656) (ht4 : t4 = t4f % 281474976710656)
    (hVD12 : VD12 = VD9 / 4503599627370496 + q14 + q23)
    (hu0 : u0 = VD12 % 4503599627370496) (hu3 : u3 = u0 * 16 + tx)
    (hVC4 : VC4 = q00 + u3 * 4294968273) (hr0 : r0 = VC4 % 4503599627370496)
    (hVD15 : VD15 = VD12 / 4503599627370496 + q24 + q33)
    (hv : v = VD15 % 4503599627370496)
    (hVC7 : VC7 = VC4 / 4503599627370496 + q01 + v * 68719492368)
    (hr1 : r1 = VC7 % 4503599627370496)
    (hVD17 : VD17 = VD15 / 4503599627370496 + q34)
    (hdlo : dlo17 = VD17 % 18446744073709551616) (hdhi : dhi17 = VD17 / 18446744073709551616)
    (hVC11 : VC11 = VC7 / 4503599627370496 + q02 + q11 + 68719492368 * dlo17)
    (hr2 : r2 = VC11 % 4503599627370496)
    (hVC14 : VC14 = VC11 / 4503599627370496 + 281475040739328 * dhi17 + t3)
    (hr3 : r3 = VC14 % 4503599627370496)
    (hc15 : c15 = VC14 / 4503599627370496) (hr4 : r4 = c15 + t4) :
    r0 + r1 * 2^52 + r2 * 2^104 + r3 * 2^156 + r4 * 2^208
      + (16 * ((q14 + q23) + (q24 + q33) * 2^52 + q34 * 2^104 + q44 * 2^156
          + VD9 / 4503599627370496) + tx)
        * 115792089237316195423570985008687907853269984665640564039457584007908834671663
    = q00 + q01 * 2^52 + (q02 + q11) * 2^104 + (q03 + q12) * 2^156
      + (q04 + q13 + q22) * 2^208 + (q14 + q23) * 2^260
      + (q24 + q33) * 2^312 + q34 * 2^364 + q44 * 2^416 := by
  omega

theorem sqr_core (a : Fe) (ha : a.mag 8) :
    (∃ K, (sqr a).val + K * P = a.val * a.val) ∧ (sqr a).mag 1 := by
  obtain ⟨ha0, ha1, ha2, ha3, ha4⟩ := mag8_bounds a ha
  unfold sqr
  extract_lets a0_1 a1_1 a2_1 a3_1 a4_1 c_lo_1 d_hi_2 d_lo_2 hi_2 lo_2 d_lo_3 carry_2 d_hi_3 c_hi_2 c_lo_2 hi_3 lo_3 d_lo_4 carry_3 d_hi_4 t3_2 d_lo_5 d_hi_5 a4_2 hi_4 lo_4 d_lo_6 carry_4 d_hi_6 hi_5 lo_5 d_lo_7 carry_5 d_hi_7 hi_6 lo_6 d_lo_8 carry_6 d_hi_8 hi_7 lo_7 d_lo_9 carry_7 d_hi_9 t4_2 d_lo_10 d_hi_10 tx_2 t4_3 c_hi_3 c_lo_3 hi_8 lo_8 d_lo_11 carry_8 d_hi_11 hi_9 lo_9 d_lo_12 carry_9 d_hi_12 u0_2 d_lo_13 d_hi_13 u0_3 hi_10 lo_10 c_lo_4 carry_10 c_hi_4 r_n0_1 c_lo_5 c_hi_5 a0_2 hi_11 lo_11 c_lo_6 carry_11 c_hi_6 hi_12 lo_12 d_lo_14 carry_12 d_hi_14 hi_13 lo_13 d_lo_15 carry_13 d_hi_15 hi_14 lo_14 c_lo_7 carry_14 c_hi_7 d_lo_16 d_hi_16 r_n1_1 c_lo_8 c_hi_8 hi_15 lo_15 c_lo_9 carry_15 c_hi_9 hi_16 lo_16 c_lo_10 carry_16 c_hi_10 hi_17 lo_17 d_lo_17 carry_17 d_hi_17 hi_18 lo_18 c_lo_11 carry_18 c_hi_11 d_lo_18 r_n2_1 c_lo_12 c_hi_12 hi_19 lo_19 c_lo_13 carry_19 c_hi_13 c_lo_14 carry_20 c_hi_14 r_n3_1 c_lo_15 c_hi_15 r_n4_1
  have D2 := St.init ((a.n0 * 2 % 18446744073709551616) * a.n3) d_lo_2 d_hi_2 rfl rfl (Nat.mul_le_mul (dbl_le ha0) ha3)
  have D3 := D2.acc ((a.n1 * 2 % 18446744073709551616) * a.n2) lo_2 hi_2 d_lo_3 carry_2 d_hi_3 rfl rfl rfl rfl rfl (Nat.mul_le_mul (dbl_le ha1) ha2) (by decide)
  have C2 := St.init (a.n4 * a.n4) c_lo_2 c_hi_2 rfl rfl (Nat.mul_le_mul ha4 ha4)
  have D4 := D3.acc (c_lo_2 * 68719492368) lo_3 hi_3 d_lo_4 carry_3 d_hi_4 rfl rfl rfl rfl rfl (lt_mul_c _ C2.2.2) (by decide)
  obtain ⟨VD4, hVD4, D4⟩ : ∃ V, V = _ ∧ St d_hi_4 d_lo_4 V _ := ⟨_, rfl, D4⟩
  have ht3 : t3_2 = VD4 % 4503599627370496 := D4.lo52
  have D5 := D4.shr d_lo_5 d_hi_5 rfl rfl
  have D6 := D5.acc (a.n0 * (a.n4 * 2 % 18446744073709551616)) lo_4 hi_4 d_lo_6 carry_4 d_hi_6 rfl rfl rfl rfl rfl (Nat.mul_le_mul ha0 (dbl_le ha4)) (by decide)
  have D7 := D6.acc ((a.n1 * 2 % 18446744073709551616) * a.n3) lo_5 hi_5 d_lo_7 carry_5 d_hi_7 rfl rfl rfl rfl rfl (Nat.mul_le_mul (dbl_le ha1) ha3) (by decide)
  have D8 := D7.acc (a.n2 * a.n2) lo_6 hi_6 d_lo_8 carry_6 d_hi_8 rfl rfl rfl rfl rfl (Nat.mul_le_mul ha2 ha2) (by decide)
  have D9 := D8.acc (281475040739328 * c_hi_2) lo_7 hi_7 d_lo_9 carry_7 d_hi_9 rfl rfl rfl rfl rfl (Nat.mul_le_mul_left _ C2.hi.2) (by decide)
  obtain ⟨VD9, hVD9, D9⟩ : ∃ V, V = _ ∧ St d_hi_9 d_lo_9 V _ := ⟨_, rfl, D9⟩
  have ht4 : t4_2 = VD9 % 4503599627370496 := D9.lo52
  have D10 := D9.shr d_lo_10 d_hi_10 rfl rfl
  have C3 := St.init (a.n0 * a.n0) c_lo_3 c_hi_3 rfl rfl (Nat.mul_le_mul ha0 ha0)
  have D11 := D10.acc (a.n1 * (a.n4 * 2 % 18446744073709551616)) lo_8 hi_8 d_lo_11 carry_8 d_hi_11 rfl rfl rfl rfl rfl (Nat.mul_le_mul ha1 (dbl_le ha4)) (by decide)
  have D12 := D11.acc ((a.n2 * 2 % 18446744073709551616) * a.n3) lo_9 hi_9 d_lo_12 carry_9 d_hi_12 rfl rfl rfl rfl rfl (Nat.mul_le_mul (dbl_le ha2) ha3) (by decide)
  obtain ⟨VD12, hVD12, D12⟩ : ∃ V, V = _ ∧ St d_hi_12 d_lo_12 V _ := ⟨_, rfl, D12⟩
  have hu0 : u0_2 = VD12 % 4503599627370496 := D12.lo52
  have D13 := D12.shr d_lo_13 d_hi_13 rfl rfl
  have hu3 := u0_3_eq u0_2 tx_2 t4_2 u0_3 rfl rfl (ht4 ▸ Nat.mod_lt _ (by decide)) (hu0 ▸ Nat.mod_lt _ (by decide))
  have C4 := C3.acc (u0_3 * 4294968273) lo_10 hi_10 c_lo_4 carry_10 c_hi_4 rfl rfl rfl rfl rfl (Nat.mul_le_mul_right _ hu3.2.1) (by decide)
  obtain ⟨VC4, hVC4, C4⟩ : ∃ V, V = _ ∧ St c_hi_4 c_lo_4 V _ := ⟨_, rfl, C4⟩
  have hr0 : r_n0_1 = VC4 % 4503599627370496 := C4.lo52
  have C5 := C4.shr c_lo_5 c_hi_5 rfl rfl
  have C6 := C5.acc ((a.n0 * 2 % 18446744073709551616) * a.n1) lo_11 hi_11 c_lo_6 carry_11 c_hi_6 rfl rfl rfl rfl rfl (Nat.mul_le_mul (dbl_le ha0) ha1) (by decide)
  have D14 := D13.acc (a.n2 * (a.n4 * 2 % 18446744073709551616)) lo_12 hi_12 d_lo_14 carry_12 d_hi_14 rfl rfl rfl rfl rfl (Nat.mul_le_mul ha2 (dbl_le ha4)) (by decide)
  have D15 := D14.acc (a.n3 * a.n3) lo_13 hi_13 d_lo_15 carry_13 d_hi_15 rfl rfl rfl rfl rfl (Nat.mul_le_mul ha3 ha3) (by decide)
  obtain ⟨VD15, hVD15, D15⟩ : ∃ V, V = _ ∧ St d_hi_15 d_lo_15 V _ := ⟨_, rfl, D15⟩
  have C7 := C6.acc ((d_lo_15 &&& 4503599627370495) * 68719492368) lo_14 hi_14 c_lo_7 carry_14 c_hi_7 rfl rfl rfl rfl rfl (Nat.mul_le_mul_right _ (and_M52_le _)) (by decide)
  have hv : d_lo_15 &&& 4503599627370495 = VD15 % 4503599627370496 := D15.lo52
  have D16 := D15.shr d_lo_16 d_hi_16 rfl rfl
  obtain ⟨VC7, hVC7, C7⟩ : ∃ V, V = _ ∧ St c_hi_7 c_lo_7 V _ := ⟨_, rfl, C7⟩
  have hr1 : r_n1_1 = VC7 % 4503599627370496 := C7.lo52
  have C8 := C7.shr c_lo_8 c_hi_8 rfl rfl
  have C9 := C8.acc ((a.n0 * 2 % 18446744073709551616) * a.n2) lo_15 hi_15 c_lo_9 carry_15 c_hi_9 rfl rfl rfl rfl rfl (Nat.mul_le_mul (dbl_le ha0) ha2) (by decide)
  have C10 := C9.acc (a.n1 * a.n1) lo_16 hi_16 c_lo_10 carry_16 c_hi_10 rfl rfl rfl rfl rfl (Nat.mul_le_mul ha1 ha1) (by decide)
  have D17 := D16.acc (a.n3 * (a.n4 * 2 % 18446744073709551616)) lo_17 hi_17 d_lo_17 carry_17 d_hi_17 rfl rfl rfl rfl rfl (Nat.mul_le_mul ha3 (dbl_le ha4)) (by decide)
  obtain ⟨VD17, hVD17, D17⟩ : ∃ V, V = _ ∧ St d_hi_17 d_lo_17 V _ := ⟨_, rfl, D17⟩
  have C11 := C10.acc (68719492368 * d_lo_17) lo_18 hi_18 c_lo_11 carry_18 c_hi_11 rfl rfl rfl rfl rfl (Nat.mul_le_mul_left _ (Nat.le_of_lt_succ (Nat.succ_le_of_lt D17.2.2))) (by decide)
  obtain ⟨VC11, hVC11, C11⟩ : ∃ V, V = _ ∧ St c_hi_11 c_lo_11 V _ := ⟨_, rfl, C11⟩
  have hr2 : r_n2_1 = VC11 % 4503599627370496 := C11.lo52
  have C12 := C11.shr c_lo_12 c_hi_12 rfl rfl
  have C13 := C12.acc (281475040739328 * d_lo_18) lo_19 hi_19 c_lo_13 carry_19 c_hi_13 rfl rfl rfl rfl rfl (Nat.mul_le_mul_left _ D17.hi.2) (by decide)
  have C14 := C13.acc64 t3_2 c_lo_14 carry_20 c_hi_14 rfl rfl rfl (Nat.le_of_lt_succ (ht3 ▸ Nat.mod_lt _ (by decide))) (by decide) (by decide)
  obtain ⟨VC14, hVC14, C14⟩ : ∃ V, V = _ ∧ St c_hi_14 c_lo_14 V _ := ⟨_, rfl, C14⟩
  have hr3 : r_n3_1 = VC14 % 4503599627370496 := C14.lo52
  have C15 := C14.shr c_lo_15 c_hi_15 rfl rfl
  have C15s := C15.small (by decide)
  have h4 := r4_bound c_lo_15 t4_2 t4_3 r_n4_1 _ (C15s.2 ▸ C15.le) (by decide) rfl rfl
  have hd18 : d_lo_18 = VD17 / 18446744073709551616 := D17.hi.1
  rw [hv] at hVC7
  rw [dbl_eq ha0, dbl_eq ha1] at hVD4
  rw [dbl_eq4 ha4, dbl_eq ha1] at hVD9
  rw [dbl_eq4 ha4, dbl_eq ha2] at hVD12
  rw [dbl_eq4 ha4] at hVD15 hVD17
  rw [dbl_eq ha0] at hVC7 hVC11
  have key := sqr_algebra (a.n0 * a.n0) (a.n0 * 2 * a.n1) (a.n0 * 2 * a.n2) (a.n1 * a.n1) (a.n0 * 2 * a.n3) (a.n1 * 2 * a.n2)
    (a.n0 * (a.n4 * 2)) (a.n1 * 2 * a.n3) (a.n2 * a.n2) (a.n1 * (a.n4 * 2)) (a.n2 * 2 * a.n3)
    (a.n2 * (a.n4 * 2)) (a.n3 * a.n3) (a.n3 * (a.n4 * 2)) (a.n4 * a.n4)
    c_hi_2 c_lo_2 VD4 t3_2 VD9 t4_2 tx_2 (t4_2 % 281474976710656) VD12 u0_2 u0_3 VC4 r_n0_1 VD15
    (VD15 % 4503599627370496) VC7 r_n1_1 VD17 d_lo_17 d_lo_18 VC11 r_n2_1 VC14 r_n3_1 c_lo_15 r_n4_1
    C2.1 hVD4 ht3 hVD9 ht4 hu3.2.2 rfl hVD12 hu0 hu3.1 hVC4 hr0 hVD15 rfl hVC7 hr1 hVD17 D17.lo hd18
    hVC11 hr2 hVC14 hr3 C15s.2 h4.1
  refine ⟨⟨(16 * ((a.n1 * (a.n4 * 2) + a.n2 * 2 * a.n3) + (a.n2 * (a.n4 * 2) + a.n3 * a.n3) * 2^52
      + (a.n3 * (a.n4 * 2)) * 2^104 + a.n4 * a.n4 * 2^156 + VD9 / 4503599627370496) + tx_2), ?_⟩, ?_⟩
  · rw [P_eq]
    show r_n0_1 + r_n1_1 * 2^52 + r_n2_1 * 2^104 + r_n3_1 * 2^156 + r_n4_1 * 2^208 + _ * _ = a.val * a.val
    unfold Fe.val
    rw [val_sqr_expand]
    exact key
  · unfold Fe.mag
    have e0 : r_n0_1 < 4503599627370496 := hr0 ▸ Nat.mod_lt _ (by decide)
    have e1 : r_n1_1 < 4503599627370496 := hr1 ▸ Nat.mod_lt _ (by decide)
    have e2 : r_n2_1 < 4503599627370496 := hr2 ▸ Nat.mod_lt _ (by decide)
    have e3 : r_n3_1 < 4503599627370496 := hr3 ▸ Nat.mod_lt _ (by decide)
    exact ⟨mag1_of_lt e0, mag1_of_lt e1, mag1_of_lt e2, mag1_of_lt e3, h4.2⟩

theorem sqr_val (a : Fe) (ha : a.mag 8) :
    (sqr a).val % P = a.val * a.val % P ∧ (sqr a).mag 1 := by
  obtain ⟨⟨K, hK⟩, hm⟩ := sqr_core a ha
  exact ⟨by rw [← hK, Nat.add_mul_mod_self_right], hm⟩
end GocoinV.C08
