/-
  Proofs.C08_Ecmult — `XYZ.ECmult`: none of the four wNAF digit arrays can overrun its 129 slots
  (from `wnaf_ok` and `splitExp_bound`).
-/
import GocoinV.Proofs.C08_Wnaf
import GocoinV.Proofs.C08_Scalar
namespace GocoinV.C08
open GocoinV.Gen

/-- `XYZ.ECmult` never overruns a wNAF array (the model's `none`): for EVERY point, EVERY integer na and every
    ng < 2^256 all four digit arrays fit their 129 slots -/
theorem ecmult_isSome (a : XYZ) (na : Int) (ng : Nat) (hng : ng < 2 ^ 256) : (ecmult a na ng).isSome = true := by
  obtain ⟨b1, b2, b3, b4⟩ := splitExp_bound na
  have e128 : (2 : Int) ^ 128 = 340282366920938463463374607431768211456 := by norm_num
  have hg1 : ng % 2 ^ 128 < 2 ^ 128 := Nat.mod_lt _ (by positivity)
  have hg2 : ng / 2 ^ 128 < 2 ^ 128 := by
    rw [Nat.div_lt_iff_lt_mul (by positivity)]
    calc ng < 2 ^ 256 := hng
      _ = 2 ^ 128 * 2 ^ 128 := by norm_num
  obtain ⟨d1, h1, -⟩ := wnaf_ok (splitExp na).1 CurveConsts.windowa (by decide) (by rw [e128]; omega) (by rw [e128]; omega)
  obtain ⟨d2, h2, -⟩ := wnaf_ok (splitExp na).2 CurveConsts.windowa (by decide) (by rw [e128]; omega) (by rw [e128]; omega)
  obtain ⟨d3, h3, -⟩ := wnaf_ok ((ng % 2 ^ 128 : Nat) : Int) CurveConsts.windowg (by decide)
    (by have := pow_pos_int 128; omega) (by exact_mod_cast hg1.le)
  obtain ⟨d4, h4, -⟩ := wnaf_ok ((ng / 2 ^ 128 : Nat) : Int) CurveConsts.windowg (by decide)
    (by have := pow_pos_int 128; omega) (by exact_mod_cast hg2.le)
  unfold ecmult split
  simp only [h1, h2, h3, h4, Option.bind_eq_bind, Option.bind_some, Option.pure_def, Option.isSome_some]
end GocoinV.C08
