/-
  Proofs.C06Work — the exact rational work of the chain model (`Q` = numerator/denominator over Nat, compared by
  cross-multiplication) interpreted in ℚ: `Q.val`, `Q.add` is +, `Q.gt` is > (positive denominators), the cumulative
  work `W c n = (workOf c n).val` of a node satisfies W(n) = W(parent) + difficulty(n.bits) > W(parent).
-/
import Mathlib.Tactic.Linarith
import Mathlib.Tactic.FieldSimp
import Mathlib.Tactic.Positivity
import GocoinV.Proofs.C06Tree
namespace GocoinV.ChainTree
open GocoinV.UtxoOps

def Q.val (q : Q) : ℚ := (q.num : ℚ) / (q.den : ℚ)

theorem Q.val_zero : Q.zero.val = 0 := by simp [Q.val, Q.zero]

theorem Q.val_add (a b : Q) (ha : a.den > 0) (hb : b.den > 0) : (a.add b).val = a.val + b.val := by
  unfold Q.val Q.add
  have ha' : (a.den : ℚ) ≠ 0 := by positivity
  have hb' : (b.den : ℚ) ≠ 0 := by positivity
  push_cast
  field_simp

theorem Q.add_den_pos (a b : Q) (ha : a.den > 0) (hb : b.den > 0) : (a.add b).den > 0 := by
  unfold Q.add; exact Nat.mul_pos ha hb

theorem Q.gt_iff (a b : Q) (ha : a.den > 0) (hb : b.den > 0) : a.gt b = true ↔ a.val > b.val := by
  unfold Q.gt Q.val
  have ha' : (0 : ℚ) < (a.den : ℚ) := by exact_mod_cast ha
  have hb' : (0 : ℚ) < (b.den : ℚ) := by exact_mod_cast hb
  rw [decide_eq_true_iff, gt_iff_lt, gt_iff_lt, div_lt_div_iff₀ hb' ha']
  constructor
  · intro h; exact_mod_cast h
  · intro h; exact_mod_cast h

theorem difficulty_den_pos (bits : Nat) (h : bits % 0x1000000 ≠ 0) : (difficulty bits).den > 0 := by
  unfold difficulty
  simp only
  have hm : bits % 0x1000000 > 0 := Nat.pos_of_ne_zero h
  split
  · exact hm
  · exact Nat.mul_pos hm (Nat.pow_pos (by omega))

theorem difficulty_val_pos (bits : Nat) (h : bits % 0x1000000 ≠ 0) : (difficulty bits).val > 0 := by
  have hd := difficulty_den_pos bits h
  unfold Q.val
  apply div_pos
  · unfold difficulty
    simp only
    split
    · have : 0 < 0xffff * 256 ^ (29 - bits / 0x1000000 % 256) := Nat.mul_pos (by omega) (Nat.pow_pos (by omega))
      exact_mod_cast this
    · norm_num
  · exact_mod_cast hd

/-- the cumulative work of a node as a rational number -/
def W (c : Chain) (n : Node) : ℚ := (workOf c n).val

theorem workOf_root {U : List Block} {c : Chain} (w : TreeWF U c) {r : Node} (hr : getNode c c.root = some r) :
    workOf c r = Q.zero := by
  obtain ⟨r', hr', h0, _⟩ := w.root
  rw [hr] at hr'; cases hr'
  unfold workOf; rw [h0]; rfl

theorem workOf_step {U : List Block} {c : Chain} (w : TreeWF U c) {x : Nat} {n p : Node}
    (hn : getNode c x = some n) (hx : x ≠ c.root) (hp : getNode c n.parent = some p) :
    workOf c n = (workOf c p).add (difficulty n.bits) := by
  obtain ⟨p', hp', hh, _⟩ := w.par x n hn hx
  rw [hp] at hp'; cases hp'
  have hid : n.id = x := getNode_id hn
  have hne : (n.id == c.root) = false := by rw [hid]; simpa using hx
  unfold workOf
  rw [hh]
  simp only [cumWorkN, hne, Bool.false_eq_true, if_false, hp]

theorem node_bits_ok {U : List Block} {c : Chain} (w : TreeWF U c) (hU : BlockTree c.root U) {x : Nat} {n : Node}
    (hn : getNode c x = some n) (hx : x ≠ c.root) : n.bits % 0x1000000 ≠ 0 := by
  obtain ⟨b, hb, _, _, hbits, _⟩ := w.blk x n hn hx
  rw [← hbits]; exact hU.bits b hb

theorem workOf_den_pos {U : List Block} {c : Chain} (w : TreeWF U c) (hU : BlockTree c.root U) :
    ∀ (h x : Nat) (n : Node), getNode c x = some n → n.height = h → (workOf c n).den > 0 := by
  intro h
  induction h with
  | zero =>
    intro x n hn h0
    have := w.root_of_height0 hn h0
    subst this
    rw [workOf_root w hn]; decide
  | succ h ih =>
    intro x n hn hh
    have hx : x ≠ c.root := by
      intro e
      obtain ⟨r, hr, h0, _⟩ := w.root
      rw [e, hr] at hn; cases hn; omega
    obtain ⟨p, hp, hph, _⟩ := w.par x n hn hx
    rw [workOf_step w hn hx hp]
    exact Q.add_den_pos _ _ (ih n.parent p hp (by omega)) (difficulty_den_pos _ (node_bits_ok w hU hn hx))

theorem workOf_pos {U : List Block} {c : Chain} (w : TreeWF U c) (hU : BlockTree c.root U) {x : Nat} {n : Node}
    (hn : getNode c x = some n) : (workOf c n).den > 0 := workOf_den_pos w hU n.height x n hn rfl

/-- W(n) = W(parent) + difficulty(n.bits), and the difficulty is positive -/
theorem W_step {U : List Block} {c : Chain} (w : TreeWF U c) (hU : BlockTree c.root U) {x : Nat} {n p : Node}
    (hn : getNode c x = some n) (hx : x ≠ c.root) (hp : getNode c n.parent = some p) :
    W c n = W c p + (difficulty n.bits).val ∧ (difficulty n.bits).val > 0 := by
  have hb := node_bits_ok w hU hn hx
  refine ⟨?_, difficulty_val_pos _ hb⟩
  unfold W
  rw [workOf_step w hn hx hp, Q.val_add _ _ (workOf_pos w hU hp) (difficulty_den_pos _ hb)]

theorem W_root {U : List Block} {c : Chain} (w : TreeWF U c) {r : Node} (hr : getNode c c.root = some r) : W c r = 0 := by
  unfold W; rw [workOf_root w hr]; exact Q.val_zero

theorem workOf_gt_iff {U : List Block} {c : Chain} (w : TreeWF U c) (hU : BlockTree c.root U) {x y : Nat} {n m : Node}
    (hn : getNode c x = some n) (hm : getNode c y = some m) :
    (workOf c n).gt (workOf c m) = true ↔ W c n > W c m :=
  Q.gt_iff _ _ (workOf_pos w hU hn) (workOf_pos w hU hm)

theorem workOf_not_gt_iff {U : List Block} {c : Chain} (w : TreeWF U c) (hU : BlockTree c.root U) {x y : Nat} {n m : Node}
    (hn : getNode c x = some n) (hm : getNode c y = some m) :
    (workOf c n).gt (workOf c m) = false ↔ W c n ≤ W c m := by
  rw [← Bool.not_eq_true, workOf_gt_iff w hU hn hm]; exact not_lt

/-- an ancestor has at most the work of its descendant -/
theorem W_mono {U : List Block} {c : Chain} (w : TreeWF U c) (hU : BlockTree c.root U) {a x : Nat} (h : Desc c a x) :
    ∀ nx na, getNode c x = some nx → getNode c a = some na → W c na ≤ W c nx := by
  induction h with
  | refl => intro nx na h1 h2; rw [h1] at h2; cases h2; exact le_refl _
  | @step x n hn hx _ ih =>
    intro nx na h1 h2
    rw [hn] at h1; cases h1
    obtain ⟨p, hp, _, _⟩ := w.par x n hn hx
    have := W_step w hU hn hx hp
    have := ih p na hp h2
    linarith

/-- the work of a node depends only on id/parent/height/bits of the nodes below it: it is the same in a tree that
    keeps those nodes -/
theorem workOf_congr {U : List Block} {c c' : Chain} (w : TreeWF U c) (hr : c'.root = c.root)
    (hNP : ∀ x n, getNode c x = some n → ∃ n', getNode c' x = some n' ∧ n'.parent = n.parent ∧ n'.height = n.height ∧
      n'.bits = n.bits) :
    ∀ (h x : Nat) (n n' : Node), getNode c x = some n → getNode c' x = some n' → n.height = h →
      workOf c' n' = workOf c n := by
  intro h
  induction h with
  | zero =>
    intro x n n' hn hn' h0
    obtain ⟨m, hm, _, hmh, _⟩ := hNP x n hn
    rw [hn'] at hm; cases hm
    unfold workOf
    rw [hmh, h0]; rfl
  | succ h ih =>
    intro x n n' hn hn' hh
    obtain ⟨m, hm, hmp, hmh, hmb⟩ := hNP x n hn
    rw [hn'] at hm; cases hm
    have hx : x ≠ c.root := by
      intro e
      obtain ⟨r, hr, h0, _⟩ := w.root
      rw [e, hr] at hn; cases hn; omega
    obtain ⟨p, hp, hph, _⟩ := w.par x n hn hx
    obtain ⟨p', hp', _, _, _⟩ := hNP n.parent p hp
    have hid : n.id = x := getNode_id hn
    have hid' : n'.id = x := getNode_id hn'
    have e1 : (n'.id == c'.root) = false := by rw [hid', hr]; simpa using hx
    have e2 : (n.id == c.root) = false := by rw [hid]; simpa using hx
    have ihp := ih n.parent p p' hp hp' (by omega)
    unfold workOf at ihp ⊢
    obtain ⟨_, hq1, _, hq2, _⟩ := hNP n.parent p hp
    rw [hp'] at hq1; cases hq1
    rw [hmh, hph]
    simp only [cumWorkN, e1, e2, Bool.false_eq_true, if_false, hmp, hp, hp', hmb]
    rw [hq2] at ihp
    rw [ihp]

end GocoinV.ChainTree
