/-
  Proofs.C19Lazy — NewDBExt with LoadData = false on any openable directory (in particular any crash directory):
  no record is in memory, and the first Get of every key reads exactly the key's disk value (`loadrec`).
-/
import GocoinV.Proofs.C19Vol
namespace GocoinV.Proofs.C19
open GocoinV GocoinV.Qdb GocoinV.QdbSpec

variable {eg : Bool}

/-! ### records parsed from the index files carry no data -/

def NoData (l : List (Key × Rec)) : Prop := ∀ kr ∈ l, kr.2.data = none

theorem noData_iset (k : Key) (r : Rec) (l : List (Key × Rec)) (hl : NoData l) (hr : r.data = none) :
    NoData (iset k r l) := by
  intro kr hkr
  rcases mem_iset k r l kr hkr with h | h
  · rw [h]; exact hr
  · exact hl kr h

theorem noData_ierase (k : Key) (l : List (Key × Rec)) (hl : NoData l) : NoData (ierase k l) :=
  fun kr hkr => hl kr (mem_ierase k l kr hkr)

theorem snapRecs_noData (n : Nat) (b : Bytes) : ∀ kr ∈ snapRecs n b, kr.2.data = none := by
  induction n generalizing b with
  | zero => intro kr h; cases h
  | succ m ih =>
    intro kr h
    simp only [snapRecs, List.mem_cons] at h
    rcases h with rfl | h
    · rfl
    · exact ih _ kr h

theorem parseLog_noData (fuel : Nat) (d : Bytes) : ∀ k r, LogEntry.put k r ∈ parseLog fuel d → r.data = none := by
  induction fuel generalizing d with
  | zero => intro k r h; cases h
  | succ m ih =>
    intro k r h
    unfold parseLog at h
    split at h
    · cases h
    · dsimp only at h
      split at h
      · split at h
        · cases h
        · rcases List.mem_cons.mp h with h | h
          · cases h; rfl
          · exact ih _ k r h
      · rcases List.mem_cons.mp h with h | h
        · cases h
        · exact ih _ k r h

theorem isetAll_noData (recs l : List (Key × Rec)) (hl : NoData l) (hr : ∀ kr ∈ recs, kr.2.data = none) :
    NoData (isetAll l recs) := by
  unfold isetAll
  induction recs generalizing l with
  | nil => exact hl
  | cons x t ih =>
    simp only [List.foldl_cons]
    exact ih _ (noData_iset x.1 x.2 l hl (hr x List.mem_cons_self)) (fun kr h => hr kr (List.mem_cons_of_mem _ h))

theorem applyEntriesL_noData (es : List LogEntry) (l : List (Key × Rec)) (hl : NoData l)
    (he : ∀ k r, LogEntry.put k r ∈ es → r.data = none) : NoData (applyEntriesL l es) := by
  unfold applyEntriesL
  induction es generalizing l with
  | nil => exact hl
  | cons e t ih =>
    simp only [List.foldl_cons]
    apply ih
    · cases e with
      | put k r => exact noData_iset k r l hl (he k r List.mem_cons_self)
      | del k => exact noData_ierase k l hl
    · exact fun k r h => he k r (List.mem_cons_of_mem _ h)

theorem diskIndex_noData (F : FS) : NoData (diskIndex F) := by
  unfold diskIndex
  apply applyEntriesL_noData
  · unfold snapBase
    split
    · intro kr h; cases h
    · exact isetAll_noData _ [] (fun kr h => by cases h) (snapRecs_noData _ _)
  · intro k r h
    unfold logEntries at h
    split at h
    · cases h
    · split at h
      · cases h
      · exact parseLog_noData _ _ k r h

/-! ### the first Get after a lazy open -/

/-- NewDBExt(any mode, LoadData = false) on an openable directory — e.g. any directory left by a crash — does not
    fail, and for EVERY key the first Get does not fail and returns exactly the key's disk value (absent keys: nil):
    `loadrec` finds the data file and reads the record's bytes. -/
theorem lazy_open_get (F : FS) (vol : Bool) (opts : Opts) (h : OpenOK eg F) (k : Key) :
    (openDB F vol false opts eg).failed = none ∧
    (Qdb.get (openDB F vol false opts eg) k).1.failed = none ∧
    (Qdb.get (openDB F vol false opts eg) k).2 = diskValue F k := by
  have key : ∀ (F' : FS) (S : OpenState F' vol (openIndex { fs := F, volatile := vol, opts := opts, eager := eg }))
      (hD : diskIndex F' = diskIndex F) (hdats : F'.dats = F.dats),
      (openDB F vol false opts eg).failed = none ∧
      (Qdb.get (openDB F vol false opts eg) k).1.failed = none ∧
      (Qdb.get (openDB F vol false opts eg) k).2 = diskValue F k := by
    intro F' S hD hdats
    generalize hX : openIndex { fs := F, volatile := vol, opts := opts, eager := eg } = X at S
    have hopen : openDB F vol false opts eg = { X with dataSeq := u32 (X.maxSeq + 1) } := by
      unfold openDB
      simp only [Bool.false_eq_true, ↓reduceIte]
      rw [hX]
    rw [hopen]
    have hf : ({ X with dataSeq := u32 (X.maxSeq + 1) } : DB).failed = none := S.failed
    refine ⟨hf, ?_⟩
    unfold Qdb.get
    rw [if_neg (by rw [hf]; simp)]
    show (match ilookup k X.index with
      | none => (({ X with dataSeq := u32 (X.maxSeq + 1) } : DB), none)
      | some r => _ : DB × Option Bytes).1.failed = none ∧
      (match ilookup k X.index with
      | none => (({ X with dataSeq := u32 (X.maxSeq + 1) } : DB), none)
      | some r => _ : DB × Option Bytes).2 = diskValue F k
    rw [S.index, hD]
    unfold diskValue
    cases hl : ilookup k (diskIndex F) with
    | none => exact ⟨hf, rfl⟩
    | some r =>
      have hmem := ilookup_key_pair k r (diskIndex F) hl
      have hnd : r.data = none := diskIndex_noData F (k, r) hmem
      obtain ⟨_, f, v, h3, h4⟩ := h.readable (k, r) hmem
      have hfX : dlookup r.seq X.fs.dats = some f := by
        have := S.dats (k, r) (by rw [hD]; exact hmem)
        rw [this, hdats]; exact h3
      have hlr : loadrec X.fs r = some { r with data := some (readRec f r) } := by
        unfold loadrec
        rw [hnd]
        simp only [hfX]
      simp only [hlr, Option.map_some, h3, Option.getD_some]
      refine ⟨hf, ?_⟩
      show some (readRec f r) = _
      unfold readRec padTo
      have hlen : ((f.drop r.pos).take r.len).length = r.len := by
        simp only [List.length_take, List.length_drop]
        have h41 : r.pos + r.len ≤ f.length := h4.1
        omega
      rw [hlen]
      simp
  rcases h.log with ⟨E, hE, hlog⟩ | hd
  · exact key F (open_state F vol opts E hE hlog h.ver) rfl rfl
  · exact key (noLog F) (open_state_discard F vol opts hd) (diskIndex_noLog F hd) rfl

end GocoinV.Proofs.C19
