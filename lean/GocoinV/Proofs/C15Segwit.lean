/-
  Proofs.C15Segwit — SegwitEncode then SegwitDecode (assembled from the Bech32 round trip and the
  convert_bits round trip).
-/
import GocoinV.Proofs.C15Conv2
import GocoinV.Proofs.C15Bech32d
namespace GocoinV.Bech32

theorem segwitEncode_some {hrp prog s : Bytes} {v : Nat} (h : segwitEncode hrp v prog = some s) :
    v ≤ 16 ∧ (v = 0 → prog.length = 20 ∨ prog.length = 32) ∧ 2 ≤ prog.length ∧ prog.length ≤ 40 ∧
    ∃ d, convertBits 5 prog 8 true = some d ∧ encode hrp (UInt8.ofNat v :: d) (decide (v > 0)) = some s := by
  unfold segwitEncode at h
  split at h; · simp at h
  split at h; · simp at h
  split at h; · simp at h
  split at h
  · simp at h
  · rename_i d hd
    exact ⟨by omega, by omega, by omega, by omega, d, hd, h⟩

theorem segwit_decode_encode (hrp prog s : Bytes) (v : Nat)
    (h : segwitEncode hrp v prog = some s) : segwitDecode hrp s = .ok (v, prog) := by
  obtain ⟨hv, hv0, hl2, hl40, d, hd, he⟩ := segwitEncode_some h
  have hne : hrp ≠ [] := encode_some_ne he
  have hdec := decode_encode hrp _ s _ he
  obtain ⟨_, p, hp, hlen, _⟩ := convertBits_85_spec prog d hd
  have hrt := convertBits_roundtrip prog d hd
  have hvn : (UInt8.ofNat v).toNat = v := by
    rw [UInt8.toNat_ofNat']; omega
  have hz : UInt8.ofNat v = 0 ↔ v = 0 := by
    constructor
    · intro e
      have : (UInt8.ofNat v).toNat = 0 := by rw [e]; rfl
      omega
    · intro e; subst e; rfl
  have hemp : hrp.isEmpty = false := by
    cases hrp with
    | nil => exact absurd rfl hne
    | cons _ _ => rfl
  have hpe : prog.isEmpty = false := by
    cases prog with
    | nil => simp at hl2
    | cons _ _ => rfl
  unfold segwitDecode
  rw [hdec]
  simp only [hemp, List.length_cons, hvn, hrt, hpe]
  have c1 : ¬ (false = true ∨ d.length + 1 > 65) := by
    intro hc; rcases hc with hc | hc
    · exact Bool.noConfusion hc
    · omega
  have c2 : ¬ (hrp ≠ hrp) := fun hc => hc rfl
  have c3 : ¬ (v > 16) := by omega
  have c6 : ¬ (false = true) := fun hc => Bool.noConfusion hc
  have c7 : ¬ (prog.length < 2 ∨ prog.length > 40) := by omega
  rw [if_neg c1, if_neg c2, if_neg c3]
  by_cases h0 : v = 0
  · subst h0
    have c4 : ¬ (UInt8.ofNat 0 = 0 ∧ decide (0 > 0) = true) := by simp
    have c5 : ¬ (UInt8.ofNat 0 ≠ 0 ∧ (!decide (0 > 0)) = true) := by simp
    have c8 : ¬ (UInt8.ofNat 0 = 0 ∧ prog.length ≠ 20 ∧ prog.length ≠ 32) := by
      have := hv0 rfl
      intro hc; omega
    rw [if_neg c4, if_neg c5, if_neg c6, if_neg c7, if_neg c8]
  · have hvpos : v > 0 := by omega
    have hz' : ¬ (UInt8.ofNat v = 0) := fun e => h0 (hz.mp e)
    have c4 : ¬ (UInt8.ofNat v = 0 ∧ decide (v > 0) = true) := fun hc => hz' hc.1
    have c5 : ¬ (UInt8.ofNat v ≠ 0 ∧ (!decide (v > 0)) = true) := by simp [hvpos]
    have c8 : ¬ (UInt8.ofNat v = 0 ∧ prog.length ≠ 20 ∧ prog.length ≠ 32) := fun hc => hz' hc.1
    rw [if_neg c4, if_neg c5, if_neg c6, if_neg c7, if_neg c8]

end GocoinV.Bech32
