/- C08 table proof chunk (written once by Proofs/mk_c08_tab.py; static). -/
import GocoinV.Proofs.C08_TabDefs
import GocoinV.Gen.TablesPreG14
import GocoinV.Gen.TablesPreG13
namespace GocoinV.C08
open GocoinV.Gen

theorem preG_14 : chainOK (Secp.dbl Secp.G) ((pts Tables.preG13).getLastD none :: pts Tables.preG14) = true := by
  decide +kernel
theorem preG_14_ne : pts Tables.preG14 ≠ [] := by decide +kernel

end GocoinV.C08
