/-
  Proofs.C04Sums — with the MoneyRange checks (`Cfg.current`) no uint64 sum of commitTxs / CheckTransaction wraps.
-/
import GocoinV.Proofs.C04Basic
namespace GocoinV.Proofs.C04
open GocoinV GocoinV.Connect

theorem MAX_MONEY_val : MAX_MONEY = 2100000000000000 := by decide

/-- exact (unbounded) sum of the output values -/
def exactOut (outs : List TxOut) : Nat := (outs.map (·.value)).sum

theorem checkOutValues_exact (outs : List TxOut) (tot : Nat) (ht : tot ≤ MAX_MONEY)
    (h : checkOutValues outs tot = .ok ()) :
    tot + exactOut outs ≤ MAX_MONEY ∧ outs.foldl (fun a o => u64 (a + o.value)) tot = tot + exactOut outs := by
  induction outs generalizing tot with
  | nil => simp [exactOut, ht]
  | cons o r ih =>
    unfold checkOutValues at h
    have hm := MAX_MONEY_val
    by_cases h1 : o.value > MAX_MONEY
    · simp [h1] at h
    · simp only [h1, ↓reduceIte] at h
      have hu : u64 (tot + o.value) = tot + o.value := by unfold u64; omega
      rw [hu] at h
      by_cases h2 : tot + o.value > MAX_MONEY
      · simp [h2] at h
      · simp only [h2, ↓reduceIte] at h
        obtain ⟨ha, hb⟩ := ih (tot + o.value) (by omega) h
        simp only [exactOut, List.map_cons, List.sum_cons, List.foldl_cons] at *
        rw [hu, hb]
        omega

/-- one input of the fixed code: the running input sum grows by exactly the value of the coin and stays ≤ MAX_MONEY -/
theorem procInput_sum (db : DB) (b : Block) (inp : TxIn) (s s' : St) (a a' : Nat) (ha : a ≤ MAX_MONEY)
    (h : procInput Cfg.current db b inp s a = .ok (s', a')) :
    ∃ s1 v pk, resolve Cfg.current db b inp s = .ok (s1, v, pk) ∧ a' = a + v ∧ a' ≤ MAX_MONEY := by
  unfold procInput at h
  have hm := MAX_MONEY_val
  cases hr : resolve Cfg.current db b inp s with
  | error e => simp [hr] at h
  | ok r =>
    obtain ⟨s1, v, pk⟩ := r
    have hmr : Cfg.current.moneyRange = true := rfl
    simp only [hr, hmr, true_and] at h
    by_cases hv : v > MAX_MONEY
    · simp [hv] at h
    · have hu : u64 (a + v) = a + v := by unfold u64; omega
      rw [hu] at h
      by_cases hs : a + v > MAX_MONEY
      · simp [hs] at h
      · simp only [hv, hs, or_self, ↓reduceIte, Except.ok.injEq, Prod.mk.injEq] at h
        exact ⟨s1, v, pk, rfl, h.2.symm, by omega⟩

theorem procInputs_sum (db : DB) (b : Block) (ins : List TxIn) (s s' : St) (a a' : Nat) (ha : a ≤ MAX_MONEY)
    (h : procInputs Cfg.current db b ins s a = .ok (s', a')) : a ≤ a' ∧ a' ≤ MAX_MONEY := by
  induction ins generalizing s a with
  | nil =>
    simp only [procInputs, Except.ok.injEq, Prod.mk.injEq] at h
    omega
  | cons i r ih =>
    unfold procInputs at h
    cases hp : procInput Cfg.current db b i s a with
    | error e => simp [hp] at h
    | ok q =>
      obtain ⟨s1, a1⟩ := q
      simp only [hp] at h
      obtain ⟨_, v, _, _, hav, hle⟩ := procInput_sum db b i s s1 a a1 ha hp
      have := ih s1 a1 hle h
      omega

/-- the coin lookup touches DeledTxs / blUnsp only -/
theorem resolve_fields (cfg : Cfg) (db : DB) (b : Block) (inp : TxIn) (s s1 : St) (v : Nat) (pk : Bytes)
    (h : resolve cfg db b inp s = .ok (s1, v, pk)) :
    s1.fees = s.fees ∧ s1.sumIn = s.sumIn ∧ s1.sumOut = s.sumOut ∧ s1.sigops = s.sigops ∧ s1.scriptBad = s.scriptBad := by
  unfold resolve at h
  split at h
  · simp at h
  · split at h
    · unfold fromBlock at h
      repeat' split at h
      all_goals first
        | (simp at h; done)
        | (simp only [Except.ok.injEq, Prod.mk.injEq] at h
           obtain ⟨h1, _, _⟩ := h
           subst h1
           simp)
    · unfold fromDb at h
      split at h
      · simp at h
      · simp only [Except.ok.injEq, Prod.mk.injEq] at h
        obtain ⟨h1, _, _⟩ := h
        subst h1
        simp

theorem procInput_fields (cfg : Cfg) (db : DB) (b : Block) (inp : TxIn) (s s' : St) (a a' : Nat)
    (h : procInput cfg db b inp s a = .ok (s', a')) :
    s'.fees = s.fees ∧ s'.sumIn = s.sumIn ∧ s'.sumOut = s.sumOut ∧ s'.scriptBad = s.scriptBad := by
  unfold procInput at h
  cases hr : resolve cfg db b inp s with
  | error e => simp [hr] at h
  | ok r =>
    obtain ⟨s1, v, pk⟩ := r
    obtain ⟨f1, f2, f3, _, f5⟩ := resolve_fields cfg db b inp s s1 v pk hr
    simp only [hr] at h
    split at h
    · simp at h
    · simp only [Except.ok.injEq, Prod.mk.injEq] at h
      obtain ⟨h1, _⟩ := h
      subst h1
      simp [f1, f2, f3, f5]

theorem procInputs_fields (cfg : Cfg) (db : DB) (b : Block) (ins : List TxIn) (s s' : St) (a a' : Nat)
    (h : procInputs cfg db b ins s a = .ok (s', a')) :
    s'.fees = s.fees ∧ s'.sumIn = s.sumIn ∧ s'.sumOut = s.sumOut := by
  induction ins generalizing s a with
  | nil =>
    simp only [procInputs, Except.ok.injEq, Prod.mk.injEq] at h
    obtain ⟨h1, _⟩ := h
    subst h1
    simp
  | cons i r ih =>
    unfold procInputs at h
    cases hp : procInput cfg db b i s a with
    | error e => simp [hp] at h
    | ok q =>
      obtain ⟨s1, a1⟩ := q
      simp only [hp] at h
      obtain ⟨f1, f2, f3, _⟩ := procInput_fields cfg db b i s s1 a a1 hp
      obtain ⟨g1, g2, g3⟩ := ih s1 a1 h
      exact ⟨g1.trans f1, g2.trans f2, g3.trans f3⟩

theorem txInputs_sum (db : DB) (b : Block) (isCb : Bool) (tx : Tx) (s s1 : St) (a : Nat)
    (h : txInputs Cfg.current db b isCb tx s = .ok (s1, a)) :
    a ≤ MAX_MONEY ∧ s1.fees = s.fees ∧ s1.sumIn = s.sumIn ∧ s1.sumOut = s.sumOut := by
  unfold txInputs at h
  have hm := MAX_MONEY_val
  cases isCb with
  | true =>
    simp only [↓reduceIte] at h
    split at h
    · simp at h
    · simp only [Except.ok.injEq, Prod.mk.injEq] at h
      obtain ⟨h1, h2⟩ := h
      subst h1; subst h2
      simp
  | false =>
    simp only [Bool.false_eq_true, ↓reduceIte] at h
    split at h
    · simp at h
    · rename_i s' a0 hp
      simp only [Except.ok.injEq, Prod.mk.injEq] at h
      obtain ⟨h1, h2⟩ := h
      subst h1; subst h2
      obtain ⟨_, hle⟩ := procInputs_sum db b tx.ins _ s' 0 a0 (by omega) hp
      obtain ⟨g1, g2, g3⟩ := procInputs_fields _ db b tx.ins _ s' 0 a0 hp
      exact ⟨hle, g1, g2, g3⟩

/-- the fee bookkeeping of the fixed code is exact -/
theorem settle_current (isCb : Bool) (s1 s2 : St) (a o : Nat) (ha : a ≤ MAX_MONEY) (hf : s1.fees ≤ MAX_MONEY)
    (h : settle Cfg.current isCb s1 a o = .ok s2) :
    s2.sumIn = s1.sumIn ∧ s2.fees ≤ MAX_MONEY ∧
    (isCb = true → s2.fees = s1.fees ∧ s2.sumOut = o) ∧
    (isCb = false → o ≤ a ∧ s2.fees = s1.fees + (a - o) ∧ s2.sumOut = s1.sumOut) := by
  unfold settle at h
  have hm := MAX_MONEY_val
  have hmr : Cfg.current.moneyRange = true := rfl
  simp only [hmr, ↓reduceIte] at h
  cases isCb with
  | true =>
    simp only [↓reduceIte, Except.ok.injEq] at h
    subst h
    simp [hf]
  | false =>
    simp only [Bool.false_eq_true, ↓reduceIte] at h
    by_cases h1 : o > a
    · simp [h1] at h
    · simp only [h1, ↓reduceIte] at h
      have hs : sub64 a o = a - o := by unfold sub64; omega
      have hu : u64 (s1.fees + (a - o)) = s1.fees + (a - o) := by unfold u64; omega
      rw [hs, hu] at h
      split at h
      · simp at h
      · simp only [Except.ok.injEq] at h
        subst h
        simp
        omega

theorem procTx_current (db : DB) (b : Block) (isCb : Bool) (tx : Tx) (s s' : St) (hf : s.fees ≤ MAX_MONEY)
    (h : procTx Cfg.current db b isCb tx s = .ok s') :
    s'.sumIn = s.sumIn ∧ s'.fees ≤ MAX_MONEY ∧ s.fees ≤ s'.fees := by
  unfold procTx at h
  cases h1 : txInputs Cfg.current db b isCb tx s with
  | error e => simp [h1] at h
  | ok q =>
    obtain ⟨s1, a⟩ := q
    simp only [h1] at h
    obtain ⟨ha, f1, f2, _⟩ := txInputs_sum db b isCb tx s s1 a h1
    cases h2 : settle Cfg.current isCb s1 a (sumOuts tx.outs) with
    | error e => simp [h2] at h
    | ok s2 =>
      simp only [h2, Except.ok.injEq] at h
      subst h
      obtain ⟨g1, g2, g3, g4⟩ := settle_current isCb s1 s2 a _ ha (by omega) h2
      refine ⟨by simp [g1, f2], by simpa using g2, ?_⟩
      cases isCb with
      | true => have := (g3 rfl).1; simp; omega
      | false => have := (g4 rfl).2.1; simp; omega

theorem procTxs_current (db : DB) (b : Block) (first : Bool) (txs : List Tx) (s s' : St) (hf : s.fees ≤ MAX_MONEY)
    (h : procTxs Cfg.current db b first txs s = .ok s') :
    s'.sumIn = s.sumIn ∧ s'.fees ≤ MAX_MONEY := by
  induction txs generalizing s first with
  | nil =>
    simp only [procTxs, Except.ok.injEq] at h
    subst h
    exact ⟨rfl, hf⟩
  | cons tx r ih =>
    unfold procTxs at h
    cases hp : procTx Cfg.current db b first tx s with
    | error e => simp [hp] at h
    | ok s1 =>
      simp only [hp] at h
      obtain ⟨f1, f2, _⟩ := procTx_current db b first tx s s1 hf hp
      obtain ⟨g1, g2⟩ := ih false s1 f2 h
      exact ⟨g1.trans f1, g2⟩

theorem finalChecks_ok (cfg : Cfg) (s0 s : St) (h : finalChecks cfg s0 = .ok s) :
    s = s0 ∧ ¬ (if cfg.moneyRange then u64 (s0.sumIn + s0.fees) else s0.sumIn) < s0.sumOut
    ∧ s0.sigops ≤ MAX_BLOCK_SIGOPS_COST := by
  unfold finalChecks at h
  by_cases h1 : s0.scriptBad = true
  · simp [h1] at h
  · by_cases h2 : (if cfg.moneyRange then u64 (s0.sumIn + s0.fees) else s0.sumIn) < s0.sumOut
    · simp [h1, h2] at h
    · by_cases h3 : s0.sigops > MAX_BLOCK_SIGOPS_COST
      · simp [h1, h2, h3] at h
      · simp only [h1, h2, h3, ↓reduceIte, Except.ok.injEq, Bool.false_eq_true] at h
        exact ⟨h.symm, h2, by omega⟩

theorem commitTxs_sums (db : DB) (b : Block) (s : St) (h : commitTxs Cfg.current db b = .ok s) :
    s.sumIn = getBlockReward b.height ∧ s.fees ≤ MAX_MONEY ∧ s.sumIn + s.fees < 2 ^ 64
    ∧ s.sumOut ≤ getBlockReward b.height + s.fees := by
  unfold commitTxs at h
  have hm := MAX_MONEY_val
  cases hp : procTxs Cfg.current db b true b.txs (St.init b) with
  | error e => simp [hp] at h
  | ok s0 =>
    obtain ⟨f1, f2⟩ := procTxs_current db b true b.txs (St.init b) s0 (by simp [St.init]) hp
    have hr : getBlockReward b.height ≤ 5000000000 := by
      rw [reward_eq_div]; exact Nat.div_le_self _ _
    have hi : (St.init b).sumIn = getBlockReward b.height := rfl
    simp only [hp] at h
    obtain ⟨e1, e2, _⟩ := finalChecks_ok _ s0 s h
    subst e1
    have hmr : Cfg.current.moneyRange = true := rfl
    simp only [hmr, ↓reduceIte] at e2
    have hu : u64 (s.sumIn + s.fees) = s.sumIn + s.fees := by unfold u64; omega
    rw [hu] at e2
    refine ⟨by omega, f2, by omega, by omega⟩

theorem commitTxs_sigops (cfg : Cfg) (db : DB) (b : Block) (s : St) (h : commitTxs cfg db b = .ok s) :
    s.sigops ≤ MAX_BLOCK_SIGOPS_COST := by
  unfold commitTxs at h
  cases hp : procTxs cfg db b true b.txs (St.init b) with
  | error e => simp [hp] at h
  | ok s0 =>
    simp only [hp] at h
    obtain ⟨e1, _, e3⟩ := finalChecks_ok _ s0 s h
    subst e1; exact e3

end GocoinV.Proofs.C04
