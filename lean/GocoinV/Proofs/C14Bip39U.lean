/-
  Proofs.C14Bip39U — uniqueness direction of the BIP39 codec: what EntropyFromMnemonic accepts is what
  NewMnemonic generates.
-/
import GocoinV.Proofs.C14Bip39
import GocoinV.Proofs.C14HD
namespace GocoinV.Proofs.C14
open GocoinV Bip39

theorem wordIndex_some (w : Bytes) (i : Nat) (h : wordIndex w = some i) : i < 2048 ∧ wordOf i = w := by
  unfold wordIndex at h
  have h' : (if wordList.findIdx (· == w) < wordList.length then some (wordList.findIdx (· == w)) else none) = some i := h
  split at h'
  · rename_i hlt
    simp only [Option.some.injEq] at h'
    subst h'
    have hl := wordList_length
    refine ⟨by omega, ?_⟩
    have := List.findIdx_getElem (w := hlt)
    have e : wordList[wordList.findIdx (· == w)] = w := by simpa using this
    simp [wordOf, List.getD, hlt, e]
  · simp at h'

theorem decodeWords_some : ∀ (ws : List Bytes) (b0 b : Nat), decodeWords ws b0 = some b →
    ∃ ds : List Nat, ds.length = ws.length ∧ (∀ d ∈ ds, d < 2048) ∧ ws = ds.map wordOf ∧ b = undigits b0 ds
  | [], b0, b, h => by
    rw [decodeWords] at h
    exact ⟨[], rfl, by simp, rfl, by simpa [undigits] using h.symm⟩
  | w :: t, b0, b, h => by
    rw [decodeWords] at h
    cases hi : wordIndex w with
    | none => simp [hi] at h
    | some i =>
      simp only [hi] at h
      obtain ⟨hlt, hw⟩ := wordIndex_some w i hi
      rw [Nat.mod_eq_of_lt (by omega)] at h
      obtain ⟨ds, h1, h2, h3, h4⟩ := decodeWords_some t _ b h
      refine ⟨i :: ds, by simp [h1], ?_, by simp [hw, h3], by simpa [undigits] using h4⟩
      intro d hd
      rcases List.mem_cons.mp hd with rfl | hd
      · exact hlt
      · exact h2 d hd

theorem undigits_snoc (b : Nat) (ds : List Nat) (d : Nat) : undigits b (ds ++ [d]) = undigits b ds * 2048 + d := by
  rw [undigits_append]; rfl

theorem digits11_undigits : ∀ (k : Nat) (ds : List Nat), ds.length = k → (∀ d ∈ ds, d < 2048) → ∀ b,
    digits11 k (undigits b ds) = ds
  | 0, ds, hl, _, b => by
    have : ds = [] := List.eq_nil_of_length_eq_zero hl
    subst this; rfl
  | k+1, ds, hl, hd, b => by
    have hne : ds ≠ [] := by intro e; subst e; simp at hl
    have hsplit := List.dropLast_concat_getLast hne
    have hlast : ds.getLast hne < 2048 := hd _ (List.getLast_mem hne)
    have hdl : ds.dropLast.length = k := by simp [hl]
    have hdd : ∀ d ∈ ds.dropLast, d < 2048 := fun d h => hd d (List.dropLast_subset ds h)
    rw [← hsplit, undigits_snoc, digits11]
    have e1 : (undigits b ds.dropLast * 2048 + ds.getLast hne) / 2048 = undigits b ds.dropLast := by omega
    have e2 : (undigits b ds.dropLast * 2048 + ds.getLast hne) % 2048 = ds.getLast hne := by omega
    rw [e1, e2, digits11_undigits k ds.dropLast hdl hdd b]

theorem undigits_lt (ds : List Nat) (hd : ∀ d ∈ ds, d < 2048) : undigits 0 ds < 2048 ^ ds.length := by
  have := undigits_digits11 ds.length (undigits 0 ds) 0
  rw [digits11_undigits ds.length ds rfl hd 0] at this
  have h2 : undigits 0 ds = undigits 0 ds % 2048 ^ ds.length := by omega
  rw [h2]; exact Nat.mod_lt _ (Nat.pow_pos (by decide))


theorem padByteSlice_natBytes (q n : Nat) (h : q < 256 ^ n) : padByteSlice (Base58.natBytes q) n = beBytes n q := by
  have hp := pad_natBytes n q h
  have hl := natBytes_length_le q n h
  unfold padByteSlice
  split
  · have : n - (Base58.natBytes q).length = 0 := by omega
    rw [this] at hp; simpa using hp
  · exact hp

set_option hygiene false in
local macro "bip39ucase" cs:num P:num Q:num N:num : tactic => `(tactic| (
  simp only [checksumMask, checksumShift, hl, Nat.reduceEqDiff, ↓reduceIte, Nat.reduceAdd, Nat.reduceDiv, Nat.reduceMul,
    ne_eq, not_true_eq_false, not_false_eq_true] at h
  have hq : undigits 0 ds / $P < 256 ^ $N := by
    have : undigits 0 ds < $Q := by simpa using hblt
    simp only [Nat.reducePow]; omega
  rw [show (natBytes (undigits 0 ds / $P)) = Base58.natBytes (undigits 0 ds / $P) from rfl, padByteSlice_natBytes _ $N hq] at h
  split at h
  · simp at h
  · rename_i hck
    simp only [Except.ok.injEq] at h
    have hck' : undigits 0 ds % $P = ((C.sha256 (beBytes $N (undigits 0 ds / $P))).headD 0).toNat / (2 ^ (8 - $cs)) := by
      simpa using hck
    subst h
    have hv : beVal (beBytes $N (undigits 0 ds / $P)) = undigits 0 ds / $P := by
      rw [beVal_beBytes]; exact Nat.mod_eq_of_lt hq
    refine ⟨$cs, by decide, by decide, by simp [beBytes_length], ?_⟩
    have hb : beVal (beBytes $N (undigits 0 ds / $P)) * 2 ^ $cs + checksumBits C (beBytes $N (undigits 0 ds / $P)) $cs = undigits 0 ds := by
      rw [hv]; unfold checksumBits; rw [← hck']
      simp only [Nat.reducePow]; omega
    rw [hb, hws]
    have := digits11_undigits (3 * $cs) ds (by omega) hdlt 0
    simp only [Nat.reduceMul] at this ⊢
    rw [this]))

/-- uniqueness: whatever `EntropyFromMnemonic` accepts is, word for word, the sentence `NewMnemonic`
    generates for the entropy it returns -/
theorem entropy_unique (C : WalletCrypto) (m e : Bytes) (h : entropyFromMnemonic C m = .ok e) :
    ∃ cs, 4 ≤ cs ∧ cs ≤ 8 ∧ e.length = 4 * cs ∧
      fields m = (digits11 (3 * cs) (beVal e * 2 ^ cs + checksumBits C e cs)).map wordOf := by
  unfold entropyFromMnemonic splitMnemonicWords at h
  split at h
  · simp at h
  · rename_i ws hsp
    simp only [] at hsp
    split at hsp
    · simp at hsp
    · rename_i hlen
      simp only [Option.some.injEq] at hsp
      subst hsp
      split at h
      · simp at h
      · rename_i b hdec
        obtain ⟨ds, hdl, hdlt, hws, hb⟩ := decodeWords_some _ 0 b hdec
        subst hb
        have hblt := undigits_lt ds hdlt
        have hcases : (fields m).length = 12 ∨ (fields m).length = 15 ∨ (fields m).length = 18 ∨
            (fields m).length = 21 ∨ (fields m).length = 24 := by omega
        rcases hcases with hl | hl | hl | hl | hl <;> rw [hl] at hdl <;> rw [hdl] at hblt
        · bip39ucase 4 16 5444517870735015415413993718908291383296 16
        · bip39ucase 5 32 46768052394588893382517914646921056628989841375232 20
        · bip39ucase 6 64 401734511064747568885490523085290650630550748445698208825344 24
        · bip39ucase 7 128 3450873173395281893717377931138512726225554486085193277581262111899648 28
        · bip39ucase 8 256 29642774844752946028434172162224104410437116074403984394101141506025761187823616 32

end GocoinV.Proofs.C14
