/-
  Proofs.C07JHist — CommitBlock / AcceptBlock, Idle, Close, NewChainExt, the client's recovery loop, whole
  histories and every crash point keep the consistency invariant, hence:
  as long as no undo file of another block is read, the unspent set held in memory — by the running node at every
  operation boundary, after NewChainExt on ANY crash prefix, after the recovery loop, after feeding the remaining
  blocks — is the replay of the tip's chain, and the tip is a block that was submitted (or genesis).
  Core Lean only.
-/
import GocoinV.Proofs.C07JOps
import GocoinV.Proofs.C07Hist
namespace GocoinV.Proofs.C07
open GocoinV.Persist

variable {bs : List Block} {s : St}

/-- the consistency invariant -/
structure J (bs : List Block) (s : St) : Prop where
  jd : JD bs s
  chain : ∃ path, Chain bs s.n path

theorem J.neutral {s' : St} (h : J bs s) (hn : Neutral bs s s') : J bs s' :=
  ⟨h.jd.neutral hn, h.chain.imp (fun _ hc => hc.neutral hn)⟩

/-! ### Chain.CommitBlock, AcceptBlock -/

def commitTail (s2 : St) (b : Block) : St :=
  { ((commitBlockTxs (s2.emit .nop .cAfterBlockAdd) b).emit .nop .cAfterUtxo) with
    n := { ((commitBlockTxs (s2.emit .nop .cAfterBlockAdd) b).emit .nop .cAfterUtxo).n with tip := b.id, tipHeight := b.height } }

/-- the tail of CommitBlock on the active branch: CommitBlockTxs, then the tip moves -/
theorem commit_tail_J (hwf : WF bs) {s2 : St} {path : List Block} (h2 : JD bs s2) (hc2 : Chain bs s2.n path) (b : Block) (hb : b ∈ bs)
    (htp : b.parent = s2.n.tip) (hin : InT s2.n.tree b.id) :
    J bs (commitTail s2 b) ∧ (commitTail s2 b).n.tree = s2.n.tree := by
  unfold commitTail
  obtain ⟨s1, hN1, eq⟩ := commitBlockTxs_spec (s2.emit .nop .cAfterBlockAdd) b hb
  have hN : Neutral bs s2 s1 := (Neutral.emit s2 .nop .cAfterBlockAdd trivial).trans hN1
  rw [eq]
  refine ⟨⟨((h2.neutral hN).neutral (Neutral.emit _ .nop .cAfterUtxo trivial)).of_eq _ rfl rfl rfl rfl rfl, b :: path, ?_⟩, hN.tree⟩
  exact (hc2.neutral hN).push hwf hb (by rw [hN.tip]; exact htp) (by rw [hN.tree]; exact hin) _ rfl rfl rfl rfl rfl

theorem commitBlock_J (hwf : WF bs) (h : J bs s) (b : Block) (hb : b ∈ bs) (hin : InT s.n.tree b.id)
    (hf : (commitBlock s b).foreign = false) : J bs (commitBlock s b) ∧ (commitBlock s b).n.tree = s.n.tree := by
  obtain ⟨path, hc⟩ := h.chain
  revert hf
  unfold commitBlock
  split
  · intro _; exact ⟨h, rfl⟩
  · rename_i herr
    have he : s.err = none := by
      cases hx : s.err with
      | none => rfl
      | some v => simp [hx] at herr
    split
    · rename_i htp
      have htp : b.parent = s.n.tip := (by simpa using htp : s.n.tip = b.parent).symm
      split
      · rename_i hinv
        have := valid_on hwf hc.ok hb (htp.trans hc.tip)
        rw [← validOn_congr hc.utxo b] at this
        simp [this] at hinv
      · intro _
        have key : ∀ (C : Bool), Neutral bs s (if C = true then blockTrusted (s.emit .nop .cBeforeBlockAdd) b.id
            else { (s.emit .nop .cBeforeBlockAdd) with n := blockAdd (s.emit .nop .cBeforeBlockAdd).n b true }) := by
          intro C
          cases C
          · exact (Neutral.emit s .nop .cBeforeBlockAdd trivial).trans (blockAdd_neutral _ b true hb)
          · exact (Neutral.emit s .nop .cBeforeBlockAdd trivial).trans (blockTrusted_neutral _ _)
        have tail : ∀ (C : Bool), J bs (commitTail (if C = true then blockTrusted (s.emit .nop .cBeforeBlockAdd) b.id
            else { (s.emit .nop .cBeforeBlockAdd) with n := blockAdd (s.emit .nop .cBeforeBlockAdd).n b true }) b) ∧
            (commitTail (if C = true then blockTrusted (s.emit .nop .cBeforeBlockAdd) b.id
            else { (s.emit .nop .cBeforeBlockAdd) with n := blockAdd (s.emit .nop .cBeforeBlockAdd).n b true }) b).n.tree = s.n.tree := by
          intro C
          have hN := key C
          have := commit_tail_J hwf (h.jd.neutral hN) (hc.neutral hN) b hb (by rw [hN.tip]; exact htp) (by rw [hN.tree]; exact hin)
          exact ⟨this.1, this.2.trans hN.tree⟩
        exact tail _
    · simp only []
      have hN : Neutral bs s (({ s with n := blockAdd s.n b false } : St).emit .nop .cSideStored) :=
        (blockAdd_neutral s b false hb).then_emit .nop .cSideStored trivial
      split
      · intro hf
        obtain ⟨r1, r2, path', r3, _⟩ := moveToBlock_spec hwf (h.jd.neutral hN) (hc.neutral hN) (by rw [hN.err]; exact he) b.id
          (by rw [hN.tree]; exact hin) hf
        exact ⟨⟨r1, path', r3⟩, r2.trans hN.tree⟩
      · intro _; exact ⟨h.neutral hN, hN.tree⟩

/-- AcceptBlock adds a node to the block tree (and the block to the cache) -/
theorem J.addTree (h : J bs s) (n' : Node) (t : TNode) (hm : ∀ x ∈ n'.mem, x ∈ s.n.mem ∨ x ∈ bs)
    (e1 : n'.tree = s.n.tree ++ [t]) (e2 : n'.tip = s.n.tip) (e3 : n'.utxo = s.n.utxo) (e4 : n'.lastHeight = s.n.lastHeight)
    (e5 : n'.tipHeight = s.n.tipHeight) (e6 : n'.queue = s.n.queue)
    (htB : ∃ b ∈ bs, b.id = t.id ∧ b.parent = t.parent ∧ b.height = t.height) (htC : t.parent = 0 ∨ InT s.n.tree t.parent) :
    J bs { s with n := n' } := by
  obtain ⟨path, hc⟩ := h.chain
  refine ⟨⟨h.jd.prov, h.jd.effs, ?_, e6 ▸ h.jd.queueB, ?_, ?_⟩, path, ?_⟩
  · intro x hx; exact (hm x hx).elim (h.jd.memB x) id
  · intro t' ht
    rw [e1] at ht
    rcases List.mem_append.1 ht with ht | ht
    · exact h.jd.treeB t' ht
    · simp only [List.mem_singleton] at ht; subst ht; exact htB
  · intro t' ht
    rw [e1] at ht
    show _ ∨ ∃ t'' ∈ n'.tree, _
    rw [e1]
    rcases List.mem_append.1 ht with ht | ht
    · exact (h.jd.treeC t' ht).imp id (fun ⟨t'', ht'', e⟩ => ⟨t'', List.mem_append_left _ ht'', e⟩)
    · simp only [List.mem_singleton] at ht; subst ht
      exact htC.imp id (fun ⟨t'', ht'', e⟩ => ⟨t'', List.mem_append_left _ ht'', e⟩)
  · refine ⟨hc.ok, e2 ▸ hc.tip, e3 ▸ hc.utxo, e4 ▸ hc.lastH, e5 ▸ hc.tipH, ?_⟩
    intro x hx
    show ∃ t' ∈ n'.tree, _
    rw [e1]
    obtain ⟨t', ht', e⟩ := hc.inT x hx
    exact ⟨t', List.mem_append_left _ ht', e⟩

theorem inTree_iff (n : Node) (id : BlockId) : inTree n id = true ↔ id = 0 ∨ InT n.tree id := by
  simp [inTree, InT]

theorem submit_J (hwf : WF bs) (h : J bs s) (b : Block) (hb : b ∈ bs) (hf : (submit s b).foreign = false) :
    J bs (submit s b) := by
  revert hf
  unfold submit
  split
  · intro _; exact h
  · split
    · intro _; exact h
    · split
      · intro _; exact h
      · rename_i hpar
        have hpar : inTree s.n b.parent = true := by simpa using hpar
        rw [inTree_iff] at hpar
        intro hf
        have hJ := h.addTree { s.n with tree := s.n.tree ++ [⟨b.id, b.parent, b.height⟩], mem := (if s.n.mem.any (·.id == b.id) then s.n.mem else s.n.mem ++ [b]) }
            ⟨b.id, b.parent, b.height⟩ (by
              intro x hx
              have hx : x ∈ (if s.n.mem.any (·.id == b.id) then s.n.mem else s.n.mem ++ [b]) := hx
              split at hx
              · exact Or.inl hx
              · rcases List.mem_append.1 hx with hx | hx
                · exact Or.inl hx
                · simp only [List.mem_singleton] at hx; subst hx; exact Or.inr hb) rfl rfl rfl rfl rfl rfl
          ⟨b, hb, rfl, rfl, rfl⟩ hpar
        exact (commitBlock_J hwf hJ b hb ⟨⟨b.id, b.parent, b.height⟩, List.mem_append_right _ (List.mem_singleton.2 rfl), rfl⟩ hf).1

/-! ### Chain.Idle, Chain.Close, HurryUp -/

theorem idle_J (h : J bs s) : J bs (idle s) := by
  unfold idle
  split
  · exact h
  · have hN := writeAll_neutral s h.jd.queueB
    simp only []
    split
    · obtain ⟨path, hc⟩ := h.chain
      exact h.neutral (hN.trans (startSave_neutral _ false ((hc.neutral hN).cons bs)))
    · exact h.neutral hN

theorem close_J (h : J bs s) : J bs (close s) := by
  unfold close
  split
  · exact h
  · have hN := writeAll_neutral s h.jd.queueB
    simp only []
    split
    · split
      · exact h.neutral (hN.trans (hurrySave_neutral _))
      · obtain ⟨path, hc⟩ := h.chain
        exact h.neutral (hN.trans (startSave_neutral _ true ((hc.neutral hN).cons bs)))
    · exact h.neutral hN

theorem idle_foreign (s : St) : (idle s).foreign = s.foreign := by
  unfold idle
  split
  · rfl
  · have hN := writeAll_neutral (bs := s.n.queue) s (fun _ h => h)
    simp only []
    split
    · unfold startSave
      split
      · exact hN.foreign
      · simp only []
        split
        · exact hN.foreign
        · rw [(finishSave_neutral (bs := []) _ _).foreign, (fullChunks_neutral (bs := []) _ _ _).foreign]; exact hN.foreign
    · exact hN.foreign

/-! ### NewChainExt on a directory satisfying `Prov` and `DiskInv` -/

theorem path_indexed (hwf : WF bs) {P : Snap → Prop} {d : Disk} (hp : Prov bs d) (hd : DiskInv P d) :
    ∀ (path : List Block), ChainOK bs path → (headId path = 0 ∨ headId path ∈ ids d) → ∀ b ∈ path, ∃ r ∈ d.idx, r.id = b.id
  | [], _, _, _, hb => by cases hb
  | x :: rest, hc, ht, b, hb => by
    have hx : x.id ∈ ids d := ht.resolve_left (hwf.idNZ x hc.1)
    simp only [ids, List.mem_map] at hx
    obtain ⟨r, hr, hrid⟩ := hx
    rcases List.mem_cons.1 hb with hb1 | hb1
    · subst hb1; exact ⟨r, hr, hrid⟩
    · obtain ⟨b', hb', e1, e2, _⟩ := hp.idxB r hr
      have : b' = x := hwf.uniq b' hb' x hc.1 (e1.trans hrid)
      subst this
      refine path_indexed hwf hp hd rest hc.2.2.2.2 ?_ b hb1
      rw [← hc.2.1, e2]
      exact hd.idxClosed r hr

theorem loadSnap_cons {d : Disk} (hp : Prov bs d) {sn : Snap} (h : loadSnap d = some sn) : Cons bs sn := by
  unfold loadSnap at h
  split at h
  · rename_i x hx; cases h; exact hp.dbB _ hx
  · exact hp.oldB _ h

theorem openNode_J (hwf : WF bs) {P : Snap → Prop} {d : Disk} (hp : Prov bs d) (hd : DiskInv P d) (bigs : List Coin) (skip : Nat)
    {s1 : St} (ho : openNode d bigs skip = .ok s1) : J bs s1 ∧ s1.foreign = false ∧ s1.err = none := by
  have hd1 := recover_inv hd
  have hf := recover_fields d
  have hsn := recover_snap d
  have hp1 : Prov bs (recoverUnspent d).1 := by
    show Prov bs (applyAll d (recoverUnspent d).2.1)
    apply applyAll_prov _ _ hp
    intro e he
    simp only [recoverUnspent, List.mem_append, List.mem_singleton, List.mem_map] at he
    rcases he with he | ⟨t, _, he⟩
    · rw [he]; trivial
    · rw [← he]; trivial
  have hes : ∀ e ∈ (recoverUnspent d).2.1, EffB bs e.1 := by
    intro e he
    simp only [recoverUnspent, List.mem_append, List.mem_singleton, List.mem_map] at he
    rcases he with he | ⟨t, _, he⟩
    · rw [he]; trivial
    · rw [← he]; trivial
  have hrecs : ((recoverUnspent d).1.idx.filter (fun r => !r.invalid)) = (recoverUnspent d).1.idx := by
    rw [List.filter_eq_self]; intro r hr; simp [hd1.idxValid r hr]
  have htree := loadTree_all hd1
  have htB : ∀ t ∈ (recoverUnspent d).1.idx.map (fun r => ({ id := r.id, parent := r.parent, height := r.height } : TNode)),
      ∃ b ∈ bs, b.id = t.id ∧ b.parent = t.parent ∧ b.height = t.height := by
    intro t ht
    simp only [List.mem_map] at ht
    obtain ⟨r, hr, rfl⟩ := ht
    exact hp1.idxB r hr
  have htC : ∀ t ∈ (recoverUnspent d).1.idx.map (fun r => ({ id := r.id, parent := r.parent, height := r.height } : TNode)),
      t.parent = 0 ∨ ∃ t' ∈ (recoverUnspent d).1.idx.map (fun r => ({ id := r.id, parent := r.parent, height := r.height } : TNode)), t'.id = t.parent := by
    intro t ht
    simp only [List.mem_map] at ht
    obtain ⟨r, hr, rfl⟩ := ht
    refine (hd1.idxClosed r hr).imp id ?_
    intro hm
    simp only [ids, List.mem_map] at hm
    obtain ⟨r', hr', e⟩ := hm
    exact ⟨_, List.mem_map_of_mem hr', e⟩
  revert ho
  unfold openNode
  simp only [hrecs, htree]
  cases hl : (recoverUnspent d).2.2 with
  | none =>
    intro ho
    simp only [Except.ok.injEq] at ho
    subst ho
    refine ⟨⟨⟨hp1, hes, ?_, ?_, htB, htC⟩, [], ⟨trivial, rfl, SameSet.refl _, rfl, rfl, ?_⟩⟩, rfl, rfl⟩
    · intro b hb; cases hb
    · intro b hb; cases hb
    · intro b hb; cases hb
  | some sn =>
    have hl' : loadSnap d = some sn := by rw [← hsn, hl]
    have hls : loadSnap (recoverUnspent d).1 = some sn := by rw [loadSnap_of _ _ hf.1 hf.2.1]; exact hl'
    have hg := loadSnap_good hd1 hls
    obtain ⟨path, c1, c2, c3, c4⟩ := loadSnap_cons hp1 hls
    simp only []
    split
    · intro ho; cases ho
    · intro ho
      simp only [Except.ok.injEq] at ho
      subst ho
      refine ⟨⟨⟨hp1, hes, ?_, ?_, htB, htC⟩, path, ⟨c1, c2, c3, c4, c4, ?_⟩⟩, rfl, rfl⟩
      · intro b hb; cases hb
      · intro b hb; cases hb
      · intro b hb
        obtain ⟨r, hr, e⟩ := path_indexed hwf hp1 hd1 path c1 (c2 ▸ hg.2) b hb
        exact ⟨_, List.mem_map_of_mem hr, e⟩

/-! ### the client's recovery loop -/

theorem feedPath_mono : ∀ (p : List BlockId) (s : St), (feedPath s p).foreign = false → s.foreign = false
  | [], _, h => h
  | id :: rest, s, h => by
    unfold feedPath at h
    split at h
    · exact h
    · split at h
      · rwa [(fail_frame _ _).2.2.2] at h
      · have := commitBlock_mono _ _ (feedPath_mono rest _ h)
        rwa [(abortSave_neutral (bs := []) s).foreign] at this

theorem feedPath_J (hwf : WF bs) : ∀ (p : List BlockId) (s : St), J bs s → (∀ id ∈ p, InT s.n.tree id) →
    (feedPath s p).foreign = false → J bs (feedPath s p)
  | [], _, h, _, _ => h
  | id :: rest, s, h, hin, hf => by
    have hf0 := hf
    revert hf
    unfold feedPath
    split
    · intro _; exact h
    · split
      · intro _
        obtain ⟨a, b, c, _⟩ := fail_frame s "No data for block"
        exact ⟨h.jd.fail _, by rw [a]; exact h.chain⟩
      · rename_i b hb
        intro hf
        have hbs : b ∈ bs := h.jd.prov.datB b (List.mem_of_find?_eq_some hb)
        have hbid : b.id = id := by simpa using List.find?_some hb
        have hN := abortSave_neutral (bs := bs) s
        have hf1 : (commitBlock (abortSave s) b).foreign = false := feedPath_mono rest _ hf
        obtain ⟨h1, t1⟩ := commitBlock_J hwf (h.neutral hN) b hbs (by rw [hN.tree, hbid]; exact hin id (by simp)) hf1
        refine feedPath_J hwf rest _ h1 ?_ hf
        intro x hx
        rw [t1, hN.tree]; exact hin x (by simp [hx])

theorem down_inT {tree : List TNode} : ∀ (p : List BlockId) (cur : BlockId), Down tree cur p → ∀ id ∈ p, InT tree id
  | [], _, _, _, h => by cases h
  | x :: r, _, hd, id, h => by
    rcases List.mem_cons.1 h with h | h
    · subst h; exact hd.1
    · exact down_inT r x hd.2.2 id h

theorem farthest_in (n : Node) : (farthest n).1 = 0 ∨ InT n.tree (farthest n).1 := by
  unfold farthest
  have key : ∀ (l : List TNode) (acc : BlockId × Nat × Bool), (∀ t ∈ l, t ∈ n.tree) → (acc.1 = 0 ∨ InT n.tree acc.1) →
      ((l.foldl (fun (acc : BlockId × Nat × Bool) t =>
        if t.height > acc.2.1 then (t.id, t.height, false)
        else if t.height == acc.2.1 && acc.2.1 != 0 then (acc.1, acc.2.1, true)
        else acc) acc).1 = 0 ∨ InT n.tree (l.foldl (fun (acc : BlockId × Nat × Bool) t =>
        if t.height > acc.2.1 then (t.id, t.height, false)
        else if t.height == acc.2.1 && acc.2.1 != 0 then (acc.1, acc.2.1, true)
        else acc) acc).1) := by
    intro l
    induction l with
    | nil => intro acc _ h; exact h
    | cons t l ih =>
      intro acc hl hacc
      simp only [List.foldl_cons]
      apply ih _ (fun x hx => hl x (by simp [hx]))
      split
      · exact Or.inr ⟨t, hl t (by simp), rfl⟩
      · split
        · exact hacc
        · exact hacc
  exact key n.tree (0, 0, false) (fun _ h => h) (Or.inl rfl)

theorem clientRecover_mono (s : St) : (clientRecover s).foreign = false → s.foreign = false := by
  unfold clientRecover
  simp only []
  split
  · exact id
  · split
    · rw [(fail_frame _ _).2.2.2]; exact id
    · exact feedPath_mono _ _

theorem clientRecover_J (hwf : WF bs) (h : J bs s) (hf : (clientRecover s).foreign = false) : J bs (clientRecover s) := by
  revert hf
  unfold clientRecover
  simp only []
  split
  · intro _; exact h
  · split
    · intro _
      obtain ⟨a, _⟩ := fail_frame s "unknown path to block"
      exact ⟨h.jd.fail _, by rw [a]; exact h.chain⟩
    · rename_i p hp
      intro hf
      have hdn := pathUp_down h.jd _ _ _ [] p (farthest_in s.n) trivial hp
      exact feedPath_J hwf p s h (down_inT p _ hdn.1) hf

/-! ### one operation, whole histories -/

theorem step_mono (s : St) (op : Op) : (step s op).foreign = false → s.foreign = false := by
  cases op with
  | submit b => exact submit_mono s b
  | idle => rw [show step s .idle = idle s from rfl, idle_foreign]; exact id
  | close =>
    simp only [step]
    unfold close
    split
    · exact id
    · have hN := writeAll_neutral (bs := s.n.queue) s (fun _ h => h)
      simp only []
      split
      · split
        · rw [(hurrySave_neutral (bs := []) _).foreign, hN.foreign]; exact id
        · unfold startSave
          split
          · rw [hN.foreign]; exact id
          · simp only [Bool.not_true, Bool.and_false, Bool.false_and, Bool.false_eq_true, if_false]
            rw [(finishSave_neutral (bs := []) _ _).foreign, (fullChunks_neutral (bs := []) _ _ _).foreign]
            show (writeAll s).foreign = false → _
            rw [hN.foreign]; exact id
      · rw [hN.foreign]; exact id
  | skip k => exact id
  | pause b => exact id
  | hurry =>
    simp only [step]
    split
    · exact id
    · rw [(hurrySave_neutral (bs := []) _).foreign]; exact id
  | reopen =>
    simp only [step]
    split
    · exact id
    · split
      · intro hf
        have hf : (s.foreign || _) = false := hf
        rw [Bool.or_eq_false_iff] at hf
        exact hf.1
      · intro hf
        have hf : (s.foreign || _) = false := hf
        rw [Bool.or_eq_false_iff] at hf
        exact hf.1

variable {P : Snap → Prop} {base : Disk} {Q : List Block}

theorem step_J (hwf : WF bs) (hq : InvQ ⟨P, base, (· = 0), [], Q, Q⟩ s) (h : J bs s) (op : Op)
    (hb : ∀ b, op = .submit b → b ∈ bs) (hf : (step s op).foreign = false) : J bs (step s op) := by
  cases op with
  | submit b => exact submit_J hwf h b (hb b rfl) hf
  | idle => exact idle_J h
  | close => exact close_J h
  | skip k => exact h.neutral (Neutral.setNode s _ rfl rfl rfl rfl rfl (fun _ h => Or.inl h) (fun _ h => Or.inl h))
  | pause b => exact h.neutral (Neutral.setNode s _ rfl rfl rfl rfl rfl (fun _ h => Or.inl h) (fun _ h => Or.inl h))
  | hurry =>
    simp only [step]
    split
    · exact h
    · exact h.neutral (hurrySave_neutral _)
  | reopen =>
    revert hf
    simp only [step]
    split
    · intro _; exact h
    · unfold recover
      cases ho : openNode s.d s.n.bigs 0 with
      | error e =>
        intro _
        obtain ⟨a, _⟩ := fail_frame s e
        exact ⟨(h.jd.fail _).setForeign _, by show ∃ path, Chain bs (s.fail e).n path; rw [a]; exact h.chain⟩
      | ok s1 =>
        obtain ⟨h1, f1, _⟩ := openNode_J hwf h.jd.prov hq.disk s.n.bigs 0 ho
        simp only []
        split
        · intro _
          rename_i e0 _ _
          exact ⟨(h.jd.fail e0).setForeign _, by show ∃ path, Chain bs (s.fail e0).n path; rw [(fail_frame s _).1]; exact h.chain⟩
        · rename_i s' heq
          split at heq
          · cases heq
          · cases heq
            intro hf
            have hf : (s.foreign || (clientRecover s1).foreign) = false := hf
            rw [Bool.or_eq_false_iff] at hf
            have h2 := clientRecover_J hwf h1 hf.2
            refine ⟨⟨h2.jd.prov, ?_, h2.jd.memB, h2.jd.queueB, h2.jd.treeB, h2.jd.treeC⟩, h2.chain.imp (fun _ hc => hc.congr rfl rfl rfl rfl rfl)⟩
            intro e he
            rcases List.mem_append.1 he with he | he
            · exact h.jd.effs e he
            · exact h2.jd.effs e he

theorem foldl_step_mono : ∀ (ops : List Op) (s : St), (ops.foldl step s).foreign = false → s.foreign = false
  | [], _, h => h
  | op :: rest, s, h => step_mono s op (foldl_step_mono rest _ h)

theorem foldl_step_J (hwf : WF bs) : ∀ (ops : List Op) (s : St) (Q : List Block), InvQ ⟨P, base, (· = 0), [], Q, Q⟩ s → J bs s →
    (∀ b ∈ submitted ops, b ∈ bs) →
    (∀ j, j < ops.length → P ⟨((ops.take j).foldl step s).n.tip, ((ops.take j).foldl step s).n.lastHeight, ((ops.take j).foldl step s).n.utxo⟩) →
    (ops.foldl step s).foreign = false → J bs (ops.foldl step s)
  | [], _, _, _, h, _, _, _ => h
  | op :: rest, s, _, hq, h, hb, hP, hf => by
    obtain ⟨q, hq1⟩ := step_inv hq (hP 0 (by simp)) op
    have h1 := step_J hwf hq h op (by
      intro b e; subst e; exact hb b (by simp [submitted])) (foldl_step_mono rest _ hf)
    refine foldl_step_J hwf rest _ q hq1 h1 ?_ (fun j hj => by
      have := hP (j + 1) (by simp; omega)
      simpa using this) hf
    intro b hbm
    apply hb
    cases op <;> simp [submitted, hbm]

theorem init_J (bigs : List Coin) : J bs { n := { bigs := bigs }, d := {} } := by
  refine ⟨⟨Prov.empty bs, ?_, ?_, ?_, ?_, ?_⟩, [], ⟨trivial, rfl, SameSet.refl _, rfl, rfl, ?_⟩⟩ <;> intro x hx <;> cases hx

/-- every history: at the end (hence, taking prefixes, at every operation boundary) the invariant holds -/
theorem run_J (hwf : WF bs) (bigs : List Coin) (ops : List Op) (hb : ∀ b ∈ submitted ops, b ∈ bs)
    (hf : (run bigs ops).foreign = false) : J bs (run bigs ops) := by
  unfold run at hf ⊢
  refine foldl_step_J (P := PastState bigs ops) hwf ops _ [] (init_inv bigs) (init_J bigs) hb ?_ hf
  intro j hj
  exact ⟨j, by omega, rfl, rfl, rfl⟩

/-- what the invariant says about tip and set -/
theorem J.result (hwf : WF bs) (h : J bs s) :
    (s.n.tip = 0 ∨ ∃ b ∈ bs, b.id = s.n.tip) ∧ sameSet s.n.utxo (replay bs s.n.tip) = true := by
  obtain ⟨path, hc⟩ := h.chain
  constructor
  · cases path with
    | nil => exact Or.inl hc.tip
    | cons b rest => exact Or.inr ⟨b, hc.ok.1, hc.tip.symm⟩
  · rw [sameSet_iff, hc.tip, replay_eq_rp hwf hc.ok]; exact hc.utxo

theorem submitted_take : ∀ (ops : List Op) (j : Nat), ∀ b ∈ submitted (ops.take j), b ∈ submitted ops
  | [], j, b, h => by simp [submitted] at h
  | _ :: _, 0, b, h => by simp [submitted] at h
  | op :: rest, j + 1, b, h => by
    cases op with
    | submit x =>
      simp only [List.take_succ_cons, submitted, List.mem_cons] at h ⊢
      exact h.imp id (submitted_take rest j b)
    | _ => exact submitted_take rest j b (by simpa [submitted] using h)

theorem run_prefix_foreign (bigs : List Coin) (ops : List Op) (j : Nat) (h : (run bigs ops).foreign = false) :
    (run bigs (ops.take j)).foreign = false := by
  have : run bigs ops = (ops.drop j).foldl step (run bigs (ops.take j)) := by
    unfold run
    rw [← List.foldl_append, List.take_append_drop]
  rw [this] at h
  exact foldl_step_mono _ _ h

/-- the running node, at every operation boundary of every history -/
theorem run_prefix_J (hwf : WF bs) (bigs : List Coin) (ops : List Op) (hb : ∀ b ∈ submitted ops, b ∈ bs)
    (hf : (run bigs ops).foreign = false) (j : Nat) : J bs (run bigs (ops.take j)) :=
  run_J hwf bigs (ops.take j) (fun b h => hb b (submitted_take ops j b h)) (run_prefix_foreign bigs ops j hf)

theorem foldl_submit_mono : ∀ (l : List Block) (s : St), (l.foldl submit s).foreign = false → s.foreign = false
  | [], _, h => h
  | b :: rest, s, h => submit_mono s b (foldl_submit_mono rest _ h)

theorem foldl_submit_J (hwf : WF bs) : ∀ (l : List Block) (s : St), J bs s → (∀ b ∈ l, b ∈ bs) →
    (l.foldl submit s).foreign = false → J bs (l.foldl submit s)
  | [], _, h, _, _ => h
  | b :: rest, s, h, hb, hf =>
    foldl_submit_J hwf rest _ (submit_J hwf h b (hb b (by simp)) (foldl_submit_mono rest _ hf)) (fun x hx => hb x (by simp [hx])) hf

/-- the three stages of `crashAt` (NewChainExt on the crash prefix, the client's recovery loop, feeding every block) -/
theorem crash_J (hwf : WF bs) (bigs : List Coin) (ops : List Op) (k : Nat) (hb : ∀ b ∈ submitted ops, b ∈ bs)
    (hrun : (run bigs ops).foreign = false) {s1 s2 s3 : St} (hc : crashAt bigs ops k = .ok (s1, s2, s3)) :
    J bs s1 ∧ (s2.foreign = false → J bs s2) ∧ (s3.foreign = false → J bs s3) := by
  have hw := run_J hwf bigs ops hb hrun
  obtain ⟨q, hq⟩ := run_inv bigs ops
  have hd : DiskInv (PastState bigs ops) (applyAll {} ((run bigs ops).es.take k)) := hq.pref k
  have hp : Prov bs (applyAll {} ((run bigs ops).es.take k)) :=
    applyAll_prov _ _ (Prov.empty bs) (fun e he => hw.jd.effs e (List.mem_of_mem_take he))
  unfold crashAt at hc
  simp only [] at hc
  cases ho : openNode (applyAll {} ((run bigs ops).es.take k)) bigs 0 with
  | error e => rw [ho] at hc; cases hc
  | ok t1 =>
    rw [ho] at hc
    simp only [] at hc
    obtain ⟨h1, f1, _⟩ := openNode_J hwf hp hd bigs 0 ho
    split at hc
    · cases hc
    · split at hc
      · cases hc
      · simp only [Except.ok.injEq, Prod.mk.injEq] at hc
        obtain ⟨e1, e2, e3⟩ := hc
        subst e1 e2
        have k2 : (clientRecover t1).foreign = false → J bs (clientRecover t1) := clientRecover_J hwf h1
        refine ⟨h1, k2, ?_⟩
        intro hf3
        subst e3
        have hf3 : (idle ((submitted ops).foldl submit { clientRecover t1 with es := [] })).foreign = false := hf3
        rw [idle_foreign] at hf3
        have hf2 : (clientRecover t1).foreign = false := foldl_submit_mono _ { clientRecover t1 with es := [] } hf3
        have h2 := k2 hf2
        have h2' : J bs { clientRecover t1 with es := [] } :=
          ⟨⟨h2.jd.prov, (by intro e he; cases he), h2.jd.memB, h2.jd.queueB, h2.jd.treeB, h2.jd.treeC⟩, h2.chain⟩
        exact idle_J (foldl_submit_J hwf _ _ h2' hb hf3)

end GocoinV.Proofs.C07
