/-
  Proofs.C15Bch3 — weight 3: an error word of ≤ 89 symbols with at most three non-zero symbols has a non-zero
  syndrome. Reduction (linearity + injectivity of the step, Proofs/C15Bch.lean): a weight-3 word with zero
  syndrome gives x^k1·u + x^k2·v = w (a constant) with 89 ≥ k1 > k2 ≥ 1, hence equal high parts
  (x^k1·u mod g) >>> 5 = (x^k2·v mod g) >>> 5; `orbit3_tab` (kernel computation) shows that the high part
  determines 128·u + k.
-/
import GocoinV.Proofs.C15Bch
import GocoinV.Proofs.C15BchTree
namespace GocoinV.Bech32
open Gen.Bech32Consts

def orbitChk : Nat → Nat → UInt32 → Nat → Bool
  | 0, _, _, _ => true
  | n+1, k, x, u =>
    let y := polymodStep x
    (orbitTree.lookup (y >>> 5).toNat == some (u * 128 + (k + 1))) && orbitChk n (k + 1) y u

theorem orbitChk_sound (n : Nat) : ∀ k x u, orbitChk n k x u = true → ∀ j, 1 ≤ j → j ≤ n →
    orbitTree.lookup ((iter j x) >>> 5).toNat = some (u * 128 + (k + j)) := by
  induction n with
  | zero => intro k x u _ j h1 h2; omega
  | succ n ih =>
    intro k x u h j h1 h2
    simp only [orbitChk, Bool.and_eq_true, beq_iff_eq] at h
    cases j with
    | zero => omega
    | succ j =>
      cases j with
      | zero => exact h.1
      | succ j =>
        have := ih (k + 1) _ u h.2 (j + 1) (by omega) (by omega)
        show orbitTree.lookup (iter (j + 1) (polymodStep x) >>> 5).toNat = _
        rw [this]; congr 1; omega

set_option maxRecDepth 100000 in
theorem orbit3_tab_a : ∀ u : Fin 16, u.val ≠ 0 → orbitChk 89 0 (UInt32.ofNat u.val) u.val = true := by
  decide +kernel

set_option maxRecDepth 100000 in
theorem orbit3_tab_b : ∀ u : Fin 16, orbitChk 89 0 (UInt32.ofNat (u.val + 16)) (u.val + 16) = true := by
  decide +kernel

/-- the high part of x^j·u mod g determines (u, j), 1 ≤ j ≤ 89 -/
theorem orbit_lookup (u : UInt8) (hu : u ≠ 0) (h31 : u.toNat ≤ 31) (j : Nat) (h1 : 1 ≤ j) (h2 : j ≤ 89) :
    orbitTree.lookup ((iter j u.toUInt32) >>> 5).toNat = some (u.toNat * 128 + j) := by
  have hne : u.toNat ≠ 0 := fun h => hu (UInt8.toNat_inj.mp (by simpa using h))
  by_cases hlt : u.toNat < 16
  · have := orbitChk_sound 89 0 _ _ (orbit3_tab_a ⟨u.toNat, hlt⟩ hne) j h1 h2
    simpa [ofNat_toNat8] using this
  · have e : u.toNat - 16 + 16 = u.toNat := by omega
    have := orbitChk_sound 89 0 _ _ (orbit3_tab_b ⟨u.toNat - 16, by omega⟩) j h1 h2
    simp only [e, ofNat_toNat8, Nat.zero_add] at this
    exact this

theorem shr5_eq_of_xor_small (A B W : UInt32) (h : A ^^^ B = W) (hw : W.toNat < 32) :
    A >>> 5 = B >>> 5 := by
  have hA : A = B ^^^ W := by rw [← h, UInt32.xor_comm A B, xor_cancel_left]
  have hW : W >>> 5 = 0 := by
    apply UInt32.toNat_inj.1
    rw [UInt32.toNat_shiftRight]
    have h5 : (5 : UInt32).toNat % 32 = 5 := by decide
    rw [h5, Nat.shiftRight_eq_div_pow]
    simp only [UInt32.toNat_zero]
    omega
  rw [hA, UInt32.shiftRight_xor, hW, UInt32.xor_zero]

/-- an error word of at most 89 symbols with one, two or three non-zero symbols has a non-zero syndrome -/
theorem pf_detect3 (e : Bytes) (hsym : ∀ x ∈ e, x.toNat ≤ 31) (hlen : e.length ≤ 89) (hw : weight e ≤ 3)
    (h : pf 0 e = 0) : e = List.replicate e.length 0 := by
  rcases split_nz e with h0 | ⟨a, u, t1, he, hu, hwe, hle⟩
  · exact h0
  exfalso
  obtain ⟨hum, ht1m⟩ := mem_of_split he
  rw [he, pf_zeros, iter_zero, pf_cons, ps_zero, UInt32.zero_xor] at h
  rcases split_nz t1 with h1 | ⟨b, v, t2, ht1, hv, hwt1, hlt1⟩
  · rw [h1, ← List.append_nil (List.replicate _ _), pf_zeros] at h
    exact u8_ne_zero_toUInt32 u hu (iter_inj0 _ _ (sym_hi u) h)
  obtain ⟨hvm, ht2m⟩ := mem_of_split ht1
  rw [ht1, pf_zeros, pf_cons, ← iter_succ'] at h
  have hX2 : hi30 (iter (b + 1) u.toUInt32 ^^^ v.toUInt32) := xor_hi (iter_hi _ _ (sym_hi u)) (sym_hi v)
  rcases split_nz t2 with h2 | ⟨c, w, t3, ht2, hwz, hwt2, hlt2⟩
  · rw [h2, ← List.append_nil (List.replicate _ _), pf_zeros] at h
    have hz := iter_inj0 _ _ hX2 h
    have heq : iter (b + 1) u.toUInt32 = v.toUInt32 := UInt32.xor_eq_zero_iff.mp hz
    have hge := orbit_ge32 u hu (hsym u hum) (b + 1) (by omega) (by omega)
    rw [heq] at hge
    have := hsym v (ht1m v hvm)
    simp only [UInt8.toNat_toUInt32] at hge
    omega
  obtain ⟨hwm, ht3m⟩ := mem_of_split ht2
  rw [ht2, pf_zeros, pf_cons, ← iter_succ'] at h
  rcases split_nz t3 with h3 | ⟨_, _, t4, _, _, hwt3, _⟩
  · -- weight 3
    rw [h3, ← List.append_nil (List.replicate _ _), pf_zeros] at h
    have hz := iter_inj0 _ _ (xor_hi (iter_hi _ _ hX2) (sym_hi w)) h
    rw [iter_xor _ _ _ (iter_hi _ _ (sym_hi u)) (sym_hi v), ← iter_add] at hz
    have hxw : iter (c + 1 + (b + 1)) u.toUInt32 ^^^ iter (c + 1) v.toUInt32 = w.toUInt32 :=
      UInt32.xor_eq_zero_iff.mp hz
    have hw31 := hsym w (ht1m w (ht2m w hwm))
    have hhigh := shr5_eq_of_xor_small _ _ _ hxw (by simp only [UInt8.toNat_toUInt32]; omega)
    have l1 := orbit_lookup u hu (hsym u hum) (c + 1 + (b + 1)) (by omega) (by omega)
    have l2 := orbit_lookup v hv (hsym v (ht1m v hvm)) (c + 1) (by omega) (by omega)
    rw [hhigh, l2] at l1
    have := Option.some.inj l1
    have hu31 := hsym u hum
    have hv31 := hsym v (ht1m v hvm)
    omega
  · omega

end GocoinV.Bech32
