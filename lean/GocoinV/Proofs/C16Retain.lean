/-
  Proofs.C16Retain — retention (DataFilesKeep ≠ 0, DataFilesBackup): which data file `BlockGet` opens for a number
  (`fileOf`: main directory first, then oldat/), and the relation `Keeps fs fs'` — every data-file number that is not in the
  ghost `FS.lost` afterwards was not lost before and still resolves to the same bytes — established for `removeDatFile`
  (roll-over), `loadCleanup` and the O_CREATE of LoadBlockIndex.
-/
import GocoinV.Proofs.C16Inv
import GocoinV.Spec.BlockStoreMap
namespace GocoinV.BlockDB
def fileOf (fs : FS) (i : Nat) : Option Bytes := (AL.get fs.dats i).orElse (fun _ => AL.get fs.olds i)

theorem fileOf_dats (fs : FS) (i : Nat) (f : Bytes) (h : AL.get fs.dats i = some f) : fileOf fs i = some f := by
  unfold fileOf; rw [h]; rfl
theorem fileOf_none (fs : FS) (i : Nat) (h : AL.get fs.dats i = none) : fileOf fs i = AL.get fs.olds i := by
  unfold fileOf; rw [h]; rfl

/-- nothing that is still within retention changes: a data-file number that is not lost afterwards was not lost before, and the
    file `BlockGet` would open for it (main directory, then oldat/) has the same contents -/
def Keeps (fs fs' : FS) : Prop :=
  ∀ j, fs'.lost.contains j = false → fs.lost.contains j = false ∧ ∀ file, fileOf fs j = some file → fileOf fs' j = some file

theorem Keeps.refl (fs : FS) : Keeps fs fs := fun _ h => ⟨h, fun _ hf => hf⟩
theorem Keeps.trans {a b c : FS} (h1 : Keeps a b) (h2 : Keeps b c) : Keeps a c := by
  intro j hj
  obtain ⟨x1, x2⟩ := h2 j hj
  obtain ⟨y1, y2⟩ := h1 j x1
  exact ⟨y1, fun f hf => x2 f (y2 f hf)⟩

theorem removeDatFile_keeps (o : Opts) (fs : FS) (i : Nat) : Keeps fs (removeDatFile o fs i) := by
  unfold removeDatFile
  split
  · exact Keeps.refl fs
  · rename_i content hc
    split
    · intro j hj
      refine ⟨hj, ?_⟩
      intro file hf
      unfold fileOf at *
      simp only [AL.get_del, AL.get_set]
      by_cases e : i = j
      · subst e
        rw [hc] at hf
        simp only [↓reduceIte]
        exact hf
      · simp only [e, ↓reduceIte]; exact hf
    · intro j hj
      simp only [List.contains_cons, Bool.or_eq_false_iff, beq_eq_false_iff_ne, ne_eq] at hj
      refine ⟨hj.2, ?_⟩
      intro file hf
      unfold fileOf at *
      simp only [AL.get_del]
      have : ¬ i = j := fun e => hj.1 e.symm
      simp only [this, ↓reduceIte]; exact hf

theorem removeDatFile_dats_other (o : Opts) (fs : FS) (i j : Nat) (h : i ≠ j) :
    AL.get (removeDatFile o fs i).dats j = AL.get fs.dats j := by
  unfold removeDatFile
  split
  · rfl
  · split <;> simp only [AL.get_del, h, ↓reduceIte]

theorem cleanupGo_keeps (o : Opts) : ∀ (f i : Nat) (fs : FS), 1 ≤ i → Keeps fs (cleanupGo o f i fs) ∧
    ∀ j, i ≤ j → AL.get (cleanupGo o f i fs).dats j = AL.get fs.dats j := by
  intro f
  induction f with
  | zero => intro i fs _; exact ⟨Keeps.refl fs, fun _ _ => rfl⟩
  | succ f ih =>
    intro i fs hi
    unfold cleanupGo
    simp only
    split
    · exact ⟨removeDatFile_keeps o fs _, fun j hj => removeDatFile_dats_other o fs _ j (by omega)⟩
    · obtain ⟨a, b⟩ := ih (i - 1) (removeDatFile o fs (i - 1)) (by omega)
      refine ⟨(removeDatFile_keeps o fs _).trans a, ?_⟩
      intro j hj
      rw [b j (by omega)]
      exact removeDatFile_dats_other o fs _ j (by omega)

theorem loadCleanup_keeps (o : Opts) (m : Nat) (fs : FS) : Keeps fs (loadCleanup o m fs) ∧
    AL.get (loadCleanup o m fs).dats m = AL.get fs.dats m := by
  unfold loadCleanup
  split
  · rename_i h
    obtain ⟨a, b⟩ := cleanupGo_keeps o 3 (m - o.keep) fs (by omega)
    exact ⟨a, b m (by omega)⟩
  · exact ⟨Keeps.refl fs, rfl⟩

theorem createCur_keeps (fs : FS) (m : Nat) : Keeps fs (createCur fs m) ∧ ∃ f, AL.get (createCur fs m).dats m = some f := by
  unfold createCur
  split
  · rename_i f hf; exact ⟨Keeps.refl fs, f, hf⟩
  · rename_i hn
    split
    · -- os.Rename(oldat/m, main/m): `fileOf` resolves m to the same bytes, nothing is lost
      rename_i content hc
      have ho : AL.get fs.olds m = some content := by
        split at hc
        · exact hc
        · cases hc
      refine ⟨?_, content, by simp only [AL.get_set, ↓reduceIte]⟩
      intro j hj
      refine ⟨hj, ?_⟩
      intro file hf
      unfold fileOf at *
      simp only [AL.get_set, AL.get_del]
      by_cases e : m = j
      · subst e
        rw [hn, ho] at hf
        simp only [↓reduceIte]; exact hf
      · simp only [e, ↓reduceIte]; exact hf
    · refine ⟨?_, [], by simp only [AL.get_set, ↓reduceIte]⟩
      intro j hj
      simp only at hj
      by_cases e : m = j
      · subst e
        cases ho : AL.get fs.olds m with
        | some x => simp [ho] at hj
        | none =>
          simp only [ho, Option.isSome_none, Bool.false_eq_true, ↓reduceIte] at hj
          refine ⟨hj, ?_⟩
          intro file hf
          rw [fileOf_none fs m hn, ho] at hf; cases hf
      · have hl : fs.lost.contains j = false := by
          split at hj
          · simp only [List.contains_cons, Bool.or_eq_false_iff] at hj; exact hj.2
          · exact hj
        refine ⟨hl, ?_⟩
        intro file hf
        unfold fileOf at *
        simp only [AL.get_set, e, ↓reduceIte]; exact hf

/-- with an empty oldat/ the opening neither loses nor moves anything (whatever `restoresBackup` is) -/
theorem createCur_noolds (fs : FS) (m : Nat) (h2 : fs.olds = []) :
    (createCur fs m).lost = fs.lost ∧ (createCur fs m).olds = [] := by
  unfold createCur
  split
  · exact ⟨rfl, h2⟩
  · simp only [h2, AL.get, ite_self, Option.isSome_none, Bool.false_eq_true, ↓reduceIte, and_self]

theorem reopen_fs (env : Env) (fs : FS) (o : Opts) :
    (reopen env fs o).1.fs = loadCleanup (if o.maxCached = 0 then { o with maxCached := 100 } else o)
      (loadLoop env (fs.idx.length / RECSIZE + 1) fs.idx {}).maxdatfileidx
      (createCur fs (loadLoop env (fs.idx.length / RECSIZE + 1) fs.idx {}).maxdatfileidx) := by
  unfold reopen
  rfl
end GocoinV.BlockDB
