/-
  Proofs.C06Chain — helper lemmas about Model/ChainTree for Props/C06.
-/
import GocoinV.Model.ChainTree
import GocoinV.Proofs.C06Utxo
namespace GocoinV.ChainTree
open GocoinV.UtxoOps

theorem cbt_fields (c : Chain) (h : Nat) (w : Bool) (t : List Nat) (ch : Changes) :
    (commitBlockTxs c h w t ch).utxo = commit c.utxo ch ∧ (commitBlockTxs c h w t ch).lastHeight = h ∧
    (commitBlockTxs c h w t ch).tip = c.tip ∧ (commitBlockTxs c h w t ch).nodes = c.nodes := by
  unfold commitBlockTxs
  by_cases hv : validChangesB c.utxo t ch = true <;> simp [hv]


theorem alookup_aset {β} (k : Nat) (v : β) (l : List (Nat × β)) : alookup k (aset k v l) = some v := by
  induction l with
  | nil => simp [aset, alookup]
  | cons p ps ih =>
    obtain ⟨a, b⟩ := p
    by_cases h : a = k
    · simp [aset, alookup, h]
    · have : (a == k) = false := by simpa using h
      simp [aset, alookup, this, ih]

theorem alookup_filter_ne {β} (k j : Nat) (l : List (Nat × β)) (h : k ≠ j) :
    alookup k (l.filter (fun p => p.1 != j)) = alookup k l := by
  induction l with
  | nil => rfl
  | cons p ps ih =>
    obtain ⟨a, b⟩ := p
    by_cases h1 : a = j
    · have h2 : ¬ a = k := fun e => h (e ▸ h1)
      have h3 : (a == k) = false := by simpa using h2
      have h4 : (a != j) = false := by simp [h1]
      simp only [List.filter, h4, alookup, h3]
      exact ih
    · have h2 : (a != j) = true := by simpa using h1
      simp only [List.filter, h2, alookup]
      by_cases h3 : a = k
      · simp [h3]
      · have : (a == k) = false := by simpa using h3
        simp [this, ih]

/-- the undo file written by `commitBlockTxs` for height `h` is what `undoLast` will read -/
theorem cbt_undo_file (c : Chain) (h : Nat) (t : List Nat) (ch : Changes) :
    alookup h (commitBlockTxs c h true t ch).undoFiles = some ch.undo := by
  unfold commitBlockTxs
  by_cases hv : validChangesB c.utxo t ch = true <;> simp only [hv, if_true]
  all_goals
    by_cases hh : h > UnwindBufLen
    · simp only [hh, if_true]
      rw [alookup_filter_ne]
      · exact alookup_aset _ _ _
      · unfold UnwindBufLen at *; omega
    · simp only [hh]
      exact alookup_aset _ _ _

theorem cbt_store (c : Chain) (h : Nat) (w : Bool) (t : List Nat) (ch : Changes) :
    (commitBlockTxs c h w t ch).store = c.store := by
  unfold commitBlockTxs
  by_cases hv : validChangesB c.utxo t ch = true <;> simp [hv]

theorem getNode_id {c : Chain} {i : Nat} {n : Node} (h : getNode c i = some n) : n.id = i := by
  unfold getNode at h
  have := List.find?_some h
  simpa using this

/-- the chain right before `commitBlockTxs` in the tip-extension branch of `commitBlock` -/
def preCommit (c : Chain) (b : Block) : Chain :=
  { modNode c b.id (fun n => { n with txCount := b.txs.length }) with
    store := aset b.id { txs := b.txs, trusted := true } c.store }

theorem commitBlock_ok_eq (c : Chain) (b : Block) (h : Nat) (ch : Changes)
    (htip : c.tip = b.parent) (hok : commitTxs c.utxo h (reward h) false b.txs = .ok ch) :
    (commitBlock c b h).1 = { commitBlockTxs (preCommit c b) h true (b.txs.map (·.txid)) ch with tip := b.id } := by
  unfold commitBlock preCommit
  simp only [modNode, htip, beq_self_eq_true, if_true, hok]

theorem undoLast_ok (x : Chain) (n : Node) (blk : Stored) (undo : List Rec)
    (hn : getNode x x.tip = some n) (hs : alookup n.id x.store = some blk)
    (hu : alookup x.lastHeight x.undoFiles = some undo) :
    undoLast x = .ok { x with utxo := undoBlock x.utxo (blk.txs.map (·.txid)) undo, tip := n.parent,
                              lastHeight := x.lastHeight - 1 } := by
  unfold undoLast node!
  simp only [hn, hu]
  show (match alookup n.id x.store with
    | none => throw "panic:block not in the index"
    | some blk => pure _) = _
  rw [hs]
  rfl


end GocoinV.ChainTree
