/-
  Proofs.C06Climb — the climbing loops of MoveToBlock (`climbChecked`, `commonAnc`) and FindPathTo (`findPathTo` /
  `climbTo`) of the chain model in a well-formed tree: they never panic, never answer "cannot continue", and return
  the ancestors they are meant to find.  Core Lean only.
-/
import GocoinV.Proofs.C06Tree
namespace GocoinV.ChainTree
open GocoinV.UtxoOps

theorem not_root_of_height_pos {U : List Block} {c : Chain} (w : TreeWF U c) {x : Nat} {n : Node}
    (hn : getNode c x = some n) (hh : n.height > 0) : x ≠ c.root := by
  intro e
  obtain ⟨r, hr, h0, _⟩ := w.root
  rw [e, hr] at hn; cases hn; omega

theorem climb_check_false {U : List Block} {c : Chain} (_w : TreeWF U c) {x : Nat} {p : Node}
    (hp : getNode c x = some p) (hd : HasData c x p) : (p.txCount == 0 && p.id != c.root) = false := by
  have hid := getNode_id hp
  rcases hd with hx | hx
  · simp [hid, hx]
  · simp [hx]

/-- MoveToBlock's height-levelling loop: from node `n` (id `x`) it returns the ancestor-or-self `m` of `n` at height
    `min n.height h`; no panic, never "cannot continue" — WHEN `n` HAS ITS DATA (then so has every ancestor, `TreeWF.anc`;
    the root is exempt); the node returned has its data too. -/
theorem climbChecked_spec {U : List Block} {c : Chain} (w : TreeWF U c) (h : Nat) :
    ∀ (f x : Nat) (n : Node), getNode c x = some n → HasData c x n → f > n.height →
      ∃ m, climbChecked c h f n = .ok (some m) ∧ getNode c m.id = some m ∧ Desc c m.id x ∧
        m.height = min n.height h ∧ HasData c m.id m := by
  intro f
  induction f with
  | zero => intro x n _ _ hf; omega
  | succ f ih =>
    intro x n hn hdat hf
    rw [climbChecked]
    by_cases hh : n.height > h
    · have hx : x ≠ c.root := not_root_of_height_pos w hn (by omega)
      obtain ⟨p, hp, hph, _⟩ := w.par x n hn hx
      obtain ⟨p', hp', hpd⟩ := w.parent_has_data hn hx hdat
      rw [hp] at hp'; cases hp'
      obtain ⟨m, hm, hgm, hd, hmh, hmd⟩ := ih n.parent p hp hpd (by omega)
      refine ⟨m, ?_, hgm, Desc.trans hd (Desc.parent hn hx), by omega, hmd⟩
      simp only [hh, if_true, node!, hp, bind, Except.bind, pure, Except.pure, climb_check_false w hp hpd,
        Bool.false_eq_true, if_false, hm]
    · have hid := getNode_id hn
      refine ⟨n, ?_, by rw [hid]; exact hn, by rw [hid]; exact Desc.refl, by omega, by rw [hid]; exact hdat⟩
      simp only [hh, if_false, pure, Except.pure]

/-- MoveToBlock's third loop: two nodes of the same height are climbed in lock-step to a common ancestor-or-self. -/
theorem commonAnc_spec {U : List Block} {c : Chain} (w : TreeWF U c) :
    ∀ (f x y : Nat) (tmp cur : Node), getNode c x = some tmp → getNode c y = some cur → HasData c x tmp → HasData c y cur →
      tmp.height = cur.height → f > cur.height →
      ∃ a, commonAnc c f tmp cur = .ok (some a) ∧ getNode c a.id = some a ∧ Desc c a.id x ∧ Desc c a.id y := by
  intro f
  induction f with
  | zero => intro _ _ _ _ _ _ _ _ _ hf; omega
  | succ f ih =>
    intro x y tmp cur hx hy hdx hdy hh hf
    have hidx := getNode_id hx
    have hidy := getNode_id hy
    rw [commonAnc]
    by_cases he : tmp.id = cur.id
    · have hxy : x = y := by omega
      subst hxy
      refine ⟨cur, ?_, by rw [hidy]; exact hy, by rw [hidy]; exact Desc.refl, by rw [hidy]; exact Desc.refl⟩
      simp only [he, beq_self_eq_true, if_true, pure, Except.pure]
    · have hxy : x ≠ y := by omega
      have hpos : cur.height > 0 := by
        apply Classical.byContradiction
        intro h0
        have h1 := w.root_of_height0 hx (by omega)
        have h2 := w.root_of_height0 hy (by omega)
        omega
      have hyr : y ≠ c.root := not_root_of_height_pos w hy hpos
      have hxr : x ≠ c.root := not_root_of_height_pos w hx (by omega)
      obtain ⟨cp, hcp, hch, _⟩ := w.par y cur hy hyr
      obtain ⟨tp, htp, hth, _⟩ := w.par x tmp hx hxr
      obtain ⟨cp', hcp', hcpd⟩ := w.parent_has_data hy hyr hdy
      rw [hcp] at hcp'; cases hcp'
      obtain ⟨tp', htp', htpd⟩ := w.parent_has_data hx hxr hdx
      rw [htp] at htp'; cases htp'
      have hchk : (cur.parent != tmp.parent && cp.txCount == 0) = false := by
        by_cases hr : cur.parent = c.root
        · have h0 : cp.height = 0 := by
            obtain ⟨r, hr', h0, _⟩ := w.root
            rw [hr, hr'] at hcp; cases hcp; exact h0
          have := w.root_of_height0 htp (by omega)
          simp [hr, this]
        · have := hcpd.resolve_left hr
          simp [this]
      obtain ⟨a, ha, hga, hd1, hd2⟩ := ih tmp.parent cur.parent tp cp htp hcp htpd hcpd (by omega) (by omega)
      refine ⟨a, ?_, hga, Desc.trans hd1 (Desc.parent hx hxr), Desc.trans hd2 (Desc.parent hy hyr)⟩
      have he' : (tmp.id == cur.id) = false := by simpa using he
      simp only [he', Bool.false_eq_true, if_false, node!, hcp, htp, bind, Except.bind, pure, Except.pure, hchk, ha]

/-- FindPathTo's climbing loop: from a proper descendant `e` (id `z`) of `last` (id `x`) it reaches the child of `last`
    on the way. -/
theorem climbTo_spec {U : List Block} {c : Chain} (w : TreeWF U c) {x y : Nat} {last : Node}
    (hl : getNode c x = some last) :
    ∀ (f z : Nat) (e : Node), getNode c z = some e → Desc c x z → z ≠ x → Desc c z y → f > e.height →
      ∃ nx nxt, climbTo c last f e = .ok nx ∧ getNode c nx = some nxt ∧ nxt.parent = x ∧ nx ≠ c.root ∧ Desc c nx y := by
  intro f
  induction f with
  | zero => intro _ _ _ _ _ _ hf; omega
  | succ f ih =>
    intro z e he hd hzx hzy hf
    have hlid := getNode_id hl
    have heid := getNode_id he
    rw [climbTo]
    cases hd with
    | refl => exact absurd rfl hzx
    | @step _ e' he' hzr hd' =>
      rw [he] at he'; cases he'
      by_cases hp : e.parent = x
      · refine ⟨z, e, ?_, he, hp, hzr, hzy⟩
        simp only [hp, hlid, heid, beq_self_eq_true, if_true, pure, Except.pure]
      · obtain ⟨p, hpn, hph, _⟩ := w.par z e he hzr
        obtain ⟨na, hna, hle, _⟩ := Desc.height w hd' p hpn
        rw [hl] at hna; cases hna
        obtain ⟨nx, nxt, h1, h2, h3, h4, h5⟩ :=
          ih e.parent p hpn hd' hp (Desc.trans (Desc.parent he hzr) hzy) (by omega)
        refine ⟨nx, nxt, ?_, h2, h3, h4, h5⟩
        have hp' : (e.parent == last.id) = false := by rw [hlid]; simpa using hp
        have hle' : ¬ (e.height ≤ last.height) := by omega
        simp only [hp', Bool.false_eq_true, if_false, hle', node!, hpn, bind, Except.bind, pure, Except.pure, h1]

/-- FindPathTo: for a proper descendant `en` (id `y`) of `last` (id `x`) it returns the child of `last` on the way. -/
theorem findPathTo_spec {U : List Block} {c : Chain} (w : TreeWF U c) {x y : Nat} {last en : Node}
    (hl : getNode c x = some last) (he : getNode c y = some en) (hd : Desc c x y) (hne : x ≠ y) :
    ∃ nx nxt, findPathTo c last en = .ok (some nx) ∧ getNode c nx = some nxt ∧ nxt.parent = x ∧ nx ≠ c.root ∧
      Desc c nx y := by
  have hlid := getNode_id hl
  have heid := getNode_id he
  have hid : (last.id == en.id) = false := by rw [hlid, heid]; simpa using hne
  obtain ⟨na, hna, hle, heq⟩ := Desc.height w hd en he
  rw [hl] at hna; cases hna
  have hlt : ¬ (en.height ≤ last.height) := by
    intro h
    exact hne (heq (by omega))
  obtain ⟨ch, n, hn, hnp, hcr, hdc⟩ := Desc.child_split hd hne
  obtain ⟨p, hp, _, hmem⟩ := w.par ch n hn hcr
  rw [hnp, hl] at hp; cases hp
  unfold findPathTo
  simp only [hid, Bool.false_eq_true, if_false, hlt]
  cases hc : last.childs with
  | nil => rw [hc] at hmem; cases hmem
  | cons a t =>
    cases t with
    | nil =>
      rw [hc] at hmem
      have : ch = a := by simpa using hmem
      subst this
      exact ⟨ch, n, rfl, hn, hnp, hcr, hdc⟩
    | cons b t' =>
      obtain ⟨nx, nxt, h1, h2, h3, h4, h5⟩ :=
        climbTo_spec w (y := y) hl (en.height + 1) y en he hd (fun e => hne e.symm) Desc.refl (by omega)
      refine ⟨nx, nxt, ?_, h2, h3, h4, h5⟩
      simp only [bind, Except.bind, pure, Except.pure, h1]

end GocoinV.ChainTree
