/-
  Proofs.C08_GroupAlg — (1) the reference affine law `GocoinV.Secp.dbl/add` (over Nat, Fermat inversion by
  square-and-multiply) expressed in the field F_p = ZMod P; (2) the algebraic identities that make gocoin's
  Jacobian doubling / addition formulas agree with it under (X, Y, Z) ↦ (X/Z², Y/Z³).
-/
import GocoinV.Base.Secp
import GocoinV.Proofs.C08_Chain

namespace GocoinV.C08

theorem secp_p_eq : Secp.p = P := by decide

theorem P_pos : 0 < P := by decide

/-! ### the reference law in F_p -/

theorem powModAux_spec (m : Nat) : ∀ (fuel b e acc : Nat), e < 2 ^ fuel →
    Secp.powModAux m fuel b e acc % m = acc * b ^ e % m := by
  intro fuel
  induction fuel with
  | zero =>
    intro b e acc he
    have : e = 0 := by omega
    subst this
    simp [Secp.powModAux]
  | succ f ih =>
    intro b e acc he
    unfold Secp.powModAux
    by_cases h0 : e = 0
    · subst h0; simp
    · simp only [h0, if_false]
      have he2 : e / 2 < 2 ^ f := by
        rw [Nat.pow_succ] at he; omega
      rw [ih _ _ _ he2]
      have hb : (b * b % m) ^ (e / 2) % m = (b * b) ^ (e / 2) % m := by
        rw [Nat.pow_mod, Nat.mod_mod, ← Nat.pow_mod]
      have hsq : (b * b) ^ (e / 2) = b ^ (2 * (e / 2)) := by
        rw [← Nat.pow_two, ← Nat.pow_mul]
      by_cases h1 : e % 2 = 1
      · simp only [h1, if_true]
        have hE : e = 2 * (e / 2) + 1 := by omega
        conv_rhs => rw [hE, Nat.pow_succ]
        rw [Nat.mul_mod, Nat.mod_mod, hb, hsq, ← Nat.mul_mod]
        congr 1
        rw [Nat.mul_assoc, Nat.mul_comm b, ← Nat.mul_assoc]
      · simp only [h1, if_false]
        have hE : e = 2 * (e / 2) := by omega
        conv_rhs => rw [hE]
        rw [Nat.mul_mod, hb, hsq, ← Nat.mul_mod]

/-- `Secp.invMod · p` is the inverse in F_p (0 ↦ 0) -/
theorem invMod_cast (a : Nat) : ((Secp.invMod a P : Nat) : F) = ((a : F))⁻¹ := by
  unfold Secp.invMod Secp.powMod
  have he : P - 2 < 2 ^ 600 :=
    Nat.lt_of_lt_of_le (show P - 2 < 2 ^ 256 by decide) (Nat.pow_le_pow_right (by decide) (by decide))
  have h := powModAux_spec P 600 (a % P) (P - 2) (1 % P) he
  have h2 : ((Secp.powModAux P 600 (a % P) (P - 2) (1 % P) : Nat) : F)
      = (((1 % P) * (a % P) ^ (P - 2) : Nat) : F) := (ZMod.natCast_eq_natCast_iff' _ _ _).2 h
  rw [h2, Nat.cast_mul, Nat.cast_pow, ZMod.natCast_mod, ZMod.natCast_mod, Nat.cast_one, one_mul, pow_p_sub_two]

theorem subMod_cast (a b : Nat) : ((Secp.subMod a b P : Nat) : F) = (a : F) - (b : F) := by
  unfold Secp.subMod
  have hb : b % P ≤ a % P + P := Nat.le_trans (Nat.le_of_lt (Nat.mod_lt _ P_pos)) (Nat.le_add_left _ _)
  rw [ZMod.natCast_mod, Nat.cast_sub hb, Nat.cast_add, ZMod.natCast_mod, ZMod.natCast_mod, ZMod.natCast_self, add_zero]

theorem subMod_lt (a b : Nat) : Secp.subMod a b P < P := Nat.mod_lt _ P_pos

theorem eq_val_of_cast {n : Nat} {z : F} (hn : n < P) (h : (n : F) = z) : n = z.val := by
  rw [← h, ZMod.val_natCast, Nat.mod_eq_of_lt hn]

theorem val_eq_iff (x y : F) : x.val = y.val ↔ x = y :=
  ⟨fun h => ZMod.val_injective P h, fun h => by rw [h]⟩

theorem val_eq_zero_iff (y : F) : y.val = 0 ↔ y = 0 := ZMod.val_eq_zero y

/-- affine doubling in F_p -/
def dblF (x y : F) : F × F :=
  let l := 3 * x * x * (2 * y)⁻¹
  let x3 := l * l - 2 * x
  (x3, l * (x - x3) - y)

/-- affine chord addition in F_p -/
def addF (x1 y1 x2 y2 : F) : F × F :=
  let l := (y2 - y1) * (x2 - x1)⁻¹
  let x3 := l * l - x1 - x2
  (x3, l * (x1 - x3) - y1)

/-- a point of the reference law given by field elements -/
def ptF (x y : F) : Secp.Point := some (x.val, y.val)

theorem secp_dbl_F (x y : F) :
    Secp.dbl (ptF x y) = if y = 0 then none else ptF (dblF x y).1 (dblF x y).2 := by
  unfold ptF Secp.dbl
  simp only [val_eq_zero_iff, secp_p_eq]
  split
  · rfl
  · congr 1
    unfold dblF
    simp only []
    refine Prod.ext ?_ ?_
    · refine eq_val_of_cast (subMod_lt _ _) ?_
      simp only [subMod_cast, Nat.cast_mul, ZMod.natCast_mod, invMod_cast, ZMod.natCast_val, ZMod.cast_id', id_eq, Nat.cast_ofNat]
    · refine eq_val_of_cast (subMod_lt _ _) ?_
      simp only [subMod_cast, Nat.cast_mul, ZMod.natCast_mod, invMod_cast, ZMod.natCast_val, ZMod.cast_id', id_eq, Nat.cast_ofNat]

theorem secp_add_F (x1 y1 x2 y2 : F) :
    Secp.add (ptF x1 y1) (ptF x2 y2) =
      if x1 = x2 then (if y1 = y2 then Secp.dbl (ptF x1 y1) else none)
      else ptF (addF x1 y1 x2 y2).1 (addF x1 y1 x2 y2).2 := by
  unfold ptF Secp.add
  simp only [val_eq_iff, secp_p_eq]
  split
  · rfl
  · congr 1
    unfold addF
    simp only []
    refine Prod.ext ?_ ?_
    · refine eq_val_of_cast (subMod_lt _ _) ?_
      simp only [subMod_cast, Nat.cast_mul, ZMod.natCast_mod, invMod_cast, ZMod.natCast_val, ZMod.cast_id', id_eq]
    · refine eq_val_of_cast (subMod_lt _ _) ?_
      simp only [subMod_cast, Nat.cast_mul, ZMod.natCast_mod, invMod_cast, ZMod.natCast_val, ZMod.cast_id', id_eq]

/-! ### Jacobian formulas -/

/-- gocoin's `XYZ.Double` polynomial form: with x = X/Z², y = Y/Z³ (Y, Z ≠ 0) the result (rx, ry, rz)
    represents the affine double -/
theorem dbl_alg (X Y Z rx ry rz : F) (hZ : Z ≠ 0) (hY : Y ≠ 0)
    (hrz : rz = 2 * Y * Z)
    (hrx : rx = 9 * X ^ 4 - 8 * X * Y ^ 2)
    (hry : ry = 3 * X ^ 2 * (12 * X * Y ^ 2 - 9 * X ^ 4) - 8 * Y ^ 4) :
    rz ≠ 0 ∧ rx / rz ^ 2 = (dblF (X / Z ^ 2) (Y / Z ^ 3)).1 ∧ ry / rz ^ 3 = (dblF (X / Z ^ 2) (Y / Z ^ 3)).2 := by
  have h2 : (2 : F) ≠ 0 := by
    intro h
    have : ((2 : Nat) : F) = 0 := by exact_mod_cast h
    rw [ZMod.natCast_eq_zero_iff] at this
    exact absurd (Nat.le_of_dvd (by decide) this) (by decide)
  have hrz0 : rz ≠ 0 := by rw [hrz]; exact mul_ne_zero (mul_ne_zero h2 hY) hZ
  refine ⟨hrz0, ?_, ?_⟩
  · unfold dblF; simp only []
    rw [hrx, hrz]; field_simp; ring
  · unfold dblF; simp only []
    rw [hry, hrz]; field_simp; ring

/-- the common tail of `XYZ.Add` / `XYZ.AddXY`: u1 = x1·w², u2 = x2·w², s1 = y1·w³, s2 = y2·w³ (w ≠ 0), x1 ≠ x2 -/
theorem add_alg (x1 y1 x2 y2 w u1 u2 s1 s2 rx ry rz : F) (hw : w ≠ 0) (hx : x1 ≠ x2)
    (hu1 : u1 = x1 * w ^ 2) (hu2 : u2 = x2 * w ^ 2) (hs1 : s1 = y1 * w ^ 3) (hs2 : s2 = y2 * w ^ 3)
    (hrz : rz = w * (u2 - u1))
    (hrx : rx = (s2 - s1) ^ 2 - (2 * u1 * (u2 - u1) ^ 2 + (u2 - u1) ^ 3))
    (hry : ry = (u1 * (u2 - u1) ^ 2 - rx) * (s2 - s1) - (u2 - u1) ^ 3 * s1) :
    rz ≠ 0 ∧ rx / rz ^ 2 = (addF x1 y1 x2 y2).1 ∧ ry / rz ^ 3 = (addF x1 y1 x2 y2).2 := by
  have hd : x2 - x1 ≠ 0 := sub_ne_zero.mpr (Ne.symm hx)
  have hh : u2 - u1 = (x2 - x1) * w ^ 2 := by rw [hu1, hu2]; ring
  have hrz0 : rz ≠ 0 := by
    rw [hrz, hh]; exact mul_ne_zero hw (mul_ne_zero hd (pow_ne_zero _ hw))
  refine ⟨hrz0, ?_, ?_⟩
  · unfold addF; simp only []
    rw [hrx, hrz, hh, hs1, hs2, hu1]; field_simp; ring
  · unfold addF; simp only []
    rw [hry, hrx, hrz, hh, hs1, hs2, hu1]; field_simp; ring

end GocoinV.C08
