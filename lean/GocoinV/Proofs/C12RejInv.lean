/-
  Proofs.C12RejInv — Props/C12 OPEN (d): the consistency of the reject ring / TransactionsRejected /
  WaitingForInputs / RejectedSpentOutputs indexes as an invariant over all operations and histories (`RejInv`,
  `step_rejInv`, `run_rejInv`), and the reject-related panic branches that it makes unreachable.  Core Lean only.
-/
import GocoinV.Proofs.C12RejRun
namespace GocoinV.Mempool

/-- Consistency of the rejected-transactions structures of the pool (rjected.go; mirrors checkRejectedTxs /
    checkRejectedSpentOutputs of check.go on the level of membership).

    Not covered: multiplicities in RejectedSpentOutputs (a record is listed once per input with that UIdx; the
    invariant speaks about membership only, Go's check compares the total counts); the equality
    `Waiting4 = OneWaitingList.TxID` (only their BIDX are shown equal — two missing parents with the same BIDX share
    one list in the code as well); the byte counters
    TransactionsRejectedSize / WaitingForInputsSize and limitRejectedSizeIfNeeded (not in the model). -/
structure RejInv (K : Keys) (s : State) : Prop where
  /-- len(TRIdxArray) ≥ 2: with a single slot `Add` evicts the record it is adding and then adds references to it
      (model and code alike) -/
  cap : 2 ≤ s.cfg.ringCap
  -- (1) ring ↔ TransactionsRejected
  rej_nodup : (s.rej.map Prod.fst).Nodup
  ring_nodup : (s.ring.filterMap id).Nodup
  ring_rej : ∀ b, some b ∈ s.ring → ∃ r, s.rej.get? b = some r ∧ K.bidx r.id = b
  rej_ring : ∀ b r, s.rej.get? b = some r → K.bidx r.id = b ∧ some b ∈ s.ring
  -- (2) record shape
  shape : ∀ b r, s.rej.get? b = some r →
    (r.tx = none → r.waiting4 = none) ∧ (∀ t, r.tx = some t → t.id = r.id) ∧ (r.tx.isSome = true ↔ r.reason ≥ 200) ∧
    (r.waiting4.isSome = true ↔ r.reason = R_NO_TXOU)
  -- (3) RejectedSpentOutputs is exactly the inverse of the inputs of the rejected records with data
  spent_sound : ∀ u l, s.rejSpent.get? u = some l → l ≠ [] ∧
    ∀ b ∈ l, ∃ r t, s.rej.get? b = some r ∧ r.tx = some t ∧ ∃ i ∈ t.ins, u = K.uidx i.prev i.vout
  spent_complete : ∀ b r t, s.rej.get? b = some r → r.tx = some t →
    ∀ i ∈ t.ins, ∃ l, s.rejSpent.get? (K.uidx i.prev i.vout) = some l ∧ b ∈ l
  -- (4) WaitingForInputs is exactly the inverse of Waiting4
  waiting_sound : ∀ k id ids, s.waiting.get? k = some (id, ids) → K.bidx id = k ∧ ids ≠ [] ∧ ids.Nodup ∧
    ∀ b ∈ ids, ∃ r w, s.rej.get? b = some r ∧ r.waiting4 = some w ∧ K.bidx w = k
  waiting_complete : ∀ b r w, s.rej.get? b = some r → r.waiting4 = some w →
    ∃ id ids, s.waiting.get? (K.bidx w) = some (id, ids) ∧ b ∈ ids
  -- nothing is both in TransactionsToSend and in TransactionsRejected
  disjoint : ∀ b x, s.pool.get? b = some x → s.rej.get? b = none

theorem mem_uidxs (K : Keys) (t : Tx) (u : Nat) : u ∈ uidxs K t ↔ ∃ i ∈ t.ins, u = K.uidx i.prev i.vout := by
  unfold uidxs
  rw [List.mem_map]
  constructor
  · rintro ⟨i, hi, e⟩; exact ⟨i, hi, e.symm⟩
  · rintro ⟨i, hi, e⟩; exact ⟨i, hi, e.symm⟩

theorem RejInv.toRJ {K : Keys} {s : State} (h : RejInv K s) : RJ K s := by
  refine ⟨h.cap, ⟨h.rej_nodup, h.ring_nodup, ?_, ?_, ?_, ?_, ?_, ?_, ?_, ?_, ?_, ?_⟩, h.disjoint⟩
  · intro b hb
    obtain ⟨r, hr, _⟩ := h.ring_rej b ((mem_ringKeys _ _).mp hb)
    exact ⟨r, hr⟩
  · intro b r hr
    exact (mem_ringKeys _ _).mpr (h.rej_ring b r hr).2
  · intro b r hr
    exact (h.rej_ring b r hr).1
  · intro b r hr
    obtain ⟨a1, a2, a3, a4⟩ := h.shape b r hr
    exact ⟨a1, a2, a3, a4⟩
  · intro u l hl
    exact (h.spent_sound u l hl).1
  · intro u x hx
    refine ⟨by simp, ?_⟩
    cases hg : s.rejSpent.get? u with
    | none => simp [lst, hg] at hx
    | some l =>
      rw [lst_of_get hg] at hx
      obtain ⟨r, t, hr, ht, hi⟩ := (h.spent_sound u l hg).2 x hx
      exact ⟨r, t, hr, ht, (mem_uidxs K t u).mpr hi⟩
  · intro b r t hr _ ht u hu
    obtain ⟨i, hi, e⟩ := (mem_uidxs K t u).mp hu
    obtain ⟨l, hl, hb⟩ := h.spent_complete b r t hr ht i hi
    rw [e, lst_of_get hl]
    exact hb
  · intro k id ids hk
    obtain ⟨a1, a2, a3, _⟩ := h.waiting_sound k id ids hk
    exact ⟨a1, a2, a3⟩
  · intro k x hx
    refine ⟨by simp, ?_⟩
    cases hg : s.waiting.get? k with
    | none => rw [wl_of_none hg] at hx; cases hx
    | some p =>
      obtain ⟨id, ids⟩ := p
      rw [wl_of_get hg] at hx
      exact (h.waiting_sound k id ids hg).2.2.2 x hx
  · intro b r w hr _ hw
    obtain ⟨id, ids, hg, hb⟩ := h.waiting_complete b r w hr hw
    rw [wl_of_get hg]
    exact hb

theorem RJ.toRejInv {K : Keys} {s : State} (h : RJ K s) : RejInv K s := by
  have c := h.rc
  refine ⟨h.cap, c.nodupRej, c.nodupRing, ?_, ?_, ?_, ?_, ?_, ?_, ?_, h.disj⟩
  · intro b hb
    obtain ⟨r, hr⟩ := c.ringRej b ((mem_ringKeys _ _).mpr hb)
    exact ⟨r, hr, c.key b r hr⟩
  · intro b r hr
    exact ⟨c.key b r hr, (mem_ringKeys _ _).mp (c.rejRing b r hr)⟩
  · intro b r hr
    have := c.shape b r hr
    exact ⟨this.w, this.id, this.reason, this.w4⟩
  · intro u l hl
    refine ⟨c.spNe u l hl, ?_⟩
    intro b hb
    obtain ⟨_, r, t, hr, ht, hu⟩ := c.spSound u b (by rw [lst_of_get hl]; exact hb)
    exact ⟨r, t, hr, ht, (mem_uidxs K t u).mp hu⟩
  · intro b r t hr ht i hi
    have hb := c.spCompl b r t hr (by simp) ht _ ((mem_uidxs K t _).mpr ⟨i, hi, rfl⟩)
    cases hg : s.rejSpent.get? (K.uidx i.prev i.vout) with
    | none => simp [lst, hg] at hb
    | some l => rw [lst_of_get hg] at hb; exact ⟨l, rfl, hb⟩
  · intro k id ids hk
    obtain ⟨a1, a2, a3⟩ := c.wKey k id ids hk
    refine ⟨a1, a2, a3, ?_⟩
    intro b hb
    exact (c.wSound k b (by rw [wl_of_get hk]; exact hb)).2
  · intro b r w hr hw
    have hb := c.wCompl b r w hr (by simp) hw
    cases hg : s.waiting.get? (K.bidx w) with
    | none => rw [wl_of_none hg] at hb; cases hb
    | some p =>
      obtain ⟨id, ids⟩ := p
      rw [wl_of_get hg] at hb
      exact ⟨id, ids, rfl, hb⟩

theorem rejInv_iff (K : Keys) (s : State) : RejInv K s ↔ RJ K s := ⟨RejInv.toRJ, RJ.toRejInv⟩

/-! ### (a) initial states -/

theorem rejInv_init (K : Keys) : RejInv K {} := (RJ_init K).toRejInv

theorem rejInv_genesis (K : Keys) (cfg : Cfg) (u0 : UT) (h0 : Nat) (hcap : 2 ≤ cfg.ringCap) :
    RejInv K (genesis cfg u0 h0) := (RJ_genesis K cfg u0 h0 hcap).toRejInv

/-! ### (c) every operation, every history

  Hypotheses, in the style of `run_InvR`: the universe `W` of the transactions of the history with `Univ K W rank`
  (BIDX / UIdx injective on it, acyclic), the already proved structural pool invariant `InvR` of the start state, and
  `UndoOK` for the `undo` operations: no transaction of the block being undone is pooled when BlockUndone reaches it
  (`UndoFresh`; `undoFresh_of_nodup` reduces it to: the block's transactions have pairwise different BIDX and none is
  pooled when the block is undone).  Without it the model (like the code, CheckForErrors() = false) re-adds the pooled
  transaction through its own replacement, leaving the same BIDX both pooled and rejected; a later replacement then
  calls `Add` for a key that is already in TransactionsRejected and the ring gets a duplicate. -/

theorem step_rejInv {K : Keys} {W : Tx → Prop} {rank : TxId → Nat} (U : Univ K W rank) (s : State) (op : Op)
    (hI : InvR K W s) (h : RejInv K s) (hW : ∀ t ∈ op.txs, W t) (hu : UndoOK K s op) : RejInv K (step K s op) :=
  (step_RJ U s op hI h.toRJ hW hu).toRejInv

theorem run_rejInv {K : Keys} {W : Tx → Prop} {rank : TxId → Nat} (U : Univ K W rank) (ops : List Op) (s : State)
    (hI : InvR K W s) (h : RejInv K s) (hW : ∀ op ∈ ops, ∀ t ∈ op.txs, W t) (hu : UndoOKRun K s ops) :
    RejInv K (run K s ops) :=
  (run_RJ U ops s hI h.toRJ hW hu).toRejInv

/-- from the initial state -/
theorem run_rejInv_genesis {K : Keys} {W : Tx → Prop} {rank : TxId → Nat} (U : Univ K W rank) (cfg : Cfg) (u0 : UT)
    (h0 : Nat) (hcap : 2 ≤ cfg.ringCap) (ops : List Op) (hW : ∀ op ∈ ops, ∀ t ∈ op.txs, W t)
    (hu : UndoOKRun K (genesis cfg u0 h0) ops) : RejInv K (run K (genesis cfg u0 h0) ops) := by
  have hI : InvR K W (genesis cfg u0 h0) := by
    refine ⟨⟨?_, ?_, ?_⟩, by simp [genesis], ?_, ?_, ?_⟩
    · intro b t h; simp [genesis, AList.get?] at h
    · intro u b h; simp [genesis, AList.get?] at h
    · intro b t h; simp [genesis, AList.get?] at h
    · intro b t h; simp [genesis, AList.get?] at h
    · intro b r t h; simp [genesis, AList.get?] at h
    · intro e he; simp [genesis] at he
  exact run_rejInv U ops _ hI (rejInv_genesis K cfg u0 h0 hcap) hW hu

end GocoinV.Mempool
