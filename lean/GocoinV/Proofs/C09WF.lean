/-
  Proofs.C09WF — every transaction `btc.NewTx` returns is well-formed (`Tx.WF`): together with
  `decodeTxFull_encode` this makes `Tx.WF` the exact image of the decoder. Core tactics only.
-/
import GocoinV.Proofs.C09
namespace GocoinV.Wire
open GocoinV GocoinV.CompactSize

theorem decodeN_forall {α : Type} (f : Bytes → Option (α × Bytes)) (P : α → Prop)
    (hf : ∀ b x r, f b = some (x, r) → P x) :
    ∀ (n : Nat) (b : Bytes) (xs : List α) (r : Bytes), decodeN f n b = some (xs, r) → ∀ x ∈ xs, P x := by
  intro n
  induction n with
  | zero =>
    intro b xs r h
    simp only [decodeN, Option.some.injEq, Prod.mk.injEq] at h
    obtain ⟨rfl, rfl⟩ := h
    simp
  | succ n ih =>
    intro b xs r h
    simp only [decodeN] at h
    split at h
    · simp at h
    · rename_i x b' hfx
      split at h
      · simp at h
      · rename_i ys b'' hrec
        simp only [Option.some.injEq, Prod.mk.injEq] at h
        obtain ⟨rfl, rfl⟩ := h
        intro y hy
        simp only [List.mem_cons] at hy
        rcases hy with rfl | hy
        · exact hf _ _ _ hfx
        · exact ih _ _ _ hrec y hy

theorem leVal_lt4 {v : Bytes} (h : v.length = 4) : leVal v < 2^32 := by
  have := leVal_lt v; rw [h] at this; simpa using this

theorem leVal_lt8 {v : Bytes} (h : v.length = 8) : leVal v < 2^64 := by
  have := leVal_lt v; rw [h] at this; simpa using this

theorem decodeTxIn_wf {b r : Bytes} {i : TxIn} (h : decodeTxIn b = some (i, r)) : i.WF := by
  unfold decodeTxIn decodeTxInWith at h
  split at h; · simp at h
  rename_i hh b1 e1
  split at h; · simp at h
  rename_i v b2 e2
  split at h; · simp at h
  rename_i le' b3 e3
  split at h; · simp at h
  rename_i s b4 e4
  split at h; · simp at h
  rename_i q b5 e5
  simp only [Option.some.injEq, Prod.mk.injEq] at h
  obtain ⟨rfl, rfl⟩ := h
  have ⟨_, l1⟩ := readN_spec e1
  have ⟨_, l2⟩ := readN_spec e2
  have ⟨_, _, hv⟩ := vlenWire_spec e3
  have ⟨_, l4⟩ := readN_spec e4
  have ⟨_, l5⟩ := readN_spec e5
  exact ⟨l1, leVal_lt4 l2, leVal_lt4 l5, by simp only; omega⟩

theorem decodeTxOut_wf {b r : Bytes} {o : TxOut} (h : decodeTxOut b = some (o, r)) : o.WF := by
  unfold decodeTxOut decodeTxOutWith at h
  split at h; · simp at h
  rename_i v b1 e1
  split at h; · simp at h
  rename_i le' b2 e2
  split at h; · simp at h
  rename_i s b3 e3
  simp only [Option.some.injEq, Prod.mk.injEq] at h
  obtain ⟨rfl, rfl⟩ := h
  have ⟨_, l1⟩ := readN_spec e1
  have ⟨_, _, hv⟩ := vlenWire_spec e2
  have ⟨_, l3⟩ := readN_spec e3
  exact ⟨leVal_lt8 l1, by simp only; omega⟩

theorem decodeItem_wf {b r x : Bytes} (h : decodeItem b = some (x, r)) : x.length < 2^64 := by
  unfold decodeItem decodeItemWith at h
  split at h; · simp at h
  rename_i le' b1 e1
  have ⟨_, _, hv⟩ := vlenWire_spec e1
  have ⟨_, l2⟩ := readN_spec h
  omega

theorem decodeStack_wf {b r : Bytes} {s : List Bytes} (h : decodeStack b = some (s, r)) :
    s.length < 2^64 ∧ ∀ x ∈ s, x.length < 2^64 := by
  unfold decodeStack decodeStackWith at h
  split at h; · simp at h
  rename_i n b1 e1
  have ⟨_, _, hv⟩ := vlenWire_spec e1
  have ⟨_, l2⟩ := decodeN_spec (decodeItemWith vlenWire) encodeItem
    (fun b x r hx => decodeItem_spec hx) _ _ _ _ h
  refine ⟨by omega, ?_⟩
  exact decodeN_forall (decodeItemWith vlenWire) (fun x => x.length < 2^64)
    (fun b x r hx => decodeItem_wf hx) _ _ _ _ h

/-- every transaction `btc.NewTx` returns satisfies `Tx.WF` -/
theorem decodeTxFull_wf {b : Bytes} {d : Decoded} (h : decodeTxFull b = some d) : d.tx.WF := by
  have hspec := decodeTxFull_spec h
  unfold decodeTxFull decodeTxWith at h
  split at h; · simp at h
  rename_i ver b1 e1
  split at h; · simp at h
  rename_i segwit b2 e2
  split at h; · simp at h
  rename_i nin b3 e3
  split at h; · simp at h
  rename_i ins b4 e4
  split at h; · simp at h
  rename_i nout b5 e5
  split at h; · simp at h
  rename_i hzin
  split at h; · simp at h
  rename_i outs b6 e6
  have ⟨_, l1⟩ := readN_spec e1
  have ⟨_, _, hnin⟩ := vlenWire_spec e3
  have ⟨_, l4⟩ := decodeN_spec (decodeTxInWith vlenWire) encodeTxIn (fun b x r hx => decodeTxIn_spec hx) _ _ _ _ e4
  have ⟨_, _, hnout⟩ := vlenWire_spec e5
  have ⟨_, l6⟩ := decodeN_spec (decodeTxOutWith vlenWire) encodeTxOut (fun b x r hx => decodeTxOut_spec hx) _ _ _ _ e6
  have hiw := decodeN_forall (decodeTxInWith vlenWire) TxIn.WF (fun b x r hx => decodeTxIn_wf hx) _ _ _ _ e4
  have how := decodeN_forall (decodeTxOutWith vlenWire) TxOut.WF (fun b x r hx => decodeTxOut_wf hx) _ _ _ _ e6
  dsimp only at h
  split at h
  · rename_i hsw
    split at h; · simp at h
    rename_i wit b7 e7
    split at h; · simp at h
    rename_i hnw
    split at h; · simp at h
    rename_i lt rest e8
    simp only [Option.some.injEq] at h
    subst h
    have ⟨_, l8⟩ := readN_spec e8
    have ⟨_, l7⟩ := decodeN_spec (decodeStackWith vlenWire) encodeStack (fun b x r hx => decodeStack_spec hx) _ _ _ _ e7
    have hsw' := decodeN_forall (decodeStackWith vlenWire) (fun s => s.length < 2^64 ∧ ∀ x ∈ s, x.length < 2^64)
      (fun b x r hx => decodeStack_wf hx) _ _ _ _ e7
    have hnw' : noWitness wit = false := by simpa using hnw
    refine { version := leVal_lt4 l1, lockTime := leVal_lt4 l8, ins_ne := ?_, ins := hiw, outs := how,
             nins := by simp only; omega, nouts := by simp only; omega, wit := ?_ }
    · intro hi
      simp only at hi
      subst hi
      simp only [List.length_nil] at l7
      have : wit = [] := List.length_eq_zero_iff.mp l7
      subst this
      simp [noWitness] at hnw'
    · intro w hw
      simp only [Option.some.injEq] at hw
      subst hw
      exact ⟨l7, hnw', hsw'⟩
  · rename_i hsw
    split at h; · simp at h
    rename_i lt rest e8
    simp only [Option.some.injEq] at h
    subst h
    have ⟨_, l8⟩ := readN_spec e8
    refine { version := leVal_lt4 l1, lockTime := leVal_lt4 l8, ins_ne := ?_, ins := hiw, outs := how,
             nins := by simp only; omega, nouts := by simp only; omega, wit := by intro w hw; simp at hw }
    intro hi
    simp only at hi
    subst hi
    simp only [List.length_nil] at l4
    have hs : segwit = false := by simpa using hsw
    subst hs
    subst l4
    have hn0 : nout = 0 := by simpa using hzin
    subst hn0
    exact List.length_eq_zero_iff.mp l6

end GocoinV.Wire
