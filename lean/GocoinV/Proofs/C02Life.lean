/-
  Proofs.C02Life — simulation between a history over several transaction objects run WITH the scratch structs
  (`runLife`, any allocator discipline that only ever hands out blank structs) and the same history run without any
  struct (`runLifeSpec`). Core-only.
-/
import GocoinV.Model.SigHashLife
import GocoinV.Proofs.C02Cache
namespace GocoinV.SigHash
open GocoinV.Wire (Tx TxIn TxOut)

/-- an allocator that, from states satisfying `I`, only hands out blank structs and stays inside `I` -/
structure Allocator.Blank {σ : Type} (A : Allocator σ) (I : σ → Prop) : Prop where
  get_blank : ∀ s, I s → (A.get s).1 = {}
  get_inv : ∀ s, I s → I (A.get s).2
  put_inv : ∀ s v, I s → I (A.put s v)

/-- slot `i` of the heap against "object i is allocated": a struct in use belongs to ITS transaction -/
def SlotOK (H : Bytes → Bytes) (objs : List Obj) (i : Nat) : Option VerVars → Bool → Prop
  | none, b => b = false
  | some v, b => b = true ∧ ∃ o, objs[i]? = some o ∧ v.spent = o.spent ∧ Cache.OK H o.tx o.spent v.cache

structure Sim {σ : Type} (H : Bytes → Bytes) (objs : List Obj) (alive : List Bool) (w : World σ) : Prop where
  len : w.heap.length = alive.length
  slot : ∀ i x b, w.heap[i]? = some x → alive[i]? = some b → SlotOK H objs i x b

theorem Sim.get {σ : Type} {H : Bytes → Bytes} {objs : List Obj} {alive : List Bool} {w : World σ}
    (h : Sim H objs alive w) {i : Nat} {x : Option VerVars} (hx : w.heap[i]? = some x) :
    ∃ b, alive[i]? = some b ∧ SlotOK H objs i x b := by
  obtain ⟨hlt, _⟩ := List.getElem?_eq_some_iff.mp hx
  have hi : i < alive.length := h.len ▸ hlt
  exact ⟨alive[i], List.getElem?_eq_getElem hi, h.slot i x _ hx (List.getElem?_eq_getElem hi)⟩

theorem Sim.none {σ : Type} {H : Bytes → Bytes} {objs : List Obj} {alive : List Bool} {w : World σ}
    (h : Sim H objs alive w) {i : Nat} (hx : w.heap[i]? = none) : alive[i]? = none := by
  rw [List.getElem?_eq_none_iff] at hx ⊢
  rw [← h.len]; exact hx

/-- replace slot `i` on both sides -/
theorem Sim.set {σ : Type} {H : Bytes → Bytes} {objs : List Obj} {alive : List Bool} {w : World σ}
    (h : Sim H objs alive w) (i : Nat) (x : Option VerVars) (b : Bool) (p : σ) (hs : SlotOK H objs i x b) :
    Sim H objs (alive.set i b) { heap := w.heap.set i x, pool := p } := by
  constructor
  · simp [h.len]
  · intro j y c hy hc
    simp only [List.getElem?_set] at hy hc
    by_cases hij : i = j
    · subst hij
      simp only [↓reduceIte] at hy hc
      split at hy
      · split at hc
        · cases hy; cases hc; exact hs
        · cases hc
      · cases hy
    · simp only [hij, ↓reduceIte] at hy hc
      exact h.slot j y c hy hc

theorem set_same {α : Type} (l : List α) (i : Nat) (a : α) (h : l[i]? = some a) : l.set i a = l := by
  apply List.ext_getElem?
  intro j
  simp only [List.getElem?_set]
  by_cases hij : i = j
  · subst hij
    obtain ⟨hlt, _⟩ := List.getElem?_eq_some_iff.mp h
    simp [hlt, h.symm]
  · simp [hij]

/-- one event: same observable result, relation and allocator invariant kept -/
theorem lifeStep_sim {σ : Type} (A : Allocator σ) (I : σ → Prop) (hA : A.Blank I) (H : Bytes → Bytes)
    (objs : List Obj) (hobjs : ∀ o ∈ objs, o.tx.ins.length ≤ o.spent.length)
    (alive : List Bool) (w : World σ) (hs : Sim H objs alive w) (hp : I w.pool) (e : Ev) :
    (lifeStep A H objs w e).2 = (specStep H objs alive e).2
    ∧ Sim H objs (specStep H objs alive e).1 (lifeStep A H objs w e).1
    ∧ I (lifeStep A H objs w e).1.pool := by
  cases e with
  | alloc i how =>
    cases ho : objs[i]? with
    | none => simp only [lifeStep, specStep, ho]; exact ⟨trivial, hs, hp⟩
    | some o =>
      cases hh : w.heap[i]? with
      | none =>
        have ha := hs.none hh
        simp only [lifeStep, specStep, ho, hh, ha]; exact ⟨trivial, hs, hp⟩
      | some x =>
        obtain ⟨b, ha, hok⟩ := hs.get hh
        cases x with
        | none =>
          have hb : b = false := hok
          subst hb
          simp only [lifeStep, specStep, ho, hh, ha]
          refine ⟨trivial, ?_, hA.get_inv _ hp⟩
          apply hs.set
          refine ⟨rfl, o, ho, ?_, ?_⟩
          · rw [hA.get_blank _ hp]; cases how <;> rfl
          · rw [hA.get_blank _ hp]; exact Cache.OK_empty H o.tx o.spent
        | some v =>
          have hb : b = true := hok.1
          subst hb
          simp only [lifeStep, specStep, ho, hh, ha]; exact ⟨trivial, hs, hp⟩
  | clean i =>
    cases hh : w.heap[i]? with
    | none =>
      have ha := hs.none hh
      simp only [lifeStep, specStep, hh, ha]; exact ⟨trivial, hs, hp⟩
    | some x =>
      obtain ⟨b, ha, hok⟩ := hs.get hh
      cases x with
      | none =>
        have hb : b = false := hok
        subst hb
        simp only [lifeStep, specStep, hh, ha]; exact ⟨trivial, hs, hp⟩
      | some v =>
        have hb : b = true := hok.1
        subst hb
        simp only [lifeStep, specStep, hh, ha]
        exact ⟨trivial, hs.set i none false _ rfl, hA.put_inv _ _ hp⟩
  | call i k =>
    cases ho : objs[i]? with
    | none => simp only [lifeStep, specStep, ho]; exact ⟨trivial, hs, hp⟩
    | some o =>
      cases hh : w.heap[i]? with
      | none =>
        have ha := hs.none hh
        simp only [lifeStep, specStep, ho, hh, ha]; exact ⟨trivial, hs, hp⟩
      | some x =>
        obtain ⟨b, ha, hok⟩ := hs.get hh
        cases x with
        | none =>
          have hb : b = false := hok
          subst hb
          simp only [lifeStep, specStep, ho, hh, ha]; exact ⟨trivial, hs, hp⟩
        | some v =>
          obtain ⟨hb, o', ho', hsp, hc⟩ := hok
          subst hb
          rw [ho] at ho'
          cases ho'
          have hlen := hobjs o (List.mem_of_getElem? ho)
          have hst := step_cache true H o.tx o.spent v.cache hlen hc k
          simp only [lifeStep, specStep, ho, hh, ha, hsp]
          refine ⟨congrArg some hst.1, ?_, hp⟩
          have := hs.set i (some { cache := (step true H o.tx o.spent v.cache k).2, spent := o.spent }) true w.pool
            ⟨rfl, o, ho, rfl, hst.2⟩
          rw [set_same alive i true ha] at this
          exact this

theorem runLife_sim {σ : Type} (A : Allocator σ) (I : σ → Prop) (hA : A.Blank I) (H : Bytes → Bytes)
    (objs : List Obj) (hobjs : ∀ o ∈ objs, o.tx.ins.length ≤ o.spent.length) (evs : List Ev) :
    ∀ (alive : List Bool) (w : World σ), Sim H objs alive w → I w.pool →
      runLife A H objs w evs = runLifeSpec H objs alive evs := by
  induction evs with
  | nil => intros; rfl
  | cons e es ih =>
    intro alive w hs hp
    obtain ⟨h1, h2, h3⟩ := lifeStep_sim A I hA H objs hobjs alive w hs hp e
    simp only [runLife, runLifeSpec, h1, ih _ _ h2 h3]

theorem Sim.init {σ : Type} (H : Bytes → Bytes) (objs : List Obj) (n : Nat) (s : σ) :
    Sim H objs (List.replicate n false) (World.init n s) := by
  constructor
  · simp [World.init]
  · intro i x b hx hb
    simp only [World.init, List.getElem?_replicate] at hx hb
    split at hx
    · cases hx
      split at hb
      · cases hb; rfl
      · cases hb; rfl
    · cases hx

theorem freshAlloc_blank : freshAlloc.Blank (fun _ => True) :=
  ⟨fun _ _ => rfl, fun _ _ => trivial, fun _ _ _ => trivial⟩

theorem poolAlloc_blank (reset : VerVars → VerVars) (hr : ∀ v, reset v = {}) :
    (poolAlloc reset).Blank (fun s => ∀ v ∈ s, v = {}) := by
  refine ⟨?_, ?_, ?_⟩
  · intro s hs
    cases s with
    | nil => rfl
    | cons v r => exact hs v (List.mem_cons_self ..)
  · intro s hs
    cases s with
    | nil => exact hs
    | cons v r => intro x hx; exact hs x (List.mem_cons_of_mem _ hx)
  · intro s v hs x hx
    simp only [poolAlloc, List.mem_cons] at hx
    cases hx with
    | inl h => rw [h, hr]
    | inr h => exact hs x h

end GocoinV.SigHash
