/-
  Proofs.C04Apply — what `UnspentDB.commit` (applyChanges: the deletions of DeledTxs, then the additions of AddList)
  does to the abstract coin map `absGet`.
-/
import GocoinV.Proofs.C04Abs
namespace GocoinV.Proofs.C04
open GocoinV GocoinV.Connect
open GocoinV.Spec.Connect (Coin Utxo absGet absList recCoins)

theorem clearOuts_getD (outs : List (Option TxOut)) (m : List Bool) (v : Nat) :
    (clearOuts outs m).getD v none = if m.getD v false = true then none else outs.getD v none := by
  induction outs generalizing m v with
  | nil => cases m <;> simp [clearOuts]
  | cons o os ih =>
    cases m with
    | nil => simp [clearOuts]
    | cons rm rms =>
      cases v with
      | zero => cases rm <;> simp [clearOuts]
      | succ v =>
        have := ih rms v
        simp only [List.getD_eq_getElem?_getD] at this
        simpa [clearOuts] using this

theorem getD_none_of_not_any {α : Type} (l : List (Option α)) (h : ¬ l.any Option.isSome = true) (v : Nat) :
    l.getD v none = none := by
  induction l generalizing v with
  | nil => simp
  | cons o os ih =>
    simp only [List.any_cons, Bool.or_eq_true, not_or] at h
    cases v with
    | zero => cases o <;> simp_all
    | succ v => simpa using ih h.2 v

/-- `UnspentDB.del h m` removes exactly the coins (h, v) with m[v] set -/
theorem dbDel_abs (mtpOf : Nat → Nat) (db : DB) (h : Bytes) (m : List Bool) (op : OutPoint) :
    absGet mtpOf (dbDel Cfg.current db h m) op =
      if op.hash = h ∧ m.getD op.vout false = true then none else absGet mtpOf db op := by
  have hft : Cfg.current.fullTxid = true := rfl
  unfold dbDel
  cases hg : aGet db (key8 h) with
  | none =>
    simp only []
    by_cases ho : op.hash = h
    · subst ho
      have : absGet mtpOf db op = none := by rw [absGet_eq, hg]
      simp [this]
    · simp [ho]
  | some r =>
    simp only [hft, true_and]
    by_cases hr : r.txid = h
    · simp only [hr, ne_eq, not_true_eq_false, ↓reduceIte]
      by_cases ho : op.hash = h
      · subst ho
        have hold : absGet mtpOf db op = recGet mtpOf r op.vout := by rw [absGet_eq, hg]; simp [hr]
        by_cases hany : (clearOuts r.outs m).any Option.isSome = true
        · simp only [hany, ↓reduceIte, true_and]
          rw [absGet_eq, aGet_aSet]
          simp only [↓reduceIte, recGet, clearOuts_getD, hold]
          by_cases hm : m[op.vout]?.getD false = true
          · simp [hm]
          · simp [hm]; rfl
        · simp only [hany, ↓reduceIte, true_and, Bool.false_eq_true]
          rw [absGet_eq, aGet_aDel]
          simp only [↓reduceIte, hold]
          by_cases hm : m[op.vout]?.getD false = true
          · simp [hm]
          · have := getD_none_of_not_any _ hany op.vout
            rw [clearOuts_getD] at this
            simp only [List.getD_eq_getElem?_getD] at this
            simp only [hm, Bool.false_eq_true, ↓reduceIte] at this
            simp [hm, recGet, this]
      · simp only [ho, false_and, ↓reduceIte]
        have hho : ¬ h = op.hash := fun e => ho e.symm
        by_cases hk : key8 h = key8 op.hash
        · have hold : absGet mtpOf db op = none := by
            rw [absGet_eq, ← hk, hg]; simp [hr, hho]
          by_cases hany : (clearOuts r.outs m).any Option.isSome = true
          · simp only [hany, ↓reduceIte]
            rw [absGet_eq, aGet_aSet, hold]
            simp [hk, hr, hho]
          · simp only [hany, ↓reduceIte, Bool.false_eq_true]
            rw [absGet_eq, aGet_aDel, hold]
            simp [hk]
        · by_cases hany : (clearOuts r.outs m).any Option.isSome = true
          · simp only [hany, ↓reduceIte]
            rw [absGet_eq, aGet_aSet, absGet_eq]
            simp [hk]
          · simp only [hany, ↓reduceIte, Bool.false_eq_true]
            rw [absGet_eq, aGet_aDel, absGet_eq]
            simp [hk]
    · simp only [hr, ne_eq, not_false_eq_true, ↓reduceIte]
      by_cases ho : op.hash = h
      · subst ho
        have : absGet mtpOf db op = none := by rw [absGet_eq, hg]; simp [hr]
        simp [this]
      · simp [ho]

/-- `del` never creates a slot -/
theorem dbDel_none (db : DB) (h : Bytes) (m : List Bool) (k : Bytes) (hn : aGet db k = none) :
    aGet (dbDel Cfg.current db h m) k = none := by
  unfold dbDel
  cases hg : aGet db (key8 h) with
  | none => exact hn
  | some r =>
    simp only []
    split
    · exact hn
    · split
      · rw [aGet_aSet]
        split
        · rename_i hk; rw [hk] at hg; rw [hg] at hn; cases hn
        · exact hn
      · rw [aGet_aDel]; split <;> first | rfl | exact hn

/-- is (hash, vout) marked in a DeledTxs list -/
def delMarked (deled : List (Bytes × List Bool)) (op : OutPoint) : Bool :=
  match aGet deled op.hash with
  | some m => m.getD op.vout false
  | none => false

theorem foldl_dbDel_none (L : List (Bytes × List Bool)) (db : DB) (k : Bytes) (hn : aGet db k = none) :
    aGet (L.foldl (fun d (kv : Bytes × List Bool) => dbDel Cfg.current d kv.1 kv.2) db) k = none := by
  induction L generalizing db with
  | nil => exact hn
  | cons e r ih => exact ih _ (dbDel_none db e.1 e.2 k hn)

/-- all deletions of a block: exactly the marked coins disappear (the list has unique keys, being a Go map) -/
theorem foldl_dbDel_abs (mtpOf : Nat → Nat) (L : List (Bytes × List Bool)) (hn : (keys L).Nodup) (db : DB) (op : OutPoint) :
    absGet mtpOf (L.foldl (fun d (kv : Bytes × List Bool) => dbDel Cfg.current d kv.1 kv.2) db) op =
      if delMarked L op = true then none else absGet mtpOf db op := by
  induction L generalizing db with
  | nil => simp [delMarked, aGet]
  | cons e r ih =>
    obtain ⟨h, m⟩ := e
    simp only [keys, List.map_cons, List.nodup_cons] at hn
    simp only [List.foldl_cons]
    rw [ih hn.2, dbDel_abs]
    unfold delMarked
    simp only [aGet]
    by_cases hh : h = op.hash
    · subst hh
      have : aGet r op.hash = none := (aGet_none_iff r _).mpr hn.1
      simp only [this, ↓reduceIte, true_and]
      simp
    · have : ¬ op.hash = h := fun e => hh e.symm
      simp [hh, this]

/-- `do_add` files the record under its 8-byte key, whatever was there -/
theorem dbAdd_abs (mtpOf : Nat → Nat) (db : DB) (r : Rec) (op : OutPoint) :
    absGet mtpOf (dbAdd db r) op =
      if key8 r.txid = key8 op.hash then (if r.txid = op.hash then recGet mtpOf r op.vout else none)
      else absGet mtpOf db op := by
  unfold dbAdd
  rw [absGet_eq, aGet_aSet]
  by_cases hk : key8 r.txid = key8 op.hash
  · simp [hk]
  · simp only [hk, ↓reduceIte]; rw [absGet_eq]

/-- record that AddList makes of one blUnsp entry -/
def addRec (b : Block) (e : Bytes × (Bool × List (Option TxOut))) : Option Rec :=
  if e.2.2.any Option.isSome then some { txid := e.1, height := b.height, coinbase := e.2.1, outs := e.2.2 } else none

theorem addList_eq (b : Block) (s : St) : addList b s = s.blUnsp.filterMap (addRec b) := by
  unfold addList addRec
  congr 1

/-- all additions of a block, when the 8-byte keys of the new txids are pairwise different and free in the map:
    the new coins are exactly the unspent slots of blUnsp -/
theorem foldl_dbAdd_abs (mtpOf : Nat → Nat) (b : Block) (L : List (Bytes × (Bool × List (Option TxOut))))
    (hinj : ((keys L).map key8).Nodup) (db : DB) (hfree : ∀ k ∈ keys L, aGet db (key8 k) = none) (op : OutPoint) :
    absGet mtpOf ((L.filterMap (addRec b)).foldl dbAdd db) op =
      match aGet L op.hash with
      | some (cb, t) => (t.getD op.vout none).map fun o => ⟨o.value, o.script, b.height, cb, mtpOf b.height⟩
      | none => absGet mtpOf db op := by
  induction L generalizing db with
  | nil => simp [aGet]
  | cons e r ih =>
    obtain ⟨k, cb, t⟩ := e
    simp only [keys, List.map_cons, List.nodup_cons, List.mem_map, not_exists, not_and] at hinj
    have hfree_k : aGet db (key8 k) = none := hfree k (by simp [keys])
    have hrest_ne : ∀ k' ∈ keys r, key8 k' ≠ key8 k := by
      intro k' hk' he
      exact hinj.1 k' (by simpa [keys] using hk') he
    have hget_rest : key8 k = key8 op.hash → aGet r op.hash = none := by
      intro he
      apply (aGet_none_iff r _).mpr
      intro hm
      exact hrest_ne _ hm he.symm
    simp only [List.filterMap_cons, aGet]
    cases ha : addRec b (k, cb, t) with
    | none =>
      -- no unspent slot: nothing is filed
      have hnone : ∀ v, t.getD v none = none := by
        intro v
        apply getD_none_of_not_any
        unfold addRec at ha
        by_cases hany : t.any Option.isSome = true
        · simp [hany] at ha
        · exact hany
      simp only []
      rw [ih (by simpa [keys] using hinj.2) db (fun k' hk' => hfree k' (by simp only [keys, List.map_cons, List.mem_cons]; exact Or.inr hk'))]
      by_cases hk : k = op.hash
      · subst hk
        simp only [↓reduceIte, hget_rest rfl, hnone, Option.map_none]
        rw [absGet_eq, hfree_k]
      · simp [hk]
    | some rec =>
      have hrec : rec = { txid := k, height := b.height, coinbase := cb, outs := t } := by
        unfold addRec at ha
        by_cases hany : t.any Option.isSome = true
        · simp only [hany, ↓reduceIte, Option.some.injEq] at ha; exact ha.symm
        · simp [hany] at ha
      simp only [List.foldl_cons]
      have hfree' : ∀ k' ∈ keys r, aGet (dbAdd db rec) (key8 k') = none := by
        intro k' hk'
        unfold dbAdd
        rw [aGet_aSet, hrec]
        simp only [(hrest_ne k' hk').symm, ↓reduceIte]
        exact hfree k' (by simp only [keys, List.map_cons, List.mem_cons]; exact Or.inr hk')
      rw [ih (by simpa [keys] using hinj.2) (dbAdd db rec) hfree', dbAdd_abs, hrec]
      by_cases hk : k = op.hash
      · subst hk
        simp only [↓reduceIte, hget_rest rfl, recGet]
        rfl
      · simp only [hk, ↓reduceIte]
        cases hr : aGet r op.hash with
        | some x => rfl
        | none =>
          simp only []
          by_cases hk8 : key8 k = key8 op.hash
          · simp only [hk8, ↓reduceIte, absGet_eq]
            rw [← hk8, hfree_k]
          · simp [hk8]

end GocoinV.Proofs.C04
