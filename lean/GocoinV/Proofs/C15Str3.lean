/-
  Proofs.C15Str3 — `bech32.Encode` with its hrp loops as written (range over the code points of the string,
  Model/Bech32Str.lean) computes the bytewise `Bech32.encode`, for every byte string.
-/
import GocoinV.Model.Bech32Str
import GocoinV.Proofs.C15Str
import GocoinV.Proofs.C15Bech32c
import GocoinV.Proofs.C15Bech32Inv
namespace GocoinV.Bech32Str
open GocoinV.Bech32 GocoinV.Base58Str

/-- `Bech32.encode` without the do-notation -/
theorem encode_unfold (hrp data : Bytes) (m : Bool) :
    encode hrp data m =
      if hrp.length < 1 then none
      else match hrpHigh? hrp 1 with
        | none => none
        | some chk =>
          if hrp.length + 7 + data.length > 90 then none
          else match dataFold? data (hrpLow hrp (polymodStep chk)) with
            | none => none
            | some c =>
              some (hrp ++ [49] ++ data.map charsetAt ++ (checksumSyms (six c ^^^ finalConstant m)).map charsetAt) := by
  unfold encode
  by_cases h0 : hrp.length < 1
  · simp [h0]
  · simp only [h0, ↓reduceIte]
    cases h1 : hrpHigh? hrp 1 with
    | none => simp
    | some c1 =>
      simp only [Option.bind_eq_bind, Option.bind_some]
      by_cases hl : hrp.length + 7 + data.length > 90
      · simp [hl]
      · simp only [hl, ↓reduceIte]
        cases h2 : dataFold? data (hrpLow hrp (polymodStep c1)) with
        | none => simp
        | some c0 => simp

/-- the first loop: positions visited = all bytes, and `i` ends as the number of bytes (unchanged for "") -/
theorem hrpHighR_eq (s : Bytes) : ∀ (pos : Nat) (chk : UInt32) (i : Nat),
    hrpHighR s 0 pos chk i = (hrpHigh? s chk).map (fun c => (c, if s = [] then i else pos + s.length)) := by
  induction s with
  | nil => intro pos chk i; simp [hrpHighR, hrpHigh?]
  | cons ch t ih =>
    intro pos chk i
    simp only [hrpHighR, hrpHigh?]
    by_cases hr : ch.toNat < 33 ∨ ch.toNat > 126
    · simp [hr]
    · simp only [hr, ↓reduceIte]
      by_cases hu : isUpper ch = true
      · simp [hu]
      · simp only [hu]
        rw [decodeRune_ascii ch t (by omega)]
        simp only [Nat.sub_self, Bool.false_eq_true, ↓reduceIte]
        rw [ih]
        cases hrpHigh? t (polymodStep chk ^^^ ch.toUInt32 >>> 5) with
        | none => rfl
        | some c =>
          simp only [Option.map_some, reduceCtorEq, ↓reduceIte, List.length_cons, Option.some.injEq, Prod.mk.injEq,
            true_and]
          split <;> simp_all <;> omega

/-- a human-readable part the first loop accepts is ASCII -/
theorem hrpHigh_ascii (s : Bytes) : ∀ (chk c : UInt32), hrpHigh? s chk = some c → ∀ x ∈ s, x.toNat < 128 := by
  induction s with
  | nil => intro _ _ _ x hx; cases hx
  | cons ch t ih =>
    intro chk c h x hx
    unfold hrpHigh? at h
    by_cases hr : ch.toNat < 33 ∨ ch.toNat > 126
    · simp [hr] at h
    · simp only [hr, ↓reduceIte] at h
      by_cases hu : isUpper ch = true
      · simp [hu] at h
      · simp only [hu] at h
        rcases List.mem_cons.mp hx with rfl | hm
        · omega
        · exact ih _ c (by simpa using h) x hm

/-- the second loop on an ASCII string: every byte is visited and written -/
theorem hrpLowR_eq (s : Bytes) : ∀ (chk : UInt32) (out : Bytes), (∀ x ∈ s, x.toNat < 128) →
    hrpLowR s 0 chk out = (hrpLow s chk, out ++ s) := by
  induction s with
  | nil => intro chk out _; simp [hrpLowR, hrpLow]
  | cons ch t ih =>
    intro chk out h
    simp only [hrpLowR, hrpLow]
    rw [decodeRune_ascii ch t (h ch (by simp))]
    simp only [Nat.sub_self]
    rw [ih _ _ (fun x hx => h x (by simp [hx]))]
    simp

/-- `Encode` as written = the bytewise model, for EVERY hrp (any bytes), data and variant -/
theorem encodeSrc_eq (hrp data : Bytes) (m : Bool) : encodeSrc hrp data m = encode hrp data m := by
  rw [encode_unfold]
  unfold encodeSrc
  by_cases h0 : hrp.length < 1
  · simp [h0]
  · simp only [h0, ↓reduceIte]
    rw [hrpHighR_eq]
    cases h1 : hrpHigh? hrp 1 with
    | none => simp
    | some c1 =>
      have hne : hrp ≠ [] := by intro e; subst e; simp at h0
      simp only [Option.map_some, hne, ↓reduceIte, Nat.zero_add]
      by_cases hl : hrp.length + 7 + data.length > 90
      · simp [hl]
      · simp only [hl, ↓reduceIte]
        rw [hrpLowR_eq hrp _ _ (hrpHigh_ascii hrp 1 c1 h1)]
        simp only [List.nil_append]
        cases dataFold? data (hrpLow hrp (polymodStep c1)) <;> rfl

/-- which human-readable parts `Encode` takes: every byte in 33..126 and not an upper-case letter -/
def hrpCharsOK (hrp : Bytes) : Prop := ∀ c ∈ hrp, 33 ≤ c.toNat ∧ c.toNat ≤ 126 ∧ isUpper c = false

theorem hrpHigh_isSome_iff (s : Bytes) : ∀ chk, (hrpHigh? s chk).isSome = true ↔ hrpCharsOK s := by
  induction s with
  | nil => intro _; simp [hrpHigh?, hrpCharsOK]
  | cons ch t ih =>
    intro chk
    unfold hrpHigh?
    by_cases hr : ch.toNat < 33 ∨ ch.toNat > 126
    · simp only [hr, ↓reduceIte, Option.isSome_none, Bool.false_eq_true, false_iff]
      intro h; have := h ch (by simp); omega
    · simp only [hr, ↓reduceIte]
      by_cases hu : isUpper ch = true
      · simp only [hu, ↓reduceIte, Option.isSome_none, Bool.false_eq_true, false_iff]
        intro h; have := (h ch (by simp)).2.2; rw [hu] at this; cases this
      · have hu' : isUpper ch = false := by simpa using hu
        simp only [hu', Bool.false_eq_true, ↓reduceIte]
        rw [ih]
        constructor
        · intro h c hc
          rcases List.mem_cons.mp hc with rfl | hm
          · exact ⟨by omega, by omega, hu'⟩
          · exact h c hm
        · intro h c hc; exact h c (by simp [hc])

theorem dataFold_isSome_iff (d : Bytes) : ∀ chk, (dataFold? d chk).isSome = true ↔ ∀ x ∈ d, x.toNat ≤ 31 := by
  induction d with
  | nil => intro _; simp [dataFold?]
  | cons x t ih =>
    intro chk
    unfold dataFold?
    by_cases hx : x >>> 5 ≠ 0
    · rw [if_pos hx]
      simp only [Option.isSome_none, Bool.false_eq_true, false_iff]
      intro h
      exact hx (shr5_of_le31 x (h x (by simp)))
    · have hx0 : x >>> 5 = 0 := by simpa using hx
      simp only [hx0, ne_eq, not_true_eq_false, ↓reduceIte]
      rw [ih]
      constructor
      · intro h y hy
        rcases List.mem_cons.mp hy with rfl | hm
        · exact lt32_of_shr5 _ hx0
        · exact h y hm
      · intro h y hy; exact h y (by simp [hy])

/-- `Encode` produces a string EXACTLY for the encodable arguments of BIP173: a non-empty hrp of characters 33..126
    without upper-case letters, 5-bit data symbols, total length hrp + 1 + data + 6 ≤ 90 -/
theorem encode_isSome_iff (hrp data : Bytes) (m : Bool) :
    (encode hrp data m).isSome = true ↔
      hrp ≠ [] ∧ hrpCharsOK hrp ∧ (∀ x ∈ data, x.toNat ≤ 31) ∧ hrp.length + 7 + data.length ≤ 90 := by
  rw [encode_unfold]
  by_cases h0 : hrp.length < 1
  · have : hrp = [] := by cases hrp with
      | nil => rfl
      | cons _ _ => simp at h0
    simp [this]
  · have hne : hrp ≠ [] := by intro e; subst e; simp at h0
    simp only [h0, ↓reduceIte]
    cases h1 : hrpHigh? hrp 1 with
    | none =>
      simp only [Option.isSome_none, Bool.false_eq_true, false_iff]
      intro h
      have := (hrpHigh_isSome_iff hrp 1).mpr h.2.1
      rw [h1] at this; cases this
    | some c1 =>
      have hok : hrpCharsOK hrp := (hrpHigh_isSome_iff hrp 1).mp (by simp [h1])
      by_cases hl : hrp.length + 7 + data.length > 90
      · simp only [hl, ↓reduceIte, Option.isSome_none, Bool.false_eq_true, false_iff]
        intro h; omega
      · simp only [hl, ↓reduceIte]
        cases h2 : dataFold? data (hrpLow hrp (polymodStep c1)) with
        | none =>
          simp only [Option.isSome_none, Bool.false_eq_true, false_iff]
          intro h
          have := (dataFold_isSome_iff data (hrpLow hrp (polymodStep c1))).mpr h.2.2.1
          rw [h2] at this; cases this
        | some c0 =>
          have hd := (dataFold_isSome_iff data (hrpLow hrp (polymodStep c1))).mp (by simp [h2])
          simp only [Option.isSome_some, true_iff]
          exact ⟨hne, hok, hd, by omega⟩

end GocoinV.Bech32Str
