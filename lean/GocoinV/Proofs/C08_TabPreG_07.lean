/- C08 table proof chunk (written once by Proofs/mk_c08_tab.py; static). -/
import GocoinV.Proofs.C08_TabDefs
import GocoinV.Gen.TablesPreG07
import GocoinV.Gen.TablesPreG06
namespace GocoinV.C08
open GocoinV.Gen

theorem preG_07 : chainOK (Secp.dbl Secp.G) ((pts Tables.preG06).getLastD none :: pts Tables.preG07) = true := by
  decide +kernel
theorem preG_07_ne : pts Tables.preG07 ≠ [] := by decide +kernel

end GocoinV.C08
