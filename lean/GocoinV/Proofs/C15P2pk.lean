/-
  Proofs.C15P2pk — the pay-to-pubkey branches of `btc.NewAddrFromPkScript` (lib/btc/addr.go):
  `<33-byte push> OP_CHECKSIG` and `<65-byte push> OP_CHECKSIG`. The code does not look at the key bytes
  (no 02/03/04 prefix test): it hashes them and returns the P2PKH address of that hash.
-/
import GocoinV.Model.Addr
namespace GocoinV.Addr

theorem getD_last (x : UInt8) (pk : Bytes) (y : UInt8) (n : Nat) (hn : pk.length = n) :
    (x :: (pk ++ [y])).getD (n + 1) 0 = y := by
  simp only [List.getD_cons_succ]
  rw [List.getD_eq_getElem?_getD, List.getElem?_append_right (by omega)]
  simp [hn]

theorem isWitnessProgram_p2pk33 (pk : Bytes) (h : pk.length = 33) :
    isWitnessProgram (0x21 :: (pk ++ [0xac])) = none := by
  unfold isWitnessProgram
  simp [h]

theorem isWitnessProgram_p2pk65 (pk : Bytes) (h : pk.length = 65) :
    isWitnessProgram (0x41 :: (pk ++ [0xac])) = none := by
  unfold isWitnessProgram
  simp [h]

/-- compressed-key form: 21 <33 bytes> ac -/
theorem fromPkScript_p2pk33 (H : Hashes) (tn : Bool) (pk : Bytes) (h : pk.length = 33) :
    fromPkScript H (0x21 :: (pk ++ [0xac])) tn =
      some (.b58 (if tn then 111 else 0) (H.hash160 pk) none) := by
  unfold fromPkScript
  have hlast := getD_last 0x21 pk 0xac 33 h
  have hlen : (0x21 :: (pk ++ [0xac]) : Bytes).length = 35 := by simp [h]
  have htake : ((0x21 :: (pk ++ [0xac]) : Bytes).drop 1).take 33 = pk := by
    simp only [List.drop_succ_cons, List.drop_zero]; exact List.take_left' h
  simp only [isWitnessProgram_p2pk33 pk h, hlen, hlast, htake, List.isEmpty_cons, Bool.false_eq_true, ↓reduceIte,
    List.getD_cons_zero, Nat.reduceEqDiff, false_and, and_self]

/-- uncompressed-key form: 41 <65 bytes> ac -/
theorem fromPkScript_p2pk65 (H : Hashes) (tn : Bool) (pk : Bytes) (h : pk.length = 65) :
    fromPkScript H (0x41 :: (pk ++ [0xac])) tn =
      some (.b58 (if tn then 111 else 0) (H.hash160 pk) none) := by
  unfold fromPkScript
  have hlast := getD_last 0x41 pk 0xac 65 h
  have hlen : (0x41 :: (pk ++ [0xac]) : Bytes).length = 67 := by simp [h]
  have htake : ((0x41 :: (pk ++ [0xac]) : Bytes).drop 1).take 65 = pk := by
    simp only [List.drop_succ_cons, List.drop_zero]; exact List.take_left' h
  simp only [isWitnessProgram_p2pk65 pk h, hlen, hlast, htake, List.isEmpty_cons, Bool.false_eq_true, ↓reduceIte,
    List.getD_cons_zero, Nat.reduceEqDiff, false_and, and_self]

end GocoinV.Addr
