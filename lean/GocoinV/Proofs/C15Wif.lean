/-
  Proofs.C15Wif — WIF private-key strings (lib/btc/wallet.go DecodePrivateAddr / PrivateAddr.String):
  C14's model (Model/HD.lean) factors through the string-level codec of Model/AddrWif.lean, and that
  codec is a bijection between accepted strings with a canonical flag byte and (version, 32-byte key,
  compressed) triples. Since the `fix:` commit for finding `wif-flag-byte-unchecked` the flag byte of a 38-byte
  payload IS checked (anything but 01 is refused): `flag_refused`; hence every accepted string is canonical
  (`encode_decode` needs no side condition) and the decoder is injective (`decode_inj`).
-/
import GocoinV.Model.AddrWif
import GocoinV.Proofs.C15Base58b
namespace GocoinV.AddrWif
open HD

/-- C14's `decodePrivateAddr` = string-level `decode`, then `NewPrivateAddr` on the triple -/
theorem decodePrivateAddr_factors (C : WalletCrypto) (s : Bytes) :
    HD.decodePrivateAddr C s =
      match decode C s with
      | .error e => .error e
      | .ok (v, k, c) => .ok (newPrivateAddr C k v c) := by
  unfold HD.decodePrivateAddr decode
  cases Base58.decode s with
  | none => rfl
  | some pkb =>
    simp only
    split; · rfl
    split; · rfl
    split; · rfl
    split; · rfl
    rfl

theorem pub_length (key : Bytes) (compr : Bool) (pb : Bytes) (h : publicFromPrivate key compr = some pb) :
    pb.length = if compr then 33 else 65 := by
  unfold publicFromPrivate serPoint at h
  cases hm : Secp.mul (beVal key) Secp.G with
  | none => simp [hm] at h
  | some P =>
    simp only [hm, Option.some.injEq] at h
    subst h
    cases compr <;> simp [Secp.ser33, Secp.ser65, beBytes]

/-- C14's `privAddrString` of what `NewPrivateAddr` builds = string-level `encode` of the triple -/
theorem privAddrString_factors (C : WalletCrypto) (key : Bytes) (ver : UInt8) (compr : Bool) (pa : PrivAddr)
    (h : newPrivateAddr C key ver compr = .ok pa) : privAddrString C pa = .ok (encode C ver key compr) := by
  unfold newPrivateAddr at h
  cases hpub : publicFromPrivate key compr with
  | none => simp [hpub] at h
  | some pb =>
    simp only [hpub, Except.ok.injEq] at h
    have hpl := pub_length key compr pb hpub
    subst h
    unfold privAddrString encode payload
    cases compr <;> simp [hpl]

/-- decoding the Base58Check string built from a 33- or 34-byte body -/
theorem decode_of_body (C : WalletCrypto) (hlen : ∀ b, (C.shaHash b).length = 32) (buf : Bytes)
    (hb : buf.length = 33 ∨ buf.length = 34) :
    decode C (Base58.encode (buf ++ (C.shaHash buf).take 4)) =
      if buf.length = 34 ∧ buf.getD 33 0 ≠ 1 then .error .flag
      else .ok (buf.headD 0, (buf.drop 1).take 32, decide (buf.length = 34 ∧ buf.getD 33 0 = 1)) := by
  have hcs : ((C.shaHash buf).take 4).length = 4 := by simp [hlen]
  generalize hcsd : (C.shaHash buf).take 4 = cs at hcs
  have hne : buf ++ cs ≠ [] := by
    intro h
    have h' := (List.append_eq_nil_iff.mp h).1
    rw [h'] at hb; simp at hb
  unfold decode
  rw [Base58.decode_encode _ hne]
  have hl : (buf ++ cs).length = buf.length + 4 := by simp [hcs]
  have ht : (buf ++ cs).take ((buf ++ cs).length - 4) = buf := by
    rw [hl]; exact List.take_left' (by omega)
  have hd : (buf ++ cs).drop ((buf ++ cs).length - 4) = cs := by
    rw [hl]; exact List.drop_left' (by omega)
  have hh : (buf ++ cs).headD 0 = buf.headD 0 := by
    cases buf with
    | nil => simp at hb
    | cons x t => rfl
  have hk : ((buf ++ cs).drop 1).take 32 = (buf.drop 1).take 32 := by
    rw [List.drop_append_of_le_length (by omega), List.take_append_of_le_length (by simp; omega)]
  have hg : buf.length = 34 → (buf ++ cs).getD 33 0 = buf.getD 33 0 := by
    intro h34
    rw [List.getD_eq_getElem?_getD, List.getD_eq_getElem?_getD, List.getElem?_append_left (by omega)]
  generalize hp : buf ++ cs = pkb at hl ht hd hh hk hg
  simp only [ht, hd, hcsd, hh, hk, ne_eq, not_true_eq_false, ↓reduceIte]
  rw [if_neg (by omega), if_neg (by omega)]
  have e1 : (pkb.length = 38 ∧ ¬ pkb.getD 33 0 = 1) ↔ (buf.length = 34 ∧ ¬ buf.getD 33 0 = 1) := by
    constructor
    · intro h
      have h34 : buf.length = 34 := by omega
      exact ⟨h34, (hg h34) ▸ h.2⟩
    · intro h
      exact ⟨by omega, (hg h.1).symm ▸ h.2⟩
  have e : decide (pkb.length = 38 ∧ pkb.getD 33 0 = 1) = decide (buf.length = 34 ∧ buf.getD 33 0 = 1) := by
    apply decide_eq_decide.mpr
    constructor
    · intro h
      have h34 : buf.length = 34 := by omega
      exact ⟨h34, (hg h34) ▸ h.2⟩
    · intro h
      exact ⟨by omega, (hg h.1).symm ▸ h.2⟩
  rw [e]
  by_cases hc : buf.length = 34 ∧ ¬ buf.getD 33 0 = 1
  · rw [if_pos (e1.mpr hc), if_pos hc]
  · rw [if_neg (fun h => hc (e1.mp h)), if_neg hc]

/-- WIF round trip at the string level: decode ∘ encode = id on (version, 32-byte key, compressed) -/
theorem decode_encode (C : WalletCrypto) (hlen : ∀ b, (C.shaHash b).length = 32) (ver : UInt8) (key : Bytes)
    (compr : Bool) (hk : key.length = 32) : decode C (encode C ver key compr) = .ok (ver, key, compr) := by
  unfold encode
  cases compr with
  | false =>
    have := decode_of_body C hlen (payload ver key false) (Or.inl (by simp [payload, hk]))
    simp only at this ⊢
    rw [this]
    have hl : ¬ (payload ver key false).length = 34 := by simp [payload, hk]
    simp only [payload, Bool.false_eq_true, ↓reduceIte, List.headD_cons, List.drop_succ_cons, List.drop_zero] at hl ⊢
    rw [List.take_of_length_le (by omega)]
    simp [hk]
  | true =>
    have := decode_of_body C hlen (payload ver key true) (Or.inr (by simp [payload, hk]))
    simp only at this ⊢
    rw [this]
    simp only [payload, ↓reduceIte, List.headD_cons, List.drop_succ_cons, List.drop_zero]
    have h33 : (ver :: (key ++ [1])).getD 33 0 = 1 := by
      simp only [List.getD_cons_succ]
      rw [List.getD_eq_getElem?_getD, List.getElem?_append_right (by omega)]
      simp [hk]
    rw [List.take_left' hk, h33]
    simp [hk]

/-- acceptance stated outright -/
theorem accept_iff (C : WalletCrypto) (s : Bytes) (v : UInt8) (k : Bytes) (c : Bool) :
    decode C s = .ok (v, k, c) ↔
      ∃ pkb, Base58.decode s = some pkb ∧
        ((pkb.length = 37 ∧ c = false) ∨ (pkb.length = 38 ∧ pkb.getD 33 0 = 1 ∧ c = true)) ∧
        (C.shaHash (pkb.take (pkb.length - 4))).take 4 = pkb.drop (pkb.length - 4) ∧
        v = pkb.headD 0 ∧ k = (pkb.drop 1).take 32 := by
  unfold decode
  cases hd : Base58.decode s with
  | none => simp
  | some pkb =>
    simp only [Option.some.injEq, exists_eq_left']
    constructor
    · intro h
      split at h; · simp at h
      rename_i h1
      split at h; · simp at h
      rename_i h2
      split at h; · simp at h
      rename_i h3
      split at h; · simp at h
      rename_i h4
      simp only [Except.ok.injEq, Prod.mk.injEq] at h
      refine ⟨?_, by simpa using h3, h.1.symm, h.2.1.symm⟩
      by_cases h38 : pkb.length = 38
      · have hf : pkb.getD 33 0 = 1 := by
          apply Classical.byContradiction
          intro hn
          exact h4 ⟨h38, hn⟩
        exact Or.inr ⟨h38, hf, h.2.2.symm.trans (decide_eq_true ⟨h38, hf⟩)⟩
      · exact Or.inl ⟨by omega, h.2.2.symm.trans (decide_eq_false (fun hh => h38 hh.1))⟩
    · rintro ⟨hl, hc, rfl, rfl⟩
      have h1 : ¬ pkb.length < 37 := by omega
      have h2 : ¬ pkb.length > 38 := by omega
      have h3 : ¬ (C.shaHash (pkb.take (pkb.length - 4))).take 4 ≠ pkb.drop (pkb.length - 4) := by simp [hc]
      rw [if_neg h1, if_neg h2, if_neg h3]
      rcases hl with ⟨hl, rfl⟩ | ⟨hl, hf, rfl⟩
      · have hn : ¬ (pkb.length = 38 ∧ pkb.getD 33 0 = 1) := fun hh => by omega
        rw [if_neg (by omega), decide_eq_false hn]
      · rw [if_neg (fun h => h.2 hf), decide_eq_true (⟨hl, hf⟩ : pkb.length = 38 ∧ pkb.getD 33 0 = 1)]

/-- the payload of an accepted string satisfies the flag rule of Bitcoin Core's `DecodeSecret` -/
theorem accepted_canonical (C : WalletCrypto) (s pkb : Bytes) (v : UInt8) (k : Bytes) (c : Bool)
    (hd : Base58.decode s = some pkb) (h : decode C s = .ok (v, k, c)) : canonicalFlag pkb = true := by
  obtain ⟨pkb', hd', hl, _⟩ := (accept_iff C s v k c).mp h
  rw [hd] at hd'
  obtain rfl := Option.some.inj hd'
  unfold canonicalFlag
  rcases hl with ⟨hl, _⟩ | ⟨_, hf, _⟩
  · simp [hl]
  · rw [List.getD_eq_getElem?_getD] at hf
    simp [hf]

/-- every accepted string is exactly the `String()` of the triple it decodes to -/
theorem encode_decode (C : WalletCrypto) (s : Bytes) (v : UInt8) (k : Bytes) (c : Bool)
    (h : decode C s = .ok (v, k, c)) : encode C v k c = s ∧ k.length = 32 := by
  obtain ⟨pkb, hd, hl, hc, rfl, rfl⟩ := (accept_iff C s v k c).mp h
  have hkl : ((pkb.drop 1).take 32).length = 32 := by
    rcases hl with ⟨hl, _⟩ | ⟨hl, _⟩ <;> (simp; omega)
  refine ⟨?_, hkl⟩
  have hsplit : pkb = pkb.take (pkb.length - 4) ++ pkb.drop (pkb.length - 4) := (List.take_append_drop _ _).symm
  have hbody : payload (pkb.headD 0) ((pkb.drop 1).take 32) c = pkb.take (pkb.length - 4) := by
    cases pkb with
    | nil => simp at hl
    | cons x t =>
      simp only [List.headD_cons, List.drop_succ_cons, List.drop_zero, List.length_cons] at hl ⊢
      rcases hl with ⟨hl, rfl⟩ | ⟨hl, hflag, rfl⟩
      · have e : t.length + 1 - 4 = 32 + 1 := by omega
        simp only [payload, Bool.false_eq_true, ↓reduceIte, e, List.take_succ_cons]
      · have e : t.length + 1 - 4 = 33 + 1 := by omega
        simp only [payload, ↓reduceIte, e, List.take_succ_cons, List.cons.injEq, true_and]
        -- t.take 33 = t.take 32 ++ [1]
        have h32 : t.getD 32 0 = 1 := by simpa using hflag
        have hlt : 32 < t.length := by omega
        have : t.take 33 = t.take 32 ++ [t[32]] := by
          rw [List.take_add_one, List.getElem?_eq_getElem hlt]; rfl
        rw [this]
        have hg : t[32] = 1 := by
          rw [List.getD_eq_getElem?_getD, List.getElem?_eq_getElem hlt] at h32
          simpa using h32
        rw [hg]
  unfold encode
  simp only
  rw [hbody, hc, ← hsplit]
  exact Base58.encode_decode s pkb hd

/-- the decoder is injective: two strings that denote the same (version, key, compressed) are one string -/
theorem decode_inj (C : WalletCrypto) (s s' : Bytes) (v : UInt8) (k : Bytes) (c : Bool)
    (h : decode C s = .ok (v, k, c)) (h' : decode C s' = .ok (v, k, c)) : s = s' :=
  (encode_decode C s v k c h).1.symm.trans (encode_decode C s' v k c h').1

/-- THE FLAG BYTE IS CHECKED (regression statement for finding `wif-flag-byte-unchecked`): for every version,
    32-byte key and flag byte other than 01, the Base58Check string of version ‖ key ‖ flag (38-byte payload,
    correct checksum) is refused with the flag error. -/
theorem flag_refused (C : WalletCrypto) (hlen : ∀ b, (C.shaHash b).length = 32) (ver flag : UInt8) (key : Bytes)
    (hk : key.length = 32) (hf : flag ≠ 1) :
    let buf := ver :: (key ++ [flag])
    decode C (Base58.encode (buf ++ (C.shaHash buf).take 4)) = .error .flag := by
  intro buf
  have hbl : buf.length = 34 := by simp [buf, hk]
  have := decode_of_body C hlen buf (Or.inr hbl)
  rw [this]
  have h33 : buf.getD 33 0 = flag := by
    simp only [buf, List.getD_cons_succ]
    rw [List.getD_eq_getElem?_getD, List.getElem?_append_right (by omega)]
    simp [hk]
  rw [if_pos ⟨hbl, by rw [h33]; exact hf⟩]

end GocoinV.AddrWif
