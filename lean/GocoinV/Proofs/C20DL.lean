/-
  Proofs.C20DL — doubly linked lists as pointer structures: `DL nx pv hd p l` says that starting at the
  pointer `hd` and following the field `nx` one visits exactly the nodes `l` (then nil), and that the field
  `pv` of every node is its predecessor (`p` for the first node).  Generic lemmas: walking, push-front,
  removal of any node through its own `pv`/`nx` fields (what `n.prev.next = n.next; n.next.prev = n.prev`
  does), append at the tail, last element after a removal.  Core only.
-/
import GocoinV.Model.Alloc
namespace GocoinV.Alloc

set_option linter.unusedSectionVars false
section DL
variable {α : Type} [DecidableEq α] [BEq α] [LawfulBEq α]

def DL (nx pv : α → Option α) : Option α → Option α → List α → Prop
  | hd, _, [] => hd = none
  | hd, p, x :: xs => hd = some x ∧ pv x = p ∧ DL nx pv (nx x) (some x) xs

theorem DL.congr {nx pv nx' pv' : α → Option α} :
    ∀ {l : List α} {hd p : Option α}, (∀ a, a ∈ l → nx' a = nx a ∧ pv' a = pv a) →
      DL nx pv hd p l → DL nx' pv' hd p l := by
  intro l
  induction l with
  | nil => intro hd p _ h; exact h
  | cons x xs ih =>
    intro hd p hf h
    obtain ⟨h1, h2, h3⟩ := h
    have hx := hf x (by simp)
    refine ⟨h1, by rw [hx.2]; exact h2, ?_⟩
    rw [hx.1]
    exact ih (fun a ha => hf a (List.mem_cons_of_mem _ ha)) h3

theorem DL.head {nx pv : α → Option α} {l : List α} {hd p : Option α} (h : DL nx pv hd p l) :
    hd = l.head? := by
  cases l with
  | nil => exact h
  | cons x xs => exact h.1

theorem DL.walk {nx pv : α → Option α} :
    ∀ {l : List α} {hd p : Option α} (f : Nat), DL nx pv hd p l → l.length ≤ f → walk nx f hd = l := by
  intro l
  induction l with
  | nil => intro hd p f h _; cases h; cases f <;> rfl
  | cons x xs ih =>
    intro hd p f h hf
    obtain ⟨h1, _, h3⟩ := h
    subst h1
    cases f with
    | zero => simp at hf
    | succ f =>
      simp only [Alloc.walk]
      rw [ih f h3 (by simpa using hf)]

/-- the `nx` field of a node of the list points into the list -/
theorem DL.nx_in {nx pv : α → Option α} :
    ∀ {l : List α} {hd p : Option α}, DL nx pv hd p l → ∀ x, x ∈ l → ∀ z, nx x = some z → z ∈ l := by
  intro l
  induction l with
  | nil => intro hd p _ x hx; cases hx
  | cons y ys ih =>
    intro hd p h x hx z hz
    obtain ⟨_, _, h3⟩ := h
    rcases List.mem_cons.1 hx with e | e
    · subst e
      have := h3.head; rw [hz] at this
      cases ys with
      | nil => cases this
      | cons w ws => simp at this; subst this; simp
    · exact List.mem_cons_of_mem _ (ih h3 x e z hz)

/-- a node that is not the first has its predecessor in the list as `pv` -/
theorem DL.pv_tail {nx pv : α → Option α} :
    ∀ {l : List α} {hd p : Option α}, DL nx pv hd p l → ∀ x, x ∈ l → l.head? ≠ some x →
      ∃ z, z ∈ l ∧ pv x = some z := by
  intro l
  induction l with
  | nil => intro hd p _ x hx; cases hx
  | cons y ys ih =>
    intro hd p h x hx hne
    obtain ⟨_, _, h3⟩ := h
    rcases List.mem_cons.1 hx with e | e
    · subst e; simp at hne
    · by_cases hh : ys.head? = some x
      · cases ys with
        | nil => cases e
        | cons w ws =>
          simp at hh; subst hh
          exact ⟨y, by simp, h3.2.1⟩
      · obtain ⟨z, hz, hp⟩ := ih h3 x e hh
        exact ⟨z, List.mem_cons_of_mem _ hz, hp⟩

theorem DL.pv_in {nx pv : α → Option α} {l : List α} {hd : Option α} (h : DL nx pv hd none l)
    (x : α) (hx : x ∈ l) (z : α) (hz : pv x = some z) : z ∈ l := by
  by_cases hh : l.head? = some x
  · cases l with
    | nil => cases hx
    | cons y ys => simp at hh; subst hh; rw [h.2.1] at hz; cases hz
  · obtain ⟨w, hw, hp⟩ := h.pv_tail x hx hh
    rw [hp] at hz; cases hz; exact hw

/-- in a list anchored with `p = none`: a node is the first one iff its `pv` is nil (the code's
    `if prev == 0` test) -/
theorem DL.pv_none_iff {nx pv : α → Option α} {l : List α} {hd : Option α} (h : DL nx pv hd none l)
    (x : α) (hx : x ∈ l) : pv x = none ↔ hd = some x := by
  constructor
  · intro hn
    rw [h.head]
    apply Classical.byContradiction
    intro hh
    obtain ⟨w, _, hp⟩ := h.pv_tail x hx hh
    rw [hp] at hn; cases hn
  · intro hh
    cases l with
    | nil => cases hx
    | cons y ys =>
      have := h.1; rw [hh] at this; cases this; exact h.2.1

/-- the back-links mirror the forward links: the successor's `pv` is the node itself -/
theorem DL.back {nx pv : α → Option α} :
    ∀ {l : List α} {hd p : Option α}, DL nx pv hd p l → ∀ x, x ∈ l → ∀ y, nx x = some y → pv y = some x := by
  intro l
  induction l with
  | nil => intro hd p _ x hx; cases hx
  | cons z zs ih =>
    intro hd p h x hx y hy
    obtain ⟨_, _, h3⟩ := h
    rcases List.mem_cons.1 hx with e | e
    · subst e
      cases zs with
      | nil => have := h3; rw [hy] at this; cases this
      | cons w ws =>
        have := h3.1; rw [hy] at this; cases this
        exact h3.2.1
    · exact ih h3 x e y hy

/-- push-front -/
theorem DL.push {nx pv nx' pv' : α → Option α} {hd : Option α} {l : List α} {x : α}
    (h : DL nx pv hd none l) (nd : l.Nodup)
    (hnx : nx' x = hd) (hpv : pv' x = none) (hhd : ∀ y, hd = some y → pv' y = some x)
    (fr : ∀ a, a ∈ l → nx' a = nx a ∧ (hd ≠ some a → pv' a = pv a)) :
    DL nx' pv' (some x) none (x :: l) := by
  refine ⟨rfl, hpv, ?_⟩
  rw [hnx]
  cases l with
  | nil => exact h
  | cons y ys =>
    obtain ⟨h1, _, h3⟩ := h
    refine ⟨h1, hhd y h1, ?_⟩
    rw [(fr y (by simp)).1]
    refine DL.congr ?_ h3
    intro a ha
    have hay : a ≠ y := by
      intro e; subst e; exact (List.nodup_cons.1 nd).1 ha
    have := fr a (List.mem_cons_of_mem _ ha)
    exact ⟨this.1, this.2 (by rw [h1]; intro e; cases e; exact hay rfl)⟩

/-- removal of x through its own fields: `pv x`'s `nx` becomes `nx x` (or the head pointer does when
    x is first), `nx x`'s `pv` becomes `pv x` -/
theorem DL.remove {nx pv nx' pv' : α → Option α} {x : α} :
    ∀ {l : List α} {hd p : Option α}, DL nx pv hd p l → l.Nodup → x ∈ l → (∀ q, p = some q → q ∉ l) →
      (∀ a, a ∈ l → a ≠ x → nx' a = if pv x = some a then nx x else nx a) →
      (∀ a, a ∈ l → a ≠ x → pv' a = if nx x = some a then pv x else pv a) →
      DL nx' pv' (if hd = some x then nx x else hd) p (l.erase x) := by
  intro l
  induction l with
  | nil => intro hd p _ _ hx; cases hx
  | cons y ys ih =>
    intro hd p h nd hx hp hnx hpv
    obtain ⟨h1, h2, h3⟩ := h
    have ndc := List.nodup_cons.1 nd
    by_cases hyx : y = x
    · subst hyx
      rw [if_pos h1, List.erase_cons_head]
      cases ys with
      | nil => exact h3
      | cons z zs =>
        obtain ⟨g1, g2, g3⟩ := h3
        have hzy : z ≠ y := by intro e; subst e; exact ndc.1 (by simp)
        have ndz := List.nodup_cons.1 ndc.2
        refine ⟨g1, ?_, ?_⟩
        · rw [hpv z (by simp) hzy, if_pos g1]; exact h2
        · have e1 : nx' z = nx z := by
            rw [hnx z (by simp) hzy, if_neg]
            rw [h2]; intro e; exact hp z e (by simp)
          rw [e1]
          refine DL.congr ?_ g3
          intro a ha
          have hay : a ≠ y := by intro e; subst e; exact ndc.1 (List.mem_cons_of_mem _ ha)
          have haz : a ≠ z := by intro e; subst e; exact ndz.1 ha
          have hal : a ∈ y :: z :: zs := by simp [ha]
          constructor
          · rw [hnx a hal hay, if_neg]
            rw [h2]; intro e; exact hp a e hal
          · rw [hpv a hal hay, if_neg]
            rw [g1]; intro e; cases e; exact haz rfl
    · have hxs : x ∈ ys := by
        rcases List.mem_cons.1 hx with e | e
        · exact absurd e.symm hyx
        · exact e
      have hne : hd ≠ some x := by rw [h1]; intro e; cases e; exact hyx rfl
      rw [if_neg hne, List.erase_cons_tail (by simpa using hyx)]
      refine ⟨h1, ?_, ?_⟩
      · rw [hpv y (by simp) hyx, if_neg]
        · exact h2
        · intro e; exact ndc.1 (h3.nx_in x hxs y e)
      · have key : nx' y = if nx y = some x then nx x else nx y := by
          rw [hnx y (by simp) hyx]
          by_cases hh : nx y = some x
          · rw [if_pos hh, if_pos]
            have := h3.head; rw [hh] at this
            cases ys with
            | nil => cases hxs
            | cons w ws => simp at this; subst this; exact h3.2.1
          · rw [if_neg hh, if_neg]
            intro e
            have hh' : ys.head? ≠ some x := by rw [← h3.head]; exact hh
            obtain ⟨z, hz, hpz⟩ := h3.pv_tail x hxs hh'
            rw [hpz] at e; cases e; exact ndc.1 hz
        rw [key]
        exact ih h3 ndc.2 hxs (by intro q e; cases e; exact ndc.1)
          (fun a ha hax => hnx a (List.mem_cons_of_mem _ ha) hax)
          (fun a ha hax => hpv a (List.mem_cons_of_mem _ ha) hax)

/-- append at the tail (`last.next = x; x.prev = last`) -/
theorem DL.append {nx pv nx' pv' : α → Option α} {x : α} :
    ∀ {l : List α} {hd p : Option α}, DL nx pv hd p l → x ∉ l → l.Nodup →
      nx' x = none → pv' x = (match l.getLast? with | some z => some z | none => p) →
      (∀ z, l.getLast? = some z → nx' z = some x) →
      (∀ a, a ∈ l → pv' a = pv a ∧ (l.getLast? ≠ some a → nx' a = nx a)) →
      DL nx' pv' (if l = [] then some x else hd) p (l ++ [x]) := by
  intro l
  induction l with
  | nil =>
    intro hd p _ _ _ hnx hpv _ _
    exact ⟨rfl, hpv, hnx⟩
  | cons y ys ih =>
    intro hd p h hx nd hnx hpv hlast fr
    obtain ⟨h1, h2, h3⟩ := h
    have ndc := List.nodup_cons.1 nd
    have hxy : x ∉ ys := fun hm => hx (List.mem_cons_of_mem _ hm)
    rw [if_neg (by simp)]
    refine ⟨h1, by rw [(fr y (by simp)).1]; exact h2, ?_⟩
    cases ys with
    | nil =>
      have e : nx' y = some x := hlast y rfl
      rw [e]
      exact ⟨rfl, hpv, hnx⟩
    | cons w ws =>
      have hgl : (y :: w :: ws).getLast? = (w :: ws).getLast? := by simp [List.getLast?_cons_cons]
      have hlm : ∀ z, (w :: ws).getLast? = some z → z ∈ w :: ws := fun z hz => List.mem_of_getLast? hz
      have hny : nx' y = nx y := by
        refine (fr y (by simp)).2 ?_
        rw [hgl]; intro e; exact ndc.1 (hlm y e)
      rw [hny]
      have := ih (hd := nx y) (p := some y) h3 hxy ndc.2 hnx
        (by
          rw [hpv, hgl]
          cases hq : (w :: ws).getLast? with
          | none => simp at hq
          | some z => rfl)
        (fun z hz => hlast z (by rw [hgl]; exact hz))
        (fun a ha => ⟨(fr a (List.mem_cons_of_mem _ ha)).1,
          fun hne => (fr a (List.mem_cons_of_mem _ ha)).2 (by rw [hgl]; exact hne)⟩)
      rw [if_neg (by simp)] at this
      exact this

theorem DL.nx_ne_self {nx pv : α → Option α} :
    ∀ {l : List α} {hd p : Option α}, DL nx pv hd p l → l.Nodup → ∀ x, x ∈ l → nx x ≠ some x := by
  intro l
  induction l with
  | nil => intro hd p _ _ x hx; cases hx
  | cons y ys ih =>
    intro hd p h nd x hx hn
    obtain ⟨_, _, h3⟩ := h
    have ndc := List.nodup_cons.1 nd
    rcases List.mem_cons.1 hx with e | e
    · subst e
      have := h3.head; rw [hn] at this
      exact ndc.1 (List.mem_of_mem_head? this.symm)
    · exact ih h3 ndc.2 x e hn

/-- a node is the last one iff its `nx` is nil -/
theorem DL.nx_none_iff {nx pv : α → Option α} :
    ∀ {l : List α} {hd p : Option α}, DL nx pv hd p l → l.Nodup → ∀ x, x ∈ l →
      (nx x = none ↔ l.getLast? = some x) := by
  intro l
  induction l with
  | nil => intro hd p _ _ x hx; cases hx
  | cons y ys ih =>
    intro hd p h nd x hx
    obtain ⟨_, _, h3⟩ := h
    have ndc := List.nodup_cons.1 nd
    cases ys with
    | nil =>
      have : x = y := by simpa using hx
      subst this
      have : nx x = none := h3
      simp [this]
    | cons w ws =>
      have hgl : (y :: w :: ws).getLast? = (w :: ws).getLast? := by simp [List.getLast?_cons_cons]
      rw [hgl]
      rcases List.mem_cons.1 hx with e | e
      · subst e
        have h31 : nx x = some w := h3.1
        constructor
        · intro hn; rw [h31] at hn; cases hn
        · intro hl; exact absurd (List.mem_of_getLast? hl) ndc.1
      · exact ih h3 ndc.2 x e

/-- the last element after removing x: x's predecessor if x was last, else unchanged -/
theorem DL.getLast_erase {nx pv : α → Option α} {l : List α} {hd : Option α}
    (h : DL nx pv hd none l) (nd : l.Nodup) (x : α) (hx : x ∈ l) :
    (l.erase x).getLast? = if nx x = none then pv x else l.getLast? := by
  suffices H : ∀ (l : List α) (hd p : Option α), DL nx pv hd p l → l.Nodup → x ∈ l →
      (l.erase x).getLast? = if nx x = none then (if hd = some x then none else pv x) else l.getLast? by
    rw [H l hd none h nd hx]
    split
    · split
      · next e => exact ((h.pv_none_iff x hx).2 e).symm
      · rfl
    · rfl
  intro l
  induction l with
  | nil => intro hd p _ _ hx; cases hx
  | cons y ys ih =>
    intro hd p h nd hx
    obtain ⟨h1, h2, h3⟩ := h
    have ndc := List.nodup_cons.1 nd
    by_cases hyx : y = x
    · subst hyx
      rw [List.erase_cons_head, if_pos h1]
      cases ys with
      | nil => have : nx y = none := h3; simp [this]
      | cons w ws =>
        have : nx y = some w := h3.1
        rw [this]; simp [List.getLast?_cons_cons]
    · have hxs : x ∈ ys := by
        rcases List.mem_cons.1 hx with e | e
        · exact absurd e.symm hyx
        · exact e
      have hne : hd ≠ some x := by rw [h1]; intro e; cases e; exact hyx rfl
      rw [List.erase_cons_tail (by simpa using hyx), if_neg hne]
      have IH := ih (nx y) (some y) h3 ndc.2 hxs
      have hys : ys ≠ [] := List.ne_nil_of_mem hxs
      have hgl : (y :: ys).getLast? = ys.getLast? := by
        cases ys with
        | nil => exact absurd rfl hys
        | cons w ws => simp [List.getLast?_cons_cons]
      by_cases hn : nx x = none
      · rw [if_pos hn] at IH ⊢
        by_cases hh : nx y = some x
        · rw [if_pos hh] at IH
          -- x is the head of ys and the last: ys = [x]
          have hpx : pv x = some y := by
            have := h3.head; rw [hh] at this
            cases ys with
            | nil => cases hxs
            | cons w ws => simp at this; subst this; exact h3.2.1
          have : ys.erase x = [] := by
            cases hq : ys.erase x with
            | nil => rfl
            | cons a as => rw [hq] at IH; simp [List.getLast?_cons] at IH
          rw [this, hpx]; rfl
        · rw [if_neg hh] at IH
          have hh' : ys.head? ≠ some x := by rw [← h3.head]; exact hh
          obtain ⟨z, _, hpz⟩ := h3.pv_tail x hxs hh'
          have hne' : ys.erase x ≠ [] := by
            intro e; rw [e, hpz] at IH; cases IH
          cases hq : ys.erase x with
          | nil => exact absurd hq hne'
          | cons a as => rw [hq] at IH; simp only [List.getLast?_cons_cons]; exact IH
      · rw [if_neg hn] at IH ⊢
        rw [hgl]
        have hne' : ys.erase x ≠ [] := by
          intro e
          cases hz : nx x with
          | none => exact hn hz
          | some z =>
            have hzm := h3.nx_in x hxs z hz
            have hzx : z ≠ x := by
              intro e2; subst e2; exact h3.nx_ne_self ndc.2 z hxs hz
            have : z ∈ ys.erase x := (List.mem_erase_of_ne hzx).2 hzm
            rw [e] at this; cases this
        cases hq : ys.erase x with
        | nil => exact absurd hq hne'
        | cons a as => rw [hq] at IH; simp only [List.getLast?_cons_cons]; exact IH

end DL
end GocoinV.Alloc
