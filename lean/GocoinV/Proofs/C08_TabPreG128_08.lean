/- C08 table proof chunk (written once by Proofs/mk_c08_tab.py; static). -/
import GocoinV.Proofs.C08_TabDefs
import GocoinV.Gen.TablesPreG12808
import GocoinV.Gen.TablesPreG12807
namespace GocoinV.C08
open GocoinV.Gen

theorem preG128_08 : chainOK (Secp.dbl g128) ((pts Tables.preG12807).getLastD none :: pts Tables.preG12808) = true := by
  decide +kernel
theorem preG128_08_ne : pts Tables.preG12808 ≠ [] := by decide +kernel

end GocoinV.C08
