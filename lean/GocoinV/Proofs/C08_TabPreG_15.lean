/- C08 table proof chunk (written once by Proofs/mk_c08_tab.py; static). -/
import GocoinV.Proofs.C08_TabDefs
import GocoinV.Gen.TablesPreG15
import GocoinV.Gen.TablesPreG14
namespace GocoinV.C08
open GocoinV.Gen

theorem preG_15 : chainOK (Secp.dbl Secp.G) ((pts Tables.preG14).getLastD none :: pts Tables.preG15) = true := by
  decide +kernel
theorem preG_15_ne : pts Tables.preG15 ≠ [] := by decide +kernel

end GocoinV.C08
