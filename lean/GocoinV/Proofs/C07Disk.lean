/-
  Proofs.C07Disk — the ON-DISK invariant of the persistence model and its preservation by single effects.

  `DiskInv P d` says about a directory `d` (at ANY instant, in particular at every crash point):
    * every index record has its block in the data file (`datCovers`), no record is flagged invalid,
      every record's parent is 0 (genesis) or has a record itself (`idxClosed`: whole ancestry indexed),
      every data block's parent is indexed (`datParent`);
    * UTXO.db, UTXO.old and EVERY <hash>.db.tmp hold (the content of) a snapshot that is good:
      its (tip, coins) pair satisfies `P` and its tip is 0 or has an index record.
  `P` is a parameter: the top-level theorems instantiate it with "a (tip, unspent set) pair the running
  node held at an operation boundary".
  Core Lean only.
-/
import GocoinV.Proofs.C07
namespace GocoinV.Proofs.C07
open GocoinV.Persist

def ids (d : Disk) : List BlockId := d.idx.map (·.id)

def GoodSnap (P : Snap → Prop) (d : Disk) (sn : Snap) : Prop :=
  P sn ∧ (sn.tip = 0 ∨ sn.tip ∈ ids d)

structure DiskInv (P : Snap → Prop) (d : Disk) : Prop where
  datCovers : ∀ id ∈ ids d, ∃ b ∈ d.dat, b.id = id
  datParent : ∀ b ∈ d.dat, b.parent = 0 ∨ b.parent ∈ ids d
  idxValid : ∀ r ∈ d.idx, r.invalid = false
  idxClosed : ∀ r ∈ d.idx, r.parent = 0 ∨ r.parent ∈ ids d
  dbGood : ∀ sn, d.db = some sn → GoodSnap P d sn
  oldGood : ∀ sn, d.old = some sn → GoodSnap P d sn
  tmpGood : ∀ t ∈ d.tmps, GoodSnap P d t.snap

theorem DiskInv.empty (P : Snap → Prop) : DiskInv P {} := by
  constructor <;> simp [ids]

/-- what an effect must satisfy to keep the invariant: only three effects have a side condition -/
def EffOK (P : Snap → Prop) (d : Disk) : Effect → Prop
  | .createTmp sn => GoodSnap P d sn
  | .appendDat b => b.parent = 0 ∨ b.parent ∈ ids d
  | .appendIdx r => r.invalid = false ∧ (r.parent = 0 ∨ r.parent ∈ ids d) ∧ ∃ b ∈ d.dat, b.id = r.id
  | _ => True

theorem ids_setTrusted (d : Disk) (id : BlockId) : ids (apply d (.setTrusted id)) = ids d := by
  simp only [ids, apply, List.map_map]
  apply List.map_congr_left
  intro r _
  simp only [Function.comp]
  split <;> rfl

/-- every effect except `appendIdx` leaves the set of indexed ids alone -/
theorem ids_apply (d : Disk) (e : Effect) (h : ∀ r, e ≠ .appendIdx r) : ids (apply d e) = ids d := by
  cases e with
  | appendIdx r => exact absurd rfl (h r)
  | setTrusted id => exact ids_setTrusted d id
  | renameDbOld => simp only [apply]; split <;> rfl
  | renameTmpDb t => simp only [apply]; split <;> rfl
  | renameUndoTmp h => simp only [apply]; split <;> rfl
  | _ => rfl

theorem ids_appendIdx (d : Disk) (r : IdxRec) : ids (apply d (.appendIdx r)) = ids d ++ [r.id] := by
  simp [ids, apply]

theorem GoodSnap.mono {P : Snap → Prop} {d d' : Disk} {sn : Snap}
    (h : GoodSnap P d sn) (hi : ∀ x ∈ ids d, x ∈ ids d') : GoodSnap P d' sn :=
  ⟨h.1, h.2.imp id (hi _)⟩

theorem apply_inv {P : Snap → Prop} {d : Disk} (h : DiskInv P d) (e : Effect) (ok : EffOK P d e) :
    DiskInv P (apply d e) := by
  cases e with
  | nop => exact h
  | renameDbOld =>
    simp only [apply]
    split
    · exact h
    · rename_i s hs
      exact { h with dbGood := by intro sn hsn; simp at hsn, oldGood := by intro sn hsn; simp at hsn; subst hsn; exact h.dbGood _ hs }
  | createTmp s =>
    refine { h with tmpGood := ?_ }
    intro t ht
    simp only [apply, List.mem_cons, List.mem_filter] at ht
    rcases ht with ht | ht
    · subst ht; exact ok
    · exact h.tmpGood t ht.1
  | chunkTmp t =>
    refine { h with tmpGood := ?_ }
    intro x hx
    simp only [apply, List.mem_map] at hx
    obtain ⟨y, hy, rfl⟩ := hx
    have := h.tmpGood y hy
    split <;> exact this
  | flushTmp t =>
    refine { h with tmpGood := ?_ }
    intro x hx
    simp only [apply, List.mem_map] at hx
    obtain ⟨y, hy, rfl⟩ := hx
    have := h.tmpGood y hy
    split <;> exact this
  | removeTmp t =>
    refine { h with tmpGood := ?_ }
    intro x hx
    simp only [apply, List.mem_filter] at hx
    exact h.tmpGood x hx.1
  | renameTmpDb t =>
    simp only [apply]
    split
    · exact h
    · rename_i x hx
      have hm := List.mem_of_find?_eq_some hx
      refine { h with dbGood := ?_, tmpGood := ?_ }
      · intro sn hsn; simp at hsn; subst hsn; exact h.tmpGood x hm
      · intro y hy
        simp only [List.mem_filter] at hy
        exact h.tmpGood y hy.1
  | writeUndoTmp u => exact { h with }
  | renameUndoTmp hh =>
    simp only [apply]
    split
    · exact h
    · exact { h with }
  | removeUndoTmp => exact { h with }
  | appendDat b =>
    refine { h with datCovers := ?_, datParent := ?_ }
    · intro id hid
      obtain ⟨y, hy, e⟩ := h.datCovers id hid
      exact ⟨y, by simp [apply, hy], e⟩
    · intro y hy
      simp only [apply, List.mem_append, List.mem_singleton] at hy
      rcases hy with hy | hy
      · exact h.datParent y hy
      · subst hy; exact ok
  | appendIdx r =>
    obtain ⟨ok1, ok2, ok3⟩ := ok
    have hi : ∀ x ∈ ids d, x ∈ ids (apply d (.appendIdx r)) := by
      intro x hx; rw [ids_appendIdx]; exact List.mem_append_left _ hx
    constructor
    · intro id hid
      rw [ids_appendIdx] at hid
      simp only [List.mem_append, List.mem_singleton] at hid
      rcases hid with hid | hid
      · exact h.datCovers id hid
      · subst hid; exact ok3
    · intro b hb
      exact (h.datParent b hb).imp id (hi _)
    · intro x hx
      simp only [apply, List.mem_append, List.mem_singleton] at hx
      rcases hx with hx | hx
      · exact h.idxValid x hx
      · subst hx; exact ok1
    · intro x hx
      simp only [apply, List.mem_append, List.mem_singleton] at hx
      rcases hx with hx | hx
      · exact (h.idxClosed x hx).imp id (hi _)
      · subst hx; exact ok2.imp id (hi _)
    · intro sn hsn; exact (h.dbGood sn hsn).mono hi
    · intro sn hsn; exact (h.oldGood sn hsn).mono hi
    · intro t ht; exact (h.tmpGood t ht).mono hi
  | setTrusted id =>
    have hi : ids (apply d (.setTrusted id)) = ids d := ids_setTrusted d id
    constructor
    · intro x hx; rw [hi] at hx; exact h.datCovers x hx
    · intro b hb; rw [hi]; exact h.datParent b hb
    · intro x hx
      simp only [apply, List.mem_map] at hx
      obtain ⟨y, hy, rfl⟩ := hx
      have := h.idxValid y hy
      split <;> exact this
    · intro x hx
      rw [hi]
      simp only [apply, List.mem_map] at hx
      obtain ⟨y, hy, rfl⟩ := hx
      have := h.idxClosed y hy
      split <;> exact this
    · intro sn hsn; exact (h.dbGood sn hsn).mono (by rw [hi]; exact fun _ h => h)
    · intro sn hsn; exact (h.oldGood sn hsn).mono (by rw [hi]; exact fun _ h => h)
    · intro t ht; exact (h.tmpGood t ht).mono (by rw [hi]; exact fun _ h => h)

/-! ### what NewChainExt makes of a directory that satisfies the invariant -/

theorem loadTree_all {P : Snap → Prop} {d : Disk} (h : DiskInv P d) :
    loadTree d = d.idx.map (fun r => { id := r.id, parent := r.parent, height := r.height }) := by
  unfold loadTree
  have h1 : d.idx.filter (fun r => !r.invalid) = d.idx := by
    rw [List.filter_eq_self]; intro r hr; simp [h.idxValid r hr]
  simp only [h1]
  congr 1
  rw [List.filter_eq_self]
  intro r hr
  rcases h.idxClosed r hr with h0 | h0
  · simp [h0]
  · simp only [ids, List.mem_map] at h0
    obtain ⟨x, hx, e⟩ := h0
    simp only [Bool.or_eq_true, beq_iff_eq, List.any_eq_true]
    exact Or.inr ⟨x, hx, e⟩

theorem recover_inv {P : Snap → Prop} {d : Disk} (h : DiskInv P d) :
    DiskInv P (recoverUnspent d).1 := by
  have hf := recover_fields d
  have hi : ids (recoverUnspent d).1 = ids d := by simp [ids, hf.2.2.2.2.1]
  have mono : ∀ sn, GoodSnap P d sn → GoodSnap P (recoverUnspent d).1 sn :=
    fun sn g => g.mono (by rw [hi]; exact fun _ h => h)
  constructor
  · intro x hx; rw [hi] at hx; rw [hf.2.2.2.2.2]; exact h.datCovers x hx
  · intro b hb; rw [hf.2.2.2.2.2] at hb; rw [hi]; exact h.datParent b hb
  · intro r hr; rw [hf.2.2.2.2.1] at hr; exact h.idxValid r hr
  · intro r hr; rw [hf.2.2.2.2.1] at hr; rw [hi]; exact h.idxClosed r hr
  · intro sn hsn; rw [hf.1] at hsn; exact mono sn (h.dbGood sn hsn)
  · intro sn hsn; rw [hf.2.1] at hsn; exact mono sn (h.oldGood sn hsn)
  · -- every tmp file is removed by the restart; prove it from the effect list itself
    intro t ht
    have key : ∀ (ts : List Tmp) (d0 : Disk), (∀ x ∈ d0.tmps, GoodSnap P d x.snap) →
        ∀ x ∈ (applyAll d0 (ts.map (fun t => (Effect.removeTmp t.tip, Pt.recovery)))).tmps, GoodSnap P d x.snap := by
      intro ts
      induction ts with
      | nil => intro d0 h0; exact h0
      | cons a ts ih =>
        intro d0 h0
        simp only [List.map_cons, applyAll_cons]
        apply ih
        intro x hx
        simp only [apply, List.mem_filter] at hx
        exact h0 x hx.1
    rw [recoverUnspent_fst] at ht
    exact mono _ (key d.tmps (apply d .removeUndoTmp) (by simpa [apply] using h.tmpGood) t ht)

end GocoinV.Proofs.C07
