/-
  Proofs.C12Real — the hypotheses `Univ` / `Univ2` of the all-histories theorems of Props/C12 are satisfiable for the
  keys the oracle executes (`realKeys`: BIDX = bytes 0..7 of the txid, UIdx = bytes 24..31 xor the low 32 bits of the
  output index): sufficient conditions on a universe `W` stated on the txids (`realKeys_univ2`), used by the
  non-vacuity instances over 256-bit txids in Proofs/C12Example2.lean.  Core Lean only.

  Second audit: before it, `Univ2.uidx_play` quantified over ALL output indexes, which `realKeys` cannot satisfy
  (`uidx a 0 = uidx a 2^32`), so the central theorems were vacuous for the executed instance. The field now ranges over
  the indexes in play (`VPlay`), and `realKeys_not_injective_on_all_indexes` below records why the old form was wrong.
-/
import GocoinV.Proofs.C12Good
namespace GocoinV.Mempool

/-- bytes 28..31 of a txid: the half of the UIdx word that the output index cannot reach -/
def hi32 (a : TxId) : Nat := (a / 2 ^ 224) % 2 ^ 32

theorem xor_cancel_left (x v w : Nat) (h : x ^^^ v = x ^^^ w) : v = w := by
  have : x ^^^ (x ^^^ v) = x ^^^ (x ^^^ w) := by rw [h]
  rwa [← Nat.xor_assoc, ← Nat.xor_assoc, Nat.xor_self, Nat.zero_xor, Nat.zero_xor] at this

theorem xor_low_div (x v : Nat) (hv : v < 2 ^ 32) : (x ^^^ v) / 2 ^ 32 = x / 2 ^ 32 := by
  rw [Nat.xor_div_two_pow, Nat.div_eq_of_lt hv, Nat.xor_zero]

theorem word_hi (a : TxId) : ((a / 2 ^ 192) % 2 ^ 64) / 2 ^ 32 = hi32 a := by
  unfold hi32
  have e1 : (2 : Nat) ^ 64 = 2 ^ 32 * 2 ^ 32 := by rw [← Nat.pow_add]
  have e2 : (2 : Nat) ^ 224 = 2 ^ 192 * 2 ^ 32 := by rw [← Nat.pow_add]
  rw [e1, Nat.mod_mul_right_div_self, e2, Nat.div_div_eq_div_mul]

/-- equal UIdx of two (txid, index) pairs whatever the indexes are: bytes 28..31 of the txids agree -/
theorem realKeys_uidx_hi (a b : TxId) (v w : Nat) (h : realKeys.uidx a v = realKeys.uidx b w) : hi32 a = hi32 b := by
  have h' : ((a / 2 ^ 192) % 2 ^ 64) ^^^ (v % 2 ^ 32) = ((b / 2 ^ 192) % 2 ^ 64) ^^^ (w % 2 ^ 32) := h
  have : (((a / 2 ^ 192) % 2 ^ 64) ^^^ (v % 2 ^ 32)) / 2 ^ 32 = (((b / 2 ^ 192) % 2 ^ 64) ^^^ (w % 2 ^ 32)) / 2 ^ 32 := by
    rw [h']
  rw [xor_low_div _ _ (Nat.mod_lt _ (Nat.two_pow_pos 32)), xor_low_div _ _ (Nat.mod_lt _ (Nat.two_pow_pos 32)),
    word_hi, word_hi] at this
  exact this

/-- … and for the same txid the low 32 bits of the indexes agree -/
theorem realKeys_uidx_same (a : TxId) (v w : Nat) (h : realKeys.uidx a v = realKeys.uidx a w) :
    v % 2 ^ 32 = w % 2 ^ 32 :=
  xor_cancel_left _ _ _ h

/-- why `Univ2.uidx_play` must not range over all naturals: the code's UIdx ignores everything above bit 31 of the
    output index -/
theorem realKeys_not_injective_on_all_indexes (a : TxId) : realKeys.uidx a 0 = realKeys.uidx a (2 ^ 32) := by
  show ((a / 2 ^ 192) % 2 ^ 64) ^^^ (0 % 2 ^ 32) = ((a / 2 ^ 192) % 2 ^ 64) ^^^ (2 ^ 32 % 2 ^ 32)
  rw [Nat.mod_self, Nat.zero_mod]

/-- SATISFIABILITY OF THE KEY HYPOTHESES FOR THE CODE'S OWN KEYS. For a universe `W` in which
    (1) the txids in play differ pairwise in bytes 0..7 (`hlo`: BIDX) and in bytes 28..31 (`hhi`),
    (2) every output index in play is below 2^32 (`hv`: the wire format has no other),
    `realKeys` satisfies the three collision hypotheses of `Univ` / `Univ2` (`bidx_inj`, `uidx_inj` — that one for ALL
    output indexes `v` —, `bidx_play`, `uidx_play`). The remaining fields of `Univ` / `Univ2` do not mention the keys. -/
theorem realKeys_collision_free (W : Tx → Prop)
    (hlo : ∀ a b, Play W a → Play W b → a % 2 ^ 64 = b % 2 ^ 64 → a = b)
    (hhi : ∀ a b, Play W a → Play W b → hi32 a = hi32 b → a = b)
    (hv : ∀ v, VPlay W v → v < 2 ^ 32) :
    (∀ a b, W a → W b → realKeys.bidx a.id = realKeys.bidx b.id → a.id = b.id) ∧
    (∀ c t, W c → W t → ∀ i ∈ c.ins, ∀ v, realKeys.uidx i.prev i.vout = realKeys.uidx t.id v → i.prev = t.id) ∧
    (∀ a b, Play W a → Play W b → realKeys.bidx a = realKeys.bidx b → a = b) ∧
    (∀ a b v w, Play W a → Play W b → VPlay W v → VPlay W w → realKeys.uidx a v = realKeys.uidx b w →
      a = b ∧ v = w) := by
  refine ⟨?_, ?_, ?_, ?_⟩
  · intro a b ha hb h
    exact hlo _ _ (Play.self ha) (Play.self hb) h
  · intro c t hc ht i hi v h
    exact hhi _ _ (Play.prev hc hi) (Play.self ht) (realKeys_uidx_hi _ _ _ _ h)
  · intro a b ha hb h
    exact hlo a b ha hb h
  · intro a b v w ha hb pv pw h
    have e : a = b := hhi a b ha hb (realKeys_uidx_hi _ _ _ _ h)
    subst e
    have := realKeys_uidx_same a v w h
    rw [Nat.mod_eq_of_lt (hv v pv), Nat.mod_eq_of_lt (hv w pw)] at this
    exact ⟨rfl, this⟩

end GocoinV.Mempool
