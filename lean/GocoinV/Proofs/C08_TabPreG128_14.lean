/- C08 table proof chunk (written once by Proofs/mk_c08_tab.py; static). -/
import GocoinV.Proofs.C08_TabDefs
import GocoinV.Gen.TablesPreG12814
import GocoinV.Gen.TablesPreG12813
namespace GocoinV.C08
open GocoinV.Gen

theorem preG128_14 : chainOK (Secp.dbl g128) ((pts Tables.preG12813).getLastD none :: pts Tables.preG12814) = true := by
  decide +kernel
theorem preG128_14_ne : pts Tables.preG12814 ≠ [] := by decide +kernel

end GocoinV.C08
