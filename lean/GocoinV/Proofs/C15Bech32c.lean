/-
  Proofs.C15Bech32c — the decoder's loops replayed on an encoder output (helper lemmas for
  Props/C15.bech32_decode_encode).
-/
import GocoinV.Proofs.C15Bech32b
namespace GocoinV.Bech32
open Gen.Bech32Consts

theorem encode_some {hrp data s : Bytes} {m : Bool} (h : encode hrp data m = some s) :
    ∃ h1 c0, hrpHigh? hrp 1 = some h1 ∧ hrp.length + 7 + data.length ≤ 90 ∧
      dataFold? data (hrpLow hrp (polymodStep h1)) = some c0 ∧
      s = hrp ++ [49] ++ data.map charsetAt ++ (checksumSyms (six c0 ^^^ finalConstant m)).map charsetAt := by
  unfold encode at h
  by_cases he : hrp.length < 1
  · simp [he] at h
  simp only [he, ↓reduceIte] at h
  cases h1 : hrpHigh? hrp 1 with
  | none => simp [h1] at h
  | some c1 =>
    simp only [h1, Option.bind_eq_bind, Option.bind_some] at h
    by_cases hl : hrp.length + 7 + data.length > 90
    · simp [hl] at h
    · simp only [hl, ↓reduceIte] at h
      cases h2 : dataFold? data (hrpLow hrp (polymodStep c1)) with
      | none => simp [h2] at h
      | some c0 =>
        simp only [h2, Option.bind_some, Option.pure_def, Option.some.injEq] at h
        exact ⟨c1, c0, rfl, by omega, h2, h.symm⟩

/-- `Encode` refuses the empty human-readable part (the guard of /repo's fix aaaa0fae) -/
theorem encode_nil (data : Bytes) (m : Bool) : encode [] data m = none := by
  unfold encode; simp

theorem encode_some_ne {hrp data s : Bytes} {m : Bool} (h : encode hrp data m = some s) : hrp ≠ [] := by
  intro e; subst e; rw [encode_nil] at h; cases h

theorem decHrp_of_high (hrp : Bytes) : ∀ (c c' : UInt32) (acc : Bytes) (lo : Bool),
    hrpHigh? hrp c = some c' →
    decHrp? hrp ⟨c, acc, lo, false⟩ = some ⟨c', acc ++ hrp, lo || hrp.any isLower, false⟩ := by
  induction hrp with
  | nil => intro c c' acc lo h; simp [hrpHigh?] at h; simp [decHrp?, h]
  | cons ch t ih =>
    intro c c' acc lo h
    unfold hrpHigh? at h
    by_cases hr : ch.toNat < 33 ∨ ch.toNat > 126
    · simp [hr] at h
    · simp only [hr, ↓reduceIte] at h
      by_cases hu : isUpper ch = true
      · simp [hu] at h
      · simp only [hu] at h
        have hu' : isUpper ch = false := by simpa using hu
        unfold decHrp?
        simp only [hr, ↓reduceIte, hu', Bool.and_false, Bool.false_eq_true, Bool.or_false]
        rw [shr5_toUInt32]
        have := ih _ c' (acc ++ [ch]) (lo || isLower ch) (by simpa using h)
        rw [this]
        simp [Bool.or_assoc]

theorem decData_step (v : UInt8) (hv : v >>> 5 = 0) (rest : Bytes) (st : DataScan) (hup : st.upper = false) :
    decData? (charsetAt v :: rest) st =
      decData? rest ⟨polymodStep st.chk ^^^ v.toUInt32, st.vals ++ [v], st.lower || isLower (charsetAt v), false⟩ := by
  rw [decData?]
  have h1 := charsetAt_lo7 v
  have h2 := charsetRev_charsetAt v hv
  have h3 := lt32_of_shr5 v hv
  simp only [h1, ne_eq, not_true_eq_false, ↓reduceIte, h2]
  have : ¬ v.toNat > 31 := by omega
  simp only [this, ↓reduceIte, charsetAt_not_upper, hup, Bool.or_false]

theorem decData_data (data : Bytes) : ∀ (c c0 : UInt32) (acc : Bytes) (lo : Bool) (rest : Bytes),
    dataFold? data c = some c0 →
    ∃ lo', decData? (data.map charsetAt ++ rest) ⟨c, acc, lo, false⟩ = decData? rest ⟨c0, acc ++ data, lo', false⟩ := by
  induction data with
  | nil => intro c c0 acc lo rest h; simp [dataFold?] at h; exact ⟨lo, by simp [h]⟩
  | cons d t ih =>
    intro c c0 acc lo rest h
    unfold dataFold? at h
    by_cases hd : d >>> 5 ≠ 0
    · simp [hd] at h
    · have hd0 : d >>> 5 = 0 := by simpa using hd
      simp only [hd, ↓reduceIte] at h
      obtain ⟨lo', ih'⟩ := ih _ c0 (acc ++ [d]) (lo || isLower (charsetAt d)) rest h
      refine ⟨lo', ?_⟩
      simp only [List.map_cons, List.cons_append]
      rw [decData_step d hd0 _ _ rfl]
      simpa using ih'

theorem sym_props (x : UInt32) : (x &&& 31).toUInt8 >>> 5 = 0 ∧ ((x &&& 31).toUInt8).toUInt32 = x &&& 31 := by
  have hlt' : x.toNat &&& 31 < 32 := Nat.and_lt_two_pow _ (by decide : 31 < 2 ^ 5)
  have hlt : (x &&& 31).toNat < 32 := by
    rw [UInt32.toNat_and]; exact hlt'
  constructor
  · apply UInt8.toNat_inj.1
    simp only [UInt8.toNat_shiftRight, UInt32.toNat_toUInt8]
    have : (5 : UInt8).toNat % 8 = 5 := by decide
    rw [this, Nat.shiftRight_eq_div_pow]
    simp; omega
  · apply UInt32.toNat_inj.1
    simp only [UInt8.toNat_toUInt32, UInt32.toNat_toUInt8]
    omega

theorem checksumSyms_eq (P : UInt32) : checksumSyms P =
    [((P >>> UInt32.ofNat (5 * 5)) &&& 31).toUInt8, ((P >>> UInt32.ofNat (5 * 4)) &&& 31).toUInt8,
     ((P >>> UInt32.ofNat (5 * 3)) &&& 31).toUInt8, ((P >>> UInt32.ofNat (5 * 2)) &&& 31).toUInt8,
     ((P >>> UInt32.ofNat (5 * 1)) &&& 31).toUInt8, ((P >>> UInt32.ofNat (5 * 0)) &&& 31).toUInt8] := by
  simp [checksumSyms, List.range, List.range.loop]

theorem decData_syms (P c : UInt32) (acc : Bytes) (lo : Bool) :
    ∃ lo', decData? ((checksumSyms P).map charsetAt) ⟨c, acc, lo, false⟩ =
      some ⟨feed6 c P, acc ++ checksumSyms P, lo', false⟩ := by
  rw [checksumSyms_eq]
  simp only [List.map_cons, List.map_nil]
  rw [decData_step _ (sym_props _).1 _ _ rfl, decData_step _ (sym_props _).1 _ _ rfl,
      decData_step _ (sym_props _).1 _ _ rfl, decData_step _ (sym_props _).1 _ _ rfl,
      decData_step _ (sym_props _).1 _ _ rfl, decData_step _ (sym_props _).1 _ _ rfl]
  simp only [(sym_props _).2, decData?, feed6, List.append_assoc, List.cons_append, List.nil_append]
  exact ⟨_, rfl⟩

theorem hrpLow_hi (hrp : Bytes) : ∀ c, hi30 c → hi30 (hrpLow hrp c) := by
  induction hrp with
  | nil => intro c h; exact h
  | cons ch t ih =>
    intro c _
    apply ih
    refine xor_hi (ps_hi _) ?_
    unfold hi30
    have : (ch &&& 0x1f).toNat < 32 := by
      rw [UInt8.toNat_and]; exact Nat.and_lt_two_pow _ (by decide : (0x1f : UInt8).toNat < 2 ^ 5)
    simp only [UInt8.toNat_toUInt32]; omega

theorem dataFold_hi (data : Bytes) : ∀ c c0, hi30 c → dataFold? data c = some c0 → hi30 c0 := by
  induction data with
  | nil => intro c c0 h hf; simp [dataFold?] at hf; exact hf ▸ h
  | cons d t ih =>
    intro c c0 _ hf
    unfold dataFold? at hf
    by_cases hd : d >>> 5 ≠ 0
    · simp [hd] at hf
    · simp only [hd, ↓reduceIte] at hf
      refine ih _ c0 (xor_hi (ps_hi _) ?_) hf
      have := lt32_of_shr5 d (by simpa using hd)
      unfold hi30; simp only [UInt8.toNat_toUInt32]; omega

end GocoinV.Bech32
