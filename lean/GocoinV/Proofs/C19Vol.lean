/-
  Proofs.C19Vol — volatile stores across reopen. A volatile store performs no file operation between NewDBExt and
  Close; it is shadowed by the non-volatile store with the same fields in which every changed key is pending and
  never synced (`ghost`), so that the disk invariants of the non-volatile analysis carry over. Close of a changed
  volatile store is a defrag.
-/
import GocoinV.Proofs.C19Hist
namespace GocoinV.Proofs.C19
open GocoinV GocoinV.Qdb GocoinV.QdbSpec

variable {eg : Bool}

/-- the non-volatile store that shadows a volatile one: same fields, the changed keys `P` pending -/
def ghost (db : DB) (P : List Key) : DB := { db with volatile := false, pending := P }

/-- invariant of an open volatile store -/
structure VInv (db : DB) : Prop where
  vol : db.volatile = true
  gh : ∃ P, Inv3 (ghost db P) ∧ (db.noSync = false → P = [])

theorem VInv.cached {db : DB} (h : VInv db) : Cached db := by
  obtain ⟨P, h3, _⟩ := h.gh
  exact h3.inv.cached

theorem vinv_effs {db : DB} (h : VInv db) (e : List (String × Effect)) : VInv { db with effs := e } := by
  obtain ⟨P, h3, hp⟩ := h.gh
  exact ⟨h.vol, P, inv3_effs _ h3 e, hp⟩

/-! ### NewDBExt(volatile) -/

theorem fail_noSync (db : DB) (w : String) : (fail db w).noSync = db.noSync := by
  unfold fail; split <;> rfl

theorem loadOne_noSync (st : DB × List (Key × Rec)) (kr : Key × Rec) : (loadOne st kr).1.noSync = st.1.noSync := by
  unfold loadOne
  repeat' split
  all_goals first | rfl | exact fail_noSync _ _

theorem loadAll_noSync (db : DB) : (loadAll db).noSync = db.noSync := by
  unfold loadAll
  have : ∀ (l : List (Key × Rec)) (st : DB × List (Key × Rec)), (l.foldl loadOne st).1.noSync = st.1.noSync := by
    intro l
    induction l with
    | nil => intro st; rfl
    | cons x t ih => intro st; simp only [List.foldl_cons]; exact (ih _).trans (loadOne_noSync st x)
  have h := this db.index (db, [])
  dsimp only
  split <;> exact h

theorem other_noSync {a b : DB} (h : other a = other b) : a.noSync = b.noSync := by
  unfold other at h
  simp only [Prod.mk.injEq] at h
  exact h.2.2.2.2.2.2.2.2.2.2

theorem openDB_noSync (F : FS) (vol load : Bool) (opts : Opts) : (openDB F vol load opts eg).noSync = false := by
  have h1 : (loaddat { fs := F, volatile := vol, opts := opts, eager := eg }).1.noSync = false := by
    unfold loaddat
    cases hp : pickIdx F with
    | none => simp only [show ({ fs := F, volatile := vol, opts := opts, eager := eg } : DB).fs = F from rfl, hp]
    | some t =>
      obtain ⟨i, sv, d⟩ := t
      simp only [show ({ fs := F, volatile := vol, opts := opts, eager := eg } : DB).fs = F from rfl, hp]
      rw [other_noSync (memputAll_other _ _).1]
      rfl
  generalize (loaddat { fs := F, volatile := vol, opts := opts, eager := eg }).1 = a at h1
  have hopen : (openDB F vol load opts eg).noSync =
      (loadlog (loaddat { fs := F, volatile := vol, opts := opts, eager := eg }).1
        (loaddat { fs := F, volatile := vol, opts := opts, eager := eg }).2).1.noSync := by
    unfold openDB openIndex
    have hc : ∀ (b : DB) (u : List Nat), (cleanupold b u).noSync = b.noSync := by
      intro b u
      have := book_cleanupold b u
      unfold book at this
      simp only [Prod.mk.injEq] at this
      exact this.2.2.2.2
    cases load
    · exact hc _ _
    · simp only [↓reduceIte]
      exact (loadAll_noSync _).trans (hc _ _)
  rw [hopen]
  have : ∀ (a : DB) (u : List Nat), a.noSync = false → (loadlog a u).1.noSync = false := by
    intro a u ha
    unfold loadlog
    cases a.fs.log with
    | none => exact ha
    | some f =>
      simp only []
      cases logBody f a.verSeq with
      | none => exact ha
      | some body =>
        show (applyLog a _).noSync = false
        rw [other_noSync (applyLog_other _ _).1]
        exact ha
  apply this
  unfold loaddat
  cases hp : pickIdx F with
  | none => simp only [show ({ fs := F, volatile := vol, opts := opts, eager := eg } : DB).fs = F from rfl, hp]
  | some t =>
    obtain ⟨i, sv, d⟩ := t
    simp only [show ({ fs := F, volatile := vol, opts := opts, eager := eg } : DB).fs = F from rfl, hp]
    rw [other_noSync (memputAll_other _ _).1]
    rfl

/-- NewDBExt(volatile, LoadData) on an openable directory: the volatile invariant, nothing changed yet, every key
    has its disk value -/
theorem open_vinv (F : FS) (opts : Opts) (h : OpenOK eg F)
    (hmax : (openIndex { fs := F, volatile := true, opts := opts, eager := eg }).maxSeq + 1 < 2^32) :
    VInv (openDB F true true opts eg) ∧ (openDB F true true opts eg).noSync = false ∧
    ∀ k, vals (openDB F true true opts eg) k = diskValue F k := by
  refine ⟨?_, openDB_noSync F true true opts, fun k => by
    rw [vals_eq]; exact (open_readable F h.readable true opts).2 k⟩
  have key : ∀ (F' : FS) (S : OpenState F' true (openIndex { fs := F, volatile := true, opts := opts, eager := eg }))
      (E : List LogEntry) (hE : ∀ e ∈ E, EntryFits e) (hlog : LogState F' (snapVer F') E) (hsv : snapVer F' < 2^32)
      (hR : DirReadable eg F'), VInv (openDB F true true opts eg) := by
    intro F' S E hE hlog hsv hR
    generalize hX : openIndex { fs := F, volatile := true, opts := opts, eager := eg } = X at S hmax
    have S0 : OpenState F' false { X with volatile := false } :=
      ⟨S.index, S.failed, S.pending, S.datOpen, rfl, S.verSeq, S.log, S.logOpen, S.pick, S.free, S.otherSlot,
       S.maxSeq, S.dats⟩
    have hXe : X.eager = eg := by rw [← hX]; exact openIndex_eager F true opts
    obtain ⟨_, h3⟩ := inv3_of_openState F' _ S0 E hE hlog hsv hR hmax hXe
    have hload := loadAll_of_openState F' true X S hR hXe
    have hopen : openDB F true true opts eg =
        { X with index := mapV (loadedRec X.fs) (diskIndex F'), dataSeq := u32 (X.maxSeq + 1) } := by
      unfold openDB
      simp only [↓reduceIte]
      rw [hX, hload]
    rw [hopen]
    refine ⟨S.volatile, X.pending, h3, fun _ => S.pending⟩
  rcases h.log with ⟨E, hE, hlog⟩ | hd
  · exact key F (open_state F true opts E hE hlog h.ver) E hE hlog h.ver h.readable
  · have hR : DirReadable eg (noLog F) := by
      intro kr hkr
      rw [diskIndex_noLog F hd] at hkr
      exact h.readable kr hkr
    exact key (noLog F) (open_state_discard F true opts hd) [] (fun e he => by cases he) (Or.inl ⟨rfl, rfl⟩)
      (by rw [snapVer_noLog]; exact h.ver) hR

/-! ### operations of an open volatile store: memory only -/

theorem ghost_get (db : DB) (hc : Cached db) (P : List Key) (k : Key) :
    (Qdb.get (ghost db P) k).1 = ghost (Qdb.get db k).1 P := by
  have hc' : Cached (ghost db P) := hc
  unfold Qdb.get
  rw [if_neg (notFailed hc), if_neg (notFailed hc')]
  show (match ilookup k db.index with
    | none => ((ghost db P, none) : DB × Option Bytes)
    | some r => _).1 = _
  cases hl : ilookup k db.index with
  | none => rfl
  | some r =>
    have hr := loadrec_cached db.fs r (allCached_lookup hc.2 k r hl)
    have hr' : loadrec (ghost db P).fs r = some r := hr
    simp only [hr, hr']
    rfl

/-- one operation (not a reopen) on an open volatile store: the invariant stays, the values follow the map, and no
    file operation happens -/
theorem vstep_vinv (db : DB) (h : VInv db) (op : Op) (ok : OpOK db.eager op) (fits : OpFits db op) :
    VInv (step db op) ∧ (∀ k, vals (step db op) k = vstep (vals db) op k) ∧
    (step db op).effs = db.effs ∧ (step db op).fs = db.fs := by
  obtain ⟨P, h3, hP⟩ := h.gh
  have hc : Cached db := h3.inv.cached
  have hvals : ∀ k, vals (step db op) k = vstep (vals db) op k := by
    intro j
    have hnd : (Keys (absv db)).Nodup := by rw [keys_absv]; exact h3.inv.nodup
    cases op with
    | reopen a b c => exact absurd ok (by simp [OpOK])
    | defrag f => unfold vals; rw [(step_cached db (.defrag f) hc ok).2]; rfl
    | sync => unfold vals; rw [(step_cached db .sync hc ok).2]; rfl
    | noSync => unfold vals; rw [(step_cached db .noSync hc ok).2]; rfl
    | put k v =>
      unfold vals; rw [(step_cached db (.put k v) hc ok).2]
      exact mget_mstep _ hnd _ (fun _ _ _ => by simp) j
    | putExt k v f =>
      unfold vals; rw [(step_cached db (.putExt k v f) hc ok).2]
      exact mget_mstep _ hnd _ (fun _ _ _ => by simp) j
    | del k =>
      unfold vals; rw [(step_cached db (.del k) hc ok).2]
      exact mget_mstep _ hnd _ (fun _ _ _ => by simp) j
    | get k =>
      unfold vals; rw [(step_cached db (.get k) hc ok).2]
      exact mget_mstep _ hnd _ (fun _ _ _ => by simp) j
    | browse w =>
      unfold vals; rw [(step_cached db (.browse w) hc ok).2]
      exact mget_mstep _ hnd _ (fun _ _ _ => by simp) j
    | applyFlags k fl =>
      unfold vals; rw [(step_cached db (.applyFlags k fl) hc ok).2]
      exact mget_mstep _ hnd _ (fun _ _ _ => by simp) j
  refine ⟨?_, hvals, ?_⟩
  · -- the invariant
    have inv := h3.inv
    have i2 := h3.i2
    cases op with
    | reopen a b c => exact absurd ok (by simp [OpOK])
    | put k v =>
      obtain ⟨a, b, _⟩ := fits
      show VInv (putExt db k v 0)
      unfold putExt
      rw [if_neg (notFailed hc)]
      obtain ⟨e, n, m, hmp⟩ := memput_same db k (newRec v 0)
      unfold afterChange
      rw [hmp]
      simp only [h.vol, ↓reduceIte]
      have hM := putExt_addPending_inv (ghost db P) inv k v 0 a b (by decide) (zeroFlags_ok _)
      obtain ⟨e', n', m', hmp'⟩ := memput_same (ghost db P) k (newRec v 0)
      rw [addPending_same, hmp'] at hM
      refine ⟨rfl, pendingAdd P k, ⟨?_, inv2_same i2 rfl rfl rfl rfl⟩, fun hn => by simp at hn⟩
      exact ⟨hM.cached, hM.nv, hM.wf, hM.nodup, hM.pnodup, hM.pkeys, hM.ver, hM.verlt, hM.dseq, hM.logst,
        hM.log1, hM.log2, hM.clean, hM.files, hM.dflags, hM.dat1, hM.dat2, hM.dreads⟩
    | putExt k v f =>
      obtain ⟨a, b, c, _⟩ := fits
      show VInv (putExt db k v f)
      unfold putExt
      rw [if_neg (notFailed hc)]
      obtain ⟨e, n, m, hmp⟩ := memput_same db k (newRec v f)
      unfold afterChange
      rw [hmp]
      simp only [h.vol, ↓reduceIte]
      have hM := putExt_addPending_inv (ghost db P) inv k v f a b c ok
      obtain ⟨e', n', m', hmp'⟩ := memput_same (ghost db P) k (newRec v f)
      rw [addPending_same, hmp'] at hM
      refine ⟨rfl, pendingAdd P k, ⟨?_, inv2_same i2 rfl rfl rfl rfl⟩, fun hn => by simp at hn⟩
      exact ⟨hM.cached, hM.nv, hM.wf, hM.nodup, hM.pnodup, hM.pkeys, hM.ver, hM.verlt, hM.dseq, hM.logst,
        hM.log1, hM.log2, hM.clean, hM.files, hM.dflags, hM.dat1, hM.dat2, hM.dreads⟩
    | del k =>
      show VInv (del db k)
      unfold del
      rw [if_neg (notFailed hc)]
      obtain ⟨e, n, hmd⟩ := memdel_same db k
      unfold afterChange
      rw [hmd]
      simp only [h.vol, ↓reduceIte]
      have hM := del_addPending_inv (ghost db P) inv k fits.1
      obtain ⟨e', n', hmd'⟩ := memdel_same (ghost db P) k
      rw [addPending_same, hmd'] at hM
      refine ⟨rfl, pendingAdd P k, ⟨?_, inv2_same i2 rfl rfl rfl rfl⟩, fun hn => by simp at hn⟩
      exact ⟨hM.cached, hM.nv, hM.wf, hM.nodup, hM.pnodup, hM.pkeys, hM.ver, hM.verlt, hM.dseq, hM.logst,
        hM.log1, hM.log2, hM.clean, hM.files, hM.dflags, hM.dat1, hM.dat2, hM.dreads⟩
    | get k =>
      have g3 := step_inv3 (ghost db P) h3 (.get k) ok trivial
      have : step (ghost db P) (.get k) = ghost (step db (.get k)) P := ghost_get db hc P k
      rw [this] at g3
      have hsame : (Qdb.get db k).1.volatile = db.volatile ∧ (Qdb.get db k).1.noSync = db.noSync := by
        unfold Qdb.get
        rw [if_neg (notFailed hc)]
        cases hl : ilookup k db.index with
        | none => exact ⟨rfl, rfl⟩
        | some r =>
          simp only [loadrec_cached db.fs r (allCached_lookup hc.2 k r hl)]
          exact ⟨trivial, trivial⟩
      refine ⟨?_, P, g3, ?_⟩
      · show (Qdb.get db k).1.volatile = true
        rw [hsame.1]; exact h.vol
      · intro hn
        apply hP
        have hn' : (Qdb.get db k).1.noSync = false := hn
        rw [hsame.2] at hn'; exact hn'
    | browse w =>
      have g3 := step_inv3 (ghost db P) h3 (.browse w) ok trivial
      obtain ⟨b1, _⟩ := browseGen_cached false db w hc ok
      obtain ⟨b2, _⟩ := browseGen_cached false (ghost db P) w inv.cached ok
      have e1 : step db (.browse w) = { db with index := db.index.map (browseRec false w (vsOf false db w)) } := b1
      have e2 : step (ghost db P) (.browse w) = ghost (step db (.browse w)) P := by rw [e1]; exact b2
      rw [e2] at g3
      refine ⟨by rw [e1]; exact h.vol, P, g3, fun hn => hP (by rw [e1] at hn; exact hn)⟩
    | applyFlags k fl =>
      have g3 := step_inv3 (ghost db P) h3 (.applyFlags k fl) ok trivial
      have e1 : step db (.applyFlags k fl) = applyFlags db k fl := rfl
      have e2 : step (ghost db P) (.applyFlags k fl) = ghost (step db (.applyFlags k fl)) P := by
        show applyFlags (ghost db P) k fl = ghost (applyFlags db k fl) P
        unfold applyFlags
        show (if db.failed.isSome = true then _ else _) = _
        split
        · rfl
        · show (match ilookup k db.index with | none => _ | some r => _) = _
          cases ilookup k db.index <;> rfl
      rw [e2] at g3
      have hsame : (applyFlags db k fl).volatile = db.volatile ∧ (applyFlags db k fl).noSync = db.noSync := by
        unfold applyFlags
        rw [if_neg (notFailed hc)]
        cases ilookup k db.index <;> exact ⟨rfl, rfl⟩
      exact ⟨by rw [e1, hsame.1]; exact h.vol, P, g3, fun hn => hP (by rw [e1, hsame.2] at hn; exact hn)⟩
    | defrag f =>
      have : step db (.defrag f) = db := by
        show (defragOp db f).1 = db
        unfold defragOp
        rw [if_neg (notFailed hc)]
        simp [h.vol]
      rw [this]; exact h
    | sync =>
      have : step db .sync = db := by
        show syncOp db = db
        unfold syncOp
        rw [if_neg (notFailed hc)]
        simp [h.vol]
      rw [this]; exact h
    | noSync =>
      have : step db .noSync = db := by
        show noSyncOp db = db
        unfold noSyncOp
        rw [if_neg (notFailed hc)]
        simp [h.vol]
      rw [this]; exact h
  · -- no file operation
    cases op with
    | reopen a b c => exact absurd ok (by simp [OpOK])
    | put k v =>
      show (putExt db k v 0).effs = db.effs ∧ (putExt db k v 0).fs = db.fs
      unfold putExt
      rw [if_neg (notFailed hc)]
      obtain ⟨e, n, m, hmp⟩ := memput_same db k (newRec v 0)
      unfold afterChange
      rw [hmp]
      simp only [h.vol, ↓reduceIte]
      exact ⟨trivial, trivial⟩
    | putExt k v f =>
      show (putExt db k v f).effs = db.effs ∧ (putExt db k v f).fs = db.fs
      unfold putExt
      rw [if_neg (notFailed hc)]
      obtain ⟨e, n, m, hmp⟩ := memput_same db k (newRec v f)
      unfold afterChange
      rw [hmp]
      simp only [h.vol, ↓reduceIte]
      exact ⟨trivial, trivial⟩
    | del k =>
      show (del db k).effs = db.effs ∧ (del db k).fs = db.fs
      unfold del
      rw [if_neg (notFailed hc)]
      obtain ⟨e, n, hmd⟩ := memdel_same db k
      unfold afterChange
      rw [hmd]
      simp only [h.vol, ↓reduceIte]
      exact ⟨trivial, trivial⟩
    | get k =>
      show (Qdb.get db k).1.effs = db.effs ∧ (Qdb.get db k).1.fs = db.fs
      unfold Qdb.get
      rw [if_neg (notFailed hc)]
      cases hl : ilookup k db.index with
      | none => exact ⟨rfl, rfl⟩
      | some r =>
        simp only [loadrec_cached db.fs r (allCached_lookup hc.2 k r hl)]
        exact ⟨trivial, trivial⟩
    | browse w =>
      obtain ⟨b1, _⟩ := browseGen_cached false db w hc ok
      have e1 : step db (.browse w) = { db with index := db.index.map (browseRec false w (vsOf false db w)) } := b1
      rw [e1]; exact ⟨rfl, rfl⟩
    | applyFlags k fl =>
      show (applyFlags db k fl).effs = db.effs ∧ (applyFlags db k fl).fs = db.fs
      unfold applyFlags
      rw [if_neg (notFailed hc)]
      cases ilookup k db.index <;> exact ⟨rfl, rfl⟩
    | defrag f =>
      have : step db (.defrag f) = db := by
        show (defragOp db f).1 = db
        unfold defragOp
        rw [if_neg (notFailed hc)]
        simp [h.vol]
      rw [this]; exact ⟨rfl, rfl⟩
    | sync =>
      have : step db .sync = db := by
        show syncOp db = db
        unfold syncOp
        rw [if_neg (notFailed hc)]
        simp [h.vol]
      rw [this]; exact ⟨rfl, rfl⟩
    | noSync =>
      have : step db .noSync = db := by
        show noSyncOp db = db
        unfold noSyncOp
        rw [if_neg (notFailed hc)]
        simp [h.vol]
      rw [this]; exact ⟨rfl, rfl⟩

/-- the keys changed since they were last written, after one more operation -/
def nextP (P : List Key) : Op → List Key
  | .put k _ => pendingAdd P k
  | .putExt k _ _ => pendingAdd P k
  | .del k => pendingAdd P k
  | _ => P

/-- one operation (not a reopen) on an open volatile store, with the shadow's pending set made explicit -/
theorem vstep_ghost (db : DB) (hv : db.volatile = true) (P : List Key) (h3 : Inv3 (ghost db P))
    (hP : db.noSync = false → P = []) (op : Op) (ok : OpOK db.eager op) (fits : OpFits db op) :
    (step db op).volatile = true ∧ Inv3 (ghost (step db op) (nextP P op)) ∧
    ((step db op).noSync = false → nextP P op = []) := by
  have hc : Cached db := h3.inv.cached
  have inv := h3.inv
  have i2 := h3.i2
  cases op with
  | reopen a b c => exact absurd ok (by simp [OpOK])
  | put k v =>
    obtain ⟨a, b, _⟩ := fits
    show (putExt db k v 0).volatile = true ∧ Inv3 (ghost (putExt db k v 0) (pendingAdd P k)) ∧ ((putExt db k v 0).noSync = false → pendingAdd P k = [])
    unfold putExt
    rw [if_neg (notFailed hc)]
    obtain ⟨e, n, m, hmp⟩ := memput_same db k (newRec v 0)
    unfold afterChange
    rw [hmp]
    simp only [hv, ↓reduceIte]
    have hM := putExt_addPending_inv (ghost db P) inv k v 0 a b (by decide) (zeroFlags_ok _)
    obtain ⟨e', n', m', hmp'⟩ := memput_same (ghost db P) k (newRec v 0)
    rw [addPending_same, hmp'] at hM
    refine ⟨trivial, ⟨?_, inv2_same i2 rfl rfl rfl rfl⟩, fun hn => by simp at hn⟩
    exact ⟨hM.cached, hM.nv, hM.wf, hM.nodup, hM.pnodup, hM.pkeys, hM.ver, hM.verlt, hM.dseq, hM.logst,
      hM.log1, hM.log2, hM.clean, hM.files, hM.dflags, hM.dat1, hM.dat2, hM.dreads⟩
  | putExt k v f =>
    obtain ⟨a, b, c, _⟩ := fits
    show (putExt db k v f).volatile = true ∧ Inv3 (ghost (putExt db k v f) (pendingAdd P k)) ∧ ((putExt db k v f).noSync = false → pendingAdd P k = [])
    unfold putExt
    rw [if_neg (notFailed hc)]
    obtain ⟨e, n, m, hmp⟩ := memput_same db k (newRec v f)
    unfold afterChange
    rw [hmp]
    simp only [hv, ↓reduceIte]
    have hM := putExt_addPending_inv (ghost db P) inv k v f a b c ok
    obtain ⟨e', n', m', hmp'⟩ := memput_same (ghost db P) k (newRec v f)
    rw [addPending_same, hmp'] at hM
    refine ⟨trivial, ⟨?_, inv2_same i2 rfl rfl rfl rfl⟩, fun hn => by simp at hn⟩
    exact ⟨hM.cached, hM.nv, hM.wf, hM.nodup, hM.pnodup, hM.pkeys, hM.ver, hM.verlt, hM.dseq, hM.logst,
      hM.log1, hM.log2, hM.clean, hM.files, hM.dflags, hM.dat1, hM.dat2, hM.dreads⟩
  | del k =>
    show (del db k).volatile = true ∧ Inv3 (ghost (del db k) (pendingAdd P k)) ∧ ((del db k).noSync = false → pendingAdd P k = [])
    unfold del
    rw [if_neg (notFailed hc)]
    obtain ⟨e, n, hmd⟩ := memdel_same db k
    unfold afterChange
    rw [hmd]
    simp only [hv, ↓reduceIte]
    have hM := del_addPending_inv (ghost db P) inv k fits.1
    obtain ⟨e', n', hmd'⟩ := memdel_same (ghost db P) k
    rw [addPending_same, hmd'] at hM
    refine ⟨trivial, ⟨?_, inv2_same i2 rfl rfl rfl rfl⟩, fun hn => by simp at hn⟩
    exact ⟨hM.cached, hM.nv, hM.wf, hM.nodup, hM.pnodup, hM.pkeys, hM.ver, hM.verlt, hM.dseq, hM.logst,
      hM.log1, hM.log2, hM.clean, hM.files, hM.dflags, hM.dat1, hM.dat2, hM.dreads⟩
  | get k =>
    have g3 := step_inv3 (ghost db P) h3 (.get k) ok trivial
    have : step (ghost db P) (.get k) = ghost (step db (.get k)) P := ghost_get db hc P k
    rw [this] at g3
    have hsame : (Qdb.get db k).1.volatile = db.volatile ∧ (Qdb.get db k).1.noSync = db.noSync := by
      unfold Qdb.get
      rw [if_neg (notFailed hc)]
      cases hl : ilookup k db.index with
      | none => exact ⟨rfl, rfl⟩
      | some r =>
        simp only [loadrec_cached db.fs r (allCached_lookup hc.2 k r hl)]
        exact ⟨trivial, trivial⟩
    refine ⟨?_, g3, ?_⟩
    · show (Qdb.get db k).1.volatile = true
      rw [hsame.1]; exact hv
    · intro hn
      apply hP
      have hn' : (Qdb.get db k).1.noSync = false := hn
      rw [hsame.2] at hn'; exact hn'
  | browse w =>
    have g3 := step_inv3 (ghost db P) h3 (.browse w) ok trivial
    obtain ⟨b1, _⟩ := browseGen_cached false db w hc ok
    obtain ⟨b2, _⟩ := browseGen_cached false (ghost db P) w inv.cached ok
    have e1 : step db (.browse w) = { db with index := db.index.map (browseRec false w (vsOf false db w)) } := b1
    have e2 : step (ghost db P) (.browse w) = ghost (step db (.browse w)) P := by rw [e1]; exact b2
    rw [e2] at g3
    refine ⟨by rw [e1]; exact hv, g3, fun hn => hP (by rw [e1] at hn; exact hn)⟩
  | applyFlags k fl =>
    have g3 := step_inv3 (ghost db P) h3 (.applyFlags k fl) ok trivial
    have e1 : step db (.applyFlags k fl) = applyFlags db k fl := rfl
    have e2 : step (ghost db P) (.applyFlags k fl) = ghost (step db (.applyFlags k fl)) P := by
      show applyFlags (ghost db P) k fl = ghost (applyFlags db k fl) P
      unfold applyFlags
      show (if db.failed.isSome = true then _ else _) = _
      split
      · rfl
      · show (match ilookup k db.index with | none => _ | some r => _) = _
        cases ilookup k db.index <;> rfl
    rw [e2] at g3
    have hsame : (applyFlags db k fl).volatile = db.volatile ∧ (applyFlags db k fl).noSync = db.noSync := by
      unfold applyFlags
      rw [if_neg (notFailed hc)]
      cases ilookup k db.index <;> exact ⟨rfl, rfl⟩
    exact ⟨by rw [e1, hsame.1]; exact hv, g3, fun hn => hP (by rw [e1, hsame.2] at hn; exact hn)⟩
  | defrag f =>
    have : step db (.defrag f) = db := by
      show (defragOp db f).1 = db
      unfold defragOp
      rw [if_neg (notFailed hc)]
      simp [hv]
    rw [this]; exact ⟨hv, h3, hP⟩
  | sync =>
    have : step db .sync = db := by
      show syncOp db = db
      unfold syncOp
      rw [if_neg (notFailed hc)]
      simp [hv]
    rw [this]; exact ⟨hv, h3, hP⟩
  | noSync =>
    have : step db .noSync = db := by
      show noSyncOp db = db
      unfold noSyncOp
      rw [if_neg (notFailed hc)]
      simp [hv]
    rw [this]; exact ⟨hv, h3, hP⟩

/-! ### Close, in both modes, and the NewDBExt that follows -/

/-- what Close leaves, in a form shared by both modes -/
structure Closed (db : DB) : Prop where
  failed : (close db).failed = none
  ok : OpenOK db.eager (close db).fs
  vals : ∀ k, diskValue (close db).fs k = vals db k
  atomic : ∃ es, (close db).effs = db.effs ++ es ∧ (close db).fs = db.fs.applyAll (es.map (·.2)) ∧
    Atomic db.eager db.fs (es.map (·.2)) (C19.vals db)
  eager : (close db).eager = db.eager

/-- Close of a non-volatile store is a sync -/
theorem nclose (db : DB) (h : Inv3 db) (hs : SizeOK db) (hd : DFits db) : Closed db := by
  have inv := h.inv
  obtain ⟨sinv, sabs, spe, _⟩ := sync_inv db inv hs
  have hclose : (close db).failed = none ∧ (close db).fs = (sync db).fs ∧ (close db).effs = (sync db).effs := by
    unfold close
    rw [if_neg (notFailed inv.cached)]
    simp only [inv.nv, Bool.false_eq_true, ↓reduceIte, sinv.cached.1]
    exact ⟨trivial, trivial, trivial⟩
  obtain ⟨es1, x1, y1, z1⟩ := sync_atomic db h hs hd
  refine ⟨hclose.1, by rw [hclose.2.1, ← (sync_cached db inv.cached).eager]; exact openOK_of_inv _ sinv, fun k => ?_,
    ⟨es1, by rw [hclose.2.2]; exact x1, by rw [hclose.2.1]; exact y1, z1⟩, close_eager db inv.cached⟩
  rw [hclose.2.1, diskValue_of_inv _ sinv spe k]
  unfold C19.vals
  rw [sabs]

/-- Close of a volatile store: nothing when unchanged, a defrag otherwise -/
theorem vclose (db : DB) (h : VInv db) (hsm : 4 + (valsOf db.index).flatten.length < 2^32) (hd : DFits db) :
    Closed db := by
  obtain ⟨P, h3, hP⟩ := h.gh
  have hc : Cached db := h3.inv.cached
  cases hn : db.noSync with
  | false =>
    have hP0 : P = [] := hP hn
    subst hP0
    have hcl : close db = { db with datOpen := false, logOpen := false, index := [], pending := [] } := by
      unfold close
      rw [if_neg (notFailed hc)]
      simp only [h.vol, hn, ↓reduceIte, Bool.false_eq_true, hc.1]
    have f1 : (close db).failed = none := by rw [hcl]; exact hc.1
    have f2 : (close db).fs = db.fs := by rw [hcl]
    have f3 : (close db).effs = db.effs := by rw [hcl]
    refine ⟨f1, by rw [f2]; exact openOK_of_inv (ghost db []) h3.inv,
      fun k => by rw [f2]; exact diskValue_of_inv (ghost db []) h3.inv rfl k,
      ⟨[], by rw [f3]; simp, by rw [f2]; rfl, atomic_nil _ _ (openOK_of_inv (ghost db []) h3.inv)⟩,
      close_eager db hc⟩
  | true =>
    have hk := defrag_cached db hc
    have hcl : (close db).failed = none ∧ (close db).fs = (defrag db).fs ∧ (close db).effs = (defrag db).effs := by
      unfold close
      rw [if_neg (notFailed hc)]
      simp only [h.vol, hn, ↓reduceIte, hk.cached.1]
      exact ⟨trivial, trivial, trivial⟩
    have r := defragReady_of (ghost db P) h3 hsm ⟨hd.seq, hd.small⟩
    have hready : DefragReady db :=
      ⟨r.cached, r.wf, r.free, r.old, r.verlt, r.readable, r.seqs, r.logfits, r.ver, r.small⟩
    obtain ⟨es, he, hA⟩ := defrag_atomic' db hready
    obtain ⟨es', he1, he2⟩ := replays_defrag db
    have hes : es' = es := List.append_cancel_left (he1.symm.trans he)
    rw [hes] at he2
    have hok : OpenOK db.eager (defrag db).fs := by
      have := (hA (es.map (·.2)).length).1
      rw [List.take_length, ← he2] at this
      exact this
    refine ⟨hcl.1, by rw [hcl.2.1]; exact hok, fun k => ?_, ⟨es, by rw [hcl.2.2]; exact he,
      by rw [hcl.2.1]; exact he2, hA⟩, close_eager db hc⟩
    rw [hcl.2.1]
    obtain ⟨_, _, o3⟩ := open_after_defrag db hc hready.wf false {}
    have o4 := (open_readable (defrag db).fs hok.readable false {}).2 k
    rw [← o4, ← vals_eq]
    unfold C19.vals
    rw [o3]

/-- NewDBExt (either mode, LoadData) after a Close: the invariant of the new mode, the same values, and every crash
    point of Close + NewDBExt is all-old or all-new -/
theorem reopen_from (db : DB) (c : Closed db) (vol : Bool) (opts : Opts)
    (hmax : (openIndex { fs := (close db).fs, volatile := vol, opts := opts, eager := db.eager }).maxSeq + 1 < 2^32) :
    ((vol = false ∧ Inv3 (step db (.reopen vol true opts))) ∨ (vol = true ∧ VInv (step db (.reopen vol true opts)))) ∧
    (∀ k, vals (step db (.reopen vol true opts)) k = vals db k) ∧
    (∀ k, diskValue (step db (.reopen vol true opts)).fs k = vals db k) ∧
    ∃ es, (step db (.reopen vol true opts)).effs = db.effs ++ es ∧
      Atomic db.eager db.fs (es.map (·.2)) (vals db) := by
  have hstep : step db (.reopen vol true opts) =
      { openDB (close db).fs vol true opts db.eager with
        effs := (close db).effs ++ (openDB (close db).fs vol true opts db.eager).effs } := by
    show (match (close db).failed with
      | some _ => close db
      | none => { openDB (close db).fs vol true opts (close db).eager with
                  effs := (close db).effs ++ (openDB (close db).fs vol true opts (close db).eager).effs }) = _
    rw [c.failed, c.eager]
  obtain ⟨es1, x1, y1, z1⟩ := c.atomic
  have hval : ∀ k, vals (openDB (close db).fs vol true opts db.eager) k = vals db k := by
    intro k
    rw [vals_eq, (open_readable _ c.ok.readable vol opts).2 k]
    exact c.vals k
  have hT : ∀ n, Trim (close db).fs ((close db).fs.applyAll
      (((openDB (close db).fs vol true opts db.eager).effs.map (·.2)).take n)) := fun n =>
    (Trim.refl (close db).fs).applyAll _ (fun e he => by
      obtain ⟨x, hx, rfl⟩ := List.mem_map.mp (List.mem_of_mem_take he)
      exact open_effs_trim _ _ _ _ x hx)
  rw [hstep]
  refine ⟨?_, hval, fun k => ?_, es1 ++ (openDB (close db).fs vol true opts db.eager).effs,
    by show (close db).effs ++ _ = _; rw [x1, List.append_assoc], ?_⟩
  · cases vol with
    | false => exact Or.inl ⟨rfl, inv3_effs _ (open_inv3g _ opts c.ok hmax).1 _⟩
    | true => exact Or.inr ⟨rfl, vinv_effs (open_vinv _ opts c.ok hmax).1 _⟩
  · show diskValue (openDB (close db).fs vol true opts db.eager).fs k = _
    rw [openDB_replays]
    have T := hT ((openDB (close db).fs vol true opts db.eager).effs.map (·.2)).length
    rw [List.take_length] at T
    rw [(T.ok c.ok).2 k]
    exact c.vals k
  · rw [List.map_append]
    apply atomic_append z1
    rw [← y1]
    intro n
    obtain ⟨o, v⟩ := (hT n).ok c.ok
    exact ⟨o, Or.inl v⟩

/-! ### one operation in either mode -/

/-- the invariant of an open store, non-volatile or volatile -/
def SInv (db : DB) : Prop := Inv3 db ∨ VInv db

theorem SInv.mode {db : DB} (h : SInv db) : (db.volatile = false ∧ Inv3 db) ∨ (db.volatile = true ∧ VInv db) := by
  rcases h with h | h
  · exact Or.inl ⟨h.inv.nv, h⟩
  · exact Or.inr ⟨h.vol, h⟩

theorem SInv.cached {db : DB} (h : SInv db) : Cached db := by
  rcases h with h | h
  · exact h.inv.cached
  · exact h.cached

theorem SInv.nodup {db : DB} (h : SInv db) : (Keys db.index).Nodup := by
  rcases h with h | h
  · exact h.inv.nodup
  · obtain ⟨P, h3, _⟩ := h.gh
    exact h3.inv.nodup

/-- operations of the sub-language, both modes: no NO_CACHE flag; Close + NewDBExt(any mode, LoadData, any options) -/
def OpOK3 (eg : Bool) : Op → Prop
  | .reopen _ load _ => load = true
  | op => OpOK eg op

/-- side conditions of one operation, both modes -/
def OpFits3 (db : DB) : Op → Prop
  | .reopen vol _ opts => SizeOK db ∧
      (openIndex { fs := (close db).fs, volatile := vol, opts := opts, eager := db.eager }).maxSeq + 1 < 2^32
  | op => OpFits db op

/-- operations after which everything written so far must be durable: Close + reopen in both modes; Sync and
    Defrag(true) on a non-volatile store (on a volatile store they do nothing) -/
def mustSyncV (vol : Bool) : Op → Bool
  | .reopen _ _ _ => true
  | .sync => !vol
  | .defrag true => !vol
  | _ => false

/-- the mode after an operation: a reopen chooses it -/
def modeAfter (vol : Bool) : Op → Bool
  | .reopen v _ _ => v
  | _ => vol

/-- what the history theorem needs from one operation -/
structure StepOK (db : DB) (op : Op) : Prop where
  inv : SInv (step db op)
  mode : (step db op).volatile = modeAfter db.volatile op
  vals : ∀ k, vals (step db op) k = vstep (C19.vals db) op k
  atomic : ∃ es, (step db op).effs = db.effs ++ es ∧ Atomic db.eager db.fs (es.map (·.2)) (C19.vals (step db op))
  dur : (∀ k, diskValue (step db op).fs k = diskValue db.fs k) ∨
        (∀ k, diskValue (step db op).fs k = C19.vals (step db op) k)
  must : mustSyncV db.volatile op = true → ∀ k, diskValue (step db op).fs k = C19.vals (step db op) k
  eager : (step db op).eager = db.eager

theorem stepOK_nv (db : DB) (h : Inv3 db) (op : Op) (hnr : ∀ a b c, op ≠ .reopen a b c) (ok : OpOK db.eager op)
    (fits : OpFits db op) (hd : DFits (preSync db op)) : StepOK db op := by
  have ok2 : OpOK2 db.eager op := by
    cases op <;> first | exact ok | exact absurd rfl (hnr _ _ _)
  have fits2 : OpFits2 db op := by
    cases op <;> first | exact fits | exact absurd rfl (hnr _ _ _)
  obtain ⟨h1, hv⟩ := step_inv3' db h op ok2 fits2
  obtain ⟨es, e1, e2, A⟩ := step_crash db h op ok2 fits2 hd
  have hfin := (A (es.map (·.2)).length).2
  rw [List.take_length, ← e2] at hfin
  have hm : modeAfter db.volatile op = db.volatile := by
    cases op <;> first | rfl | exact absurd rfl (hnr _ _ _)
  refine ⟨Or.inl h1, by rw [hm, h1.inv.nv, h.inv.nv], hv, ⟨es, e1, A⟩, hfin, fun hms k => ?_, step_eager2 db h op ok2 fits2⟩
  have hms' : mustSync op = true := by
    rw [h.inv.nv] at hms
    cases op with
    | defrag f => cases f <;> simpa [mustSyncV, mustSync] using hms
    | reopen a b c => exact absurd rfl (hnr _ _ _)
    | sync => rfl
    | put k v => simp [mustSyncV] at hms
    | putExt k v f => simp [mustSyncV] at hms
    | del k => simp [mustSyncV] at hms
    | get k => simp [mustSyncV] at hms
    | browse w => simp [mustSyncV] at hms
    | applyFlags k fl => simp [mustSyncV] at hms
    | noSync => simp [mustSyncV] at hms
  exact diskValue_of_inv _ h1.inv (mustSync_pending db h op ok2 fits2 hms') k

theorem stepOK_v (db : DB) (h : VInv db) (op : Op) (hnr : ∀ a b c, op ≠ .reopen a b c) (ok : OpOK db.eager op)
    (fits : OpFits db op) : StepOK db op := by
  obtain ⟨h1, hv, he, hf⟩ := vstep_vinv db h op ok fits
  obtain ⟨P, h3, _⟩ := h.gh
  have hm : modeAfter db.volatile op = db.volatile := by
    cases op <;> first | rfl | exact absurd rfl (hnr _ _ _)
  refine ⟨Or.inr h1, by rw [hm, h1.vol, h.vol], hv, ⟨[], by rw [he]; simp, atomic_nil _ _ (openOK_of_inv (ghost db P) h3.inv)⟩,
    Or.inl (fun k => by rw [hf]), fun hms => ?_, step_eager db op h.cached ok⟩
  rw [h.vol] at hms
  cases op with
  | defrag f => cases f <;> simp [mustSyncV] at hms
  | reopen a b c => exact absurd rfl (hnr _ _ _)
  | sync => simp [mustSyncV] at hms
  | put k v => simp [mustSyncV] at hms
  | putExt k v f => simp [mustSyncV] at hms
  | del k => simp [mustSyncV] at hms
  | get k => simp [mustSyncV] at hms
  | browse w => simp [mustSyncV] at hms
  | applyFlags k fl => simp [mustSyncV] at hms
  | noSync => simp [mustSyncV] at hms

theorem stepOK_reopen (db : DB) (c : Closed db) (vol : Bool) (opts : Opts)
    (hmax : (openIndex { fs := (close db).fs, volatile := vol, opts := opts, eager := db.eager }).maxSeq + 1 < 2^32) :
    StepOK db (.reopen vol true opts) := by
  obtain ⟨hi, hv, hdv, es, he, hA⟩ := reopen_from db c vol opts hmax
  have hvf : ∀ k, vals (step db (.reopen vol true opts)) k = vstep (vals db) (.reopen vol true opts) k := hv
  have hee : (step db (.reopen vol true opts)).eager = db.eager := by
    show (match (close db).failed with
      | some _ => close db
      | none => { openDB (close db).fs vol true opts (close db).eager with
                  effs := (close db).effs ++ (openDB (close db).fs vol true opts (close db).eager).effs }).eager = _
    rw [c.failed]
    show (openDB (close db).fs vol true opts (close db).eager).eager = _
    rw [openDB_eager, c.eager]
  refine ⟨?_, ?_, hvf, ⟨es, he, hA.congr (fun k => (hv k).symm)⟩, Or.inr (fun k => (hdv k).trans (hv k).symm),
    fun _ k => (hdv k).trans (hv k).symm, hee⟩
  · rcases hi with ⟨_, h⟩ | ⟨_, h⟩
    · exact Or.inl h
    · exact Or.inr h
  · show _ = vol
    rcases hi with ⟨rfl, h⟩ | ⟨rfl, h⟩
    · exact h.inv.nv
    · exact h.vol

/-- every operation of the sub-language, in either mode -/
theorem stepOK (db : DB) (h : SInv db) (op : Op) (ok : OpOK3 db.eager op) (fits : OpFits3 db op)
    (hd : DFits (preSync db op)) : StepOK db op := by
  rcases h with h | h
  · cases op with
    | reopen vol load opts =>
      have hl : load = true := ok
      subst hl
      exact stepOK_reopen db (nclose db h fits.1 hd) vol opts fits.2
    | put k v => exact stepOK_nv db h _ (fun _ _ _ => by simp) ok fits hd
    | putExt k v f => exact stepOK_nv db h _ (fun _ _ _ => by simp) ok fits hd
    | del k => exact stepOK_nv db h _ (fun _ _ _ => by simp) ok fits hd
    | get k => exact stepOK_nv db h _ (fun _ _ _ => by simp) ok fits hd
    | browse w => exact stepOK_nv db h _ (fun _ _ _ => by simp) ok fits hd
    | applyFlags k fl => exact stepOK_nv db h _ (fun _ _ _ => by simp) ok fits hd
    | defrag f => exact stepOK_nv db h _ (fun _ _ _ => by simp) ok fits hd
    | sync => exact stepOK_nv db h _ (fun _ _ _ => by simp) ok fits hd
    | noSync => exact stepOK_nv db h _ (fun _ _ _ => by simp) ok fits hd
  · cases op with
    | reopen vol load opts =>
      have hl : load = true := ok
      subst hl
      exact stepOK_reopen db (vclose db h fits.1.2 hd) vol opts fits.2
    | put k v => exact stepOK_v db h _ (fun _ _ _ => by simp) ok fits
    | putExt k v f => exact stepOK_v db h _ (fun _ _ _ => by simp) ok fits
    | del k => exact stepOK_v db h _ (fun _ _ _ => by simp) ok fits
    | get k => exact stepOK_v db h _ (fun _ _ _ => by simp) ok fits
    | browse w => exact stepOK_v db h _ (fun _ _ _ => by simp) ok fits
    | applyFlags k fl => exact stepOK_v db h _ (fun _ _ _ => by simp) ok fits
    | defrag f => exact stepOK_v db h _ (fun _ _ _ => by simp) ok fits
    | sync => exact stepOK_v db h _ (fun _ _ _ => by simp) ok fits
    | noSync => exact stepOK_v db h _ (fun _ _ _ => by simp) ok fits

/-! ### histories with crashes, both modes, against the durable-map specification -/

/-- The durable-map specification along a history with crashes. `vol` is the current mode, `m` the in-memory map,
    `d` the durable one (what a reopen would find). An operation changes `m` as on a plain map (`vstep`); the durable
    map either stays or becomes the complete new in-memory map — it MUST become it at Close + reopen and, on a
    non-volatile store, at Sync and Defrag(true) (`mustSyncV`). A crash inside an operation loses the in-memory map:
    the store continues (in the mode the recovery chose) with the durable map from before the operation or with the
    complete map after it, never a mixture, and that is then durable. `DurOK vol m d H m' d'`: `H` can lead from `(m, d)` to
    `(m', d')`. -/
def DurOK : Bool → (Key → Option Bytes) → (Key → Option Bytes) → List HItem →
    (Key → Option Bytes) → (Key → Option Bytes) → Prop
  | _, m, d, [], m', d' => m' = m ∧ d' = d
  | vol, m, d, .op o :: t, m', d' =>
      DurOK (modeAfter vol o) (vstep m o) (vstep m o) t m' d' ∨
      (mustSyncV vol o = false ∧ DurOK (modeAfter vol o) (vstep m o) d t m' d')
  | _, m, d, .crash o _ _ vol _ :: t, m', d' =>
      DurOK vol d d t m' d' ∨ DurOK vol (vstep m o) (vstep m o) t m' d'

def HOK (eg : Bool) (i : HItem) : Prop := OpOK3 eg (itemOp i)

/-- side conditions along a history: those of every operation (`OpFits3`), the bounds of the crash analysis
    (`DFits`: data-file numbers do not wrap, index snapshot at most the 1 MiB bufio buffer) and, for every recovery,
    that the data-file numbers found on disk do not wrap -/
def HFits : DB → List HItem → Prop
  | _, [] => True
  | db, .op o :: t => OpFits3 db o ∧ DFits (preSync db o) ∧ HFits (step db o) t
  | db, .crash o n ms vol opts :: t => OpFits3 db o ∧ DFits (preSync db o) ∧
      (openIndex { fs := recrash opts (crashDir db o n) ms, volatile := vol, opts := opts, eager := db.eager }).maxSeq + 1 < 2^32 ∧
      HFits (hstep db (.crash o n ms vol opts)) t

/-- Under the specification, every value the store holds at the end (in memory or durably) was held at the start or
    was written by a Put / PutExt of the history (possibly the one the process died in). -/
theorem durOK_origin (H : List HItem) (vol : Bool) (m d m' d' : Key → Option Bytes) (h : DurOK vol m d H m' d')
    (k : Key) (v : Bytes) (hv : m' k = some v ∨ d' k = some v) :
    m k = some v ∨ d k = some v ∨ ∃ i ∈ H, writes (itemOp i) k v := by
  induction H generalizing vol m d with
  | nil =>
    obtain ⟨rfl, rfl⟩ := h
    rcases hv with hv | hv
    · exact Or.inl hv
    · exact Or.inr (Or.inl hv)
  | cons i t ih =>
    have lift : (∃ j ∈ t, writes (itemOp j) k v) → ∃ j ∈ i :: t, writes (itemOp j) k v :=
      fun ⟨j, hj, hw⟩ => ⟨j, List.mem_cons_of_mem _ hj, hw⟩
    have here : ∀ o, itemOp i = o → (vstep m o k = some v) →
        m k = some v ∨ d k = some v ∨ ∃ j ∈ i :: t, writes (itemOp j) k v := by
      intro o ho hs
      rcases vstep_origin m o k v hs with h1 | h1
      · exact Or.inl h1
      · exact Or.inr (Or.inr ⟨i, List.mem_cons_self, by rw [ho]; exact h1⟩)
    cases i with
    | op o =>
      rcases h with h | ⟨_, h⟩
      · rcases ih _ _ _ h with r | r | r
        · exact here o rfl r
        · exact here o rfl r
        · exact Or.inr (Or.inr (lift r))
      · rcases ih _ _ _ h with r | r | r
        · exact here o rfl r
        · exact Or.inr (Or.inl r)
        · exact Or.inr (Or.inr (lift r))
    | crash o n ms vol opts =>
      rcases h with h | h
      · rcases ih _ _ _ h with r | r | r
        · exact Or.inr (Or.inl r)
        · exact Or.inr (Or.inl r)
        · exact Or.inr (Or.inr (lift r))
      · rcases ih _ _ _ h with r | r | r
        · exact here o rfl r
        · exact here o rfl r
        · exact Or.inr (Or.inr (lift r))

/-- EVERY history of operations (both modes) and crashes (anywhere inside any operation, and inside any number of
    recovery attempts) keeps the invariants and follows the durable-map specification. -/
theorem hrun_dur (H : List HItem) (db : DB) (h : SInv db) (ok : ∀ i ∈ H, HOK db.eager i) (fits : HFits db H) :
    SInv (hrun db H) ∧
    DurOK db.volatile (vals db) (diskValue db.fs) H (vals (hrun db H)) (diskValue (hrun db H).fs) := by
  induction H generalizing db with
  | nil => exact ⟨h, rfl, rfl⟩
  | cons i t ih =>
    cases i with
    | op o =>
      have oko : OpOK3 db.eager o := ok (.op o) List.mem_cons_self
      obtain ⟨f1, f2, f3⟩ := fits
      have S := stepOK db h o oko f1 f2
      have hv' : vals (step db o) = vstep (vals db) o := funext S.vals
      obtain ⟨i1, i2⟩ := ih (step db o) S.inv (fun x hx => by rw [S.eager]; exact ok x (List.mem_cons_of_mem _ hx)) f3
      refine ⟨i1, ?_⟩
      rw [S.mode] at i2
      show DurOK (modeAfter db.volatile o) (vstep (vals db) o) (vstep (vals db) o) t _ _ ∨
        (mustSyncV db.volatile o = false ∧ DurOK (modeAfter db.volatile o) (vstep (vals db) o) (diskValue db.fs) t _ _)
      have hnew : (∀ k, diskValue (step db o).fs k = vals (step db o) k) →
          DurOK (modeAfter db.volatile o) (vstep (vals db) o) (vstep (vals db) o) t (vals (hrun (step db o) t))
            (diskValue (hrun (step db o) t).fs) := by
        intro hn
        have : diskValue (step db o).fs = vals (step db o) := funext hn
        rw [this, hv'] at i2
        exact i2
      cases hm : mustSyncV db.volatile o with
      | true => exact Or.inl (hnew (S.must hm))
      | false =>
        rcases S.dur with hold | hn
        · refine Or.inr ⟨rfl, ?_⟩
          have : diskValue (step db o).fs = diskValue db.fs := funext hold
          rw [this, hv'] at i2
          exact i2
        · exact Or.inl (hnew hn)
    | crash o n ms vol opts =>
      have oko : OpOK3 db.eager o := ok (.crash o n ms vol opts) List.mem_cons_self
      obtain ⟨f1, f2, f3, f4⟩ := fits
      have S := stepOK db h o oko f1 f2
      obtain ⟨es, e1, A⟩ := S.atomic
      have hcd : crashDir db o n = db.fs.applyAll ((es.map (·.2)).take n) := by
        unfold crashDir opEffs
        rw [e1, List.drop_left]
      obtain ⟨o1, v1⟩ := A n
      rw [← hcd] at o1 v1
      obtain ⟨o2, v2⟩ := recrash_ok opts ms _ o1
      -- the recovered store, in the mode the recovery chose
      have hrec : SInv (hstep db (.crash o n ms vol opts)) ∧ (hstep db (.crash o n ms vol opts)).volatile = vol ∧
          (∀ k, vals (hstep db (.crash o n ms vol opts)) k = diskValue (recrash opts (crashDir db o n) ms) k) ∧
          (∀ k, diskValue (hstep db (.crash o n ms vol opts)).fs k = vals (hstep db (.crash o n ms vol opts)) k) := by
        cases vol with
        | false =>
          obtain ⟨h3, hp⟩ := open_inv3g _ opts o2 f3
          exact ⟨Or.inl h3, h3.inv.nv, fun k => open_vals _ opts o2 k, fun k => diskValue_of_inv _ h3.inv hp k⟩
        | true =>
          obtain ⟨hV, hns, hvv⟩ := open_vinv _ opts o2 f3
          obtain ⟨P, h3, hP⟩ := hV.gh
          have hP0 : P = [] := hP hns
          subst hP0
          exact ⟨Or.inr hV, hV.vol, hvv, fun k => diskValue_of_inv (ghost _ []) h3.inv rfl k⟩
      obtain ⟨hsi, hmode, hval, hdur⟩ := hrec
      have hce : (hstep db (.crash o n ms vol opts)).eager = db.eager := openDB_eager _ _ _ _
      obtain ⟨i1, i2⟩ := ih (hstep db (.crash o n ms vol opts)) hsi
        (fun x hx => by rw [hce]; exact ok x (List.mem_cons_of_mem _ hx)) f4
      refine ⟨i1, ?_⟩
      rw [hmode] at i2
      show DurOK vol (diskValue db.fs) (diskValue db.fs) t _ _ ∨
        DurOK vol (vstep (vals db) o) (vstep (vals db) o) t _ _
      have hd' : diskValue (hstep db (.crash o n ms vol opts)).fs = vals (hstep db (.crash o n ms vol opts)) :=
        funext hdur
      rw [hd'] at i2
      rcases v1 with hold | hn
      · left
        have : vals (hstep db (.crash o n ms vol opts)) = diskValue db.fs :=
          funext (fun k => (hval k).trans ((v2 k).trans (hold k)))
        rw [this] at i2
        exact i2
      · right
        have : vals (hstep db (.crash o n ms vol opts)) = vstep (vals db) o :=
          funext (fun k => (hval k).trans ((v2 k).trans ((hn k).trans (S.vals k))))
        rw [this] at i2
        exact i2

/-- the ghost field never changes along a history -/
theorem hrun_eager (H : List HItem) (db : DB) (h : SInv db) (ok : ∀ i ∈ H, HOK db.eager i) (fits : HFits db H) :
    (hrun db H).eager = db.eager := by
  induction H generalizing db with
  | nil => rfl
  | cons i t ih =>
    cases i with
    | op o =>
      have oko : OpOK3 db.eager o := ok (.op o) List.mem_cons_self
      obtain ⟨f1, f2, f3⟩ := fits
      have S := stepOK db h o oko f1 f2
      exact (ih (step db o) S.inv (fun x hx => by rw [S.eager]; exact ok x (List.mem_cons_of_mem _ hx)) f3).trans S.eager
    | crash o n ms vol opts =>
      obtain ⟨f1, f2, f3, f4⟩ := fits
      have hce : (hstep db (.crash o n ms vol opts)).eager = db.eager := openDB_eager _ _ _ _
      have hsi : SInv (hstep db (.crash o n ms vol opts)) :=
        (hrun_dur [.crash o n ms vol opts] db h
          (fun x hx => by rcases List.mem_singleton.mp hx with rfl; exact ok _ List.mem_cons_self)
          ⟨f1, f2, f3, trivial⟩).1
      exact (ih _ hsi (fun x hx => by rw [hce]; exact ok x (List.mem_cons_of_mem _ hx)) f4).trans hce

end GocoinV.Proofs.C19
