/-
  Proofs.C16Stale — reopen_index excludes blocks that were marked invalid after they were written (second audit, item 1b).
  The ghost list `staleFinal` collects, along a history, the keys for which `BlockInvalid` flagged a WRITTEN record
  (`flagsInvalid`: in the index, not trusted, `ipos` set — the case in which `setBlockFlag` ORs BLOCK_INVALID into the
  record's first byte) and that were not handed to `BlockAdd` again since. Invariant `Stale`: if such a key is still in the
  in-memory index, the record at its `ipos` is flagged invalid on disk. LoadBlockIndex skips flagged records, so the
  restart does not list them.
-/
import GocoinV.Proofs.C16Listing
namespace GocoinV.BlockDB

/-- `BlockInvalid(hash)` will OR BLOCK_INVALID into a written record: the key is in the index, not trusted, and written -/
def flagsInvalid (s : State) (k : Key) : Bool :=
  match AL.get s.index k with
  | some r => !r.trusted && r.ipos.isSome
  | none => false

/-- one operation on the ghost list; `s` is the store's state BEFORE the operation -/
def staleStep (s : State) (st : List Key) (op : Op) : List Key :=
  if !s.isOpen then st else
  match op with
  | .invalid hash => if flagsInvalid s (keyOf hash) then keyOf hash :: st else st
  | .add hash _ _ _ raw => if raw.length < 80 then st else st.filter (fun k => decide (k ≠ keyOf hash))
  | _ => st

/-- the keys marked invalid after they were written and not added again since, after a history -/
def staleFinal (env : Env) : State → List Key → List Op → List Key
  | _, st, [] => st
  | s, st, op :: ops => staleFinal env (step env s op).1 (staleStep s st op) ops

def Stale (s : State) (st : List Key) : Prop :=
  ∀ k, k ∈ st → ∀ r, AL.get s.index k = some r → ∃ p, r.ipos = some p ∧ isInvalidRec (recAt s.fs.idx p) = true

set_option maxRecDepth 1000000 in
theorem or_invalid_bits : ∀ c : Fin 256,
    hasFlag (c.val ||| BLOCK_INVALID) BLOCK_INVALID = true ∧
    hasFlag (c.val ||| BLOCK_TRUSTED) BLOCK_INVALID = hasFlag c.val BLOCK_INVALID ∧
    c.val ||| BLOCK_TRUSTED < 256 ∧ c.val ||| BLOCK_INVALID < 256 := by decide

theorem stale_same (s s' : State) (st : List Key) (h : Stale s st) (h1 : s'.index = s.index) (h2 : s'.fs.idx = s.fs.idx) :
    Stale s' st := by
  unfold Stale; rw [h1, h2]; exact h

theorem stale_update (s s' : State) (st : List Key) (h : Stale s st) (k : Key) (r0 r1 : Rec) (hr : AL.get s.index k = some r0)
    (hidx : ∀ k', AL.get s'.index k' = if k = k' then some r1 else AL.get s.index k')
    (h2 : s'.fs.idx = s.fs.idx) (g1 : r1.ipos = r0.ipos) : Stale s' st := by
  intro k' hk r hh
  rw [hidx] at hh
  rw [h2]
  split at hh
  · rename_i e; subst e
    simp only [Option.some.injEq] at hh; subst hh
    rw [g1]; exact h k hk r0 hr
  · exact h k' hk r hh

theorem stale_delete (s : State) (st : List Key) (h : Stale s st) (k : Key) (c : List (Key × CacheEnt)) :
    Stale { s with cache := c, index := AL.del s.index k } st := by
  intro k' hk r hh
  simp only [AL.get_del] at hh
  split at hh
  · cases hh
  · exact h k' hk r hh

theorem addToCache_stale (s : State) (st : List Key) (h : Stale s st) (k : Key) (d : Bytes) : Stale (addToCache s k d) st := by
  obtain ⟨g1, _, g3, _⟩ := addToCache_fields s k d
  exact stale_same s _ st h g1 (by rw [g3])

/-- a flag update keeps every flagged record flagged; OR-ing BLOCK_INVALID into a written record flags it -/
theorem setBlockFlag_stale (s : State) (st : List Key) (h : Stale s st) (hi : IdxInv s) (k : Key) (r0 : Rec) (fl : Nat)
    (hr : AL.get s.index k = some r0) (hfl : fl = BLOCK_TRUSTED ∨ fl = BLOCK_INVALID) :
    Stale (setBlockFlag s k r0 fl) st ∧
    (fl = BLOCK_INVALID → r0.ipos.isSome = true → Stale (setBlockFlag s k r0 fl) (k :: st)) := by
  obtain ⟨i0, _⟩ := setBlockFlag_fields s k r0 fl
  cases hp : r0.ipos with
  | none =>
    have hfs : (setBlockFlag s k r0 fl).fs.idx = s.fs.idx := by
      unfold setBlockFlag; simp only [hp]
    refine ⟨stale_update s _ st h k r0 _ hr i0 hfs rfl, ?_⟩
    intro _ hs; simp at hs
  | some p =>
    obtain ⟨pl, pm⟩ := hi.ipos k r0 p hr hp
    have plt : p < s.fs.idx.length := by omega
    have hfs : (setBlockFlag s k r0 fl).fs.idx = pwrite s.fs.idx p [UInt8.ofNat ((s.fs.idx.getD p 0).toNat ||| fl)] := by
      unfold setBlockFlag; simp only [hp]
    have hsame : ∀ p', p' % 136 = 0 → p' ≠ p → recAt (setBlockFlag s k r0 fl).fs.idx p' = recAt s.fs.idx p' := by
      intro p' hp' hne
      rw [hfs]
      rcases chunk_apart p p' pm hp' (Ne.symm hne) with c | c
      · exact recAt_pwrite_before _ _ _ _ plt c
      · exact recAt_pwrite_after _ _ _ _ plt c
    have hat : recAt (setBlockFlag s k r0 fl).fs.idx p = UInt8.ofNat (flagAt (recAt s.fs.idx p) ||| fl) :: (recAt s.fs.idx p).drop 1 := by
      rw [hfs, recAt_pwrite_at _ _ _ plt]
      unfold flagAt; rw [recAt_getD _ _ pl]
    have hc : flagAt (recAt s.fs.idx p) < 256 := by unfold flagAt; exact ((recAt s.fs.idx p).getD 0 0).toNat_lt
    obtain ⟨o1, o2, o3, o4⟩ := or_invalid_bits ⟨flagAt (recAt s.fs.idx p), hc⟩
    simp only at o1 o2 o3 o4
    have hlt : flagAt (recAt s.fs.idx p) ||| fl < 256 := by rcases hfl with e | e <;> rw [e] <;> assumption
    have hinv : isInvalidRec (recAt (setBlockFlag s k r0 fl).fs.idx p) =
        hasFlag (flagAt (recAt s.fs.idx p) ||| fl) BLOCK_INVALID := by
      rw [hat, isInvalidRec_eq, flagAt_cons, UInt8.toNat_ofNat', Nat.mod_eq_of_lt hlt]
    -- a record that was flagged stays flagged, at every position
    have hkeep : ∀ p', p' % 136 = 0 → isInvalidRec (recAt s.fs.idx p') = true →
        isInvalidRec (recAt (setBlockFlag s k r0 fl).fs.idx p') = true := by
      intro p' hp1 hv
      by_cases e : p' = p
      · subst e
        rw [hinv]
        rcases hfl with e | e
        · rw [e, o2, ← isInvalidRec_eq]; exact hv
        · rw [e]; exact o1
      · rw [hsame p' hp1 e]; exact hv
    have base : Stale (setBlockFlag s k r0 fl) st := by
      intro k' hk r hh
      rw [i0] at hh
      split at hh
      · rename_i e; subst e
        simp only [Option.some.injEq] at hh; subst hh
        obtain ⟨p', a1, a2⟩ := h k hk r0 hr
        exact ⟨p', a1, hkeep p' (hi.ipos k r0 p' hr a1).2 a2⟩
      · obtain ⟨p', a1, a2⟩ := h k' hk r hh
        exact ⟨p', a1, hkeep p' (hi.ipos k' r p' hh a1).2 a2⟩
    refine ⟨base, ?_⟩
    intro e _ k' hk r hh
    rcases List.mem_cons.mp hk with e1 | e1
    · subst e1
      rw [i0, if_pos rfl] at hh
      simp only [Option.some.injEq] at hh; subst hh
      exact ⟨p, hp, by rw [hinv, e]; exact o1⟩
    · exact base k' e1 r hh

theorem writeOne_stale (env : Env) (s s' : State) (st : List Key) (h : Stale s st) (hi : IdxInv s) (ho : s.isOpen = true)
    (hw : writeOne env s = some s') : Stale s' st := by
  unfold writeOne at hw
  split at hw
  · cases hw
  · rename_i b q hq
    have hbq : b ∈ s.queue := by rw [hq]; simp
    simp only at hw
    split at hw
    · cases hw; exact stale_same s _ st h rfl rfl
    · rename_i r0 hr0
      split at hw
      · cases hw; exact stale_same s _ st h rfl rfl
      · rename_i hc
        simp only [Option.some.injEq] at hw
        subst hw
        have hip : r0.ipos = none := by
          cases hh : r0.ipos with
          | none => rfl
          | some p => exact absurd (Or.inr (by simp [hh])) hc
        generalize (if s.opts.compress = true then env.enc b.data else b.data) = cbts
        have hb80 : b.data.length ≥ 80 := hi.queue b hbq
        obtain ⟨f1, f2, _, _, f5⟩ :=
          maybeRoll_facts { s with queue := q, datToWrite := s.datToWrite - b.data.length } cbts.length
        generalize maybeRoll { s with queue := q, datToWrite := s.datToWrite - b.data.length } cbts.length = s1 at *
        simp only at f1 f2 f5
        have hL : s1.maxidxfilepos = s.fs.idx.length := by rw [f5]; exact hi.pos ho
        generalize hfl : mkRecord (flagsOf s1.opts.compress r0.trusted) s1.maxdatfileidx b.data.length b.height s1.maxdatfilepos
          cbts.length b.txcount b.data = fl
        have hidx' : (writeRecord s1 b r0 cbts).fs.idx = s.fs.idx ++ fl := by
          unfold writeRecord; simp only [hfl, hL, f1, pwrite_at_end]
        intro k' hk r hh
        unfold writeRecord at hh
        simp only [f2, AL.get_set] at hh
        split at hh
        · rename_i e
          -- the key that is written now had an unwritten record: it is not stale
          obtain ⟨p', a1, _⟩ := h k' hk r0 (by rw [← e]; exact hr0)
          rw [hip] at a1; cases a1
        · obtain ⟨p', a1, a2⟩ := h k' hk r hh
          refine ⟨p', a1, ?_⟩
          rw [hidx', recAt_append_left _ _ _ (hi.ipos k' r p' hh a1).1]; exact a2

theorem writeAll_stale (env : Env) (st : List Key) : ∀ (f : Nat) (s : State), Stale s st → IdxInv s → s.isOpen = true →
    Stale (writeAll env f s) st := by
  intro f
  induction f with
  | zero => intro s h _ _; exact h
  | succ f ih =>
    intro s h hi ho
    unfold writeAll
    split
    · exact h
    · rename_i s' hw
      obtain ⟨a, b⟩ := writeOne_inv env s s' hi ho hw
      exact ih s' (writeOne_stale env s s' st h hi ho hw) a b

theorem flush_stale (env : Env) (s : State) (st : List Key) (h : Stale s st) (hi : IdxInv s) (ho : s.isOpen = true) :
    Stale (flush env s) st := writeAll_stale env st _ s h hi ho

theorem blockTrusted_stale (s : State) (st : List Key) (h : Stale s st) (hi : IdxInv s) (hash : Bytes) :
    Stale (blockTrusted s hash) st := by
  unfold blockTrusted
  simp only
  split
  · exact h
  · rename_i r0 hr0
    split
    · exact h
    · exact (setBlockFlag_stale s st h hi _ r0 _ hr0 (.inl rfl)).1

theorem blockInvalid_stale (s : State) (st : List Key) (h : Stale s st) (hi : IdxInv s) (hash : Bytes) :
    Stale (blockInvalid s hash).1 (if flagsInvalid s (keyOf hash) then keyOf hash :: st else st) := by
  unfold blockInvalid flagsInvalid
  simp only
  cases hr0 : AL.get s.index (keyOf hash) with
  | none => simp only [Bool.false_eq_true, ↓reduceIte]; exact h
  | some r0 =>
    simp only
    by_cases ht : r0.trusted = true
    · simp only [ht, Bool.not_true, Bool.false_and, Bool.false_eq_true, ↓reduceIte]; exact h
    · have htf : r0.trusted = false := by simpa using ht
      by_cases hn : r0.ipos.isNone = true
      · have hs : r0.ipos.isSome = false := by cases hh : r0.ipos <;> simp [hh] at hn ⊢
        simp only [htf, Bool.false_eq_true, ↓reduceIte, hn, hs, Bool.and_false]
        exact stale_delete s st h _ _
      · have hs : r0.ipos.isSome = true := by cases hh : r0.ipos <;> simp [hh] at hn ⊢
        simp only [htf, Bool.false_eq_true, ↓reduceIte, hn, hs, Bool.not_false, Bool.and_self]
        exact (setBlockFlag_stale s st h hi _ r0 _ hr0 (.inr rfl)).2 rfl hs

theorem blockGet_stale (env : Env) (s : State) (st : List Key) (h : Stale s st) (hash : Bytes) :
    Stale (blockGet env s hash).1 st := by
  unfold blockGet
  simp only
  split
  · exact h
  · rename_i r0 hr0
    split
    · exact stale_same s _ st h rfl rfl
    · split
      · exact h
      · split
        · exact h
        · split
          · exact h
          · split
            · exact h
            · generalize decodeStored env _ _ = ble
              obtain ⟨bl, err⟩ := ble
              simp only
              have h1 : Stale { s with index := AL.set s.index (keyOf hash) (if r0.olen = 0 then ({ r0 with olen := bl.length } : Rec) else r0) } st :=
                stale_update s _ st h (keyOf hash) r0 (if r0.olen = 0 then ({ r0 with olen := bl.length } : Rec) else r0) hr0
                  (fun k' => by simp only [AL.get_set]) rfl (by split <;> rfl)
              split <;> exact addToCache_stale _ st h1 _ _

theorem blockLength_stale (env : Env) (s : State) (st : List Key) (h : Stale s st) (hash : Bytes) (d : Bool) :
    Stale (blockLength env s hash d).1 st := by
  unfold blockLength
  simp only
  split
  · exact h
  · split
    · exact h
    · split
      · exact h
      · have := blockGet_stale env s st h hash
        generalize blockGet env s hash = res at this ⊢
        obtain ⟨s', out⟩ := res
        cases out <;> exact this

theorem stale_filter (s : State) (st : List Key) (h : Stale s st) (k : Key) : Stale s (st.filter (fun k' => decide (k' ≠ k))) := by
  intro k' hk
  exact h k' (List.mem_filter.mp hk).1

theorem blockAdd_stale (env : Env) (s : State) (st : List Key) (h : Stale s st) (hi : IdxInv s) (ho : s.isOpen = true)
    (hash : Bytes) (ht tx : Nat) (tr : Bool) (raw : Bytes) (hraw : raw.length ≥ 80) :
    Stale (blockAdd env s hash ht tx tr raw) (st.filter (fun k => decide (k ≠ keyOf hash))) := by
  have hf := stale_filter s st h (keyOf hash)
  unfold blockAdd
  simp only
  split
  · generalize hs1 : ({ s with index := AL.set s.index (keyOf hash) { ipos := none, trusted := tr, olen := raw.length, seq := s.nextSeq } } : State) = s1
    have e_q : s1.queue = s.queue := by rw [← hs1]
    have e_fs : s1.fs = s.fs := by rw [← hs1]
    have e_open : s1.isOpen = s.isOpen := by rw [← hs1]
    have e_mx : s1.maxidxfilepos = s.maxidxfilepos := by rw [← hs1]
    have e_idx : s1.index = AL.set s.index (keyOf hash) { ipos := none, trusted := tr, olen := raw.length, seq := s.nextSeq } := by rw [← hs1]
    have t1 : Stale s1 (st.filter (fun k => decide (k ≠ keyOf hash))) := by
      intro k' hk r hh
      rw [e_idx, AL.get_set] at hh
      rw [e_fs]
      split at hh
      · rename_i e
        have := (List.mem_filter.mp hk).2
        simp only [ne_eq, decide_not, Bool.not_eq_eq_eq_not, Bool.not_true, decide_eq_false_iff_not] at this
        exact absurd e.symm this
      · exact hf k' hk r hh
    have i1 : IdxInv s1 := ⟨by rw [e_fs]; exact hi.len_mod, by rw [e_open, e_mx, e_fs]; exact hi.pos, by
      intro k r p; rw [e_idx, e_fs]; simp only [AL.get_set]
      split
      · intro a b; simp only [Option.some.injEq] at a; subst a; cases b
      · exact hi.ipos k r p, by rw [e_q]; exact hi.queue⟩
    obtain ⟨_, _, _, _, g5, _⟩ := addToCache_fields s1 (keyOf hash) raw
    obtain ⟨c1, _⟩ := addToCache_inv s1 (keyOf hash) raw i1
    have t2 := addToCache_stale s1 _ t1 (keyOf hash) raw
    generalize hs2 : addToCache s1 (keyOf hash) raw = s2 at *
    have t3 : Stale { s2 with datToWrite := s2.datToWrite + raw.length, nextSeq := s2.nextSeq + 1, queue := s2.queue ++ [{ data := raw, idx := keyOf hash, height := ht, txcount := tx % 2^32, seq := s2.nextSeq }] } (st.filter (fun k => decide (k ≠ keyOf hash))) :=
      stale_same s2 _ _ t2 rfl rfl
    split
    · refine flush_stale env _ _ t3 ?_ (by simp only; rw [g5, e_open]; exact ho)
      refine ⟨c1.len_mod, c1.pos, c1.ipos, ?_⟩
      intro b hb
      simp only [List.mem_append, List.mem_singleton] at hb
      rcases hb with hb | hb
      · exact c1.queue b hb
      · subst hb; exact hraw
    · exact t3
  · rename_i r0 hr0
    split
    · split
      · exact stale_update s _ _ hf (keyOf hash) r0 { r0 with trusted := true } hr0 (fun k' => by simp only [AL.get_set]) rfl rfl
      · exact blockTrusted_stale s _ hf hi hash
    · exact hf

/-- close + reopen: a key whose record is flagged invalid on disk is not in the rebuilt index at all -/
theorem reopen_stale (env : Env) (hadv : env.advInvalid = true) (s : State) (sp : Spec) (n : Nat) (st : List Key) (h : Stale s st)
    (hD : Disk env s sp n) (hI : IdxInv s) (hn : n < 2^31) (o : Opts) : Stale (reopen env s.fs o).1 st := by
  have L := load_linv env hadv s sp n hD hI hn
  obtain ⟨e1, _⟩ := reopen_state env s.fs o
  intro k hk r hh
  rw [e1] at hh
  obtain ⟨r0, p0, _, a2, a3, a4, _⟩ := L.l1 k r hh
  obtain ⟨p', b1, b2⟩ := h k hk r0 a2
  rw [a3] at b1; simp only [Option.some.injEq] at b1; subst b1
  rw [a4] at b2; cases b2

theorem step_stale (env : Env) (hadv : env.advInvalid = true) (s : State) (sp : Spec) (n : Nat) (st : List Key) (h : Stale s st)
    (hC : Core env s sp n) (op : Op) (hn : n < 2^31) : Stale (step env s op).1 (staleStep s st op) := by
  have hI := hC.inv
  unfold step staleStep
  cases op with
  | reopen o =>
    simp only
    by_cases ho : s.isOpen = true
    · simp only [ho, Bool.not_true, Bool.false_eq_true, ↓reduceIte]; exact h
    · simp only [ho, Bool.not_false, ↓reduceIte]
      exact reopen_stale env hadv s sp n st h hC.disk hI hn o
  | add hash ht tx tr raw =>
    simp only
    by_cases ho : s.isOpen = true
    · simp only [ho, Bool.not_true, Bool.false_eq_true, ↓reduceIte]
      by_cases hl : raw.length < 80
      · simp only [hl, ↓reduceIte]; exact h
      · simp only [hl, ↓reduceIte]
        exact blockAdd_stale env s st h hI ho hash ht tx tr raw (by omega)
    · simp only [ho, Bool.not_false, ↓reduceIte]; exact h
  | get hash =>
    simp only
    by_cases ho : s.isOpen = true
    · simp only [ho, Bool.not_true, Bool.false_eq_true, ↓reduceIte]; exact blockGet_stale env s st h hash
    · simp only [ho, Bool.not_false, ↓reduceIte]; exact h
  | length hash d =>
    simp only
    by_cases ho : s.isOpen = true
    · simp only [ho, Bool.not_true, Bool.false_eq_true, ↓reduceIte]; exact blockLength_stale env s st h hash d
    · simp only [ho, Bool.not_false, ↓reduceIte]; exact h
  | trusted hash =>
    simp only
    by_cases ho : s.isOpen = true
    · simp only [ho, Bool.not_true, Bool.false_eq_true, ↓reduceIte]; exact blockTrusted_stale s st h hI hash
    · simp only [ho, Bool.not_false, ↓reduceIte]; exact h
  | invalid hash =>
    simp only
    by_cases ho : s.isOpen = true
    · simp only [ho, Bool.not_true, Bool.false_eq_true, ↓reduceIte]; exact blockInvalid_stale s st h hI hash
    · simp only [ho, Bool.not_false, ↓reduceIte]; exact h
  | idle =>
    simp only
    by_cases ho : s.isOpen = true
    · simp only [ho, Bool.not_true, Bool.false_eq_true, ↓reduceIte]; exact flush_stale env s st h hI ho
    · simp only [ho, Bool.not_false, ↓reduceIte]; exact h
  | close =>
    simp only
    by_cases ho : s.isOpen = true
    · simp only [ho, Bool.not_true, Bool.false_eq_true, ↓reduceIte]
      exact stale_same _ _ st (flush_stale env s st h hI ho) rfl rfl
    · simp only [ho, Bool.not_false, ↓reduceIte]; exact h

theorem run_stale (env : Env) (hadv : env.advInvalid = true) : ∀ (ops : List Op) (s : State) (sp : Spec) (n : Nat) (st : List Key),
    Stale s st → Core env s sp n → (∀ op ∈ ops, Op.wf env op) → n + ops.length < 2^31 →
    Stale (run env s ops).1 (staleFinal env s st ops) := by
  intro ops
  induction ops with
  | nil => intro s sp n st h _ _ _; exact h
  | cons op ops ih =>
    intro s sp n st h hC hwf hn
    simp only [List.length_cons] at hn
    have w1 := hwf op (by simp)
    have h1 := step_stale env hadv s sp n st h hC op (by omega)
    have hC1 := step_core env hadv s sp n hC op w1 (by omega)
    unfold run staleFinal
    exact ih _ _ (n + 1) _ h1 hC1 (fun op' hop' => hwf op' (by simp [hop'])) (by omega)

/-- the restart of a closed store lists no key of the ghost list -/
theorem reopen_lists_no_stale (env : Env) (s : State) (sp : Spec) (n : Nat) (st : List Key) (h : Stale s st)
    (hC : Core env s sp n) (o : Opts) :
    ∀ ws, (reopen env s.fs o).2 = .walk ws → ∀ w ∈ ws, keyOf w.hash ∉ st := by
  intro ws hws w hwm hk
  have hD := hC.disk
  have hm := hC.inv.len_mod
  rw [reopen_walk] at hws
  simp only [Out.walk.injEq] at hws
  subst hws
  rw [chunks_eq _ _ (by omega)] at hwm
  simp only [List.mem_map, List.mem_filter, List.mem_range, Bool.not_eq_eq_eq_not, Bool.not_true] at hwm
  obtain ⟨c, ⟨⟨i, hi, rfl⟩, hv⟩, rfl⟩ := hwm
  obtain ⟨r, b1, b2⟩ := hD.disk (136 * i) (by omega) (by omega) hv
  obtain ⟨p', c1, c2⟩ := h _ hk r b1
  rw [b2] at c1; simp only [Option.some.injEq] at c1; subst c1
  rw [hv] at c2; cases c2

end GocoinV.BlockDB
