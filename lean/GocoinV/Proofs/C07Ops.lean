/-
  Proofs.C07Ops — every operation of Model/Persist.lean keeps the invariant `InvQ` (Proofs/C07Node.lean),
  in particular every PREFIX of the effect list it emits leaves a directory satisfying `DiskInv`.
  Core Lean only.
-/
import GocoinV.Proofs.C07Node
namespace GocoinV.Proofs.C07
open GocoinV.Persist

local macro "rf[" n:term ", " id:term "]" : term => `(List.find? (fun (x : BRec) => x.id == $id) (Node.recs $n))

variable {c : Par} {s : St}

/-! ### UnspentDB.save, abort, hurry-up -/

theorem fullChunks_inv (t : BlockId) : ∀ (k : Nat) (s : St), InvQ c s → InvQ c (fullChunks s t k)
  | 0, _, h => h
  | k + 1, _, h => fullChunks_inv t k _ ((h.emit_nop _).emit_frame (.chunkTmp t) _ rfl)

theorem fullChunks_hasTmp (t : BlockId) (sn : Snap) : ∀ (k : Nat) (s : St), hasTmp s.d sn → hasTmp (fullChunks s t k).d sn
  | 0, _, h => h
  | k + 1, s, h => fullChunks_hasTmp t sn k _ (apply_keeper _ (.chunkTmp t) sn rfl (apply_keeper s.d .nop sn rfl h))

theorem fullChunks_n (t : BlockId) (k : Nat) (s : St) : (fullChunks s t k).n = s.n := (fullChunks_es t k s).2

theorem finishSave_inv (h : InvQ c s) (sn : Snap) (ht : hasTmp s.d sn)
    (hsn : sn = ⟨s.n.tip, s.n.lastHeight, s.n.utxo⟩) : InvQ c (finishSave s sn) := by
  have h3 := ((h.emit_nop .saveFinito).emit_frame (.chunkTmp sn.tip) .fileChunk rfl).emit_frame (.flushTmp sn.tip) .fileClosed rfl
  have ht3 : hasTmp (((s.emit .nop .saveFinito).emit (.chunkTmp sn.tip) .fileChunk).emit (.flushTmp sn.tip) .fileClosed).d sn :=
    apply_keeper _ (.flushTmp sn.tip) sn rfl (apply_keeper _ (.chunkTmp sn.tip) sn rfl (apply_keeper s.d .nop sn rfl ht))
  exact h3.emit_renameTmpDb_finish sn .fileRenamed ht3 hsn

theorem startSave_inv (h : InvQ c s) (hurry : Bool) (hP : c.P ⟨s.n.tip, s.n.lastHeight, s.n.utxo⟩)
    (htip : s.n.tip = 0 ∨ s.n.tip ∈ ids s.d) : InvQ c (startSave s hurry) := by
  unfold startSave
  split
  · exact h
  · rename_i hs
    have hs' : s.n.saving = none := by
      cases hx : s.n.saving with
      | none => rfl
      | some v => simp [hx] at hs
    have h2 := (h.emit_nop .saveBegin).emit_frame .renameDbOld .saveRenamedOld rfl
    have hi2 : ids ((s.emit .nop .saveBegin).emit .renameDbOld .saveRenamedOld).d = ids s.d :=
      ids_apply _ .renameDbOld (by intro r hr; cases hr)
    have ok : GoodSnap c.P ((s.emit .nop .saveBegin).emit .renameDbOld .saveRenamedOld).d ⟨s.n.tip, s.n.lastHeight, s.n.utxo⟩ :=
      ⟨hP, by rw [hi2]; exact htip⟩
    have h3 := h2.emit_createTmp ⟨s.n.tip, s.n.lastHeight, s.n.utxo⟩ .fileCreated hs' ok
    have ht3 := hasTmp_create ((s.emit .nop .saveBegin).emit .renameDbOld .saveRenamedOld).d ⟨s.n.tip, s.n.lastHeight, s.n.utxo⟩
    simp only []
    split
    · have h5 := (h3.emit_nop .saveChunk).emit_frame (.chunkTmp s.n.tip) .fileChunk rfl
      exact h5.setSaving ⟨s.n.tip, s.n.lastHeight, s.n.utxo⟩ _
        (apply_keeper _ (.chunkTmp s.n.tip) _ rfl (apply_keeper _ .nop _ rfl ht3)) rfl
    · exact finishSave_inv (fullChunks_inv _ _ _ h3) _ (fullChunks_hasTmp _ _ _ _ ht3) (by rw [fullChunks_n]; rfl)

theorem abortSave_inv (h : InvQ c s) : InvQ c (abortSave s) := by
  unfold abortSave
  split
  · exact h
  · exact ((h.emit_nop .saveFinito).emit_nop .fileAbortClosed).emit_removeTmp_clear _ .fileAbortRemoved

theorem abortSave_saving (s : St) : (abortSave s).n.saving = none := by
  unfold abortSave
  split
  · assumption
  · rfl

theorem abortSave_dirty (s : St) : (abortSave s).n.dirty = s.n.dirty := by
  unfold abortSave
  split <;> rfl

theorem abortSave_err (s : St) : (abortSave s).err = s.err := by
  unfold abortSave
  split <;> rfl

theorem hurrySave_inv (h : InvQ c s) : InvQ c (hurrySave s) := by
  unfold hurrySave
  split
  · exact h
  · rename_i sn rest heq
    obtain ⟨hsn, ht⟩ := h.snap.savingOK sn rest heq
    exact finishSave_inv (fullChunks_inv _ _ _ h) sn (fullChunks_hasTmp _ _ _ _ ht) (by rw [fullChunks_n]; exact hsn)

/-! ### CommitBlockTxs, UndoBlockTxs -/

theorem commitBlockTxs_inv (h : InvQ c s) (b : Block) :
    InvQ c (commitBlockTxs s b) ∧ (commitBlockTxs s b).n.saving = none ∧ (commitBlockTxs s b).n.dirty = true := by
  have h0 := abortSave_inv h
  have hs0 := abortSave_saving s
  have h4 := (((h0.emit_nop .undoBeforeWrite).emit_frame (.writeUndoTmp { blk := b.id, coins := b.spends }) .undoTmpWritten rfl).emit_frame
    (.renameUndoTmp b.height) .undoRenamed rfl).emit_nop .beforeCommit
  have h5 := (h4.emit_nop .afterCommit).setUtxoDirty hs0 (commitU (abortSave s).n.utxo b) b.height
  exact ⟨h5, hs0, rfl⟩

theorem blockData_mem {s : St} {id : BlockId} {b : Block} (h : blockData s id = some b) :
    (b ∈ s.n.mem ∨ b ∈ s.d.dat) ∧ b.id = id := by
  unfold blockData at h
  split at h
  · rename_i x hx
    cases h
    exact ⟨Or.inl (List.mem_of_find?_eq_some hx), by simpa using List.find?_some hx⟩
  · exact ⟨Or.inr (List.mem_of_find?_eq_some h), by simpa using List.find?_some h⟩

/-- the parent of a block whose data the node can read has a record (or is genesis) -/
theorem parent_has_rec (h : InvQ c s) {id : BlockId} {b : Block} (hb : blockData s id = some b) :
    b.parent = 0 ∨ (rf[s.n, b.parent]).isSome := by
  rcases (blockData_mem hb).1 with hm | hd
  · exact h.node.memParent b hm
  · exact (h.disk.datParent b hd).imp (fun x => x) (h.node.idxRec _)

theorem undoLastBlock_inv (h : InvQ c s) : InvQ c (undoLastBlock s) := by
  unfold undoLastBlock
  split
  · exact h
  · split
    · exact h.fail _
    · rename_i b hb
      have hp := parent_has_rec h hb
      have h1 := abortSave_inv (h.emit_nop .undoBeforeUtxo)
      have hs1 := abortSave_saving (s.emit .nop .undoBeforeUtxo)
      simp only []
      split
      · exact h1.fail _
      · rename_i uf _
        have h2 := (h1.setForeign ((abortSave (s.emit .nop .undoBeforeUtxo)).foreign || uf.blk != (abortSave (s.emit .nop .undoBeforeUtxo)).n.tip)).setUtxoDirty hs1
          (undoU (abortSave (s.emit .nop .undoBeforeUtxo)).n.utxo b uf.coins)
          ((abortSave (s.emit .nop .undoBeforeUtxo)).n.lastHeight - 1)
        have h3 := h2.emit_nop .undoAfterUtxo
        have hrecs : (abortSave (s.emit .nop .undoBeforeUtxo)).n.recs = s.n.recs := by
          unfold abortSave; split <;> rfl
        refine h3.setTip hs1 rfl b.parent (b.height - 1) ?_
        show b.parent = 0 ∨ (List.find? (fun (x : BRec) => x.id == b.parent) (abortSave (s.emit .nop .undoBeforeUtxo)).n.recs).isSome
        rw [hrecs]; exact hp

theorem undoN_inv : ∀ (k : Nat) (s : St), InvQ c s → InvQ c (undoN s k)
  | 0, _, h => h
  | k + 1, _, h => undoN_inv k _ (undoLastBlock_inv h)

theorem blockTrusted_inv (h : InvQ c s) (id : BlockId) : InvQ c (blockTrusted s id) := by
  unfold blockTrusted
  split
  · exact h
  · simp only []
    have h1 := h.emit_nop .flagBefore
    refine (h1.emit_frame _ .flagAfter ?_).setTrustedRec id
    split
    · split <;> rfl
    · rfl

theorem blockTrusted_sd (s : St) (id : BlockId) :
    (blockTrusted s id).n.saving = s.n.saving ∧ (blockTrusted s id).n.dirty = s.n.dirty := by
  unfold blockTrusted
  split
  · exact ⟨rfl, rfl⟩
  · exact ⟨rfl, rfl⟩

/-- ParseTillBlock over a path all of whose ids are ghost ids (they keep a record) -/
theorem parsePath_inv : ∀ (p : List BlockId) (s : St), InvQ c s → (∀ id ∈ p, id ∈ c.T) → InvQ c (parsePath s p)
  | [], _, h, _ => h
  | id :: rest, s, h, hT => by
    unfold parsePath
    split
    · exact h
    · split
      · exact h.fail _
      · rename_i b hb
        split
        · exact h.fail _
        · have h1 := (blockTrusted_inv h id).emit_nop .parseBeforeUtxo
          obtain ⟨h2, hs2, hd2⟩ := commitBlockTxs_inv h1 b
          have h3 := h2.emit_nop .parseAfterUtxo
          have h4 := h3.setTip hs2 hd2 id b.height (h3.node.ghost id (hT id (by simp)))
          exact parsePath_inv rest _ h4 (fun x hx => hT x (by simp [hx]))

/-! ### the path MoveToBlock walks -/

theorem pathUp_ok {n : Node} (hpar : ∀ t ∈ n.tree, t.parent = 0 ∨ (rf[n, t.parent]).isSome) :
    ∀ (fuel : Nat) (a b : BlockId) (acc p : List BlockId),
      (b = 0 ∨ (rf[n, b]).isSome) → (∀ id ∈ acc, id = 0 ∨ (rf[n, id]).isSome) →
      pathUp n fuel a b acc = some p → ∀ id ∈ p, id = 0 ∨ (rf[n, id]).isSome
  | 0, _, _, _, _, _, _, h => by simp [pathUp] at h
  | fuel + 1, a, b, acc, p, hb, hacc, h => by
    unfold pathUp at h
    split at h
    · cases h; exact hacc
    · split at h
      · cases h
      · refine pathUp_ok hpar fuel a (parentOf n b) (b :: acc) p ?_ ?_ h
        · unfold parentOf
          split
          · rename_i t ht
            exact hpar t (List.mem_of_find?_eq_some ht)
          · exact Or.inl rfl
        · intro id hid
          rcases List.mem_cons.1 hid with hid | hid
          · subst hid; exact hb
          · exact hacc id hid

theorem moveToBlock_inv (h : InvQ c s) (dst : BlockId) (hdst : dst = 0 ∨ (rf[s.n, dst]).isSome) :
    InvQ c (moveToBlock s dst) := by
  -- remember dst as a ghost id while the old branch is undone
  have hg : InvQ { c with T := dst :: c.T } s :=
    h.ghostSet (dst :: c.T) (by
      intro id hid
      rcases List.mem_cons.1 hid with hid | hid
      · subst hid; exact hdst
      · exact h.node.ghost id hid)
  have back : ∀ {T' : List BlockId} {s' : St}, InvQ { c with T := T' } s' → (∀ id ∈ c.T, id ∈ T') → InvQ c s' := by
    intro T' s' h' hsub
    exact ⟨h'.hist, h'.pref, { h'.node with ghost := fun id hid => h'.node.ghost id (hsub id hid) }, h'.snap, h'.qeq⟩
  unfold moveToBlock
  simp only []
  have h1 := undoN_inv (s.n.tipHeight - (heightOf s.n (firstFather s.n (2 * fuelOf s.n) s.n.tip dst)).getD 0) s hg
  split
  · exact back h1 (fun id hid => List.mem_cons_of_mem _ hid)
  · have h2 := h1.emit_nop .moveUndone
    split
    · exact back (h2.fail _) (fun id hid => List.mem_cons_of_mem _ hid)
    · rename_i p hp
      have hpok := pathUp_ok h2.node.treePar _ _ _ _ _ (h2.node.ghost dst (by simp)) (by intro id hid; cases hid) hp
      have h3 : InvQ { c with T := p ++ c.T } _ := (back h2 (fun id hid => List.mem_cons_of_mem _ hid)).ghostSet (p ++ c.T) (by
        intro id hid
        rcases List.mem_append.1 hid with hid | hid
        · exact hpok id hid
        · exact h2.node.ghost id (List.mem_cons_of_mem _ hid))
      have h4 := parsePath_inv p _ h3 (fun id hid => List.mem_append_left _ hid)
      split
      · exact back h4 (fun id hid => List.mem_append_right _ hid)
      · exact back (h4.emit_nop .moveDone) (fun id hid => List.mem_append_right _ hid)

/-! ### BlockDB.BlockAdd, Chain.CommitBlock, AcceptBlock -/

theorem blockAdd_frame (n : Node) (b : Block) (t : Bool) :
    (blockAdd n b t).tip = n.tip ∧ (blockAdd n b t).utxo = n.utxo ∧ (blockAdd n b t).lastHeight = n.lastHeight ∧
    (blockAdd n b t).dirty = n.dirty ∧ (blockAdd n b t).saving = n.saving ∧ (blockAdd n b t).tree = n.tree := by
  unfold blockAdd
  split
  · exact ⟨rfl, rfl, rfl, rfl, rfl, rfl⟩
  · split <;> exact ⟨rfl, rfl, rfl, rfl, rfl, rfl⟩

theorem find_append_one (l : List BRec) (nr : BRec) (id : BlockId) :
    List.find? (fun (x : BRec) => x.id == id) (l ++ [nr]) =
      (List.find? (fun (x : BRec) => x.id == id) l).or (if nr.id == id then some nr else none) := by
  rw [List.find?_append]
  congr 1
  simp only [List.find?_cons, List.find?_nil]
  split <;> simp_all

variable {P : Snap → Prop} {base : Disk} {X : BlockId → Prop} {T : List BlockId} {Q : List Block}

/-- BlockAdd of a block whose parent has a record: afterwards the block itself has one (ghost id), every tree node
    has one, and a new block sits at the end of the write queue -/
theorem blockAdd_step (h : InvQ ⟨P, base, X, T, Q, Q⟩ s) (b : Block) (t : Bool)
    (hp : b.parent = 0 ∨ (rf[s.n, b.parent]).isSome) (hX : ∀ i, X i → i = 0 ∨ i = b.id) :
    ∃ q, InvQ ⟨P, base, (· = 0), b.id :: T, q, q⟩ { s with n := blockAdd s.n b t } := by
  obtain ⟨f1, f2, f3, f4, f5, f6⟩ := blockAdd_frame s.n b t
  have hsnap : SnapInv (blockAdd s.n b t) s.d := by
    refine ⟨?_, ?_⟩
    · rw [f1, f2, f3, f5]; exact h.snap.savingOK
    · rw [f1, f2, f3, f4]; exact h.snap.cleanOK
  have hn : NodeInv s.n (ids s.d) Q X T := h.node
  have hqe : s.n.queue = Q := h.qeq
  cases hfind : List.find? (fun (x : BRec) => x.id == b.id) s.n.recs with
  | some r =>
    -- known record: at most the trusted flag changes
    have hsome : (rf[s.n, b.id]).isSome := by rw [hfind]; rfl
    have narrow : ∀ t ∈ s.n.tree, t.id = 0 ∨ (rf[s.n, t.id]).isSome := by
      intro t ht
      rcases hn.treeRec t ht with hx | hx
      · rcases hX _ hx with h0 | h0
        · exact Or.inl h0
        · rw [h0]; exact Or.inr hsome
      · exact Or.inr hx
    have ghost' : ∀ id ∈ b.id :: T, id = 0 ∨ (rf[s.n, id]).isSome := by
      intro id hid
      rcases List.mem_cons.1 hid with hid | hid
      · subst hid; exact Or.inr hsome
      · exact hn.ghost id hid
    have hn' : NodeInv s.n (ids s.d) Q (· = 0) (b.id :: T) :=
      ⟨hn.recDisk, hn.recQueue, hn.queueRec, hn.idxRec, hn.tipRec, narrow, hn.treePar, hn.memParent, ghost', hn.queueOK⟩
    refine ⟨Q, h.hist, h.pref, ?_, hsnap, ?_⟩
    · show NodeInv (blockAdd s.n b t) (ids s.d) Q _ _
      unfold blockAdd
      simp only [hfind]
      split
      · exact hn'.mapRecs _ (by intro x; split <;> rfl) (by intro x; split <;> rfl)
      · exact hn'
    · show (blockAdd s.n b t).queue = Q
      unfold blockAdd
      simp only [hfind]
      split <;> exact hqe
  | none =>
    have key : ∀ id, List.find? (fun (x : BRec) => x.id == id) (s.n.recs ++ [⟨b.id, t, false⟩]) =
        (rf[s.n, id]).or (if b.id == id then some ⟨b.id, t, false⟩ else none) := fun id => find_append_one _ _ id
    have up : ∀ id, (rf[s.n, id]).isSome →
        (List.find? (fun (x : BRec) => x.id == id) (s.n.recs ++ [⟨b.id, t, false⟩])).isSome := by
      intro id hid; rw [key]; cases hx : rf[s.n, id] <;> simp_all
    have hnew : (List.find? (fun (x : BRec) => x.id == b.id) (s.n.recs ++ [⟨b.id, t, false⟩])).isSome := by
      rw [key, hfind]; simp
    have split2 : ∀ id r, List.find? (fun (x : BRec) => x.id == id) (s.n.recs ++ [⟨b.id, t, false⟩]) = some r →
        rf[s.n, id] = some r ∨ (r.onDisk = false ∧ id = b.id) := by
      intro id r hr
      rw [key] at hr
      cases hx : rf[s.n, id] with
      | some r0 => rw [hx] at hr; simp at hr; left; rw [hr]
      | none =>
        rw [hx] at hr
        simp only [Option.none_or] at hr
        split at hr
        · rename_i he; cases hr; exact Or.inr ⟨rfl, (by simpa using he : b.id = id).symm⟩
        · cases hr
    refine ⟨Q ++ [b], h.hist, h.pref, ?_, hsnap, ?_⟩
    · show NodeInv (blockAdd s.n b t) (ids s.d) (Q ++ [b]) _ _
      unfold blockAdd
      simp only [hfind]
      constructor
      · intro id r hr ho
        rcases split2 id r hr with h1 | ⟨h1, _⟩
        · exact hn.recDisk id r h1 ho
        · rw [h1] at ho; cases ho
      · intro id r hr ho
        rcases split2 id r hr with h1 | ⟨_, h1⟩
        · obtain ⟨x, hx, e⟩ := hn.recQueue id r h1 ho
          exact ⟨x, List.mem_append_left _ hx, e⟩
        · exact ⟨b, by simp, h1.symm⟩
      · intro x hx
        rcases List.mem_append.1 hx with hx | hx
        · exact up _ (hn.queueRec x hx)
        · simp only [List.mem_singleton] at hx; subst hx; exact hnew
      · intro id hid; exact up _ (hn.idxRec id hid)
      · exact hn.tipRec.imp (fun x => x) (up _)
      · intro x hx
        rcases hn.treeRec x hx with h1 | h1
        · rcases hX _ h1 with h0 | h0
          · exact Or.inl h0
          · rw [h0]; exact Or.inr hnew
        · exact Or.inr (up _ h1)
      · intro x hx; exact (hn.treePar x hx).imp (fun x => x) (up _)
      · intro x hx
        have hx' : x ∈ s.n.mem ∨ x = b := by
          split at hx
          · exact Or.inl hx
          · rcases List.mem_append.1 hx with hx | hx
            · exact Or.inl hx
            · exact Or.inr (by simpa using hx)
        rcases hx' with hx' | hx'
        · exact (hn.memParent x hx').imp (fun x => x) (up _)
        · subst hx'; exact hp.imp (fun x => x) (up _)
      · intro id hid
        rcases List.mem_cons.1 hid with hid | hid
        · subst hid; exact Or.inr hnew
        · exact (hn.ghost id hid).imp (fun x => x) (up _)
      · refine hn.queueOK.append ?_
        rcases hp with hp | hp
        · exact Or.inl hp
        · cases hr : rf[s.n, b.parent] with
          | none => rw [hr] at hp; cases hp
          | some r =>
            cases ho : r.onDisk with
            | true => exact Or.inr (Or.inl (hn.recDisk _ r hr ho))
            | false => exact Or.inr (Or.inr (hn.recQueue _ r hr ho))
    · show (blockAdd s.n b t).queue = Q ++ [b]
      unfold blockAdd
      simp only [hfind, hqe]

end GocoinV.Proofs.C07
