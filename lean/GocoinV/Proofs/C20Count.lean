/-
  Proofs.C20Count — the accounting counters of the allocator equal the counted values:
  freeSlots[class] = Σ header.free over the class's pages, SharedMmaps = number of mapped shared pages,
  PrivateMmaps = number of private mappings, Bytes = pageSize · (shared pages) + Σ private mapping sizes
  (`Cnt`), preserved by every transition of Model/Alloc.lean.
-/
import GocoinV.Proofs.C20Once
namespace GocoinV.Alloc
open GocoinV.Gen.MemClasses
variable {V : Type}

/-! ### sum of the values of a finite map -/

def KMap.total {κ : Type} [BEq κ] [Hashable κ] (m : KMap κ Nat) : Nat := (m.m.toList.map Prod.snd).sum

theorem KMap.total_empty {κ : Type} [BEq κ] [Hashable κ] : (KMap.empty : KMap κ Nat).total = 0 := by
  simp [KMap.total, KMap.empty]

theorem KMap.total_set_fresh {κ : Type} [BEq κ] [Hashable κ] [LawfulBEq κ] [LawfulHashable κ]
    (m : KMap κ Nat) (k : κ) (v : Nat) (h : m.get? k = none) : (m.set k v).total = m.total + v := by
  simp only [KMap.total, KMap.set]
  have p := Std.HashMap.toList_insert_perm (m := m.m) (k := k) (v := v)
  have hf : List.filter (fun x => decide ¬(k == x.fst) = true) m.m.toList = m.m.toList := by
    rw [List.filter_eq_self]
    intro a ha
    have : m.m[a.1]? = some a.2 := Std.HashMap.mem_toList_iff_getElem?_eq_some.1 ha
    simp only [decide_eq_true_eq]
    intro hk
    have hk' : k = a.1 := by simpa using hk
    rw [← hk'] at this
    simp only [KMap.get?] at h
    rw [h] at this; cases this
  rw [hf] at p
  rw [List.Perm.sum_nat (p.map Prod.snd)]
  simp only [List.map_cons, List.sum_cons]
  omega

theorem KMap.total_del {κ : Type} [BEq κ] [Hashable κ] [LawfulBEq κ] [LawfulHashable κ] [DecidableEq κ]
    (m : KMap κ Nat) (k : κ) (v : Nat) (h : m.get? k = some v) : (m.del k).total + v = m.total := by
  have e : ((m.del k).set k v).m.Equiv m.m := by
    apply Std.HashMap.Equiv.of_forall_getElem?_eq
    intro a
    have := KMap.get?_set (m.del k) k a v
    simp only [KMap.get?] at this h
    rw [this]
    split
    · next e => subst e; exact h.symm
    · next e =>
      have := KMap.get?_del m k a
      simp only [KMap.get?] at this
      rw [this, if_neg e]
  have hp := List.Perm.sum_nat (e.toList_perm.map Prod.snd)
  have hf := KMap.total_set_fresh (m.del k) k v (by rw [KMap.get?_del, if_pos rfl])
  simp only [KMap.total] at hf hp ⊢
  omega

/-! ### sums over the page list of a class -/

theorem sum_map_congr {l : List Nat} {f f' : Nat → Int} (h : ∀ q, q ∈ l → f' q = f q) :
    (l.map f').sum = (l.map f).sum := by
  rw [List.map_congr_left h]

theorem sum_map_update {f f' : Nat → Int} {p : Nat} : ∀ {l : List Nat}, l.Nodup → p ∈ l →
    (∀ q, q ∈ l → q ≠ p → f' q = f q) → (l.map f').sum = (l.map f).sum + (f' p - f p) := by
  intro l
  induction l with
  | nil => intro _ hp; cases hp
  | cons x xs ih =>
    intro nd hp hf
    have ndc := List.nodup_cons.1 nd
    simp only [List.map_cons, List.sum_cons]
    by_cases e : x = p
    · subst e
      have : (xs.map f').sum = (xs.map f).sum :=
        sum_map_congr (fun q hq => hf q (List.mem_cons_of_mem _ hq) (by intro e; subst e; exact ndc.1 hq))
      omega
    · have hxs : p ∈ xs := by
        rcases List.mem_cons.1 hp with e' | e'
        · exact absurd e'.symm e
        · exact e'
      have := ih ndc.2 hxs (fun q hq hne => hf q (List.mem_cons_of_mem _ hq) hne)
      have hx := hf x (by simp) e
      omega

theorem sum_map_erase {f : Nat → Int} {p : Nat} : ∀ {l : List Nat}, l.Nodup → p ∈ l →
    ((l.erase p).map f).sum = (l.map f).sum - f p := by
  intro l
  induction l with
  | nil => intro _ hp; cases hp
  | cons x xs ih =>
    intro nd hp
    have ndc := List.nodup_cons.1 nd
    by_cases e : x = p
    · subst e; simp only [List.erase_cons_head, List.map_cons, List.sum_cons]; omega
    · have hxs : p ∈ xs := by
        rcases List.mem_cons.1 hp with e' | e'
        · exact absurd e'.symm e
        · exact e'
      rw [List.erase_cons_tail (by simpa using e)]
      simp only [List.map_cons, List.sum_cons]
      have := ih ndc.2 hxs
      omega

/-! ### the counter invariant -/

def freeOf (s : State V) (p : Nat) : Int := match s.pages.get? p with | some h => (h.free : Int) | none => 0

theorem freeOf_eq {s s' : State V} {p : Nat} (h : s'.pages.get? p = s.pages.get? p) : freeOf s' p = freeOf s p := by
  simp only [freeOf, h]
theorem freeOf_some {s : State V} {p : Nat} {h : Page} (hp : s.pages.get? p = some h) : freeOf s p = h.free := by
  simp only [freeOf, hp]

structure Cnt (s : State V) : Prop where
  fs : ∀ c, ((s.K c).freeSlots : Int) = ((s.K c).plist.map (freeOf s)).sum
  sm : s.sharedMmaps = (s.pages.size : Int)
  pm : s.privMmaps = (s.privs.size : Int)
  byt : s.bytes = ((pageSize * s.pages.size + s.privs.total : Nat) : Int)

theorem init_cnt : Cnt (init : State V) := by
  refine ⟨?_, ?_, ?_, ?_⟩
  · intro c; simp [init, State.K]
  · simp [init]
  · simp [init]
  · simp [init, KMap.total_empty]

/-- transitions that touch neither pages, classes, private mappings nor the four counters -/
theorem Cnt.transfer {s s' : State V} (cn : Cnt s) (h1 : s'.pages = s.pages) (h2 : s'.cls = s.cls)
    (h3 : s'.privs = s.privs) (h4 : s'.bytes = s.bytes) (h5 : s'.sharedMmaps = s.sharedMmaps)
    (h6 : s'.privMmaps = s.privMmaps) : Cnt s' := by
  have hK : ∀ c, s'.K c = s.K c := by intro c; simp only [State.K, h2]
  have hf : ∀ p, freeOf s' p = freeOf s p := by intro p; simp only [freeOf, h1]
  refine ⟨?_, by rw [h5, h1]; exact cn.sm, by rw [h6, h3]; exact cn.pm, by rw [h4, h1, h3]; exact cn.byt⟩
  intro c; rw [hK, cn.fs c]; exact (sum_map_congr (fun q _ => hf q)).symm

/-- one page's `free` and its class's `freeSlots` change by the same amount d; nothing else changes -/
theorem cnt_page_update' {s s' : State V} (cn : Cnt s) {p : Nat} {h h' : Page}
    (hin : p ∈ (s.K h.cls).plist) (hnd : (s.K h.cls).plist.Nodup)
    (hcls : ∀ c q, q ∈ (s.K c).plist → ∃ h0, s.pages.get? q = some h0 ∧ h0.cls = c)
    (hp : s.pages.get? p = some h)
    (hpages : ∀ q, s'.pages.get? q = if p = q then some h' else s.pages.get? q)
    (hsize : s'.pages.size = s.pages.size)
    (hpl : ∀ c', (s'.K c').plist = (s.K c').plist)
    (hfs : ∀ c', c' ≠ h.cls → (s'.K c').freeSlots = (s.K c').freeSlots)
    (d : Int) (hd : (h'.free : Int) = h.free + d)
    (hfs' : ((s'.K h.cls).freeSlots : Int) = (s.K h.cls).freeSlots + d)
    (h3 : s'.privs = s.privs) (h4 : s'.bytes = s.bytes) (h5 : s'.sharedMmaps = s.sharedMmaps)
    (h6 : s'.privMmaps = s.privMmaps) : Cnt s' := by
  have hf : ∀ q, q ≠ p → freeOf s' q = freeOf s q := by
    intro q hq; exact freeOf_eq (by rw [hpages, if_neg (fun e => hq e.symm)])
  have hfp : freeOf s' p - freeOf s p = d := by
    rw [freeOf_some hp, freeOf_some (by rw [hpages, if_pos rfl])]; omega
  refine ⟨?_, by rw [h5, hsize]; exact cn.sm, by rw [h6, h3]; exact cn.pm, by rw [h4, hsize, h3]; exact cn.byt⟩
  intro c
  rw [hpl]
  by_cases e : c = h.cls
  · subst e
    rw [hfs', cn.fs h.cls, sum_map_update hnd hin (fun q _ hq => hf q hq), hfp]
  · rw [hfs c e, cn.fs c]
    refine (sum_map_congr ?_).symm
    intro q hq
    refine hf q ?_
    intro e2; subst e2
    obtain ⟨h0, a, b⟩ := hcls c q hq
    rw [hp] at a; cases a; exact e b.symm

theorem cnt_page_update {s s' : State V} (inv : InvG s) (cn : Cnt s) {p : Nat} {h h' : Page}
    (hp : s.pages.get? p = some h)
    (hpages : ∀ q, s'.pages.get? q = if p = q then some h' else s.pages.get? q)
    (hsize : s'.pages.size = s.pages.size)
    (hpl : ∀ c', (s'.K c').plist = (s.K c').plist)
    (hfs : ∀ c', c' ≠ h.cls → (s'.K c').freeSlots = (s.K c').freeSlots)
    (d : Int) (hd : (h'.free : Int) = h.free + d)
    (hfs' : ((s'.K h.cls).freeSlots : Int) = (s.K h.cls).freeSlots + d)
    (h3 : s'.privs = s.privs) (h4 : s'.bytes = s.bytes) (h5 : s'.sharedMmaps = s.sharedMmaps)
    (h6 : s'.privMmaps = s.privMmaps) : Cnt s' :=
  cnt_page_update' cn (inv.pages p h hp).in_plist (inv.classes h.cls).pl_nodup
    (fun c q hq => (inv.classes c).pl_pages q hq) hp hpages hsize hpl hfs d hd hfs' h3 h4 h5 h6

theorem sum_ge_mem {f : Nat → Int} {p : Nat} (hf : ∀ q, 0 ≤ f q) : ∀ {l : List Nat}, p ∈ l → f p ≤ (l.map f).sum := by
  intro l
  induction l with
  | nil => intro hp; cases hp
  | cons x xs ih =>
    intro hp
    simp only [List.map_cons, List.sum_cons]
    have hnn : 0 ≤ (xs.map f).sum := by
      clear ih hp
      induction xs with
      | nil => simp
      | cons y ys ih2 => simp only [List.map_cons, List.sum_cons]; have := hf y; omega
    rcases List.mem_cons.1 hp with e | e
    · subst e; omega
    · have := ih e; have := hf x; omega

theorem freeOf_nonneg (s : State V) (q : Nat) : 0 ≤ freeOf s q := by
  simp only [freeOf]; split <;> omega

theorem freeSlots_ge {s : State V} (inv : InvG s) (cn : Cnt s) {p : Nat} {h : Page}
    (hp : s.pages.get? p = some h) : (h.free : Int) ≤ (s.K h.cls).freeSlots := by
  rw [cn.fs, ← freeOf_some hp]
  exact sum_ge_mem (freeOf_nonneg s) (inv.pages p h hp).in_plist

theorem newPage_cnt {s : State V} (inv : InvG s) (cn : Cnt s) (c : Nat) : Cnt (newPage s c) := by
  have fresh : s.pages.get? s.nextPage = none := by
    cases hq : s.pages.get? s.nextPage with
    | none => rfl
    | some h => have := (inv.pages _ h hq).lt_next; omega
  have hsz : (newPage s c).pages.size = s.pages.size + 1 := by
    show (s.pages.set s.nextPage _).size = _
    rw [KMap.size_set, fresh]; rfl
  have hf : ∀ q, q ≠ s.nextPage → freeOf (newPage s c) q = freeOf s q := by
    intro q hq; exact freeOf_eq (by rw [newPage_pages, if_neg (fun e => hq e.symm)])
  have hold : ∀ c' q, q ∈ (s.K c').plist → q ≠ s.nextPage := by
    intro c' q hq e; subst e
    obtain ⟨h0, a, _⟩ := (inv.classes c').pl_pages _ hq
    rw [fresh] at a; cases a
  refine ⟨?_, ?_, cn.pm, ?_⟩
  · intro c'
    rw [newPage_K]
    split
    · next e =>
      subst e
      simp only [List.map_append, List.map_cons, List.map_nil, List.sum_append, List.sum_cons, List.sum_nil]
      rw [sum_map_congr (fun q hq => hf q (hold c q hq))]
      have : freeOf (newPage s c) s.nextPage = capOf c := by
        rw [freeOf_some (h := { cls := c, free := capOf c }) (by rw [newPage_pages, if_pos rfl])]
      have := cn.fs c
      omega
    · rw [cn.fs c']
      exact (sum_map_congr (fun q hq => hf q (hold c' q hq))).symm
  · show s.sharedMmaps + 1 = _
    rw [hsz, cn.sm]; omega
  · show s.bytes + pageSize = _
    rw [hsz, cn.byt, Nat.mul_add]
    show _ = ((pageSize * s.pages.size + pageSize * 1 + s.privs.total : Nat) : Int)
    omega

theorem allocSlot_cnt {s s' : State V} (inv : InvG s) (cn : Cnt s) {c p i : Nat} (hc : c < nClasses)
    (hr : allocSlot s c = .ok (s', p, i)) : Cnt s' := by
  unfold allocSlot at hr
  simp only [] at hr
  have common : ∀ (h h' : Page) (k' : ClassSt) (mem' : KMap Addr (SlotMem V)) (hh : Heap),
      s.pages.get? p = some h → h.cls = c → 1 ≤ h.free → h'.free = h.free - 1 →
      k'.plist = (s.K c).plist → k'.freeSlots = (s.K c).freeSlots - 1 →
      Cnt ({ s with pages := s.pages.set p h', cls := s.cls.set c k', mem := mem', heap := hh } : State V) := by
    intro h h' k' mem' hh hp hcl hfree hf' hpl hfs
    have hge := freeSlots_ge inv cn hp
    rw [hcl] at hge
    refine cnt_page_update inv cn hp (h' := h') (fun q => by simp only [KMap.get?_set]) ?_ ?_ ?_ (-1)
      (by rw [hf']; omega) ?_ rfl rfl rfl rfl
    · show (s.pages.set p h').size = _
      rw [KMap.size_set, hp]; rfl
    · intro c'
      simp only [State.K, KMap.get?_set]; split
      · next e => subst e; exact hpl
      · rfl
    · intro c' hne
      simp only [State.K, KMap.get?_set]; split
      · next e => subst e; exact absurd hcl.symm hne
      · rfl
    · rw [hcl]
      have e1 : (State.K ({ s with pages := s.pages.set p h', cls := s.cls.set c k', mem := mem', heap := hh } : State V) c) = k' := by
        simp only [State.K, KMap.get?_set, if_true, Option.getD_some]
      rw [e1, hfs]; omega
  split at hr
  · next p0 hcur =>
    split at hr
    · cases hr
    · next h hp =>
      cases hr
      obtain ⟨h0, a, hcl, hev, hb⟩ := (inv.classes c).cur_ok p hcur
      rw [hp] at a; cases a
      have ne := (inv.pages p h hp).ne hev
      exact common h _ _ s.mem s.heap hp hcl (by rw [hcl] at ne; omega) rfl rfl rfl
  · split at hr
    · cases hr
    · next p0 i0 rest hgl =>
      split at hr
      · cases hr
      · next h hp =>
        cases hr
        have hm : (p, i) ∈ (s.K c).glist := by rw [hgl]; simp
        obtain ⟨h0, a, hcl, hev, hi⟩ := ((inv.classes c).gl_iff p i).1 hm
        rw [hp] at a; cases a
        have okp := inv.pages p h hp
        have ne := okp.ne hev
        have hlen : 0 < h.freeList.length := List.length_pos_of_mem hi
        have := okp.brk_le
        exact common h _ _ _ _ hp hcl (by omega) rfl rfl rfl

theorem allocLive_cnt {s s' : State V} {c size cap : Nat} {val : Option V} {a : Addr}
    (inv : InvG s) (cn : Cnt s) (hc : c < nClasses) (hcap : 0 < capOf c)
    (hr : allocLive s c size cap val = .ok (s', a)) : Cnt s' := by
  unfold allocLive at hr
  simp only [] at hr
  generalize hs1 : (if (s.K c).glist.isEmpty && (s.K c).cur.isNone then newPage s c else s) = s1 at hr
  have inv1 : InvG s1 ∧ Cnt s1 := by
    subst hs1; split
    · exact ⟨newPage_invG inv hc hcap, newPage_cnt inv cn c⟩
    · exact ⟨inv, cn⟩
  cases ha : allocSlot s1 c with
  | error e => simp [ha] at hr
  | ok t =>
    obtain ⟨s2, p, i⟩ := t
    simp only [ha] at hr
    cases hr
    exact (allocSlot_cnt inv1.1 inv1.2 hc ha).transfer rfl rfl rfl rfl rfl rfl


theorem malloc_cnt {s s' : State V} {size : Nat} {a : Addr} (inv : InvG s) (cn : Cnt s)
    (hr : malloc s size = .ok (s', a)) : Cnt s' := by
  unfold malloc at hr
  simp only [] at hr
  split at hr
  · cases hr
    have fresh : s.privs.get? s.nextPage = none := by
      cases hq : s.privs.get? s.nextPage with
      | none => rfl
      | some sz => have := (inv.privs _ sz hq).1; omega
    refine ⟨?_, cn.sm, ?_, ?_⟩
    · intro c; exact cn.fs c
    · show s.privMmaps + 1 = ((s.privs.set s.nextPage _).size : Int)
      rw [KMap.size_set, fresh, cn.pm]; simp
    · show s.bytes + _ = ((pageSize * s.pages.size + (s.privs.set s.nextPage _).total : Nat) : Int)
      rw [KMap.total_set_fresh _ _ _ fresh, cn.byt]; omega
  · next hsm =>
    have hsm' : size + sliceHdrLen ≤ maxShared := by omega
    obtain ⟨hc, _⟩ := classOf_spec _ hsm'
    have hcap := (table_facts.2 _ hc).1
    have inv0 : InvG ({ s with allocs := s.allocs + 1 } : State V) :=
      ⟨fun p h hp => (inv.pages p h hp).transfer (fun hx => hx) (Nat.le_refl _) (fun _ => Iff.rfl),
       fun c => (inv.classes c).transfer rfl (fun _ _ _ => Iff.rfl),
       fun b l hl => (inv.live b l hl).transfer rfl (fun p i _ h hp => ⟨h, hp, Nat.le_refl _, rfl⟩) (fun _ _ => rfl),
       inv.privs⟩
    exact allocLive_cnt inv0 (cn.transfer rfl rfl rfl rfl rfl rfl) hc hcap hr

theorem freeSlot_cnt {s : State V} (inv : InvG s) (cn : Cnt s) {p i : Nat} {h : Page}
    (hp : s.pages.get? p = some h) : Cnt (freeSlot s p i h) := by
  have hsz : ∀ h' : Page, (s.pages.set p h').size = s.pages.size := by
    intro h'; rw [KMap.size_set, hp]; rfl
  cases hev : h.evac with
  | true =>
    refine cnt_page_update inv cn hp (h' := { h with used := h.used - 1, free := h.free + 1 })
      (fun q => by simp only [freeSlot, hev, if_true, KMap.get?_set]) ?_ ?_ ?_ 1 (by simp) ?_ ?_ ?_ ?_ ?_
    · simp only [freeSlot, hev, if_true]; exact hsz _
    · intro c'; simp only [freeSlot, hev, if_true, State.K, KMap.get?_set]; split
      · next e => subst e; rfl
      · rfl
    · intro c' hne; simp only [freeSlot, hev, if_true, State.K, KMap.get?_set]; split
      · next e => subst e; exact absurd rfl hne
      · rfl
    · simp only [freeSlot, hev, if_true, State.K, KMap.get?_set, Option.getD_some]; simp
    all_goals simp only [freeSlot, hev, if_true]
  | false =>
    refine cnt_page_update inv cn hp
      (h' := { h with used := h.used - 1, free := h.free + 1, freeList := i :: h.freeList })
      (fun q => by simp only [freeSlot, hev, Bool.false_eq_true, if_false, KMap.get?_set]) ?_ ?_ ?_ 1 (by simp) ?_ ?_ ?_ ?_ ?_
    · simp only [freeSlot, hev, Bool.false_eq_true, if_false]; exact hsz _
    · intro c'; simp only [freeSlot, hev, Bool.false_eq_true, if_false, State.K, KMap.get?_set]; split
      · next e => subst e; rfl
      · rfl
    · intro c' hne; simp only [freeSlot, hev, Bool.false_eq_true, if_false, State.K, KMap.get?_set]; split
      · next e => subst e; exact absurd rfl hne
      · rfl
    · simp only [freeSlot, hev, Bool.false_eq_true, if_false, State.K, KMap.get?_set, if_true, Option.getD_some]; simp
    all_goals simp only [freeSlot, hev, Bool.false_eq_true, if_false]

theorem free_cnt {s s' : State V} {a : Addr} (inv : Inv s) (cn : Cnt s) (hr : free s a = .ok s') : Cnt s' := by
  unfold free at hr
  split at hr
  · cases hr
  · next hlive =>
    have hl : s.isLive a := by
      simp only [State.isLive]; cases hq : s.live.get? a <;> simp_all
    simp only [] at hr
    cases hq : s.live.get? a with
    | none => simp [State.isLive, hq] at hl
    | some l =>
    obtain ⟨m, hm, _, _, _, _, h6⟩ := inv.g.live a l hq
    simp only [hm] at hr
    have inv0 : InvG ({ s with allocs := s.allocs - 1, live := s.live.del a } : State V) → True := fun _ => trivial
    split at hr
    · cases a with
      | sh p i => cases hr
      | pv id =>
        simp only [] at hr; cases hr
        obtain ⟨sz, g1, g2, _⟩ := h6
        have hpos := KMap.size_pos s.privs id (by rw [g1]; rfl)
        refine ⟨?_, cn.sm, ?_, ?_⟩
        · intro c; exact cn.fs c
        · show s.privMmaps - 1 = ((s.privs.del id).size : Int)
          rw [KMap.size_del, g1, cn.pm]; simp; omega
        · show s.bytes - _ = ((pageSize * s.pages.size + (s.privs.del id).total : Nat) : Int)
          have := KMap.total_del s.privs id sz g1
          rw [cn.byt]; omega
    · cases a with
      | pv id => cases hr
      | sh p i =>
        simp only [] at hr
        cases hp : s.pages.get? p with
        | none => simp [hp] at hr
        | some h =>
        simp only [hp] at hr
        split at hr
        · cases hr
          have invg0 : InvG ({ s with allocs := s.allocs - 1 } : State V) :=
            ⟨fun p h hp => (inv.g.pages p h hp).transfer (fun hx => hx) (Nat.le_refl _) (fun _ => Iff.rfl),
             fun c => (inv.g.classes c).transfer rfl (fun _ _ _ => Iff.rfl),
             fun b l hl => (inv.g.live b l hl).transfer rfl (fun p i _ h hp => ⟨h, hp, Nat.le_refl _, rfl⟩) (fun _ _ => rfl),
             inv.g.privs⟩
          have c1 := freeSlot_cnt (i := i) invg0 (cn.transfer rfl rfl rfl rfl rfl rfl) hp
          refine c1.transfer ?_ ?_ ?_ ?_ ?_ ?_ <;> (simp only [freeSlot]; split <;> rfl)
        · cases hr

theorem write_cnt {s s' : State V} {a : Addr} {v : V} (cn : Cnt s) (hr : write s a v = .ok s') : Cnt s' := by
  unfold write at hr
  split at hr
  · cases hr; exact cn.transfer rfl rfl rfl rfl rfl rfl
  · cases hr

theorem beginEvac_cnt {s s' : State V} {c pg : Nat} (inv : InvG s) (cn : Cnt s)
    (hr : beginEvac s c pg = .ok s') : Cnt s' := by
  unfold beginEvac at hr
  cases hp : s.pages.get? pg with
  | none => simp [hp] at hr
  | some h =>
  simp only [hp] at hr
  split at hr
  · cases hr
  · next hcond =>
    simp only [not_or, Decidable.not_not, Bool.not_eq_true] at hcond
    obtain ⟨hcl, hev⟩ := hcond
    cases hr
    refine cnt_page_update inv cn hp
      (h' := { h with evac := true, saved := h.freeList, freeList := [], scan := 0 })
      (fun q => by simp only [KMap.get?_set]) ?_ ?_ ?_ 0 (by simp) ?_ rfl rfl rfl rfl
    · show (s.pages.set pg _).size = _
      rw [KMap.size_set, hp]; rfl
    · intro c'; simp only [State.K, KMap.get?_set]; split
      · next e => subst e; rfl
      · rfl
    · intro c' hne; simp only [State.K, KMap.get?_set]; split
      · next e => subst e; exact absurd hcl.symm hne
      · rfl
    · rw [hcl]; simp only [State.K, KMap.get?_set, if_true, Option.getD_some]; simp


theorem moveNext_cnt {s s' : State V} {c pg : Nat} (inv : InvG s) (cn : Cnt s) (hc : c < nClasses)
    (hcls : ∀ h, s.pages.get? pg = some h → h.evac = true → h.cls = c)
    (hr : moveNext s c pg = .ok s') : Cnt s' := by
  unfold moveNext at hr
  cases hp : s.pages.get? pg with
  | none => simp [hp] at hr
  | some h =>
  simp only [hp] at hr
  split at hr
  · cases hr
  · next hcond =>
    simp only [Bool.or_eq_true, Bool.not_eq_true', decide_eq_true_eq, not_or, Bool.not_eq_false] at hcond
    obtain ⟨hev, hscan⟩ := hcond
    split at hr
    · cases hr
      refine cnt_page_update inv cn hp (h' := { h with scan := h.scan + 1 })
        (fun q => by simp only [KMap.get?_set]) ?_ (fun _ => rfl) (fun _ _ => rfl) 0 (by simp)
        (by show ((s.K h.cls).freeSlots : Int) = _; simp) rfl rfl rfl rfl
      show (s.pages.set pg _).size = _
      rw [KMap.size_set, hp]; rfl
    · split at hr
      · next m l hm hl =>
        obtain ⟨m', hm', _, hlen, _, hsz, h6⟩ := inv.live _ l hl
        rw [hm] at hm'; cases hm'
        obtain ⟨h0, g1, _, g3⟩ := h6
        rw [hp] at g1; cases g1
        have hcl := hcls h hp hev
        have hcap := (table_facts.2 _ hc).1
        cases ha : allocLive s c m.len m.cap m.val with
        | error e => simp [ha] at hr
        | ok t =>
          obtain ⟨s1, new⟩ := t
          simp only [ha] at hr
          have c1 := allocLive_cnt inv cn hc hcap ha
          obtain ⟨inv1, _, _, _, _, _, _, _, _, _, keep, _⟩ :=
            allocLive_invG inv hc hcap (by rw [hlen]; exact hsz) (by rw [← hcl]; exact g3) ha
          have hp1 : s1.pages.get? pg = some h := keep pg h hp hev
          simp only [hp1] at hr
          cases hr
          -- s2 = s1 with live / relog changed; then classFree on the evacuating page
          have c2 : Cnt ({ s1 with live := (s1.live.del (Addr.sh pg h.scan)).set new ⟨l.size, l.val⟩,
                                   relog := (Addr.sh pg h.scan, new) :: s1.relog } : State V) :=
            c1.transfer rfl rfl rfl rfl rfl rfl
          have okp := inv1.pages pg h hp1
          refine cnt_page_update' c2 (h := h) (h' := { h with scan := h.scan + 1, used := h.used - 1, free := h.free + 1 })
            okp.in_plist (inv1.classes h.cls).pl_nodup (fun c q hq => (inv1.classes c).pl_pages q hq) hp1
            (fun q => by simp only [freeSlot, hev, if_true, KMap.get?_set]) ?_ ?_ ?_ 1 (by simp) ?_ ?_ ?_ ?_ ?_
          · simp only [freeSlot, hev, if_true]
            show (s1.pages.set pg _).size = _
            rw [KMap.size_set, hp1]; rfl
          · intro c'; simp only [freeSlot, hev, if_true, State.K, KMap.get?_set]; split
            · next e => subst e; rfl
            · rfl
          · intro c' hne; simp only [freeSlot, hev, if_true, State.K, KMap.get?_set]; split
            · next e => subst e; exact absurd rfl hne
            · rfl
          · simp only [freeSlot, hev, if_true, State.K, KMap.get?_set, Option.getD_some]; simp
          all_goals simp only [freeSlot, hev, if_true]
      · cases hr

theorem endEvac_cnt {s s' : State V} {c pg : Nat} (inv : InvG s) (cn : Cnt s)
    (hr : endEvac s c pg = .ok s') : Cnt s' := by
  unfold endEvac at hr
  cases hp : s.pages.get? pg with
  | none => simp [hp] at hr
  | some h =>
  simp only [hp] at hr
  split at hr
  · cases hr
  · next hcond =>
    simp only [Bool.or_eq_true, bne_iff_ne, ne_eq, Bool.not_eq_true', decide_eq_true_eq, not_or, Decidable.not_not,
      Bool.not_eq_false] at hcond
    obtain ⟨⟨_, _⟩, hcl⟩ := hcond
    have hs := Except.ok.inj hr
    have e1 : ∀ q, s'.pages.get? q = if pg = q then none else s.pages.get? q := by
      intro q; rw [← hs]; exact KMap.get?_del _ _ _
    have e2 : s'.pages.size = s.pages.size - 1 := by
      rw [← hs]; show (s.pages.del pg).size = _; rw [KMap.size_del, hp]; rfl
    have e3 : ∀ c', s'.K c' = if c = c' then
        { s.K c with plist := (s.K c).plist.erase pg, pageCount := (s.K c).pageCount - 1,
                     freeSlots := (s.K c).freeSlots - h.free,
                     cur := if (s.K c).cur = some pg then none else (s.K c).cur } else s.K c' := by
      intro c'; rw [← hs]; simp only [State.K, KMap.get?_set]; split <;> rfl
    have e4 : s'.privs = s.privs := by rw [← hs]
    have e5 : s'.bytes = s.bytes - pageSize := by rw [← hs]
    have e6 : s'.sharedMmaps = s.sharedMmaps - 1 := by rw [← hs]
    have e7 : s'.privMmaps = s.privMmaps := by rw [← hs]
    clear hs hr
    have okp := inv.pages pg h hp
    have hin : pg ∈ (s.K c).plist := by rw [← hcl]; exact okp.in_plist
    have hpos := KMap.size_pos s.pages pg (by rw [hp]; rfl)
    have hge := freeSlots_ge inv cn hp
    rw [hcl] at hge
    have hf : ∀ q, q ≠ pg → freeOf s' q = freeOf s q := by
      intro q hq; exact freeOf_eq (by rw [e1, if_neg (fun e => hq e.symm)])
    refine ⟨?_, ?_, by rw [e7, e4]; exact cn.pm, ?_⟩
    · intro c'
      rw [e3]
      split
      · next e =>
        subst e
        show (((s.K c).freeSlots - h.free : Nat) : Int) = (((s.K c).plist.erase pg).map (freeOf s')).sum
        have ndp := (inv.classes c).pl_nodup
        rw [sum_map_congr (l := (s.K c).plist.erase pg) (f := freeOf s) (f' := freeOf s')
          (fun q hq => hf q (by intro e; subst e; exact (List.Nodup.mem_erase_iff ndp).1 hq |>.1 rfl)),
          sum_map_erase ndp hin, ← cn.fs c, freeOf_some hp]
        omega
      · next e =>
        rw [cn.fs c']
        refine (sum_map_congr ?_).symm
        intro q hq
        refine hf q ?_
        intro e2; subst e2
        obtain ⟨h0, a, b⟩ := (inv.classes c').pl_pages q hq
        rw [hp] at a; cases a; exact e (hcl.symm.trans b)
    · rw [e6, e2, cn.sm]; omega
    · rw [e5, e2, e4, cn.byt]
      obtain ⟨n, hn⟩ : ∃ n, s.pages.size = n + 1 := ⟨s.pages.size - 1, by omega⟩
      rw [hn, Nat.mul_add]
      show _ = ((pageSize * (n + 1 - 1) + s.privs.total : Nat) : Int)
      simp only [Nat.add_sub_cancel, Nat.mul_one]
      omega

/-! ### defragmentation passes and traces -/

theorem evacPage_cnt {s s' : State V} {c pg : Nat} {rest : List Nat} (hc : c < nClasses)
    (d : DInv s c (pg :: rest)) (cn : Cnt s) (hr : evacPage s c pg = .ok s') : Cnt s' := by
  unfold evacPage at hr
  cases hp : s.pages.get? pg with
  | none => simp [hp] at hr
  | some h =>
  simp only [hp] at hr
  cases hi : iter (fun s => moveNext s c pg) h.brk s with
  | error e => simp [hi] at hr
  | ok s1 =>
  simp only [hi] at hr
  have d1 : DInv s1 c (pg :: rest) ∧ Cnt s1 := by
    refine iter_inv (fun s => DInv s c (pg :: rest) ∧ Cnt s) _ ?_ h.brk s s1 ⟨d, cn⟩ hi
    intro t t' ⟨dt, ct⟩ ht
    refine ⟨?_, moveNext_cnt dt.g ct hc (fun h0 a b => (dt.evac pg h0 a b).2) ht⟩
    obtain ⟨j1, j2, j3, j4, j5, _⟩ := moveNext_invG dt.g hc (fun h0 a b => (dt.evac pg h0 a b).2) ht
    refine ⟨j1, by rw [j2, j3]; exact dt.allocs, ?_⟩
    intro q hq a b
    rcases j5 q hq a b with e | e
    · subst e
      obtain ⟨h0, h0', x1, x2, _, _, _, x6, x7, _⟩ := j4
      rw [a] at x2; cases x2
      exact ⟨by simp, by rw [x7]; exact (dt.evac q h0 x1 x6).2⟩
    · exact dt.evac q hq e b
  exact endEvac_cnt d1.1.g d1.2 hr

theorem defragClass_cnt {s s' : State V} {c : Nat} {ev : List Nat} (hc : c < nClasses) (inv : Inv s)
    (cn : Cnt s) (hr : defragClass s c ev = .ok s') : Cnt s' := by
  unfold defragClass at hr
  simp only [] at hr
  split at hr
  · split at hr
    · cases hr; exact cn
    · cases hr
  · split at hr
    · split at hr
      · cases hr; exact cn
      · cases hr
    · split at hr
      · cases hr
      · cases h1 : foldE (fun s pg => beginEvac s c pg) s ev with
        | error e => simp [h1] at hr
        | ok s1 =>
          simp only [h1] at hr
          have p1 : DInv s1 c ev ∧ Cnt s1 := by
            have := foldE_inv (fun (t : State V) (l : List Nat) => ((∀ x, x ∈ l → x ∈ ev) ∧ DInv t c ev) ∧ Cnt t)
              (fun s pg => beginEvac s c pg) ?_ ev s s1
              ⟨⟨fun _ hx => hx, ⟨inv.g, inv.allocs, fun q hq a b => by rw [inv.noEvac q hq a] at b; cases b⟩⟩, cn⟩ h1
            exact ⟨this.1.2, this.2⟩
            intro t pg rest t' ⟨⟨hsub, dt⟩, ct⟩ ht
            obtain ⟨j1, j2, j3, _, j5, _⟩ := beginEvac_invG dt.g ht
            refine ⟨⟨fun x hx => hsub x (List.mem_cons_of_mem _ hx), j1, by rw [j3, j2]; exact dt.allocs, ?_⟩,
              beginEvac_cnt dt.g ct ht⟩
            intro q hq a b
            rcases j5 q hq a b with ⟨e1, e2⟩ | e
            · exact ⟨by rw [e1]; exact hsub pg (by simp), e2⟩
            · exact dt.evac q hq e b
          have p2 := foldE_inv (fun (t : State V) (l : List Nat) => DInv t c l ∧ Cnt t)
            (fun s pg => evacPage s c pg)
            (fun t pg rest t' dt ht => ⟨evacPage_dinv hc dt.1 ht, evacPage_cnt hc dt.1 dt.2 ht⟩) ev s1 s' p1 hr
          exact p2.2

theorem defragAll_cnt {s s' : State V} {ch : List (Nat × List Nat)} (inv : Inv s) (cn : Cnt s)
    (hr : defragAll s ch = .ok s') : Cnt s' := by
  unfold defragAll at hr
  have := foldE_inv (fun (t : State V) (l : List Nat) => (∀ x, x ∈ l → x < nClasses) ∧ Inv t ∧ Cnt t) _ ?_
    (List.range nClasses) _ s' ⟨fun x hx => List.mem_range.1 hx, relogClear_inv inv,
      cn.transfer rfl rfl rfl rfl rfl rfl⟩ hr
  exact this.2.2
  intro t c rest t' ⟨hsub, it, ct⟩ ht
  refine ⟨fun x hx => hsub x (List.mem_cons_of_mem _ hx), ?_⟩
  split at ht
  · exact ⟨defragClass_inv (hsub c (by simp)) it ht, defragClass_cnt (hsub c (by simp)) it ct ht⟩
  · split at ht
    · cases ht; exact ⟨it, ct⟩
    · cases ht

theorem step_cnt {s s' : State V} {op : Op V} (inv : Inv s) (cn : Cnt s) (hr : step s op = .ok s') : Cnt s' := by
  cases op with
  | malloc size =>
    simp only [step] at hr
    cases hm : malloc s size with
    | error e => simp [hm] at hr
    | ok t => obtain ⟨s2, a⟩ := t; simp only [hm] at hr; cases hr; exact malloc_cnt inv.g cn hm
  | free a => exact free_cnt inv cn hr
  | write a v => exact write_cnt cn hr
  | defrag ch => exact defragAll_cnt inv cn hr

end GocoinV.Alloc
