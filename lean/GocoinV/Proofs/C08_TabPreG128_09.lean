/- C08 table proof chunk (written once by Proofs/mk_c08_tab.py; static). -/
import GocoinV.Proofs.C08_TabDefs
import GocoinV.Gen.TablesPreG12809
import GocoinV.Gen.TablesPreG12808
namespace GocoinV.C08
open GocoinV.Gen

theorem preG128_09 : chainOK (Secp.dbl g128) ((pts Tables.preG12808).getLastD none :: pts Tables.preG12809) = true := by
  decide +kernel
theorem preG128_09_ne : pts Tables.preG12809 ≠ [] := by decide +kernel

end GocoinV.C08
