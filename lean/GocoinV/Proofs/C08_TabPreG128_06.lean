/- C08 table proof chunk (written once by Proofs/mk_c08_tab.py; static). -/
import GocoinV.Proofs.C08_TabDefs
import GocoinV.Gen.TablesPreG12806
import GocoinV.Gen.TablesPreG12805
namespace GocoinV.C08
open GocoinV.Gen

theorem preG128_06 : chainOK (Secp.dbl g128) ((pts Tables.preG12805).getLastD none :: pts Tables.preG12806) = true := by
  decide +kernel
theorem preG128_06_ne : pts Tables.preG12806 ≠ [] := by decide +kernel

end GocoinV.C08
