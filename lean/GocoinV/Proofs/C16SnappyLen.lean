/-
  Proofs.C16SnappyLen — a size bound for the snappy encoder, from the decoder's side: every tag the decoder accepts
  consumes at most 5 header bytes plus the bytes it produces, and produces at least one byte; the encoder's output
  decodes to the source; hence `(encode src).length ≤ 11 + 6 * src.length` (the 11 = longest varint header).
-/
import GocoinV.Proofs.C16SnappyRT
namespace GocoinV.Snappy

theorem putUvarintAux_length (f : Nat) : ∀ x, (putUvarintAux f x).length ≤ f + 1 := by
  induction f with
  | zero => intro x; simp [putUvarintAux]
  | succ f ih =>
    intro x
    unfold putUvarintAux
    split
    · simp only [List.length_cons]; have := ih (x / 128); omega
    · simp

theorem shorter_false (src : Bytes) (k : Nat) (h : shorter src k = false) : k ≤ src.length := by
  unfold shorter at h
  simp only [List.length_take, decide_eq_false_iff_not, Nat.not_lt] at h
  omega

theorem parseTag_lit (src : Bytes) (h l : Nat) (e : parseTag src = .lit h l) : h ≤ 5 ∧ 1 ≤ l := by
  unfold parseTag at e
  simp only at e
  repeat' (split at e)
  all_goals (try cases e)
  all_goals exact ⟨by omega, by omega⟩

theorem parseTag_copy (src : Bytes) (h o l : Nat) (e : parseTag src = .copy h o l) : h ≤ 5 ∧ 1 ≤ l ∧ h ≤ src.length := by
  unfold parseTag at e
  simp only at e
  repeat' (split at e)
  all_goals (try cases e)
  all_goals (refine ⟨by omega, by omega, ?_⟩; exact shorter_false _ _ (by simpa using ‹¬ shorter src _ = true›))

theorem decodeStep_bound (dLen : Nat) (src src' : Bytes) (dst dst' : Array UInt8)
    (h : decodeStep dLen src dst = .ok (src', dst')) : src.length + 6 * dst.size ≤ src'.length + 6 * dst'.size := by
  unfold decodeStep at h
  split at h
  · cases h
  · rename_i hdr length hpt
    have pf := parseTag_lit src hdr length hpt
    simp only at h
    split at h
    · cases h
    · rename_i hc
      simp only [Except.ok.injEq, Prod.mk.injEq] at h
      obtain ⟨h1, h2⟩ := h
      subst h1; subst h2
      have hl : ((src.drop hdr).take length).length = length := by
        have : ¬ ((src.drop hdr).take length).length < length := fun x => hc (Or.inr x)
        have : ((src.drop hdr).take length).length ≤ length := by simp only [List.length_take]; omega
        omega
      have hsrc : hdr + length ≤ src.length := by
        simp only [List.length_take, List.length_drop] at hl; omega
      simp only [List.length_drop, Array.size_append, List.size_toArray, hl]
      omega
  · rename_i hdr offset length hpt
    have pf := parseTag_copy src hdr offset length hpt
    -- (nothing to simplify)
    split at h
    · cases h
    · simp only [Except.ok.injEq, Prod.mk.injEq] at h
      obtain ⟨h1, h2⟩ := h
      subst h1; subst h2
      simp only [List.length_drop, copyFwd_size]
      omega

theorem decodeLoop_bound (dLen : Nat) : ∀ (f : Nat) (src : Bytes) (dst d : Array UInt8),
    decodeLoop dLen f src dst = .ok d → src.length + 6 * dst.size ≤ 6 * d.size := by
  intro f
  induction f with
  | zero =>
    intro src dst d h
    cases src with
    | nil =>
      unfold decodeLoop at h
      split at h
      · cases h
      · simp only [Except.ok.injEq] at h; subst h; simp
    | cons x xs => unfold decodeLoop at h; cases h
  | succ f ih =>
    intro src dst d h
    cases src with
    | nil =>
      unfold decodeLoop at h
      split at h
      · cases h
      · simp only [Except.ok.injEq] at h; subst h; simp
    | cons x xs =>
      unfold decodeLoop at h
      split at h
      · cases h
      · rename_i src' dst' hs
        have b1 := decodeStep_bound dLen _ _ _ _ hs
        have b2 := ih src' dst' d h
        omega

/-- the encoder's output is at most 11 + 6·len(src) bytes long -/
theorem encode_length_le (src : Bytes) (h : src.length ≤ 0xffffffff) : (encode src).length ≤ 11 + 6 * src.length := by
  obtain ⟨hwf, hex⟩ := encodeOps_correct src
  rw [Array.empty_append] at hex
  obtain ⟨F', _, he⟩ := decodeLoop_emitAll src.length (encodeOps src) [] #[]
    (putUvarint src.length ++ emitAll (encodeOps src)).length hwf (by rw [hex]; simp)
    (by simp only [List.append_nil, List.length_append]; omega)
  rw [List.append_nil, hex, decodeLoop_nil] at he
  simp only [List.size_toArray, ne_eq, not_true_eq_false, ↓reduceIte] at he
  have b := decodeLoop_bound _ _ _ _ _ he
  have p := putUvarintAux_length 10 src.length
  unfold encode
  simp only [List.length_append, List.size_toArray, Array.size_empty] at b ⊢
  unfold putUvarint
  omega

end GocoinV.Snappy
