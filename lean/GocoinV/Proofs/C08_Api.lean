/-
  Proofs.C08_Api — the byte-string API (Model.GroupApi: BaseMultiply / BaseMultiplyAdd / Multiply with SetXYZ,
  GetPublicKey, ParsePubkey below them) against the reference curve:
    * byte glue: beVal ∘ getB32 = val on canonical limbs, Fe.ofNat v stands for v, getB32 a = toB32 a.val
    * invVar (big.Int.ModInverse modelled by Secp.invMod) is the field inverse; XY.SetXYZ yields (X/Z², Y/Z³)
    * apiFinish r = apiRef r.toPoint for every r within the contract: refused exactly at ∞, SEC1 bytes otherwise
    * baseMultiply / baseMultiplyAdd / multiply specs
-/
import GocoinV.Model.GroupApi
import GocoinV.Proofs.C08_EcmultFull
import GocoinV.Proofs.C08_Lift
import GocoinV.Proofs.C08_Examples
import GocoinV.Proofs.C03Ecdsa

namespace GocoinV.C08
open GocoinV.Gen GocoinV.Gen.Field5x52 GocoinV.Proofs.C03

/-! ### bytes -/

theorem beVal32 (a : Nat → Nat) :
    beVal [a 0, a 1, a 2, a 3, a 4, a 5, a 6, a 7, a 8, a 9, a 10, a 11, a 12, a 13, a 14, a 15, a 16, a 17, a 18, a 19, a 20, a 21, a 22, a 23, a 24, a 25, a 26, a 27, a 28, a 29, a 30, a 31] =
    a 31 + a 30 * 2^8 + a 29 * 2^16 + a 28 * 2^24 + a 27 * 2^32 + a 26 * 2^40 + a 25 * 2^48
      + a 24 * 2^56 + a 23 * 2^64 + a 22 * 2^72 + a 21 * 2^80 + a 20 * 2^88 + a 19 * 2^96 + a 18 * 2^104
      + a 17 * 2^112 + a 16 * 2^120 + a 15 * 2^128 + a 14 * 2^136 + a 13 * 2^144 + a 12 * 2^152 + a 11 * 2^160
      + a 10 * 2^168 + a 9 * 2^176 + a 8 * 2^184 + a 7 * 2^192 + a 6 * 2^200 + a 5 * 2^208 + a 4 * 2^216
      + a 3 * 2^224 + a 2 * 2^232 + a 1 * 2^240 + a 0 * 2^248 := by
  simp only [beVal, List.length_cons, List.length_nil, Nat.reduceAdd, Nat.reducePow]
  omega

theorem getB32_list (a : Fe) : getB32 a = [bytesFn (getB32 a) 0, bytesFn (getB32 a) 1, bytesFn (getB32 a) 2, bytesFn (getB32 a) 3, bytesFn (getB32 a) 4, bytesFn (getB32 a) 5, bytesFn (getB32 a) 6, bytesFn (getB32 a) 7, bytesFn (getB32 a) 8, bytesFn (getB32 a) 9, bytesFn (getB32 a) 10, bytesFn (getB32 a) 11, bytesFn (getB32 a) 12, bytesFn (getB32 a) 13, bytesFn (getB32 a) 14, bytesFn (getB32 a) 15, bytesFn (getB32 a) 16, bytesFn (getB32 a) 17, bytesFn (getB32 a) 18, bytesFn (getB32 a) 19, bytesFn (getB32 a) 20, bytesFn (getB32 a) 21, bytesFn (getB32 a) 22, bytesFn (getB32 a) 23, bytesFn (getB32 a) 24, bytesFn (getB32 a) 25, bytesFn (getB32 a) 26, bytesFn (getB32 a) 27, bytesFn (getB32 a) 28, bytesFn (getB32 a) 29, bytesFn (getB32 a) 30, bytesFn (getB32 a) 31] := by
  unfold bytesFn getB32
  rfl

theorem getB32_lt (a : Fe) : ∀ x ∈ getB32 a, x < 256 := by
  have key : ∀ A B : Nat, (A &&& 15) ||| (B % 256) < 256 := fun A B =>
    Nat.or_lt_two_pow (n := 8) (Nat.lt_of_le_of_lt Nat.and_le_right (by decide)) (Nat.mod_lt _ (by decide))
  unfold getB32
  simp only [List.mem_cons, List.not_mem_nil, or_false]
  intro x hx
  rcases hx with rfl|rfl|rfl|rfl|rfl|rfl|rfl|rfl|rfl|rfl|rfl|rfl|rfl|rfl|rfl|rfl|rfl|rfl|rfl|rfl|rfl|rfl|rfl|rfl|rfl|rfl|rfl|rfl|rfl|rfl|rfl|rfl <;>
    first | exact Nat.mod_lt _ (by decide) | exact key _ _

theorem getB32_length (a : Fe) : (getB32 a).length = 32 := by rw [getB32_list]; rfl

theorem bytesFn_lt {l : List Nat} (h : ∀ x ∈ l, x < 256) (i : Nat) : bytesFn l i < 256 := by
  unfold bytesFn
  rw [List.getD_eq_getElem?_getD]
  cases hi : l[i]? with
  | none => simp
  | some v => simpa using h v (List.mem_of_getElem? hi)

/-- the big-endian value of `GetB32` of canonical limbs is the value of the limbs -/
theorem beVal_getB32 (a : Fe) (h : a.canon) : beVal (getB32 a) = a.val := by
  have hb := bytesFn_lt (getB32_lt a)
  have hv := (setB32_val (bytesFn (getB32 a)) hb).1
  rw [setB32_getB32' a h] at hv
  rw [getB32_list a, beVal32 (bytesFn (getB32 a)), hv]

/-- big-endian base-256 digits, most significant first -/
def digitsBE : Nat → Nat → List Nat
  | 0, _ => []
  | n+1, v => (v / 256 ^ n % 256) :: digitsBE n v

theorem digitsBE_length (n v : Nat) : (digitsBE n v).length = n := by
  induction n with
  | zero => rfl
  | succ n ih => simp [digitsBE, ih]

theorem beVal_digitsBE (n v : Nat) : beVal (digitsBE n v) = v % 256 ^ n := by
  induction n with
  | zero => simp [digitsBE, beVal, Nat.mod_one]
  | succ n ih =>
    simp only [digitsBE, beVal, digitsBE_length, ih]
    rw [Nat.mod_pow_succ]; ring

theorem toB32_digits (v : Nat) : toB32 v = digitsBE 32 v := by
  unfold toB32
  simp only [digitsBE]
  rfl

theorem toB32_lt (v : Nat) : ∀ x ∈ toB32 v, x < 256 := by
  unfold toB32
  intro x hx
  simp only [List.mem_map] at hx
  obtain ⟨i, _, rfl⟩ := hx
  exact Nat.mod_lt _ (by decide)

theorem toB32_list (v : Nat) : toB32 v = [bytesFn (toB32 v) 0, bytesFn (toB32 v) 1, bytesFn (toB32 v) 2, bytesFn (toB32 v) 3, bytesFn (toB32 v) 4, bytesFn (toB32 v) 5, bytesFn (toB32 v) 6, bytesFn (toB32 v) 7, bytesFn (toB32 v) 8, bytesFn (toB32 v) 9, bytesFn (toB32 v) 10, bytesFn (toB32 v) 11, bytesFn (toB32 v) 12, bytesFn (toB32 v) 13, bytesFn (toB32 v) 14, bytesFn (toB32 v) 15, bytesFn (toB32 v) 16, bytesFn (toB32 v) 17, bytesFn (toB32 v) 18, bytesFn (toB32 v) 19, bytesFn (toB32 v) 20, bytesFn (toB32 v) 21, bytesFn (toB32 v) 22, bytesFn (toB32 v) 23, bytesFn (toB32 v) 24, bytesFn (toB32 v) 25, bytesFn (toB32 v) 26, bytesFn (toB32 v) 27, bytesFn (toB32 v) 28, bytesFn (toB32 v) 29, bytesFn (toB32 v) 30, bytesFn (toB32 v) 31] := by
  unfold bytesFn toB32
  rfl

theorem beVal_toB32 (v : Nat) : beVal (toB32 v) = v % 2 ^ 256 := by
  rw [toB32_digits, beVal_digitsBE]; norm_num

/-- `SetB32 ∘ toB32`: canonical limbs standing for v mod 2^256 -/
theorem ofNat_val (v : Nat) : (Fe.ofNat v).val = v % 2 ^ 256 ∧ (Fe.ofNat v).canon := by
  have hb := bytesFn_lt (toB32_lt v)
  obtain ⟨hv, hc⟩ := setB32_val (bytesFn (toB32 v)) hb
  refine ⟨?_, hc⟩
  show (setB32 (bytesFn (toB32 v))).val = _
  rw [hv, ← beVal32 (bytesFn (toB32 v)), ← toB32_list v, beVal_toB32]

theorem canon_val_lt (a : Fe) (h : a.canon) : a.val < 2 ^ 256 := by
  cases a; simp only [Fe.canon, Fe.val] at *; omega

theorem ofNat_val_self (a : Fe) (h : a.canon) : Fe.ofNat a.val = a := by
  obtain ⟨hv, hc⟩ := ofNat_val a.val
  exact canon_val_inj _ _ hc h (by rw [hv, Nat.mod_eq_of_lt (canon_val_lt a h)])

/-- `GetB32` of canonical limbs = the 32 big-endian bytes of their value -/
theorem getB32_eq_toB32 (a : Fe) (h : a.canon) : getB32 a = toB32 a.val := by
  conv_lhs => rw [← ofNat_val_self a h]
  show getB32 (setB32 (bytesFn (toB32 a.val))) = _
  rw [getB32_setB32' _ (bytesFn_lt (toB32_lt a.val)), ← toB32_list]

/-- `SetB32` of a byte list: canonical limbs with the big-endian value of the 32 bytes -/
theorem setB32L_val (l : List Nat) (hl : l.length = 32) (hb : ∀ x ∈ l, x < 256) :
    (setB32L l).val = beVal l ∧ (setB32L l).canon := by
  obtain ⟨hv, hc⟩ := setB32_val (bytesFn l) (bytesFn_lt hb)
  refine ⟨?_, hc⟩
  show (setB32 (bytesFn l)).val = _
  rw [hv, ← beVal32 (bytesFn l)]
  congr 1
  match l, hl with
  | [a0, a1, a2, a3, a4, a5, a6, a7, a8, a9, a10, a11, a12, a13, a14, a15, a16, a17, a18, a19, a20, a21, a22, a23, a24, a25, a26, a27, a28, a29, a30, a31], _ => rfl

/-! ### InvVar, SetXYZ, GetPublicKey -/

theorem powModAux_lt (m : Nat) (hm : 0 < m) : ∀ (fuel b e acc : Nat), acc < m → Secp.powModAux m fuel b e acc < m := by
  intro fuel
  induction fuel with
  | zero => intro b e acc h; exact h
  | succ f ih =>
    intro b e acc h
    unfold Secp.powModAux
    split
    · exact h
    · apply ih
      split
      · exact Nat.mod_lt _ hm
      · exact h

theorem invMod_lt (a : Nat) : Secp.invMod a P < P := by
  unfold Secp.invMod Secp.powMod
  exact powModAux_lt P P_pos _ _ _ _ (Nat.mod_lt _ P_pos)

/-- `Field.InvVar` (normalise, bytes, big.Int.ModInverse, SetBytes) is the field inverse (0 ↦ 0), result canonical -/
theorem invVar_S (a : Fe) (m : Nat) (ha : a.mag m) (hm : m ≤ 32) : FeS (invVar a) 1 (a.z)⁻¹ := by
  obtain ⟨hn, hd⟩ := (FeS.self ha).norm hm
  unfold invVar
  simp only []
  rw [beVal_getB32 _ hd.1]
  obtain ⟨hv, hc⟩ := ofNat_val (Secp.invMod (normalize a).val P)
  refine ⟨canon_mag1 hc, ?_⟩
  unfold Fe.z
  rw [hv, Nat.mod_eq_of_lt (Nat.lt_trans (invMod_lt _) (by decide)), invMod_cast]
  exact congrArg _ hn.2

/-- `XY.SetXYZ`: the affine coordinates (X/Z², Y/Z³), both of magnitude 1; the Infinity flag is copied -/
theorem ofXYZ_S (a : XYZ) (ha : a.ok) :
    FeS (XY.ofXYZ a).x 1 (a.x.z / a.z.z ^ 2) ∧ FeS (XY.ofXYZ a).y 1 (a.y.z / a.z.z ^ 3) ∧ (XY.ofXYZ a).inf = a.inf := by
  obtain ⟨hx, hy, hz, _⟩ := ha
  have zi := invVar_S a.z 8 hz (by decide)
  have z2 := zi.sqr (by decide)
  have z3 := zi.mul z2 (by decide) (by decide)
  have x := (FeS.self hx).mul z2 (by decide) (by decide)
  have y := (FeS.self hy).mul z3 (by decide) (by decide)
  unfold XY.ofXYZ
  simp only []
  refine ⟨?_, ?_, trivial⟩
  · have e : a.x.z / a.z.z ^ 2 = a.x.z * ((a.z.z)⁻¹ * (a.z.z)⁻¹) := by rw [div_eq_mul_inv, ← _root_.inv_pow]; ring
    rw [e]; exact x
  · have e : a.y.z / a.z.z ^ 3 = a.y.z * ((a.z.z)⁻¹ * ((a.z.z)⁻¹ * (a.z.z)⁻¹)) := by rw [div_eq_mul_inv, ← _root_.inv_pow]; ring
    rw [e]; exact y

/-- `XY.GetPublicKey` writes the SEC1 bytes of the residues the coordinates stand for (any magnitude ≤ 32) -/
theorem getPublicKey_S (pk : XY) (mx my : Nat) (X Y : F) (hx : FeS pk.x mx X) (hy : FeS pk.y my Y)
    (hmx : mx ≤ 32) (hmy : my ≤ 32) (unc : Bool) :
    XY.getPublicKey pk unc =
      (if unc then 4 :: (toB32 X.val ++ toB32 Y.val) else (if Y.val % 2 = 0 then 2 else 3) :: toB32 X.val) := by
  obtain ⟨nx, dx⟩ := hx.norm hmx
  obtain ⟨ny, dy⟩ := hy.norm hmy
  have vx : (normalize pk.x).val = X.val := by rw [← val_of_normd dx, nx.2]
  have vy : (normalize pk.y).val = Y.val := by rw [← val_of_normd dy, ny.2]
  unfold XY.getPublicKey
  simp only []
  rw [getB32_eq_toB32 _ dx.1, getB32_eq_toB32 _ dy.1, vx, vy]
  cases unc with
  | true => simp
  | false =>
    simp only [Bool.false_eq_true, if_false]
    by_cases ho : isOdd (normalize pk.y) = true
    · have := (isOdd_iff' _).1 ho
      rw [vy] at this
      simp [ho, this]
    · have h1 : ¬ (Y.val % 2 = 1) := by
        intro h; apply ho; rw [isOdd_iff', vy]; exact h
      have h0 : Y.val % 2 = 0 := by omega
      simp [ho, h0]

theorem apiRef_none (unc : Bool) : apiRef none unc = .refused := rfl

theorem apiRef_refused_iff (Q : Secp.Point) (unc : Bool) : apiRef Q unc = .refused ↔ Q = none := by
  cases Q with
  | none => simp [apiRef]
  | some q => cases q; simp [apiRef]

/-- the tail of the three API functions on ANY Jacobian point within the contract: refused exactly when it stands
    for ∞, otherwise the SEC1 bytes of the affine point it stands for -/
theorem apiFinish_spec (r : XYZ) (hr : r.ok) (unc : Bool) : apiFinish r unc = apiRef r.toPoint unc := by
  unfold apiFinish
  cases hi : r.inf with
  | true => rw [XYZ.toPoint_inf hi]; rfl
  | false =>
    obtain ⟨sx, sy, _⟩ := ofXYZ_S r hr
    rw [XYZ.toPoint_fin hi]
    simp only [Bool.false_eq_true, if_false, ptF, apiRef]
    rw [getPublicKey_S _ 1 1 _ _ sx sy (by decide) (by decide)]

/-! ### BaseMultiply -/

theorem mul_G_none_iff' (k : Nat) : Secp.mul k Secp.G = none ↔ k % Secp.n = 0 := by
  have hmod : Secp.mul (k % Secp.n) Secp.G = Secp.mul k Secp.G := by
    rw [mul_G, mul_G, nsmul_G_congr (k % Secp.n) k (by rw [ZMod.natCast_mod])]
  constructor
  · intro h
    rcases Nat.eq_zero_or_pos (k % Secp.n) with h0 | h0
    · exact h0
    · have := mul_G_ne_none (k % Secp.n) h0 (Nat.mod_lt _ (by decide))
      rw [hmod] at this
      exact absurd h this
  · intro h
    rw [← hmod, h]; rfl

theorem baseMultiply_spec (k : Nat) (unc : Bool) :
    baseMultiply k unc = apiRef (Secp.mul (k % 2 ^ 256) Secp.G) unc := by
  unfold baseMultiply
  rw [apiFinish_spec _ (ecmultGen_ref k).1, ecmultGen_mul]

theorem slice_bytes {xy : List Nat} (hb : ∀ b ∈ xy, b < 256) (i : Nat) : ∀ x ∈ (xy.drop i).take 32, x < 256 :=
  fun x hx => hb x (List.mem_of_mem_drop (List.mem_of_mem_take hx))

theorem canon_mag8 {a : Fe} (h : a.canon) : a.mag 8 := mag_mono (canon_mag1 h) (by decide)

theorem ite_chain33 {α : Type} (b c : Bool) (e pk : α)
    (h : (if (!b) = true then none else if c = true then some e else none) = some pk) :
    b = true ∧ c = true ∧ pk = e := by
  cases b <;> cases c <;> simp_all

theorem ite_chain65 {α : Type} (b1 b2 : Bool) (q : Prop) [Decidable q] (c : Bool) (e pk : α)
    (h : (if (!b1 || !b2) = true then none else if q then none else if c = true then some e else none) = some pk) :
    b1 = true ∧ b2 = true ∧ ¬ q ∧ c = true ∧ pk = e := by
  by_cases hq : q <;> cases b1 <;> cases b2 <;> cases c <;> simp_all

/-- whatever `XY.ParsePubkey` accepts is an affine point within the contract (both coordinates canonical), finite,
    on the curve, with x = the big-endian value of bytes 1..32, which is below p -/
theorem parsePubkey_ok (xy : List Nat) (hb : ∀ b ∈ xy, b < 256) (pk : XY) (h : XY.parsePubkey xy = some pk) :
    pk.ok ∧ pk.inf = false ∧ OnC pk.toPoint ∧ pk.x.canon ∧ pk.x.val = beVal ((xy.drop 1).take 32) ∧
      beVal ((xy.drop 1).take 32) < P := by
  unfold XY.parsePubkey at h
  simp only [setB32Limit] at h
  by_cases c : xy.length = 33 ∧ (xy.headD 0 = 2 ∨ xy.headD 0 = 3)
  · rw [if_pos c] at h
    have hl : ((xy.drop 1).take 32).length = 32 := by simp [c.1]
    obtain ⟨hv, hc⟩ := setB32L_val _ hl (slice_bytes hb 1)
    obtain ⟨ex, ei, eok, _, _⟩ := setXO_ok (setB32L ((xy.drop 1).take 32)) (xy.headD 0 == 3) (canon_mag8 hc)
    obtain ⟨hlt, hval, rfl⟩ := ite_chain33 _ _ _ _ h
    have hcur := ((isValid_iff _ eok).1 hval).2
    refine ⟨eok, ei, ?_, by rw [ex]; exact hc, by rw [ex]; exact hv, of_decide_eq_true hlt⟩
    rw [XY.toPoint_fin ei]; exact (onC_ptF _ _).2 hcur
  · rw [if_neg c] at h
    by_cases c2 : xy.length = 65 ∧ (xy.headD 0 = 4 ∨ xy.headD 0 = 6 ∨ xy.headD 0 = 7)
    · rw [if_pos c2] at h
      have hl : ((xy.drop 1).take 32).length = 32 := by simp [c2.1]
      have hl2 : ((xy.drop 33).take 32).length = 32 := by simp [c2.1]
      obtain ⟨hv, hc⟩ := setB32L_val _ hl (slice_bytes hb 1)
      obtain ⟨hv2, hc2⟩ := setB32L_val _ hl2 (slice_bytes hb 33)
      have eok : XY.ok { x := setB32L ((xy.drop 1).take 32), y := setB32L ((xy.drop 33).take 32), inf := false } :=
        ⟨canon_mag8 hc, canon_mag8 hc2⟩
      obtain ⟨hlt, _, _, hval, rfl⟩ := ite_chain65 _ _ _ _ _ _ h
      have hcur := ((isValid_iff _ eok).1 hval).2
      refine ⟨eok, rfl, ?_, hc, hv, of_decide_eq_true hlt⟩
      rw [XY.toPoint_fin rfl]; exact (onC_ptF _ _).2 hcur
    · rw [if_neg c2] at h
      cases h

/-! ### BaseMultiplyAdd, Multiply -/

theorem withParsed_none (xy : List Nat) (f : XY → ApiRes) (hp : XY.parsePubkey xy = none) : withParsed xy f = .refused := by
  unfold withParsed; rw [hp]

theorem withParsed_some (xy : List Nat) (f : XY → ApiRes) (pk : XY) (hp : XY.parsePubkey xy = some pk) :
    withParsed xy f = f pk := by
  unfold withParsed; rw [hp]

theorem withEcmult_some (o : Option XYZ) (f : XYZ → ApiRes) (r : XYZ) (h : o = some r) : withEcmult o f = f r := by
  subst h; rfl

theorem baseMultiplyAdd_none (xy : List Nat) (k : Nat) (unc : Bool) (hp : XY.parsePubkey xy = none) :
    baseMultiplyAdd xy k unc = .refused := withParsed_none xy _ hp

theorem baseMultiplyAdd_some (xy : List Nat) (k : Nat) (unc : Bool) (pk : XY) (hp : XY.parsePubkey xy = some pk) :
    baseMultiplyAdd xy k unc = apiFinish (XYZ.addXY (ecmultGen k) pk) unc := withParsed_some xy _ pk hp

theorem baseMultiplyAdd_spec (xy : List Nat) (hb : ∀ b ∈ xy, b < 256) (k : Nat) (unc : Bool) (pk : XY)
    (hp : XY.parsePubkey xy = some pk) :
    baseMultiplyAdd xy k unc = apiRef (Secp.add (Secp.mul (k % 2 ^ 256) Secp.G) pk.toPoint) unc := by
  obtain ⟨pok, _, _⟩ := parsePubkey_ok xy hb pk hp
  obtain ⟨h1, h2⟩ := addXY_ok (ecmultGen k) pk (ecmultGen_ref k).1 pok
  rw [baseMultiplyAdd_some xy k unc pk hp, apiFinish_spec _ h1, h2, ecmultGen_mul]

theorem multiply_none (xy : List Nat) (k : Nat) (unc : Bool) (hp : XY.parsePubkey xy = none) :
    multiply xy k unc = .refused := withParsed_none xy _ hp

theorem multiply_some (xy : List Nat) (k : Nat) (unc : Bool) (pk : XY) (r : XYZ) (hp : XY.parsePubkey xy = some pk)
    (hr : ecmult (XYZ.ofXY pk) (k : Int) 0 = some r) :
    multiply xy k unc = apiFinish r unc :=
  (withParsed_some xy _ pk hp).trans (withEcmult_some _ _ r hr)

theorem multiply_spec (xy : List Nat) (hb : ∀ b ∈ xy, b < 256) (k : Nat) (unc : Bool) (pk : XY)
    (hp : XY.parsePubkey xy = some pk) (hA : OnC (XYZ.ofXY pk).toPoint)
    (hn : ((CurveConsts.order : Nat) : Int) • mkPt (XYZ.ofXY pk).toPoint hA = 0)
    (hl : ∀ A' : CurvePt, Rp (XYZ.mulLambda (XYZ.ofXY pk)) A' →
      A' = ((CurveConsts.lambda : Nat) : Int) • mkPt (XYZ.ofXY pk).toPoint hA) :
    multiply xy k unc = apiRef (Secp.mul k pk.toPoint) unc := by
  obtain ⟨pok, _, _⟩ := parsePubkey_ok xy hb pk hp
  obtain ⟨jok, jpt⟩ := ofXY_ok pk pok
  obtain ⟨r, hr, hR⟩ := ecmult_mul (XYZ.ofXY pk) jok hA (k : Int) 0 (by norm_num) hn hl
  rw [multiply_some xy k unc pk r hp hr, apiFinish_spec r hR.1, hR.2, zero_nsmul, add_zero, natCast_zsmul, ← mul_eq_nsmul]
  simp only [mkPt, jpt]

/-! ### the operand G: every hypothesis discharged -/

/-- SEC1 compressed encoding of the generator: 02 ‖ Gx -/
def gBytes : List Nat := 2 :: toB32 CurveConsts.gx

theorem gBytes_bytes : ∀ b ∈ gBytes, b < 256 := by decide +kernel

/-- `ParsePubkey(02‖Gx)` is, limb for limb, the table entry pre_g[0] (one kernel evaluation of the model: SetB32,
    the square-root chain of SetXO, IsValid) -/
theorem parse_G : XY.parsePubkey gBytes = some (preGXY 0) := by decide +kernel

theorem multiply_G (k : Nat) (unc : Bool) : multiply gBytes k unc = apiRef (Secp.mul k Secp.G) unc := by
  obtain ⟨r, hr, hR⟩ := ecmult_G (k : Int) 0 (by norm_num)
  have hr' : ecmult (XYZ.ofXY (preGXY 0)) (k : Int) 0 = some r := hr
  rw [multiply_some gBytes k unc (preGXY 0) r parse_G hr', apiFinish_spec r hR.1, hR.2, zero_nsmul, add_zero,
    natCast_zsmul, ← mul_G]

theorem baseMultiplyAdd_G (k : Nat) (unc : Bool) :
    baseMultiplyAdd gBytes k unc = apiRef (Secp.mul (k % 2 ^ 256 + 1) Secp.G) unc := by
  rw [baseMultiplyAdd_spec gBytes gBytes_bytes k unc (preGXY 0) parse_G, preGXY0_RpA.2, mul_G, mul_G, ← val_add,
    add_nsmul, one_nsmul]

end GocoinV.C08
