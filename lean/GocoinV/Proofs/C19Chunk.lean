/-
  Proofs.C19Chunk — the first Write of writedatfile that reaches the file when the snapshot is larger than the bufio
  buffer (model level; used by the observation about the 1 MiB bound in Props/C19).
-/
import GocoinV.Proofs.C19CrashDefrag
import GocoinV.Proofs.C19Bound
namespace GocoinV.Proofs.C19
open GocoinV GocoinV.Qdb

/-- small writes that overflow a non-empty bufio buffer: the first Write that reaches the file carries exactly the first
    `bufSize` bytes of the stream -/
theorem bufWriteAll_first_flush (sink : DB → Bytes → DB) (ps1 : List Bytes) (p : Bytes) (ps2 : List Bytes) (d : DB)
    (h1 : ps1.flatten.length ≤ bufSize) (hne : ps1.flatten ≠ []) (h2 : bufSize < ps1.flatten.length + p.length)
    (h3 : p.length - (bufSize - ps1.flatten.length) ≤ bufSize) :
    bufWriteAll sink d {} (ps1 ++ p :: ps2) =
      bufWriteAll sink (sink d ((ps1.flatten ++ p).take bufSize)) { buf := p.drop (bufSize - ps1.flatten.length) } ps2 := by
  have hs := bufWriteAll_small sink ps1 d {} (by simpa using h1)
  unfold bufWriteAll at hs ⊢
  rw [List.foldl_append, hs, List.foldl_cons]
  have hstep : bufWrite sink d { buf := ([] : Bytes) ++ ps1.flatten } p =
      (sink d ((ps1.flatten ++ p).take bufSize), { buf := p.drop (bufSize - ps1.flatten.length) }) := by
    unfold bufWrite
    simp only [List.nil_append]
    rw [if_neg (by omega)]
    have : ps1.flatten.isEmpty = false := by
      cases h : ps1.flatten with
      | nil => exact absurd h hne
      | cons _ _ => rfl
    simp only [this, Bool.false_eq_true, ↓reduceIte]
    rw [if_neg (by rw [List.length_drop]; omega)]
    rw [List.take_append, List.take_of_length_le h1]
  rw [hstep]

theorem emits_bufWriteAll {P : Effect → Prop} (sink : DB → Bytes → DB) (hs : SinkEmits P sink) (ps : List Bytes) (db : DB)
    (w : BufW) : Emits P (bufWriteAll sink db w ps).1 db := by
  unfold bufWriteAll
  induction ps generalizing db w with
  | nil => exact Emits.refl P db
  | cons p t ih =>
    simp only [List.foldl_cons]
    exact (ih _ _).trans (emits_bufWrite sink hs db w p)

theorem idxSink_emitsT (i : Nat) : SinkEmits (fun _ => True) (idxSink i) :=
  fun d _ => emits_emit d _ _ trivial

/-- whatever writedatfile does after a given state of its buffered writer only appends file operations -/
theorem writedatfile_tail_effs (i j : Nat) (S : DB) (w : BufW) (ps : List Bytes) (X : List (String × Effect))
    (hS : S.effs = X) :
    ∃ rest, (emit (emit { bufFlush (idxSink i) (bufWriteAll (idxSink i) S w ps).1 (bufWriteAll (idxSink i) S w ps).2 with
        logOpen := false } "qdb.writedatfile:log-removed" .removeLog) "qdb.writedatfile:old-removed" (.removeIdx j)).effs =
      X ++ rest := by
  have hE : Emits (fun _ => True) (emit (emit { bufFlush (idxSink i) (bufWriteAll (idxSink i) S w ps).1
      (bufWriteAll (idxSink i) S w ps).2 with logOpen := false } "qdb.writedatfile:log-removed" .removeLog)
      "qdb.writedatfile:old-removed" (.removeIdx j)) S :=
    (emits_emit _ _ _ trivial).trans ((emits_emit _ _ _ trivial).trans ((Emits.of_eq rfl).trans
      ((emits_bufFlush _ (idxSink_emitsT _) _ _).trans (emits_bufWriteAll _ (idxSink_emitsT _) _ _ _))))
  obtain ⟨es, h, _⟩ := hE
  exact ⟨es, by rw [h, hS]⟩

/-- the pieces writedatfile hands to its bufio.Writer when record number `pre.length` is `(k, r)` -/
theorem idxWrites_split (pre post : List (Key × Rec)) (k : Key) (r : Rec) (ver : Nat) :
    idxWrites (pre ++ (k, r) :: post) ver =
      ([le32 ver] ++ pre.flatMap (fun kr => [le64 kr.1, le32 kr.2.pos, le32 kr.2.len, le32 kr.2.seq, le32 kr.2.flags]) ++
        [le64 k, le32 r.pos]) ++ le32 r.len ::
      ([le32 r.seq, le32 r.flags] ++ post.flatMap (fun kr => [le64 kr.1, le32 kr.2.pos, le32 kr.2.len, le32 kr.2.seq, le32 kr.2.flags]) ++
        [[0xff, 0xff, 0xff, 0xff], le32 ver, [0x46, 0x49, 0x4e, 0x49]]) := by
  simp [idxWrites, List.flatMap_append, List.append_assoc]

theorem idxWrites_head_flatten (pre : List (Key × Rec)) (r : Rec) (ver : Nat) (hp : r.pos = 0x494E4946) :
    ([le32 ver] ++ pre.flatMap (fun kr => [le64 kr.1, le32 kr.2.pos, le32 kr.2.len, le32 kr.2.seq, le32 kr.2.flags]) ++
        [le64 (ver * 2^32 + 0xFFFFFFFF), le32 r.pos]).flatten = snapBytes ver pre := by
  rw [← idxWrites_flatten pre ver]
  simp only [idxWrites, List.flatten_append, List.flatten_cons, List.flatten_nil, List.append_nil, le64_trailer, hp,
    le32_fini, List.append_assoc]
  rfl

/-- OBSERVATION in the model: with the record of snapshot_cut_at_buffer_boundary_observation at position 43 690 of the
    index, the first Write of writedatfile that reaches the new index file carries exactly the complete snapshot of the
    first 43 690 records -/
theorem writedatfile_first_write (db : DB) (pre post : List (Key × Rec)) (r : Rec)
    (hidx : db.index = pre ++ (u32 (db.verSeq + 1) * 2^32 + 0xFFFFFFFF, r) :: post)
    (hn : pre.length = 43690) (hp : r.pos = 0x494E4946) :
    ∃ rest, (writedatfile db).effs = db.effs ++
      [("qdb.writedatfile:created", .createIdx (1 - db.datIdx)),
       ("qdb.writedatfile:written", .appendIdx (1 - db.datIdx) (snapBytes (u32 (db.verSeq + 1)) pre))] ++ rest := by
  unfold writedatfile
  dsimp only
  generalize hD : (emit { db with datIdx := 1 - db.datIdx, verSeq := u32 (db.verSeq + 1) } "qdb.writedatfile:created"
      (.createIdx (1 - db.datIdx))) = D0
  have e1 : D0.index = db.index := by rw [← hD]; rfl
  have e2 : D0.verSeq = u32 (db.verSeq + 1) := by rw [← hD]; rfl
  have e4 : D0.effs = db.effs ++ [("qdb.writedatfile:created", .createIdx (1 - db.datIdx))] := by rw [← hD]; rfl
  rw [e1, e2, hidx, idxWrites_split]
  have hfl := idxWrites_head_flatten pre r (u32 (db.verSeq + 1)) hp
  have hlen : (snapBytes (u32 (db.verSeq + 1)) pre).length = bufSize := by
    rw [snapBytes_length, hn]; decide
  rw [bufWriteAll_first_flush (idxSink (1 - db.datIdx)) _ (le32 r.len) _ D0 (by rw [hfl, hlen]; exact Nat.le_refl _)
    (by rw [hfl]; intro h; rw [h] at hlen; cases hlen) (by rw [hfl, hlen]; simp [le32]) (by rw [hfl, hlen]; simp [le32]; decide)]
  rw [hfl, List.take_append_of_le_length (by rw [hlen]; exact Nat.le_refl _), ← hlen, List.take_length]
  generalize hS : idxSink (1 - db.datIdx) D0 (snapBytes (u32 (db.verSeq + 1)) pre) = S
  have eS : S.effs = db.effs ++ [("qdb.writedatfile:created", .createIdx (1 - db.datIdx)),
       ("qdb.writedatfile:written", .appendIdx (1 - db.datIdx) (snapBytes (u32 (db.verSeq + 1)) pre))] := by
    rw [← hS]; simp [idxSink, emit, e4]
  exact writedatfile_tail_effs _ _ S _ _ _ eS
theorem idxFile_create_append (F : FS) (i : Nat) (X : Bytes) :
    idxFile (F.applyAll [.createIdx i, .appendIdx i X]) i = some X := by
  by_cases h : i = 0
  · simp [FS.applyAll, FS.apply, idxFile, h]
  · simp [FS.applyAll, FS.apply, idxFile, h]
end GocoinV.Proofs.C19
