/-
  Proofs.C14Words — facts about the regenerated BIP39 word list, by kernel evaluation of a linear
  "strictly increasing" check on Nat keys, lifted to Pairwise / Nodup by a general lemma.
-/
import GocoinV.Model.Bip39
namespace GocoinV.Proofs.C14
open GocoinV

/-- big-endian value of the word right-padded with zero bytes to 8 bytes: for words of at most 8
    non-zero bytes the order of keys is the lexicographic order of the words -/
def wordKey (w : Bytes) : Nat := beVal (w ++ List.replicate (8 - w.length) 0)

def strictInc : List Nat → Bool
  | [] => true
  | [_] => true
  | a :: b :: t => decide (a < b) && strictInc (b :: t)

theorem strictInc_head_lt : ∀ (l : List Nat) (a : Nat), strictInc (a :: l) = true → ∀ x ∈ l, a < x
  | [], _, _ => by simp
  | b :: t, a, h => by
    simp only [strictInc, Bool.and_eq_true, decide_eq_true_eq] at h
    intro x hx
    rcases List.mem_cons.mp hx with rfl | hx
    · exact h.1
    · exact Nat.lt_trans h.1 (strictInc_head_lt t b h.2 x hx)

theorem strictInc_tail : ∀ (l : List Nat) (a : Nat), strictInc (a :: l) = true → strictInc l = true
  | [], _, _ => rfl
  | _ :: _, _, h => by
    simp only [strictInc, Bool.and_eq_true] at h
    exact h.2

theorem strictInc_pairwise : ∀ (l : List Nat), strictInc l = true → l.Pairwise (· < ·)
  | [], _ => List.Pairwise.nil
  | a :: l, h => List.Pairwise.cons (strictInc_head_lt l a h) (strictInc_pairwise l (strictInc_tail l a h))

theorem nodup_of_key_inc {α : Type} (f : α → Nat) (l : List α) (h : strictInc (l.map f) = true) : l.Nodup := by
  have hp := strictInc_pairwise _ h
  rw [List.pairwise_map] at hp
  exact hp.imp (fun hab e => by subst e; exact Nat.lt_irrefl _ hab)

theorem keys_inc : strictInc (Bip39.wordList.map wordKey) = true := by decide +kernel

theorem prefix_keys_inc : strictInc ((Bip39.wordList.map (·.take 4)).map wordKey) = true := by decide +kernel

theorem words_shape : Bip39.wordList.all (fun w => 3 ≤ w.length && w.length ≤ 8 && w.all (fun c => 97 ≤ c.toNat && c.toNat ≤ 122)) = true := by
  decide +kernel

end GocoinV.Proofs.C14
