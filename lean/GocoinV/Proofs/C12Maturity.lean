/-
  Proofs.C12Maturity — what removeUnspendableCoinbaseSpends (4th `fix:` commit, model: `expire` over `unspendableKeys`)
  achieves: in the state BlockUndone leaves for the block of height `h`, no pooled record has a confirmed (unflagged)
  input that a block of height `h` cannot spend (missing output, or coinbase output immature at `h`).  Core Lean only.
-/
import GocoinV.Proofs.C12Block
namespace GocoinV.Mempool

/-- expiry only removes records, and removes every listed one (when the process stays alive) -/
theorem expire_post {K : Keys} {W : Tx → Prop} {rank : TxId → Nat} {u0 : UT} {ν : OutPoint → Nat}
    {A : OutPoint → Prop} {Cf : TxId → Prop} (U : Univ2 K W rank u0 ν) : ∀ (old : List Nat) (s : State),
    (s.panicked = false → PoolOK K W ν A Cf s) → (expire K s old).panicked = false →
    (∀ b x, (expire K s old).pool.get? b = some x → s.pool.get? b = some x) ∧
    (∀ b ∈ old, (expire K s old).pool.get? b = none) := by
  intro old
  induction old with
  | nil => intro s _ _; exact ⟨fun _ _ h => h, fun _ hb => by cases hb⟩
  | cons b r ih =>
    intro s h hp
    have hexp : expire K s (b :: r) = expire K (match s.pool.get? b with
        | some t => delWithChildren K 0 (s.pool.length + 1) s t
        | none => s) r := by
      unfold expire; rfl
    rw [hexp] at hp ⊢
    generalize hs1 : (match s.pool.get? b with
        | some t => delWithChildren K 0 (s.pool.length + 1) s t
        | none => s) = s1 at hp ⊢
    have hp1 : s1.panicked = false := alive_of_env (expire_env K s1 r) hp
    -- the first deletion
    have first : (s1.panicked = false → PoolOK K W ν A Cf s1) ∧
        (∀ b' x, s1.pool.get? b' = some x → s.pool.get? b' = some x) ∧ s1.pool.get? b = none := by
      cases hb : s.pool.get? b with
      | none =>
        rw [hb] at hs1
        subst hs1
        exact ⟨h, fun _ _ hx => hx, hb⟩
      | some t =>
        rw [hb] at hs1
        subst hs1
        have g := h (alive_of_env (delWithChildren_env K 0 _ s t) hp1)
        have hk : K.bidx t.tx.id = b := g.w.base.str.key _ _ hb
        obtain ⟨d1, d2⟩ := delWC_ok U 0 _ s t g (by rw [hk]; exact hb) hp1
        exact ⟨fun _ => d1.ok, d1.subP, by rw [← hk]; exact d2⟩
    obtain ⟨f1, f2, f3⟩ := first
    obtain ⟨i1, i2⟩ := ih s1 f1 hp
    refine ⟨fun b' x hx => f2 b' x (i1 b' x hx), ?_⟩
    intro b' hb'
    rcases List.mem_cons.mp hb' with rfl | hb'
    · cases hx : (expire K s1 r).pool.get? b' with
      | none => rfl
      | some x => rw [i1 b' x hx] at f3; cases f3
    · exact i2 b' hb'

theorem unspendableAt_congr (s s' : State) (h : Nat) (t : T2S) (e : s'.utxo = s.utxo) :
    unspendableAt s' h t = unspendableAt s h t := by
  unfold unspendableAt; rw [e]

/-- after the sweep over `unspendableKeys s h` no surviving record is unspendable at `h` -/
theorem sweep_clean {K : Keys} {W : Tx → Prop} {rank : TxId → Nat} {u0 : UT} {ν : OutPoint → Nat}
    (U : Univ2 K W rank u0 ν) (s : State) (h : Nat) (g : PGoodP K W u0 ν s)
    (hp : (expire K s (unspendableKeys s h)).panicked = false) :
    ∀ b t, (expire K s (unspendableKeys s h)).pool.get? b = some t →
      unspendableAt (expire K s (unspendableKeys s h)) h t = false := by
  obtain ⟨p1, p2⟩ := expire_post U (unspendableKeys s h) s g hp
  intro b t hb
  rw [unspendableAt_congr s _ h t (expire_env K s _).utxo]
  cases hu : unspendableAt s h t with
  | false => rfl
  | true =>
    exfalso
    have hin : (b, t) ∈ s.pool := AList.mem_of_get? _ _ _ (p1 b t hb)
    have hk : b ∈ unspendableKeys s h := by
      unfold unspendableKeys
      exact List.mem_map.mpr ⟨(b, t), List.mem_filter.mpr ⟨hin, hu⟩, rfl⟩
    rw [p2 b hk] at hb
    cases hb

/-- BlockUndone for the block of height `uh` (model `blockUndoneAt`), from a state with the carried invariants: if the
    process is alive afterwards, no pooled record has a confirmed input that a block of height `uh` cannot spend -/
theorem blockUndoneAt_clean {K : Keys} {W : Tx → Prop} {rank : TxId → Nat} {u0 : UT} {ν : OutPoint → Nat}
    (U : Univ2 K W rank u0 ν) (mf : Nat) (s s' : State) (uh : Nat) (txs : List Tx)
    (hd : disconnectUtxo s = some (s', txs))
    (hc : ChainOK u0 ν s) (g : PGoodP K W u0 ν s) (hI : InvR K W s)
    (uc : UndoCommitTxs u0 ν s s' txs)
    (hp : (blockUndoneAt K mf s' uh txs).panicked = false) :
    ∀ b t, (blockUndoneAt K mf s' uh txs).pool.get? b = some t →
      unspendableAt (blockUndoneAt K mf s' uh txs) uh t = false :=
  sweep_clean U _ uh (blockUndone_good U mf s s' txs hd hc g hI uc) hp

end GocoinV.Mempool
