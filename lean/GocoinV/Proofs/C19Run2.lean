/-
  Proofs.C19Run2 — the second invariant (which index slot is free, data-file sequence numbers on disk) along
  every history, so that the crash analysis of defrag() applies to every reachable state.
-/
import GocoinV.Proofs.C19CrashDefrag
namespace GocoinV.Proofs.C19
open GocoinV GocoinV.Qdb GocoinV.QdbSpec

variable {eg : Bool}

structure Inv2 (db : DB) : Prop where
  free : checkIdxFile (idxFile db.fs (1 - db.datIdx)) = none
  other : checkIdxFile (otherIdx db.fs (1 - db.datIdx)) = none ∨
    ∃ Xo, checkIdxFile (otherIdx db.fs (1 - db.datIdx)) = some (db.verSeq, Xo)
  seqs : ∀ kr ∈ diskIndex db.fs, kr.2.seq ≤ db.dataSeq

theorem inv2_same {a b : DB} (h : Inv2 b) (h1 : a.fs = b.fs) (h2 : a.datIdx = b.datIdx) (h3 : a.verSeq = b.verSeq)
    (h4 : a.dataSeq = b.dataSeq) : Inv2 a :=
  ⟨by rw [h1, h2]; exact h.free, by rw [h1, h2, h3]; exact h.other, by rw [h1, h4]; exact h.seqs⟩

theorem plan_puts_seq (seq : Nat) (ks : List Key) (idx : List (Key × Rec)) (pos : Nat) :
    ∀ k r, LogEntry.put k r ∈ (syncPlan seq idx ks pos).2.1 → r.seq = seq := by
  induction ks generalizing idx pos with
  | nil => intro k r h; simp [syncPlan] at h
  | cons j t ih =>
    cases hl : ilookup j idx with
    | none =>
      simp only [syncPlan, hl]
      intro k r h
      simp only [List.mem_cons] at h
      rcases h with h | h
      · cases h
      · exact ih idx pos k r h
    | some rc =>
      simp only [syncPlan, hl]
      intro k r h
      simp only [List.mem_cons, LogEntry.put.injEq] at h
      rcases h with ⟨_, h⟩ | h
      · rw [h]
      · exact ih _ _ k r h

theorem defrag_datIdx (db : DB) (h : Cached db) : (defrag db).datIdx = 1 - db.datIdx := by
  obtain ⟨hs1, hs2, hs3, hs4, hs5, hs8, hs9⟩ := defragStart_disk db
  have hf0 : (defragStart db).failed = none := hs5.trans h.1
  obtain ⟨d', w', hfold, _, _, hrest⟩ :=
    defragFold_layout (u32 (db.dataSeq + 1)) db.index h.2 (defragStart db) {} [] hf0 (defragStart_frame db).eager
  rw [hs3, hs2, List.nil_append] at hfold
  have hd'f : d'.failed = none := by
    have := congrArg (fun x => x.2.2.2.2.2.2.1) hrest
    exact this.trans hf0
  have hd'i : d'.datIdx = db.datIdx := by
    have := congrArg (fun x => x.2.2.2.2.2.2.2.1) hrest
    exact this.trans hs8
  have hdef : defrag db = defragFinish (u32 (db.dataSeq + 1)) d' w' (layout (u32 (db.dataSeq + 1)) 4 db.index) := by
    unfold defrag
    simp only [hs4, hs3, hfold, hd'f]
  rw [hdef]
  let recs := layout (u32 (db.dataSeq + 1)) 4 db.index
  let e1 : DB := { d' with index := recs }
  let e2 := bufFlush (defragSink (u32 (db.dataSeq + 1))) e1 w'
  have hg2 := (bufFlush_gen (defragSink (u32 (db.dataSeq + 1))) (fun _ => (none : Option Bytes))
    (fun d => d.datIdx) (fun _ _ => rfl) (fun _ _ => rfl) e1 w').2
  have hck := cleanupold_keeps (writedatfile e2) (if recs.isEmpty then [] else [u32 (db.dataSeq + 1)])
    (writedatfile e2).dataSeq (Or.inl rfl)
  unfold cleanKeeps at hck
  simp only [Prod.mk.injEq] at hck
  obtain ⟨_, _, _, _, _, _, _, cdi, _⟩ := hck
  show (cleanupold (writedatfile e2) _).datIdx = _
  rw [cdi, (writedatfile_disk e2).2.2.2.2.1, hg2]
  show 1 - d'.datIdx = _
  rw [hd'i]

theorem defrag_diskIndex (d : DB) (h : Cached d) (hwf : IndexWF d.eager d.index) :
    diskIndex (defrag d).fs = mapV strip (layout (u32 (d.dataSeq + 1)) 4 d.index) := by
  obtain ⟨_, _, d3, d4, d5, _, _⟩ := defrag_disk d h
  have hS : u32 (d.dataSeq + 1) < 2^32 := u32_lt _
  have hV : u32 (d.verSeq + 1) < 2^32 := u32_lt _
  have hfits := layout_fits _ hS d.index hwf.wf 4 hwf.small
  obtain ⟨j, hpick⟩ := pickIdx_single (defrag d).fs (1 - d.datIdx) (u32 (d.verSeq + 1)) _
    (checkIdxFile_snapBytes _ _ hV) d3 d4
  have hrecs := snapshotRecs_snapBytes (u32 (d.verSeq + 1)) (layout (u32 (d.dataSeq + 1)) 4 d.index) hfits
  have hkeys : (Keys ((layout (u32 (d.dataSeq + 1)) 4 d.index).map stripKR)).Nodup := by
    have : Keys ((layout (u32 (d.dataSeq + 1)) 4 d.index).map stripKR) = d.index.map (·.1) := by
      unfold Keys
      rw [List.map_map]
      have : ((fun x : Key × Rec => x.1) ∘ stripKR) = (fun x : Key × Rec => x.1) := by funext x; rfl
      rw [this, layout_keys]
    rw [this]; exact hwf.nodup
  unfold diskIndex snapBase logEntries
  rw [hpick, d5]
  simp only [applyEntriesL, List.foldl_nil, hrecs]
  exact isetAll_nil_nodup _ hkeys

theorem inv2_defrag (db : DB) (h : Cached db) (hwf : IndexWF db.eager db.index) : Inv2 (defrag db) := by
  obtain ⟨_, d2, d3, d4, d5, d6, d7⟩ := defrag_disk db h
  obtain ⟨_, _, _, _, m5⟩ := defrag_more db h
  have hdi := defrag_datIdx db h
  -- the two slots swap roles
  have hswap : idxFile (defrag db).fs (1 - (1 - db.datIdx)) = otherIdx (defrag db).fs (1 - db.datIdx) ∧
      otherIdx (defrag db).fs (1 - (1 - db.datIdx)) = idxFile (defrag db).fs (1 - db.datIdx) := by
    unfold idxFile otherIdx
    by_cases hd : db.datIdx = 0
    · simp [hd]
    · have h1 : 1 - db.datIdx = 0 := by omega
      simp [h1]
  constructor
  · rw [hdi, hswap.1, d4]; rfl
  · rw [hdi, hswap.2, m5, d3]
    exact Or.inr ⟨_, checkIdxFile_snapBytes _ _ (u32_lt _)⟩
  · intro kr hkr
    rw [defrag_diskIndex db h hwf] at hkr
    obtain ⟨x, hx, rfl⟩ := List.mem_map.mp hkr
    have := layout_seq _ _ _ x hx
    rw [d7]
    show x.2.seq ≤ _
    omega

theorem sync_inv2 (db : DB) (inv : DiskInv db) (i2 : Inv2 db) (hs : SizeOK db) : Inv2 (sync db) := by
  cases hp : db.pending.isEmpty with
  | true =>
    have : sync db = db := by unfold sync; simp [inv.nv, hp]
    rw [this]; exact i2
  | false =>
    obtain ⟨L, hL, invL, absL, _, _, _, _, _, b1, b2, b3, b4, b5, b6, _⟩ := sync_logWritten db inv hp hs.1
    have i2L : Inv2 L := by
      constructor
      · unfold idxFile; rw [b1, b4, b5]; exact i2.free
      · unfold otherIdx; rw [b1, b2, b4, b5]; exact i2.other
      · intro kr hkr
        rw [b6] at hkr
        rw [b3]
        rcases mem_applyEntriesL _ _ kr hkr with h | h
        · exact i2.seqs kr h
        · obtain ⟨e, he, hee⟩ := List.mem_map.mp h
          cases e with
          | del k => simp [stripE] at hee
          | put k r =>
            simp only [stripE, LogEntry.put.injEq] at hee
            have := plan_puts_seq db.dataSeq db.pending db.index (checkDat db).lastPos k r he
            rw [← hee.2]
            show r.seq ≤ _
            omega
    rw [hL]
    split
    · exact inv2_defrag L invL.cached
        ⟨invL.cached.2, invL.wf, invL.nodup, by rw [valsOf_of_absv L db absL]; exact hs.2⟩
    · exact i2L

theorem afterChange_inv2 (M : DB) (k : Key) (hM : DiskInv (addPending M k)) (i2 : Inv2 (addPending M k))
    (hs : SizeOK (addPending M k)) (hv : M.volatile = false) : Inv2 (afterChange M k) := by
  unfold afterChange
  rw [if_neg (by simp [hv])]
  split
  · exact sync_inv2 _ hM i2 hs
  · exact i2

/-- the invariants of a state, together -/
structure Inv3 (db : DB) : Prop where
  inv : DiskInv db
  i2 : Inv2 db

theorem step_inv3 (db : DB) (h : Inv3 db) (op : Op) (ok : OpOK db.eager op) (fits : OpFits db op) : Inv3 (step db op) := by
  refine ⟨step_inv db h.inv op ok fits, ?_⟩
  have inv := h.inv
  have i2 := h.i2
  cases op with
  | put k v =>
    obtain ⟨a, b, c⟩ := fits
    show Inv2 (putExt db k v 0)
    unfold putExt
    rw [if_neg (notFailed inv.cached)]
    obtain ⟨e, n, m, hmp⟩ := memput_same db k (newRec v 0)
    have hM := putExt_addPending_inv db inv k v 0 a b (by decide) (zeroFlags_ok _)
    refine afterChange_inv2 _ k hM ?_ c (by rw [hmp]; exact inv.nv)
    rw [addPending_same, hmp]; exact inv2_same i2 rfl rfl rfl rfl
  | putExt k v f =>
    obtain ⟨a, b, c, d⟩ := fits
    show Inv2 (putExt db k v f)
    unfold putExt
    rw [if_neg (notFailed inv.cached)]
    obtain ⟨e, n, m, hmp⟩ := memput_same db k (newRec v f)
    have hM := putExt_addPending_inv db inv k v f a b c ok
    refine afterChange_inv2 _ k hM ?_ d (by rw [hmp]; exact inv.nv)
    rw [addPending_same, hmp]; exact inv2_same i2 rfl rfl rfl rfl
  | del k =>
    show Inv2 (del db k)
    unfold del
    rw [if_neg (notFailed inv.cached)]
    obtain ⟨e, n, hmd⟩ := memdel_same db k
    have hM := del_addPending_inv db inv k fits.1
    refine afterChange_inv2 _ k hM ?_ fits.2 (by rw [hmd]; exact inv.nv)
    rw [addPending_same, hmd]; exact inv2_same i2 rfl rfl rfl rfl
  | get k =>
    show Inv2 (Qdb.get db k).1
    unfold Qdb.get
    rw [if_neg (notFailed inv.cached)]
    cases hl : ilookup k db.index with
    | none => exact i2
    | some r =>
      simp only [loadrec_cached db.fs r (allCached_lookup inv.cached.2 k r hl)]
      exact inv2_same i2 rfl rfl rfl rfl
  | browse w =>
    show Inv2 (browse db w).1
    obtain ⟨h1, _⟩ := browseGen_cached false db w inv.cached ok
    unfold browse
    rw [h1]
    exact inv2_same i2 rfl rfl rfl rfl
  | applyFlags k fl =>
    show Inv2 (applyFlags db k fl)
    unfold applyFlags
    rw [if_neg (notFailed inv.cached)]
    cases hl : ilookup k db.index with
    | none => exact i2
    | some r => exact inv2_same i2 rfl rfl rfl rfl
  | defrag f =>
    show Inv2 (defragOp db f).1
    unfold defragOp
    rw [if_neg (notFailed inv.cached), if_neg (by simp [inv.nv])]
    dsimp only
    split
    · exact inv2_defrag db inv.cached ⟨inv.cached.2, inv.wf, inv.nodup, fits.2⟩
    · exact i2
  | sync =>
    show Inv2 (syncOp db)
    unfold syncOp
    rw [if_neg (notFailed inv.cached), if_neg (by simp [inv.nv])]
    exact sync_inv2 _ (inv_noSync db inv false) (inv2_same i2 rfl rfl rfl rfl) fits
  | noSync =>
    show Inv2 (noSyncOp db)
    unfold noSyncOp
    rw [if_neg (notFailed inv.cached), if_neg (by simp [inv.nv])]
    exact inv2_same i2 rfl rfl rfl rfl
  | reopen a b c => exact absurd ok (by simp [OpOK])

theorem run_inv3 (ops : List Op) (db : DB) (h : Inv3 db) (ok : ∀ op ∈ ops, OpOK db.eager op) (fits : RunFits db ops) :
    Inv3 (run db ops) := by
  induction ops generalizing db with
  | nil => exact h
  | cons op t ih =>
    exact ih (step db op) (step_inv3 db h op (ok op List.mem_cons_self) fits.1)
      (fun o ho => by
        rw [step_eager db op h.inv.cached (ok op List.mem_cons_self)]; exact ok o (List.mem_cons_of_mem _ ho))
      fits.2

theorem fresh_inv3 (load : Bool) (opts : Opts) : Inv3 (openDB {} false load opts eg) := by
  refine ⟨fresh_inv load opts, ?_⟩
  have e : openDB {} false load opts eg = { fs := {}, volatile := false, opts := opts, dataSeq := 1, eager := eg } := by
    cases load <;> rfl
  rw [e]
  exact ⟨rfl, Or.inl rfl, by intro kr h; cases h⟩

/-- every reachable state is ready for the crash analysis of defrag, given the size side conditions -/
theorem defragReady_of_inv3 (db : DB) (h : Inv3 db) (hs : SizeOK db) (hseq : db.dataSeq + 1 < 2^32)
    (hsmall : (snapBytes (u32 (db.verSeq + 1)) (layout (u32 (db.dataSeq + 1)) 4 db.index)).length ≤ bufSize) :
    DefragReady db := by
  obtain ⟨E, hEf, hE⟩ := h.inv.logst
  refine ⟨h.inv.cached, ⟨h.inv.cached.2, h.inv.wf, h.inv.nodup, hs.2⟩, h.i2.free, ⟨h.i2.other, E, hE⟩, h.inv.verlt,
    fun kr hkr => ⟨h.inv.dflags kr hkr, h.inv.dreads kr hkr⟩, ?_, ⟨E, hEf, hE⟩, h.inv.ver, hsmall⟩
  intro kr hkr
  have := h.i2.seqs kr hkr
  have hu : u32 (db.dataSeq + 1) = db.dataSeq + 1 := Nat.mod_eq_of_lt hseq
  rw [hu]; omega

end GocoinV.Proofs.C19
