/-
  Proofs.C07Torn — a snapshot file that cannot be read (torn UTXO.db and/or UTXO.old: power loss, full disk) at ANY crash prefix
  of ANY history: the directory stays good, NewChainExt opens it at UTXO.old's state / at genesis.  Core Lean only.
-/
import GocoinV.Proofs.C07Hist
import GocoinV.Model.PersistSpec
namespace GocoinV.Proofs.C07
open GocoinV.Persist

theorem ids_tearDb (d : Disk) (a b : Bool) : ids (tearDb d a b) = ids d := rfl

/-- dropping a snapshot file keeps the directory invariant -/
theorem tearDb_inv {P : Snap → Prop} {d : Disk} (hd : DiskInv P d) (a b : Bool) : DiskInv P (tearDb d a b) := by
  refine ⟨hd.datCovers, hd.datParent, hd.idxValid, hd.idxClosed, ?_, ?_, hd.tmpGood⟩
  · intro sn h
    simp only [tearDb] at h
    cases a
    · exact hd.dbGood sn (by simpa using h)
    · simp at h
  · intro sn h
    simp only [tearDb] at h
    cases b
    · exact hd.oldGood sn (by simpa using h)
    · simp at h

theorem crashAt_eq_restartFrom' (bigs : List Coin) (ops : List Op) (k : Nat) :
    crashAt bigs ops k = restartFrom (applyAll {} ((run bigs ops).es.take k)) bigs ops := rfl

/-- NewChainExt on the directory left by a crash after ANY k effects of ANY history, with UTXO.db and/or UTXO.old unreadable -/
theorem torn_reopen' (bigs : List Coin) (ops : List Op) (k : Nat) (a b : Bool) :
    ∃ s1, openNode (tearDb (applyAll {} ((run bigs ops).es.take k)) a b) bigs 0 = .ok s1 ∧ s1.err = none ∧
      ((s1.n.tip = 0 ∧ s1.n.utxo = [] ∧ s1.n.lastHeight = 0) ∨ PastState bigs ops ⟨s1.n.tip, s1.n.lastHeight, s1.n.utxo⟩) ∧
      inTree s1.n s1.n.tip = true ∧
      ((a = true ∧ b = true) → s1.n.tip = 0 ∧ s1.n.utxo = []) := by
  obtain ⟨q, h⟩ := run_inv bigs ops
  have hd0 : DiskInv (PastState bigs ops) (applyAll {} ((run bigs ops).es.take k)) := h.pref k
  have hd := tearDb_inv hd0 a b
  obtain ⟨s1, ho, _, he, hcase, hin, _⟩ := openNode_inv hd bigs 0
  refine ⟨s1, ho, he, ?_, hin, ?_⟩
  · rcases hcase with ⟨_, h0, h1', h2'⟩ | ⟨sn, hl, ht, hu, hh⟩
    · exact Or.inl ⟨h0, h1', h2'⟩
    · right; rw [ht, hu, hh]; exact (loadSnap_good hd hl).1
  · rintro ⟨rfl, rfl⟩
    rcases hcase with ⟨_, h0, h1', _⟩ | ⟨sn, hl, _⟩
    · exact ⟨h0, h1'⟩
    · simp [loadSnap, tearDb] at hl

end GocoinV.Proofs.C07
