/-
  Proofs.C06TxOrder — the ORDER of a block's transactions is part of what `commitTxs` checks: the map of the block's
  own outputs (`blUnsp`) gets a transaction's outputs only after that transaction's inputs were processed, and
  processing an input never adds a key to it. So an input whose source is neither an unspent output of the database
  nor an output of a transaction listed EARLIER in the block stops the block — whatever comes later in the list.
-/
import GocoinV.Model.UtxoOps
import GocoinV.Proofs.C06Commit
namespace GocoinV.UtxoOps

theorem alookup_none_of_not_mem {β} {k : Nat} {l : List (Nat × β)} (h : k ∉ l.map (·.1)) : alookup k l = none := by
  induction l with
  | nil => rfl
  | cons p ps ih =>
    obtain ⟨a, b⟩ := p
    simp only [List.map_cons, List.mem_cons, not_or] at h
    have h1 : (a == k) = false := by simpa using fun e : a = k => h.1 e.symm
    simp only [alookup, h1, Bool.false_eq_true, if_false]
    exact ih h.2

/-- processing one input never adds a key to the map of the block's own outputs -/
theorem procInput_blUnsp_keys (u : DB) (h : Nat) (st st' : CState) (i : TxIn) (v : Nat)
    (hr : procInput u h st i = .ok (st', v)) : ∀ k, k ∈ st'.blUnsp.map (·.1) → k ∈ st.blUnsp.map (·.1) := by
  have key : ∀ (t : List (Option Out)) (wasCb : Bool) (x : List (Option Out) × Bool),
      alookup i.txid st.blUnsp = some (t, wasCb) →
      ∀ k, k ∈ (aset i.txid x st.blUnsp).map (·.1) → k ∈ st.blUnsp.map (·.1) := by
    intro t wasCb x hb k hk
    have hm : i.txid ∈ st.blUnsp.map (·.1) := List.mem_map.mpr ⟨_, alookup_some_mem hb, rfl⟩
    rw [aset_keys] at hk
    simpa [hm] using hk
  unfold procInput at hr
  simp only [bind, Except.bind, pure, Except.pure, throw, throwThe, MonadExceptOf.throw] at hr
  split at hr
  · split at hr
    · cases hr
    · split at hr
      · cases hr
      · split at hr
        · split at hr
          · cases hr
          · rename_i t wasCb hb
            split at hr
            · cases hr
            · split at hr
              · cases hr
              · split at hr
                · cases hr
                · simp only [Except.ok.injEq, Prod.mk.injEq] at hr
                  rw [← hr.1]
                  exact key _ _ _ hb
        · split at hr
          · cases hr
          · simp only [Except.ok.injEq, Prod.mk.injEq] at hr
            rw [← hr.1]
            exact fun k hk => hk
  · split at hr
    · split at hr
      · cases hr
      · rename_i t wasCb hb
        split at hr
        · cases hr
        · split at hr
          · cases hr
          · split at hr
            · cases hr
            · simp only [Except.ok.injEq, Prod.mk.injEq] at hr
              rw [← hr.1]
              exact key _ _ _ hb
    · split at hr
      · cases hr
      · simp only [Except.ok.injEq, Prod.mk.injEq] at hr
        rw [← hr.1]
        exact fun k hk => hk

/-- an input whose source is not unspent in the database and not among the block's own outputs registered so far
    is refused -/
theorem procInput_unknown (u : DB) (h : Nat) (st : CState) (i : TxIn)
    (hg : unspentGet u i.txid i.vout = none) (hb : i.txid ∉ st.blUnsp.map (·.1)) :
    ∃ e, procInput u h st i = .error e := by
  have hb' := alookup_none_of_not_mem hb
  unfold procInput
  simp only [bind, Except.bind, throw, throwThe, MonadExceptOf.throw, hg, hb']
  split
  · split
    · exact ⟨_, rfl⟩
    · split
      · exact ⟨_, rfl⟩
      · exact ⟨_, rfl⟩
  · exact ⟨_, rfl⟩

theorem procInputs_unknown (u : DB) (h : Nat) (is : List TxIn) (st : CState) (i : TxIn) (hi : i ∈ is)
    (hg : unspentGet u i.txid i.vout = none) (hb : i.txid ∉ st.blUnsp.map (·.1)) :
    ∃ e, procInputs u h st is = .error e := by
  induction is generalizing st with
  | nil => cases hi
  | cons j js ih =>
    simp only [procInputs, bind, Except.bind, pure, Except.pure]
    cases hj : procInput u h st j with
    | error e => exact ⟨e, rfl⟩
    | ok x =>
      obtain ⟨st1, v1⟩ := x
      rcases List.mem_cons.mp hi with e | hin
      · subst e
        obtain ⟨e, he⟩ := procInput_unknown u h st i hg hb
        rw [he] at hj; cases hj
      · have hb1 : i.txid ∉ st1.blUnsp.map (·.1) := fun hk => hb (procInput_blUnsp_keys u h st st1 j v1 hj _ hk)
        obtain ⟨e, he⟩ := ih st1 hin hb1
        simp only [he]
        exact ⟨e, rfl⟩

theorem procInputs_blUnsp_keys (u : DB) (h : Nat) (is : List TxIn) (st st' : CState) (v : Nat)
    (hr : procInputs u h st is = .ok (st', v)) : ∀ k, k ∈ st'.blUnsp.map (·.1) → k ∈ st.blUnsp.map (·.1) := by
  induction is generalizing st st' v with
  | nil =>
    simp only [procInputs, pure, Except.pure, Except.ok.injEq, Prod.mk.injEq] at hr
    rw [← hr.1]; exact fun k hk => hk
  | cons i is ih =>
    simp only [procInputs, bind, Except.bind, pure, Except.pure] at hr
    split at hr
    · cases hr
    · rename_i x hx
      obtain ⟨st1, v1⟩ := x
      simp only at hr
      split at hr
      · cases hr
      · rename_i y hy
        obtain ⟨st2, s⟩ := y
        simp only [Except.ok.injEq, Prod.mk.injEq] at hr
        rw [← hr.1]
        exact fun k hk => procInput_blUnsp_keys u h st st1 i v1 hx k (ih st1 _ s hy k hk)

/-- the loop over the block's transactions stops at a transaction with such an input, whatever follows it -/
theorem procTxs_forward_spend (u : DB) (h : Nat) (pre : List Tx) (tx : Tx) (post : List Tx) (first : Bool)
    (st : CState) (i : TxIn) (hi : i ∈ tx.ins)
    (hfirst : first = true → pre ≠ [])
    (hg : unspentGet u i.txid i.vout = none) (hb : i.txid ∉ st.blUnsp.map (·.1))
    (hpre : ∀ p ∈ pre, p.txid ≠ i.txid) :
    ∃ e, procTxs u h first st (pre ++ tx :: post) = .error e := by
  induction pre generalizing first st with
  | nil =>
    cases first with
    | true => exact absurd rfl (hfirst rfl)
    | false =>
      obtain ⟨e, he⟩ := procInputs_unknown u h tx.ins st i hi hg hb
      simp only [List.nil_append, procTxs, bind, Except.bind, pure, Except.pure, Bool.false_eq_true, if_false, he]
      exact ⟨e, rfl⟩
  | cons p ps ih =>
    have hp : p.txid ≠ i.txid := hpre p List.mem_cons_self
    have hps : ∀ q ∈ ps, q.txid ≠ i.txid := fun q hq => hpre q (List.mem_cons_of_mem _ hq)
    have hadd : ∀ (bl : List (Nat × (List (Option Out) × Bool))) (x : List (Option Out) × Bool),
        i.txid ∉ bl.map (·.1) → i.txid ∉ (aset p.txid x bl).map (·.1) := by
      intro bl x hn hk
      rw [aset_keys] at hk
      split at hk
      · exact hn hk
      · simp only [List.mem_append, List.mem_singleton] at hk
        rcases hk with hk | hk
        · exact hn hk
        · exact hp hk.symm
    cases first with
    | true =>
      simp only [List.cons_append, procTxs, bind, Except.bind, pure, Except.pure, if_true, Bool.not_true,
        Bool.false_and, Bool.false_eq_true, if_false]
      obtain ⟨e, he⟩ := ih false { st with blUnsp := aset p.txid (p.outs.map some, true) st.blUnsp }
        (fun hh => by cases hh) (hadd _ _ hb) hps
      simp only [he]
      exact ⟨e, rfl⟩
    | false =>
      simp only [List.cons_append, procTxs, bind, Except.bind, pure, Except.pure, Bool.false_eq_true, if_false]
      cases hx : procInputs u h st p.ins with
      | error e => exact ⟨e, rfl⟩
      | ok x =>
        obtain ⟨st1, tin⟩ := x
        have hb1 : i.txid ∉ st1.blUnsp.map (·.1) := fun hk => hb (procInputs_blUnsp_keys u h p.ins st st1 tin hx _ hk)
        simp only [Bool.not_false, Bool.true_and]
        split
        · exact ⟨_, rfl⟩
        · obtain ⟨e, he⟩ := ih false { st1 with blUnsp := aset p.txid (p.outs.map some, false) st1.blUnsp }
            (fun hh => by cases hh) (hadd _ _ hb1) hps
          simp only [he]
          exact ⟨e, rfl⟩

/-- `commitTxs` refuses a block in which a non-coinbase transaction has an input that is neither unspent in the
    database nor an output of a transaction listed earlier in the block — with the scripts checked or skipped -/
theorem commitTxs_forward_spend (u : DB) (h rwd : Nat) (tr : Bool) (pre : List Tx) (tx : Tx) (post : List Tx)
    (i : TxIn) (hi : i ∈ tx.ins) (hne : pre ≠ [])
    (hg : unspentGet u i.txid i.vout = none) (hpre : ∀ p ∈ pre, p.txid ≠ i.txid) :
    ∃ e, commitTxs u h rwd tr (pre ++ tx :: post) = .error e := by
  obtain ⟨e, he⟩ := procTxs_forward_spend u h pre tx post true {} i hi (fun _ => hne) hg (by simp) hpre
  unfold commitTxs
  simp only [bind, Except.bind, throw, throwThe, MonadExceptOf.throw, he]
  split
  · exact ⟨_, rfl⟩
  · exact ⟨_, rfl⟩

end GocoinV.UtxoOps
