/-
  Proofs.C03Der — `Signature.Bytes` writes canonical (BIP66 strict) DER for 0 < r, s < 2^256 and
  `Signature.ParseBytes` reads the two integers back. Core Lean only.
-/
import GocoinV.Proofs.C03
namespace GocoinV.Proofs.C03
open GocoinV GocoinV.Model GocoinV.Model.Sig GocoinV.Spec.Ecdsa

theorem leVal_append (a b : Bytes) : leVal (a ++ b) = leVal a + 256 ^ a.length * leVal b := by
  induction a with
  | nil => simp [leVal]
  | cons x a ih =>
    simp only [List.cons_append, leVal, ih, List.length_cons, Nat.pow_succ]
    rw [Nat.mul_right_comm, Nat.mul_comm (256 ^ a.length * leVal b) 256]
    generalize 256 ^ a.length * leVal b = w
    omega

theorem beVal_cons (b : UInt8) (l : Bytes) : beVal (b :: l) = b.toNat * 256 ^ l.length + beVal l := by
  unfold beVal
  rw [List.reverse_cons, leVal_append]
  simp only [leVal, List.length_reverse, Nat.mul_zero, Nat.add_zero]
  rw [Nat.mul_comm]; omega

theorem beVal_dropWhile_zero (l : Bytes) : beVal (l.dropWhile (· == 0)) = beVal l := by
  induction l with
  | nil => rfl
  | cons b l ih =>
    by_cases hb : b = 0
    · subst hb
      simp only [List.dropWhile_cons, beq_self_eq_true, ↓reduceIte]
      rw [ih, beVal_cons]; simp
    · have : (b == 0) = false := by simp [hb]
      simp [this]

theorem beVal_beBytes (k v : Nat) (h : v < 256 ^ k) : beVal (beBytes k v) = v := by
  unfold beVal beBytes
  rw [List.reverse_reverse, leVal_leBytes, Nat.mod_eq_of_lt h]

theorem toNat_pos_of_ne_zero (b : UInt8) (hb : b ≠ 0) : 1 ≤ b.toNat := by
  rcases Nat.eq_zero_or_pos b.toNat with h | h
  · exact absurd (UInt8.toNat_inj.mp (by simpa using h)) hb
  · exact h

/-- `big.Int.Bytes()` of 0 < v < 2^256: non-empty, no leading zero, at most 32 bytes, value v -/
theorem natBytes_spec (v : Nat) (h0 : 0 < v) (hv : v < 2 ^ 256) :
    ∃ b bs, natBytes v = b :: bs ∧ b ≠ 0 ∧ bs.length < 32 ∧ beVal (b :: bs) = v := by
  have hval : beVal (natBytes v) = v := by
    unfold natBytes
    rw [beVal_dropWhile_zero, beVal_beBytes]
    exact Nat.lt_of_lt_of_le hv (by decide)
  match hn : natBytes v with
  | [] => rw [hn] at hval; simp [beVal, leVal] at hval; omega
  | b :: bs =>
    rw [hn] at hval
    have hb : b ≠ 0 := by
      have hne : (beBytes 40 v).dropWhile (· == 0) ≠ [] := by
        unfold natBytes at hn; rw [hn]; simp
      have := List.head_dropWhile_not (· == 0) hne
      unfold natBytes at hn
      simp only [hn, List.head_cons, beq_eq_false_iff_ne, ne_eq] at this
      exact this
    refine ⟨b, bs, rfl, hb, ?_, hval⟩
    have h1 := toNat_pos_of_ne_zero b hb
    rw [beVal_cons] at hval
    have h2 : 256 ^ bs.length ≤ v := by
      calc 256 ^ bs.length ≤ b.toNat * 256 ^ bs.length := Nat.le_mul_of_pos_left _ h1
        _ ≤ v := by omega
    have h3 : 256 ^ bs.length < 256 ^ 32 := Nat.lt_of_le_of_lt h2 (by simpa using hv)
    exact (Nat.pow_lt_pow_iff_right (by decide)).mp h3

/-- one DER integer of 0 < v < 2^256 -/
theorem derInt_spec (v : Nat) (h0 : 0 < v) (hv : v < 2 ^ 256) :
    ∃ a ra, derInt v = some (a :: ra) ∧ a < 0x80 ∧ (a = 0 → ra.getD 0 0 ≥ 0x80) ∧
      ra.length ≤ 32 ∧ beVal (a :: ra) = v := by
  obtain ⟨b, bs, hn, hb, hlen, hval⟩ := natBytes_spec v h0 hv
  unfold derInt
  rw [hn]
  by_cases hge : b ≥ 0x80
  · refine ⟨0, b :: bs, by simp [hge], by decide, fun _ => by simpa using hge, by simp; omega, ?_⟩
    rw [beVal_cons]; simpa using hval
  · refine ⟨b, bs, by simp [hge], UInt8.not_le.mp hge, fun h => absurd h hb, by omega, hval⟩

theorem getD_append_right' {α} (l1 l2 : List α) (k : Nat) (d : α) :
    (l1 ++ l2).getD (l1.length + k) d = l2.getD k d := by
  induction l1 with
  | nil => simp
  | cons x l ih =>
    have : (x :: l).length + k = (l.length + k) + 1 := by simp; omega
    rw [List.cons_append, this, List.getD_cons_succ, ih]

/-- BIP66 strictness from the facts the encoder establishes -/
theorem strict_abs (sig : Bytes) (lr ls : Nat) (hlr : 1 ≤ lr ∧ lr ≤ 33) (hls : 1 ≤ ls ∧ ls ≤ 33)
    (hlen : sig.length = lr + ls + 6) (g0 : sig.getD 0 0 = 0x30)
    (g1 : (sig.getD 1 0).toNat = lr + ls + 4) (g2 : sig.getD 2 0 = 2) (g3 : (sig.getD 3 0).toNat = lr)
    (g4 : sig.getD 4 0 < 0x80) (g45 : lr > 1 → sig.getD 4 0 = 0 → sig.getD 5 0 ≥ 0x80)
    (gs2 : sig.getD (lr + 4) 0 = 2) (gsl : (sig.getD (5 + lr) 0).toNat = ls)
    (gs0 : sig.getD (lr + 6) 0 < 0x80)
    (gs01 : ls > 1 → sig.getD (lr + 6) 0 = 0 → sig.getD (lr + 7) 0 ≥ 0x80) :
    isStrictDER sig = true := by
  unfold isStrictDER
  simp only [hlen, g0, g1, g2, g3, gsl, gs2]
  have c1 : ¬ (lr + ls + 6 < 8 ∨ lr + ls + 6 > 72) := by omega
  have c2 : ¬ ((48 : UInt8) ≠ 48 ∨ lr + ls + 4 ≠ lr + ls + 6 - 2) := by
    rintro (h | h)
    · exact h rfl
    · omega
  have c3 : ¬ (5 + lr ≥ lr + ls + 6) := by omega
  have c4 : ¬ (lr + ls + 6 ≠ lr + ls + 6) := by omega
  have c5 : ¬ ((2 : UInt8) ≠ 2 ∨ lr = 0 ∨ sig.getD 4 0 ≥ 0x80) := by
    rintro (h | h | h)
    · exact h rfl
    · omega
    · exact absurd g4 (UInt8.not_lt.mpr h)
  have c6 : ¬ (lr > 1 ∧ sig.getD 4 0 = 0 ∧ sig.getD 5 0 < 0x80) := by
    rintro ⟨a, b, c⟩
    exact absurd c (UInt8.not_lt.mpr (g45 a b))
  have c7 : ¬ ((2 : UInt8) ≠ 2 ∨ ls = 0 ∨ sig.getD (lr + 6) 0 ≥ 0x80) := by
    rintro (h | h | h)
    · exact h rfl
    · omega
    · exact absurd gs0 (UInt8.not_lt.mpr h)
  have c8 : ¬ (ls > 1 ∧ sig.getD (lr + 6) 0 = 0 ∧ sig.getD (lr + 7) 0 < 0x80) := by
    rintro ⟨a, b, c⟩
    exact absurd c (UInt8.not_lt.mpr (gs01 a b))
  rw [if_neg c1, if_neg c2, if_neg c3, if_neg c4, if_neg c5, if_neg c6, if_neg c7, if_neg c8]

theorem ofNat_toNat_small (k : Nat) (h : k < 256) : (UInt8.ofNat k).toNat = k := by
  simp [UInt8.toNat_ofNat', Nat.mod_eq_of_lt h]

/-- `Signature.Bytes` of (r, s), both in [1, 2^256): strict DER that decodes back to (r, s). -/
theorem sigBytes_canonical (r s : Nat) (hr0 : 0 < r) (hr : r < 2 ^ 256) (hs0 : 0 < s) (hs : s < 2 ^ 256) :
    ∃ der, sigBytes r s = some der ∧ isStrictDER der = true ∧ decodeSig der = some (r, s) := by
  obtain ⟨a, ra, hdr, ha, ha0, hral, hrv⟩ := derInt_spec r hr0 hr
  obtain ⟨c, sc, hds, hc, hc0, hscl, hsv⟩ := derInt_spec s hs0 hs
  unfold sigBytes
  rw [hdr, hds]
  refine ⟨_, rfl, ?_, ?_⟩
  · -- strictness
    have e : [0x30, UInt8.ofNat (4 + (a :: ra).length + (c :: sc).length), 0x02, UInt8.ofNat (a :: ra).length]
          ++ (a :: ra) ++ [0x02, UInt8.ofNat (c :: sc).length] ++ (c :: sc)
        = 0x30 :: UInt8.ofNat (4 + (ra.length + 1) + (sc.length + 1)) :: 0x02 :: UInt8.ofNat (ra.length + 1) :: a ::
            (ra ++ (0x02 :: UInt8.ofNat (sc.length + 1) :: c :: sc)) := by simp
    rw [e]
    have t : ∀ k, (0x30 :: UInt8.ofNat (4 + (ra.length + 1) + (sc.length + 1)) :: 0x02 :: UInt8.ofNat (ra.length + 1) :: a ::
            (ra ++ (0x02 :: UInt8.ofNat (sc.length + 1) :: c :: sc))).getD (ra.length + k + 5) 0
          = (0x02 :: UInt8.ofNat (sc.length + 1) :: c :: sc).getD k 0 := by
      intro k
      simp only [List.getD_cons_succ]
      exact getD_append_right' _ _ _ _
    apply strict_abs _ (ra.length + 1) (sc.length + 1) (by omega) (by omega)
    · simp; omega
    · rfl
    · simp only [List.getD_cons_succ, List.getD_cons_zero]; rw [ofNat_toNat_small _ (by omega)]; omega
    · rfl
    · simp only [List.getD_cons_succ, List.getD_cons_zero]; exact ofNat_toNat_small _ (by omega)
    · simpa using ha
    · intro hl h4
      simp only [List.getD_cons_succ, List.getD_cons_zero] at h4 ⊢
      have := ha0 h4
      cases ra with
      | nil => simp at hl
      | cons x xs => simpa using this
    · have := t 0; simpa [Nat.add_comm, Nat.add_left_comm] using this
    · have := t 1
      have e2 : 5 + (ra.length + 1) = ra.length + 1 + 5 := by omega
      rw [e2, this]; simp only [List.getD_cons_succ, List.getD_cons_zero]
      exact ofNat_toNat_small _ (by omega)
    · have := t 2
      have e2 : ra.length + 1 + 6 = ra.length + 2 + 5 := by omega
      rw [e2, this]; simpa using hc
    · intro hl h6
      have t2 := t 2
      have t3 := t 3
      have e2 : ra.length + 1 + 6 = ra.length + 2 + 5 := by omega
      have e3 : ra.length + 1 + 7 = ra.length + 3 + 5 := by omega
      rw [e2, t2] at h6
      rw [e3, t3]
      simp only [List.getD_cons_succ, List.getD_cons_zero] at h6 ⊢
      exact hc0 h6
  · -- decoding
    have e : [0x30, UInt8.ofNat (4 + (a :: ra).length + (c :: sc).length), 0x02, UInt8.ofNat (a :: ra).length]
          ++ (a :: ra) ++ [0x02, UInt8.ofNat (c :: sc).length] ++ (c :: sc)
        = 0x30 :: UInt8.ofNat (4 + (ra.length + 1) + (sc.length + 1)) :: 0x02 :: UInt8.ofNat (ra.length + 1) ::
            ((a :: ra) ++ (0x02 :: UInt8.ofNat (sc.length + 1) :: c :: sc)) := by simp
    rw [e]
    unfold decodeSig
    have l1 : (UInt8.ofNat (ra.length + 1)).toNat = ra.length + 1 := ofNat_toNat_small _ (by omega)
    have l2 : (UInt8.ofNat (sc.length + 1)).toNat = sc.length + 1 := ofNat_toNat_small _ (by omega)
    have l3 : (UInt8.ofNat (4 + (ra.length + 1) + (sc.length + 1))).toNat = 4 + (ra.length + 1) + (sc.length + 1) :=
      ofNat_toNat_small _ (by omega)
    have d1 : ((a :: ra) ++ (0x02 :: UInt8.ofNat (sc.length + 1) :: c :: sc)).drop (ra.length + 1)
        = 0x02 :: UInt8.ofNat (sc.length + 1) :: c :: sc := List.drop_left' (by simp)
    have d2 : ((a :: ra) ++ (0x02 :: UInt8.ofNat (sc.length + 1) :: c :: sc)).take (ra.length + 1)
        = a :: ra := List.take_left' (by simp)
    have d3 : (c :: sc).take (sc.length + 1) = c :: sc := List.take_of_length_le (by simp)
    simp only [l1, d1, d2, l2, l3, d3, hrv, hsv]
    have c1 : ¬ ((48 : UInt8) ≠ 48 ∨ (2 : UInt8) ≠ 2) := by simp
    have c2 : ¬ (ra.length + 1 = 0 ∨
        ((a :: ra) ++ (0x02 :: UInt8.ofNat (sc.length + 1) :: c :: sc)).length < ra.length + 1 + 2) := by
      simp <;> omega
    have c3 : ¬ ((2 : UInt8) ≠ 2 ∨ sc.length + 1 = 0 ∨ (c :: sc).length < sc.length + 1 ∨
        4 + (ra.length + 1) + (sc.length + 1) ≠ ra.length + 1 + (sc.length + 1) + 4) := by
      simp <;> omega
    rw [if_neg c1, if_neg c2, if_neg c3]

end GocoinV.Proofs.C03
