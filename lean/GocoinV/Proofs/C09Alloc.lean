/-
  Proofs.C09Alloc — `allocTx K b ≤ K.tx + (K.txIn + K.txOut + 67)·|b|` for every byte string. Core tactics only.
-/
import GocoinV.Model.WireAlloc
import GocoinV.Proofs.C09Size
namespace GocoinV.Wire
open GocoinV GocoinV.CompactSize

theorem mul_split (c x y : Nat) (h : y ≤ x) : c * (x - y) + c * y = c * x := by
  rw [← Nat.mul_add, Nat.sub_add_cancel h]

/-- a loop allocates at most `c` per byte of the buffer plus `k` per element, when each element does -/
theorem allocN_le {α : Type} (f : Bytes → Option (α × Bytes)) (a : Bytes → Nat) (c k : Nat)
    (hs : ∀ b x r, f b = some (x, r) → r.length ≤ b.length ∧ a b ≤ c * (b.length - r.length) + k)
    (hf : ∀ b, f b = none → a b ≤ c * b.length + k) :
    ∀ (n : Nat) (b : Bytes), allocN f a n b ≤ c * b.length + k * n := by
  intro n
  induction n with
  | zero => intro b; simp [allocN]
  | succ n ih =>
    intro b
    simp only [allocN]
    cases hfb : f b with
    | none =>
      have := hf b hfb
      simp only [Nat.mul_succ]; omega
    | some p =>
      obtain ⟨x, r⟩ := p
      obtain ⟨h1, h2⟩ := hs b x r hfb
      have h3 := ih r
      have h4 := mul_split c b.length r.length h1
      simp only [Nat.mul_succ]; omega

/-- the same for a loop that completed: per byte CONSUMED -/
theorem allocN_le_succ {α : Type} (f : Bytes → Option (α × Bytes)) (a : Bytes → Nat) (c k : Nat)
    (hs : ∀ b x r, f b = some (x, r) → r.length ≤ b.length ∧ a b ≤ c * (b.length - r.length) + k) :
    ∀ (n : Nat) (b : Bytes) (xs : List α) (r : Bytes), decodeN f n b = some (xs, r) →
      r.length ≤ b.length ∧ allocN f a n b ≤ c * (b.length - r.length) + k * n := by
  intro n
  induction n with
  | zero =>
    intro b xs r h
    simp only [decodeN, Option.some.injEq, Prod.mk.injEq] at h
    obtain ⟨rfl, rfl⟩ := h
    simp [allocN]
  | succ n ih =>
    intro b xs r h
    simp only [decodeN] at h
    simp only [allocN]
    cases hfb : f b with
    | none => simp [hfb] at h
    | some p =>
      obtain ⟨x, b'⟩ := p
      simp only [hfb] at h ⊢
      cases hrec : decodeN f n b' with
      | none => simp [hrec] at h
      | some q =>
        obtain ⟨ys, b''⟩ := q
        simp only [hrec, Option.some.injEq, Prod.mk.injEq] at h
        obtain ⟨_, rfl⟩ := h
        obtain ⟨h1, h2⟩ := hs b x b' hfb
        obtain ⟨h3, h4⟩ := ih b' ys b'' hrec
        have e : c * (b.length - b''.length) = c * (b.length - b'.length) + c * (b'.length - b''.length) := by
          rw [← Nat.mul_add]; congr 1; omega
        refine ⟨by omega, ?_⟩
        simp only [Nat.mul_succ]; omega

/-! ### elements -/

theorem vlenWire_le {b r : Bytes} {v : Nat} (h : vlenWire b = some (v, r)) :
    v ≤ r.length ∧ r.length + 1 ≤ b.length := by
  obtain ⟨_, h2, _⟩ := vlenWire_spec h
  obtain ⟨_, h3, h4⟩ := vlenWire_rest h
  exact ⟨h2, by omega⟩

theorem allocItem_succ (b x r : Bytes) (h : decodeItem b = some (x, r)) :
    r.length ≤ b.length ∧ allocItem b ≤ 1 * (b.length - r.length) + 0 := by
  unfold decodeItem decodeItemWith at h
  unfold allocItem
  cases hv : vlenWire b with
  | none => simp [hv] at h
  | some p =>
    obtain ⟨le', r0⟩ := p
    simp only [hv] at h ⊢
    obtain ⟨h1, h2⟩ := vlenWire_le hv
    obtain ⟨hx, hl⟩ := readN_spec h
    have := congrArg List.length hx
    simp only [List.length_append] at this
    omega

theorem allocItem_fail (b : Bytes) : allocItem b ≤ 1 * b.length + 0 := by
  unfold allocItem
  cases hv : vlenWire b with
  | none => simp
  | some p =>
    obtain ⟨le', r0⟩ := p
    obtain ⟨h1, h2⟩ := vlenWire_le hv
    simp only; omega

theorem allocStack_succ (b : Bytes) (s : List Bytes) (r : Bytes) (h : decodeStack b = some (s, r)) :
    r.length ≤ b.length ∧ allocStack b ≤ 25 * (b.length - r.length) + 0 := by
  unfold decodeStack decodeStackWith at h
  unfold allocStack
  cases hv : vlenWire b with
  | none => simp [hv] at h
  | some p =>
    obtain ⟨n, r0⟩ := p
    simp only [hv] at h ⊢
    obtain ⟨h1, h2⟩ := vlenWire_le hv
    obtain ⟨h3, h4⟩ := allocN_le_succ decodeItem allocItem 1 0 allocItem_succ n r0 s r h
    have ⟨a2, l2⟩ := decodeN_spec (decodeItemWith vlenWire) encodeItem
      (fun b x r hx => decodeItem_spec hx) _ _ _ _ h
    have hge := encodeList_length_ge encodeItem encodeItem_pos s
    have := congrArg List.length a2
    simp only [List.length_append] at this
    omega

theorem allocStack_fail (b : Bytes) : allocStack b ≤ 25 * b.length + 0 := by
  unfold allocStack
  cases hv : vlenWire b with
  | none => simp
  | some p =>
    obtain ⟨n, r0⟩ := p
    obtain ⟨h1, h2⟩ := vlenWire_le hv
    have h3 := allocN_le decodeItem allocItem 1 0 allocItem_succ (fun b _ => allocItem_fail b) n r0
    simp only; omega

theorem allocTxIn_fail (K : AllocK) (b : Bytes) : allocTxIn K b ≤ 1 * b.length + K.txIn := by
  unfold allocTxIn
  cases h1 : readN 36 b with
  | none => simp
  | some p =>
    obtain ⟨x, b'⟩ := p
    have ⟨hx, hl⟩ := readN_spec h1
    have := congrArg List.length hx
    simp only [List.length_append] at this
    simp only
    cases hv : vlenWire b' with
    | none => simp
    | some q =>
      obtain ⟨le', r0⟩ := q
      obtain ⟨h2, h3⟩ := vlenWire_le hv
      simp only; omega

theorem allocTxIn_succ (K : AllocK) (b : Bytes) (i : TxIn) (r : Bytes) (h : decodeTxIn b = some (i, r)) :
    r.length ≤ b.length ∧ allocTxIn K b ≤ 1 * (b.length - r.length) + K.txIn := by
  have hr := decodeTxIn_rest_le b i r h
  refine ⟨hr, ?_⟩
  have hspec := congrArg List.length (decodeTxIn_spec h)
  simp only [List.length_append, encodeTxIn, leBytes_length] at hspec
  -- the script length read by allocTxIn is the decoded script's length
  unfold decodeTxIn decodeTxInWith at h
  unfold allocTxIn
  by_cases h36 : 36 ≤ b.length
  · have h32 : 32 ≤ b.length := by omega
    rw [readN_eq_some h32] at h
    simp only at h
    have h4 : 4 ≤ (b.drop 32).length := by simp; omega
    rw [readN_eq_some h4] at h
    simp only [List.drop_drop] at h
    rw [readN_eq_some h36]
    simp only
    cases hv : vlenWire (b.drop 36) with
    | none => simp
    | some q =>
      obtain ⟨le', r0⟩ := q
      simp only [hv] at h ⊢
      split at h; · simp at h
      rename_i s b4 e4
      split at h; · simp at h
      rename_i sq b5 e5
      simp only [Option.some.injEq, Prod.mk.injEq] at h
      obtain ⟨rfl, rfl⟩ := h
      have ⟨_, l4⟩ := readN_spec e4
      simp only at hspec
      omega
  · have : readN 36 b = none := readN_eq_none h36
    simp [this]

theorem allocTxOut_fail (K : AllocK) (b : Bytes) : allocTxOut K b ≤ 1 * b.length + K.txOut := by
  unfold allocTxOut
  cases h1 : readN 8 b with
  | none => simp
  | some p =>
    obtain ⟨x, b'⟩ := p
    have ⟨hx, hl⟩ := readN_spec h1
    have := congrArg List.length hx
    simp only [List.length_append] at this
    simp only
    cases hv : vlenWire b' with
    | none => simp
    | some q =>
      obtain ⟨le', r0⟩ := q
      obtain ⟨h2, h3⟩ := vlenWire_le hv
      simp only; omega

theorem allocTxOut_succ (K : AllocK) (b : Bytes) (o : TxOut) (r : Bytes) (h : decodeTxOut b = some (o, r)) :
    r.length ≤ b.length ∧ allocTxOut K b ≤ 1 * (b.length - r.length) + K.txOut := by
  have hr := decodeTxOut_rest_le b o r h
  refine ⟨hr, ?_⟩
  have hspec := congrArg List.length (decodeTxOut_spec h)
  simp only [List.length_append, encodeTxOut, leBytes_length] at hspec
  unfold decodeTxOut decodeTxOutWith at h
  unfold allocTxOut
  cases h1 : readN 8 b with
  | none => simp
  | some p =>
    obtain ⟨x, b'⟩ := p
    simp only [h1] at h ⊢
    cases hv : vlenWire b' with
    | none => simp
    | some q =>
      obtain ⟨le', r0⟩ := q
      simp only [hv] at h ⊢
      split at h; · simp at h
      rename_i s b3 e3
      simp only [Option.some.injEq, Prod.mk.injEq] at h
      obtain ⟨rfl, rfl⟩ := h
      have ⟨_, l3⟩ := readN_spec e3
      simp only at hspec
      omega

/-! ### the transaction -/

/-- **alloc_bounded (model).** Whatever the input — accepted, refused by a length check, refused by a rule,
    cut off anywhere — `btc.NewTx` requests at most `K.tx + (K.txIn + K.txOut + 67)·|b|` bytes. -/
theorem allocTx_le (K : AllocK) (b : Bytes) :
    allocTx K b ≤ K.tx + (K.txIn + K.txOut + 67) * b.length := by
  have hexp : (K.txIn + K.txOut + 67) * b.length = K.txIn * b.length + K.txOut * b.length + 67 * b.length := by
    simp only [Nat.add_mul]
  rw [hexp]
  unfold allocTx
  cases e1 : readN 4 b with
  | none => simp
  | some p1 =>
  obtain ⟨ver, b1⟩ := p1
  simp only
  have ⟨a1, l1⟩ := readN_spec e1
  have hb1 : b1.length + 4 = b.length := by
    have := congrArg List.length a1
    simp only [List.length_append] at this; omega
  cases e2 : readMarker b1 with
  | none => simp
  | some p2 =>
  obtain ⟨segwit, b2⟩ := p2
  simp only
  have hb2 : b2.length ≤ b1.length := by
    rcases readMarker_spec e2 with ⟨_, h⟩ | ⟨_, h⟩
    · rw [h]; simp only [List.length_cons]; omega
    · rw [h]; exact Nat.le_refl _
  cases e3 : vlenWire b2 with
  | none => simp
  | some p3 =>
  obtain ⟨nin, b3⟩ := p3
  simp only
  obtain ⟨hnin, hb3⟩ := vlenWire_le e3
  have hI := allocN_le decodeTxIn (allocTxIn K) 1 K.txIn (allocTxIn_succ K) (fun b _ => allocTxIn_fail K b) nin b3
  have hKI : K.txIn * nin ≤ K.txIn * b.length := Nat.mul_le_mul_left _ (by omega)
  cases e4 : decodeN decodeTxIn nin b3 with
  | none => simp only; omega
  | some p4 =>
  obtain ⟨ins, b4⟩ := p4
  simp only
  have ⟨hb4, _⟩ := decodeN_rest_le decodeTxIn decodeTxIn_rest_le _ _ _ _ e4
  cases e5 : vlenWire b4 with
  | none => simp only; omega
  | some p5 =>
  obtain ⟨nout, b5⟩ := p5
  simp only
  obtain ⟨hnout, hb5⟩ := vlenWire_le e5
  split
  · omega
  have hO := allocN_le decodeTxOut (allocTxOut K) 1 K.txOut (allocTxOut_succ K) (fun b _ => allocTxOut_fail K b) nout b5
  have hKO : K.txOut * nout ≤ K.txOut * b.length := Nat.mul_le_mul_left _ (by omega)
  cases e6 : decodeN decodeTxOut nout b5 with
  | none => simp only; omega
  | some p6 =>
  obtain ⟨outs, b6⟩ := p6
  simp only
  have ⟨hb6, _⟩ := decodeN_rest_le decodeTxOut decodeTxOut_rest_le _ _ _ _ e6
  split
  · have hW := allocN_le decodeStack allocStack 25 0 allocStack_succ (fun b _ => allocStack_fail b) nin b6
    omega
  · omega

end GocoinV.Wire
