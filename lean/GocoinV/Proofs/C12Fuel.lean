/-
  Proofs.C12Fuel — the iteration budget of the model's txAccepted loop (`txAccFuel`; the Go loop has none).
  (1) `txAcceptedAux_fuel_succ` / `txAcceptedAux_fuel_le`: a run of the loop that ends alive never reached the budget,
      and every larger budget yields the very same state — so wherever the theorems of Props/C12 assume `alive`, the
      state they speak about is the state of the UNBOUNDED loop; the budget only decides whether the model answers at all.
  (2) the deep-orphan family of the second audit (an orphan spending one output of every member of an unconfirmed
      chain, arriving before all of them): the old budget 2·(|rej|+|pool|)+4 stopped early and left a state gocoin
      never reaches; with `txAccFuel` the family drains completely (kernel evaluation, chain of 8 and of 20).
  Core Lean only.
-/
import GocoinV.Model.Mempool
namespace GocoinV.Mempool

theorem txAcceptedAux_fuel_succ (K : Keys) (mf : Nat) : ∀ (n : Nat) (s : State) (recs : List Nat) (d : Nat),
    (txAcceptedAux K mf n s recs d).panicked = false →
    txAcceptedAux K mf (n + 1) s recs d = txAcceptedAux K mf n s recs d := by
  intro n
  induction n with
  | zero => intro s recs d h; simp [txAcceptedAux] at h
  | succ n ih =>
    intro s recs d h
    conv => lhs; unfold txAcceptedAux
    conv => rhs; unfold txAcceptedAux
    unfold txAcceptedAux at h
    cases hc : recs[d]? with
    | none => rfl
    | some cur =>
      simp only [hc] at h ⊢
      cases hw : s.waiting.get? cur with
      | none =>
        simp only [hw] at h ⊢
        exact ih _ _ _ h
      | some p =>
        obtain ⟨id, ids⟩ := p
        simp only [hw] at h ⊢
        cases ids with
        | nil => rfl
        | cons first rest =>
          simp only [] at h ⊢
          cases hr : s.rej.get? first with
          | none => rfl
          | some txr =>
            simp only [hr] at h ⊢
            cases ht : txr.tx with
            | none => rfl
            | some t =>
              simp only [ht] at h ⊢
              exact ih _ _ _ h

/-- a run of the txAccepted loop that ends alive is independent of the budget from there on -/
theorem txAcceptedAux_fuel_le (K : Keys) (mf : Nat) (n m : Nat) (hle : n ≤ m) (s : State) (recs : List Nat) (d : Nat)
    (h : (txAcceptedAux K mf n s recs d).panicked = false) :
    txAcceptedAux K mf m s recs d = txAcceptedAux K mf n s recs d := by
  induction m with
  | zero =>
    have : n = 0 := by omega
    subst this; rfl
  | succ m ih =>
    by_cases e : n = m + 1
    · subst e; rfl
    · have hm : n ≤ m := by omega
      have e1 := ih hm
      rw [← e1] at h
      rw [txAcceptedAux_fuel_succ K mf m s recs d h, e1]

/-! ### the deep-orphan family -/

namespace Deep

def K0 : Keys := { bidx := id, uidx := fun a b => a * 1000 + b }

/-- the root: spends the confirmed coin (1,0) -/
def X : Tx := { id := 100, ins := [⟨1, 0, 0⟩], outs := [9000], nws := 100, size := 100, scriptOk := true }
/-- chain member i ≥ 1: spends output 0 of its predecessor, second output of 10 for the orphan -/
def P (i : Nat) : Tx :=
  { id := 100 + i, ins := [⟨100 + i - 1, 0, 0⟩], outs := [9000 - 20 * i, 10], nws := 100, size := 100, scriptOk := true }
/-- the orphan: one input per chain member (its output 1) -/
def O (k : Nat) : Tx :=
  { id := 99, ins := (List.range k).map (fun i => ⟨101 + i, 1, 0⟩), outs := [1], nws := 100, size := 100, scriptOk := true }
def s0 : State := { utxo := [((1, 0), ⟨10000, 1, false⟩)], height := 5 }
/-- the orphan first, then the chain members in order (each an orphan of its predecessor), then the root -/
def ops (k : Nat) : List Op :=
  [.submitNet (O k) false 0] ++ (List.range k).map (fun i => .submitNet (P (i + 1)) false 0) ++ [.submitNet X false 0]

/-- the state before the root arrives, and the root accepted by processTx (txAccepted not yet run) -/
def sPre (k : Nat) : State := (processTx K0 0 (run K0 s0 ((ops k).take (k + 1))) X {}).2

/-- the family of the audit (chain of 20, orphan with 20 inputs): everything is pooled, nothing is left rejected or
    waiting, the process is alive; the loop started by the root needs 54 iterations, the budget is 87 -/
theorem drains20 : (run K0 s0 (ops 20)).pool.length = 22 ∧ (run K0 s0 (ops 20)).rej = [] ∧
    (run K0 s0 (ops 20)).waiting = [] ∧ (run K0 s0 (ops 20)).panicked = false ∧
    txAccFuel (sPre 20) = 87 ∧
    (txAcceptedAux K0 0 53 (sPre 20) [100] 0).panicked = true ∧
    (txAcceptedAux K0 0 54 (sPre 20) [100] 0).panicked = false := by
  decide +kernel

/-- … while the budget the model had before the second audit, 2·(|rej|+|pool|)+4 = 48, ran out (it then returned the
    half-drained state silently; now that is the panic flag) -/
theorem old_budget_short : 2 * ((sPre 20).rej.length + (sPre 20).pool.length) + 4 = 48 ∧
    (txAcceptedAux K0 0 48 (sPre 20) [100] 0).panicked = true := by
  decide +kernel

/-- the same family with a chain of 8, the orphan's parents arriving in REVERSE order (each one pooled only when the
    root arrives) -/
def opsRev (k : Nat) : List Op :=
  [.submitNet (O k) false 0] ++ ((List.range k).reverse.map fun i => .submitNet (P (i + 1)) false 0) ++
    [.submitNet X false 0]

theorem drains8_rev : (run K0 s0 (opsRev 8)).pool.length = 10 ∧ (run K0 s0 (opsRev 8)).rej = [] ∧
    (run K0 s0 (opsRev 8)).panicked = false := by
  decide +kernel

end Deep

end GocoinV.Mempool
